#!/usr/bin/env python3
"""join an ops file and the implementation's observation file into driver input lines"""
import sys
ops=[l.rstrip("\n") for l in open(sys.argv[1])]
impl=[l.rstrip("\n") for l in open(sys.argv[2])]
assert len(ops)==len(impl), (len(ops),len(impl))
for o,i in zip(ops,impl):
    print(f"{o} => {i}")
