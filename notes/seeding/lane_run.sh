#!/bin/bash
# lane_run.sh <lane> <tag:pid:checks...> ...
i=$1; shift
export ZTYP_REPO=/tmp/lane$i/repo
cd /tmp/lane$i/verif
for spec in "$@"; do
  IFS=: read tag pid checks <<< "$spec"
  for k in 1 2 3; do
    [ -d /tmp/seedout/$tag/$k ] && timeout 1500 python3 /tmp/lane$i/seed_eval.py /tmp/seedout/$tag/$k $pid-$tag-$k $checks 2>&1 | tail -1 | cut -c1-420
  done
done
echo LANE$i-DONE
