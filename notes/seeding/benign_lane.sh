#!/bin/bash
# benign_lane.sh <lane> <benign-id>...
i=$1; shift
export ZTYP_REPO=/tmp/lane$i/repo GOFLAGS=-mod=mod GOPROXY=off GOSUMDB=off GOTOOLCHAIN=local
cd /tmp/lane$i/verif
for b in "$@"; do
  git -C $ZTYP_REPO apply /verif/seeded/$b/patch.diff || { echo "$b APPLY-FAILED"; continue; }
  res=""
  for p in C02 C07 C13 C14 C17 C18 C19 C20; do
    out=$(./check $p --tier quick 2>&1); rc=$?
    [ $rc -ne 0 ] && res="$res $p($(echo "$out" | grep '^VIOLATION' | head -1 | cut -c1-120))"
  done
  git -C $ZTYP_REPO checkout -- . && git -C $ZTYP_REPO clean -fdq
  echo "$b ALARMS:[${res}]"
done
echo LANE$i-DONE
