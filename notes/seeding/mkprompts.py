import json,glob,os,re,sys
base=open('/tmp/seed-prompt-z03.txt').read()
head=base.split("PROPERTY (file")[0]
mid=base.split("YOUR TASK:")[1].split("ALREADY TRIED")[0]
plan={'b01':'C02','b02':'C17','b03':'C12','b04':'C04','b05':'C05','b06':'C09'}
for tag,pid in plan.items():
    wt=f"/tmp/seed-{tag}"
    tried=[]
    for m in sorted(glob.glob(f'/verif/seeded/{pid}-*/meta.json')):
        try: tried.append(json.load(open(m)).get('title','')[:230])
        except Exception: pass
    prop=open(f'/tmp/prop-{pid}.txt').read()
    h=head.replace('/tmp/seed-s03',wt)
    md=mid.replace('/tmp/seedout/z03',f'/tmp/seedout/{tag}').replace('4 different','3 different').replace('(1..4)','(1..3)')
    txt=h+f"PROPERTY (file /tmp/prop-{pid}.txt):\n"+prop+"\n\nYOUR TASK:"+md+"ALREADY TRIED for this property (do NOT repeat these or near-variants; pick other files / mechanisms; stay within the property's stated domain):\n"+"\n".join("  - "+t for t in tried)+f"\n\nFirst run `cd {wt} && git checkout -- . && git clean -fdq`. Keep each of your individual messages and tool inputs short (several small tool calls rather than one huge one; never print large outputs).\n"
    open(f'/tmp/seed-prompt-{tag}.txt','w').write(txt)
    print(tag,pid,len(tried),len(txt))
