"""Per-property configuration of the runner."""

COMMON_TRUST = [
    "Spec transcription of simple-serialize.md (lean/ZtypV/Spec.lean)",
    "correspondence harness (harness/*.go), runner (check) and the line protocol parsers",
    "fact extractor harness/cmd/factx (go/ast)",
]

def P(n, families, **kw):
    d = dict(module=f"ZtypV.Props.C{n:02d}", namespace=f"ZtypV.Props.C{n:02d}", families=families,
             trusted=list(COMMON_TRUST))
    d.update(kw)
    return d

PROPS = {
    "C01": P(1, ["C01"]),
    "C02": P(2, ["C02"]),
    "C03": P(3, ["C03"]),
    "C04": P(4, ["C04"], stateful=True),
    "C05": P(5, ["C05"], stateful=True),
    "C06": P(6, ["C06"], stateful=True),
    "C07": P(7, ["C07"], stateful=True),
    "C17": P(17, ["C17"], stateful=True),
    "C15": P(15, ["C15"]),
    "C16": P(16, ["C16"],
        rule="model obs == Go obs (CORR) for every g64.* op; PROP verdict computed on Nat (Nat.log2, paths, minimal LE bytes) independent of the model; "
             "all values < 2^17 (thorough; quick: < 2^12 + 1/16 slice), 2^k and 2^k±1, random values per bit-length class; distinct = distinct op lines",
        explanation="BitIndex/BitLength/CoverDepth, all Gindex64 methods, the bit iterator, ToGindex64 and the three byte encodings are proved equal to their "
                    "integer definitions for ALL uint64 inputs (ZtypV.Props.C16.*); the model is tied to /repo/tree/{bitlen,gindex}.go by the differential check",
        assumptions=["Gindex interface values returned by Gindex64 methods are Gindex64 (harness type-asserts)",
                     "Left/Right integer equality only when g < 2^63 (otherwise left_wrap: mod 2^64)",
                     "Subtree/IsLeft properties for g >= 2; nav/iter PROP skipped for the invalid index 0 (CORR still checked)"],
        trusted=COMMON_TRUST + ["Lean core UInt64/UInt8 semantics = Go uint64/uint8 (shift >= 64 handled by shl64/shr64 guards)",
                 "encoding/binary PutUint64 modelled by putLE64/putBE64"]),
}
