"""Per-property configuration of the runner."""

COMMON_TRUST = [
    "Spec transcription of simple-serialize.md (lean/ZtypV/Spec.lean)",
    "correspondence harness (harness/*.go), runner (check) and the line protocol parsers",
    "fact extractor harness/cmd/factx (go/ast)",
]

# which groups of the regenerated fact inventory (harness/cmd/factx) a property's model relies on:
#   consts = package constants; sites = in-place write sites into nodes / package variables;
#   vars = package-level variables; misc = Copy() hook clearing, go statements, sync/unsafe imports, hash binding
FACTS = {4: ["consts", "sites", "misc"], 5: ["consts", "sites", "vars", "misc"], 6: ["consts", "sites", "vars"], 7: ["consts", "sites"],
         12: ["consts", "sites"], 14: ["consts", "sites", "vars", "misc"], 17: ["consts", "sites"], 1: ["consts", "vars"]}

def P(n, families, **kw):
    d = dict(module=f"ZtypV.Props.C{n:02d}", namespace=f"ZtypV.Props.C{n:02d}", families=families,
             trusted=list(COMMON_TRUST), facts=FACTS.get(n, ["consts"]))
    d.update(kw)
    return d

PROPS = {
    "C01": P(1, ["C01"]),
    "C02": P(2, ["C02", "C02c"], extra_modules=["ZtypV.Props.C02b", "ZtypV.Props.C02c"],
        assumptions=["api.* ops (family C02c: type-definition accessors, CheckIndex, FieldValues, the As* casts, Uint256 Bytes32/SetBytes32/MustUint256, DecodingReader.ReadUint32/Skip): CORR model = Go; PROP from Spec and plain integers (perNode = 32/size, bottom nodes = ceil, translateIndex = (i/per, i%per), CheckIndex nil iff i < len, FieldValues = the fields = Get(i), a cast succeeds iff the SSZ type matches, Bytes32 = leBytes 32 n, api.read = the flat-stream answer); "
                     "accessor theorems under no-wrap hypotheses (limit + perNode - 1 < 2^64, bitfields n + 255 < 2^64; the wrapped value is characterised too), Skip counts < 2^63",
                     "t.wf, hasType t v, View.inRange t (every subtree depth < 64: all lengths/limits <= 2^62)", "(serialize t v).length < 2^32 for Serialize of types with offsets (WriteOffset panics beyond)",
                     "round trip fully discharged (C02_decode_complete, C02_roundtrip_total in Props/C02b.lean)"]),
    "C03": P(3, ["C03"]),
    "C04": P(4, ["C04"], stateful=True,
        rule="histories of typed mutations (set/app/pop/chg/setv/appv/appd/setd, through root views, nested and stale sub-views, copies) interleaved with reads (obs = root+bytes+value through getters, len, rd, blen): random long histories over random types, "
             "all histories <= 3 (thorough 5) ops over 12 small types, boundary histories around chunk/power-of-two lengths; CORR vs the object machine Sim.stepM, PROP vs the plain value machine Sim.stepV; distinct = distinct (type shape, op shape, outcome) per position",
        explanation="C04_step / C04_run: the object machine (views with hooks over backing trees, the model of the Go code) and the plain value machine produce the same outputs from Sim-related states for every operation, incl. write-back propagation through hook chains "
                    "and stale sub-views (C04_propagation); C04_observation: root = htr, getters = value, bytes = serialize; C04_mk_*: all construction routes start related; C04_errors_*: an erring mutation of a root view leaves value and view unchanged",
        assumptions=["TyGood = wf, View.inRange (depth < 64), noBoolSeries (known finding D3)", "OpOk: the new element / source view has the slot's type; Union.Change gets a selector < 256 and a nil value exactly for the None option (Change does not check the value's type: documented API); "
                     "an observed object's encoding is < 2^32 bytes (ObsOk)", "reference semantics: a write-back into a slot that no longer exists is an error and leaves the ancestors unchanged (what a stale sub-view does)"]),
    "C05": P(5, ["C05"], stateful=True,
        explanation='Model H: any poke-free client leaves structure, content, denoted pure tree and observed root of every existing cell unchanged; old cells change only by unset-to-correct-root memo fills; a client run after another client gets its solo results (C05_frame, C05_only_memo_fill, C05_root_unchanged, C05_copy_detached[_flat]); C05_poke_counterexample shows the NoPoke premise (= the regenerated write-site inventory) is necessary',
        assumptions=['NoPoke: the view layer performs no in-place write into an existing node (tied to the code by the regenerated mutation-site inventory F2 and by snapshots re-verified from raw node structure after every step)', 'the memo field is invisible to clients'],
        trusted=COMMON_TRUST + ["hand model of PairNode.MerkleRoot, NewPairNode and the Node accessors as rootH/Prog primitives (Model/Heap.lean)"]),
    "C06": P(6, ["C06"], stateful=True,
        explanation='MemoValid is invariant under every poke-free client; MerkleRoot equals the memo-free root whatever the memo state; results are invariant under inserting or deleting root requests anywhere and under the initial memo state (C06_inv, C06_root_correct, C06_independent, C06_root_memo_independent)',
        assumptions=['NoPoke (fact inventory F2)', 'inserted/deleted root requests are on existing nodes'],
        trusted=COMMON_TRUST + ["hand model of PairNode.MerkleRoot, NewPairNode and the Node accessors as rootH/Prog primitives (Model/Heap.lean)"]),
    "C07": P(7, ["C07"], stateful=True,
        explanation='a second request costs 0 calls, also with arbitrary client work in between; calls = number of distinct pairs reached through unset pairs; after a setter spine (with or without zero expansion) calls <= path length (C07_second_free[_general], C07_count, C07_path, C07_path_expand, C07_incremental)',
        assumptions=["NoZeroOut h: h a b != zero root for the pairs hashed (the Go memo encodes 'unset' as the zero root; for SHA-256 an assumption, shown necessary by C07_zero_hash_counterexample)", 'MemoClosed for the end-to-end theorem', 'wall-clock time and garbage allocation are not modelled: the counted quantity is pair-hash invocations'],
        trusted=COMMON_TRUST + ["hand model of PairNode.MerkleRoot, NewPairNode and the Node accessors as rootH/Prog primitives (Model/Heap.lean)"]),
    "C17": P(17, ["C17"], stateful=True,
        rule="iter ops on views of every series/bitfield/container kind: read-only iterator and index-based iterator run to their end plus extra calls, each element read at the step it is produced; CORR vs the explicit iterator state machines; "
             "PROP: the sequence equals indexed access on the plain value, end exactly at the length and sticky; lengths inside/at/after 32-byte and 256-bit chunks, limits up to 2^40; distinct = distinct (type shape, value shape, op) per history position",
        explanation="ZtypV.Props.C17.*: for ANY backing tree the three stack iterators produce exactly iterSpec(indexed access): length items in order, done for ever from length on, a failing indexed access reported as the same error for ever "
                    "(navStep_spec under the ancestor-stack invariant; backtracking height = bitLen(i xor (i-1))); the index-based Iter() = Get(k) in order; read-only = index-based whenever every Get succeeds",
        assumptions=["iterator constructed successfully (length=0 or depth<64 and length<=2^depth[*perNode])", "ro==indexed theorems need every Get(j) to succeed", "bitfields: limit <= 2^63 (C17_bit_limit_wraps records the construction-check wrap beyond; outside the quantifier's limits)",
                     "on an error the model keeps the old stack where Go has partly overwritten it (only entries the retry rewrites anyway)"]),
    "C08": P(8, ["C08", "C08n"],
        rule="CORR: model observation = Go observation for every mk.* op (streaming Merkleize, ChunksHTR, field lists, complex/basic lists and vectors, byte lists/vectors, bitlists/bitvectors, mix-in, union); PROP: equals the Spec root (merk/htr); "
             "all count <= limit <= 70 under both hashes, limits 2^k and 2^k±1 up to 2^64-1 with small counts, typed helpers at chunk boundaries; ops outside the property (count > limit, malformed bitfields) are CORR-only; distinct = distinct op shapes",
        explanation="model of tree.Merkleize, all HashFn.*HTR helpers and BitlistLen proved equal to Spec merk/htr for every pair hash h (ZtypV.Props.C08.*)",
        assumptions=["Go CoverDepth modelled by ZtypV.coverDepth on naturals (its uint8 bit arithmetic is C16)", "HTR elements are represented by the root they return",
                     "ZeroHashes initialised with the hash in use", "typed-helper theorems need limit+31 / limit+3 / bitlimit+255 < 2^64 (C08_byteList_limit_wraps records the wrap beyond)",
                     "branches where uint8 j reaches 64 need count > 2^63: covered by proof only"],
        trusted=COMMON_TRUST + ["mkLeaf formula written twice (Go and Lean)"]),
    "C18": P(18, ["C18"], tie=["bitfields"], extra_modules=["ZtypV.Proofs.Go2LeanTie"],
        rule="model obs == Go obs (CORR) for every bf.* op; PROP verdict computed on List Bool only (unpack, re-pack with Spec.packBits, compare; counts/covers/get/set on the bit list); "
             "quick: all byte strings <= 2 bytes x limits/lengths 0..40 + seed-chosen 1% slice of the 3-byte space, all per-string helpers with every index (incl. panic region), Covers on all 1-byte pairs + sampled 2-byte pairs, "
             "random strings <= 70 bytes around 8*len / limit / 2^k boundaries; thorough: all 3-byte strings with first byte = seed mod 8 x limits 0..40; distinct = distinct op lines",
        explanation="bitlistCheck_iff / bitvectorCheck_iff: the checks accept exactly packBits(bits++[true]) with |bits|<=limit resp. packBits bits with |bits|=n, for ALL byte strings and 64-bit limits; "
                    "bitlistLen/getBit/setBit/OnesCount/isZeroBitlist/covers on packed values equal the list operations (ZtypV.Props.C18.*)",
        assumptions=["b.length < 2^64 where len is converted to uint64", "BitvectorCheck: n + 7 < 2^64; for n >= 2^64-7 the Go code wraps and accepts exactly the empty string (bitvectorCheck_wrapped; same arithmetic as known finding D19; generator does not emit these)",
                     "len/ones/zero PROP only on valid bitlist encodings, get/set PROP only for indices inside the slice (CORR everywhere)"],
        trusted=COMMON_TRUST + ["Lean core UInt64/UInt8 semantics = Go uint64/uint8", "math/bits.OnesCount8 modelled by its specification"]),
    "C09": P(9, ["C09", "C09b"], extra_modules=["ZtypV.Props.C09b"],
        rule="CORR: model obs == Go obs for every fl.enc/fl.dec op; PROP: fl.enc bytes = Spec serialize, ByteLength = length, FixedLength = length (fixed) / 0 (variable); fl.dec value read back from the destination struct = V for priors fresh/short/long "
             "(destination first decodes a derived shorter/longer value); every boundary length/limit per element kind + random compositions; distinct = distinct (type shape, value shape, prior, outcome)",
        explanation="C09_enc (flatEncode = ok(serialize), ByteLength = length), C09_fixedLength, C09_dec (decoding serialize t v into a destination with ANY prior content returns exactly v), C09_roundtrip, C09_accepts_valid - all wf types, all values",
        assumptions=["(serialize t v).length < 2^32 (offset words; WriteOffset panics beyond)", "lengths/limits/scopes < 2^61 so Go uint64 expressions do not wrap (modelled on Nat)",
                     "appended list elements and union values are fresh zero values (harness recipe)"],
        trusted=COMMON_TRUST + ["harness/flat.go composes the codec helpers the way downstream users do (the recipe is part of the model); flatShort/flatLong written twice (Go and Lean)"]),
    "C10": P(10, ["C10"],
        rule="CORR: model obs == Go obs for every fl.raw op; PROP: never panic; ok => value well-typed, serialize T value == input, re-encoding == input; exhaustive strings <= 2 (thorough 3) bytes over small variable-size types, "
             "offset-word enumeration on offset-carrying types, valid encodings + structure-aware corruptions on random variable-size types; distinct = distinct (type shape, input shape, outcome)",
        explanation="C10_no_panic (all types, all readers), C10_sound/C10_valid/C10_rejects_invalid (accepted => hasType and serialize = input), C10_reencode, C10_sound_reader (exact consumption on any reader), C10_bitlistCheck_agrees/C10_bitvectorCheck_agrees (= C18 model)",
        assumptions=["t.wf; variable-size top level (C10_fixed_top states what happens otherwise)", "C10_reencode: input < 2^32 bytes", "next-off wrap modelled as the SubScope refusal it causes (scopes < 2^63)"],
        trusted=COMMON_TRUST + ["harness/flat.go recipe"]),
    "C13": P(13, ["C13", "C13s"],
        rule="per sampled (type,value): io.dec over schedules {1,2,3,7,half,all}x{sep,with,fail} on the complete stream, every failure/end position 0..len-1 x the schedules + all/with + random; corrupted encodings; "
             "io.enc for every writer failure position 0..len+1 and no failure; primitive io.read: random data/scope/schedule/end mode with random request programs (raw+typed reads, nested sub-scopes, beyond-scope, zero-length), exhaustive k x schedule x end mode on fixed streams; "
             "primitive io.write: random op sequences x failure position x short-write modes; distinct = distinct op shapes x outcome",
        explanation="Model: DecodingReader over nested io.LimitedReader over a delivery schedule; EncodingWriter over a failing writer. Theorems C13_read*, C13_reads, C13_prog, C13_adaptive (any legal schedule = flat byte list, error exactly when scope or stream is short), "
                    "C13_write* (prefix / counter / error-iff-incomplete). io.read and io.write compare model and code; io.dec and io.enc check the property on the real decoders and encoders (PROP only)",
        assumptions=["reader obeys io.Reader: every call with len(p)>0 delivers >=1 byte or a non-nil error ((0,nil) forever excluded: ReaderState.legal)", "request sizes < 2^64", "error kinds other than io.EOF are not distinguished", "Skip() and the int count returned beside an error are not modelled",
                     "real OS readers are abstracted by the io.Reader contract (delivery schedule)"],
        trusted=COMMON_TRUST + ["schedReader / failWriter fault injectors in harness/ops_io.go"]),
    "C11": P(11, ["C11", "C11b"], extra_modules=["ZtypV.Props.C11b"],
        rule="tr2.* ops (direct node/link API: IsLeaf/Left/Right/RebindLeft/RebindRight, NewPairNode, ZeroNode, Identity, Link.Wrap, DeeperSetter, SummaryInto, link reuse): CORR = model built from Link closures (Model/Tree2) equals the Go observation; PROP = result equals reference semantics LinkExpr.den/setNode, eq-groups identical, composed link = setter of concatenated index, flags new/other/unchanged/shared/self/kids/fresh/table/method = 1. "
             "CORR: model obs == Go obs for every tr.* op (dump of result tree, root, unchanged/shared flags, error class, panic); PROP on the Go observation with spec helpers: read-back = written node, every sibling of the path = original node "
             "(or zero node inside an expanded summary), root = branch root over original siblings (= write into materialised zero subtree), summarise keeps root, unchanged=1 shared=1 (Go checks pointer identity of all off-path nodes and the dump/root of the original), "
             "errors only nav and exactly when the path meets a leaf that is not (expand and zero hash of the remaining height); fills: root = merk; quick: all shapes to depth 3 x gindex 1..63 x expand x leaf kinds (seed 10% slice), random trees depth <= 12 with up to 64-bit indices, boundary stream; thorough: exhaustive",
        explanation="ZtypV.Props.C11.*: get/set, off-path identity, sibling/spine description, error independence, no panic, expansion == write into materialised tree, only zero summaries expand, summarise preserves root, fill roots = merk, gbits/toPath = binary expansion; for every tree, path and pair hash; C11b_*: two-stage Setter+Link = setNode, Wrap = Kleisli composition with Identity neutral and associative, DeeperSetter = write below node then link, setter composition, SummaryInto = summarizeInto, ZeroNode = root of the materialised zero tree, eval = den for all link programs",
        assumptions=["memo field of PairNode erased (MerkleRoot recomputed)", "gindex 0 is not a generalized index: CORR only", "fill depth >= 64 CORR only (uint64 shift wraps to 0; Model/Tree.lean fills use 2^depth on naturals, faithful below depth 64)", "fillToLength law needs length > 0", "Gindex64 bit iteration = gbits (C16)", "Gindex64 paths <= 63 bits so ZeroHashes[depth+1] stays in range", "DeeperSetter on indices 0..3 and ZeroNode(>=65) panic by contract: CORR only"],
        trusted=COMMON_TRUST + ["tree text notation parser/dumper written twice (Go and Lean)", "pointer-identity checks in harness/ops_tree.go", "link-expression parser/evaluator written twice (Go and Lean)"]),
    "C12": P(12, ["C12"], stateful=True,
        rule="histories: mk, sum (1..3 summarised positions picked from the real backing; exhaustively every single position, thorough: every pair, of small values), then every read (obs, len, blen, rd, iter ro/idx) and one mutation followed by obs; "
             "CORR vs the object machine (summarizeInto + the same readers/mutators); PROP vs the plain value: root always equal; bytes/components/iterator items equal or an error, never different; no panic; distinct = distinct (type shape, positions, op, outcome)",
        explanation="Summ h n n' (n' is n with subtrees replaced by their root leaves) is what any sequence of SummarizeInto calls produces and keeps the root; on a partial Rep backing every typed read returns the full-tree result or a navigation error; "
                    "every single mutation that succeeds also succeeds on the full tree with a Summ-related result whose reads are again covered; iterators agree call by call; nothing panics (ZtypV.Props.C12.*)",
        assumptions=["ZeroFaithful h (viewDepth t) n for Append/Pop (setters with expand=true): no non-zero subtree of the full backing hashes to the zero hash of its height (collision resistance for SHA-256; C12_unfaithful_counterexample shows it is needed)",
                     "t.wf, View.inRange t, noBoolSeries t for the htr statement, encodings < 2^32 bytes for Serialize"]),
    "C14": P(14, ["C14"], race=True,
        explanation="in every schedule, with per-thread hash functions, the shared heap stays equal to the base, every write is private, write sets are disjoint from other threads' accesses, each thread's state equals its solo run, and a finished thread's result equals the big-step run on the base heap (C14_no_shared_write, C14_race_free, C14_sequential, C14_results); C14_unhashed_counterexample shows the 'hashed beforehand' premise is necessary",
        assumptions=['FullyMemo of the start nodes plus Safe clients, or AllMemo base plus NoPoke clients', 'interleaving granularity = one tree primitive; the Go memory model and compiler reordering are not modelled (the race detector run covers the accesses that actually occur)', 'no package-level mutable state besides ZeroHashes and the stateless Hash (fact inventory F3/F4)'],
        trusted=COMMON_TRUST + ["hand model of PairNode.MerkleRoot, NewPairNode and the Node accessors as rootH/Prog primitives (Model/Heap.lean)"]),
    "C20": P(20, ["C20", "C20f"],
        rule="PROP only (model observation `-`): measured runtime.MemStats.TotalAlloc of one decode call (GC off, second run) <= 8 * costBound t len = 8*2048*(len+footprint)*(1+maxDepth) for `mem` (view decoders), "
             "<= 8 * flatCostBound = 8*512*(len+1)*flatFootprint*(1+nest) for `fl.mem` (flat decoders); never panic; random composite types with valid encodings and 3 corruptions each, plus 15x15 extreme offset words on offset-carrying types with limits 2^32..2^40; "
             "distinct = distinct (type shape, input shape, outcome)",
        explanation="C20_view, C20_flat: allocation units of the instrumented twins (C20_twin_is_decoder, C20_flat_twin_is_decoder: result component = the validated decoders) are bounded for every well-formed type and every byte string by a function of input length, "
                    "footprint and nesting/depth only; C20_no_limit_dependence: the bound depends on the type with limits erased; C20_counterexample_unrepaired: the upstream decoders violate it with 4 bytes",
        assumptions=["one unit ~ one byte requested; allocator size classes, headers, GC, error values and the top-level reader are not modelled and are absorbed by the calibration factor 8 (measured worst ratio 0.25)",
                     "scope = len(input) for the headline theorems (C20_flat_declared_scope covers a larger declared scope)", "caller-side callbacks of the flat API (add(), selectFn) are charged a type constant",
                     "decoder model assumptions as in C03/C10"],
        trusted=COMMON_TRUST + ["unit table in Model/DecodeCost.lean and Model/FlatCost.lean (which Go statements allocate and how much)", "calibration factors in Driver/OpsMem.lean"]),
    "C19": P(19, ["C19"],
        rule="CORR = model observation string equal to the implementation's on every cv.* op (each op runs every public route reaching the same conv function); PROP = verdict ok on every line; "
             "all uint8/uint16 values, boundary and random uint32/64/256 in bases 2/8/10/16 with prefixes, underscores, quotes, signs, whitespace, decimal 2^k±1 for k <= 264, hex texts of every length 0..80; distinct = distinct op lines",
        explanation="unmarshal accepted iff the text (quotes stripped) is a Go literal denoting n < 2^w, never truncating; marshal then unmarshal is the identity for 8/16/32/64/256; fixed hex accepted iff exactly 2*len hex digits (ZtypV.Props.C19.*)",
        assumptions=["amd64 build (IntSize 64)", "Go 1.23 stdlib strconv/math/big/encoding/hex and holiman/uint256 v1.2.0 behave as transcribed in Model/Conv.lean Part A (checked differentially)",
                     "nil destinations not modelled; destination contents after an error are not observed"],
        trusted=COMMON_TRUST + ["transcription of the Go integer-literal grammar (denotes/denotesInt/hexDenotes)", "Part A transcriptions of the stdlib algorithms"]),
    "C15": P(15, ["C15", "C15b", "C15x"],
        rule="op `sizes T`: the constructors' IsFixedByteLength/TypeByteLength/MinByteLength/MaxByteLength vs model Sizes.typeSizes (CORR) and vs Spec isFixed/typeByteLength/minSize/maxSize unless maxSize >= 2^64 (PROP); "
             "op `sizes.wit T`: the library encodes/decodes/re-encodes minimum and maximum witnesses; C15b enumerates every quantifier length on every leaf/series kind, depth 1-2 exhaustively over a reduced alphabet, overflow-boundary types; "
             "C15x replays the recorded 64-bit-boundary finding; distinct = distinct type shapes x outcome",
        explanation="C15_eq: model of the constructors' wrapping uint64 arithmetic = spec sizes; C15_sound/C15_fixed/C15_tight_min/max: spec bounds are sound and tight; C15_reported_bounds combines them",
        assumptions=["bitLensOk (every Bitvector N+7 < 2^64, every Bitlist N+8 < 2^64): without it the property is false (C15_eq_full_false; recorded known finding D19)",
                     "maxSize < 2^64 (property text)", "ContainerType's offsetsCount modelled as Nat (a Go slice has < 2^63 elements)"],
        trusted=COMMON_TRUST + ["independent big-integer size computation and witness builder in harness/ops_sizes.go (used to pick witnesses only)"]),
    "C16": P(16, ["C16"], tie=["tree"], extra_modules=["ZtypV.Proofs.Go2LeanTie"],
        rule="model obs == Go obs (CORR) for every g64.* op; PROP verdict computed on Nat (Nat.log2, paths, minimal LE bytes) independent of the model; "
             "all values < 2^17 (thorough; quick: < 2^12 + 1/16 slice), 2^k and 2^k±1, random values per bit-length class; distinct = distinct op lines",
        explanation="BitIndex/BitLength/CoverDepth, all Gindex64 methods, the bit iterator, ToGindex64 and the three byte encodings are proved equal to their "
                    "integer definitions for ALL uint64 inputs (ZtypV.Props.C16.*); the model is tied to /repo/tree/{bitlen,gindex}.go by the differential check",
        assumptions=["Gindex interface values returned by Gindex64 methods are Gindex64 (harness type-asserts)",
                     "Left/Right integer equality only when g < 2^63 (otherwise left_wrap: mod 2^64)",
                     "Subtree/IsLeft properties for g >= 2; nav/iter PROP skipped for the invalid index 0 (CORR still checked)"],
        trusted=COMMON_TRUST + ["go2lean translator (harness/cmd/go2lean): Go semantics of the integer subset, constants via go/types; second static tie for BitIndex/BitLength/CoverDepth, the Gindex64 methods, ToGindex64, BitIter.Next", "Lean core UInt64/UInt8 semantics = Go uint64/uint8 (shift >= 64 handled by shl64/shr64 guards)",
                 "encoding/binary PutUint64 modelled by putLE64/putBE64"]),
}
