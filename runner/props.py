"""Per-property configuration of the runner."""

COMMON_TRUST = [
    "Spec transcription of simple-serialize.md (lean/ZtypV/Spec.lean)",
    "correspondence harness (harness/*.go), runner (check) and the line protocol parsers",
    "fact extractor harness/cmd/factx (go/ast)",
]

def P(n, families, **kw):
    d = dict(module=f"ZtypV.Props.C{n:02d}", namespace=f"ZtypV.Props.C{n:02d}", families=families,
             trusted=list(COMMON_TRUST))
    d.update(kw)
    return d

PROPS = {
    "C01": P(1, ["C01"]),
    "C02": P(2, ["C02"]),
    "C03": P(3, ["C03"]),
    "C04": P(4, ["C04"], stateful=True),
    "C05": P(5, ["C05"], stateful=True),
    "C06": P(6, ["C06"], stateful=True),
    "C07": P(7, ["C07"], stateful=True),
    "C17": P(17, ["C17"], stateful=True),
    "C08": P(8, ["C08"],
        rule="CORR: model observation = Go observation for every mk.* op (streaming Merkleize, ChunksHTR, field lists, complex/basic lists and vectors, byte lists/vectors, bitlists/bitvectors, mix-in, union); PROP: equals the Spec root (merk/htr); "
             "all count <= limit <= 70 under both hashes, limits 2^k and 2^k±1 up to 2^64-1 with small counts, typed helpers at chunk boundaries; ops outside the property (count > limit, malformed bitfields) are CORR-only; distinct = distinct op shapes",
        explanation="model of tree.Merkleize, all HashFn.*HTR helpers and BitlistLen proved equal to Spec merk/htr for every pair hash h (ZtypV.Props.C08.*)",
        assumptions=["Go CoverDepth modelled by ZtypV.coverDepth on naturals (its uint8 bit arithmetic is C16)", "HTR elements are represented by the root they return",
                     "ZeroHashes initialised with the hash in use", "typed-helper theorems need limit+31 / limit+3 / bitlimit+255 < 2^64 (C08_byteList_limit_wraps records the wrap beyond)",
                     "branches where uint8 j reaches 64 need count > 2^63: covered by proof only"],
        trusted=COMMON_TRUST + ["mkLeaf formula written twice (Go and Lean)"]),
    "C18": P(18, ["C18"],
        rule="model obs == Go obs (CORR) for every bf.* op; PROP verdict computed on List Bool only (unpack, re-pack with Spec.packBits, compare; counts/covers/get/set on the bit list); "
             "quick: all byte strings <= 2 bytes x limits/lengths 0..40 + seed-chosen 1% slice of the 3-byte space, all per-string helpers with every index (incl. panic region), Covers on all 1-byte pairs + sampled 2-byte pairs, "
             "random strings <= 70 bytes around 8*len / limit / 2^k boundaries; thorough: all 3-byte strings with first byte = seed mod 8 x limits 0..40; distinct = distinct op lines",
        explanation="bitlistCheck_iff / bitvectorCheck_iff: the checks accept exactly packBits(bits++[true]) with |bits|<=limit resp. packBits bits with |bits|=n, for ALL byte strings and 64-bit limits; "
                    "bitlistLen/getBit/setBit/OnesCount/isZeroBitlist/covers on packed values equal the list operations (ZtypV.Props.C18.*)",
        assumptions=["b.length < 2^64 where len is converted to uint64", "BitvectorCheck: n + 7 < 2^64; for n >= 2^64-7 the Go code wraps and accepts exactly the empty string (bitvectorCheck_wrapped; same arithmetic as known finding D19; generator does not emit these)",
                     "len/ones/zero PROP only on valid bitlist encodings, get/set PROP only for indices inside the slice (CORR everywhere)"],
        trusted=COMMON_TRUST + ["Lean core UInt64/UInt8 semantics = Go uint64/uint8", "math/bits.OnesCount8 modelled by its specification"]),
    "C15": P(15, ["C15", "C15b", "C15x"],
        rule="op `sizes T`: the constructors' IsFixedByteLength/TypeByteLength/MinByteLength/MaxByteLength vs model Sizes.typeSizes (CORR) and vs Spec isFixed/typeByteLength/minSize/maxSize unless maxSize >= 2^64 (PROP); "
             "op `sizes.wit T`: the library encodes/decodes/re-encodes minimum and maximum witnesses; C15b enumerates every quantifier length on every leaf/series kind, depth 1-2 exhaustively over a reduced alphabet, overflow-boundary types; "
             "C15x replays the recorded 64-bit-boundary finding; distinct = distinct type shapes x outcome",
        explanation="C15_eq: model of the constructors' wrapping uint64 arithmetic = spec sizes; C15_sound/C15_fixed/C15_tight_min/max: spec bounds are sound and tight; C15_reported_bounds combines them",
        assumptions=["bitLensOk (every Bitvector N+7 < 2^64, every Bitlist N+8 < 2^64): without it the property is false (C15_eq_full_false; recorded known finding D19)",
                     "maxSize < 2^64 (property text)", "ContainerType's offsetsCount modelled as Nat (a Go slice has < 2^63 elements)"],
        trusted=COMMON_TRUST + ["independent big-integer size computation and witness builder in harness/ops_sizes.go (used to pick witnesses only)"]),
    "C16": P(16, ["C16"],
        rule="model obs == Go obs (CORR) for every g64.* op; PROP verdict computed on Nat (Nat.log2, paths, minimal LE bytes) independent of the model; "
             "all values < 2^17 (thorough; quick: < 2^12 + 1/16 slice), 2^k and 2^k±1, random values per bit-length class; distinct = distinct op lines",
        explanation="BitIndex/BitLength/CoverDepth, all Gindex64 methods, the bit iterator, ToGindex64 and the three byte encodings are proved equal to their "
                    "integer definitions for ALL uint64 inputs (ZtypV.Props.C16.*); the model is tied to /repo/tree/{bitlen,gindex}.go by the differential check",
        assumptions=["Gindex interface values returned by Gindex64 methods are Gindex64 (harness type-asserts)",
                     "Left/Right integer equality only when g < 2^63 (otherwise left_wrap: mod 2^64)",
                     "Subtree/IsLeft properties for g >= 2; nav/iter PROP skipped for the invalid index 0 (CORR still checked)"],
        trusted=COMMON_TRUST + ["Lean core UInt64/UInt8 semantics = Go uint64/uint8 (shift >= 64 handled by shl64/shr64 guards)",
                 "encoding/binary PutUint64 modelled by putLE64/putBE64"]),
}
