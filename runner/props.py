"""Per-property configuration of the runner."""

COMMON_TRUST = [
    "Spec transcription of simple-serialize.md (lean/ZtypV/Spec.lean)",
    "correspondence harness (harness/*.go), runner (check) and the line protocol parsers",
    "fact extractor harness/cmd/factx (go/ast)",
]

def P(n, families, **kw):
    d = dict(module=f"ZtypV.Props.C{n:02d}", namespace=f"ZtypV.Props.C{n:02d}", families=families,
             trusted=list(COMMON_TRUST))
    d.update(kw)
    return d

PROPS = {
    "C01": P(1, ["C01"]),
    "C02": P(2, ["C02"]),
    "C03": P(3, ["C03"]),
    "C15": P(15, ["C15"]),
}
