#!/usr/bin/env python3
"""Regenerate /verif/MANIFEST.json from runner/claims.py"""
import json, os, sys
ROOT = os.path.dirname(os.path.dirname(os.path.abspath(__file__)))
sys.path.insert(0, os.path.join(ROOT, "runner"))
from claims import CLAIMS, NOT_APPLICABLE
props = [json.loads(l) for l in open(os.path.join(ROOT, "properties.jsonl"))]
checks = []
for pid, c in sorted(CLAIMS.items()):
    checks.append({
        "property_id": pid,
        "quick_cmd": f"./check {pid} --tier quick",
        "thorough_cmd": f"./check {pid} --tier thorough",
        "evidence_file": f"/verif/evidence/{pid}.json",
        "replay_cmd_template": "./check replay {path}",
        "engine": "ztypv",
        "level_claimed": {"category": "proof", "text": c["text"], "design_ref": c.get("design_ref", "DESIGN.md §6 " + pid)},
        "level_note": c["note"],
        "technique": c.get("technique", "Lean 4 theorems about a hand-written model + differential model/implementation correspondence + regenerated fact inventory"),
    })
na = [{"property_id": p["id"], "reason": NOT_APPLICABLE.get(p["id"], "check not built yet (planned as Lean proof + correspondence, see DESIGN.md §6); not claimed")}
      for p in props if p["id"] not in CLAIMS]
m = {
    "version": 1,
    "setup_cmd": "cd /verif && ./check setup",
    "hooks": {"guard": "verif", "enable": "go build -tags verif (no hook files exist in /repo; the harness uses only exported API)",
              "baseline_off_cmd": "cd /repo && go test -vet=off -count=1 ./...", "source_commits": [], "add_only": True},
    "engines": [{"name": "ztypv", "path": "/verif/lean", "serves_properties": sorted(CLAIMS.keys()),
                 "kind_free_text": "Lean 4 model + theorems (lake project ZtypV, core only), compiled model/spec driver (lean_exe), Go correspondence harness (harness/), go/ast fact extractor (harness/cmd/factx), python runner (check)"}],
    "checks": checks,
    "notes": "Every check: lake build of the property's theorems + axiom audit, regenerated fact inventory compared in Lean, harness rebuilt from /repo's working tree, corpus + generated ops run on the real library and on the Lean model/spec driver. See DESIGN.md.",
    "not_applicable": na,
}
json.dump(m, open(os.path.join(ROOT, "MANIFEST.json"), "w"), indent=1)
print("claimed:", sorted(CLAIMS.keys()))
