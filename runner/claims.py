"""What MANIFEST.json claims per property (kept next to the runner configuration)."""
BASE_NOTE = ("Trusted: Lean 4.33 kernel + axioms listed in the evidence (propext, Classical.choice, Quot.sound only); the Spec transcription; "
             "the hand-written model's tie to the code is the correspondence check (sampling + exhaustive small domains) and the static fact inventory, not a proof about Go; see DESIGN.md §9.")
CLAIMS = {
 "C01": dict(text="Theorems (every hash function, unbounded sizes) that the model of default/constructor routes yields the SSZ-spec root; model tied to the code by differential runs on every route incl. decode; the known unpacked-bool-series defect is a recorded finding", note=BASE_NOTE),
 "C02": dict(text="Theorems about the model of Serialize/ValueByteLength/getters vs the spec encoding; model tied to the code by differential runs (value->bytes->view->bytes, getters)", note=BASE_NOTE),
 "C03": dict(text="Theorems about the decoder model over an explicit IO model (no panic, accepted => valid and canonical); model tied to the code by differential runs on valid encodings, structure-aware corruptions and exhaustive short strings", note=BASE_NOTE),
 "C15": dict(text="Theorems that the size arithmetic of the type constructors (wrapping uint64 model) equals the spec's bounds and that encodings lie within them; correspondence on thousands of generated types", note=BASE_NOTE),
 "C16": dict(text="36 theorems for all 64-bit inputs (bit index/length/cover depth, every Gindex64 method, bit iterator, ToGindex64, byte encodings) about a machine-integer model tied to tree/bitlen.go and tree/gindex.go by exhaustive+random differential runs", note=BASE_NOTE),
}
CLAIMS.update({
 "C08": dict(text="25 theorems: the model of the streaming Merkleize loop and of every typed flat HTR helper equals the SSZ-spec root for every pair hash and every count <= limit < 2^64; model tied to tree/merkle.go, tree/hashing.go by exhaustive (count, limit <= 70) and boundary differential runs under two hash functions", note=BASE_NOTE),
 "C18": dict(text="28 theorems for all byte strings and 64-bit limits (validity checks accept exactly the spec packings; length/get/set/ones/zero/covers equal the bit-sequence answers) about a machine-integer model tied to package bitfields by exhaustive short-string and random differential runs", note=BASE_NOTE),
 "C11": dict(text="33 theorems for every tree, path and pair hash (get/set, off-path identity, sibling and spine description, no panic, expansion = write into the materialised zero subtree, only zero summaries expand, summarise preserves the root, fill roots = spec merkleize) about the tree-navigation model, tied to package tree by exhaustive small-tree and random differential runs with pointer-identity checks on the Go side", note=BASE_NOTE),
 "C19": dict(text="24 theorems (all bases, all widths 8..256): unmarshal accepts exactly the Go literals denoting n < 2^w, never truncates; marshal/unmarshal round trips; fixed-size hex accepts exactly 2*len hex digits; model incl. transcribed stdlib parsing tied to the code by ~250k differential inputs per run", note=BASE_NOTE + " The stdlib algorithms (strconv, math/big, encoding/hex, uint256) are environment: transcribed and checked differentially."),
})
NOT_APPLICABLE = {}
