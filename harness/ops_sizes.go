package main

// C15 (type size bounds and fixed-size flags): second op and extra generators.
//
//	sizes.wit T  -> ok <len(min witness encoding)|-> <len(max witness encoding)|->   | err | panic
//	   builds the minimum-size and the maximum-size value of T (independent big-integer size
//	   computation below picks the union options), encodes each with the LIBRARY, decodes the bytes
//	   back with the library (scope = len) and re-encodes; "err" if any step fails or the
//	   re-encoding differs.  A witness is skipped ("-") when its size exceeds c15WitMaxBytes.
//	gen C15b     -> exhaustive types to depth 2 over a reduced alphabet, every small length/limit on
//	   every series kind, 64-bit overflow boundary types; `sizes` for all, `sizes.wit` for most
//	gen C15x     -> the bit lengths within 8 of 2^64 where BitVectorType/BitListType round with a
//	   wrapping addition (finding; kept out of C15/C15b)

import (
	"bufio"
	"bytes"
	"fmt"
	"math/big"
)

const c15WitMaxBytes = 4096

func init() {
	registerExec("sizes.wit", execSizesWit)
	registerGen("C15b", genC15b)
	registerGen("C15x", genC15x)
}

// ---- independent size computation (unbounded integers, directly from simple-serialize.md) ----

func c15Big(n uint64) *big.Int { return new(big.Int).SetUint64(n) }

// c15Fixed: byte length of a fixed-size type
func c15Fixed(t *Ty) *big.Int {
	switch t.Kind {
	case KUint, KBytesN:
		return c15Big(t.N)
	case KBool:
		return big.NewInt(1)
	case KBitvector:
		r := c15Big(t.N)
		r.Add(r, big.NewInt(7))
		return r.Div(r, big.NewInt(8))
	case KVector:
		return new(big.Int).Mul(c15Big(t.N), c15Fixed(t.Elem))
	case KContainer:
		r := new(big.Int)
		for _, f := range t.Fields {
			r.Add(r, c15Fixed(f))
		}
		return r
	}
	panic("not fixed")
}

// c15Bound: minimum (max=false) or maximum (max=true) encoded length
func c15Bound(t *Ty, max bool) *big.Int {
	if isFixed(t) {
		return c15Fixed(t)
	}
	part := func(e *Ty) *big.Int { // contribution of a variable-or-fixed part inside a series/container
		if isFixed(e) {
			return c15Fixed(e)
		}
		return new(big.Int).Add(big.NewInt(4), c15Bound(e, max))
	}
	switch t.Kind {
	case KBitlist:
		if !max {
			return big.NewInt(1)
		}
		r := c15Big(t.N)
		r.Div(r, big.NewInt(8))
		return r.Add(r, big.NewInt(1))
	case KList:
		if !max {
			return new(big.Int)
		}
		return new(big.Int).Mul(c15Big(t.N), part(t.Elem))
	case KVector:
		return new(big.Int).Mul(c15Big(t.N), part(t.Elem))
	case KContainer:
		r := new(big.Int)
		for _, f := range t.Fields {
			r.Add(r, part(f))
		}
		return r
	case KUnion:
		if !max && t.HasNone {
			return big.NewInt(1)
		}
		_, b := c15BestOpt(t, max)
		return b.Add(b, big.NewInt(1))
	}
	panic("bad type")
}

// c15BestOpt: index into t.Fields of the first option attaining the min/max, and that bound
func c15BestOpt(t *Ty, max bool) (int, *big.Int) {
	best := -1
	var bb *big.Int
	for i, f := range t.Fields {
		b := c15Bound(f, max)
		if best < 0 || (max && b.Cmp(bb) > 0) || (!max && b.Cmp(bb) < 0) {
			best, bb = i, b
		}
	}
	if best < 0 {
		return -1, new(big.Int)
	}
	return best, bb
}

// c15Witness: a value of t whose encoding has the minimum / maximum length
func c15Witness(t *Ty, max bool) *Val {
	switch t.Kind {
	case KUint:
		return &Val{Kind: VNum, Num: big.NewInt(0)}
	case KBool:
		return &Val{Kind: VBool, B: max}
	case KBytesN:
		return &Val{Kind: VBytes, Bytes: make([]byte, t.N)}
	case KBitvector:
		return &Val{Kind: VBits, Bits: make([]bool, t.N)}
	case KBitlist:
		if !max {
			return &Val{Kind: VBits, Bits: []bool{}}
		}
		bits := make([]bool, t.N)
		for i := range bits {
			bits[i] = i%3 == 0
		}
		return &Val{Kind: VBits, Bits: bits}
	case KVector, KList:
		n := t.N
		if t.Kind == KList && !max {
			n = 0
		}
		r := &Val{Kind: VSeq, Seq: []*Val{}}
		for i := uint64(0); i < n; i++ {
			r.Seq = append(r.Seq, c15Witness(t.Elem, max))
		}
		return r
	case KContainer:
		r := &Val{Kind: VSeq, Seq: []*Val{}}
		for _, f := range t.Fields {
			r.Seq = append(r.Seq, c15Witness(f, max))
		}
		return r
	case KUnion:
		if !max && t.HasNone {
			return &Val{Kind: VUnion, Sel: 0, Inner: &Val{Kind: VNone}}
		}
		i, _ := c15BestOpt(t, max)
		sel := uint64(i)
		if t.HasNone {
			sel++
		}
		return &Val{Kind: VUnion, Sel: sel, Inner: c15Witness(t.Fields[i], max)}
	}
	panic("bad type")
}

// c15Encode: library encoding length of the min/max witness ("-" = skipped), false = the library
// failed to construct, encode, decode or re-encode it
func c15Encode(t *Ty, max bool) (string, bool) {
	b := c15Bound(t, max)
	if b.Cmp(big.NewInt(c15WitMaxBytes)) > 0 {
		return "-", true
	}
	v := c15Witness(t, max)
	vw, err := construct(t, v)
	if err != nil {
		return "", false
	}
	bs, err := serializeView(vw)
	if err != nil {
		return "", false
	}
	back, err := decodeView(typeDef(t), bs)
	if err != nil || back == nil {
		return "", false
	}
	re, err := serializeView(back)
	if err != nil || !bytes.Equal(re, bs) {
		return "", false
	}
	return fmt.Sprintf("%d", len(bs)), true
}

// sizes.wit T
func execSizesWit(st *State, args []string) string {
	p := &parser{toks: args}
	t := p.ty()
	typeDef(t) // a panicking constructor is the observation "panic"
	mn, ok := c15Encode(t, false)
	if !ok {
		return "err"
	}
	mx, ok := c15Encode(t, true)
	if !ok {
		return "err"
	}
	return "ok " + mn + " " + mx
}

// ---- generators ----

func c15U(n uint64) *Ty           { return &Ty{Kind: KUint, N: n} }
func c15K(k TyKind, n uint64) *Ty { return &Ty{Kind: k, N: n} }
func c15V(n uint64, e *Ty) *Ty    { return &Ty{Kind: KVector, N: n, Elem: e} }
func c15L(n uint64, e *Ty) *Ty    { return &Ty{Kind: KList, N: n, Elem: e} }
func c15C(fs ...*Ty) *Ty          { return &Ty{Kind: KContainer, Fields: fs} }
func c15Un(none bool, fs ...*Ty) *Ty {
	return &Ty{Kind: KUnion, HasNone: none, Fields: fs}
}

// c15Leaves: all basic types and bit/byte vectors over a reduced alphabet of lengths
func c15Leaves() []*Ty {
	r := []*Ty{c15U(1), c15U(2), c15U(4), c15U(8), c15U(32), {Kind: KBool}}
	for _, n := range []uint64{1, 5, 31, 32} {
		r = append(r, c15K(KBytesN, n))
	}
	for _, n := range []uint64{1, 7, 8, 9, 255, 256, 257, 513} {
		r = append(r, c15K(KBitvector, n))
	}
	for _, n := range []uint64{0, 1, 7, 8, 9, 255, 256, 257, 1 << 20, 1 << 40} {
		r = append(r, c15K(KBitlist, n))
	}
	return r
}

// c15Wrap: every one-level construction over `all`; binary containers/unions over `few` × `few`
func c15Wrap(all, few []*Ty, vecLens, listLims []uint64) []*Ty {
	var r []*Ty
	for _, e := range all {
		for _, n := range vecLens {
			r = append(r, c15V(n, e))
		}
		for _, n := range listLims {
			r = append(r, c15L(n, e))
		}
		r = append(r, c15C(e), c15Un(false, e), c15Un(true, e))
	}
	for _, a := range few {
		for _, b := range few {
			r = append(r, c15C(a, b), c15Un(false, a, b), c15Un(true, a, b))
		}
	}
	return r
}

// c15Sample: seeded sample (with repetition) of n entries; all of xs if there are fewer
func c15Sample(g *Gen, xs []*Ty, n int) []*Ty {
	if len(xs) <= n {
		return xs
	}
	r := make([]*Ty, 0, n)
	for i := 0; i < n; i++ {
		r = append(r, xs[g.Intn(len(xs))])
	}
	return r
}

func c15Emit(w *bufio.Writer, t *Ty, wit bool) {
	fmt.Fprintf(w, "sizes %s\n", t)
	if wit {
		fmt.Fprintf(w, "sizes.wit %s\n", t)
	}
}

func genC15b(g *Gen, tier string, w *bufio.Writer) {
	leaves := c15Leaves()
	allLens := append(append(append([]uint64{}, smallNums...), packNums...), bitNums...)
	allLims := append(append([]uint64{}, allLens...), hugeLimits...)

	// (1) every leaf kind with every length of the quantifier text
	for _, n := range allLens {
		if n >= 1 {
			c15Emit(w, c15K(KBitvector, n), true)
			if n <= 32 {
				c15Emit(w, c15K(KBytesN, n), true)
			}
		}
	}
	for _, n := range allLims {
		c15Emit(w, c15K(KBitlist, n), true)
	}
	for _, t := range leaves {
		c15Emit(w, t, true)
	}
	// (2) every series kind over every leaf with every length / limit (0 included for lists)
	for _, e := range leaves {
		for _, n := range allLens {
			if n >= 1 {
				c15Emit(w, c15V(n, e), true)
			}
		}
		for _, n := range allLims {
			c15Emit(w, c15L(n, e), true)
		}
	}
	// (3) exhaustive depth 1 and depth 2 over the reduced alphabet
	vecLens := []uint64{1, 2, 17, 31, 32, 33}
	listLims := []uint64{0, 1, 2, 17, 31, 32, 33, 1 << 20, 1 << 32, 1 << 40}
	fewLeaves := []*Ty{c15U(1), c15U(8), c15U(32), {Kind: KBool}, c15K(KBytesN, 5), c15K(KBitvector, 9),
		c15K(KBitlist, 0), c15K(KBitlist, 257), c15K(KBitlist, 1<<40)}
	d1 := c15Wrap(leaves, fewLeaves, vecLens, listLims)
	for _, t := range d1 {
		c15Emit(w, t, true)
	}
	upTo1 := append(append([]*Ty{}, leaves...), d1...)
	fewD1 := append(append([]*Ty{}, fewLeaves...),
		c15V(3, c15U(8)), c15V(2, c15K(KBitlist, 9)), c15L(0, c15U(8)), c15L(33, c15U(2)), c15L(1<<40, c15U(32)),
		c15L(3, c15K(KBitlist, 9)), c15L(1<<20, c15K(KBitlist, 1<<20)), c15C(c15U(8), c15K(KBitlist, 3)),
		c15C(c15U(2), c15U(4)), c15Un(true, c15U(8)), c15Un(false, c15U(2), c15K(KBitlist, 300)),
		c15L(1<<40, c15L(1<<20, c15U(1))))
	d2 := c15Wrap(upTo1, fewD1, []uint64{1, 2, 33}, []uint64{0, 1, 33, 1 << 20, 1 << 40})
	witEvery := 4
	if tier == "thorough" {
		witEvery = 1
	}
	for i, t := range d2 {
		c15Emit(w, t, i%witEvery == 0)
	}
	// (4) depth 3: thorough = one more exhaustive level over a sample of depth-2 types;
	//     quick = a seeded sample
	upTo2 := append(append([]*Ty{}, upTo1...), d2...)
	nD3 := 600
	if tier == "thorough" {
		nD3 = 12000
	}
	base := c15Sample(g, upTo2, nD3)
	fewD2 := c15Sample(g, d2, 12)
	for _, t := range c15Wrap(base, fewD2, []uint64{1, 3}, []uint64{0, 2, 1 << 32}) {
		c15Emit(w, t, g.Chance(20))
	}
	// (5) the 64-bit boundary of the bound arithmetic: nested huge limits whose maximum lies
	//     just below / at / above 2^64 (above = outside the property, still compared with the model)
	m := ^uint64(0)
	big1 := []uint64{1, 2, 3, 1 << 20, 1 << 21, 1 << 23, 1 << 24, 1 << 32, 1 << 40, 1 << 43, 1 << 44,
		1<<59 - 1, 1 << 59, 1<<61 - 1, 1 << 61, 1 << 62, 1<<63 - 1, 1 << 63, m/36 - 1, m / 36, m/36 + 1, m - 4, m - 1, m}
	elems := []*Ty{c15U(1), c15U(8), c15U(32), c15K(KBytesN, 32), {Kind: KBool}, c15K(KBitlist, 1<<40), c15K(KBitlist, 7),
		c15K(KBitvector, 513), c15C(c15U(8), c15K(KBitlist, 1<<40)), c15Un(true, c15L(1<<40, c15U(8)), c15U(32))}
	for _, e := range elems {
		for _, a := range big1 {
			c15Emit(w, c15L(a, e), true)
			c15Emit(w, c15V(a, e), true)
			c15Emit(w, c15C(c15L(a, e), c15L(a, e)), false)
			c15Emit(w, c15Un(false, c15L(a, e), c15V(a, e)), false)
		}
	}
	big2 := []uint64{0, 1, 2, 1 << 20, 1 << 21, 1 << 24, 1 << 32, 1 << 40, 1 << 44}
	for _, e := range elems[:6] {
		for _, a := range big2 {
			for _, b := range big2 {
				c15Emit(w, c15L(a, c15L(b, e)), false)
				c15Emit(w, c15V(a+1, c15L(b, e)), false)
				for _, c := range []uint64{0, 1, 1 << 20, 1 << 40} {
					c15Emit(w, c15L(a, c15L(b, c15L(c, e))), false)
					c15Emit(w, c15C(c15U(8), c15L(a, c15C(c15L(b, c15L(c, e)), c15U(1)))), false)
				}
			}
		}
	}
	// last bit lengths whose rounding addition does not wrap
	for _, n := range []uint64{m - 9, m - 8} {
		c15Emit(w, c15K(KBitlist, n), false)
	}
	for _, n := range []uint64{m - 8, m - 7} {
		c15Emit(w, c15K(KBitvector, n), false)
	}
	// (6) random types of the shared grammar to depth 3 with witnesses
	n := tierN(tier, 1500, 40000)
	for i := 0; i < n; i++ {
		c15Emit(w, g.RandTy(g.Intn(4), TyOpts{}), true)
	}
	// (7) malformed stream: type definitions the constructors reject by panicking (empty unions)
	for _, t := range []*Ty{c15Un(false), c15C(c15Un(false)), c15L(3, c15Un(false)), c15V(2, c15C(c15U(1), c15Un(false))),
		c15Un(true, c15Un(false)), c15Un(true), c15C()} {
		c15Emit(w, t, false)
	}
}

// genC15x: bit lengths in [2^64-9, 2^64-1]; the wrapping ones violate the property as worded
// (maximum size 2^61 < 2^64, constructors report 0).
func genC15x(g *Gen, tier string, w *bufio.Writer) {
	m := ^uint64(0)
	for d := uint64(0); d <= 9; d++ {
		c15Emit(w, c15K(KBitlist, m-d), false)
		c15Emit(w, c15K(KBitvector, m-d), false)
		c15Emit(w, c15C(c15U(8), c15K(KBitlist, m-d)), false)
		c15Emit(w, c15L(0, c15K(KBitlist, m-d)), false)
	}
}
