package main

// Ops of family "mk." (property C08): tree.Merkleize and the typed flat hash-tree-root
// helpers of tree/hashing.go, plus bitfields.BitlistLen, run on explicit inputs.
// Mirror of lean/Driver/OpsMerkle.lean.

import (
	"bytes"
	"bufio"
	"fmt"
	"strconv"
	"strings"

	"github.com/protolambda/ztyp/bitfields"
	"github.com/protolambda/ztyp/tree"
)

func init() {
	for _, op := range []string{"mk.merkleize", "mk.chunks", "mk.fields", "mk.cvec", "mk.clist", "mk.mixin",
		"mk.u8vec", "mk.u8list", "mk.u64vec", "mk.u64list", "mk.bytevec", "mk.bytelist",
		"mk.bitvec", "mk.bitlist", "mk.union"} {
		op := op
		registerExec(op, func(st *State, args []string) string { return execMk(op, args) })
	}
	registerExec("mk.bitlen", func(st *State, args []string) string {
		return fmt.Sprintf("ok %d", bitfields.BitlistLen(unhex(args[0])))
	})
	registerGen("C08", genC08)
}

// mkLeaf: deterministic leaf i for a seed; identical formula in Driver/OpsMerkle.lean.
func mkLeaf(seed uint64, i uint64) (out tree.Root) {
	if seed == 0 {
		return
	}
	for k := uint64(0); k < 32; k++ {
		x := seed*2654435761 + i*40503 + k*131
		out[k] = byte(x / 32)
	}
	return
}

type mkRootHTR tree.Root

func (r mkRootHTR) HashTreeRoot(_ tree.HashFn) tree.Root { return tree.Root(r) }

func mkToRoot(b []byte) (r tree.Root) {
	if len(b) != 32 {
		panic("root token must be 32 bytes")
	}
	copy(r[:], b)
	return
}

// k then k tokens: x<root> or _ (nil HTR)
func (p *parser) mkHtrs() []tree.HTR {
	k := int(p.num())
	out := make([]tree.HTR, 0, k)
	for i := 0; i < k; i++ {
		t := p.next()
		if t == "_" {
			out = append(out, nil)
		} else {
			out = append(out, mkRootHTR(mkToRoot(unhex(t))))
		}
	}
	return out
}

func (p *parser) mkNums() []uint64 {
	k := int(p.num())
	out := make([]uint64, 0, k)
	for i := 0; i < k; i++ {
		out = append(out, p.num())
	}
	return out
}

func execMk(op string, args []string) string {
	h := useHash(args[0])
	defer useHash("sha")
	p := &parser{toks: args[1:]}
	var r tree.Root
	switch op {
	case "mk.merkleize":
		count, limit, seed := p.num(), p.num(), p.num()
		r = tree.Merkleize(h, count, limit, func(i uint64) tree.Root { return mkLeaf(seed, i) })
	case "mk.chunks":
		count, limit, seed := p.num(), p.num(), p.num()
		r = h.ChunksHTR(func(i uint64) tree.Root { return mkLeaf(seed, i) }, count, limit)
	case "mk.fields":
		r = h.HashTreeRoot(p.mkHtrs()...)
	case "mk.cvec":
		xs := p.mkHtrs()
		r = h.ComplexVectorHTR(func(i uint64) tree.HTR { return xs[i] }, uint64(len(xs)))
	case "mk.clist":
		limit := p.num()
		xs := p.mkHtrs()
		r = h.ComplexListHTR(func(i uint64) tree.HTR { return xs[i] }, uint64(len(xs)), limit)
	case "mk.mixin":
		v := mkToRoot(unhex(p.next()))
		r = h.Mixin(v, p.num())
	case "mk.u8vec":
		bs := unhex(p.next())
		r = h.Uint8VectorHTR(func(i uint64) uint8 { return bs[i] }, uint64(len(bs)))
	case "mk.u8list":
		limit := p.num()
		bs := unhex(p.next())
		r = h.Uint8ListHTR(func(i uint64) uint8 { return bs[i] }, uint64(len(bs)), limit)
	case "mk.u64vec":
		ns := p.mkNums()
		r = h.Uint64VectorHTR(func(i uint64) uint64 { return ns[i] }, uint64(len(ns)))
	case "mk.u64list":
		limit := p.num()
		ns := p.mkNums()
		r = h.Uint64ListHTR(func(i uint64) uint64 { return ns[i] }, uint64(len(ns)), limit)
	case "mk.bytevec":
		return mkTwice(unhex(p.next()), func(bs []byte) tree.Root { return h.ByteVectorHTR(bs) })
	case "mk.bytelist":
		limit := p.num()
		return mkTwice(unhex(p.next()), func(bs []byte) tree.Root { return h.ByteListHTR(bs, limit) })
	case "mk.bitvec":
		_ = p.num() // bit length: only the spec side needs it
		return mkTwice(unhex(p.next()), func(bs []byte) tree.Root { return h.BitVectorHTR(bs) })
	case "mk.bitlist":
		limit := p.num()
		return mkTwice(unhex(p.next()), func(bs []byte) tree.Root { return h.BitListHTR(bs, limit) })
	case "mk.union":
		sel := p.num()
		t := p.next()
		if t == "_" {
			r = h.Union(uint8(sel), nil)
		} else {
			r = h.Union(uint8(sel), mkRootHTR(mkToRoot(unhex(t))))
		}
	default:
		panic("bad mk op " + op)
	}
	return "ok " + rootHex(r)
}

// mkTwice: the helpers that take the caller's byte slice are called twice on the same slice; a
// helper must neither change it nor answer differently the second time (reported after the root).
func mkTwice(bs []byte, f func([]byte) tree.Root) string {
	orig := append([]byte(nil), bs...)
	r1 := f(bs)
	r2 := f(bs)
	out := "ok " + rootHex(r1)
	if r2 != r1 {
		out += " second-call=" + rootHex(r2)
	}
	if !bytes.Equal(orig, bs) {
		out += " input-changed-to=" + hexs(bs)
	}
	return out
}

// ---- generator ----

var mkTypedLimits = []uint64{0, 1, 2, 3, 4, 5, 6, 7, 8, 9, 10, 11, 12, 13, 14, 15, 16, 17, 31, 32, 33,
	255, 256, 257, 512, 513, 1 << 20, 1 << 32, 1 << 40}

func genC08(g *Gen, tier string, out *bufio.Writer) {
	thorough := tier == "thorough"
	hashes := []string{"sha", "alt"}
	pickHash := func() string { return hashes[g.Intn(2)] }
	seedOf := func() uint64 {
		if g.Chance(4) {
			return 0 // all-zero leaves
		}
		return 1 + g.U64()%0xffffffff
	}
	emit := func(format string, a ...interface{}) { fmt.Fprintf(out, format+"\n", a...) }

	// 1. every (count, limit) with count <= limit <= 70, both hashes
	for limit := uint64(0); limit <= 70; limit++ {
		for count := uint64(0); count <= limit; count++ {
			for _, hn := range hashes {
				emit("mk.merkleize %s %d %d %d", hn, count, limit, seedOf())
			}
		}
	}
	// 2. limits 2^k, 2^k±1 (k <= 64, within uint64) and 2^64-1, counts <= 9
	var bigLimits []uint64
	for k := uint(0); k <= 64; k++ {
		var p uint64
		if k < 64 {
			p = uint64(1) << k
			bigLimits = append(bigLimits, p, p+1)
		}
		bigLimits = append(bigLimits, p-1) // k = 64: 2^64-1
	}
	for _, limit := range bigLimits {
		for count := uint64(0); count <= 9; count++ {
			if count > limit {
				continue
			}
			if !thorough && !g.Chance(25) && count != 0 && count != 9 {
				continue
			}
			op := "mk.merkleize"
			if g.Chance(20) {
				op = "mk.chunks"
			}
			if thorough {
				for _, hn := range hashes {
					emit("%s %s %d %d %d", op, hn, count, limit, seedOf())
				}
			} else {
				emit("%s %s %d %d %d", op, pickHash(), count, limit, seedOf())
			}
		}
	}
	// 3. random larger counts with tight and wide limits
	nr := 150
	if thorough {
		nr = 1500
	}
	for i := 0; i < nr; i++ {
		count := uint64(g.Intn(300))
		var limit uint64
		switch g.Intn(4) {
		case 0:
			limit = count
		case 1:
			limit = count + uint64(g.Intn(5))
		case 2:
			limit = count + g.U64()%(1<<uint(g.Intn(40)+1))
		default:
			limit = g.Pick(bigLimits)
			if limit < count {
				limit = count
			}
		}
		emit("mk.merkleize %s %d %d %d", pickHash(), count, limit, seedOf())
	}
	// 4. outside the property: count > limit (correspondence only)
	for i := 0; i < 60; i++ {
		limit := uint64(g.Intn(20))
		emit("mk.merkleize %s %d %d %d", pickHash(), limit+1+uint64(g.Intn(20)), limit, seedOf())
	}

	// typed helpers
	limitFor := func(n uint64) uint64 { // a limit >= n from the property's list (or n itself)
		if g.Chance(12) {
			// limits whose byte or bit size no longer fits 64 bits ("limits up to 2^64-1")
			return g.Pick([]uint64{1 << 56, 1<<58 + 3, 1 << 59, 1 << 60, 1<<61 - 1, 1 << 61, 1<<61 + 4, 1 << 62, 1<<63 - 1, 1 << 63, 1<<63 + 1})
		}
		var ok []uint64
		for _, l := range mkTypedLimits {
			if l >= n {
				ok = append(ok, l)
			}
		}
		if g.Chance(15) {
			return n
		}
		return g.Pick(ok)
	}
	root := func() string {
		switch g.Intn(10) {
		case 0:
			return hexs(make([]byte, 32))
		case 1:
			return hexs(tree.ZeroHashes[1+g.Intn(3)][:]) // sha zero hashes as content
		}
		return hexs(g.Bytes(32))
	}
	roots := func(k int, nilPct int) string {
		var sb strings.Builder
		sb.WriteString(strconv.Itoa(k))
		for i := 0; i < k; i++ {
			if g.Chance(nilPct) {
				sb.WriteString(" _")
			} else {
				sb.WriteString(" " + root())
			}
		}
		return sb.String()
	}
	rounds := 1
	if thorough {
		rounds = 8
	}
	for rd := 0; rd < rounds; rd++ {
		// fields / complex vectors / complex lists: every small length and the 31/32/33 boundary
		ks := []int{0, 1, 2, 3, 4, 5, 6, 7, 8, 9, 10, 11, 12, 13, 14, 15, 16, 17, 31, 32, 33, 64, 65}
		for _, k := range ks {
			emit("mk.fields %s %s", pickHash(), roots(k, 0))
			emit("mk.cvec %s %s", pickHash(), roots(k, 10))
			emit("mk.clist %s %d %s", pickHash(), limitFor(uint64(k)), roots(k, 10))
			emit("mk.clist %s %d %s", pickHash(), limitFor(uint64(k)), roots(k, 0))
		}
		for k := 0; k <= 3; k++ { // the hard-coded short paths of HashTreeRoot(fields...), both hashes
			for _, hn := range hashes {
				emit("mk.fields %s %s", hn, roots(k, 0))
			}
		}
		// byte-wise helpers around the chunk boundaries
		blens := []int{0, 1, 2, 31, 32, 33, 63, 64, 65, 95, 96, 97, 127, 128, 129, 255, 256, 257, g.Intn(600), g.Intn(600)}
		for _, n := range blens {
			bs := g.Bytes(n)
			if g.Chance(10) {
				bs = make([]byte, n)
			}
			emit("mk.u8vec %s %s", pickHash(), hexs(bs))
			emit("mk.bytevec %s %s", pickHash(), hexs(bs))
			emit("mk.u8list %s %d %s", pickHash(), limitFor(uint64(n)), hexs(bs))
			emit("mk.bytelist %s %d %s", pickHash(), limitFor(uint64(n)), hexs(bs))
			emit("mk.u8list %s %d %s", pickHash(), limitFor(uint64(n)), hexs(bs))
			emit("mk.bytelist %s %d %s", pickHash(), limitFor(uint64(n)), hexs(bs))
		}
		// uint64 series: 4n, 4n±1
		for _, k := range []int{0, 1, 2, 3, 4, 5, 7, 8, 9, 11, 12, 13, 15, 16, 17, 31, 32, 33, 63, 64, 65, g.Intn(200)} {
			var sb strings.Builder
			sb.WriteString(strconv.Itoa(k))
			for i := 0; i < k; i++ {
				var v uint64
				switch g.Intn(8) {
				case 0:
					v = 0
				case 1:
					v = ^uint64(0)
				case 2:
					v = uint64(g.Intn(256))
				default:
					v = g.U64()
				}
				sb.WriteString(" " + strconv.FormatUint(v, 10))
			}
			emit("mk.u64vec %s %s", pickHash(), sb.String())
			emit("mk.u64list %s %d %s", pickHash(), limitFor(uint64(k)), sb.String())
			emit("mk.u64list %s %d %s", pickHash(), limitFor(uint64(k)), sb.String())
		}
		// bitfields
		for _, n := range []int{0, 1, 2, 7, 8, 9, 15, 16, 17, 63, 64, 65, 247, 248, 249, 255, 256, 257, 263, 264, 265,
			511, 512, 513, 767, 768, 769, g.Intn(1200), g.Intn(1200)} {
			bits := make([]bool, n)
			mode := g.Intn(6)
			for i := range bits {
				switch mode {
				case 0:
					bits[i] = false
				case 1:
					bits[i] = true
				default:
					bits[i] = g.Bool()
				}
			}
			if n > 0 {
				emit("mk.bitvec %s %d %s", pickHash(), n, hexs(mkPackBools(bits, false)))
			}
			pk := hexs(mkPackBools(bits, true))
			emit("mk.bitlist %s %d %s", pickHash(), limitFor(uint64(n)), pk)
			emit("mk.bitlist %s %d %s", pickHash(), limitFor(uint64(n)), pk)
			emit("mk.bitlen %s", pk)
		}
		// mix-ins and unions
		for _, n := range []uint64{0, 1, 2, 255, 256, 257, 65535, 65536, 1 << 32, 1<<32 + 1, 1 << 40, 1<<63 - 1, 1 << 63, ^uint64(0), g.U64()} {
			emit("mk.mixin %s %s %d", pickHash(), root(), n)
		}
		for i := 0; i < 24; i++ {
			sel := g.Intn(128)
			if i < 4 {
				sel = i
			}
			if g.Chance(25) {
				emit("mk.union %s %d _", pickHash(), sel)
			} else {
				emit("mk.union %s %d %s", pickHash(), sel, root())
			}
		}
		emit("mk.union %s 255 %s", pickHash(), root())
		// malformed / outside the property: bitlists without delimiter, over-limit data,
		// bitvectors with dirty padding (correspondence only)
		emit("mk.bitlist %s %d x", pickHash(), g.Pick(mkTypedLimits))
		emit("mk.bitlen x")
		for _, n := range []int{1, 2, 32, 33, 64} {
			bs := g.Bytes(n)
			bs[n-1] = 0
			emit("mk.bitlist %s %d %s", pickHash(), g.Pick(mkTypedLimits), hexs(bs))
			emit("mk.bitlen %s", hexs(bs))
			bs2 := g.Bytes(n)
			emit("mk.bitlist %s %d %s", pickHash(), g.Pick(mkTypedLimits), hexs(bs2)) // random: maybe over limit
			emit("mk.bitlen %s", hexs(bs2))
			emit("mk.bitvec %s %d %s", pickHash(), n*8-3, hexs(bs2))
			emit("mk.u8list %s %d %s", pickHash(), uint64(g.Intn(n)), hexs(bs2))
			emit("mk.bytelist %s %d %s", pickHash(), uint64(g.Intn(n)), hexs(bs2))
		}
		emit("mk.u64list %s 1 3 5 6 7", pickHash())
		emit("mk.clist %s 2 %s", pickHash(), roots(5, 0))
	}
}

// mkPackBools packs bits LSB-first, optionally with the bitlist delimiter bit.
func mkPackBools(bits []bool, delimiter bool) []byte {
	n := len(bits)
	total := n
	if delimiter {
		total++
	}
	out := make([]byte, (total+7)/8)
	for i, b := range bits {
		if b {
			out[i/8] |= 1 << uint(i%8)
		}
	}
	if delimiter {
		out[n/8] |= 1 << uint(n%8)
	}
	return out
}
