package main

// Op family "bf.*" (property C18): the free helper functions of package bitfields,
// run on the real code.  See lean/Driver/OpsBitfields.lean for the op list.

import (
	"bufio"
	"fmt"
	"strconv"
	"strings"

	"github.com/protolambda/ztyp/bitfields"
)

// c18EmitWrapWitness: BitvectorCheck computes (bitLength+7)>>3 in uint64; for the seven
// lengths n >= 2^64-7 this wraps to 0 and the empty byte string is accepted
// (theorem ZtypV.Props.C18.bitvectorCheck_wrap_violates_spec).  Such lengths are far
// outside the property's quantifier (lengths 0..40 and values around 8*len), so the
// generator does not emit them by default; set to true to make the runner exhibit the
// PROP failure on the real code ("bf.bvcheck x 18446744073709551615 => ok").
const c18EmitWrapWitness = false

func init() {
	registerExec("bf.bitindex", execBfBitIndex)
	registerExec("bf.blcheck", execBfBlCheck)
	registerExec("bf.bvcheck", execBfBvCheck)
	registerExec("bf.checks", execBfChecks)
	registerExec("bf.blchecklen", execBfBlCheckLen)
	registerExec("bf.blchecklast", execBfBlCheckLast)
	registerExec("bf.bvchecklen", execBfBvCheckLen)
	registerExec("bf.bvchecklast", execBfBvCheckLast)
	registerExec("bf.bllen", execBfBlLen)
	registerExec("bf.get", execBfGet)
	registerExec("bf.set", execBfSet)
	registerExec("bf.getall", execBfGetAll)
	registerExec("bf.setall", execBfSetAll)
	registerExec("bf.str", execBfStr)
	registerExec("bf.coversrow", execBfCoversRow)
	registerExec("bf.ones", execBfOnes)
	registerExec("bf.zero", execBfZero)
	registerExec("bf.covers", execBfCovers)
	registerGen("C18", genC18)
}

func bfU64(s string) uint64 {
	n, err := strconv.ParseUint(s, 10, 64)
	if err != nil {
		panic("parse: " + err.Error())
	}
	return n
}

func okErr(err error) string {
	if err != nil {
		return "err"
	}
	return "ok"
}

func b01(b bool) string {
	if b {
		return "1"
	}
	return "0"
}

func execBfBitIndex(st *State, args []string) string {
	return fmt.Sprintf("ok %d", bitfields.BitIndex(byte(bfU64(args[0]))))
}

func execBfBlCheck(st *State, args []string) string {
	return okErr(bitfields.BitlistCheck(unhex(args[0]), bfU64(args[1])))
}

func execBfBvCheck(st *State, args []string) string {
	return okErr(bitfields.BitvectorCheck(unhex(args[0]), bfU64(args[1])))
}

// bf.checks x<hex> lo hi -> ok <bitlist acceptance bitmap> <bitvector acceptance bitmap>
func execBfChecks(st *State, args []string) string {
	b := unhex(args[0])
	lo, hi := bfU64(args[1]), bfU64(args[2])
	var bl, bv strings.Builder
	for l := lo; l <= hi; l++ {
		bl.WriteString(b01(bitfields.BitlistCheck(b, l) == nil))
		bv.WriteString(b01(bitfields.BitvectorCheck(b, l) == nil))
		if l == ^uint64(0) {
			break
		}
	}
	return "ok " + bl.String() + " " + bv.String()
}

func execBfBlCheckLen(st *State, args []string) string {
	return okErr(bitfields.BitlistCheckByteLen(bfU64(args[0]), bfU64(args[1])))
}

func execBfBlCheckLast(st *State, args []string) string {
	return okErr(bitfields.BitlistCheckLastByte(byte(bfU64(args[0])), bfU64(args[1])))
}

func execBfBvCheckLen(st *State, args []string) string {
	return okErr(bitfields.BitvectorCheckByteLen(bfU64(args[0]), bfU64(args[1])))
}

func execBfBvCheckLast(st *State, args []string) string {
	return okErr(bitfields.BitvectorCheckLastByte(byte(bfU64(args[0])), bfU64(args[1])))
}

func execBfBlLen(st *State, args []string) string {
	return fmt.Sprintf("ok %d", bitfields.BitlistLen(unhex(args[0])))
}

func execBfGet(st *State, args []string) string {
	return "ok " + b01(bitfields.GetBit(unhex(args[0]), bfU64(args[1])))
}

func execBfSet(st *State, args []string) string {
	b := append([]byte{}, unhex(args[0])...)
	bitfields.SetBit(b, bfU64(args[1]), args[2] != "0")
	return "ok " + hexs(b)
}

// guarded runs f and maps a panic to the given token
func guarded(onPanic string, f func() string) (res string) {
	defer func() {
		if r := recover(); r != nil {
			res = onPanic
		}
	}()
	return f()
}

// bf.getall x<hex> n -> ok <one char per index 0..n-1: 0 | 1 | p (panic)>
func execBfGetAll(st *State, args []string) string {
	return "ok " + bfGetAll(unhex(args[0]), bfU64(args[1]))
}

// bf.setall x<hex> n v -> ok <result of SetBit(copy, i, v) for i in 0..n-1, comma separated: hex | p>
func execBfSetAll(st *State, args []string) string {
	return "ok " + bfSetAll(unhex(args[0]), bfU64(args[1]), args[2] != "0")
}

func bfGetAll(b []byte, n uint64) string {
	var sb strings.Builder
	for i := uint64(0); i < n; i++ {
		i := i
		sb.WriteString(guarded("p", func() string { return b01(bitfields.GetBit(b, i)) }))
	}
	return sb.String()
}

func bfSetAll(orig []byte, n uint64, v bool) string {
	parts := make([]string, 0, n)
	for i := uint64(0); i < n; i++ {
		i := i
		parts = append(parts, guarded("p", func() string {
			b := append([]byte{}, orig...)
			bitfields.SetBit(b, i, v)
			return hexs(b)
		}))
	}
	return strings.Join(parts, ",")
}

// bf.str x<hex> n -> ok <BitlistLen> <BitlistOnesCount> <BitvectorOnesCount> <IsZeroBitlist>
//                       <getall n> <setall n 0> <setall n 1>
func execBfStr(st *State, args []string) string {
	b := unhex(args[0])
	n := bfU64(args[1])
	return fmt.Sprintf("ok %d %d %d %s %s %s %s", bitfields.BitlistLen(b), bitfields.BitlistOnesCount(b),
		bitfields.BitvectorOnesCount(b), b01(bitfields.IsZeroBitlist(b)),
		bfGetAll(b, n), bfSetAll(b, n, false), bfSetAll(b, n, true))
}

// bf.coversrow x<hh> -> ok <Covers(a, [v]) for v = 0..255: 0 | 1 | e>
func execBfCoversRow(st *State, args []string) string {
	a := unhex(args[0])
	var sb strings.Builder
	for v := 0; v < 256; v++ {
		r, err := bitfields.Covers(a, []byte{byte(v)})
		if err != nil {
			sb.WriteString("e")
		} else {
			sb.WriteString(b01(r))
		}
	}
	return "ok " + sb.String()
}

func execBfOnes(st *State, args []string) string {
	b := unhex(args[0])
	return fmt.Sprintf("ok %d %d", bitfields.BitlistOnesCount(b), bitfields.BitvectorOnesCount(b))
}

func execBfZero(st *State, args []string) string {
	return "ok " + b01(bitfields.IsZeroBitlist(unhex(args[0])))
}

func execBfCovers(st *State, args []string) string {
	a, b := unhex(args[0]), unhex(args[1])
	obs := func(x, y []byte) string {
		r, err := bitfields.Covers(x, y)
		if err != nil {
			return "err"
		}
		return "ok " + b01(r)
	}
	r1 := obs(a, b)
	// the answer must not depend on where the two arguments live: the same contents as two views
	// of ONE buffer (prefix views when one is a prefix of the other, adjacent views otherwise)
	short, long := a, b
	if len(a) > len(b) {
		short, long = b, a
	}
	var r2 string
	if len(short) > 0 && string(long[:len(short)]) == string(short) {
		buf := append([]byte(nil), long...)
		if len(a) <= len(b) {
			r2 = obs(buf[:len(a)], buf[:len(b)])
		} else {
			r2 = obs(buf[:len(a)], buf[:len(b)])
		}
	} else {
		buf := append(append([]byte(nil), a...), b...)
		r2 = obs(buf[:len(a):len(a)], buf[len(a):])
	}
	if r1 != r2 {
		return r1 + " shared-buffer:" + strings.ReplaceAll(r2, " ", "")
	}
	return r1
}

// ---- generator ----

// all byte strings of exactly n bytes (n <= 3), in numeric order of the big-endian value
func bfEachString(n int, f func(b []byte)) {
	total := 1 << (8 * uint(n))
	b := make([]byte, n)
	for x := 0; x < total; x++ {
		for k := 0; k < n; k++ {
			b[k] = byte(x >> (8 * uint(n-1-k)))
		}
		f(b)
	}
}

func bfMix(x uint64) uint64 {
	x ^= x >> 33
	x *= 0xff51afd7ed558ccd
	x ^= x >> 33
	x *= 0xc4ceb9fe1a85ec53
	x ^= x >> 33
	return x
}

// packBits: the spec packing, used only to build mostly-valid inputs
func bfPack(bits []bool) []byte {
	out := make([]byte, (len(bits)+7)/8)
	for i, b := range bits {
		if b {
			out[i>>3] |= 1 << uint(i&7)
		}
	}
	return out
}

func (g *Gen) bfBits(k int) []bool {
	bits := make([]bool, k)
	mode := g.Intn(5)
	for i := range bits {
		switch mode {
		case 0:
			bits[i] = false
		case 1:
			bits[i] = true
		case 2:
			bits[i] = g.Intn(8) == 0
		default:
			bits[i] = g.Bool()
		}
	}
	return bits
}

// a bit length up to 8*70-1, concentrated around multiples of 8
func (g *Gen) bfBitLen() int {
	if g.Chance(70) {
		m := g.Intn(70)
		k := 8*m + g.Intn(5) - 2
		if k < 0 {
			k = 0
		}
		if k > 559 {
			k = 559
		}
		return k
	}
	return g.Intn(560)
}

// a byte string: mostly a valid bitlist / bitvector encoding, sometimes corrupted
func (g *Gen) bfString() []byte {
	k := g.bfBitLen()
	bits := g.bfBits(k)
	var b []byte
	if g.Bool() {
		b = bfPack(append(bits, true)) // bitlist encoding
	} else {
		b = bfPack(bits) // bitvector encoding
	}
	switch g.Intn(12) {
	case 0:
		if len(b) > 0 {
			b[len(b)-1] = 0
		}
	case 1:
		if len(b) > 0 {
			b[len(b)-1] |= 0x80
		}
	case 2:
		b = append(b, 0)
	case 3:
		if len(b) > 0 {
			b = b[:len(b)-1]
		}
	case 4:
		if len(b) > 0 {
			b[len(b)-1] = byte(g.U64())
		}
	case 5:
		if len(b) > 0 {
			b[len(b)-1] ^= 1 << uint(g.Intn(8))
		}
	case 6:
		b = g.Bytes(g.Intn(71))
	}
	return b
}

var bfHuge = []uint64{1 << 32, 1<<32 - 1, 1 << 61, 1<<61 - 1, 1 << 63, 1<<63 - 1, 1<<64 - 9, 1<<64 - 8}

// a limit / length near the interesting values for b
func (g *Gen) bfLimit(b []byte) uint64 {
	n := uint64(len(b))
	switch g.Intn(10) {
	case 0:
		return uint64(g.Intn(4))
	case 1:
		return g.Pick(bfHuge)
	case 2, 3:
		// around the exact bit length of a bitlist encoding
		bl := bitfieldsLenRef(b)
		return clampSub(bl+uint64(g.Intn(5)), 2)
	default:
		// around 8*len and 8*(len-1)
		base := 8 * n
		if g.Bool() && n > 0 {
			base = 8 * (n - 1)
		}
		return clampSub(base+uint64(g.Intn(19)), 9)
	}
}

func clampSub(x, d uint64) uint64 {
	if x < d {
		return 0
	}
	return x - d
}

// reference bit length of a bitlist encoding (0 if there is none); independent of the package
func bitfieldsLenRef(b []byte) uint64 {
	if len(b) == 0 || b[len(b)-1] == 0 {
		return 8 * uint64(len(b))
	}
	last := b[len(b)-1]
	k := 7
	for last>>uint(k) == 0 {
		k--
	}
	return 8*uint64(len(b)-1) + uint64(k)
}

func genC18(g *Gen, tier string, w *bufio.Writer) {
	thorough := tier == "thorough"
	seed := g.U64()

	// BitIndex: all bytes
	for v := 0; v < 256; v++ {
		fmt.Fprintf(w, "bf.bitindex %d\n", v)
	}
	// exported sub-checks: all last bytes x small limits, byte lengths x small limits, boundaries
	for v := 0; v < 256; v++ {
		for l := 0; l <= 9; l++ {
			fmt.Fprintf(w, "bf.blchecklast %d %d\n", v, l)
		}
		for n := 0; n <= 17; n++ {
			fmt.Fprintf(w, "bf.bvchecklast %d %d\n", v, n)
		}
		fmt.Fprintf(w, "bf.blchecklast %d %d\n", v, g.Pick(bfHuge))
		fmt.Fprintf(w, "bf.bvchecklast %d %d\n", v, g.Pick(bfHuge)+uint64(g.Intn(8)))
	}
	for bl := 0; bl <= 7; bl++ {
		for l := 0; l <= 40; l++ {
			fmt.Fprintf(w, "bf.blchecklen %d %d\n", bl, l)
			fmt.Fprintf(w, "bf.bvchecklen %d %d\n", bl, l)
		}
	}
	for i := 0; i < 400; i++ {
		// byte lengths around limit/8 for large limits (no wrap of n+7: n <= 2^64-8)
		lim := g.Pick(bfHuge) - uint64(g.Intn(9))
		if g.Bool() {
			lim = g.U64() >> uint(g.Intn(64))
		}
		if lim > 1<<64-8 {
			lim = 1<<64 - 8
		}
		fmt.Fprintf(w, "bf.blchecklen %d %d\n", lim>>3+uint64(g.Intn(4)), lim)
		fmt.Fprintf(w, "bf.bvchecklen %d %d\n", clampSub((lim+7)>>3+uint64(g.Intn(3)), 1), lim)
	}
	fmt.Fprintf(w, "bf.blchecklen %d %d\n", uint64(1)<<61, ^uint64(0))
	fmt.Fprintf(w, "bf.blchecklen %d %d\n", uint64(1)<<61+1, ^uint64(0))
	fmt.Fprintf(w, "bf.blcheck x %d\n", ^uint64(0))
	fmt.Fprintf(w, "bf.blcheck x01 %d\n", ^uint64(0))
	if c18EmitWrapWitness {
		for d := uint64(0); d < 8; d++ {
			fmt.Fprintf(w, "bf.bvcheck x %d\n", ^uint64(0)-d)
			fmt.Fprintf(w, "bf.bvchecklen 0 %d\n", ^uint64(0)-d)
		}
	}

	// checks: every byte string of <= 2 bytes x every limit/length 0..40
	for n := 0; n <= 2; n++ {
		bfEachString(n, func(b []byte) {
			fmt.Fprintf(w, "bf.checks %s 0 40\n", hexs(b))
		})
	}
	// 3-byte strings x every limit/length 0..40:
	//   quick:    a seed-chosen ~1% (hash slice) of the 2^24 strings
	//   thorough: every string whose FIRST byte is = seed mod 8 (mod 8): the last two bytes
	//             (which decide the outcome) are exhaustive in every run, and 8 consecutive
	//             seeds cover all 2^24 strings
	bfEachString(3, func(b []byte) {
		x := uint64(b[0])<<16 | uint64(b[1])<<8 | uint64(b[2])
		if thorough {
			if uint64(b[0])%8 != seed%8 {
				return
			}
		} else if bfMix(x^seed<<24)%100 != 0 {
			return
		}
		fmt.Fprintf(w, "bf.checks %s 0 40\n", hexs(b))
	})

	// len / ones / zero / get / set: every byte string of <= 2 bytes, every index up to one byte
	// past the end (panic region), both values
	for n := 0; n <= 2; n++ {
		bfEachString(n, func(b []byte) {
			fmt.Fprintf(w, "bf.str %s %d\n", hexs(b), 8*n+9)
		})
	}
	// covers: all pairs of 1-byte strings, sampled pairs of 2-byte strings, length mismatches
	for a := 0; a < 256; a++ {
		fmt.Fprintf(w, "bf.coversrow x%02x\n", a)
	}
	fmt.Fprintf(w, "bf.coversrow x\nbf.coversrow x0102\n")
	for i := 0; i < tierN(tier, 20000, 400000); i++ {
		a := g.Bytes(2)
		b := g.Bytes(2)
		switch g.Intn(3) {
		case 0:
			b[0] &= a[0]
			b[1] &= a[1]
		case 1:
			b[0] &= a[0]
			b[1] = a[1] | 1<<uint(g.Intn(8))
		}
		fmt.Fprintf(w, "bf.covers %s %s\n", hexs(a), hexs(b))
	}
	for la := 0; la <= 3; la++ {
		for lb := 0; lb <= 3; lb++ {
			fmt.Fprintf(w, "bf.covers %s %s\n", hexs(g.Bytes(la)), hexs(make([]byte, lb)))
		}
	}
	// every pair of prefixes of one string (length mismatch must be reported whatever the contents
	// and wherever the slices live), plus equal strings
	for i := 0; i < tierN(tier, 60, 2000); i++ {
		b := g.Bytes(1 + g.Intn(9))
		if g.Chance(30) {
			b[len(b)-1] = 0xff
		}
		for la := 1; la <= len(b); la++ {
			for lb := 1; lb <= len(b); lb++ {
				fmt.Fprintf(w, "bf.covers %s %s\n", hexs(b[:la]), hexs(b[:lb]))
			}
		}
	}
	// 3-byte sample for the per-string helpers
	for i := 0; i < tierN(tier, 3000, 100000); i++ {
		b := g.Bytes(3)
		if g.Chance(30) {
			b[2] = byte(1) << uint(g.Intn(8))
		}
		fmt.Fprintf(w, "bf.str %s 33\n", hexs(b))
	}

	// sparse strings: exactly one non-zero body byte at every position of strings of 1..24 bytes
	// (plus a delimiter byte), and two equal / complementary non-zero bytes (unrolled loops, lanes
	// of word-at-a-time code, accumulators that cancel)
	for n := 1; n <= 24; n++ {
		for p := 0; p < n; p++ {
			for _, x := range []byte{0x01, 0x80, 0xff} {
				b := make([]byte, n+1)
				b[p] = x
				b[n] = 1
				fmt.Fprintf(w, "bf.str %s %d\n", hexs(b), 8*n+8)
				fmt.Fprintf(w, "bf.str %s %d\n", hexs(b[:n]), 8*n)
				for q := p + 1; q < n; q += 1 + (n / 6) {
					c := append([]byte(nil), b...)
					c[q] = x
					fmt.Fprintf(w, "bf.covers %s %s\n", hexs(make([]byte, n+1)), hexs(c))
					fmt.Fprintf(w, "bf.covers %s %s\n", hexs(b), hexs(c))
				}
			}
		}
	}

	// longer strings (up to 70 bytes) around the 8-bit and the limit boundaries
	for i := 0; i < tierN(tier, 6000, 150000); i++ {
		b := g.bfString()
		h := hexs(b)
		switch g.Intn(8) {
		case 0, 1:
			fmt.Fprintf(w, "bf.blcheck %s %d\n", h, g.bfLimit(b))
		case 2, 3:
			fmt.Fprintf(w, "bf.bvcheck %s %d\n", h, g.bfLimit(b))
		case 4:
			// window of limits/lengths around 8*len
			lo := clampSub(8*uint64(len(b)), 12)
			fmt.Fprintf(w, "bf.checks %s %d %d\n", h, lo, lo+24)
		case 5:
			fmt.Fprintf(w, "bf.bllen %s\nbf.ones %s\nbf.zero %s\n", h, h, h)
		case 6:
			var i uint64
			switch g.Intn(6) {
			case 0:
				i = g.Pick([]uint64{1 << 32, 1 << 61, 1 << 63, 1<<64 - 1, 1<<64 - 8, 1 << 35})
			case 1:
				i = clampSub(8*uint64(len(b))+uint64(g.Intn(17)), 8)
			default:
				i = uint64(g.Intn(8*len(b) + 1))
			}
			fmt.Fprintf(w, "bf.get %s %d\nbf.set %s %d %d\n", h, i, h, i, g.Intn(2))
		case 7:
			a := b
			c := g.bfString()
			if g.Chance(85) {
				// same byte length: derive c from a
				c = append([]byte{}, a...)
				switch g.Intn(4) {
				case 0: // subset
					for k := range c {
						c[k] &= byte(g.U64())
					}
				case 1: // one extra bit somewhere
					if len(c) > 0 {
						c[g.Intn(len(c))] |= 1 << uint(g.Intn(8))
					}
				case 2: // extra bit in the last or first byte
					if len(c) > 0 {
						k := 0
						if g.Bool() {
							k = len(c) - 1
						}
						c[k] |= 1 << uint(g.Intn(8))
					}
				case 3:
					c = g.Bytes(len(a))
				}
			}
			if g.Bool() {
				a, c = c, a
			}
			fmt.Fprintf(w, "bf.covers %s %s\n", hexs(a), hexs(c))
		}
	}
}
