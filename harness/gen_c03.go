package main

import (
	"bufio"
	"encoding/binary"
	"fmt"
)

// corrupt applies one structure-aware corruption to a valid encoding.
func (g *Gen) corrupt(bs []byte) []byte {
	out := append([]byte{}, bs...)
	switch g.Intn(9) {
	case 0: // offset word tweak at a 4-aligned or arbitrary position
		if len(out) >= 4 {
			pos := g.Intn(len(out) - 3)
			if g.Chance(70) {
				pos &^= 3
			}
			if g.Chance(60) {
				pos = 0
				if g.Chance(50) && len(out) >= 8 {
					pos = 4 * g.Intn(len(out)/4)
					if pos+4 > len(out) {
						pos = 0
					}
				}
			}
			v := binary.LittleEndian.Uint32(out[pos:])
			switch g.Intn(9) {
			case 0:
				v++
			case 1:
				v--
			case 2:
				v += 4
			case 3:
				v -= 4
			case 4:
				v = 0
			case 5:
				v = uint32(len(out))
			case 6:
				v = uint32(g.U64())
			case 7:
				v = 0xffffffff - uint32(g.Intn(8))
			case 8:
				v = uint32(len(out)) + uint32(g.Intn(9)) - 4
			}
			binary.LittleEndian.PutUint32(out[pos:], v)
		}
	case 1: // truncate
		if len(out) > 0 {
			out = out[:g.Intn(len(out))]
		}
	case 2: // extend
		out = append(out, g.Bytes(1+g.Intn(5))...)
	case 3: // bit flip
		if len(out) > 0 {
			out[g.Intn(len(out))] ^= 1 << uint(g.Intn(8))
		}
	case 4: // insert
		pos := g.Intn(len(out) + 1)
		ins := g.Bytes(1 + g.Intn(4))
		out = append(out[:pos], append(ins, out[pos:]...)...)
	case 5: // delete
		if len(out) > 0 {
			pos := g.Intn(len(out))
			n := 1 + g.Intn(4)
			if pos+n > len(out) {
				n = len(out) - pos
			}
			out = append(out[:pos], out[pos+n:]...)
		}
	case 6: // last byte tweak (bitfield padding / delimiter)
		if len(out) > 0 {
			switch g.Intn(4) {
			case 0:
				out[len(out)-1] = 0
			case 1:
				out[len(out)-1] |= 0x80
			case 2:
				out[len(out)-1] = byte(g.U64())
			case 3:
				out = append(out, 0)
			}
		}
	case 7: // first byte tweak (selector / bool)
		if len(out) > 0 {
			out[0] = byte(g.Intn(6))
			if g.Chance(30) {
				out[0] = byte(g.U64())
			}
		}
	case 8: // byte set
		if len(out) > 0 {
			out[g.Intn(len(out))] = byte(g.Pick([]uint64{0, 1, 2, 0x7f, 0x80, 0xff}))
		}
	}
	return out
}

// smallTypes is the set used for exhaustive short-string enumeration.
func smallTypes() []*Ty {
	u8 := &Ty{Kind: KUint, N: 1}
	u16 := &Ty{Kind: KUint, N: 2}
	b := &Ty{Kind: KBool}
	bl3 := &Ty{Kind: KBitlist, N: 3}
	bl9 := &Ty{Kind: KBitlist, N: 9}
	l8 := &Ty{Kind: KList, N: 3, Elem: u8}
	l16 := &Ty{Kind: KList, N: 2, Elem: u16}
	return []*Ty{
		{Kind: KBitvector, N: 1}, {Kind: KBitvector, N: 3}, {Kind: KBitvector, N: 8}, {Kind: KBitvector, N: 9}, {Kind: KBitvector, N: 17},
		{Kind: KBitlist, N: 0}, {Kind: KBitlist, N: 1}, bl3, {Kind: KBitlist, N: 7}, {Kind: KBitlist, N: 8}, bl9, {Kind: KBitlist, N: 16}, {Kind: KBitlist, N: 1 << 20},
		{Kind: KVector, N: 1, Elem: u8}, {Kind: KVector, N: 2, Elem: u8}, {Kind: KVector, N: 3, Elem: u8}, {Kind: KVector, N: 1, Elem: u16},
		{Kind: KList, N: 0, Elem: u8}, {Kind: KList, N: 1, Elem: u8}, l8, {Kind: KList, N: 1 << 32, Elem: u8}, l16, {Kind: KList, N: 5, Elem: u16},
		{Kind: KVector, N: 2, Elem: b}, {Kind: KList, N: 3, Elem: b},
		{Kind: KContainer, Fields: []*Ty{u8}}, {Kind: KContainer, Fields: []*Ty{u8, u8}}, {Kind: KContainer, Fields: []*Ty{b, u16}},
		{Kind: KContainer, Fields: []*Ty{bl3}}, {Kind: KContainer, Fields: []*Ty{l8}}, {Kind: KContainer, Fields: []*Ty{u8, l8}},
		{Kind: KContainer, Fields: []*Ty{bl3, bl3}},
		{Kind: KUnion, Fields: []*Ty{u8}}, {Kind: KUnion, Fields: []*Ty{u8, u16}}, {Kind: KUnion, HasNone: true, Fields: []*Ty{u8}},
		{Kind: KUnion, HasNone: true, Fields: []*Ty{bl3, l8}}, {Kind: KUnion, Fields: []*Ty{l8}}, {Kind: KUnion, Fields: []*Ty{b}},
		{Kind: KList, N: 2, Elem: bl3}, {Kind: KList, N: 3, Elem: l8}, {Kind: KList, N: 1 << 40, Elem: bl9},
		{Kind: KVector, N: 1, Elem: bl3}, {Kind: KVector, N: 2, Elem: l8},
		{Kind: KList, N: 2, Elem: &Ty{Kind: KUnion, HasNone: true, Fields: []*Ty{u8}}},
		{Kind: KList, N: 4, Elem: &Ty{Kind: KContainer, Fields: []*Ty{u8}}},
		{Kind: KVector, N: 2, Elem: &Ty{Kind: KContainer, Fields: []*Ty{b}}},
	}
}

func genC03(g *Gen, tier string, w *bufio.Writer) {
	// exhaustive short strings for small types
	maxLen := 2
	if tier == "thorough" {
		maxLen = 3
	}
	for _, t := range smallTypes() {
		var rec func(prefix []byte)
		rec = func(prefix []byte) {
			fmt.Fprintf(w, "dec %s %s\n", t, hexs(prefix))
			if len(prefix) == maxLen {
				return
			}
			for b := 0; b < 256; b++ {
				// beyond the first byte only a reduced alphabet, to keep the count down
				if len(prefix) >= 1 && !(b <= 9 || b == 0x7f || b == 0x80 || b == 0xff) {
					continue
				}
				rec(append(append([]byte{}, prefix...), byte(b)))
			}
		}
		rec(nil)
	}
	// exhaustive offset-word enumeration on offset-carrying types: 4..12 byte strings
	// whose 32-bit words range over small values
	offTypes := []*Ty{
		{Kind: KList, N: 3, Elem: &Ty{Kind: KBitlist, N: 9}},
		{Kind: KList, N: 1 << 40, Elem: &Ty{Kind: KList, N: 4, Elem: &Ty{Kind: KUint, N: 1}}},
		{Kind: KVector, N: 2, Elem: &Ty{Kind: KList, N: 4, Elem: &Ty{Kind: KUint, N: 1}}},
		{Kind: KContainer, Fields: []*Ty{{Kind: KList, N: 4, Elem: &Ty{Kind: KUint, N: 1}}, {Kind: KList, N: 4, Elem: &Ty{Kind: KUint, N: 1}}}},
		{Kind: KContainer, Fields: []*Ty{{Kind: KUint, N: 1}, {Kind: KBitlist, N: 9}}},
		// a dynamic field that cannot be empty (bitlist / union / container with a dynamic field)
		// followed by one that can absorb the bytes the size check needs
		{Kind: KContainer, Fields: []*Ty{{Kind: KBitlist, N: 9}, {Kind: KList, N: 4, Elem: &Ty{Kind: KUint, N: 1}}}},
		{Kind: KContainer, Fields: []*Ty{{Kind: KUnion, HasNone: true, Fields: []*Ty{{Kind: KUint, N: 1}}}, {Kind: KList, N: 4, Elem: &Ty{Kind: KUint, N: 1}}}},
		{Kind: KContainer, Fields: []*Ty{{Kind: KContainer, Fields: []*Ty{{Kind: KList, N: 4, Elem: &Ty{Kind: KUint, N: 1}}}}, {Kind: KList, N: 4, Elem: &Ty{Kind: KUint, N: 1}}}},
		{Kind: KList, N: 4, Elem: &Ty{Kind: KUnion, HasNone: true, Fields: []*Ty{{Kind: KUint, N: 2}, {Kind: KList, N: 8, Elem: &Ty{Kind: KUint, N: 1}}}}},
	}
	words := []uint32{0, 1, 3, 4, 5, 7, 8, 9, 11, 12, 13, 16, 0xffffffff, 0x80000000}
	for _, t := range offTypes {
		for _, a := range words {
			for _, b := range words {
				for tail := 0; tail <= 3; tail++ {
					bs := make([]byte, 8+tail)
					binary.LittleEndian.PutUint32(bs[0:], a)
					binary.LittleEndian.PutUint32(bs[4:], b)
					for k := 0; k < tail; k++ {
						bs[8+k] = byte(1 + k)
					}
					fmt.Fprintf(w, "dec %s %s\n", t, hexs(bs))
				}
			}
			for tail := 0; tail <= 4; tail++ {
				bs := make([]byte, 4+tail)
				binary.LittleEndian.PutUint32(bs[0:], a)
				for k := 0; k < tail; k++ {
					bs[4+k] = byte(1 + k)
				}
				fmt.Fprintf(w, "dec %s %s\n", t, hexs(bs))
			}
		}
	}
	// valid encodings and their corruptions for random composite types
	n := tierN(tier, 2500, 60000)
	o := TyOpts{}
	for i := 0; i < n; i++ {
		t := g.RandTy(1+g.Intn(3), o)
		if t.Kind == KUint || t.Kind == KBool || t.Kind == KBytesN {
			continue // bare leaf types: fixed-size reads only (property text)
		}
		v := g.RandVal(t, 120)
		bs := refSer(t, v)
		fmt.Fprintf(w, "dec %s %s\n", t, hexs(bs))
		for k := 0; k < 4; k++ {
			c := g.corrupt(bs)
			if g.Chance(20) {
				c = g.corrupt(c)
			}
			fmt.Fprintf(w, "dec %s %s\n", t, hexs(c))
		}
	}
}
