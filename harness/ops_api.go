package main

// Op family "api.*" (property family C02c; properties C02 / C04 / C15 / C13): public API of
// /repo/view and /repo/codec that no other op calls directly.
//
//	api.td T                 type-definition accessors, by the kind of T
//	     L n uN   -> ok blist <same> <efix> <esize> <emin> <emax> <Limit> <ElementsPerBottomNode> <BottomNodeLimit>
//	     V n uN   -> ok bvec  <same> <efix> <esize> <emin> <emax> <Length> <ElementsPerBottomNode> <BottomNodeLength>
//	     L n E    -> ok clist <same> <efix> <esize> <emin> <emax> <Limit>
//	     V n E    -> ok cvec  <same> <efix> <esize> <emin> <emax> <Length>
//	     BL n     -> ok bitlist <Limit> <BottomNodeLimit>
//	     BV n     -> ok bitvec <Length> <BottomNodeLength>
//	     C …      -> ok container x<hex of TypeRepr()>           (panic: the observation "panic")
//	     U …      -> ok union x<hex of TypeRepr()> <String()==TypeRepr()>
//	     <same> = 1 iff ElementType() is the TypeDef the type was built from; e… = its four size facts
//	api.tr T i               TranslateIndex(i) of a basic list / basic vector type -> ok <nodeIndex> <intraNodeIndex>
//	api.bbi b                view.ByteBitIndex(byte(b)) -> ok <n>
//	api.chk <route> T V <ov|-> i
//	     CheckIndex(i) of the list view (basic list / bitlist / complex list) of value V; `ov` given:
//	     the backing's length node is first replaced by the number ov (ViewFromBacking of the
//	     tampered tree)                                                     -> ok | err
//	api.fv <route> T V       ContainerView.FieldValues(): -> ok <k> <value of field 0> … <eq>
//	     values read through the typed getters; eq = 1 iff every returned view has the same
//	     encoding and hash-tree-root as Get(i)                              | err
//	api.as <route> T V <sel> every As* cast applied to (x, err):
//	     sel = "-"  x = the view itself, err = nil
//	           g<i> (x, err) = Get(i) of a container / list / vector / bitfield view
//	           v    (x, err) = Value() of a union view
//	           e    (nil, a non-nil error)
//	     -> ok <in> <c1> … <c20>;  in = err | nil | ok (incoming error / nil view / a view);
//	     c = "-" (the cast returned an error) | x<hex of the result's encoding> | E (encoding failed)
//	     cast order: apiCasts below
//	api.b32 n<N>             Uint256View(N mod 2^256): -> ok <Bytes32()> <Serialize> <SetBytes32(Bytes32()) as decimal>
//	api.sb32 x<64 hex>       SetBytes32(data) on a non-zero view: -> ok <decimal String()> <Bytes32()>
//	api.must x<hex of text>  MustUint256(text) -> ok <decimal> | panic
//	api.read <xdata> <scope> <sched> <endmode> <k> <req>…
//	     io.read (ops_io.go) with two more request kinds:
//	       W      ReadUint32 called directly -> decimal
//	       k<n>   Skip(n) -> k<returned count>;  on error the line ends with err:<returned count>
//
// route: new (element constructors) | dec (decoded from the reference encoding).

import (
	"bufio"
	"bytes"
	"encoding/hex"
	"fmt"
	"math/big"
	"strings"

	"github.com/holiman/uint256"
	"github.com/protolambda/ztyp/codec"
	"github.com/protolambda/ztyp/tree"
	"github.com/protolambda/ztyp/view"
)

func init() {
	registerExec("api.td", execApiTd)
	registerExec("api.tr", execApiTr)
	registerExec("api.bbi", execApiBbi)
	registerExec("api.chk", execApiChk)
	registerExec("api.fv", execApiFv)
	registerExec("api.as", execApiAs)
	registerExec("api.b32", execApiB32)
	registerExec("api.sb32", execApiSb32)
	registerExec("api.must", execApiMust)
	registerExec("api.read", execApiRead)
	registerExec("api.new", execApiNew)
	registerExec("api.bv", execApiBv)
	registerExec("api.setbk", execApiSetbk)
	registerExec("api.root", execApiRoot)
	registerGen("C02c", genC02c)
	registerGen("C02cx", genC02cx)
}

func apiBit(b bool) int {
	if b {
		return 1
	}
	return 0
}

func apiElemFacts(got view.TypeDef, want view.TypeDef) string {
	return fmt.Sprintf("%d %d %d %d %d", apiBit(got == want), apiBit(got.IsFixedByteLength()), got.TypeByteLength(), got.MinByteLength(), got.MaxByteLength())
}

// api.td T
func execApiTd(st *State, args []string) string {
	p := &parser{toks: args}
	t := p.ty()
	td := typeDef(t)
	switch x := td.(type) {
	case *view.BasicListTypeDef:
		return fmt.Sprintf("ok blist %s %d %d %d", apiElemFacts(x.ElementType(), typeDef(t.Elem)), x.Limit(), x.ElementsPerBottomNode(), x.BottomNodeLimit())
	case *view.BasicVectorTypeDef:
		return fmt.Sprintf("ok bvec %s %d %d %d", apiElemFacts(x.ElementType(), typeDef(t.Elem)), x.Length(), x.ElementsPerBottomNode(), x.BottomNodeLength())
	case *view.ComplexListTypeDef:
		return fmt.Sprintf("ok clist %s %d", apiElemFacts(x.ElementType(), typeDef(t.Elem)), x.Limit())
	case *view.ComplexVectorTypeDef:
		return fmt.Sprintf("ok cvec %s %d", apiElemFacts(x.ElementType(), typeDef(t.Elem)), x.Length())
	case *view.BitListTypeDef:
		return fmt.Sprintf("ok bitlist %d %d", x.Limit(), x.BottomNodeLimit())
	case *view.BitVectorTypeDef:
		return fmt.Sprintf("ok bitvec %d %d", x.Length(), x.BottomNodeLength())
	case *view.ContainerTypeDef:
		return "ok container x" + hex.EncodeToString([]byte(x.TypeRepr()))
	case *view.UnionTypeDef:
		r := x.TypeRepr()
		return fmt.Sprintf("ok union x%s %d", hex.EncodeToString([]byte(r)), apiBit(x.String() == r))
	}
	panic("parse: api.td: type has no accessors")
}

// api.tr T i
func execApiTr(st *State, args []string) string {
	p := &parser{toks: args}
	t := p.ty()
	i := p.num()
	switch x := typeDef(t).(type) {
	case *view.BasicListTypeDef:
		a, b := x.TranslateIndex(i)
		return fmt.Sprintf("ok %d %d", a, b)
	case *view.BasicVectorTypeDef:
		a, b := x.TranslateIndex(i)
		return fmt.Sprintf("ok %d %d", a, b)
	}
	panic("parse: api.tr: not a basic series type")
}

// api.bbi b
func execApiBbi(st *State, args []string) string {
	p := &parser{toks: args}
	b := p.num()
	if b > 255 {
		panic("parse: api.bbi: not a byte")
	}
	return fmt.Sprintf("ok %d", view.ByteBitIndex(byte(b)))
}

func apiRoute(route string, t *Ty, v *Val) (view.View, error) {
	if route != "new" && route != "dec" {
		panic("parse: bad route " + route)
	}
	return viewByRoute(route, t, v)
}

// api.chk <route> T V <ov|-> i
func execApiChk(st *State, args []string) string {
	route := args[0]
	p := &parser{toks: args[1:]}
	t := p.ty()
	v := p.val()
	ov := p.next()
	i := p.num()
	vw, err := apiRoute(route, t, v)
	if err != nil {
		return "err"
	}
	if ov != "-" {
		n := ioU64(ov)
		left, err := vw.Backing().Left()
		if err != nil {
			return "err"
		}
		vw, err = typeDef(t).ViewFromBacking(tree.NewPairNode(left, view.Uint64View(n).Backing()), nil)
		if err != nil {
			return "err"
		}
	}
	switch x := vw.(type) {
	case *view.BasicListView:
		err = x.CheckIndex(i)
	case *view.BitListView:
		err = x.CheckIndex(i)
	case *view.ComplexListView:
		err = x.CheckIndex(i)
	default:
		panic("parse: api.chk: not a list view")
	}
	if err != nil {
		return "err"
	}
	return "ok"
}

// api.fv <route> T V
func execApiFv(st *State, args []string) string {
	route := args[0]
	p := &parser{toks: args[1:]}
	t := p.ty()
	v := p.val()
	if t.Kind != KContainer {
		panic("parse: api.fv: not a container")
	}
	vw, err := apiRoute(route, t, v)
	if err != nil {
		return "err"
	}
	c, err := view.AsContainer(vw, nil)
	if err != nil {
		return "err"
	}
	vals, err := c.FieldValues()
	if err != nil {
		return "err"
	}
	var sb strings.Builder
	fmt.Fprintf(&sb, "ok %d", len(vals))
	eq := len(vals) == len(t.Fields)
	for i, fv := range vals {
		if fv == nil || i >= len(t.Fields) {
			sb.WriteString(" nil")
			eq = false
			continue
		}
		ev, err := extract(t.Fields[i], fv)
		if err != nil {
			sb.WriteString(" extract-err")
		} else {
			sb.WriteString(" " + ev.String())
		}
		g, err := c.Get(uint64(i))
		if err != nil {
			eq = false
			continue
		}
		a, errA := serializeView(fv)
		b, errB := serializeView(g)
		if errA != nil || errB != nil || string(a) != string(b) || fv.HashTreeRoot(tree.Hash) != g.HashTreeRoot(tree.Hash) || fv.Type() != g.Type() {
			eq = false
		}
	}
	fmt.Fprintf(&sb, " %d", apiBit(eq))
	return sb.String()
}

var apiCasts = []string{"u8", "byte", "u16", "u32", "u64", "u256", "bool", "root", "small", "b4", "b8", "b16",
	"blist", "bvec", "clist", "cvec", "container", "union", "bitlist", "bitvec"}

func apiSer(v view.View) string {
	bs, err := serializeView(v)
	if err != nil {
		return "E"
	}
	return hexs(bs)
}

// apiCast applies cast number k to (x, err): "-" for an error result, else the encoding of the result.
func apiCast(k int, x view.View, err error) string {
	var r view.View
	var e error
	var raw []byte
	switch apiCasts[k] {
	case "u8":
		var y view.Uint8View
		y, e = view.AsUint8(x, err)
		r = y
	case "byte":
		var y view.ByteView
		y, e = view.AsByte(x, err)
		r = y
	case "u16":
		var y view.Uint16View
		y, e = view.AsUint16(x, err)
		r = y
	case "u32":
		var y view.Uint32View
		y, e = view.AsUint32(x, err)
		r = y
	case "u64":
		var y view.Uint64View
		y, e = view.AsUint64(x, err)
		r = y
	case "u256":
		var y view.Uint256View
		y, e = view.AsUint256(x, err)
		r = y
	case "bool":
		var y view.BoolView
		y, e = view.AsBool(x, err)
		r = y
	case "root":
		var y tree.Root
		y, e = view.AsRoot(x, err)
		raw = y[:]
	case "small":
		var y view.SmallByteVecView
		y, e = view.AsSmallByteVec(x, err)
		raw = y
		if raw == nil {
			raw = []byte{}
		}
	case "b4":
		var y [4]byte
		y, e = view.AsBytes4(x, err)
		raw = y[:]
	case "b8":
		var y [8]byte
		y, e = view.AsBytes8(x, err)
		raw = y[:]
	case "b16":
		var y [16]byte
		y, e = view.AsBytes16(x, err)
		raw = y[:]
	case "blist":
		var y *view.BasicListView
		y, e = view.AsBasicList(x, err)
		r = y
	case "bvec":
		var y *view.BasicVectorView
		y, e = view.AsBasicVector(x, err)
		r = y
	case "clist":
		var y *view.ComplexListView
		y, e = view.AsComplexList(x, err)
		r = y
	case "cvec":
		var y *view.ComplexVectorView
		y, e = view.AsComplexVector(x, err)
		r = y
	case "container":
		var y *view.ContainerView
		y, e = view.AsContainer(x, err)
		r = y
	case "union":
		var y *view.UnionView
		y, e = view.AsUnion(x, err)
		r = y
	case "bitlist":
		var y *view.BitListView
		y, e = view.AsBitList(x, err)
		r = y
	case "bitvec":
		var y *view.BitVectorView
		y, e = view.AsBitVector(x, err)
		r = y
	}
	if e != nil {
		return "-"
	}
	if raw != nil {
		return hexs(raw)
	}
	return apiSer(r)
}

// apiSelect evaluates the selector on the view.
func apiSelect(vw view.View, sel string) (view.View, error) {
	switch {
	case sel == "-":
		return vw, nil
	case sel == "e":
		return nil, fmt.Errorf("incoming error")
	case sel == "v":
		u, ok := vw.(*view.UnionView)
		if !ok {
			panic("parse: api.as: v on a non-union view")
		}
		return u.Value()
	case sel[0] == 'g':
		i := ioU64(sel[1:])
		switch x := vw.(type) {
		case *view.ContainerView:
			return x.Get(i)
		case *view.ComplexListView:
			return x.Get(i)
		case *view.ComplexVectorView:
			return x.Get(i)
		case *view.BasicListView:
			return x.Get(i)
		case *view.BasicVectorView:
			return x.Get(i)
		case *view.BitListView:
			return x.Get(i)
		case *view.BitVectorView:
			return x.Get(i)
		}
		panic("parse: api.as: g on a view without Get")
	}
	panic("parse: api.as: bad selector " + sel)
}

// api.as <route> T V <sel>
func execApiAs(st *State, args []string) string {
	route := args[0]
	p := &parser{toks: args[1:]}
	t := p.ty()
	v := p.val()
	sel := p.next()
	vw, err := apiRoute(route, t, v)
	if err != nil {
		return "err"
	}
	x, xerr := apiSelect(vw, sel)
	in := "ok"
	if xerr != nil {
		in = "err"
	} else if x == nil {
		in = "nil"
	}
	var sb strings.Builder
	sb.WriteString("ok " + in)
	for k := range apiCasts {
		sb.WriteString(" " + apiCast(k, x, xerr))
	}
	return sb.String()
}

func apiParseNum(tok string) *big.Int {
	if len(tok) < 2 || tok[0] != 'n' {
		panic("parse: expected n<decimal>")
	}
	n, ok := new(big.Int).SetString(tok[1:], 10)
	if !ok || n.Sign() < 0 {
		panic("parse: bad number " + tok)
	}
	return n
}

func apiU256Dec(v view.Uint256View) string {
	u := uint256.Int(v)
	return u.ToBig().String()
}

// api.b32 n<N>
func execApiB32(st *State, args []string) string {
	n := apiParseNum(args[0])
	v := u256View(n)
	b := v.Bytes32()
	ser, err := serializeView(v)
	if err != nil {
		return "err"
	}
	w := view.Uint256View{1, 2, 3, 4}
	w.SetBytes32(b)
	return fmt.Sprintf("ok %s %s %s", hexs(b[:]), hexs(ser), apiU256Dec(w))
}

// api.sb32 x<64 hex>
func execApiSb32(st *State, args []string) string {
	data := unhex(args[0])
	if len(data) != 32 {
		panic("parse: api.sb32 needs 32 bytes")
	}
	var arr [32]byte
	copy(arr[:], data)
	w := view.Uint256View{5, 6, 7, 8}
	w.SetBytes32(arr)
	b := w.Bytes32()
	return fmt.Sprintf("ok %s %s", w.String(), hexs(b[:]))
}

// api.must x<hex of text>
func execApiMust(st *State, args []string) string {
	text := unhex(args[0])
	v := view.MustUint256(string(text)) // a panic is the observation "panic"
	return "ok " + v.String()
}

// api.read <xdata> <scope> <sched> <endmode> <k> <req>…
func execApiRead(st *State, args []string) string {
	data := unhex(args[0])
	scope := ioU64(args[1])
	rd := newSchedReader(data, args[2], args[3], ioU64(args[4]))
	cur := codec.NewDecodingReader(rd, scope)
	var parents []*codec.DecodingReader
	var sb strings.Builder
	sb.WriteString("ok")
	for _, rq := range args[5:] {
		var err error
		errTok := " err"
		switch rq[0] {
		case 'r':
			n := ioU64(rq[1:])
			p := make([]byte, n)
			_, err = cur.Read(p)
			if err == nil {
				sb.WriteString(" " + hexs(p))
			}
		case 'b':
			var v byte
			v, err = cur.ReadByte()
			if err == nil {
				fmt.Fprintf(&sb, " %d", v)
			}
		case 'h':
			var v uint16
			v, err = cur.ReadUint16()
			if err == nil {
				fmt.Fprintf(&sb, " %d", v)
			}
		case 'w':
			var v uint32
			v, err = cur.ReadOffset()
			if err == nil {
				fmt.Fprintf(&sb, " %d", v)
			}
		case 'W':
			var v uint32
			v, err = cur.ReadUint32()
			if err == nil {
				fmt.Fprintf(&sb, " %d", v)
			}
		case 'q':
			var v uint64
			v, err = cur.ReadUint64()
			if err == nil {
				fmt.Fprintf(&sb, " %d", v)
			}
		case 'k':
			var n int
			n, err = cur.Skip(ioU64(rq[1:]))
			if err == nil {
				fmt.Fprintf(&sb, " k%d", n)
			} else {
				errTok = fmt.Sprintf(" err:%d", n)
			}
		case 's':
			var sub *codec.DecodingReader
			sub, err = cur.SubScope(ioU64(rq[1:]))
			if err == nil {
				parents = append(parents, cur)
				cur = sub
				sb.WriteString(" s")
			}
		case 'u', 'U':
			if len(parents) > 0 {
				p := parents[len(parents)-1]
				parents = parents[:len(parents)-1]
				if rq[0] == 'U' {
					p.UpdateIndexFromScoped(cur)
				}
				cur = p
			}
			sb.WriteString(" u")
		case 'i':
			fmt.Fprintf(&sb, " i%d/%d", cur.Index(), cur.Max())
		default:
			panic("parse: bad request " + rq)
		}
		if err != nil {
			sb.WriteString(errTok)
			break
		}
	}
	return sb.String()
}

// ---- generators ----

var apiUintSizes = []uint64{1, 2, 4, 8, 32}

// apiLimits: every small limit/length 0..40, the packing boundaries, huge limits that do not wrap
func apiLimits() []uint64 {
	var r []uint64
	for n := uint64(0); n <= 40; n++ {
		r = append(r, n)
	}
	r = append(r, 63, 64, 65, 127, 128, 129, 255, 256, 257, 511, 512, 513, 1023, 1024, 1025)
	for _, e := range []uint{20, 21, 32, 40} {
		r = append(r, 1<<e-1, 1<<e, 1<<e+1)
	}
	r = append(r, 1<<62, 1<<63-1, 1<<63, 1<<63+1)
	return r
}

func apiIndexProbes(g *Gen, n uint64) []uint64 {
	r := []uint64{0, 1, 2, 3, 4, 7, 8, 15, 16, 31, 32, 33, 63, 64, 255, 256, 257, n, n + 1, 1 << 32, 1<<63 + 5, ^uint64(0), ^uint64(0) - 31}
	if n > 0 {
		r = append(r, n-1)
	}
	for k := 0; k < 4; k++ {
		r = append(r, g.U64())
		r = append(r, g.U64()>>uint(g.Intn(64)))
	}
	return r
}

func apiEmitTd(w *bufio.Writer, t *Ty) { fmt.Fprintf(w, "api.td %s\n", t) }

// apiAccessorTypes: the accessor ops over one limit/length
func apiAccessors(g *Gen, w *bufio.Writer, n uint64, probes bool) {
	m := ^uint64(0)
	for _, sz := range apiUintSizes {
		per := 32 / sz
		e := c15U(sz)
		if n <= m-(per-1) { // limit + perNode - 1 does not wrap (the wrapping ones: family C02cx)
			lt := c15L(n, e)
			apiEmitTd(w, lt)
			if probes {
				for _, i := range apiIndexProbes(g, n) {
					fmt.Fprintf(w, "api.tr %s %d\n", lt, i)
				}
			}
			if n >= 1 {
				vt := c15V(n, e)
				apiEmitTd(w, vt)
				if probes {
					for _, i := range apiIndexProbes(g, n)[:8] {
						fmt.Fprintf(w, "api.tr %s %d\n", vt, i)
					}
				}
			}
		}
	}
	if n <= m-0xff {
		apiEmitTd(w, c15K(KBitlist, n))
		if n >= 1 {
			apiEmitTd(w, c15K(KBitvector, n))
		}
	}
	for _, e := range []*Ty{c15K(KBytesN, 32), c15K(KBytesN, 5), c15K(KBitlist, 9), c15C(c15U(8), c15K(KBitlist, 3)),
		c15L(4, c15U(2)), c15Un(false, c15U(1), c15K(KBitvector, 9))} {
		apiEmitTd(w, c15L(n, e))
		if n >= 1 {
			apiEmitTd(w, c15V(n, e))
		}
	}
}

func apiHasNone(t *Ty) bool {
	switch t.Kind {
	case KVector, KList:
		return apiHasNone(t.Elem)
	case KUnion:
		if t.HasNone {
			return true
		}
		for _, f := range t.Fields {
			if apiHasNone(f) {
				return true
			}
		}
	case KContainer:
		// String() of a container is its name: fields are not visited
	}
	return false
}

// apiReprPanics: TypeRepr() of t reaches String() of a nil option (known finding, family C02cx)
func apiReprPanics(t *Ty) bool {
	switch t.Kind {
	case KContainer:
		for _, f := range t.Fields {
			if apiHasNone(f) {
				return true
			}
		}
		return false
	case KUnion:
		return apiHasNone(t)
	}
	return false
}

// apiChildSels: selectors meaningful on a view of (t, v), with out-of-range indices
func apiChildSels(g *Gen, t *Ty, v *Val) []string {
	sels := []string{"-", "e"}
	idx := func(n int) {
		for _, i := range []int{0, 1, n / 2, n - 1} {
			if i >= 0 && i < n {
				sels = append(sels, fmt.Sprintf("g%d", i))
			}
		}
		sels = append(sels, fmt.Sprintf("g%d", n), fmt.Sprintf("g%d", n+1+g.Intn(300)))
		if g.Chance(30) {
			sels = append(sels, fmt.Sprintf("g%d", g.U64()))
		}
	}
	switch t.Kind {
	case KContainer, KVector, KList:
		idx(len(v.Seq))
	case KBitvector, KBitlist:
		idx(len(v.Bits))
	case KUnion:
		sels = append(sels, "v")
	}
	return sels
}

// apiSubTerms: (type, value) pairs of t/v and all nested components, so that every view kind is
// reached as a top-level view too
func apiWalk(t *Ty, v *Val, f func(t *Ty, v *Val)) {
	f(t, v)
	switch t.Kind {
	case KVector, KList:
		for _, e := range v.Seq {
			apiWalk(t.Elem, e, f)
		}
	case KContainer:
		for i, e := range v.Seq {
			apiWalk(t.Fields[i], e, f)
		}
	case KUnion:
		if v.Inner.Kind != VNone {
			apiWalk(unionOpt(t, v.Sel), v.Inner, f)
		}
	}
}

func apiRouteTok(g *Gen) string {
	if g.Chance(35) {
		return "dec"
	}
	return "new"
}

func apiEmitChk(g *Gen, w *bufio.Writer, t *Ty, v *Val) {
	var n uint64
	if t.Kind == KBitlist {
		n = uint64(len(v.Bits))
	} else {
		n = uint64(len(v.Seq))
	}
	lim := t.N
	probes := []uint64{0, n, lim, g.Pick([]uint64{1, n + 1, lim + 1, 1 << 40, ^uint64(0), g.U64()})}
	if n > 0 {
		probes = append(probes, n-1)
	}
	if lim > 0 && lim-1 != n {
		probes = append(probes, lim-1)
	}
	rt := apiRouteTok(g)
	for _, i := range probes {
		fmt.Fprintf(w, "api.chk %s %s %s - %d\n", rt, t, v, i)
	}
	// tampered length nodes: below / at / above the limit
	for _, ov := range []uint64{0, n + 1, lim, lim + 1, g.Pick([]uint64{lim + 2, 1 << 63, ^uint64(0), g.U64()})} {
		for _, i := range []uint64{g.Pick([]uint64{0, n, lim - 1}), ov - 1, ov} {
			fmt.Fprintf(w, "api.chk new %s %s %d %d\n", t, v, ov, i)
		}
	}
}

func apiIsListKind(t *Ty) bool { return t.Kind == KList || t.Kind == KBitlist }

func apiText(w *bufio.Writer, s string) {
	fmt.Fprintf(w, "api.must x%s\n", hex.EncodeToString([]byte(s)))
}

func apiReqs(g *Gen, scope, stream int) []string {
	rs := g.ioReqs(scope, stream)
	for i, r := range rs {
		switch {
		case r == "w" && g.Chance(60):
			rs[i] = "W"
		case r[0] == 'r' && g.Chance(50):
			rs[i] = "k" + r[1:]
		}
	}
	if g.Chance(20) {
		rs = append(rs, "i")
	}
	return rs
}

func genC02c(g *Gen, tier string, w *bufio.Writer) {
	o := TyOpts{NoBoolSeries: true}
	// (1) accessors: every small limit/length, packing boundaries, huge limits
	for _, n := range apiLimits() {
		apiAccessors(g, w, n, true)
	}
	// the largest limits whose rounding addition does not wrap
	m := ^uint64(0)
	for _, sz := range apiUintSizes {
		per := 32 / sz
		for d := uint64(0); d < 3; d++ {
			n := m - (per - 1) - d
			lt := c15L(n, c15U(sz))
			apiEmitTd(w, lt)
			apiEmitTd(w, c15V(n, c15U(sz)))
			fmt.Fprintf(w, "api.tr %s %d\n", lt, n-1)
			fmt.Fprintf(w, "api.tr %s %d\n", lt, m)
		}
	}
	for d := uint64(0); d < 3; d++ {
		apiEmitTd(w, c15K(KBitlist, m-0xff-d))
		apiEmitTd(w, c15K(KBitvector, m-0xff-d))
	}
	nr := tierN(tier, 300, 20000)
	for i := 0; i < nr; i++ {
		n := g.U64() >> uint(g.Intn(64))
		sz := g.Pick(apiUintSizes)
		if n > m-31 {
			n = m - 31
		}
		lt := c15L(n, c15U(sz))
		apiEmitTd(w, lt)
		fmt.Fprintf(w, "api.tr %s %d\n", lt, g.U64()>>uint(g.Intn(64)))
		if n >= 1 {
			vt := c15V(n, c15U(sz))
			apiEmitTd(w, vt)
			fmt.Fprintf(w, "api.tr %s %d\n", vt, g.U64()>>uint(g.Intn(64)))
		}
		if n <= m-0xff {
			apiEmitTd(w, c15K(KBitlist, n))
			if n >= 1 {
				apiEmitTd(w, c15K(KBitvector, n))
			}
		}
	}
	for b := 0; b < 256; b++ {
		fmt.Fprintf(w, "api.bbi %d\n", b)
	}
	// (2) random types: TypeRepr of containers / unions, accessors of every nested series type
	nt := tierN(tier, 400, 20000)
	for i := 0; i < nt; i++ {
		t := g.RandTy(1+g.Intn(3), o)
		var visit func(t *Ty)
		visit = func(t *Ty) {
			switch t.Kind {
			case KVector, KList:
				apiEmitTd(w, t)
				visit(t.Elem)
			case KBitlist, KBitvector:
				apiEmitTd(w, t)
			case KContainer, KUnion:
				if !apiReprPanics(t) {
					apiEmitTd(w, t)
				}
				for _, f := range t.Fields {
					visit(f)
				}
			}
		}
		visit(t)
	}
	// (3) views: CheckIndex, FieldValues, the As* casts on random types / values
	nv := tierN(tier, 260, 12000)
	for i := 0; i < nv; i++ {
		t := g.RandTy(1+g.Intn(3), o)
		v := g.RandVal(t, 120)
		seen := 0
		apiWalk(t, v, func(t *Ty, v *Val) {
			seen++
			if seen > 12 {
				return
			}
			if apiIsListKind(t) && g.Chance(60) {
				apiEmitChk(g, w, t, v)
			}
			if t.Kind == KContainer {
				fmt.Fprintf(w, "api.fv %s %s %s\n", apiRouteTok(g), t, v)
			}
			switch t.Kind {
			case KUint, KBool:
				if g.Chance(50) {
					fmt.Fprintf(w, "api.setbk %s %s\n", t, v)
				}
			case KBytesN:
			default:
				if g.Chance(50) {
					fmt.Fprintf(w, "api.new %s\n", t)
				}
				if g.Chance(50) {
					fmt.Fprintf(w, "api.bv %s %s %s\n", apiRouteTok(g), t, v)
				}
			}
			for _, sel := range apiChildSels(g, t, v) {
				if sel == "-" || sel == "e" || g.Chance(70) {
					fmt.Fprintf(w, "api.as %s %s %s %s\n", apiRouteTok(g), t, v, sel)
				}
			}
		})
	}
	// every list kind at every small limit with lengths 0, 1, half, full: CheckIndex; byte vectors
	// of every length: the AsBytesN casts
	for _, e := range []*Ty{c15U(1), c15U(2), c15U(8), c15U(32), c15K(KBytesN, 32), c15K(KBytesN, 4), c15K(KBitlist, 9), c15C(c15U(8), c15K(KBitlist, 3))} {
		for _, lim := range []uint64{0, 1, 2, 3, 4, 5, 7, 8, 9, 15, 16, 17, 31, 32, 33, 40, 1 << 20, 1 << 40} {
			lt := c15L(lim, e)
			for _, ln := range []uint64{0, 1, lim / 2, lim} {
				if ln > lim || ln > 40 {
					continue
				}
				v := &Val{Kind: VSeq, Seq: []*Val{}}
				for k := uint64(0); k < ln; k++ {
					v.Seq = append(v.Seq, g.RandVal(e, 8))
				}
				apiEmitChk(g, w, lt, v)
			}
		}
	}
	for _, lim := range append(append(append([]uint64{}, smallNums...), packNums...), 255, 256, 257, 512, 513, 1<<20, 1<<40) {
		bl := c15K(KBitlist, lim)
		for _, ln := range []uint64{0, 1, lim / 2, lim} {
			if ln > lim || ln > 600 {
				continue
			}
			apiEmitChk(g, w, bl, &Val{Kind: VBits, Bits: g.randBits(int(ln))})
		}
	}
	for n := uint64(1); n <= 32; n++ {
		bt := c15K(KBytesN, n)
		v := g.RandVal(bt, 1)
		fmt.Fprintf(w, "api.as new %s %s -\n", bt, v)
		fmt.Fprintf(w, "api.as dec %s %s -\n", bt, v)
		ct := c15C(c15U(1), bt)
		cv := &Val{Kind: VSeq, Seq: []*Val{g.RandVal(c15U(1), 1), v}}
		fmt.Fprintf(w, "api.as new %s %s g1\n", ct, cv)
		fmt.Fprintf(w, "api.fv new %s %s\n", ct, cv)
	}
	// typed New() / BackedView methods / SetBacking of basic views on every small shape
	for _, e := range []*Ty{c15U(1), c15U(2), c15U(4), c15U(8), c15U(32), c15K(KBytesN, 32), c15K(KBytesN, 4), c15K(KBitlist, 9), c15K(KBitvector, 9), c15C(c15U(8), c15K(KBitlist, 3)), c15Un(true, c15U(2)), c15Un(false, c15U(4), c15K(KBitlist, 3))} {
		if e.Kind != KUint && e.Kind != KBytesN {
			fmt.Fprintf(w, "api.new %s\n", e)
			fmt.Fprintf(w, "api.bv %s %s %s\n", apiRouteTok(g), e, g.RandVal(e, 8))
		}
		if e.Kind == KUint {
			fmt.Fprintf(w, "api.setbk %s %s\n", e, g.RandVal(e, 8))
		}
		for _, n := range []uint64{1, 2, 3, 4, 5, 8, 9, 31, 32, 33, 64, 65, 1 << 20, 1 << 40} {
			lt := c15L(n, e)
			fmt.Fprintf(w, "api.new %s\n", lt)
			fmt.Fprintf(w, "api.bv %s %s %s\n", apiRouteTok(g), lt, g.RandVal(lt, 6))
			if n <= 65 {
				vt := c15V(n, e)
				fmt.Fprintf(w, "api.new %s\n", vt)
				fmt.Fprintf(w, "api.bv %s %s %s\n", apiRouteTok(g), vt, g.RandVal(vt, 80))
			}
		}
	}
	fmt.Fprintf(w, "api.setbk %s %s\n", &Ty{Kind: KBool}, g.RandVal(&Ty{Kind: KBool}, 1))
	for i := 0; i < 40; i++ {
		b := g.Bytes(32)
		if i%4 == 0 {
			b = make([]byte, 32)
			b[g.Intn(32)] = byte(g.Intn(3))
		}
		fmt.Fprintf(w, "api.root %s\n", hexs(b))
	}
	// (4) Uint256View.Bytes32 / SetBytes32 / MustUint256
	two256 := new(big.Int).Lsh(big.NewInt(1), 256)
	nb := tierN(tier, 300, 20000)
	for i := 0; i < nb; i++ {
		n := g.randUint(32)
		if g.Chance(30) {
			n = new(big.Int).Rsh(n, uint(g.Intn(256)))
		}
		fmt.Fprintf(w, "api.b32 n%s\n", n)
		fmt.Fprintf(w, "api.sb32 %s\n", hexs(g.Bytes(32)))
		apiText(w, n.String())
	}
	for k := uint(0); k <= 256; k += 8 {
		p := new(big.Int).Lsh(big.NewInt(1), k)
		for _, d := range []int64{-1, 0, 1} {
			n := new(big.Int).Add(p, big.NewInt(d))
			if n.Sign() >= 0 && n.Cmp(two256) < 0 {
				fmt.Fprintf(w, "api.b32 n%s\n", n)
			}
			apiText(w, n.String())
		}
	}
	for k := 0; k < 32; k++ {
		b := make([]byte, 32)
		b[k] = byte(1 + g.Intn(255))
		fmt.Fprintf(w, "api.sb32 %s\n", hexs(b))
		b[31-k] = 0xff
		fmt.Fprintf(w, "api.sb32 %s\n", hexs(b))
	}
	// MustUint256: the range boundary, leading zeros, signs, other bases, malformed text
	max := new(big.Int).Sub(two256, big.NewInt(1))
	for _, s := range []string{max.String(), two256.String(), new(big.Int).Add(two256, big.NewInt(1)).String(),
		"0" + max.String(), "000" + two256.String(), "-1", "-0", "+5", "+" + max.String(), "-" + max.String(),
		new(big.Int).Lsh(big.NewInt(1), 300).String(), "0", "00", "", " ", "1 ", " 1", "1_000", "_1", "1_", "1__0", "0x10", "0X_1f",
		"0x" + strings.Repeat("f", 64), "0x1" + strings.Repeat("0", 64), "0b101", "0o17", "017", "08", "0x", "abc", "12a", "1e3", "1.5",
		"١٢", "0_7", "0b2", "-0x1", "+0x10", "0x-1", "\x00", "1\n"} {
		apiText(w, s)
	}
	nm := tierN(tier, 200, 10000)
	for i := 0; i < nm; i++ {
		// digit strings of random length around the 78-digit boundary, occasionally perturbed
		ln := 1 + g.Intn(84)
		bs := make([]byte, ln)
		for k := range bs {
			bs[k] = byte('0' + g.Intn(10))
		}
		if g.Chance(15) {
			bs[g.Intn(ln)] = []byte("_+-xXbBoO aAfF.")[g.Intn(15)]
		}
		if g.Chance(10) {
			bs = append([]byte("0x"), bs...)
		}
		apiText(w, string(bs))
	}
	// (5) codec: ReadUint32 directly and Skip
	nq := tierN(tier, 2500, 60000)
	for i := 0; i < nq; i++ {
		n := g.Intn(41)
		data := g.Bytes(n)
		scope := uint64(n)
		switch r := g.Intn(100); {
		case r < 12 && n > 0:
			scope = uint64(g.Intn(n))
		case r < 22:
			scope = uint64(n + 1 + g.Intn(5))
		case r < 25:
			scope = g.Pick([]uint64{1 << 62, 1<<63 - 1, 1 << 63, 1<<63 + 5, 1<<64 - 1})
		}
		k := n
		mode := ioModes[g.Intn(3)]
		if g.Chance(35) {
			k = g.Intn(n + 1)
		}
		sc := int(scope)
		if scope > 64 {
			sc = 64
		}
		fmt.Fprintf(w, "api.read %s %d %s %s %d %s\n", hexs(data), scope, g.ioSched(), mode, k, strings.Join(apiReqs(g, sc, k), " "))
	}
	shapes := []string{"k6", "k3 r3", "k0 r6 k0", "b k2 r3", "s4 k2 h u h", "s4 k4 U h i", "k7", "k5 k2", "s2 k2 u k4 i", "W k2", "k2 W", "W W",
		"s4 W U k2 i", "k3 s3 k3 U i", "s7", "k1 s2 k1 U k1 s2 k2 U i", "k6 k0 i", "k6 k1", "s3 k4", "s6 s3 k2 U k3 U i"}
	d6 := []byte{1, 2, 3, 4, 5, 6}
	for _, sh := range shapes {
		for k := 0; k <= 6; k++ {
			for _, s := range append(append([]string{}, ioScheds...), "c:2,1", "c:1,4") {
				for _, md := range ioModes {
					fmt.Fprintf(w, "api.read %s 6 %s %s %d %s\n", hexs(d6), s, md, k, sh)
				}
			}
		}
	}
	// stream longer than the scope; huge scopes and counts (int64 conversion of the count)
	d8 := []byte{1, 2, 3, 4, 5, 6, 7, 8}
	for _, sh := range []string{"k6 r1", "k7", "s4 k4 u s2 k2 u b", "k3 s3 k3 U r1 i", "k5 s2 b U k1 i"} {
		for k := 0; k <= 8; k++ {
			for _, s := range []string{"1", "3", "all", "c:5,1"} {
				for _, md := range ioModes {
					fmt.Fprintf(w, "api.read %s 6 %s %s %d %s\n", hexs(d8), s, md, k, sh)
				}
			}
		}
	}
	for _, scope := range []uint64{1 << 62, 1<<63 - 1, 1 << 63, 1<<63 + 5, m - 1, m} {
		for _, c := range []uint64{0, 1, 8, 9, 1 << 62, 1<<63 - 1, 1 << 63, 1<<63 + 1, m - 8, m - 1, m} {
			if c >= 1<<63 && c <= scope {
				continue // Skip(count >= 2^63) inside the scope: recorded finding, family C02cx
			}
			for _, md := range ioModes {
				fmt.Fprintf(w, "api.read %s %d %s %s 8 k%d i r1\n", hexs(d8), scope, g.ioSched(), md, c)
				fmt.Fprintf(w, "api.read %s %d all %s 8 r2 k%d i k%d i\n", hexs(d8), scope, md, c, c)
			}
		}
	}
	// the 8192-byte buffer of the discarding copy
	bigN := []int{8191, 8192, 8193, 16385}
	bigS := []string{"all", "c:8192,1", "c:5000,4000"}
	if tier == "thorough" {
		bigN = append(bigN, 16384, 20000, 8192*3)
		bigS = append(bigS, "half", "7", "1")
	}
	rot := 0
	for _, n := range bigN {
		data := g.Bytes(n + 3)
		x := hexs(data)
		for _, s := range bigS {
			for _, md := range ioModes {
				if tier == "thorough" || rot%3 == 0 {
					fmt.Fprintf(w, "api.read %s %d %s %s %d k%d r3 i\n", x, n+3, s, md, n+3, n)
				}
				if tier == "thorough" || rot%3 == 1 {
					fmt.Fprintf(w, "api.read %s %d %s %s %d k%d r3 i\n", x, n+3, s, md, n-1, n)
				}
				if tier == "thorough" || rot%3 == 2 {
					fmt.Fprintf(w, "api.read %s %d %s %s %d s%d k%d U r1\n", x, n+3, s, md, n+2, n+1, n)
				}
				rot++
			}
		}
	}
	// malformed stream: ops the harness itself rejects are not generated; wrong-kind selectors are
	// covered by "e" and out-of-range indices above
}

// genC02cx: the recorded findings of this family (PROP verdicts FAIL, CORR must still agree):
//   - BottomNodeLimit / BottomNodeLength round with a wrapping addition for limits within
//     ElementsPerBottomNode-1 (bitfields: 255) of 2^64
//   - TypeRepr()/String() of a union type with a None option dereferences the nil option
//   - List/Vector of boolean is a *complex* series (known finding D3): AsBasicList/AsBasicVector fail
func genC02cx(g *Gen, tier string, w *bufio.Writer) {
	m := ^uint64(0)
	for _, sz := range apiUintSizes {
		per := 32 / sz
		for d := uint64(0); d+1 < per && d < 4; d++ {
			apiEmitTd(w, c15L(m-d, c15U(sz)))
			apiEmitTd(w, c15V(m-d, c15U(sz)))
		}
		if per > 1 {
			apiEmitTd(w, c15L(m-(per-2), c15U(sz)))
		}
	}
	for _, d := range []uint64{0, 1, 7, 8, 0xfe} {
		apiEmitTd(w, c15K(KBitlist, m-d))
		apiEmitTd(w, c15K(KBitvector, m-d))
	}
	for _, t := range []*Ty{c15Un(true, c15U(1)), c15Un(true, c15U(8), c15K(KBitlist, 3)), c15Un(true),
		c15Un(false, c15U(1), c15Un(true, c15U(2))), c15C(c15U(1), c15Un(true, c15U(2))),
		c15C(c15L(3, c15Un(true, c15U(2)))), c15Un(false, c15V(2, c15Un(true, c15U(4))))} {
		apiEmitTd(w, t)
	}
	d8 := []byte{1, 2, 3, 4, 5, 6, 7, 8}
	for _, scope := range []uint64{1 << 63, 1<<63 + 5, m} {
		for _, c := range []uint64{1 << 63, 1<<63 + 1, m - 8} {
			if c <= scope {
				fmt.Fprintf(w, "api.read %s %d all sep 8 k%d i r1\n", hexs(d8), scope, c)
			}
		}
	}
	for _, n := range []uint64{1, 2, 32, 33} {
		for _, t := range []*Ty{c15L(n, &Ty{Kind: KBool}), c15V(n, &Ty{Kind: KBool})} {
			apiEmitTd(w, t)
			v := g.RandVal(t, 40)
			fmt.Fprintf(w, "api.as new %s %s -\n", t, v)
			ct := c15C(t)
			fmt.Fprintf(w, "api.as new %s %s g0\n", ct, &Val{Kind: VSeq, Seq: []*Val{v}})
		}
	}
}

// ---- api.new / api.bv / api.setbk / api.root: the remaining small public methods ----

// obsView: <root> <serialized bytes | ser-err>
func apiObsView(vw view.View) string {
	bs, err := serializeView(vw)
	if err != nil {
		return rootHex(vw.HashTreeRoot(tree.GetHashFn())) + " ser-err"
	}
	return rootHex(vw.HashTreeRoot(tree.GetHashFn())) + " " + hexs(bs)
}

func backedOf(vw view.View) *view.BackedView {
	switch x := vw.(type) {
	case *view.BasicVectorView:
		return &x.BackedView
	case *view.BasicListView:
		return &x.BackedView
	case *view.BitVectorView:
		return &x.BackedView
	case *view.BitListView:
		return &x.BackedView
	case *view.ComplexVectorView:
		return &x.BackedView
	case *view.ComplexListView:
		return &x.BackedView
	case *view.ContainerView:
		return &x.BackedView
	case *view.UnionView:
		return &x.BackedView
	}
	return nil
}

// api.new T : the typed New() of a composite type definition -> ok <root> <bytes> <1 iff its type is T's definition>
func execApiNew(st *State, args []string) string {
	p := &parser{toks: args}
	t := p.ty()
	td := typeDef(t)
	var vw view.View
	switch x := td.(type) {
	case *view.BasicVectorTypeDef:
		vw = x.New()
	case *view.BasicListTypeDef:
		vw = x.New()
	case *view.BitVectorTypeDef:
		vw = x.New()
	case *view.BitListTypeDef:
		vw = x.New()
	case *view.ComplexVectorTypeDef:
		vw = x.New()
	case *view.ComplexListTypeDef:
		vw = x.New()
	case *view.ContainerTypeDef:
		vw = x.New()
	case *view.UnionTypeDef:
		vw = x.New()
	default:
		panic("parse: api.new: no typed New() for this type")
	}
	same := "0"
	if vw.Type() == td {
		same = "1"
	}
	return "ok " + apiObsView(vw) + " " + same
}

// api.bv <route> T V : the embedded BackedView's own methods (every composite view overrides or
// inherits them): Copy(), Default(nil), HashTreeRoot, Backing; BasicListView.ViewRoot
//   -> ok <copy: root bytes> <default: root bytes> <root> <1 iff Backing() is the view's backing node> [<ViewRoot>]
func execApiBv(st *State, args []string) string {
	route := args[0]
	p := &parser{toks: args[1:]}
	t := p.ty()
	v := p.val()
	vw, err := apiRoute(route, t, v)
	if err != nil {
		return "err"
	}
	bv := backedOf(vw)
	if bv == nil {
		panic("parse: api.bv: not a backed view")
	}
	c, err := bv.Copy()
	if err != nil {
		return "err"
	}
	d, err := bv.Default(nil)
	if err != nil {
		return "err"
	}
	same := "0"
	if bv.Backing() == vw.Backing() {
		same = "1"
	}
	out := "ok " + apiObsView(c) + " " + apiObsView(d) + " " + rootHex(bv.HashTreeRoot(tree.GetHashFn())) + " " + same
	if bl, ok := vw.(*view.BasicListView); ok {
		out += " " + rootHex(bl.ViewRoot(tree.GetHashFn()))
	}
	return out
}

// api.setbk T V : SetBacking on a basic value view (always refused) -> <err|ok> <value afterwards>
func execApiSetbk(st *State, args []string) string {
	p := &parser{toks: args}
	t := p.ty()
	v := p.val()
	vw, err := construct(t, v)
	if err != nil {
		return "err"
	}
	other := view.Uint64View(0x0102030405060708).Backing()
	res := errStr(vw.SetBacking(other))
	ev, err := extract(t, vw)
	if err != nil {
		return res + " extract-err"
	}
	return res + " " + ev.String()
}

// api.root x<32 bytes> : tree.Root as a value: ByteLength, ValueByteLength, HashTreeRoot, Serialize, RootMeta.Name
func execApiRoot(st *State, args []string) string {
	p := &parser{toks: args}
	b := unhex(p.next())
	if len(b) != 32 {
		panic("parse: api.root needs 32 bytes")
	}
	var r tree.Root
	copy(r[:], b)
	n, err := r.ValueByteLength()
	if err != nil {
		return "err"
	}
	var buf bytes.Buffer
	if err := r.Serialize(codec.NewEncodingWriter(&buf)); err != nil {
		return "err"
	}
	h := r.HashTreeRoot(tree.GetHashFn())
	return fmt.Sprintf("ok %d %d %s %s %s", r.ByteLength(), n, rootHex(h), hexs(buf.Bytes()), hexs([]byte(view.RootMeta(0).Name())))
}
