// Command hz is the implementation side of the correspondence check.
//
//	hz gen <family> <tier> <seed>   writes an ops file (one operation per line) to stdout
//	hz exec                         reads ops lines on stdin, runs each on the real ztyp
//	                                library, prints exactly one observation line per op
//
// Observation lines are canonical: "ok <payload…>" | "err" | "panic".  Error
// messages are never compared, only the class.
package main

import (
	"bufio"
	"fmt"
	"os"
	"strconv"
	"strings"
)

// State holds the objects a stateful history refers to by handle.
type State struct {
	objs map[string]interface{}
	// unhashed: the value inserted by the current set/app/chg is handed over without ever having
	// been hashed (ops setu/appu/chgu); per State, so that concurrent executors do not share it
	unhashed bool
}

type execFn func(st *State, args []string) string
type genFn func(g *Gen, tier string, out *bufio.Writer)

var execs = map[string]execFn{}
var gens = map[string]genFn{}

func registerExec(op string, f execFn) { execs[op] = f }
func registerGen(family string, f genFn) { gens[family] = f }

func runOp(st *State, line string) (res string) {
	defer func() {
		if r := recover(); r != nil {
			if _, ok := r.(noHandle); ok {
				res = "nohandle"
				return
			}
			res = "panic"
			if os.Getenv("HZ_DEBUG") != "" {
				fmt.Fprintf(os.Stderr, "panic in %q: %v\n", line, r)
			}
		}
	}()
	toks := strings.Fields(line)
	if len(toks) == 0 || strings.HasPrefix(toks[0], "#") {
		return "skip"
	}
	f, ok := execs[toks[0]]
	if !ok {
		return "unknown-op"
	}
	typeDefTrim()
	res = f(st, toks[1:])
	if len(retainPending) > 0 { // byte slices the library handed out during this op (retainNote)
		res += retainCheck(retainPending...)
		retainPending = nil
	}
	return res
}

func main() {
	if len(os.Args) < 2 {
		fmt.Fprintln(os.Stderr, "usage: hz gen <family> <tier> <seed> | hz exec")
		os.Exit(2)
	}
	switch os.Args[1] {
	case "gen":
		if len(os.Args) < 5 {
			fmt.Fprintln(os.Stderr, "usage: hz gen <family> <tier> <seed>")
			os.Exit(2)
		}
		f, ok := gens[os.Args[2]]
		if !ok {
			fmt.Fprintf(os.Stderr, "unknown family %s\n", os.Args[2])
			os.Exit(2)
		}
		seed, _ := strconv.ParseUint(os.Args[4], 10, 64)
		w := bufio.NewWriterSize(os.Stdout, 1<<20)
		f(NewGen(seed), os.Args[3], w)
		w.Flush()
	case "exec":
		st := &State{objs: map[string]interface{}{}}
		sc := bufio.NewScanner(os.Stdin)
		sc.Buffer(make([]byte, 1<<20), 1<<28)
		w := bufio.NewWriterSize(os.Stdout, 1<<16)
		for sc.Scan() {
			line := sc.Text()
			if strings.TrimSpace(line) == "reset" {
				st = &State{objs: map[string]interface{}{}}
				fmt.Fprintln(w, "ok")
				w.Flush()
				continue
			}
			fmt.Fprintln(w, runOp(st, line))
			w.Flush()
		}
	default:
		fmt.Fprintln(os.Stderr, "unknown subcommand")
		os.Exit(2)
	}
}
