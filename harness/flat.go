package main

// A generic FLAT value: a Go struct tree mirroring Ty that implements codec.Serializable and
// codec.Deserializable by composing the library's codec helpers exactly the way downstream
// users (zrnt-style hand-written types) do.  Properties C09/C10; ops in ops_flat.go.
//
//   uintN / boolean           the library's Uint8View … Uint256View, BoolView (pointer for decoding)
//   bytes32                   tree.Root field,    (*Root).Deserialize / Root.Serialize
//   bytesN (N<32), Vector[uint8,N]  []byte field, dr.ByteVector / ew.Write
//   List[uint8,N]             []byte field,       dr.ByteList   / ew.Write
//   Bitvector[N]              []byte field,       dr.BitVector  / ew.BitVector
//   Bitlist[N]                []byte field,       dr.BitList    / ew.BitList
//   Vector[bytes32,N]         []tree.Root field,  tree.ReadRoots        / tree.WriteRoots
//   List[bytes32,N]           []tree.Root field,  tree.ReadRootsLimited / tree.WriteRoots
//   Vector[T,N]               N elements,         dr.Vector(item, fixedElemSize|0, N) / ew.Vector
//   List[T,N]                 slice of elements,  truncate to [:0], dr.List(add, fixedElemSize|0, N) / ew.List
//   Container (all fixed)     dr.FixedLenContainer / ew.FixedLenContainer, FixedLength = sum
//   Container (otherwise)     dr.Container / ew.Container, ByteLength = codec.ContainerLength
//   Union                     dr.Union(selectFn) / ew.Union(selector, value|nil)

import (
	"fmt"
	"math/big"

	"github.com/holiman/uint256"
	"github.com/protolambda/ztyp/codec"
	"github.com/protolambda/ztyp/tree"
	"github.com/protolambda/ztyp/view"
)

type flatVal struct {
	t     *Ty
	u8    view.Uint8View
	u16   view.Uint16View
	u32   view.Uint32View
	u64   view.Uint64View
	u256  view.Uint256View
	b     view.BoolView
	root  tree.Root   // bytes32
	bytes []byte      // bytesN, Vector/List[uint8], Bitvector, Bitlist
	roots []tree.Root // Vector/List[bytes32]
	elems []*flatVal  // other vectors and lists, container fields
	vals  []flatVal   // backing store of a decoded list's elements (see Deserialize)
	sel   uint8       // union selector
	inner *flatVal    // union value; nil = None
}

type flatRoute int

const (
	frBasic flatRoute = iota
	frByteVector
	frByteList
	frBitVector
	frBitList
	frRootsVector
	frRootsList
	frVector
	frList
	frFixedContainer
	frContainer
	frUnion
)

func isU8(t *Ty) bool     { return t.Kind == KUint && t.N == 1 }
func isRootTy(t *Ty) bool { return t.Kind == KBytesN && t.N == 32 }

func flatRouteOf(t *Ty) flatRoute {
	switch t.Kind {
	case KUint, KBool:
		return frBasic
	case KBytesN:
		if t.N == 32 {
			return frBasic
		}
		return frByteVector
	case KBitvector:
		return frBitVector
	case KBitlist:
		return frBitList
	case KVector:
		if isU8(t.Elem) {
			return frByteVector
		}
		if isRootTy(t.Elem) {
			return frRootsVector
		}
		return frVector
	case KList:
		if isU8(t.Elem) {
			return frByteList
		}
		if isRootTy(t.Elem) {
			return frRootsList
		}
		return frList
	case KContainer:
		if isFixed(t) {
			return frFixedContainer
		}
		return frContainer
	case KUnion:
		return frUnion
	}
	panic("bad type")
}

// newFlat is the zero value of the struct a downstream user would declare for t:
// vectors are arrays (all N elements present), containers have all their fields,
// slices are nil, a union holds selector 0 and no value.
func newFlat(t *Ty) *flatVal {
	f := &flatVal{t: t}
	switch flatRouteOf(t) {
	case frVector:
		f.elems = make([]*flatVal, t.N)
		for i := range f.elems {
			f.elems[i] = newFlat(t.Elem)
		}
	case frFixedContainer, frContainer:
		f.elems = make([]*flatVal, len(t.Fields))
		for i := range f.elems {
			f.elems[i] = newFlat(t.Fields[i])
		}
	}
	return f
}

// asDes / asSer hand out the library's own basic value for leaves (what a hand-written
// container passes as `&c.Slot`), the flat value itself otherwise.
func (f *flatVal) asDes() codec.Deserializable {
	switch f.t.Kind {
	case KUint:
		switch f.t.N {
		case 1:
			return &f.u8
		case 2:
			return &f.u16
		case 4:
			return &f.u32
		case 8:
			return &f.u64
		case 32:
			return &f.u256
		}
		panic("bad uint size")
	case KBool:
		return &f.b
	case KBytesN:
		if f.t.N == 32 {
			return &f.root
		}
	}
	return f
}

func (f *flatVal) asSer() codec.Serializable {
	switch f.t.Kind {
	case KUint:
		switch f.t.N {
		case 1:
			return f.u8
		case 2:
			return f.u16
		case 4:
			return f.u32
		case 8:
			return f.u64
		case 32:
			return f.u256
		}
		panic("bad uint size")
	case KBool:
		return f.b
	case KBytesN:
		if f.t.N == 32 {
			return f.root
		}
	}
	return f
}

// flatFixedLen is the type-level FixedLength(): 0 for variable-size types.
func flatFixedLen(t *Ty) uint64 {
	switch t.Kind {
	case KUint:
		return t.N
	case KBool:
		return 1
	case KBytesN:
		return t.N
	case KBitvector:
		return (t.N + 7) / 8
	case KBitlist, KList, KUnion:
		return 0
	case KVector:
		return t.N * flatFixedLen(t.Elem)
	case KContainer:
		sum := uint64(0)
		for _, f := range t.Fields {
			x := flatFixedLen(f)
			if x == 0 {
				return 0
			}
			sum += x
		}
		return sum
	}
	panic("bad type")
}

func (f *flatVal) FixedLength() uint64 {
	if flatRouteOf(f.t) == frBasic {
		return f.asSer().FixedLength()
	}
	// a container of fixed-size fields reports the sum of its fields' fixed lengths
	return flatFixedLen(f.t)
}

func (f *flatVal) desFields() []codec.Deserializable {
	out := make([]codec.Deserializable, len(f.elems))
	for i, e := range f.elems {
		out[i] = e.asDes()
	}
	return out
}

func (f *flatVal) serFields() []codec.Serializable {
	out := make([]codec.Serializable, len(f.elems))
	for i, e := range f.elems {
		out[i] = e.asSer()
	}
	return out
}

func (f *flatVal) Deserialize(dr *codec.DecodingReader) error {
	t := f.t
	switch flatRouteOf(t) {
	case frBasic:
		return f.asDes().Deserialize(dr)
	case frByteVector:
		return dr.ByteVector(&f.bytes, t.N)
	case frByteList:
		return dr.ByteList(&f.bytes, t.N)
	case frBitVector:
		return dr.BitVector(&f.bytes, t.N)
	case frBitList:
		return dr.BitList(&f.bytes, t.N)
	case frRootsVector:
		return tree.ReadRoots(dr, &f.roots, t.N)
	case frRootsList:
		return tree.ReadRootsLimited(dr, &f.roots, t.N)
	case frVector:
		return dr.Vector(func(i uint64) codec.Deserializable {
			return f.elems[i].asDes()
		}, flatFixedLen(t.Elem), t.N)
	case frList:
		// the usual downstream pattern: a slice of element VALUES grown by append, add() handing
		// out the address of the newest element (earlier addresses go stale when the slice grows)
		vals := f.vals[:0]
		err := dr.List(func() codec.Deserializable {
			vals = append(vals, *newFlat(t.Elem))
			return vals[len(vals)-1].asDes()
		}, flatFixedLen(t.Elem), t.N)
		f.vals = vals
		f.elems = f.elems[:0]
		for i := range vals {
			f.elems = append(f.elems, &vals[i])
		}
		return err
	case frFixedContainer:
		return dr.FixedLenContainer(f.desFields()...)
	case frContainer:
		return dr.Container(f.desFields()...)
	case frUnion:
		return dr.Union(func(selector uint8) (codec.Deserializable, error) {
			n := len(t.Fields)
			if t.HasNone {
				n++
			}
			if int(selector) >= n {
				return nil, fmt.Errorf("bad selector %d", selector)
			}
			f.sel = selector
			ot := unionOpt(t, uint64(selector))
			if ot == nil {
				f.inner = nil
				return nil, nil
			}
			f.inner = newFlat(ot)
			return f.inner.asDes(), nil
		})
	}
	panic("bad route")
}

func (f *flatVal) Serialize(w *codec.EncodingWriter) error {
	t := f.t
	switch flatRouteOf(t) {
	case frBasic:
		return f.asSer().Serialize(w)
	case frByteVector, frByteList:
		return w.Write(f.bytes)
	case frBitVector:
		return w.BitVector(f.bytes)
	case frBitList:
		return w.BitList(f.bytes)
	case frRootsVector, frRootsList:
		return tree.WriteRoots(w, f.roots)
	case frVector:
		return w.Vector(func(i uint64) codec.Serializable {
			return f.elems[i].asSer()
		}, flatFixedLen(t.Elem), t.N)
	case frList:
		return w.List(func(i uint64) codec.Serializable {
			return f.elems[i].asSer()
		}, flatFixedLen(t.Elem), uint64(len(f.elems)))
	case frFixedContainer:
		return w.FixedLenContainer(f.serFields()...)
	case frContainer:
		return w.Container(f.serFields()...)
	case frUnion:
		if f.inner == nil {
			return w.Union(f.sel, nil)
		}
		return w.Union(f.sel, f.inner.asSer())
	}
	panic("bad route")
}

func (f *flatVal) ByteLength() uint64 {
	t := f.t
	switch flatRouteOf(t) {
	case frBasic:
		return f.asSer().ByteLength()
	case frByteVector:
		return t.N
	case frByteList, frBitList:
		return uint64(len(f.bytes))
	case frBitVector:
		return (t.N + 7) / 8
	case frRootsVector, frRootsList:
		return uint64(len(f.roots)) * 32
	case frVector, frList:
		if fix := flatFixedLen(t.Elem); fix != 0 {
			return uint64(len(f.elems)) * fix
		}
		out := uint64(0)
		for _, e := range f.elems {
			out += e.asSer().ByteLength() + codec.OFFSET_SIZE
		}
		return out
	case frFixedContainer:
		bl := make([]codec.ByteLength, len(f.elems))
		for i, e := range f.elems {
			bl[i] = e.asSer()
		}
		return codec.Sum(bl...)
	case frContainer:
		return codec.ContainerLength(f.serFields()...)
	case frUnion:
		if f.inner == nil {
			return 1
		}
		return 1 + f.inner.asSer().ByteLength()
	}
	panic("bad route")
}

// flatFromVal fills a fresh struct with the value v (field assignment, no codec involved).
func flatFromVal(t *Ty, v *Val) *flatVal {
	f := &flatVal{t: t}
	switch flatRouteOf(t) {
	case frBasic:
		if t.Kind == KBool {
			f.b = view.BoolView(v.B)
			break
		}
		if t.Kind == KBytesN {
			copy(f.root[:], v.Bytes)
			break
		}
		switch t.N {
		case 1:
			f.u8 = view.Uint8View(v.Num.Uint64())
		case 2:
			f.u16 = view.Uint16View(v.Num.Uint64())
		case 4:
			f.u32 = view.Uint32View(v.Num.Uint64())
		case 8:
			f.u64 = view.Uint64View(v.Num.Uint64())
		case 32:
			f.u256 = u256View(v.Num)
		}
	case frByteVector, frByteList:
		if v.Kind == VBytes {
			f.bytes = append([]byte{}, v.Bytes...)
		} else {
			f.bytes = make([]byte, len(v.Seq))
			for i, e := range v.Seq {
				f.bytes[i] = byte(e.Num.Uint64())
			}
		}
	case frBitVector:
		f.bytes = packBits(v.Bits, false)
	case frBitList:
		f.bytes = packBits(v.Bits, true)
	case frRootsVector, frRootsList:
		f.roots = make([]tree.Root, len(v.Seq))
		for i, e := range v.Seq {
			copy(f.roots[i][:], e.Bytes)
		}
	case frVector, frList:
		f.elems = make([]*flatVal, len(v.Seq))
		for i, e := range v.Seq {
			f.elems[i] = flatFromVal(t.Elem, e)
		}
	case frFixedContainer, frContainer:
		f.elems = make([]*flatVal, len(v.Seq))
		for i, e := range v.Seq {
			f.elems[i] = flatFromVal(t.Fields[i], e)
		}
	case frUnion:
		f.sel = uint8(v.Sel)
		if v.Inner.Kind != VNone {
			f.inner = flatFromVal(unionOpt(t, v.Sel), v.Inner)
		}
	}
	return f
}

func numVal(x uint64) *Val { return &Val{Kind: VNum, Num: new(big.Int).SetUint64(x)} }

// toVal reads the value back from the struct fields.
func (f *flatVal) toVal() *Val {
	t := f.t
	switch flatRouteOf(t) {
	case frBasic:
		if t.Kind == KBool {
			return &Val{Kind: VBool, B: bool(f.b)}
		}
		if t.Kind == KBytesN {
			return &Val{Kind: VBytes, Bytes: append([]byte{}, f.root[:]...)}
		}
		switch t.N {
		case 1:
			return numVal(uint64(f.u8))
		case 2:
			return numVal(uint64(f.u16))
		case 4:
			return numVal(uint64(f.u32))
		case 8:
			return numVal(uint64(f.u64))
		case 32:
			u := uint256.Int(f.u256)
			return &Val{Kind: VNum, Num: u.ToBig()}
		}
	case frByteVector, frByteList:
		if t.Kind == KBytesN {
			return &Val{Kind: VBytes, Bytes: append([]byte{}, f.bytes...)}
		}
		r := &Val{Kind: VSeq, Seq: []*Val{}}
		for _, b := range f.bytes {
			r.Seq = append(r.Seq, numVal(uint64(b)))
		}
		return r
	case frBitVector:
		r := &Val{Kind: VBits, Bits: []bool{}}
		for i := uint64(0); i < t.N; i++ {
			r.Bits = append(r.Bits, int(i>>3) < len(f.bytes) && (f.bytes[i>>3]>>(i&7))&1 == 1)
		}
		return r
	case frBitList:
		r := &Val{Kind: VBits, Bits: []bool{}}
		if len(f.bytes) == 0 || f.bytes[len(f.bytes)-1] == 0 {
			// not a bitlist at all (never after a successful decode): shown as bytes
			return &Val{Kind: VBytes, Bytes: append([]byte{}, f.bytes...)}
		}
		last := f.bytes[len(f.bytes)-1]
		hi := 0
		for k := 0; k < 8; k++ {
			if (last>>uint(k))&1 == 1 {
				hi = k
			}
		}
		n := (len(f.bytes)-1)*8 + hi
		for i := 0; i < n; i++ {
			r.Bits = append(r.Bits, (f.bytes[i>>3]>>uint(i&7))&1 == 1)
		}
		return r
	case frRootsVector, frRootsList:
		r := &Val{Kind: VSeq, Seq: []*Val{}}
		for i := range f.roots {
			r.Seq = append(r.Seq, &Val{Kind: VBytes, Bytes: append([]byte{}, f.roots[i][:]...)})
		}
		return r
	case frVector, frList, frFixedContainer, frContainer:
		r := &Val{Kind: VSeq, Seq: []*Val{}}
		for _, e := range f.elems {
			r.Seq = append(r.Seq, e.toVal())
		}
		return r
	case frUnion:
		if f.inner == nil {
			return &Val{Kind: VUnion, Sel: uint64(f.sel), Inner: &Val{Kind: VNone}}
		}
		return &Val{Kind: VUnion, Sel: uint64(f.sel), Inner: f.inner.toVal()}
	}
	panic("bad route")
}
