package main

import (
	"bufio"
	"bytes"
	"fmt"
	"strings"
)

// Family C13s: the reader request sequences with Skip / ReadUint32 (ops `api.read` of
// ops_api.go, whose generator serves C02c) are also part of the C13 check: Skip over a
// truncated or failing stream must surface the fault under every delivery schedule.
func init() {
	registerGen("C13s", func(g *Gen, tier string, w *bufio.Writer) {
		var buf bytes.Buffer
		bw := bufio.NewWriter(&buf)
		genC02c(g, tier, bw)
		bw.Flush()
		for _, l := range strings.Split(buf.String(), "\n") {
			if strings.HasPrefix(l, "api.read ") {
				fmt.Fprintln(w, l)
			}
		}
	})
}
