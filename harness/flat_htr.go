package main

// mk.flat <hash> T V: hash-tree-root of a flat value computed the way downstream users do —
// every composite value's HashTreeRoot calls the typed helper of its kind, whose leaf callback
// calls the element's HashTreeRoot in turn (so Merkleize runs nested inside leaf callbacks).

import (
	"bufio"
	"fmt"

	"github.com/protolambda/ztyp/tree"
	"github.com/protolambda/ztyp/view"
)

type htrVal struct {
	t *Ty
	v *Val
}

func packedBytes(t *Ty, v *Val) []byte {
	var out []byte
	for _, e := range v.Seq {
		out = append(out, refSer(t.Elem, e)...)
	}
	return out
}

func chunkOfBytes(bs []byte, i uint64) (out tree.Root) {
	if i<<5 < uint64(len(bs)) {
		copy(out[:], bs[i<<5:])
	}
	return
}

func (x htrVal) HashTreeRoot(h tree.HashFn) tree.Root {
	t, v := x.t, x.v
	switch t.Kind {
	case KUint:
		return basicView(t, v).HashTreeRoot(h)
	case KBool:
		return view.BoolView(v.B).HashTreeRoot(h)
	case KBytesN:
		return h.ByteVectorHTR(v.Bytes)
	case KBitvector:
		return h.BitVectorHTR(packBits(v.Bits, false))
	case KBitlist:
		return h.BitListHTR(packBits(v.Bits, true), t.N)
	case KVector:
		switch {
		case t.Elem.Kind == KUint && t.Elem.N == 1:
			return h.Uint8VectorHTR(func(i uint64) uint8 { return uint8(v.Seq[i].Num.Uint64()) }, t.N)
		case t.Elem.Kind == KUint && t.Elem.N == 8:
			return h.Uint64VectorHTR(func(i uint64) uint64 { return v.Seq[i].Num.Uint64() }, t.N)
		case t.Elem.Kind == KUint || t.Elem.Kind == KBool:
			return h.ByteVectorHTR(packedBytes(t, v))
		}
		return h.ComplexVectorHTR(func(i uint64) tree.HTR { return htrVal{t.Elem, v.Seq[i]} }, t.N)
	case KList:
		n := uint64(len(v.Seq))
		switch {
		case t.Elem.Kind == KUint && t.Elem.N == 1:
			return h.Uint8ListHTR(func(i uint64) uint8 { return uint8(v.Seq[i].Num.Uint64()) }, n, t.N)
		case t.Elem.Kind == KUint && t.Elem.N == 8:
			return h.Uint64ListHTR(func(i uint64) uint64 { return v.Seq[i].Num.Uint64() }, n, t.N)
		case t.Elem.Kind == KUint || t.Elem.Kind == KBool:
			bs := packedBytes(t, v)
			size := uint64(1)
			if t.Elem.Kind == KUint {
				size = t.Elem.N
			}
			chunks := (uint64(len(bs)) + 31) / 32
			limitChunks := (t.N*size + 31) / 32
			return h.Mixin(h.ChunksHTR(func(i uint64) tree.Root { return chunkOfBytes(bs, i) }, chunks, limitChunks), n)
		}
		return h.ComplexListHTR(func(i uint64) tree.HTR { return htrVal{t.Elem, v.Seq[i]} }, n, t.N)
	case KContainer:
		fs := make([]tree.HTR, len(t.Fields))
		for i := range t.Fields {
			fs[i] = htrVal{t.Fields[i], v.Seq[i]}
		}
		return h.HashTreeRoot(fs...)
	case KUnion:
		if v.Inner.Kind == VNone {
			return h.Union(uint8(v.Sel), nil)
		}
		return h.Union(uint8(v.Sel), htrVal{unionOpt(t, v.Sel), v.Inner})
	}
	panic("bad type")
}

func init() {
	registerExec("mk.flat", func(st *State, a []string) string {
		h := useHash(a[0])
		defer useHash("sha")
		p := &parser{toks: a[1:]}
		t := p.ty()
		v := p.val()
		return "ok " + rootHex(htrVal{t, v}.HashTreeRoot(h))
	})
	registerGen("C08n", func(g *Gen, tier string, w *bufio.Writer) {
		n := tierN(tier, 1200, 30000)
		for i := 0; i < n; i++ {
			t := g.RandTy(1+g.Intn(3), TyOpts{})
			// flat helpers cover bitfield limits etc. only below 2^63; the quantifier's limits are fine
			v := g.RandVal(t, 120)
			hn := "sha"
			if g.Chance(35) {
				hn = "alt"
			}
			fmt.Fprintf(w, "mk.flat %s %s %s\n", hn, t, v)
		}
	})
}
