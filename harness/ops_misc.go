package main

// C12 generator (summarised backings), C20 allocation measurement, C14 concurrent forks.

import (
	"bufio"
	"bytes"
	"fmt"
	"runtime"
	"runtime/debug"
	"strconv"
	"strings"
	"sync"

	"github.com/protolambda/ztyp/tree"
	"github.com/protolambda/ztyp/view"
)

func init() {
	registerGen("C12", genC12)
	registerExec("mem", execMem)
	registerGen("C20", genC20)
	registerExec("conc", execConc)
	registerGen("C14", genC14)
}

// positions lists generalized indices of existing nodes of a backing tree (breadth first),
// up to a budget; the root itself is excluded.
func positions(n tree.Node, budget int) []uint64 {
	type item struct {
		n tree.Node
		g uint64
	}
	var out []uint64
	q := []item{{n, 1}}
	for len(q) > 0 && len(out) < budget {
		it := q[0]
		q = q[1:]
		if it.g != 1 {
			out = append(out, it.g)
		}
		if p, ok := it.n.(*tree.PairNode); ok && it.g < 1<<62 {
			q = append(q, item{p.LeftChild, it.g * 2}, item{p.RightChild, it.g*2 + 1})
		}
	}
	return out
}

func genC12(g *Gen, tier string, w *bufio.Writer) {
	g.zHist = true // every third history under the zero-prefixed pair hash (summary roots must use the caller's hash)
	defer func() { g.zHist = false }()
	emit := func(t *Ty, v *Val, gs []uint64) {
		fmt.Fprintln(w, g.beginLine())
		fmt.Fprintf(w, "mk r new %s %s\n", t, v)
		var sb strings.Builder
		for _, x := range gs {
			fmt.Fprintf(&sb, " %d", x)
		}
		fmt.Fprintf(w, "sum r %d%s\n", len(gs), sb.String())
		// every read
		fmt.Fprintln(w, "obs r")
		fmt.Fprintln(w, "len r")
		fmt.Fprintln(w, "blen r")
		fmt.Fprintln(w, "iter r ro")
		fmt.Fprintln(w, "iter r idx")
		sh := &shadow{name: "r", t: t, v: v}
		for k := 0; k < 3; k++ {
			if i, et := g.pickIndex(sh); et != nil {
				fmt.Fprintf(w, "rd r %d\n", i)
			}
		}
		// one single mutation, then observe again
		if g.mutate(w, sh) || true {
			fmt.Fprintln(w, "obs r")
		}
	}
	n := tierN(tier, 500, 8000)
	for i := 0; i < n; i++ {
		t := g.histType(1 + g.Intn(3))
		v := g.RandVal(t, 40)
		vw, err := construct(t, v)
		if err != nil {
			continue
		}
		ps := positions(vw.Backing(), 400)
		if len(ps) == 0 {
			continue
		}
		k := 1 + g.Intn(3)
		var gs []uint64
		for j := 0; j < k; j++ {
			gs = append(gs, ps[g.Intn(len(ps))])
		}
		emit(t, v, gs)
	}
	// exhaustive: every single position (and, thorough, every pair) of small values
	u8 := &Ty{Kind: KUint, N: 1}
	u64 := &Ty{Kind: KUint, N: 8}
	small := []*Ty{
		{Kind: KList, N: 4, Elem: u64}, {Kind: KList, N: 70, Elem: u8}, {Kind: KBitlist, N: 300},
		{Kind: KVector, N: 3, Elem: &Ty{Kind: KBytesN, N: 32}}, {Kind: KList, N: 4, Elem: &Ty{Kind: KBytesN, N: 32}},
		{Kind: KContainer, Fields: []*Ty{u64, {Kind: KList, N: 3, Elem: u8}, {Kind: KBitvector, N: 9}}},
		{Kind: KList, N: 3, Elem: &Ty{Kind: KList, N: 2, Elem: u64}},
		{Kind: KUnion, HasNone: true, Fields: []*Ty{{Kind: KList, N: 2, Elem: u64}}},
		{Kind: KList, N: 1 << 40, Elem: u64},
		// unions whose options are fixed-size composites (of at most / more than one chunk), bare and nested
		{Kind: KUnion, HasNone: true, Fields: []*Ty{{Kind: KContainer, Fields: []*Ty{{Kind: KUint, N: 2}, {Kind: KUint, N: 2}}}, u64}},
		{Kind: KUnion, Fields: []*Ty{{Kind: KVector, N: 8, Elem: u64}, {Kind: KBytesN, N: 32}}},
		{Kind: KContainer, Fields: []*Ty{u8, {Kind: KList, N: 4, Elem: &Ty{Kind: KUnion, HasNone: true, Fields: []*Ty{{Kind: KContainer, Fields: []*Ty{{Kind: KUint, N: 2}, {Kind: KUint, N: 2}}}, u64}}}}},
		{Kind: KContainer, Fields: []*Ty{{Kind: KUint, N: 2}, {Kind: KList, N: 4, Elem: &Ty{Kind: KContainer, Fields: []*Ty{{Kind: KUint, N: 2}, {Kind: KUint, N: 2}}}}}},
		{Kind: KVector, N: 3, Elem: &Ty{Kind: KVector, N: 5, Elem: u64}},
	}
	for _, t := range small {
		for rep := 0; rep < 3; rep++ {
			v := g.RandVal(t, 40)
			if rep == 2 {
				// all-zero contents: a summarised region then EQUALS a zero hash, so expansion through it is legitimate
				v = zeroedVal(t, g.RandVal(t, 40))
			}
			vw, err := construct(t, v)
			if err != nil {
				continue
			}
			ps := positions(vw.Backing(), 60)
			for _, a := range ps {
				emit(t, v, []uint64{a})
			}
			if tier == "thorough" {
				for i, a := range ps {
					for _, b := range ps[i+1:] {
						emit(t, v, []uint64{a, b})
					}
				}
			}
		}
	}
}

// mem T x<bytes>: bytes allocated by one decode call (second run, GC off): ok <alloc> <outcome>
// memHuge counts measured decode calls that allocated more than memHugeBytes.  On a tree whose
// decoders allocate by an offset or a limit every such call costs seconds; once memHugeMax of
// them have been recorded (each one a reported violation with its input) the remaining mem /
// fl.mem ops of the run are answered `ok 0 skipped`, so that a broken tree is reported in
// minutes rather than hours.  Never reached on a tree that satisfies the bound.
var memHuge int

const memHugeBytes = 32 << 20
const memHugeMax = 24

func memSkip() bool { return memHuge >= memHugeMax }

func memNote(n uint64) {
	if n > memHugeBytes {
		memHuge++
	}
}

func execMem(st *State, a []string) string {
	if memSkip() {
		return "ok 0 skipped"
	}
	p := &parser{toks: a}
	t := p.ty()
	bs := unhex(p.next())
	td := typeDef(t)
	run := func() (uint64, string) {
		var m0, m1 runtime.MemStats
		old := debug.SetGCPercent(-1)
		defer debug.SetGCPercent(old)
		runtime.ReadMemStats(&m0)
		outcome := "ok"
		func() {
			defer func() {
				if r := recover(); r != nil {
					outcome = "panic"
				}
			}()
			if _, err := decodeView(td, bs); err != nil {
				outcome = "err"
			}
		}()
		runtime.ReadMemStats(&m1)
		return m1.TotalAlloc - m0.TotalAlloc, outcome
	}
	if n0, oc0 := run(); n0 > memHugeBytes {
		memNote(n0) // no second (measured) run of a call that is already far beyond any bound
		return fmt.Sprintf("ok %d %s", n0, oc0)
	}
	n, oc := run()
	memNote(n)
	return fmt.Sprintf("ok %d %s", n, oc)
}

func genC20(g *Gen, tier string, w *bufio.Writer) {
	n := tierN(tier, 1500, 30000)
	o := TyOpts{NoBoolSeries: false}
	for i := 0; i < n; i++ {
		t := g.RandTy(1+g.Intn(3), o)
		if !isComposite(t) {
			continue
		}
		v := g.RandVal(t, 80)
		bs := refSer(t, v)
		fmt.Fprintf(w, "mem %s %s\n", t, hexs(bs))
		for k := 0; k < 3; k++ {
			fmt.Fprintf(w, "mem %s %s\n", t, hexs(g.corrupt(bs)))
		}
	}
	// extreme offset words in front of list / vector / container / union encodings with huge limits
	u8 := &Ty{Kind: KUint, N: 1}
	inner := &Ty{Kind: KList, N: 1 << 40, Elem: u8}
	types := []*Ty{
		{Kind: KList, N: 1 << 40, Elem: inner},
		{Kind: KList, N: 1 << 32, Elem: &Ty{Kind: KBitlist, N: 1 << 40}},
		{Kind: KContainer, Fields: []*Ty{inner, inner}},
		{Kind: KVector, N: 3, Elem: inner},
		{Kind: KUnion, HasNone: true, Fields: []*Ty{{Kind: KList, N: 1 << 40, Elem: inner}}},
		{Kind: KList, N: 1 << 40, Elem: &Ty{Kind: KContainer, Fields: []*Ty{u8, inner}}},
		{Kind: KList, N: 1 << 40, Elem: &Ty{Kind: KUint, N: 8}},
		{Kind: KBitlist, N: 1 << 40},
	}
	words := []uint32{0, 1, 4, 8, 12, 16, 0x100, 0x10000, 0x1000000, 0x3ffffffc, 0x40000000, 0x7ffffffc, 0x80000000, 0xfffffffc, 0xffffffff}
	for _, t := range types {
		for _, a := range words {
			for _, b := range words {
				bs := make([]byte, 12)
				bs[0], bs[1], bs[2], bs[3] = byte(a), byte(a>>8), byte(a>>16), byte(a>>24)
				bs[4], bs[5], bs[6], bs[7] = byte(b), byte(b>>8), byte(b>>16), byte(b>>24)
				fmt.Fprintf(w, "mem %s %s\n", t, hexs(bs))
				fmt.Fprintf(w, "mem %s %s\n", t, hexs(bs[:8]))
				fmt.Fprintf(w, "mem %s %s\n", t, hexs(append([]byte{1}, bs...)))
			}
			bs := []byte{byte(a), byte(a >> 8), byte(a >> 16), byte(a >> 24)}
			fmt.Fprintf(w, "mem %s %s\n", t, hexs(bs))
		}
	}
	emitWrapProbes(w, "mem")
	// many small elements in one large parent scope (per-element work must not grow with the parent)
	u8t := &Ty{Kind: KUint, N: 1}
	u64t := &Ty{Kind: KUint, N: 8}
	for _, el := range []*Ty{
		{Kind: KContainer, Fields: []*Ty{u64t, u64t}},
		{Kind: KList, N: 16, Elem: u8t},
		{Kind: KContainer, Fields: []*Ty{u8t, {Kind: KList, N: 4, Elem: u8t}}},
		{Kind: KBitlist, N: 40},
		{Kind: KUnion, Fields: []*Ty{u8t, u64t}},
	} {
		for _, n := range []int{64, 512, 1500} {
			lt := &Ty{Kind: KList, N: 1 << 20, Elem: el}
			v := &Val{Kind: VSeq, Seq: make([]*Val, n)}
			for i := range v.Seq {
				v.Seq[i] = g.RandVal(el, 6)
			}
			bs := refSer(lt, v)
			fmt.Fprintf(w, "mem %s %s\n", lt, hexs(bs))
			fmt.Fprintf(w, "mem %s %s\n", lt, hexs(bs[:len(bs)-1]))
			if n <= 512 {
				vt := &Ty{Kind: KVector, N: uint64(n), Elem: el}
				fmt.Fprintf(w, "mem %s %s\n", vt, hexs(refSer(vt, v)))
			}
		}
	}
}

// wrapProbeTypes: lists of variable-size elements whose element type has minimum encoded size m,
// for m with 4+m a power of two and otherwise (an offset-derived element count times m, or
// times 4+m, is where 32-bit products wrap), with huge limits.
func wrapProbeTypes() []*Ty {
	u8 := &Ty{Kind: KUint, N: 1}
	inner := &Ty{Kind: KList, N: 1 << 40, Elem: u8}
	var out []*Ty
	for _, fixed := range []uint64{0, 4, 12, 28, 60, 124, 252, 508, 1020, 1, 3, 7, 96} {
		el := &Ty{Kind: KContainer, Fields: []*Ty{inner}}
		if fixed > 0 {
			el = &Ty{Kind: KContainer, Fields: []*Ty{{Kind: KVector, N: fixed, Elem: u8}, inner}}
		}
		out = append(out, &Ty{Kind: KList, N: 1 << 40, Elem: el})
	}
	out = append(out,
		&Ty{Kind: KList, N: 1 << 40, Elem: &Ty{Kind: KUnion, Fields: []*Ty{u8}}},
		&Ty{Kind: KList, N: 1 << 40, Elem: &Ty{Kind: KBitlist, N: 1 << 40}},
		&Ty{Kind: KList, N: 1 << 40, Elem: &Ty{Kind: KList, N: 1 << 40, Elem: &Ty{Kind: KUint, N: 8}}},
	)
	return out
}

// wrapProbeWords: offset words around every power of two and a few odd multiples.
func wrapProbeWords() []uint32 {
	var out []uint32
	for k := uint(2); k < 32; k++ {
		p := uint32(1) << k
		out = append(out, p, p-4, p+4, p|p>>1, p-1)
	}
	return append(out, 0xfffffffc, 0xffffffff, 0xaaaaaaa8, 0x55555554, 0xcccccccc)
}

func emitWrapProbes(w *bufio.Writer, op string) {
	for _, t := range wrapProbeTypes() {
		for _, a := range wrapProbeWords() {
			for _, n := range []int{4, 8, 64} {
				bs := make([]byte, n)
				bs[0], bs[1], bs[2], bs[3] = byte(a), byte(a>>8), byte(a>>16), byte(a>>24)
				fmt.Fprintf(w, "%s %s %s\n", op, t, hexs(bs))
			}
		}
	}
}

// conc <n> <seed> <hashmode> T V: n goroutines each run an independent random history on their
// own Copy of a common, fully hashed ancestor; results are compared with a sequential replay.
// hashmode: pkg (tree.Hash) or own (tree.GetHashFn() per goroutine).
func execConc(st *State, a []string) string {
	n, _ := strconv.Atoi(a[0])
	seed, _ := strconv.ParseUint(a[1], 10, 64)
	mode := a[2]
	p := &parser{toks: a[3:]}
	t := p.ty()
	v := p.val()

	isDefault := v.String() == DefaultVal(t).String()
	build := func() *handle {
		var vw view.View
		var err error
		if isDefault {
			// the type's default: subtrees filled with one shared node (both children identical)
			vw = typeDef(t).Default(nil)
		} else {
			vw, err = construct(t, v)
		}
		if err != nil {
			panic(err)
		}
		vw.HashTreeRoot(tree.Hash) // the shared structure is hashed beforehand
		return &handle{t: t, vw: vw}
	}
	// per-goroutine op lists, generated up front from the seed
	scripts := make([][]string, n)
	appendOnly := strings.HasSuffix(mode, "+app")
	mode = strings.TrimSuffix(mode, "+app")
	for i := 0; i < n; i++ {
		var buf bytes.Buffer
		w := bufio.NewWriter(&buf)
		gi := NewGen(seed*1000 + uint64(i))
		if appendOnly && (t.Kind == KList || t.Kind == KBitlist) {
			// every fork appends across several power-of-two boundaries at the same time: zero
			// padding is expanded concurrently at depths nobody has expanded before
			et := elemTy(t, 0)
			for k := 0; k < 70; k++ {
				fmt.Fprintf(w, "app r %s\n", gi.RandVal(et, 3))
				if k%9 == 8 {
					fmt.Fprintln(w, "appd r")
				}
			}
			fmt.Fprintln(w, "obs r")
		} else {
			genHistoryFrom(gi, w, t, cloneVal(v), histOpts{steps: 12, copies: true, obsEvery: false})
		}
		w.Flush()
		scripts[i] = strings.Split(strings.TrimSpace(buf.String()), "\n")
	}
	runOne := func(anc *handle, i int) string {
		c, err := anc.vw.Copy()
		if err != nil {
			return "copy-err"
		}
		s := &State{objs: map[string]interface{}{"r": &handle{t: t, vw: c}}}
		var sb strings.Builder
		for _, line := range scripts[i] {
			if line == "" {
				continue
			}
			res := runOp(s, line)
			if strings.HasPrefix(line, "obs") {
				sb.WriteString(res)
				sb.WriteByte(';')
			}
		}
		hd := s.objs["r"].(*handle)
		var h tree.HashFn = tree.Hash
		if mode == "own" {
			h = tree.GetHashFn()
		}
		r := hd.vw.HashTreeRoot(h)
		// type defaults and shared zero nodes, and the package-level hash, used concurrently too
		d := typeDef(t).Default(nil).HashTreeRoot(h)
		z := tree.Hash(tree.ZeroHashes[3], tree.ZeroHashes[3])
		sb.WriteString(rootHex(r) + rootHex(d) + rootHex(z))
		return sb.String()
	}
	anc := build()
	par := make([]string, n)
	var wg sync.WaitGroup
	for i := 0; i < n; i++ {
		wg.Add(1)
		go func(i int) {
			defer wg.Done()
			defer func() {
				if r := recover(); r != nil {
					par[i] = fmt.Sprint("panic:", r)
				}
			}()
			par[i] = runOne(anc, i)
		}(i)
	}
	wg.Wait()
	// ancestor untouched?
	ancRoot := anc.vw.HashTreeRoot(tree.Hash)
	anc2 := build()
	if ancRoot != anc2.vw.HashTreeRoot(tree.Hash) {
		return "ok ancestor-changed"
	}
	for i := 0; i < n; i++ {
		if seq := runOne(anc2, i); seq != par[i] {
			return fmt.Sprintf("ok differ goroutine=%d", i)
		}
	}
	return "ok same"
}

func genC14(g *Gen, tier string, w *bufio.Writer) {
	// first: concurrent appends into collapsed zero padding (first expansion of each depth in
	// this process happens inside the goroutines)
	u64 := &Ty{Kind: KUint, N: 8}
	for _, lt := range []*Ty{
		{Kind: KList, N: 1 << 20, Elem: u64},
		{Kind: KList, N: 1 << 40, Elem: &Ty{Kind: KContainer, Fields: []*Ty{u64, u64}}},
		{Kind: KBitlist, N: 1 << 30},
		{Kind: KList, N: 1 << 32, Elem: &Ty{Kind: KBytesN, N: 32}},
	} {
		for _, mode := range []string{"pkg+app", "own+app"} {
			v := g.RandVal(lt, 3)
			fmt.Fprintf(w, "conc %d %d %s %s %s\n", 4+g.Intn(12), g.U64()%1000000, mode, lt, v)
		}
	}
	// moderate limits, short contents: the appended chunk lies in a collapsed zero subtree a few
	// levels below the setter's anchor, and all 16 forks expand the same shared region
	for _, c := range []struct {
		lim uint64
		n   int
	}{{1024, 40}, {1024, 5}, {4096, 10}, {1 << 16, 33}, {256, 9}} {
		lt := &Ty{Kind: KList, N: c.lim, Elem: u64}
		v := &Val{Kind: VSeq, Seq: []*Val{}}
		for i := 0; i < c.n; i++ {
			v.Seq = append(v.Seq, g.RandVal(u64, 1))
		}
		for _, mode := range []string{"pkg+app", "own+app"} {
			fmt.Fprintf(w, "conc 16 %d %s %s %s\n", g.U64()%1000000, mode, lt, v)
		}
	}
	// forks of a type DEFAULT: default-filled vectors share one node per level (a pair whose two
	// children are the same node), every fork hashes beside / through them
	b32 := &Ty{Kind: KBytesN, N: 32}
	for _, dt := range []*Ty{
		{Kind: KContainer, Fields: []*Ty{{Kind: KVector, N: 16, Elem: u64}, u64, {Kind: KVector, N: 8, Elem: b32}}},
		{Kind: KVector, N: 8, Elem: &Ty{Kind: KContainer, Fields: []*Ty{u64, {Kind: KVector, N: 16, Elem: u64}}}},
		{Kind: KContainer, Fields: []*Ty{{Kind: KBitvector, N: 2048}, {Kind: KVector, N: 64, Elem: &Ty{Kind: KUint, N: 2}}, {Kind: KList, N: 1 << 20, Elem: u64}}},
	} {
		for _, mode := range []string{"pkg", "own"} {
			fmt.Fprintf(w, "conc %d %d %s %s %s\n", 4+g.Intn(12), g.U64()%1000000, mode, dt, DefaultVal(dt))
		}
	}
	n := tierN(tier, 60, 1500)
	for i := 0; i < n; i++ {
		t := g.histType(1 + g.Intn(3))
		v := g.RandVal(t, 60)
		k := 2 + g.Intn(15)
		mode := []string{"pkg", "own"}[g.Intn(2)]
		fmt.Fprintf(w, "conc %d %d %s %s %s\n", k, g.U64()%1000000, mode, t, v)
	}
}

// zeroedVal keeps the shape (lengths, selectors) of v but zeroes every number, byte and bit
func zeroedVal(t *Ty, v *Val) *Val {
	switch t.Kind {
	case KUint:
		return DefaultVal(t)
	case KBool:
		return &Val{Kind: VBool}
	case KBytesN:
		return &Val{Kind: VBytes, Bytes: make([]byte, len(v.Bytes))}
	case KBitvector, KBitlist:
		return &Val{Kind: VBits, Bits: make([]bool, len(v.Bits))}
	case KVector, KList:
		r := &Val{Kind: VSeq, Seq: []*Val{}}
		for _, e := range v.Seq {
			r.Seq = append(r.Seq, zeroedVal(t.Elem, e))
		}
		return r
	case KContainer:
		r := &Val{Kind: VSeq, Seq: []*Val{}}
		for i, e := range v.Seq {
			r.Seq = append(r.Seq, zeroedVal(t.Fields[i], e))
		}
		return r
	case KUnion:
		if v.Inner.Kind == VNone {
			return v
		}
		return &Val{Kind: VUnion, Sel: v.Sel, Inner: zeroedVal(unionOpt(t, v.Sel), v.Inner)}
	}
	return v
}
