package main

// Family C13: codec I/O over fault-injecting readers and writers.
//
//	io.read <xdata> <scope> <sched> <endmode> <k> <req>…
//	io.write <failpos|-> <short> <wop>…
//	io.dec <sched> <endmode> <k> <T…> <xbytes>
//	io.enc <failpos|-> <T…> <V…>
//
// (token grammar: lean/Driver/OpsIO.lean)

import (
	"math/big"
	"bufio"
	"bytes"
	"errors"
	"fmt"
	"io"
	"strconv"
	"strings"

	"github.com/protolambda/ztyp/codec"
)

func init() {
	registerExec("io.read", execIORead)
	registerExec("io.write", execIOWrite)
	registerExec("io.dec", execIODec)
	registerExec("io.enc", execIOEnc)
	registerGen("C13", genC13)
}

var errIOFault = errors.New("injected stream fault")
var errIOShortWrite = errors.New("injected short write")

// schedReader delivers data[:end] in chunks taken cyclically from `cycle` (empty: everything
// asked for) and then behaves according to mode.  It is an io.Reader only (no Seek, no WriteTo).
type schedReader struct {
	data  []byte
	pos   int
	end   int
	cycle []int
	idx   int
	mode  string // sep | with | fail
}

func (r *schedReader) Read(p []byte) (int, error) {
	if len(p) == 0 {
		return 0, nil
	}
	if r.pos >= r.end {
		if r.mode == "fail" {
			return 0, errIOFault
		}
		return 0, io.EOF
	}
	c := len(p)
	if len(r.cycle) > 0 {
		c = r.cycle[r.idx]
		r.idx = (r.idx + 1) % len(r.cycle)
	}
	d := c
	if len(p) < d {
		d = len(p)
	}
	if r.end-r.pos < d {
		d = r.end - r.pos
	}
	copy(p, r.data[r.pos:r.pos+d])
	r.pos += d
	if r.pos == r.end && r.mode == "with" {
		return d, io.EOF
	}
	return d, nil
}

func ioParseSched(s string, dataLen int) []int {
	switch {
	case s == "all":
		return nil
	case s == "half":
		h := dataLen / 2
		if h < 1 {
			h = 1
		}
		return []int{h}
	case strings.HasPrefix(s, "c:"):
		var out []int
		for _, t := range strings.Split(s[2:], ",") {
			if t == "" {
				continue
			}
			n, err := strconv.Atoi(t)
			if err != nil || n <= 0 {
				panic("bad chunk size " + t)
			}
			out = append(out, n)
		}
		if len(out) == 0 {
			panic("empty chunk list")
		}
		return out
	}
	n, err := strconv.Atoi(s)
	if err != nil || n <= 0 {
		panic("bad schedule " + s)
	}
	return []int{n}
}

func newSchedReader(data []byte, sched, mode string, k uint64) *schedReader {
	if mode != "sep" && mode != "with" && mode != "fail" {
		panic("bad end mode " + mode)
	}
	end := len(data)
	if k < uint64(end) {
		end = int(k)
	}
	return &schedReader{data: data, end: end, cycle: ioParseSched(sched, len(data)), mode: mode}
}

func ioU64(s string) uint64 {
	n, err := strconv.ParseUint(s, 10, 64)
	if err != nil {
		panic(err)
	}
	return n
}

// io.read <xdata> <scope> <sched> <endmode> <k> <req>…
func execIORead(st *State, args []string) string {
	data := unhex(args[0])
	scope := ioU64(args[1])
	rd := newSchedReader(data, args[2], args[3], ioU64(args[4]))
	cur := codec.NewDecodingReader(rd, scope)
	var parents []*codec.DecodingReader
	var sb strings.Builder
	sb.WriteString("ok")
	for _, rq := range args[5:] {
		var err error
		switch rq[0] {
		case 'r':
			n := ioU64(rq[1:])
			p := make([]byte, n)
			_, err = cur.Read(p)
			if err == nil {
				sb.WriteString(" " + hexs(p))
			}
		case 'b':
			var v byte
			v, err = cur.ReadByte()
			if err == nil {
				fmt.Fprintf(&sb, " %d", v)
			}
		case 'h':
			var v uint16
			v, err = cur.ReadUint16()
			if err == nil {
				fmt.Fprintf(&sb, " %d", v)
			}
		case 'w':
			var v uint32
			v, err = cur.ReadOffset()
			if err == nil {
				fmt.Fprintf(&sb, " %d", v)
			}
		case 'q':
			var v uint64
			v, err = cur.ReadUint64()
			if err == nil {
				fmt.Fprintf(&sb, " %d", v)
			}
		case 's':
			var sub *codec.DecodingReader
			sub, err = cur.SubScope(ioU64(rq[1:]))
			if err == nil {
				parents = append(parents, cur)
				cur = sub
				sb.WriteString(" s")
			}
		case 'u', 'U':
			if len(parents) > 0 {
				p := parents[len(parents)-1]
				parents = parents[:len(parents)-1]
				if rq[0] == 'U' {
					p.UpdateIndexFromScoped(cur)
				}
				cur = p
			}
			sb.WriteString(" u")
		case 'i':
			fmt.Fprintf(&sb, " i%d/%d", cur.Index(), cur.Max())
		default:
			panic("bad request " + rq)
		}
		if err != nil {
			sb.WriteString(" err")
			break
		}
	}
	return sb.String()
}

// failWriter accepts bytes until `failAt` bytes in total have been accepted (failAt < 0: never
// fails) and at most `cap` bytes per call (0: unlimited).  Fewer bytes than offered come with a
// non-nil error as io.Writer demands, except that a cap-short write is reported with a nil error
// when lenient is set.
type failWriter struct {
	acc     []byte
	failAt  int
	cap     int
	lenient bool
}

func (w *failWriter) Write(p []byte) (int, error) {
	room := len(p)
	if w.failAt >= 0 {
		room = w.failAt - len(w.acc)
		if room < 0 {
			room = 0
		}
	}
	d0 := len(p)
	if room < d0 {
		d0 = room
	}
	d := d0
	if w.cap > 0 && w.cap < d {
		d = w.cap
	}
	w.acc = append(w.acc, p[:d]...)
	switch {
	case d == len(p):
		return d, nil
	case d == d0:
		return d, errIOFault
	case w.lenient:
		return d, nil
	default:
		return d, errIOShortWrite
	}
}

func ioParseFailPos(s string) int {
	if s == "-" {
		return -1
	}
	return int(ioU64(s))
}

func ioWriterObs(status string, ew *codec.EncodingWriter, w *failWriter) string {
	return fmt.Sprintf("%s written=%d accepted=%s", status, ew.Written(), hexs(w.acc))
}

// failByteWriter is a failWriter that also implements io.ByteWriter (as bytes.Buffer and
// bufio.Writer do), with the same acceptance rule for the single byte.
type failByteWriter struct{ *failWriter }

func (w failByteWriter) WriteByte(c byte) error {
	_, err := w.Write([]byte{c})
	return err
}

// ioBoth runs f against a plain failing writer and against one that also implements
// io.ByteWriter; the two observations must coincide (the second is appended only if they differ).
func ioBoth(f func(byteWriter bool) string) string {
	a := f(false)
	b := f(true)
	if a != b {
		return a + " bytewriter:" + b
	}
	return a
}

// io.write <failpos|-> <short> <wop>…
func execIOWrite(st *State, args []string) string {
	return ioBoth(func(bw bool) string { return execIOWrite1(args, bw) })
}

func execIOWrite1(args []string, byteWriter bool) (res string) {
	w := &failWriter{failAt: ioParseFailPos(args[0])}
	sh := args[1]
	if strings.HasPrefix(sh, "l") {
		w.lenient = true
		sh = sh[1:]
	}
	w.cap = int(ioU64(sh))
	var dst io.Writer = w
	if byteWriter {
		dst = failByteWriter{w}
	}
	ew := codec.NewEncodingWriter(dst)
	defer func() {
		if r := recover(); r != nil {
			res = ioWriterObs("panic", ew, w)
		}
	}()
	for _, op := range args[2:] {
		var err error
		switch op[0] {
		case 'x':
			err = ew.Write(unhex(op))
		case 'b':
			err = ew.WriteByte(byte(ioU64(op[1:])))
		case 'h':
			err = ew.WriteUint16(uint16(ioU64(op[1:])))
		case 'w':
			err = ew.WriteUint32(uint32(ioU64(op[1:])))
		case 'q':
			err = ew.WriteUint64(ioU64(op[1:]))
		case 'o':
			ab := strings.Split(op[1:], ",")
			_, err = ew.WriteOffset(ioU64(ab[0]), ioU64(ab[1]))
		default:
			panic("bad write op " + op)
		}
		if err != nil {
			return ioWriterObs("err", ew, w)
		}
	}
	return ioWriterObs("ok", ew, w)
}

// ioDecodeRes decodes bs-typed data from r with the given scope and reports "ok x<reserialized>" | "err" | "panic".
func ioDecodeRes(t *Ty, r io.Reader, scope uint64) (res string) {
	defer func() {
		if rec := recover(); rec != nil {
			res = "panic"
		}
	}()
	vw, err := typeDef(t).Deserialize(codec.NewDecodingReader(r, scope))
	if err != nil {
		return "err"
	}
	if vw == nil {
		return "ok nil"
	}
	out, err := serializeView(vw)
	if err != nil {
		return "ok reser-err"
	}
	return "ok " + hexs(out)
}

// io.dec <sched> <endmode> <k> <T…> <xbytes>
func execIODec(st *State, args []string) string {
	p := &parser{toks: args[3:]}
	t := p.ty()
	bs := unhex(p.next())
	var rd io.Reader = newSchedReader(bs, args[0], args[1], ioU64(args[2]))
	if args[0] == "all" && args[1] == "sep" {
		// same delivery behaviour as the schedule reader, but through the standard library
		// reader (which also exposes Len/Size/ReadByte/Seek to whoever asks for them)
		end := uint64(len(bs))
		if k := ioU64(args[2]); k < end {
			end = k
		}
		rd = bytes.NewReader(bs[:end])
	}
	a := ioDecodeRes(t, rd, uint64(len(bs)))
	b := ioDecodeRes(t, bytes.NewReader(bs), uint64(len(bs)))
	return a + " flat=" + b
}

// io.enc <failpos|-> <T…> <V…>
func execIOEnc(st *State, args []string) string {
	return ioBoth(func(bw bool) string { return execIOEnc1(args, bw) })
}

func execIOEnc1(args []string, byteWriter bool) string {
	p := &parser{toks: args[1:]}
	t := p.ty()
	v := p.val()
	vw, err := construct(t, v)
	if err != nil {
		return "construct-err"
	}
	w := &failWriter{failAt: ioParseFailPos(args[0])}
	var dst io.Writer = w
	if byteWriter {
		dst = failByteWriter{w}
	}
	ew := codec.NewEncodingWriter(dst)
	if err := vw.Serialize(ew); err != nil {
		return ioWriterObs("err", ew, w)
	}
	return ioWriterObs("ok", ew, w)
}

// ---- generator ----

var ioScheds = []string{"1", "2", "3", "7", "half", "all"}
var ioModes = []string{"sep", "with", "fail"}

func (g *Gen) ioSched() string {
	if g.Chance(30) {
		n := 1 + g.Intn(5)
		parts := make([]string, n)
		for i := range parts {
			parts[i] = strconv.Itoa(1 + g.Intn(9))
		}
		return "c:" + strings.Join(parts, ",")
	}
	return ioScheds[g.Intn(len(ioScheds))]
}

// ioReqs draws a request sequence for a reader with the given scope over a stream that delivers
// `stream` bytes; mostly satisfiable (the bookkeeping here is only a generator heuristic).
func (g *Gen) ioReqs(scope, stream int) []string {
	n := 1 + g.Intn(10)
	var out []string
	left := []int{scope} // remaining scope per open level
	read := func(sz int) int {
		cur := left[len(left)-1]
		lim := cur
		if stream < lim {
			lim = stream
		}
		if sz > lim && g.Chance(88) {
			sz = lim
		}
		left[len(left)-1] = cur - sz
		if left[len(left)-1] < 0 {
			left[len(left)-1] = 0
		}
		stream -= sz
		if stream < 0 {
			stream = 0
		}
		return sz
	}
	typed := func(tok string, size int) {
		if got := read(size); got == size {
			out = append(out, tok)
		} else {
			out = append(out, fmt.Sprintf("r%d", got))
		}
	}
	for i := 0; i < n; i++ {
		cur := left[len(left)-1]
		r := g.Intn(100)
		switch {
		case r < 30:
			sz := g.Intn(9)
			if g.Chance(15) {
				sz = cur // exactly the rest of the scope
			}
			if g.Chance(4) {
				sz = cur + 1 + g.Intn(3) // beyond the scope
			}
			if g.Chance(8) {
				sz = 0
			}
			out = append(out, fmt.Sprintf("r%d", read(sz)))
		case r < 40:
			typed("b", 1)
		case r < 48:
			typed("h", 2)
		case r < 58:
			typed("w", 4)
		case r < 64:
			typed("q", 8)
		case r < 82:
			c := 0
			if cur > 0 {
				c = g.Intn(cur + 1)
			}
			if g.Chance(25) {
				c = cur
			}
			if g.Chance(3) {
				c = cur + 1 + g.Intn(2)
			}
			out = append(out, fmt.Sprintf("s%d", c))
			left = append(left, c)
		case r < 94:
			if len(left) > 1 {
				if g.Chance(50) {
					out = append(out, "u")
				} else {
					out = append(out, "U")
				}
				left = left[:len(left)-1]
			} else {
				out = append(out, "i")
			}
		default:
			out = append(out, "i")
		}
	}
	if g.Chance(50) {
		out = append(out, "i")
	}
	return out
}

// genC13Large: single reads of more than 4 / 8 KiB (internal buffering thresholds), complete and
// cut at and around multiples of 4096, data arriving together with / before the end report.
func genC13Large(g *Gen, w *bufio.Writer) {
	u8 := &Ty{Kind: KUint, N: 1}
	bl := &Ty{Kind: KList, N: 1 << 20, Elem: u8}
	// one contiguous request served in MANY pieces (101 .. 1000 calls of the underlying reader,
	// every one of them making progress): complete, and cut one byte short
	for _, n := range []int{99, 100, 101, 130, 201, 260, 513, 701, 1000} {
		seq := make([]*Val, n)
		for i := range seq {
			seq[i] = &Val{Kind: VNum, Num: new(big.Int).SetUint64(1 + g.U64()%255)}
		}
		for _, t := range []*Ty{bl, {Kind: KContainer, Fields: []*Ty{{Kind: KUint, N: 2}, bl}}} {
			v := &Val{Kind: VSeq, Seq: seq}
			if t.Kind == KContainer {
				v = &Val{Kind: VSeq, Seq: []*Val{{Kind: VNum, Num: big.NewInt(7)}, v}}
			}
			bs := refSer(t, v)
			for _, s := range []string{"1", "2", "3", "7", "c:1,2", "c:9,1"} {
				fmt.Fprintf(w, "io.dec %s %s %d %s %s\n", s, ioModes[g.Intn(len(ioModes))], len(bs), t, hexs(bs))
				fmt.Fprintf(w, "io.dec %s fail %d %s %s\n", s, len(bs)-1, t, hexs(bs))
			}
		}
	}
	types := []*Ty{bl, {Kind: KContainer, Fields: []*Ty{{Kind: KUint, N: 2}, bl}}, {Kind: KVector, N: 8200, Elem: u8}}
	for _, t := range types {
		for _, n := range []int{4096, 4097, 8192, 8200, 12288} {
			var v *Val
			mk := func(k int) *Val {
				seq := make([]*Val, k)
				for i := range seq {
					seq[i] = &Val{Kind: VNum, Num: new(big.Int).SetUint64(1 + g.U64()%255)}
				}
				return &Val{Kind: VSeq, Seq: seq}
			}
			switch t.Kind {
			case KList:
				v = mk(n)
			case KContainer:
				v = &Val{Kind: VSeq, Seq: []*Val{{Kind: VNum, Num: big.NewInt(7)}, mk(n)}}
			default:
				if n != 8200 {
					continue
				}
				v = mk(8200)
			}
			bs := refSer(t, v)
			x := hexs(bs)
			L := len(bs)
			for _, s := range []string{"all", "half", "c:4096", "c:5000", "c:4096,1"} {
				for _, m := range ioModes {
					fmt.Fprintf(w, "io.dec %s %s %d %s %s\n", s, m, L, t, x)
				}
				for _, k := range []int{4096, 4095, 4097, 8192, L - 1, L - 4096} {
					if k >= 0 && k < L {
						for _, m := range ioModes {
							fmt.Fprintf(w, "io.dec %s %s %d %s %s\n", s, m, k, t, x)
						}
					}
				}
			}
		}
	}
}

func genC13(g *Gen, tier string, w *bufio.Writer) {
	defer genC13Large(g, w) // last: leaves the random stream of everything else as it was
	o := TyOpts{NoBoolSeries: true}
	// ---- whole values: every failure position x schedules ----
	nv := tierN(tier, 110, 1200)
	maxLen := tierN(tier, 90, 260)
	// degenerate values first: series whose variable-size elements are all empty (nothing is
	// written after the offset table), empty outer series, all-default containers
	u16 := &Ty{Kind: KUint, N: 2}
	lu := &Ty{Kind: KList, N: 4, Elem: u16}
	emptyL := &Val{Kind: VSeq, Seq: []*Val{}}
	type tv struct {
		t *Ty
		v *Val
	}
	fixedCases := []tv{
		{&Ty{Kind: KList, N: 8, Elem: lu}, &Val{Kind: VSeq, Seq: []*Val{emptyL, emptyL, emptyL}}},
		{&Ty{Kind: KList, N: 8, Elem: lu}, &Val{Kind: VSeq, Seq: []*Val{emptyL}}},
		{&Ty{Kind: KVector, N: 2, Elem: lu}, &Val{Kind: VSeq, Seq: []*Val{emptyL, emptyL}}},
		{&Ty{Kind: KContainer, Fields: []*Ty{lu, lu, u16}}, &Val{Kind: VSeq, Seq: []*Val{emptyL, emptyL, {Kind: VNum, Num: bigOne()}}}},
		{&Ty{Kind: KList, N: 8, Elem: lu}, emptyL},
		// dynamic fields / elements that write nothing BEHIND one that does (an error must not be
		// replaced by the outcome of later, empty writes)
		{&Ty{Kind: KContainer, Fields: []*Ty{lu, lu}}, &Val{Kind: VSeq, Seq: []*Val{{Kind: VSeq, Seq: []*Val{{Kind: VNum, Num: bigOne()}, {Kind: VNum, Num: bigOne()}}}, emptyL}}},
		{&Ty{Kind: KContainer, Fields: []*Ty{lu, lu, lu}}, &Val{Kind: VSeq, Seq: []*Val{{Kind: VSeq, Seq: []*Val{{Kind: VNum, Num: bigOne()}}}, emptyL, emptyL}}},
		{&Ty{Kind: KContainer, Fields: []*Ty{u16, lu, u16, lu}}, &Val{Kind: VSeq, Seq: []*Val{{Kind: VNum, Num: bigOne()}, {Kind: VSeq, Seq: []*Val{{Kind: VNum, Num: bigOne()}, {Kind: VNum, Num: bigOne()}, {Kind: VNum, Num: bigOne()}}}, {Kind: VNum, Num: bigOne()}, emptyL}}},
		{&Ty{Kind: KList, N: 8, Elem: lu}, &Val{Kind: VSeq, Seq: []*Val{{Kind: VSeq, Seq: []*Val{{Kind: VNum, Num: bigOne()}, {Kind: VNum, Num: bigOne()}}}, emptyL, emptyL}}},
		{&Ty{Kind: KVector, N: 3, Elem: lu}, &Val{Kind: VSeq, Seq: []*Val{{Kind: VSeq, Seq: []*Val{{Kind: VNum, Num: bigOne()}}}, emptyL, emptyL}}},
		{&Ty{Kind: KList, N: 1 << 40, Elem: &Ty{Kind: KList, N: 1 << 40, Elem: lu}}, &Val{Kind: VSeq, Seq: []*Val{{Kind: VSeq, Seq: []*Val{emptyL, emptyL}}, emptyL}}},
		// unions hand their own reader to the option: one-byte options (bitlists, uint8) at non-zero
		// selectors, bare and nested, so that a stream ending right after the selector is seen
		{&Ty{Kind: KUnion, Fields: []*Ty{u16, {Kind: KBitlist, N: 5}}}, &Val{Kind: VUnion, Sel: 1, Inner: &Val{Kind: VBits, Bits: []bool{true, false}}}},
		{&Ty{Kind: KUnion, Fields: []*Ty{u16, {Kind: KBitlist, N: 5}}}, &Val{Kind: VUnion, Sel: 1, Inner: &Val{Kind: VBits, Bits: []bool{}}}},
		{&Ty{Kind: KUnion, HasNone: true, Fields: []*Ty{{Kind: KBitlist, N: 7}, {Kind: KUint, N: 1}}}, &Val{Kind: VUnion, Sel: 1, Inner: &Val{Kind: VBits, Bits: []bool{false, true, true}}}},
		{&Ty{Kind: KUnion, HasNone: true, Fields: []*Ty{{Kind: KBitlist, N: 7}, {Kind: KUint, N: 1}}}, &Val{Kind: VUnion, Sel: 2, Inner: &Val{Kind: VNum, Num: big.NewInt(2)}}},
		{&Ty{Kind: KContainer, Fields: []*Ty{u16, {Kind: KUnion, Fields: []*Ty{u16, u16, {Kind: KBitlist, N: 3}}}}}, &Val{Kind: VSeq, Seq: []*Val{{Kind: VNum, Num: bigOne()}, {Kind: VUnion, Sel: 2, Inner: &Val{Kind: VBits, Bits: []bool{true}}}}}},
		{&Ty{Kind: KList, N: 4, Elem: &Ty{Kind: KUnion, Fields: []*Ty{u16, {Kind: KBitlist, N: 3}}}}, &Val{Kind: VSeq, Seq: []*Val{{Kind: VUnion, Sel: 1, Inner: &Val{Kind: VBits, Bits: []bool{}}}, {Kind: VUnion, Sel: 1, Inner: &Val{Kind: VBits, Bits: []bool{true, true}}}}}},
	}
	for i := 0; i < nv+len(fixedCases); i++ {
		var t *Ty
		var v *Val
		var bs []byte
		for {
			if i < len(fixedCases) {
				t, v = fixedCases[i].t, fixedCases[i].v
				bs = refSer(t, v)
				break
			}
			t = g.RandTy(g.Intn(4), o)
			v = g.RandVal(t, 24)
			bs = refSer(t, v)
			if len(bs) <= maxLen {
				break
			}
		}
		n := len(bs)
		x := hexs(bs)
		// complete stream: every schedule with both end-of-stream styles, and failing right after the data
		for _, s := range ioScheds {
			for _, m := range ioModes {
				fmt.Fprintf(w, "io.dec %s %s %d %s %s\n", s, m, n, t, x)
			}
		}
		fmt.Fprintf(w, "io.dec %s with %d %s %s\n", g.ioSched(), n+g.Intn(3), t, x)
		// stream failing / ending at every byte position before the declared scope
		for k := 0; k < n; k++ {
			for _, s := range ioScheds {
				fmt.Fprintf(w, "io.dec %s fail %d %s %s\n", s, k, t, x)
			}
			fmt.Fprintf(w, "io.dec all with %d %s %s\n", k, t, x)
			fmt.Fprintf(w, "io.dec all sep %d %s %s\n", k, t, x)
			fmt.Fprintf(w, "io.dec %s sep %d %s %s\n", ioScheds[g.Intn(len(ioScheds))], k, t, x)
			fmt.Fprintf(w, "io.dec %s with %d %s %s\n", g.ioSched(), k, t, x)
		}
		// malformed streams: corrupted encodings, complete and cut short
		for c := 0; c < 3; c++ {
			cb := g.corrupt(bs)
			cx := hexs(cb)
			for _, s := range ioScheds {
				fmt.Fprintf(w, "io.dec %s %s %d %s %s\n", s, ioModes[g.Intn(3)], len(cb), t, cx)
			}
			fmt.Fprintf(w, "io.dec all with %d %s %s\n", len(cb), t, cx)
			if len(cb) > 0 {
				fmt.Fprintf(w, "io.dec %s %s %d %s %s\n", g.ioSched(), ioModes[g.Intn(3)], g.Intn(len(cb)), t, cx)
			}
		}
		// writer failing at every byte position, and not failing
		for k := 0; k <= n+1; k++ {
			fmt.Fprintf(w, "io.enc %d %s %s\n", k, t, v)
		}
		fmt.Fprintf(w, "io.enc - %s %s\n", t, v)
	}
	// ---- primitive reads: random request sequences ----
	nr := tierN(tier, 14000, 150000)
	for i := 0; i < nr; i++ {
		n := g.Intn(41)
		data := g.Bytes(n)
		scope := uint64(n)
		switch r := g.Intn(100); {
		case r < 12 && n > 0:
			scope = uint64(g.Intn(n)) // scope smaller than the stream
		case r < 22:
			scope = uint64(n + 1 + g.Intn(5)) // scope larger than the stream
		case r < 25:
			scope = g.Pick([]uint64{1 << 62, 1<<63 - 1, 1 << 63, 1<<63 + 5, 1<<64 - 1})
		}
		k := n
		mode := ioModes[g.Intn(3)]
		if g.Chance(35) {
			k = g.Intn(n + 1)
		}
		sc := int(scope)
		if scope > 64 {
			sc = 64
		}
		fmt.Fprintf(w, "io.read %s %d %s %s %d %s\n", hexs(data), scope, g.ioSched(), mode, k, strings.Join(g.ioReqs(sc, k), " "))
	}
	// exhaustive small domain: 6 bytes, scope 6, every k, every schedule/end mode, fixed request shapes
	shapes := []string{"r6", "r3 r3", "b h r3", "s4 h h u h", "s4 w U h i", "r0 r6 r0", "s2 s2 b b u u w", "w s2 b b", "r7", "s7", "q", "r2 s4 r1 s3 r3 U U i"}
	d6 := []byte{1, 2, 3, 4, 5, 6}
	for _, sh := range shapes {
		for k := 0; k <= 6; k++ {
			for _, s := range append(append([]string{}, ioScheds...), "c:2,1", "c:1,4") {
				for _, m := range ioModes {
					fmt.Fprintf(w, "io.read %s 6 %s %s %d %s\n", hexs(d6), s, m, k, sh)
				}
			}
		}
	}
	// stream longer than the scope, parents whose limiter is used up by earlier sub-scopes
	shapes8 := []string{"s4 r4 u s4 r4", "s3 b u s4 w", "s6 r3 u r6", "r3 s3 r3 U r3 i", "s2 h u s2 h u s2 h u s2 h", "r6 r1", "s6 s6 s6 r6 u u u b", "s5 s2 b U s4 w i"}
	d8 := []byte{1, 2, 3, 4, 5, 6, 7, 8}
	for _, sh := range shapes8 {
		for k := 0; k <= 8; k++ {
			for _, s := range append(append([]string{}, ioScheds...), "c:2,1", "c:5,1") {
				for _, m := range ioModes {
					fmt.Fprintf(w, "io.read %s 6 %s %s %d %s\n", hexs(d8), s, m, k, sh)
				}
			}
		}
	}
	// ---- primitive writes ----
	nw := tierN(tier, 7000, 80000)
	for i := 0; i < nw; i++ {
		nops := 1 + g.Intn(6)
		ops := make([]string, 0, nops)
		total := 0
		for j := 0; j < nops; j++ {
			switch r := g.Intn(100); {
			case r < 50:
				l := g.Intn(10)
				ops = append(ops, hexs(g.Bytes(l)))
				total += l
			case r < 60:
				ops = append(ops, fmt.Sprintf("b%d", g.Intn(256)))
				total++
			case r < 68:
				ops = append(ops, fmt.Sprintf("h%d", g.Intn(65536)))
				total += 2
			case r < 78:
				ops = append(ops, fmt.Sprintf("w%d", uint32(g.U64())))
				total += 4
			case r < 86:
				ops = append(ops, fmt.Sprintf("q%d", g.U64()))
				total += 8
			default:
				prev := uint64(g.Intn(1 << 20))
				ln := uint64(g.Intn(1 << 20))
				if g.Chance(12) {
					prev = g.Pick([]uint64{1<<32 - 1, 1 << 32, 1<<32 + 1, 1 << 40})
				}
				if g.Chance(12) {
					ln = g.Pick([]uint64{1<<32 - 1, 1 << 32, 1<<32 - uint64(prev&0xffff), 1 << 63})
				}
				ops = append(ops, fmt.Sprintf("o%d,%d", prev, ln))
				total += 4
			}
		}
		fp := "-"
		if g.Chance(80) {
			fp = strconv.Itoa(g.Intn(total + 2))
		}
		short := "0"
		switch r := g.Intn(100); {
		case r < 20:
			short = strconv.Itoa(1 + g.Intn(6))
		case r < 40:
			short = "l" + strconv.Itoa(1+g.Intn(6))
		}
		fmt.Fprintf(w, "io.write %s %s %s\n", fp, short, strings.Join(ops, " "))
	}
	// every failure position for a fixed write sequence, all writer kinds
	fixed := "x0102030405 b6 h2055 w185207048 o12,1 q1157159078456920585 x x1a1b1c"
	for k := 0; k <= 29; k++ {
		for _, sh := range []string{"0", "1", "3", "8", "l1", "l3"} {
			fmt.Fprintf(w, "io.write %d %s %s\n", k, sh, fixed)
		}
	}
}

func bigOne() *big.Int { return big.NewInt(1) }
