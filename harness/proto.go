package main

import (
	"bytes"
	"encoding/hex"
	"fmt"
	"math/big"
	"strconv"
	"strings"
)

// ---- PRNG: every random choice derives from one splitmix64 state ----

type Gen struct {
	s uint64
	// unhashed: every second inserted value of a history is handed over without having been
	// hashed before (ops setu/appu/chgu); chosen by a counter so that the random stream is unaffected
	unhashed bool
	nIns     int
	// zHist: every third history of the family runs under the zero-prefixed pair hash ("begin z")
	zHist  bool
	nBegin int
}

// beginLine opens a history.
func (g *Gen) beginLine() string {
	g.nBegin++
	if g.zHist && g.nBegin%3 == 0 {
		return "begin z"
	}
	return "begin"
}

// insOp returns the op name for inserting a value: name, or name+"u" for an unhashed insert.
func (g *Gen) insOp(name string) string {
	g.nIns++
	if g.unhashed && g.nIns%2 == 0 {
		return name + "u"
	}
	return name
}

func NewGen(seed uint64) *Gen { return &Gen{s: seed*0x9e3779b97f4a7c15 + 0x1234567} }

func (g *Gen) U64() uint64 {
	g.s += 0x9e3779b97f4a7c15
	z := g.s
	z = (z ^ (z >> 30)) * 0xbf58476d1ce4e5b9
	z = (z ^ (z >> 27)) * 0x94d049bb133111eb
	return z ^ (z >> 31)
}
func (g *Gen) Intn(n int) int {
	if n <= 0 {
		return 0
	}
	return int(g.U64() % uint64(n))
}
func (g *Gen) Bool() bool        { return g.U64()&1 == 1 }
func (g *Gen) Chance(p int) bool { return g.Intn(100) < p }
func (g *Gen) Pick(xs []uint64) uint64 {
	return xs[g.Intn(len(xs))]
}
func (g *Gen) Bytes(n int) []byte {
	b := make([]byte, n)
	for i := range b {
		b[i] = byte(g.U64())
	}
	return b
}

// ---- types ----

type TyKind int

const (
	KUint TyKind = iota
	KBool
	KBytesN
	KBitvector
	KBitlist
	KVector
	KList
	KContainer
	KUnion
)

type Ty struct {
	Kind    TyKind
	N       uint64 // uint: byte size; bytesN/bitvector/vector: length; bitlist/list: limit
	Elem    *Ty
	Fields  []*Ty // container fields / union options (excluding None)
	HasNone bool
}

func (t *Ty) String() string {
	switch t.Kind {
	case KUint:
		return fmt.Sprintf("u%d", t.N*8)
	case KBool:
		return "bool"
	case KBytesN:
		return fmt.Sprintf("B %d", t.N)
	case KBitvector:
		return fmt.Sprintf("BV %d", t.N)
	case KBitlist:
		return fmt.Sprintf("BL %d", t.N)
	case KVector:
		return fmt.Sprintf("V %d %s", t.N, t.Elem)
	case KList:
		return fmt.Sprintf("L %d %s", t.N, t.Elem)
	case KContainer:
		var sb strings.Builder
		fmt.Fprintf(&sb, "C %d", len(t.Fields))
		for _, f := range t.Fields {
			sb.WriteString(" " + f.String())
		}
		return sb.String()
	case KUnion:
		var sb strings.Builder
		n := len(t.Fields)
		if t.HasNone {
			n++
		}
		fmt.Fprintf(&sb, "U %d", n)
		if t.HasNone {
			sb.WriteString(" N")
		}
		for _, f := range t.Fields {
			sb.WriteString(" " + f.String())
		}
		return sb.String()
	}
	return "?"
}

type parser struct {
	toks []string
	pos  int
}

func (p *parser) next() string {
	if p.pos >= len(p.toks) {
		panic("parse: out of tokens")
	}
	t := p.toks[p.pos]
	p.pos++
	return t
}
func (p *parser) num() uint64 {
	n, err := strconv.ParseUint(p.next(), 10, 64)
	if err != nil {
		panic(err)
	}
	return n
}
func (p *parser) rest() []string { return p.toks[p.pos:] }

func (p *parser) ty() *Ty {
	t := p.next()
	switch t {
	case "u8":
		return &Ty{Kind: KUint, N: 1}
	case "u16":
		return &Ty{Kind: KUint, N: 2}
	case "u32":
		return &Ty{Kind: KUint, N: 4}
	case "u64":
		return &Ty{Kind: KUint, N: 8}
	case "u256":
		return &Ty{Kind: KUint, N: 32}
	case "bool":
		return &Ty{Kind: KBool}
	case "B":
		return &Ty{Kind: KBytesN, N: p.num()}
	case "BV":
		return &Ty{Kind: KBitvector, N: p.num()}
	case "BL":
		return &Ty{Kind: KBitlist, N: p.num()}
	case "V":
		n := p.num()
		return &Ty{Kind: KVector, N: n, Elem: p.ty()}
	case "L":
		n := p.num()
		return &Ty{Kind: KList, N: n, Elem: p.ty()}
	case "C":
		k := int(p.num())
		r := &Ty{Kind: KContainer}
		for i := 0; i < k; i++ {
			r.Fields = append(r.Fields, p.ty())
		}
		return r
	case "U":
		k := int(p.num())
		r := &Ty{Kind: KUnion}
		for i := 0; i < k; i++ {
			if i == 0 && p.pos < len(p.toks) && p.toks[p.pos] == "N" {
				p.pos++
				r.HasNone = true
				continue
			}
			r.Fields = append(r.Fields, p.ty())
		}
		return r
	}
	panic("parse: bad type token " + t)
}

// ---- values ----

type ValKind int

const (
	VNum ValKind = iota
	VBool
	VBytes
	VBits
	VSeq
	VNone
	VUnion
)

type Val struct {
	Kind  ValKind
	Num   *big.Int
	B     bool
	Bytes []byte
	Bits  []bool
	Seq   []*Val
	Sel   uint64
	Inner *Val
}

func (v *Val) String() string {
	switch v.Kind {
	case VNum:
		return "n" + v.Num.String()
	case VBool:
		if v.B {
			return "t"
		}
		return "f"
	case VBytes:
		return "x" + hex.EncodeToString(v.Bytes)
	case VBits:
		var sb strings.Builder
		sb.WriteByte('b')
		for _, b := range v.Bits {
			if b {
				sb.WriteByte('1')
			} else {
				sb.WriteByte('0')
			}
		}
		return sb.String()
	case VSeq:
		var sb strings.Builder
		fmt.Fprintf(&sb, "s %d", len(v.Seq))
		for _, e := range v.Seq {
			sb.WriteString(" " + e.String())
		}
		return sb.String()
	case VNone:
		return "_"
	case VUnion:
		return fmt.Sprintf("o %d %s", v.Sel, v.Inner)
	}
	return "?"
}

func (p *parser) val() *Val {
	t := p.next()
	switch {
	case t == "t":
		return &Val{Kind: VBool, B: true}
	case t == "f":
		return &Val{Kind: VBool, B: false}
	case t == "_":
		return &Val{Kind: VNone}
	case t == "s":
		k := int(p.num())
		r := &Val{Kind: VSeq}
		for i := 0; i < k; i++ {
			r.Seq = append(r.Seq, p.val())
		}
		return r
	case t == "o":
		sel := p.num()
		return &Val{Kind: VUnion, Sel: sel, Inner: p.val()}
	case t[0] == 'n':
		n, ok := new(big.Int).SetString(t[1:], 10)
		if !ok {
			panic("parse: bad number " + t)
		}
		return &Val{Kind: VNum, Num: n}
	case t[0] == 'x':
		b, err := hex.DecodeString(t[1:])
		if err != nil {
			panic(err)
		}
		return &Val{Kind: VBytes, Bytes: b}
	case t[0] == 'b':
		r := &Val{Kind: VBits}
		for _, c := range t[1:] {
			r.Bits = append(r.Bits, c == '1')
		}
		return r
	}
	panic("parse: bad value token " + t)
}

func hexs(b []byte) string { return "x" + hex.EncodeToString(b) }

func unhex(s string) []byte {
	if len(s) > 0 && s[0] == 'x' {
		s = s[1:]
	}
	b, err := hex.DecodeString(s)
	if err != nil {
		panic(err)
	}
	return b
}

// retainCheck: results of library calls that return a byte slice are kept (by reference) until
// the next such call; a result must stay what it was when it was handed out.  Returns the token
// to append to the observation ("" when all is well).
var retainedBuf, retainedCopy, retainPending [][]byte

// retainNote registers a byte slice returned by the library during the current op.
func retainNote(b []byte) []byte {
	if len(b) > 0 {
		retainPending = append(retainPending, b)
	}
	return b
}

func retainCheck(cur ...[]byte) string {
	msg := ""
	for i := range retainedBuf {
		if !bytes.Equal(retainedBuf[i], retainedCopy[i]) {
			msg = " earlier-result-overwritten"
		}
	}
	retainedBuf, retainedCopy = nil, nil
	for _, c := range cur {
		retainedBuf = append(retainedBuf, c)
		retainedCopy = append(retainedCopy, append([]byte(nil), c...))
	}
	return msg
}
