package main

import (
	"bufio"
	"encoding/hex"
	"fmt"

	"github.com/protolambda/ztyp/tree"
	"github.com/protolambda/ztyp/view"
)

func init() {
	registerExec("htr", execHtr)
	registerExec("ser", execSer)
	registerExec("rt", execRt)
	registerExec("dec", execDec)
	registerExec("sizes", execSizes)
	registerGen("C01", genC01)
	registerGen("C02", genC02)
	registerGen("C03", genC03)
	registerGen("C15", genC15)
}

func rootHex(r tree.Root) string { return hex.EncodeToString(r[:]) }

// viewByRoute produces a view of (t, v) by the named construction route.
func viewByRoute(route string, t *Ty, v *Val) (view.View, error) {
	switch route {
	case "new":
		return construct(t, v)
	case "def":
		return typeDef(t).Default(nil), nil
	case "dec":
		return decodeView(typeDef(t), refSer(t, v))
	}
	panic("bad route " + route)
}

// htr <route> <hash> T [V]
func execHtr(st *State, args []string) string {
	route, hname := args[0], args[1]
	p := &parser{toks: args[2:]}
	t := p.ty()
	h := useHash(hname)
	defer useHash("sha")
	if route == "defnode" {
		return "ok " + rootHex(typeDef(t).DefaultNode().MerkleRoot(h))
	}
	var v *Val
	if route != "def" {
		v = p.val()
	}
	vw, err := viewByRoute(route, t, v)
	if err != nil {
		return "err"
	}
	return "ok " + rootHex(vw.HashTreeRoot(h))
}

// ser <route> T [V]  ->  ok <bytes> <ValueByteLength>
func execSer(st *State, args []string) string {
	route := args[0]
	p := &parser{toks: args[1:]}
	t := p.ty()
	var v *Val
	if route != "def" {
		v = p.val()
	}
	vw, err := viewByRoute(route, t, v)
	if err != nil {
		return "err"
	}
	bs, err := serializeView(vw)
	if err != nil {
		return "err"
	}
	n, err := vw.ValueByteLength()
	if err != nil {
		return "err"
	}
	return fmt.Sprintf("ok %s %d", hexs(bs), n)
}

// rt T V : value -> bytes -> view -> (getters, bytes, root)
func execRt(st *State, args []string) string {
	p := &parser{toks: args}
	t := p.ty()
	v := p.val()
	vw, err := decodeView(typeDef(t), refSer(t, v))
	if err != nil {
		return "err"
	}
	ev, err := extract(t, vw)
	if err != nil {
		return "err"
	}
	bs, err := serializeView(vw)
	if err != nil {
		return "err"
	}
	return fmt.Sprintf("ok %s %s %s", hexs(bs), rootHex(vw.HashTreeRoot(tree.Hash)), ev)
}

// dec T x<bytes> : ok <re-serialized> <extracted value> | err | panic
func execDec(st *State, args []string) string {
	p := &parser{toks: args}
	t := p.ty()
	bs := unhex(p.next())
	vw, err := decodeView(typeDef(t), bs)
	if err != nil {
		return "err"
	}
	if vw == nil {
		return "ok nil"
	}
	out, err := serializeView(vw)
	if err != nil {
		return "ok reser-err"
	}
	ev, err := extract(t, vw)
	if err != nil {
		return "ok " + hexs(out) + " extract-err"
	}
	return fmt.Sprintf("ok %s %s", hexs(out), ev)
}

// sizes T -> ok <fixed> <size> <min> <max>
func execSizes(st *State, args []string) string {
	p := &parser{toks: args}
	td := typeDef(p.ty())
	f := 0
	if td.IsFixedByteLength() {
		f = 1
	}
	return fmt.Sprintf("ok %d %d %d %d", f, td.TypeByteLength(), td.MinByteLength(), td.MaxByteLength())
}

func tierN(tier string, quick, thorough int) int {
	if tier == "thorough" {
		return thorough
	}
	return quick
}

func genC01(g *Gen, tier string, w *bufio.Writer) {
	n := tierN(tier, 1500, 40000)
	o := TyOpts{}
	for i := 0; i < n; i++ {
		t := g.RandTy(1+g.Intn(3), o)
		v := g.RandVal(t, 300)
		hn := "sha"
		if g.Chance(35) {
			hn = "alt"
		}
		fmt.Fprintf(w, "htr new %s %s %s\n", hn, t, v)
		fmt.Fprintf(w, "htr dec %s %s %s\n", hn, t, v)
		if g.Chance(40) {
			fmt.Fprintf(w, "htr def %s %s\n", hn, t)
			fmt.Fprintf(w, "htr defnode %s %s\n", hn, t)
		}
	}
	// every boundary length once per element kind, zero elements included
	for _, e := range []*Ty{{Kind: KUint, N: 1}, {Kind: KUint, N: 2}, {Kind: KUint, N: 4}, {Kind: KUint, N: 8}, {Kind: KUint, N: 32},
		{Kind: KBytesN, N: 32}, {Kind: KBytesN, N: 5}, {Kind: KBitlist, N: 9}, {Kind: KContainer, Fields: []*Ty{{Kind: KUint, N: 8}, {Kind: KBitlist, N: 3}}}} {
		for _, lim := range append(append(append([]uint64{}, smallNums...), packNums...), 1<<20, 1<<40) {
			lt := &Ty{Kind: KList, N: lim, Elem: e}
			for _, ln := range []uint64{0, 1, lim / 2, lim} {
				if ln > lim || ln > 40 {
					continue
				}
				v := &Val{Kind: VSeq, Seq: []*Val{}}
				for k := uint64(0); k < ln; k++ {
					v.Seq = append(v.Seq, g.RandVal(e, 8))
				}
				fmt.Fprintf(w, "htr new sha %s %s\n", lt, v)
				fmt.Fprintf(w, "htr dec alt %s %s\n", lt, v)
			}
			fmt.Fprintf(w, "htr def sha %s\n", lt)
			if lim >= 1 && lim <= 33 {
				vt := &Ty{Kind: KVector, N: lim, Elem: e}
				v := g.RandVal(vt, 100)
				fmt.Fprintf(w, "htr new sha %s %s\n", vt, v)
				fmt.Fprintf(w, "htr dec sha %s %s\n", vt, v)
				fmt.Fprintf(w, "htr defnode alt %s\n", vt)
			}
		}
	}
	// containers whose fields all share one type (one TypeDef object in the harness), every field
	// count 1..17: field counts that are not powers of two leave padding after the last field
	u64 := &Ty{Kind: KUint, N: 8}
	for _, ft := range []*Ty{u64, {Kind: KBytesN, N: 32}, {Kind: KContainer, Fields: []*Ty{u64, u64}}, {Kind: KList, N: 4, Elem: u64},
		{Kind: KVector, N: 5, Elem: u64}, {Kind: KUnion, Fields: []*Ty{u64, {Kind: KBool}}}, {Kind: KBitlist, N: 9}, {Kind: KBitvector, N: 300},
		{Kind: KList, N: 3, Elem: &Ty{Kind: KContainer, Fields: []*Ty{u64}}}} {
		for k := 1; k <= 17; k++ {
			fs := make([]*Ty, k)
			for i := range fs {
				fs[i] = ft
			}
			ct := &Ty{Kind: KContainer, Fields: fs}
			hn := []string{"sha", "alt"}[k%2]
			fmt.Fprintf(w, "htr def %s %s\n", hn, ct)
			fmt.Fprintf(w, "htr defnode %s %s\n", hn, ct)
			v := g.RandVal(ct, 60)
			fmt.Fprintf(w, "htr new sha %s %s\n", ct, v)
			fmt.Fprintf(w, "htr dec sha %s %s\n", ct, v)
		}
	}
	for _, n := range append(append(append([]uint64{}, smallNums...), packNums...), bitNums...) {
		bl := &Ty{Kind: KBitlist, N: n}
		for _, ln := range []uint64{0, 1, n / 2, n} {
			if ln > n {
				continue
			}
			fmt.Fprintf(w, "htr new sha %s %s\n", bl, &Val{Kind: VBits, Bits: g.randBits(int(ln))})
		}
		if n >= 1 {
			bv := &Ty{Kind: KBitvector, N: n}
			fmt.Fprintf(w, "htr new sha %s %s\n", bv, &Val{Kind: VBits, Bits: g.randBits(int(n))})
			fmt.Fprintf(w, "htr def sha %s\n", bv)
		}
	}
}

func genC02(g *Gen, tier string, w *bufio.Writer) {
	n := tierN(tier, 1500, 40000)
	o := TyOpts{}
	for i := 0; i < n; i++ {
		t := g.RandTy(1+g.Intn(3), o)
		v := g.RandVal(t, 300)
		fmt.Fprintf(w, "ser new %s %s\n", t, v)
		fmt.Fprintf(w, "rt %s %s\n", t, v)
		if g.Chance(20) {
			fmt.Fprintf(w, "ser def %s\n", t)
		}
	}
	for _, ct := range wideContainers() {
		for k := 0; k < 3; k++ {
			v := g.RandVal(ct, 200)
			fmt.Fprintf(w, "ser new %s %s\n", ct, v)
			fmt.Fprintf(w, "rt %s %s\n", ct, v)
		}
	}
	// types whose size bounds wrap 64 bits although every limit is <= 2^40:
	// (2^24-4+4) * 2^40 = 2^64, so List[List[uint8, 2^24-4], 2^40] has MaxSize 0 = MinSize
	{
		u8 := &Ty{Kind: KUint, N: 1}
		w0 := &Ty{Kind: KList, N: 1 << 40, Elem: &Ty{Kind: KList, N: 1<<24 - 4, Elem: u8}}
		for _, t := range []*Ty{{Kind: KVector, N: 2, Elem: w0}, {Kind: KList, N: 3, Elem: w0},
			{Kind: KVector, N: 2, Elem: &Ty{Kind: KVector, N: 2, Elem: w0}}, {Kind: KList, N: 4, Elem: &Ty{Kind: KVector, N: 1, Elem: w0}}} {
			for k := 0; k < 4; k++ {
				v := g.RandVal(t, 40)
				fmt.Fprintf(w, "ser new %s %s\n", t, v)
				fmt.Fprintf(w, "rt %s %s\n", t, v)
			}
		}
	}
	// every bit index of bitfields up to 513
	for _, n := range []uint64{1, 7, 8, 9, 31, 32, 33, 34, 63, 64, 65, 255, 256, 257, 512, 513} {
		for _, t := range []*Ty{{Kind: KBitvector, N: n}, {Kind: KBitlist, N: n}, {Kind: KBitlist, N: 1 << 20}} {
			for k := 0; k < 3; k++ {
				v := &Val{Kind: VBits, Bits: g.randBits(int(n))}
				fmt.Fprintf(w, "rt %s %s\n", t, v)
				fmt.Fprintf(w, "ser new %s %s\n", t, v)
			}
		}
	}
}

func genC15(g *Gen, tier string, w *bufio.Writer) {
	n := tierN(tier, 4000, 60000)
	o := TyOpts{}
	for i := 0; i < n; i++ {
		t := g.RandTy(g.Intn(4), o)
		fmt.Fprintf(w, "sizes %s\n", t)
	}
}
