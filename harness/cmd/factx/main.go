// Command factx re-reads the ztyp sources with go/ast and emits a Lean file with the
// facts the hand-written model relies on (DESIGN §5.2):
//
//	F1 constants, F2 mutation-site inventory (every write through a pointer parameter,
//	receiver, node field or package-level variable), F3 package-level variables,
//	F4 binding of the default hash, F5 Copy() methods / concurrency primitives.
//
// The output imports ZtypV.FactsExpected and proves equality by `decide`.
package main

import (
	"fmt"
	"go/ast"
	"go/parser"
	"go/token"
	"os"
	"path/filepath"
	"sort"
	"strconv"
	"strings"
)

var pkgs = []string{"tree", "view", "codec", "bitfields", "conv"}

type fileSet struct {
	fset  *token.FileSet
	files map[string][]*ast.File // per package
}

func load(repo string) *fileSet {
	fs := &fileSet{fset: token.NewFileSet(), files: map[string][]*ast.File{}}
	for _, p := range pkgs {
		matches, _ := filepath.Glob(filepath.Join(repo, p, "*.go"))
		sort.Strings(matches)
		for _, m := range matches {
			if strings.HasSuffix(m, "_test.go") {
				continue
			}
			f, err := parser.ParseFile(fs.fset, m, nil, parser.ParseComments)
			if err != nil {
				fmt.Fprintln(os.Stderr, "parse error:", err)
				os.Exit(1)
			}
			// honour build tags: skip files guarded by a tag other than verif
			fs.files[p] = append(fs.files[p], f)
		}
	}
	return fs
}

// ---- F1: constant evaluation (just enough for the constants ztyp declares) ----

func evalConst(e ast.Expr, iota uint64, env map[string]uint64) (uint64, bool) {
	switch x := e.(type) {
	case *ast.BasicLit:
		if x.Kind == token.INT {
			v, err := strconv.ParseUint(strings.ReplaceAll(x.Value, "_", ""), 0, 64)
			return v, err == nil
		}
	case *ast.Ident:
		if x.Name == "iota" {
			return iota, true
		}
		v, ok := env[x.Name]
		return v, ok
	case *ast.ParenExpr:
		return evalConst(x.X, iota, env)
	case *ast.UnaryExpr:
		v, ok := evalConst(x.X, iota, env)
		if !ok {
			return 0, false
		}
		switch x.Op {
		case token.XOR:
			return ^v, true
		case token.SUB:
			return -v, true
		}
	case *ast.BinaryExpr:
		a, ok1 := evalConst(x.X, iota, env)
		b, ok2 := evalConst(x.Y, iota, env)
		if !ok1 || !ok2 {
			return 0, false
		}
		switch x.Op {
		case token.SHL:
			if b >= 64 {
				return 0, true
			}
			return a << b, true
		case token.SHR:
			if b >= 64 {
				return 0, true
			}
			return a >> b, true
		case token.ADD:
			return a + b, true
		case token.SUB:
			return a - b, true
		case token.MUL:
			return a * b, true
		case token.OR:
			return a | b, true
		case token.AND:
			return a & b, true
		}
	case *ast.CallExpr: // conversion uint64(x), uint8(x), UintMeta(x)…
		if len(x.Args) == 1 {
			v, ok := evalConst(x.Args[0], iota, env)
			if id, isId := x.Fun.(*ast.Ident); isId && ok {
				switch id.Name {
				case "uint8", "byte":
					return v & 0xff, true
				case "uint16":
					return v & 0xffff, true
				case "uint32":
					return v & 0xffffffff, true
				}
			}
			return v, ok
		}
	}
	return 0, false
}

func constants(fs *fileSet) []string {
	var out []string
	for _, p := range pkgs {
		env := map[string]uint64{}
		for _, f := range fs.files[p] {
			for _, d := range f.Decls {
				gd, ok := d.(*ast.GenDecl)
				if !ok || gd.Tok != token.CONST {
					continue
				}
				var lastVals []ast.Expr
				for i, s := range gd.Specs {
					vs := s.(*ast.ValueSpec)
					vals := vs.Values
					if len(vals) == 0 {
						vals = lastVals
					} else {
						lastVals = vals
					}
					for k, n := range vs.Names {
						if k < len(vals) {
							if v, ok := evalConst(vals[k], uint64(i), env); ok {
								env[n.Name] = v
								out = append(out, fmt.Sprintf("const|%s.%s|%d", p, n.Name, v))
							}
						}
					}
				}
			}
		}
	}
	sort.Strings(out)
	return out
}

// ---- F2: mutation sites ----

type funcInfo struct {
	pkg, name string
	params    map[string]string // name -> type string (pointer/slice/map params and receivers only)
	locals    map[string]bool
}

func typeStr(e ast.Expr) string {
	switch x := e.(type) {
	case *ast.Ident:
		return x.Name
	case *ast.StarExpr:
		return "*" + typeStr(x.X)
	case *ast.ArrayType:
		if x.Len == nil {
			return "[]" + typeStr(x.Elt)
		}
		return "[N]" + typeStr(x.Elt)
	case *ast.SelectorExpr:
		return typeStr(x.X) + "." + x.Sel.Name
	case *ast.Ellipsis:
		return "..." + typeStr(x.Elt)
	case *ast.MapType:
		return "map"
	case *ast.FuncType:
		return "func"
	case *ast.InterfaceType:
		return "interface"
	}
	return "?"
}

func isRefType(t string) bool {
	return strings.HasPrefix(t, "*") || strings.HasPrefix(t, "[]") || t == "map" || strings.HasPrefix(t, "...")
}

// baseOf finds the root identifier of an lvalue / slice expression and a path description.
func baseOf(e ast.Expr) (*ast.Ident, string) {
	switch x := e.(type) {
	case *ast.Ident:
		return x, ""
	case *ast.ParenExpr:
		return baseOf(x.X)
	case *ast.StarExpr:
		id, p := baseOf(x.X)
		return id, p + "*"
	case *ast.IndexExpr:
		id, p := baseOf(x.X)
		return id, p + "[]"
	case *ast.SliceExpr:
		id, p := baseOf(x.X)
		return id, p + "[:]"
	case *ast.SelectorExpr:
		id, p := baseOf(x.X)
		return id, p + "." + x.Sel.Name
	case *ast.CallExpr: // conversion like (*Root)(r)
		if len(x.Args) == 1 {
			return baseOf(x.Args[0])
		}
	case *ast.UnaryExpr:
		if x.Op == token.AND {
			return baseOf(x.X)
		}
	}
	return nil, ""
}

func mutationSites(fs *fileSet, globals map[string]map[string]bool) (classes []string, detail []string) {
	cset := map[string]bool{}
	dset := map[string]bool{}
	for _, p := range []string{"tree", "view"} {
		for _, f := range fs.files[p] {
			for _, d := range f.Decls {
				fd, ok := d.(*ast.FuncDecl)
				if !ok || fd.Body == nil {
					continue
				}
				fname := fd.Name.Name
				params := map[string]string{}
				if fd.Recv != nil {
					for _, r := range fd.Recv.List {
						t := typeStr(r.Type)
						fname = strings.TrimPrefix(t, "*") + "." + fname
						for _, n := range r.Names {
							if isRefType(t) {
								params[n.Name] = "recv:" + t
							}
						}
					}
				}
				for _, prm := range fd.Type.Params.List {
					t := typeStr(prm.Type)
					for _, n := range prm.Names {
						if isRefType(t) {
							params[n.Name] = "param:" + t
						}
					}
				}
				// local aliases of pointer params: x := p / x := (*T)(p) / x := *roots (slice header copy)
				alias := map[string]string{}
				record := func(kind string, lhs ast.Expr) {
					id, path := baseOf(lhs)
					if id == nil {
						return
					}
					var class string
					if c, ok := params[id.Name]; ok {
						class = c
					} else if c, ok := alias[id.Name]; ok {
						class = c
					} else if globals[p][id.Name] {
						class = "global:" + id.Name
					} else {
						// a local: only interesting if we write a node field through it
						if strings.Contains(path, ".Value") || strings.Contains(path, ".LeftChild") || strings.Contains(path, ".RightChild") {
							class = "local-node-field"
						} else {
							return
						}
					}
					// field name for selector writes
					if sel, ok := lhs.(*ast.SelectorExpr); ok {
						class += "." + sel.Sel.Name
					}
					if path == "" {
						return // plain re-assignment of the variable itself
					}
					// rebinding a struct field of a view receiver (BackingNode, Hook) is not a tree write,
					// but it is recorded so that a new kind of receiver write shows up.
					cset[fmt.Sprintf("site|%s|%s|%s", p, class, kind)] = true
					dset[fmt.Sprintf("site-detail|%s|%s|%s|%s", p, fname, class, kind)] = true
				}
				ast.Inspect(fd.Body, func(n ast.Node) bool {
					switch s := n.(type) {
					case *ast.AssignStmt:
						if s.Tok == token.DEFINE || s.Tok == token.ASSIGN {
							// track aliases
							if len(s.Lhs) == len(s.Rhs) {
								for i := range s.Lhs {
									if lid, ok := s.Lhs[i].(*ast.Ident); ok {
										if rid, rpath := baseOf(s.Rhs[i]); rid != nil {
											if c, ok := params[rid.Name]; ok && s.Tok == token.DEFINE {
												// value copies (x := *p) are fresh; pointer/slice copies alias
												if _, isStar := s.Rhs[i].(*ast.StarExpr); isStar && strings.HasPrefix(strings.TrimPrefix(strings.TrimPrefix(c, "param:"), "recv:"), "*[") == false {
													// *p of a pointer-to-array/struct copies; *p of pointer-to-slice aliases
													if strings.Contains(c, "*[]") {
														alias[lid.Name] = c
													}
												} else if rpath == "" || strings.HasSuffix(rpath, "[:]") {
													alias[lid.Name] = c
												} else if _, isCall := s.Rhs[i].(*ast.CallExpr); isCall {
													alias[lid.Name] = c
												}
											}
										}
									}
								}
							}
						}
						if s.Tok != token.DEFINE {
							for _, l := range s.Lhs {
								kind := "assign"
								if s.Tok != token.ASSIGN {
									kind = "op-assign"
								}
								record(kind, l)
							}
						}
					case *ast.IncDecStmt:
						record("op-assign", s.X)
					case *ast.CallExpr:
						// calls that write through their first slice argument
						name := ""
						switch fn := s.Fun.(type) {
						case *ast.Ident:
							name = fn.Name
						case *ast.SelectorExpr:
							name = fn.Sel.Name
						}
						writers := map[string]bool{"copy": true, "Read": true, "PutUint16": true, "PutUint32": true,
							"PutUint64": true, "Decode": true, "FixedBytesUnmarshalText": true, "ReadFull": true}
						if writers[name] && len(s.Args) >= 1 {
							record("call-"+name, s.Args[0])
						}
					}
					return true
				})
			}
		}
	}
	for c := range cset {
		classes = append(classes, c)
	}
	for c := range dset {
		detail = append(detail, c)
	}
	sort.Strings(classes)
	sort.Strings(detail)
	return
}

// ---- F3: package-level vars ----

func globalVars(fs *fileSet) (map[string]map[string]bool, []string) {
	g := map[string]map[string]bool{}
	var out []string
	for _, p := range pkgs {
		g[p] = map[string]bool{}
		for _, f := range fs.files[p] {
			for _, d := range f.Decls {
				gd, ok := d.(*ast.GenDecl)
				if !ok || gd.Tok != token.VAR {
					continue
				}
				for _, s := range gd.Specs {
					vs := s.(*ast.ValueSpec)
					for i, n := range vs.Names {
						g[p][n.Name] = true
						init := ""
						if i < len(vs.Values) {
							init = exprHead(vs.Values[i])
						}
						out = append(out, fmt.Sprintf("var|%s.%s|%s", p, n.Name, init))
					}
				}
			}
		}
	}
	sort.Strings(out)
	return g, out
}

func exprHead(e ast.Expr) string {
	switch x := e.(type) {
	case *ast.Ident:
		return x.Name
	case *ast.CallExpr:
		return exprHead(x.Fun) + "()"
	case *ast.SelectorExpr:
		return exprHead(x.X) + "." + x.Sel.Name
	case *ast.UnaryExpr:
		return x.Op.String() + exprHead(x.X)
	case *ast.CompositeLit:
		return typeStr(x.Type) + "{}"
	}
	return "expr"
}

// ---- F4/F5 ----

func misc(fs *fileSet, globals map[string]map[string]bool) []string {
	var out []string
	for _, p := range pkgs {
		for _, f := range fs.files[p] {
			for _, imp := range f.Imports {
				if strings.Contains(imp.Path.Value, "sync") || strings.Contains(imp.Path.Value, "unsafe") {
					out = append(out, fmt.Sprintf("import|%s|%s", p, strings.Trim(imp.Path.Value, "\"")))
				}
			}
			ast.Inspect(f, func(n ast.Node) bool {
				if _, ok := n.(*ast.GoStmt); ok {
					out = append(out, fmt.Sprintf("go-stmt|%s", p))
				}
				return true
			})
			for _, d := range f.Decls {
				fd, ok := d.(*ast.FuncDecl)
				if !ok || fd.Body == nil {
					continue
				}
				// F4: the default pair hash touches no package-level variable
				if p == "tree" && fd.Name.Name == "sha256Combi" {
					uses := map[string]bool{}
					ast.Inspect(fd.Body, func(n ast.Node) bool {
						if id, ok := n.(*ast.Ident); ok && globals["tree"][id.Name] {
							uses[id.Name] = true
						}
						return true
					})
					var us []string
					for u := range uses {
						us = append(us, u)
					}
					sort.Strings(us)
					out = append(out, fmt.Sprintf("hash-globals|sha256Combi|%s", strings.Join(us, ",")))
				}
				// F5: Copy methods of backed views clear the hook
				if p == "view" && fd.Name.Name == "Copy" && fd.Recv != nil {
					recv := typeStr(fd.Recv.List[0].Type)
					class := "other"
					ast.Inspect(fd.Body, func(n ast.Node) bool {
						switch s := n.(type) {
						case *ast.AssignStmt:
							for i, l := range s.Lhs {
								if sel, ok := l.(*ast.SelectorExpr); ok && sel.Sel.Name == "Hook" && i < len(s.Rhs) {
									if id, ok := s.Rhs[i].(*ast.Ident); ok && id.Name == "nil" {
										class = "hook-cleared"
									}
								}
							}
						case *ast.CallExpr:
							if sel, ok := s.Fun.(*ast.SelectorExpr); ok && sel.Sel.Name == "ViewFromBacking" && len(s.Args) == 2 {
								if id, ok := s.Args[1].(*ast.Ident); ok && id.Name == "nil" {
									class = "hook-cleared"
								}
							}
						}
						return true
					})
					if class == "other" && !strings.HasPrefix(recv, "*") {
						class = "value-receiver"
					}
					out = append(out, fmt.Sprintf("copy|%s|%s", recv, class))
				}
			}
		}
	}
	sort.Strings(out)
	return out
}

func leanList(name string, xs []string) string {
	var sb strings.Builder
	fmt.Fprintf(&sb, "def %s : List String := [\n", name)
	for i, x := range xs {
		sep := ","
		if i == len(xs)-1 {
			sep = ""
		}
		fmt.Fprintf(&sb, "  %q%s\n", x, sep)
	}
	sb.WriteString("]\n")
	return sb.String()
}

func main() {
	repo := "/repo"
	if len(os.Args) > 1 {
		repo = os.Args[1]
	}
	fs := load(repo)
	globals, vars := globalVars(fs)
	consts := constants(fs)
	sites, detail := mutationSites(fs, globals)
	ms := misc(fs, globals)
	if len(os.Args) > 2 && os.Args[2] == "--detail" {
		for _, d := range detail {
			fmt.Println(d)
		}
		return
	}
	if len(os.Args) > 2 && os.Args[2] == "--expected" {
		fmt.Println("/- written by `factx /repo --expected` on the repaired tree; reviewed by hand -/")
		fmt.Println("namespace ZtypV.FactsExpected")
		fmt.Print(leanList("consts", consts))
		fmt.Print(leanList("sites", sites))
		fmt.Print(leanList("vars", vars))
		fmt.Print(leanList("misc", ms))
		fmt.Println("end ZtypV.FactsExpected")
		return
	}
	fmt.Println("import ZtypV.FactsExpected")
	fmt.Println("namespace Generated")
	fmt.Print(leanList("consts", consts))
	fmt.Print(leanList("sites", sites))
	fmt.Print(leanList("vars", vars))
	fmt.Print(leanList("misc", ms))
	// Direction of each comparison (what a change must NOT do for the hand model to stay valid):
	//   consts: every constant the model was written against still exists with the same value
	//           (new constants are harmless);
	//   sites:  no NEW kind of in-place write (a removed write site is harmless);
	//   vars:   no NEW package-level variable other than error values (errors.New / fmt.Errorf);
	//   misc:   no NEW line other than a Copy() that clears the hook / has a value receiver, and
	//           every expected Copy()/hash-binding line still holds.
	fmt.Println("def benignVar (s : String) : Bool := s.endsWith \"|errors.New()\" || s.endsWith \"|fmt.Errorf()\"")
	fmt.Println("def benignMisc (s : String) : Bool := s.startsWith \"copy|\" && (s.endsWith \"|hook-cleared\" || s.endsWith \"|value-receiver\")")
	fmt.Println("def ok_consts : Bool := ZtypV.FactsExpected.consts.all (fun x => consts.contains x)")
	fmt.Println("def ok_sites : Bool := sites.all (fun x => ZtypV.FactsExpected.sites.contains x)")
	fmt.Println("def ok_vars : Bool := vars.all (fun x => ZtypV.FactsExpected.vars.contains x || benignVar x)")
	fmt.Println("def ok_misc : Bool := misc.all (fun x => ZtypV.FactsExpected.misc.contains x || benignMisc x) && (ZtypV.FactsExpected.misc.all (fun x => misc.contains x))")
	for _, n := range []string{"consts", "sites", "vars", "misc"} {
		fmt.Printf("#eval IO.println s!\"FACT-DIFF %s new={%s.filter (fun x => !ZtypV.FactsExpected.%s.contains x)} missing={ZtypV.FactsExpected.%s.filter (fun x => !%s.contains x)}\"\n", n, n, n, n, n)
		fmt.Printf("example : ok_%s = true := by decide\n", n)
		fmt.Printf("#eval IO.println (if ok_%s then \"FACT-OK %s\" else \"FACT-FAIL %s\")\n", n, n, n)
	}
	fmt.Println("end Generated")
}
