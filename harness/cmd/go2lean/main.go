// Command go2lean translates the small pure integer functions of ztyp (tree/bitlen.go,
// tree/gindex.go, bitfields/*.go) from Go source to Lean 4 definitions and emits, for each
// of them, a theorem stating that the translation equals the hand-written model function
// (ZtypV.Model.Bits64 / ZtypV.Model.Bitfields) for ALL arguments.  The runner regenerates
// and re-checks the file on every run, so any edit of those Go functions (constant,
// operator, shift amount, comparison, order of steps) breaks a Lean obligation.
//
//	go2lean <repo-path> [tree|bitfields ...]  > Tie.lean ;  cd /verif/lean && lake env lean Tie.lean
//	(exit code 0 and one `TIE-OK <pkg>.<name>` line per `#tie_ok` command in Tie.lean)
//
// Supported Go subset: unsigned machine integers and bool; constants (evaluated by go/types,
// so iota and untyped constant arithmetic follow the Go spec exactly); + - * & | ^ &^ << >>,
// / and % by a non-zero constant, unary ^ and !, comparisons, && ||; conversions between
// unsigned widths; calls of other functions of the same package; `if` (with init statement,
// early return, else); := = op= ++ -- on locals, parameters, named results and fields of a
// struct receiver; `(T, error)` / `error` results (-> Except, messages ignored).
// Statement lists become nested `let`/`if` expressions; an `if` without return that assigns
// outer variables x,y becomes `let s := if c then (…; (x, y)) else (x, y)`.
// ANYTHING else makes the tool exit non-zero naming the construct: an unsupported construct
// means the static tie is broken and must not be skipped silently.
package main

import (
	"fmt"
	"go/ast"
	"go/constant"
	"go/importer"
	"go/parser"
	"go/token"
	"go/types"
	"os"
	"path/filepath"
	"strings"
)

// ---- what to translate and which model function it is tied to ----

type pkgCfg struct {
	name       string
	files      []string
	errT, errV string // Lean type / value standing for "a non-nil Go error" in this package's model
}

var pkgCfgs = []pkgCfg{
	{"tree", []string{"bitlen.go", "gindex.go"}, "ZtypV.Bits64.GErr", "ZtypV.Bits64.GErr.err"},
	{"bitfields", []string{"bitfield.go", "bitlist.go", "bitvector.go"}, "ZtypV.Bitfields.Err", "ZtypV.Bitfields.Err.err"},
}

type target struct {
	pkg, fn string // fn is "Func" or "Recv.Method"
	model   string // hand-written model function
	rhs     string // optional: right-hand side of the tie over the generated parameter names
}

var consts = []target{ // package-level constants with a named counterpart in the model
	{"tree", "mask0", "ZtypV.Bits64.mask0", ""}, {"tree", "mask1", "ZtypV.Bits64.mask1", ""},
	{"tree", "mask2", "ZtypV.Bits64.mask2", ""}, {"tree", "mask3", "ZtypV.Bits64.mask3", ""},
	{"tree", "mask4", "ZtypV.Bits64.mask4", ""}, {"tree", "mask5", "ZtypV.Bits64.mask5", ""},
	{"tree", "bit0", "ZtypV.Bits64.bit0", ""}, {"tree", "bit1", "ZtypV.Bits64.bit1", ""},
	{"tree", "bit2", "ZtypV.Bits64.bit2", ""}, {"tree", "bit3", "ZtypV.Bits64.bit3", ""},
	{"tree", "bit4", "ZtypV.Bits64.bit4", ""}, {"tree", "bit5", "ZtypV.Bits64.bit5", ""},
}

var targets = []target{
	{"tree", "BitIndex", "ZtypV.Bits64.bitIndex", ""},
	{"tree", "BitLength", "ZtypV.Bits64.bitLength", ""},
	{"tree", "CoverDepth", "ZtypV.Bits64.coverDepth", ""},
	{"tree", "Gindex64.Subtree", "ZtypV.Bits64.subtree", ""},
	{"tree", "Gindex64.Anchor", "ZtypV.Bits64.anchor", ""},
	{"tree", "Gindex64.Left", "ZtypV.Bits64.left", ""},
	{"tree", "Gindex64.Right", "ZtypV.Bits64.right", ""},
	{"tree", "Gindex64.Parent", "ZtypV.Bits64.parent", ""},
	{"tree", "Gindex64.IsLeft", "ZtypV.Bits64.isLeft", ""},
	{"tree", "Gindex64.IsRoot", "ZtypV.Bits64.isRoot", ""},
	{"tree", "Gindex64.IsClose", "ZtypV.Bits64.isClose", ""},
	{"tree", "Gindex64.Depth", "ZtypV.Bits64.depth", ""},
	{"tree", "ToGindex64", "ZtypV.Bits64.toGindex64", ""},
	// state in (the receiver's fields), state and results out
	{"tree", "Gindex64BitIter.Next", "ZtypV.Bits64.BitIter.next",
		"(let r := ZtypV.Bits64.BitIter.next { marker := iter_Marker, gindex := iter_Gindex }; ((r.1.marker, r.1.gindex), r.2))"},
	{"bitfields", "BitIndex", "ZtypV.Bitfields.bitIndex", ""},
	{"bitfields", "BitlistCheckByteLen", "ZtypV.Bitfields.bitlistCheckByteLen", ""},
	{"bitfields", "BitlistCheckLastByte", "ZtypV.Bitfields.bitlistCheckLastByte", ""},
	{"bitfields", "BitvectorCheckByteLen", "ZtypV.Bitfields.bitvectorCheckByteLen", ""},
	{"bitfields", "BitvectorCheckLastByte", "ZtypV.Bitfields.bitvectorCheckLastByte", ""},
}

// ---- failure: loud, with source position ----

var fset = token.NewFileSet()

func fail(n ast.Node, format string, a ...interface{}) {
	pos := ""
	if n != nil {
		pos = fset.Position(n.Pos()).String() + ": "
	}
	fmt.Fprintf(os.Stderr, "go2lean: UNSUPPORTED %s%s\n", pos, fmt.Sprintf(format, a...))
	os.Exit(2)
}

// ---- one Go package ----

type pkg struct {
	cfg   pkgCfg
	tp    *types.Package
	info  *types.Info
	decls map[string]*ast.FuncDecl // "Func" / "Recv.Method"
	done  map[string]*fn
	cdone map[string]bool
	out   *strings.Builder // Lean definitions, callee before caller
}

func loadPkg(repo string, cfg pkgCfg) *pkg {
	p := &pkg{cfg: cfg, decls: map[string]*ast.FuncDecl{}, done: map[string]*fn{}, cdone: map[string]bool{}, out: &strings.Builder{}}
	var files []*ast.File
	for _, name := range cfg.files {
		f, err := parser.ParseFile(fset, filepath.Join(repo, cfg.name, name), nil, 0)
		if err != nil {
			fail(nil, "parse error: %v", err)
		}
		files = append(files, f)
		for _, d := range f.Decls {
			if fd, ok := d.(*ast.FuncDecl); ok {
				key := fd.Name.Name
				if fd.Recv != nil {
					rt := fd.Recv.List[0].Type
					if st, ok := rt.(*ast.StarExpr); ok {
						rt = st.X
					}
					key = rt.(*ast.Ident).Name + "." + key
				}
				p.decls[key] = fd
			}
		}
	}
	p.info = &types.Info{Types: map[ast.Expr]types.TypeAndValue{}, Defs: map[*ast.Ident]types.Object{}, Uses: map[*ast.Ident]types.Object{}}
	conf := types.Config{Importer: importer.ForCompiler(fset, "source", nil)}
	tp, err := conf.Check(cfg.name, fset, files, p.info)
	if err != nil {
		fail(nil, "package %s (files %v) does not type-check on its own: %v", cfg.name, cfg.files, err)
	}
	p.tp = tp
	return p
}

// leanType maps a Go type to a Lean type ("" if unsupported).
func leanType(t types.Type) string {
	if b, ok := t.Underlying().(*types.Basic); ok {
		switch b.Kind() {
		case types.Uint8:
			return "UInt8"
		case types.Uint16:
			return "UInt16"
		case types.Uint32:
			return "UInt32"
		case types.Uint64:
			return "UInt64"
		case types.Bool:
			return "Bool"
		}
	}
	return ""
}

func width(lt string) string { return strings.TrimPrefix(lt, "UInt") }

func isUntyped(t types.Type) bool {
	b, ok := t.(*types.Basic)
	return ok && b.Info()&types.IsUntyped != 0
}

var leanKeywords = map[string]bool{"end": true, "at": true, "from": true, "have": true, "show": true, "then": true,
	"fun": true, "do": true, "in": true, "open": true, "local": true, "where": true, "with": true, "by": true,
	"s": true /* used for the state tuple */, "instance": true, "def": true, "theorem": true, "match": true,
	"let": true, "if": true, "else": true, "namespace": true, "section": true, "variable": true, "deriving": true}

func leanName(s string) string {
	if leanKeywords[s] {
		return s + "'"
	}
	return s
}

// literal renders a Go constant value at a Go type.
func literal(n ast.Node, v constant.Value, t types.Type) string {
	lt := leanType(t)
	if lt == "" {
		fail(n, "constant of type %v", t)
	}
	if lt == "Bool" {
		return fmt.Sprint(constant.BoolVal(v))
	}
	u, exact := constant.Uint64Val(constant.ToInt(v))
	if !exact {
		fail(n, "constant %v does not fit an unsigned 64-bit integer", v)
	}
	if u < 256 {
		return fmt.Sprintf("(%d : %s)", u, lt)
	}
	return fmt.Sprintf("(0x%X : %s)", u, lt)
}

// constRef emits (once) `def <pkg>_<name>` for a typed package-level constant and returns its name.
func (p *pkg) constRef(n ast.Node, c *types.Const) string {
	name := p.cfg.name + "_" + c.Name()
	if !p.cdone[c.Name()] {
		p.cdone[c.Name()] = true
		fmt.Fprintf(p.out, "def %s : %s := %s\n\n", name, leanType(c.Type()), literal(n, c.Val(), c.Type()))
	}
	return name
}

// ---- one function ----

type fn struct {
	p        *pkg
	d        *ast.FuncDecl
	lname    string            // Lean name
	params   []string          // "(x : T)" binders
	args     []string          // parameter names
	declared map[string]bool   // every name ever declared in the function (shadowing is refused)
	fields   map[string]string // receiver field "recv.F" -> local name
	state    []string          // locals holding the fields of a pointer receiver (returned as new state)
	stateT   []string
	named    []string // named results
	resT     []string // Lean types of the value results ("" = interface, taken from the returned expression)
	hasErr   bool     // last result is `error`
}

func (f *fn) typeOf(e ast.Expr) types.Type { return f.p.info.Types[e].Type }

func (f *fn) declare(id *ast.Ident) string {
	if id.Name == "_" {
		fail(id, "blank identifier")
	}
	if f.declared[id.Name] {
		fail(id, "redeclaration/shadowing of %q", id.Name)
	}
	f.declared[id.Name] = true
	return leanName(id.Name)
}

// lvalue returns the Lean local that a Go variable expression denotes ("" if it is not one).
func (f *fn) lvalue(e ast.Expr) string {
	switch x := e.(type) {
	case *ast.ParenExpr:
		return f.lvalue(x.X)
	case *ast.Ident:
		if v, ok := f.p.info.Uses[x].(*types.Var); ok && !v.IsField() && v.Parent() != f.p.tp.Scope() && f.declared[x.Name] {
			return leanName(x.Name)
		}
	case *ast.SelectorExpr:
		if r, ok := x.X.(*ast.Ident); ok {
			return f.fields[r.Name+"."+x.Sel.Name]
		}
	}
	return ""
}

var arith = map[token.Token]string{token.ADD: "+", token.SUB: "-", token.MUL: "*", token.AND: "&&&", token.OR: "|||", token.XOR: "^^^"}
var ordered = map[token.Token]string{token.LSS: "<", token.LEQ: "≤", token.GTR: ">", token.GEQ: "≥"}

// binary translates `x op y` whose (operand) type is t; also used for `x op= y`.
func (f *fn) binary(n ast.Node, op token.Token, x, y ast.Expr, t types.Type) string {
	lt := leanType(t)
	if lt == "" || lt == "Bool" {
		fail(n, "operator %v at type %v", op, t)
	}
	switch op {
	case token.SHL, token.SHR: // Go: a count >= width gives 0 -> guard helpers Generated.Go.shlN / shrN
		name := map[token.Token]string{token.SHL: "shl", token.SHR: "shr"}[op] + width(lt)
		ctv := f.p.info.Types[y]
		var cnt string
		if b, ok := ctv.Type.Underlying().(*types.Basic); ok && ctv.Value != nil && (isUntyped(ctv.Type) || b.Kind() == types.Uint || b.Kind() == types.Int) {
			u, exact := constant.Uint64Val(constant.ToInt(ctv.Value)) // untyped constant count
			if !exact {
				fail(y, "shift count %v", ctv.Value)
			}
			cnt = fmt.Sprint(u)
		} else if ct := leanType(ctv.Type); ct != "" && ct != "Bool" {
			cnt = f.expr(y, nil) + ".toNat"
		} else {
			fail(y, "shift count of type %v (signed counts can panic)", ctv.Type)
		}
		return fmt.Sprintf("(%s %s %s)", name, f.expr(x, t), cnt)
	case token.QUO, token.REM: // Go panics on a zero divisor: only non-zero constants are accepted
		if v := f.p.info.Types[y].Value; v == nil || constant.Sign(v) == 0 {
			fail(n, "division by a non-constant or zero divisor")
		}
		return fmt.Sprintf("(%s %s %s)", f.expr(x, t), map[token.Token]string{token.QUO: "/", token.REM: "%"}[op], f.expr(y, t))
	case token.AND_NOT:
		return fmt.Sprintf("(%s &&& ~~~%s)", f.expr(x, t), f.expr(y, t))
	}
	if s, ok := arith[op]; ok {
		return fmt.Sprintf("(%s %s %s)", f.expr(x, t), s, f.expr(y, t))
	}
	fail(n, "binary operator %v", op)
	return ""
}

// expr translates a value expression; hint is the type an untyped constant takes here.
func (f *fn) expr(e ast.Expr, hint types.Type) string {
	tv, ok := f.p.info.Types[e]
	if !ok {
		fail(e, "expression without type information")
	}
	t := tv.Type
	if b, ok := t.(*types.Basic); ok && b.Kind() == types.UntypedBool {
		t = types.Typ[types.Bool] // comparisons yield an untyped bool
	} else if isUntyped(t) {
		if hint == nil {
			fail(e, "untyped constant without a context type")
		}
		t = hint
	}
	if tv.Value != nil { // constant expression: evaluated by go/types
		if id, ok := ast.Unparen(e).(*ast.Ident); ok {
			if c, ok := f.p.info.Uses[id].(*types.Const); ok && c.Parent() == f.p.tp.Scope() && !isUntyped(c.Type()) {
				return f.p.constRef(e, c)
			}
		}
		return literal(e, tv.Value, t)
	}
	switch x := e.(type) {
	case *ast.ParenExpr:
		return f.expr(x.X, hint)
	case *ast.Ident, *ast.SelectorExpr:
		if lv := f.lvalue(e); lv != "" && leanType(t) != "" {
			return lv
		}
		fail(e, "identifier/selector %s of type %v is not a local integer variable", types.ExprString(e), t)
	case *ast.UnaryExpr:
		switch {
		case x.Op == token.XOR && leanType(t) != "Bool" && leanType(t) != "":
			return "(~~~" + f.expr(x.X, t) + ")"
		case x.Op == token.NOT:
			return "(!" + f.expr(x.X, t) + ")"
		}
		fail(e, "unary operator %v at type %v", x.Op, t)
	case *ast.BinaryExpr:
		if x.Op == token.LAND || x.Op == token.LOR { // operands are total, so short-circuiting is unobservable
			return fmt.Sprintf("(%s %s %s)", f.expr(x.X, t), x.Op, f.expr(x.Y, t))
		}
		if s, ok := ordered[x.Op]; ok {
			a, b := f.cmpOperands(x)
			return fmt.Sprintf("(decide (%s %s %s))", a, s, b)
		}
		if x.Op == token.EQL || x.Op == token.NEQ {
			a, b := f.cmpOperands(x)
			return fmt.Sprintf("(%s %s %s)", a, x.Op, b)
		}
		return f.binary(e, x.Op, x.X, x.Y, t)
	case *ast.CallExpr:
		return f.call(x, t)
	}
	fail(e, "expression %T", e)
	return ""
}

func (f *fn) cmpOperands(x *ast.BinaryExpr) (string, string) {
	ot := f.typeOf(x.X)
	if isUntyped(ot) {
		ot = f.typeOf(x.Y)
	}
	if leanType(ot) == "" {
		fail(x, "comparison at type %v", ot)
	}
	return f.expr(x.X, ot), f.expr(x.Y, ot)
}

// cond translates an `if` condition: an ordered comparison stays a proposition (as in the models).
func (f *fn) cond(e ast.Expr) string {
	if x, ok := ast.Unparen(e).(*ast.BinaryExpr); ok {
		if s, ok := ordered[x.Op]; ok {
			a, b := f.cmpOperands(x)
			return fmt.Sprintf("%s %s %s", a, s, b)
		}
	}
	return f.expr(e, nil)
}

func (f *fn) call(x *ast.CallExpr, t types.Type) string {
	if ftv := f.p.info.Types[x.Fun]; ftv.IsType() { // conversion between unsigned widths
		if len(x.Args) != 1 {
			fail(x, "conversion with %d arguments", len(x.Args))
		}
		from, to := leanType(f.typeOf(x.Args[0])), leanType(ftv.Type)
		if from == "" || to == "" || from == "Bool" || to == "Bool" || isUntyped(f.typeOf(x.Args[0])) {
			fail(x, "conversion %v -> %v", f.typeOf(x.Args[0]), ftv.Type)
		}
		if from == to {
			return f.expr(x.Args[0], nil)
		}
		return f.expr(x.Args[0], nil) + ".to" + to
	}
	id, ok := x.Fun.(*ast.Ident)
	if !ok {
		fail(x, "call of %s (only plain functions of the same package)", types.ExprString(x.Fun))
	}
	obj, ok := f.p.info.Uses[id].(*types.Func)
	if !ok || obj.Pkg() != f.p.tp {
		fail(x, "call of %s (only plain functions of the same package)", id.Name)
	}
	callee := f.p.translate(id.Name, x)
	if callee.hasErr || len(callee.resT) != 1 || len(callee.state) != 0 {
		fail(x, "call of %s inside an expression: it must have exactly one non-error result", id.Name)
	}
	sig := obj.Type().(*types.Signature)
	s := "(" + callee.lname
	for i, a := range x.Args {
		s += " " + f.expr(a, sig.Params().At(i).Type())
	}
	return s + ")"
}

// tuple renders (a, b, c); a single component stays bare; none is ().
func tuple(xs []string) string {
	if len(xs) == 1 {
		return xs[0]
	}
	return "(" + strings.Join(xs, ", ") + ")"
}

// proj renders the i-th of n components of the (right-nested) tuple s.
func proj(s string, i, n int) string {
	for k := 0; k < i; k++ {
		s += ".2"
	}
	if i < n-1 {
		s += ".1"
	}
	return s
}

// assigned lists, in order of first assignment, the outer variables a block assigns.
func (f *fn) assigned(stmts []ast.Stmt) (vars []string) {
	seen, local := map[string]bool{}, map[string]bool{}
	add := func(e ast.Expr) {
		lv := f.lvalue(e) // "" for block-local or illegal targets: the translation of the body deals with those
		if lv != "" && !seen[lv] && !local[lv] {
			seen[lv] = true
			vars = append(vars, lv)
		}
	}
	for _, s := range stmts {
		ast.Inspect(s, func(n ast.Node) bool {
			switch x := n.(type) {
			case *ast.AssignStmt:
				for _, l := range x.Lhs {
					if id, ok := l.(*ast.Ident); ok && x.Tok == token.DEFINE {
						local[leanName(id.Name)] = true
					} else {
						add(l)
					}
				}
			case *ast.IncDecStmt:
				add(x.X)
			}
			return true
		})
	}
	return vars
}

func hasReturn(stmts []ast.Stmt) (found bool) {
	for _, s := range stmts {
		ast.Inspect(s, func(n ast.Node) bool {
			_, r := n.(*ast.ReturnStmt)
			found = found || r
			return true
		})
	}
	return
}

// terminates: every path through the statement list ends in a return.
func terminates(stmts []ast.Stmt) bool {
	if len(stmts) == 0 {
		return false
	}
	switch x := stmts[len(stmts)-1].(type) {
	case *ast.ReturnStmt:
		return true
	case *ast.IfStmt:
		if eb, ok := x.Else.(*ast.BlockStmt); ok {
			return terminates(x.Body.List) && terminates(eb.List)
		}
	}
	return false
}

func offEnd(string) string { fail(nil, "control reaches the end of a terminating block"); return "" }

// block translates a statement list; k renders what follows when control falls off its end.
func (f *fn) block(stmts []ast.Stmt, ind string, k func(ind string) string) string {
	if len(stmts) == 0 {
		return k(ind)
	}
	rest := stmts[1:]
	switch s := stmts[0].(type) {
	case *ast.ReturnStmt:
		if len(rest) != 0 {
			fail(rest[0], "statement after return")
		}
		return ind + f.ret(s) + "\n"
	case *ast.AssignStmt:
		if len(s.Lhs) != 1 || len(s.Rhs) != 1 {
			fail(s, "parallel assignment")
		}
		var name, val string
		t := f.typeOf(s.Rhs[0])
		switch s.Tok {
		case token.DEFINE:
			id, ok := s.Lhs[0].(*ast.Ident)
			if !ok {
				fail(s, "definition of a non-identifier")
			}
			t = f.p.info.Defs[id].Type()
			val = f.expr(s.Rhs[0], t) // before declaring: the right-hand side cannot mention the new name
			name = f.declare(id)
		case token.ASSIGN:
			name, t = f.lvalue(s.Lhs[0]), f.typeOf(s.Lhs[0])
			val = f.expr(s.Rhs[0], t)
		default: // op=
			ops := map[token.Token]token.Token{token.ADD_ASSIGN: token.ADD, token.SUB_ASSIGN: token.SUB, token.MUL_ASSIGN: token.MUL,
				token.QUO_ASSIGN: token.QUO, token.REM_ASSIGN: token.REM, token.AND_ASSIGN: token.AND, token.OR_ASSIGN: token.OR,
				token.XOR_ASSIGN: token.XOR, token.SHL_ASSIGN: token.SHL, token.SHR_ASSIGN: token.SHR, token.AND_NOT_ASSIGN: token.AND_NOT}
			name, t = f.lvalue(s.Lhs[0]), f.typeOf(s.Lhs[0])
			val = f.binary(s, ops[s.Tok], s.Lhs[0], s.Rhs[0], t)
		}
		if name == "" || leanType(t) == "" {
			fail(s, "assignment to %s of type %v", types.ExprString(s.Lhs[0]), t)
		}
		return fmt.Sprintf("%slet %s : %s := %s\n", ind, name, leanType(t), val) + f.block(rest, ind, k)
	case *ast.IncDecStmt:
		name, lt := f.lvalue(s.X), leanType(f.typeOf(s.X))
		if name == "" || lt == "" || lt == "Bool" {
			fail(s, "++/-- on %s", types.ExprString(s.X))
		}
		op := map[token.Token]string{token.INC: "+", token.DEC: "-"}[s.Tok]
		return fmt.Sprintf("%slet %s : %s := (%s %s (1 : %s))\n", ind, name, lt, name, op, lt) + f.block(rest, ind, k)
	case *ast.IfStmt:
		if s.Init != nil { // `if x := e; c {…}`: x stays declared afterwards, harmless because shadowing is refused
			return f.block(append([]ast.Stmt{s.Init, &ast.IfStmt{If: s.If, Cond: s.Cond, Body: s.Body, Else: s.Else}}, rest...), ind, k)
		}
		var els []ast.Stmt
		switch e := s.Else.(type) {
		case nil:
		case *ast.BlockStmt:
			els = e.List
		default: // else if
			els = []ast.Stmt{e}
		}
		c, in := f.cond(s.Cond), ind+"  "
		if terminates(s.Body.List) { // if c { …; return } [else {A}] rest  ==>  if c then … else (A; rest)
			thn := f.block(s.Body.List, in, offEnd)
			return fmt.Sprintf("%sif %s then\n%s%selse\n%s", ind, c, thn, ind, f.block(append(append([]ast.Stmt{}, els...), rest...), ind, k))
		}
		if hasReturn(s.Body.List) || hasReturn(els) {
			fail(s, "return on some but not all paths of an if-branch")
		}
		vars := f.assigned(append(append([]ast.Stmt{}, s.Body.List...), els...))
		if len(vars) == 0 {
			fail(s, "if statement without effect")
		}
		yield := func(ind string) string { return ind + tuple(vars) + "\n" }
		out := fmt.Sprintf("%slet s := if %s then (\n%s%s) else (\n%s%s)\n", ind, c, f.block(s.Body.List, in, yield), ind, f.block(els, in, yield), ind)
		if len(vars) == 1 {
			out = strings.Replace(out, "let s :=", "let "+vars[0]+" :=", 1)
		} else {
			for i, v := range vars {
				out += fmt.Sprintf("%slet %s := %s\n", ind, v, proj("s", i, len(vars)))
			}
		}
		return out + f.block(rest, ind, k)
	}
	fail(stmts[0], "statement %T", stmts[0])
	return ""
}

// ret translates a return statement into the function's result value.
func (f *fn) ret(s *ast.ReturnStmt) string {
	results := f.d.Type.Results.List
	var sig []types.Type
	for _, r := range results {
		for i := 0; i < names(r); i++ {
			sig = append(sig, f.typeOf(r.Type))
		}
	}
	var vals []string
	isErr := false
	if len(s.Results) == 0 { // bare return: the named results
		if len(f.named) == 0 || f.hasErr {
			fail(s, "bare return")
		}
		vals = append(vals, f.named...)
	} else {
		if len(s.Results) != len(sig) {
			fail(s, "return of a multi-value call")
		}
		nv := len(sig)
		if f.hasErr {
			nv--
			isErr = f.errorValue(s.Results[nv])
		}
		for i, e := range s.Results[:nv] {
			et := f.typeOf(e)
			if isUntyped(et) || f.resT[i] != "" {
				et = sig[i]
			}
			lt := leanType(et)
			if lt == "" {
				fail(e, "result of type %v", et)
			}
			if f.resT[i] == "" { // interface result: every return must give the same concrete integer type
				f.resT[i] = lt
			} else if f.resT[i] != lt {
				fail(e, "results of different concrete types %s / %s", f.resT[i], lt)
			}
			if isErr { // the value next to a non-nil error is not observable in the model: insist it is the zero value
				if v := f.p.info.Types[e].Value; v == nil || constant.Compare(v, token.NEQ, constant.MakeInt64(0)) {
					fail(e, "non-zero value returned together with an error")
				}
				continue
			}
			vals = append(vals, f.expr(e, et))
		}
	}
	v := tuple(vals)
	if len(f.state) > 0 { // pointer receiver: new state first
		v = "(" + tuple(f.state) + ", " + v + ")"
	}
	switch {
	case isErr:
		return "Except.error " + f.p.cfg.errV
	case f.hasErr:
		return "Except.ok " + v
	}
	return v
}

// errorValue classifies the error operand of a return: nil (false) or a freshly made error (true).
func (f *fn) errorValue(e ast.Expr) bool {
	if id, ok := e.(*ast.Ident); ok && id.Name == "nil" && f.p.info.Uses[id] == types.Universe.Lookup("nil") {
		return false
	}
	if c, ok := e.(*ast.CallExpr); ok {
		if name := types.ExprString(c.Fun); name == "fmt.Errorf" || name == "errors.New" {
			for _, a := range c.Args { // arguments only feed the message: insist they are literals/variables
				switch ast.Unparen(a).(type) {
				case *ast.BasicLit, *ast.Ident:
				default:
					fail(a, "non-trivial argument of %s", name)
				}
			}
			return true
		}
	}
	fail(e, "error result %s (only nil, fmt.Errorf(…), errors.New(…))", types.ExprString(e))
	return false
}

// translate emits the Lean definition of function `key` (once) after those it calls.
func (p *pkg) translate(key string, at ast.Node) *fn {
	if f, ok := p.done[key]; ok {
		if f == nil {
			fail(at, "recursive function %s", key)
		}
		return f
	}
	d := p.decls[key]
	if d == nil || d.Body == nil {
		fail(at, "function %s.%s not found in %v", p.cfg.name, key, p.cfg.files)
	}
	p.done[key] = nil
	f := &fn{p: p, d: d, lname: p.cfg.name + "_" + strings.ReplaceAll(key, ".", "_"), declared: map[string]bool{}, fields: map[string]string{}}
	param := func(id *ast.Ident, t types.Type) {
		if leanType(t) == "" {
			fail(id, "parameter %s of type %v", id.Name, t)
		}
		name := f.declare(id)
		f.params, f.args = append(f.params, fmt.Sprintf("(%s : %s)", name, leanType(t))), append(f.args, name)
	}
	if d.Type.TypeParams != nil {
		fail(d, "generic function")
	}
	if d.Recv != nil { // receiver: an integer, or a (pointer to a) struct of integers passed field by field
		r := d.Recv.List[0]
		if len(r.Names) != 1 {
			fail(d, "anonymous receiver")
		}
		rt := p.info.Defs[r.Names[0]].Type()
		ptr, isPtr := rt.(*types.Pointer)
		if isPtr {
			rt = ptr.Elem()
		}
		if st, ok := rt.Underlying().(*types.Struct); ok {
			f.declare(r.Names[0])
			for i := 0; i < st.NumFields(); i++ {
				fld := st.Field(i)
				name, lt := leanName(r.Names[0].Name+"_"+fld.Name()), leanType(fld.Type())
				if lt == "" || f.declared[name] {
					fail(d, "receiver field %s of type %v", fld.Name(), fld.Type())
				}
				f.declared[name] = true
				f.fields[r.Names[0].Name+"."+fld.Name()] = name
				f.params, f.args = append(f.params, fmt.Sprintf("(%s : %s)", name, lt)), append(f.args, name)
				if isPtr {
					f.state, f.stateT = append(f.state, name), append(f.stateT, lt)
				}
			}
		} else if isPtr {
			fail(d, "pointer receiver of non-struct type %v", rt)
		} else {
			param(r.Names[0], rt)
		}
	}
	for _, g := range d.Type.Params.List {
		if len(g.Names) == 0 {
			fail(g, "unnamed parameter")
		}
		for _, id := range g.Names {
			param(id, p.info.Defs[id].Type())
		}
	}
	if d.Type.Results == nil {
		fail(d, "function without results")
	}
	body := ""
	for i, r := range d.Type.Results.List {
		t := p.info.Types[r.Type].Type
		if i == len(d.Type.Results.List)-1 && types.Identical(t, types.Universe.Lookup("error").Type()) {
			if len(r.Names) != 0 {
				fail(r, "named error result")
			}
			f.hasErr = true
			continue
		}
		lt := leanType(t)
		if _, isIface := t.Underlying().(*types.Interface); lt == "" && !(isIface && len(r.Names) == 0) {
			fail(r, "result of type %v", t)
		}
		for j := 0; j < names(r); j++ {
			f.resT = append(f.resT, lt)
		}
		for _, id := range r.Names { // named results start at their zero value
			name := f.declare(id)
			f.named = append(f.named, name)
			zero := "0"
			if lt == "Bool" {
				zero = "false"
			}
			body += fmt.Sprintf("  let %s : %s := %s\n", name, lt, zero)
		}
	}
	if !terminates(d.Body.List) {
		fail(d, "function body does not end in a return")
	}
	body += f.block(d.Body.List, "  ", offEnd)
	for _, lt := range f.resT {
		if lt == "" {
			fail(d, "could not determine the result type")
		}
	}
	res := strings.Join(f.resT, " × ")
	if len(f.resT) == 0 {
		res = "Unit"
	} else if len(f.resT) > 1 {
		res = "(" + res + ")"
	}
	if len(f.state) > 0 {
		res = "((" + strings.Join(f.stateT, " × ") + ") × " + res + ")"
	}
	if f.hasErr {
		res = "Except " + p.cfg.errT + " " + res
	}
	fmt.Fprintf(p.out, "/-- %s.%s (%s) -/\ndef %s %s : %s :=\n%s\n", p.cfg.name, key, filepath.Base(fset.Position(d.Pos()).Filename),
		f.lname, strings.Join(f.params, " "), res, body)
	p.done[key] = f
	return f
}

func main() {
	if len(os.Args) < 2 {
		fmt.Fprintln(os.Stderr, "usage: go2lean <repo-path> [package ...]   (packages: tree bitfields; default both)")
		os.Exit(2)
	}
	want := map[string]bool{}
	for _, a := range os.Args[2:] {
		want[a] = true
	}
	var defs, ties strings.Builder
	for _, cfg := range pkgCfgs {
		if len(os.Args) > 2 && !want[cfg.name] {
			continue
		}
		delete(want, cfg.name)
		p := loadPkg(os.Args[1], cfg)
		for _, t := range targets {
			if t.pkg != cfg.name {
				continue
			}
			f := p.translate(t.fn, nil)
			rhs := t.rhs
			if rhs == "" {
				rhs = t.model + " " + strings.Join(f.args, " ")
			}
			tac := fmt.Sprintf("go2lean_tie %s %s", f.lname, t.model)
			if len(f.params) == 1 && strings.HasSuffix(f.params[0], ": UInt8)") {
				// a function of one byte: if unfolding does not show the equality, all 256 inputs
				// are evaluated by the kernel (a finite table is a proof, not a sample)
				tac = fmt.Sprintf("go2lean_tie8 %s %s %s", f.lname, t.model, f.args[0])
			}
			fmt.Fprintf(&ties, "@[go2lean_ties] theorem %s_eq %s :\n    %s %s = %s := by\n  %s\n#tie_ok %s_eq \"%s.%s\"\n\n",
				f.lname, strings.Join(f.params, " "), f.lname, strings.Join(f.args, " "), rhs, tac, f.lname, t.pkg, t.fn)
		}
		for _, c := range consts { // named constants: tie those the functions use, refuse silently vanished ones
			if c.pkg != cfg.name {
				continue
			}
			obj, ok := p.tp.Scope().Lookup(c.fn).(*types.Const)
			if !ok || isUntyped(obj.Type()) {
				fail(nil, "typed constant %s.%s not found", c.pkg, c.fn)
			}
			name := p.constRef(nil, obj)
			fmt.Fprintf(&ties, "theorem %s_eq : %s = %s := by decide\n#tie_ok %s_eq \"%s.%s\"\n\n", name, name, c.model, name, c.pkg, c.fn)
		}
		defs.WriteString(p.out.String())
	}
	for name := range want {
		fail(nil, "unknown package %q", name)
	}
	fmt.Printf("-- GENERATED by harness/cmd/go2lean from %s — do not edit.\n", os.Args[1])
	fmt.Println("import ZtypV.Model.Bits64\nimport ZtypV.Model.Bitfields\nimport ZtypV.Proofs.Go2LeanTie")
	fmt.Print("set_option linter.unusedVariables false\n\nnamespace Generated.Go\n\n")
	fmt.Print(defs.String())
	fmt.Print("/-! ### ties: the translation of the current Go source equals the hand-written model -/\n\n")
	fmt.Print(ties.String())
	fmt.Println("end Generated.Go")
}

// names: how many results a result-list entry declares
func names(r *ast.Field) int {
	if len(r.Names) == 0 {
		return 1
	}
	return len(r.Names)
}
