package main

// C19: text/JSON number and hex conversions (conv package and the views' Text/JSON methods).
//
// Texts travel as hex tokens `x<hex of the bytes>` (whitespace-safe).  Ops:
//
//	cv.ujson <w> <xtext>     unmarshal the JSON form      -> ok <n> | err
//	cv.utext <w> <xtext>     unmarshal the text form      -> ok <n> | err
//	cv.mjson <w> <n>         marshal the JSON form        -> ok <xtext>
//	cv.mtext <w> <n>         marshal the text form        -> ok <xtext>
//	cv.rt    <w> <n>         marshal then unmarshal, both forms -> ok <n via JSON> <n via text>
//	cv.fixhex <dstLen> <xtext>  FixedBytesUnmarshalText   -> ok <xbytes> | err
//	cv.dynhex <xtext>           DynamicBytesUnmarshalText -> ok <xbytes> | err
//	cv.bytesm <xbytes>          BytesMarshalText          -> ok <xtext>
//	cv.hexrt  <xbytes>          marshal then fixed-size unmarshal -> ok <xbytes>
//
// w is 8, 16, 32, 64 or 256.  Every op goes through all public routes that reach the same
// conv function (conv.*, view.UintNView methods, RootView / SmallByteVecView / tree.Root);
// if two routes disagree the observation is `routes-differ …`, which no model output equals.

import (
	"bufio"
	"encoding/hex"
	"fmt"
	"math/big"
	"strings"

	"github.com/holiman/uint256"
	"github.com/protolambda/ztyp/conv"
	"github.com/protolambda/ztyp/tree"
	"github.com/protolambda/ztyp/view"
)

func init() {
	registerExec("cv.ujson", execCvUjson)
	registerExec("cv.utext", execCvUtext)
	registerExec("cv.mjson", execCvMjson)
	registerExec("cv.mtext", execCvMtext)
	registerExec("cv.rt", execCvRt)
	registerExec("cv.fixhex", execCvFixhex)
	registerExec("cv.dynhex", execCvDynhex)
	registerExec("cv.bytesm", execCvBytesm)
	registerExec("cv.hexrt", execCvHexrt)
	registerGen("C19", genC19)
}

func cvText(tok string) []byte {
	if !strings.HasPrefix(tok, "x") {
		panic("bad text token " + tok)
	}
	b, err := hex.DecodeString(tok[1:])
	if err != nil {
		panic(err)
	}
	return b
}

func cvTok(b []byte) string { return "x" + hex.EncodeToString(b) }

func cvBig(tok string) *big.Int {
	n, ok := new(big.Int).SetString(tok, 10)
	if !ok {
		panic("bad number " + tok)
	}
	return n
}

// value of a uint256 from its limbs (independent of the library's formatting)
func cvU256Dec(z *uint256.Int) string {
	r := new(big.Int)
	for i := 3; i >= 0; i-- {
		r.Lsh(r, 64)
		r.Or(r, new(big.Int).SetUint64(z[i]))
	}
	return r.String()
}

func cvU256FromBig(n *big.Int) *uint256.Int {
	var z uint256.Int
	m := new(big.Int).Set(n)
	mask := new(big.Int).SetUint64(^uint64(0))
	for i := 0; i < 4; i++ {
		z[i] = new(big.Int).And(m, mask).Uint64()
		m.Rsh(m, 64)
	}
	return &z
}

func cvAgree(rs ...string) string {
	for _, r := range rs[1:] {
		if r != rs[0] {
			return "routes-differ " + strings.Join(rs, " | ")
		}
	}
	return rs[0]
}

func cvObsNum(err error, n string) string {
	if err != nil {
		return "err"
	}
	return "ok " + n
}

const cvSentinel = 0xA5

func cvUnmarshalJSON(w string, b []byte) string {
	in := func() []byte { return append([]byte(nil), b...) }
	switch w {
	case "8":
		x := uint8(cvSentinel)
		e1 := conv.Uint8Unmarshal(&x, in())
		y := view.Uint8View(cvSentinel)
		e2 := y.UnmarshalJSON(in())
		return cvAgree(cvObsNum(e1, fmt.Sprint(x)), cvObsNum(e2, fmt.Sprint(uint8(y))))
	case "16":
		x := uint16(cvSentinel)
		e1 := conv.Uint16Unmarshal(&x, in())
		y := view.Uint16View(cvSentinel)
		e2 := y.UnmarshalJSON(in())
		return cvAgree(cvObsNum(e1, fmt.Sprint(x)), cvObsNum(e2, fmt.Sprint(uint16(y))))
	case "32":
		x := uint32(cvSentinel)
		e1 := conv.Uint32Unmarshal(&x, in())
		y := view.Uint32View(cvSentinel)
		e2 := y.UnmarshalJSON(in())
		return cvAgree(cvObsNum(e1, fmt.Sprint(x)), cvObsNum(e2, fmt.Sprint(uint32(y))))
	case "64":
		x := uint64(cvSentinel)
		e1 := conv.Uint64Unmarshal(&x, in())
		y := view.Uint64View(cvSentinel)
		e2 := y.UnmarshalJSON(in())
		return cvAgree(cvObsNum(e1, fmt.Sprint(x)), cvObsNum(e2, fmt.Sprint(uint64(y))))
	case "256":
		x := cvSentinel256() // a reused destination: every limb holds stale data
		e1 := conv.Uint256Unmarshal(&x, in())
		y := view.Uint256View(cvSentinel256())
		e2 := y.UnmarshalJSON(in())
		return cvAgree(cvObsNum(e1, cvU256Dec(&x)), cvObsNum(e2, cvU256Dec((*uint256.Int)(&y))))
	}
	panic("bad width " + w)
}

func cvSentinel256() uint256.Int {
	return uint256.Int{cvSentinel, cvSentinel + 1, cvSentinel + 2, cvSentinel + 3}
}

func cvUnmarshalText(w string, b []byte) string {
	in := func() []byte { return append([]byte(nil), b...) }
	switch w {
	case "8":
		y := view.Uint8View(cvSentinel)
		return cvObsNum(y.UnmarshalText(in()), fmt.Sprint(uint8(y)))
	case "16":
		y := view.Uint16View(cvSentinel)
		return cvObsNum(y.UnmarshalText(in()), fmt.Sprint(uint16(y)))
	case "32":
		y := view.Uint32View(cvSentinel)
		return cvObsNum(y.UnmarshalText(in()), fmt.Sprint(uint32(y)))
	case "64":
		y := view.Uint64View(cvSentinel)
		return cvObsNum(y.UnmarshalText(in()), fmt.Sprint(uint64(y)))
	case "256":
		y := view.Uint256View(cvSentinel256())
		return cvObsNum(y.UnmarshalText(in()), cvU256Dec((*uint256.Int)(&y)))
	}
	panic("bad width " + w)
}

func cvObsText(b []byte, err error) string {
	if err != nil {
		return "err"
	}
	retainNote(b)
	return "ok " + cvTok(b)
}

// the number must fit the width (generator guarantees it); it is converted exactly
func cvMarshalJSON(w string, n *big.Int) string {
	switch w {
	case "8":
		v := uint8(n.Uint64())
		return cvAgree(cvObsText(conv.Uint8Marshal(v)), cvObsText(view.Uint8View(v).MarshalJSON()))
	case "16":
		v := uint16(n.Uint64())
		return cvAgree(cvObsText(conv.Uint16Marshal(v)), cvObsText(view.Uint16View(v).MarshalJSON()))
	case "32":
		v := uint32(n.Uint64())
		return cvAgree(cvObsText(conv.Uint32Marshal(v)), cvObsText(view.Uint32View(v).MarshalJSON()))
	case "64":
		v := n.Uint64()
		return cvAgree(cvObsText(conv.Uint64Marshal(v)), cvObsText(view.Uint64View(v).MarshalJSON()))
	case "256":
		z := cvU256FromBig(n)
		return cvAgree(cvObsText(conv.Uint256Marshal(z)), cvObsText(view.Uint256View(*z).MarshalJSON()))
	}
	panic("bad width " + w)
}

func cvMarshalText(w string, n *big.Int) string {
	switch w {
	case "8":
		return cvObsText(view.Uint8View(uint8(n.Uint64())).MarshalText())
	case "16":
		return cvObsText(view.Uint16View(uint16(n.Uint64())).MarshalText())
	case "32":
		return cvObsText(view.Uint32View(uint32(n.Uint64())).MarshalText())
	case "64":
		return cvObsText(view.Uint64View(n.Uint64()).MarshalText())
	case "256":
		return cvObsText(view.Uint256View(*cvU256FromBig(n)).MarshalText())
	}
	panic("bad width " + w)
}

func cvCheckFits(w string, n *big.Int) {
	bits := map[string]int{"8": 8, "16": 16, "32": 32, "64": 64, "256": 256}[w]
	if bits == 0 || n.Sign() < 0 || n.BitLen() > bits {
		panic("number does not fit width")
	}
}

func execCvUjson(st *State, args []string) string { return cvUnmarshalJSON(args[0], cvText(args[1])) }
func execCvUtext(st *State, args []string) string { return cvUnmarshalText(args[0], cvText(args[1])) }
func execCvMjson(st *State, args []string) string {
	n := cvBig(args[1])
	cvCheckFits(args[0], n)
	return cvMarshalJSON(args[0], n)
}
func execCvMtext(st *State, args []string) string {
	n := cvBig(args[1])
	cvCheckFits(args[0], n)
	return cvMarshalText(args[0], n)
}

func execCvRt(st *State, args []string) string {
	n := cvBig(args[1])
	cvCheckFits(args[0], n)
	j := cvMarshalJSON(args[0], n)
	t := cvMarshalText(args[0], n)
	if !strings.HasPrefix(j, "ok ") || !strings.HasPrefix(t, "ok ") {
		return "err"
	}
	rj := cvUnmarshalJSON(args[0], cvText(j[3:]))
	rt := cvUnmarshalText(args[0], cvText(t[3:]))
	if !strings.HasPrefix(rj, "ok ") || !strings.HasPrefix(rt, "ok ") {
		return "err"
	}
	return "ok " + rj[3:] + " " + rt[3:]
}

func cvObsBytes(err error, b []byte) string {
	if err != nil {
		return "err"
	}
	return "ok " + cvTok(b)
}

func cvFixhex(n int, text []byte) string {
	in := func() []byte { return append([]byte(nil), text...) }
	fill := func(b []byte) []byte {
		for i := range b {
			b[i] = cvSentinel
		}
		return b
	}
	dst := fill(make([]byte, n))
	rs := []string{cvObsBytes(conv.FixedBytesUnmarshalText(dst, in()), dst)}
	sv := view.SmallByteVecView(fill(make([]byte, n)))
	rs = append(rs, cvObsBytes(sv.UnmarshalText(in()), sv))
	if n == 32 {
		var rv view.RootView
		fill(rv[:])
		rs = append(rs, cvObsBytes(rv.UnmarshalText(in()), rv[:]))
		var tr tree.Root
		fill(tr[:])
		rs = append(rs, cvObsBytes(tr.UnmarshalText(in()), tr[:]))
	}
	return cvAgree(rs...)
}

func execCvFixhex(st *State, args []string) string {
	p := &parser{toks: args}
	n := int(p.num())
	return cvFixhex(n, cvText(p.next()))
}

func execCvDynhex(st *State, args []string) string {
	text := cvText(args[0])
	// one call: the input text must not be written to, and the result must not live in the input
	// buffer (the caller may recycle the text once the call has returned)
	call := func(d *[]byte) string {
		in := append([]byte(nil), text...)
		e := conv.DynamicBytesUnmarshalText(d, in)
		r := cvObsBytes(e, *d)
		if string(in) != string(text) {
			r += " input-text-changed"
		}
		for i := range in {
			in[i] = 'z'
		}
		if cvObsBytes(e, *d) != r && string(in) != "" && !strings.HasSuffix(r, "input-text-changed") {
			r += " result-aliases-input-text"
		}
		return r
	}
	// nil destination, a too small one and a large one (reuse path)
	var d1 []byte
	r1 := call(&d1)
	d2 := make([]byte, 1, 1)
	r2 := call(&d2)
	d3 := make([]byte, 3, 100)
	r3 := call(&d3)
	return cvAgree(r1, r2, r3)
}

func cvBytesm(b []byte) string {
	rs := []string{cvObsText(conv.BytesMarshalText(b)), cvObsText(view.SmallByteVecView(b).MarshalText())}
	rs = append(rs, "ok "+cvTok([]byte(conv.BytesString(b))))
	if len(b) == 32 {
		var rv view.RootView
		copy(rv[:], b)
		rs = append(rs, cvObsText(rv.MarshalText()))
		var tr tree.Root
		copy(tr[:], b)
		rs = append(rs, cvObsText(tr.MarshalText()))
		rs = append(rs, "ok "+cvTok([]byte(tr.String())))
	}
	return cvAgree(rs...)
}

func execCvBytesm(st *State, args []string) string { return cvBytesm(cvText(args[0])) }

func execCvHexrt(st *State, args []string) string {
	b := cvText(args[0])
	m := cvBytesm(b)
	if !strings.HasPrefix(m, "ok ") {
		return "err"
	}
	return cvFixhex(len(b), cvText(m[3:]))
}

// ---------------------------------------------------------------- generator

var cvWidths = []string{"8", "16", "32", "64", "256"}
var cvBits = []int{8, 16, 32, 64, 256}

func cvPow2(k int) *big.Int { return new(big.Int).Lsh(big.NewInt(1), uint(k)) }

func cvRandBig(g *Gen, bits int) *big.Int {
	if bits <= 0 {
		return big.NewInt(0)
	}
	b := g.Bytes((bits + 7) / 8)
	r := new(big.Int).SetBytes(b)
	return r.Mod(r, cvPow2(bits))
}

// insert underscores between characters of digits (legal placement: never first, never last,
// never doubled)
func cvUnderscores(g *Gen, digits string) string {
	if len(digits) < 2 {
		return digits
	}
	var sb strings.Builder
	for i := 0; i < len(digits); i++ {
		if i > 0 && g.Chance(30) {
			sb.WriteByte('_')
		}
		sb.WriteByte(digits[i])
	}
	return sb.String()
}

func cvMixCase(g *Gen, s string) string {
	b := []byte(s)
	for i := range b {
		if b[i] >= 'a' && b[i] <= 'z' && g.Bool() {
			b[i] -= 32
		}
	}
	return string(b)
}

// all renderings of v as a Go literal: base prefix forms, cases, legal underscores
func cvLegalForms(g *Gen, v *big.Int) []string {
	dec, bin, oct, hx := v.Text(10), v.Text(2), v.Text(8), v.Text(16)
	fs := []string{
		dec,
		"0b" + bin, "0B" + bin,
		"0o" + oct, "0O" + oct, "0" + oct,
		"0x" + hx, "0X" + hx, "0x" + strings.ToUpper(hx), "0X" + strings.ToUpper(hx), "0x" + cvMixCase(g, hx),
		// leading zeros (legal after a prefix; a leading 0 on a decimal makes it octal)
		"0b000" + bin, "0o00" + oct, "000" + oct, "0x000" + hx,
		// underscores
		cvUnderscores(g, dec),
		"0b_" + cvUnderscores(g, bin), "0b" + cvUnderscores(g, bin),
		"0o_" + cvUnderscores(g, oct), "0_" + cvUnderscores(g, oct), "0" + cvUnderscores(g, oct),
		"0x_" + cvUnderscores(g, hx), "0X" + cvUnderscores(g, cvMixCase(g, hx)),
	}
	return fs
}

// malformed / non-literal variants derived from a legal literal
func cvIllegalForms(g *Gen, lit string) []string {
	ins := func(s string, i int, x string) string { return s[:i] + x + s[i:] }
	p := g.Intn(len(lit) + 1)
	fs := []string{
		"_" + lit, lit + "_", ins(lit, p, "__"), ins(lit, p, "_"),
		"-" + lit, "+" + lit, "--" + lit, "+-" + lit, lit + "-",
		" " + lit, lit + " ", "\t" + lit, lit + "\n", ins(lit, p, " "),
		"'" + lit + "'", "\"" + lit, lit + "\"", "\"\"" + lit + "\"\"", "\"" + lit + "\" ", " \"" + lit + "\"",
		ins(lit, p, "g"), ins(lit, p, "z"), ins(lit, p, "9"), ins(lit, p, "8"), ins(lit, p, "2"), ins(lit, p, "a"), ins(lit, p, "F"),
		ins(lit, p, "."), ins(lit, p, "e1"), ins(lit, p, "\x00"), ins(lit, p, "\xff"), ins(lit, p, "\xc3\xa9"),
		lit + "x", lit + "b", lit + "o", "0" + lit, "00" + lit, "0x" + lit, "0b" + lit, "0o" + lit,
		ins(lit, p, "/"), ins(lit, p, ":"), ins(lit, p, "@"), ins(lit, p, "["), ins(lit, p, "`"), ins(lit, p, "{"),
	}
	if len(lit) >= 2 {
		fs = append(fs, ins(lit, 1, "_"), lit[:1], lit[:2], lit[:len(lit)-1], lit[1:])
	}
	return fs
}

func cvEmitUnmarshal(out *bufio.Writer, g *Gen, text string, allWidths bool, quoteToo bool) {
	tok := cvTok([]byte(text))
	qtok := cvTok([]byte("\"" + text + "\""))
	pick := g.Intn(len(cvWidths))
	for i, w := range cvWidths {
		if !allWidths && i != pick {
			continue
		}
		fmt.Fprintf(out, "cv.ujson %s %s\n", w, tok)
		fmt.Fprintf(out, "cv.utext %s %s\n", w, tok)
		if quoteToo {
			fmt.Fprintf(out, "cv.ujson %s %s\n", w, qtok)
			fmt.Fprintf(out, "cv.utext %s %s\n", w, qtok)
		}
	}
}

func cvEmitMarshal(out *bufio.Writer, w string, n *big.Int) {
	fmt.Fprintf(out, "cv.mjson %s %s\n", w, n)
	fmt.Fprintf(out, "cv.mtext %s %s\n", w, n)
	fmt.Fprintf(out, "cv.rt %s %s\n", w, n)
}

func cvBoundaryValues(bits int) []*big.Int {
	one := big.NewInt(1)
	m := cvPow2(bits)
	max := new(big.Int).Sub(m, one)
	vs := []*big.Int{
		big.NewInt(0), big.NewInt(1), big.NewInt(7), big.NewInt(8), big.NewInt(9), big.NewInt(10), big.NewInt(15), big.NewInt(16),
		big.NewInt(99), big.NewInt(100), big.NewInt(101),
		new(big.Int).Div(max, big.NewInt(3)), new(big.Int).Div(max, big.NewInt(10)), new(big.Int).Add(new(big.Int).Div(max, big.NewInt(10)), one),
		cvPow2(bits - 1), new(big.Int).Sub(cvPow2(bits-1), one),
		new(big.Int).Sub(max, one), max, m, new(big.Int).Add(m, one),
		new(big.Int).Mul(m, big.NewInt(2)), new(big.Int).Mul(m, big.NewInt(10)), new(big.Int).Add(new(big.Int).Mul(m, big.NewInt(16)), big.NewInt(5)),
		new(big.Int).Mul(m, m),
	}
	return vs
}

// the corpus of /repo/conv/numbers_test.go (TestUintUnmarshal, TestUintMarshal)
func cvEmitTestCorpus(out *bufio.Writer) {
	type tc struct {
		str string
		w   int
		ok  bool
	}
	var cases []tc
	for bitSize := 8; bitSize <= 64; bitSize *= 2 {
		max := new(big.Int).Sub(cvPow2(bitSize), big.NewInt(1))
		outOfRange := cvPow2(bitSize)
		third := new(big.Int).Div(max, big.NewInt(3))
		for _, form := range []string{"%d", "%#b", "%#o", "%#O", "%#x", "%#X"} {
			cases = append(cases,
				tc{fmt.Sprintf(form, big.NewInt(0)), bitSize, true},
				tc{fmt.Sprintf(form, big.NewInt(1)), bitSize, true},
				tc{fmt.Sprintf(form, third), bitSize, true},
				tc{fmt.Sprintf(form, max), bitSize, true},
				tc{fmt.Sprintf(form, outOfRange), bitSize, false})
		}
		for _, v := range []*big.Int{big.NewInt(0), big.NewInt(1), third, max} {
			fmt.Fprintf(out, "cv.mjson %d %s\n", bitSize, v)
			fmt.Fprintf(out, "cv.mtext %d %s\n", bitSize, v)
		}
	}
	for _, c := range cases {
		cases = append(cases, tc{"-" + c.str, c.w, false})
	}
	for _, c := range cases {
		cases = append(cases,
			tc{"\"" + c.str + "\"", c.w, c.ok},
			tc{"\"" + c.str, c.w, false},
			tc{"'" + c.str + "'", c.w, false})
		if c.ok {
			cases = append(cases, tc{c.str + "\"", c.w, false})
		}
	}
	for bitSize := 8; bitSize <= 64; bitSize *= 2 {
		cases = append(cases, tc{"", bitSize, false})
	}
	for _, c := range cases {
		fmt.Fprintf(out, "cv.ujson %d %s\n", c.w, cvTok([]byte(c.str)))
		fmt.Fprintf(out, "cv.utext %d %s\n", c.w, cvTok([]byte(c.str)))
		// the same inputs against the 256-bit path
		fmt.Fprintf(out, "cv.ujson 256 %s\n", cvTok([]byte(c.str)))
	}
}

const cvHexChars = "0123456789abcdefABCDEF"

func cvRandHexText(g *Gen, n int) []byte {
	b := make([]byte, n)
	for i := range b {
		b[i] = cvHexChars[g.Intn(len(cvHexChars))]
	}
	return b
}

// characters adjacent to the hex digit ranges, prefix letters, separators, non-ASCII
var cvNonHex = []byte{'g', 'G', 'x', 'X', ' ', '_', 0x00, 0xff, '/', ':', '@', '`', '\n', '"', 0x80, 'O', '-'}

func cvEmitHex(out *bufio.Writer, g *Gen, text []byte, dsts []int) {
	tok := cvTok(text)
	for _, d := range dsts {
		if d >= 0 {
			fmt.Fprintf(out, "cv.fixhex %d %s\n", d, tok)
		}
	}
	fmt.Fprintf(out, "cv.dynhex %s\n", tok)
}

func genC19(g *Gen, tier string, out *bufio.Writer) {
	thorough := tier == "thorough"

	// 1. fixed corpus of conv/numbers_test.go
	cvEmitTestCorpus(out)

	// 2. exhaustive uint8 / uint16: marshal, unmarshal, both forms
	for v := 0; v < 256; v++ {
		cvEmitMarshal(out, "8", big.NewInt(int64(v)))
	}
	phase := g.Intn(97)
	for v := 0; v < 65536; v++ {
		fmt.Fprintf(out, "cv.rt 16 %d\n", v)
		if thorough || v%97 == phase || v < 300 || v > 65500 {
			fmt.Fprintf(out, "cv.mjson 16 %d\n", v)
			fmt.Fprintf(out, "cv.mtext 16 %d\n", v)
		}
	}
	// every uint8 / (sampled) uint16 value in every base form, against every width
	for v := 0; v < 256; v++ {
		for _, f := range cvLegalForms(g, big.NewInt(int64(v))) {
			cvEmitUnmarshal(out, g, f, thorough || v < 20 || v > 250, v%16 == 0)
		}
	}
	step := 257
	if thorough {
		step = 1
	}
	for v := int(g.Intn(step)); v < 65536+300; v += step {
		for _, f := range cvLegalForms(g, big.NewInt(int64(v))) {
			fmt.Fprintf(out, "cv.ujson 16 %s\n", cvTok([]byte(f)))
			fmt.Fprintf(out, "cv.utext 16 %s\n", cvTok([]byte(f)))
		}
	}

	// 3. boundary and random values of every width: marshal/round trip when they fit,
	//    all literal forms (legal and illegal) against all widths
	nRandom := 6
	if thorough {
		nRandom = 30
	}
	for wi, w := range cvWidths {
		bits := cvBits[wi]
		vals := cvBoundaryValues(bits)
		for i := 0; i < nRandom; i++ {
			vals = append(vals, cvRandBig(g, bits), cvRandBig(g, 1+g.Intn(bits)), cvRandBig(g, bits+1+g.Intn(9)))
		}
		for _, v := range vals {
			if v.BitLen() <= bits {
				cvEmitMarshal(out, w, v)
			}
			forms := cvLegalForms(g, v)
			for _, f := range forms {
				cvEmitUnmarshal(out, g, f, true, thorough || g.Chance(25))
			}
			// malformed neighbours of a few of the legal forms
			k := 2
			if thorough {
				k = 6
			}
			for i := 0; i < k; i++ {
				lit := forms[g.Intn(len(forms))]
				for _, f := range cvIllegalForms(g, lit) {
					cvEmitUnmarshal(out, g, f, thorough, g.Chance(10))
				}
			}
		}
	}

	// 4. decimal texts of 2^k-1, 2^k, 2^k+1 for k up to 264: crosses the range of every width
	for k := 0; k <= 264; k++ {
		for _, d := range []int64{-1, 0, 1} {
			v := new(big.Int).Add(cvPow2(k), big.NewInt(d))
			cvEmitUnmarshal(out, g, v.Text(10), true, k%8 == 0)
			if thorough {
				cvEmitUnmarshal(out, g, "0x"+v.Text(16), true, false)
				cvEmitUnmarshal(out, g, "0b"+v.Text(2), true, false)
				cvEmitUnmarshal(out, g, "0"+v.Text(8), true, false)
			}
		}
	}
	// random decimal digit strings of every length up to 80 digits (2^264 has 80 digits)
	for n := 1; n <= 80; n++ {
		reps := 1
		if thorough {
			reps = 10
		}
		for r := 0; r < reps; r++ {
			b := make([]byte, n)
			for i := range b {
				b[i] = byte('0' + g.Intn(10))
			}
			if b[0] == '0' && g.Chance(80) {
				b[0] = '1'
			}
			cvEmitUnmarshal(out, g, string(b), true, r == 0)
		}
	}

	// 5. special texts
	specials := []string{"", "\"", "\"\"", "\"\"\"", "\"\"\"\"", "'", "''", " ", "0", "00", "0_0", "0_", "_0", "_", "__", "0x", "0X", "0b", "0o", "0x_", "0b_", "0o_",
		"0x__1", "0_x1", "_0x1", "0x1_", "0x_1", "0b2", "0o8", "08", "09", "0xg", "0XG", "1_", "1__2", "1_2_3", "1_2__3", "-0", "+0", "-1", "+1", "-", "+", "-_1", "+0x1", "-0x0", "-0b0", "-00", "- 0",
		"0x0x1", "0b0b1", "0B1", "0O7", "0X_f", "0xF_f", "0e0", "1e3", "1.0", "0.", ".0", "0x1p3", "null", "true", "NaN", "Inf", "1,000", "１", "٣", "0x１", "\"-0\"", "\"+5\"", "\"0x10\"", "\"010\"", "\" 1\"", "\"1 \"", "\"1\"\"", "\"\"1\"", "\"1\"x", "x\"1\"",
		"\"0\"", "\"_\"", "\"0_\"", "\"0b\"", "255", "256", "0377", "0400", "0xff", "0x100", "0b11111111", "0b100000000", "0o377", "0o400"}
	for _, s := range specials {
		cvEmitUnmarshal(out, g, s, true, true)
	}
	// random short texts over a literal-ish alphabet
	alphabet := []byte("0123456789abcdefxXbBoO_+-\" 7f")
	nRand := 1500
	if thorough {
		nRand = 40000
	}
	for i := 0; i < nRand; i++ {
		n := 1 + g.Intn(7)
		b := make([]byte, n)
		for j := range b {
			b[j] = alphabet[g.Intn(len(alphabet))]
		}
		if g.Chance(50) {
			b[0] = '0'
		}
		cvEmitUnmarshal(out, g, string(b), g.Chance(20), false)
	}
	// every single byte, alone and after "0", "0x", "1"
	for c := 0; c < 256; c++ {
		for _, pre := range []string{"", "0", "0x", "1", "0x1", "1_"} {
			cvEmitUnmarshal(out, g, pre+string([]byte{byte(c)}), c%32 == 0, false)
		}
	}

	// 6. hex: every text length 0..80, with and without prefix, odd lengths, non-hex characters
	for L := 0; L <= 80; L++ {
		pres := []string{"", "0x", "0X", "0x0x", "x", "0", "00"}
		if L <= 8 || L%8 == 0 || thorough {
			// every pairing of prefix spellings, stray prefix letters, prefixes in other positions
			pres = append(pres, "0x0X", "0X0x", "0X0X", "0x0x0x", "X", "0xx", "0xX", "0Xx", "x0", "0x0", "00x", "0x ", " 0x", "0x-", "0x+", "\\x")
		}
		for _, pre := range pres {
			body := cvRandHexText(g, L)
			text := append([]byte(pre), body...)
			n := len(text)
			dsts := []int{L / 2, L/2 + 1, L/2 - 1, n / 2, (n - 2) / 2, 32, 0, 1}
			cvEmitHex(out, g, text, dsts)
			if len(body) > 0 {
				// a non-hex character at every position class: first, second, middle, last but one, last
				poss := []int{0, 1 % L, L / 2, (L + L - 2) % L, L - 1}
				for _, p := range poss {
					bad := append([]byte(nil), body...)
					bad[p] = cvNonHex[g.Intn(len(cvNonHex))]
					cvEmitHex(out, g, append([]byte(pre), bad...), []int{L / 2, (L + 1) / 2, 32})
				}
			}
			if thorough && L > 0 && L <= 48 {
				for p := 0; p < L; p++ {
					for _, c := range cvNonHex {
						bad := append([]byte(nil), body...)
						bad[p] = c
						cvEmitHex(out, g, append([]byte(pre), bad...), []int{L / 2})
					}
				}
			}
		}
	}
	// every single byte as a hex character (first and second of a pair)
	for c := 0; c < 256; c++ {
		cvEmitHex(out, g, []byte{byte(c), '0'}, []int{1})
		cvEmitHex(out, g, []byte{'a', byte(c)}, []int{1})
		cvEmitHex(out, g, []byte{'0', 'x', byte(c), 'F'}, []int{1, 2})
		cvEmitHex(out, g, []byte{byte(c)}, []int{0, 1})
	}
	// bytes -> text -> bytes
	for n := 0; n <= 48; n++ {
		reps := 2
		if thorough {
			reps = 20
		}
		if n == 32 {
			reps *= 5
		}
		for r := 0; r < reps; r++ {
			b := g.Bytes(n)
			fmt.Fprintf(out, "cv.bytesm %s\n", cvTok(b))
			fmt.Fprintf(out, "cv.hexrt %s\n", cvTok(b))
		}
	}
	for c := 0; c < 256; c++ {
		fmt.Fprintf(out, "cv.hexrt %s\n", cvTok([]byte{byte(c)}))
	}
}
