package main

// Property C20, flat side: bytes allocated by one FLAT decode call.
//
//   fl.mem T x<bytes>  -> ok <alloc> <outcome>      outcome = ok | err | panic
//
// A fresh destination struct (newFlat, what a downstream user declares) is built OUTSIDE the
// measured window; measured is `runtime.MemStats.TotalAlloc` around exactly one
// flatDecodeInto(dest, bytes) (codec.NewDecodingReader + Deserialize), GC off, second run
// (the first run warms up lazily initialised runtime structures).
//
// Generator C20f: flat types with a variable-size top level; valid encodings, corruptions, and
// extreme offset words in front of list / vector / container / union encodings with huge limits
// (same word table as genC20 of ops_misc.go).

import (
	"bufio"
	"fmt"
	"runtime"
	"runtime/debug"
)

func init() {
	registerExec("fl.mem", execFlMem)
	registerGen("C20f", genC20f)
}

func execFlMem(st *State, a []string) string {
	p := &parser{toks: a}
	t := p.ty()
	bs := unhex(p.next())
	run := func() (uint64, string) {
		f := newFlat(t)
		var m0, m1 runtime.MemStats
		old := debug.SetGCPercent(-1)
		defer debug.SetGCPercent(old)
		runtime.ReadMemStats(&m0)
		outcome := "ok"
		func() {
			defer func() {
				if r := recover(); r != nil {
					outcome = "panic"
				}
			}()
			if err := flatDecodeInto(f, bs); err != nil {
				outcome = "err"
			}
		}()
		runtime.ReadMemStats(&m1)
		return m1.TotalAlloc - m0.TotalAlloc, outcome
	}
	run()
	n, oc := run()
	return fmt.Sprintf("ok %d %s", n, oc)
}

func genC20f(g *Gen, tier string, w *bufio.Writer) {
	n := tierN(tier, 1500, 30000)
	o := TyOpts{}
	for i := 0; i < n; i++ {
		t := g.RandTy(1+g.Intn(3), o)
		if isFixed(t) {
			continue
		}
		v := g.RandVal(t, 80)
		bs := refSer(t, v)
		fmt.Fprintf(w, "fl.mem %s %s\n", t, hexs(bs))
		for k := 0; k < 3; k++ {
			fmt.Fprintf(w, "fl.mem %s %s\n", t, hexs(g.corrupt(bs)))
		}
	}
	// extreme offset words in front of list / vector / container / union encodings with huge limits
	u8 := &Ty{Kind: KUint, N: 1}
	inner := &Ty{Kind: KList, N: 1 << 40, Elem: u8}
	r32 := &Ty{Kind: KBytesN, N: 32}
	types := []*Ty{
		{Kind: KList, N: 1 << 40, Elem: inner},
		{Kind: KList, N: 1 << 32, Elem: &Ty{Kind: KBitlist, N: 1 << 40}},
		{Kind: KContainer, Fields: []*Ty{inner, inner}},
		{Kind: KVector, N: 3, Elem: inner},
		{Kind: KUnion, HasNone: true, Fields: []*Ty{{Kind: KList, N: 1 << 40, Elem: inner}}},
		{Kind: KList, N: 1 << 40, Elem: &Ty{Kind: KContainer, Fields: []*Ty{u8, inner}}},
		{Kind: KList, N: 1 << 40, Elem: &Ty{Kind: KUint, N: 8}},
		{Kind: KList, N: 1 << 40, Elem: r32},
		{Kind: KList, N: 1 << 40, Elem: &Ty{Kind: KList, N: 1 << 40, Elem: r32}},
		{Kind: KList, N: 1 << 40, Elem: u8},
		{Kind: KBitlist, N: 1 << 40},
	}
	words := []uint32{0, 1, 4, 8, 12, 16, 0x100, 0x10000, 0x1000000, 0x3ffffffc, 0x40000000, 0x7ffffffc, 0x80000000, 0xfffffffc, 0xffffffff}
	for _, t := range types {
		for _, a := range words {
			for _, b := range words {
				bs := make([]byte, 12)
				bs[0], bs[1], bs[2], bs[3] = byte(a), byte(a>>8), byte(a>>16), byte(a>>24)
				bs[4], bs[5], bs[6], bs[7] = byte(b), byte(b>>8), byte(b>>16), byte(b>>24)
				fmt.Fprintf(w, "fl.mem %s %s\n", t, hexs(bs))
				fmt.Fprintf(w, "fl.mem %s %s\n", t, hexs(bs[:8]))
				fmt.Fprintf(w, "fl.mem %s %s\n", t, hexs(append([]byte{1}, bs...)))
			}
			bs := []byte{byte(a), byte(a >> 8), byte(a >> 16), byte(a >> 24)}
			fmt.Fprintf(w, "fl.mem %s %s\n", t, hexs(bs))
		}
	}
}
