package main

// Property C20, flat side: bytes allocated by one FLAT decode call.
//
//   fl.mem T x<bytes>  -> ok <alloc> <outcome>      outcome = ok | err | panic
//
// A fresh destination struct (newFlat, what a downstream user declares) is built OUTSIDE the
// measured window; measured is `runtime.MemStats.TotalAlloc` around exactly one
// flatDecodeInto(dest, bytes) (codec.NewDecodingReader + Deserialize), GC off, second run
// (the first run warms up lazily initialised runtime structures).
//
// Generator C20f: flat types with a variable-size top level; valid encodings, corruptions, and
// extreme offset words in front of list / vector / container / union encodings with huge limits
// (same word table as genC20 of ops_misc.go).

import (
	"bufio"
	"fmt"
	"runtime"
	"runtime/debug"
	"strconv"

	"github.com/protolambda/ztyp/tree"
)

func init() {
	registerExec("fl.mem", execFlMem)
	registerExec("fl.memr", execFlMemR)
	registerGen("C20f", genC20f)
}

func execFlMem(st *State, a []string) string { return flMem(a, 0, 0, false) }

// fl.memr <len> <cap> T x<bytes>: as fl.mem, but the destination is a recycled object: every
// byte / root slice in it (top level, container fields, union-free) has the given length and
// capacity, allocated outside the measured window.  Recycling may only lower the allocation.
func execFlMemR(st *State, a []string) string {
	n, _ := strconv.Atoi(a[0])
	c, _ := strconv.Atoi(a[1])
	return flMem(a[2:], n, c, true)
}

func flatPresize(f *flatVal, n, c int) {
	switch flatRouteOf(f.t) {
	case frRootsList, frRootsVector:
		f.roots = make([]tree.Root, n, c)
		for i := range f.roots {
			for j := range f.roots[i] {
				f.roots[i][j] = 0xEE // stale contents
			}
		}
	case frByteList, frByteVector, frBitList, frBitVector:
		f.bytes = make([]byte, n, c)
		for i := range f.bytes {
			f.bytes[i] = 0xEE
		}
	case frContainer, frFixedContainer:
		for _, e := range f.elems {
			flatPresize(e, n, c)
		}
	}
}

func flMem(a []string, preLen, preCap int, recycled bool) string {
	if memSkip() {
		return "ok 0 skipped"
	}
	p := &parser{toks: a}
	t := p.ty()
	bs := unhex(p.next())
	run := func() (uint64, string) {
		f := newFlat(t)
		if recycled {
			flatPresize(f, preLen, preCap)
		}
		var m0, m1 runtime.MemStats
		old := debug.SetGCPercent(-1)
		defer debug.SetGCPercent(old)
		runtime.ReadMemStats(&m0)
		outcome := "ok"
		func() {
			defer func() {
				if r := recover(); r != nil {
					outcome = "panic"
				}
			}()
			if err := flatDecodeInto(f, bs); err != nil {
				outcome = "err"
			}
		}()
		runtime.ReadMemStats(&m1)
		return m1.TotalAlloc - m0.TotalAlloc, outcome
	}
	if n0, oc0 := run(); n0 > memHugeBytes {
		memNote(n0)
		return fmt.Sprintf("ok %d %s", n0, oc0)
	}
	n, oc := run()
	memNote(n)
	return fmt.Sprintf("ok %d %s", n, oc)
}

func genC20f(g *Gen, tier string, w *bufio.Writer) {
	n := tierN(tier, 1500, 30000)
	o := TyOpts{}
	for i := 0; i < n; i++ {
		t := g.RandTy(1+g.Intn(3), o)
		if isFixed(t) {
			continue
		}
		v := g.RandVal(t, 80)
		bs := refSer(t, v)
		fmt.Fprintf(w, "fl.mem %s %s\n", t, hexs(bs))
		for k := 0; k < 3; k++ {
			fmt.Fprintf(w, "fl.mem %s %s\n", t, hexs(g.corrupt(bs)))
		}
	}
	// extreme offset words in front of list / vector / container / union encodings with huge limits
	u8 := &Ty{Kind: KUint, N: 1}
	inner := &Ty{Kind: KList, N: 1 << 40, Elem: u8}
	r32 := &Ty{Kind: KBytesN, N: 32}
	types := []*Ty{
		{Kind: KList, N: 1 << 40, Elem: inner},
		{Kind: KList, N: 1 << 32, Elem: &Ty{Kind: KBitlist, N: 1 << 40}},
		{Kind: KContainer, Fields: []*Ty{inner, inner}},
		{Kind: KVector, N: 3, Elem: inner},
		{Kind: KUnion, HasNone: true, Fields: []*Ty{{Kind: KList, N: 1 << 40, Elem: inner}}},
		{Kind: KList, N: 1 << 40, Elem: &Ty{Kind: KContainer, Fields: []*Ty{u8, inner}}},
		{Kind: KList, N: 1 << 40, Elem: &Ty{Kind: KUint, N: 8}},
		{Kind: KList, N: 1 << 40, Elem: r32},
		{Kind: KList, N: 1 << 40, Elem: &Ty{Kind: KList, N: 1 << 40, Elem: r32}},
		{Kind: KList, N: 1 << 40, Elem: u8},
		{Kind: KBitlist, N: 1 << 40},
	}
	words := []uint32{0, 1, 4, 8, 12, 16, 0x100, 0x10000, 0x1000000, 0x3ffffffc, 0x40000000, 0x7ffffffc, 0x80000000, 0xfffffffc, 0xffffffff}
	for _, t := range types {
		for _, a := range words {
			for _, b := range words {
				bs := make([]byte, 12)
				bs[0], bs[1], bs[2], bs[3] = byte(a), byte(a>>8), byte(a>>16), byte(a>>24)
				bs[4], bs[5], bs[6], bs[7] = byte(b), byte(b>>8), byte(b>>16), byte(b>>24)
				fmt.Fprintf(w, "fl.mem %s %s\n", t, hexs(bs))
				fmt.Fprintf(w, "fl.mem %s %s\n", t, hexs(bs[:8]))
				fmt.Fprintf(w, "fl.mem %s %s\n", t, hexs(append([]byte{1}, bs...)))
			}
			bs := []byte{byte(a), byte(a >> 8), byte(a >> 16), byte(a >> 24)}
			fmt.Fprintf(w, "fl.mem %s %s\n", t, hexs(bs))
		}
	}
	emitWrapProbes(w, "fl.mem")
	// recycled destinations: large spare capacity, short / empty / full previous length
	rl := &Ty{Kind: KList, N: 1 << 40, Elem: r32}
	bl := &Ty{Kind: KList, N: 1 << 40, Elem: u8}
	bits := &Ty{Kind: KBitlist, N: 1 << 40}
	rtypes := []*Ty{rl, bl, bits, {Kind: KVector, N: 3, Elem: r32}, {Kind: KContainer, Fields: []*Ty{rl, bl, bits}}, {Kind: KContainer, Fields: []*Ty{{Kind: KUint, N: 8}, rl}}}
	for _, t := range rtypes {
		for _, items := range []int{0, 1, 2, 3, 5, 8} {
			bs := refSer(t, flMemVal(g, t, items))
			for _, lc := range [][2]int{{0, 1 << 20}, {1, 1 << 20}, {2, 1 << 20}, {1 << 20, 1 << 20}, {0, 4}, {4, 4}, {3, 8}, {0, 0}} {
				fmt.Fprintf(w, "fl.memr %d %d %s %s\n", lc[0], lc[1], t, hexs(bs))
			}
		}
	}
}

// flMemVal: a value of t whose series all have `items` elements (vectors: their fixed length).
func flMemVal(g *Gen, t *Ty, items int) *Val {
	switch t.Kind {
	case KList:
		seq := make([]*Val, items)
		for i := range seq {
			seq[i] = g.RandVal(t.Elem, 4)
		}
		return &Val{Kind: VSeq, Seq: seq}
	case KBitlist:
		bits := make([]bool, 8*items)
		for i := range bits {
			bits[i] = g.Chance(50)
		}
		return &Val{Kind: VBits, Bits: bits}
	case KContainer:
		seq := make([]*Val, len(t.Fields))
		for i, ft := range t.Fields {
			seq[i] = flMemVal(g, ft, items)
		}
		return &Val{Kind: VSeq, Seq: seq}
	}
	return g.RandVal(t, 8)
}
