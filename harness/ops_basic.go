package main

// Op family "bv.*" (properties C02 / C09, audited with C09 as "C09b"): the BASIC VALUE API of
// package view (view/basic.go, u256.go, root.go, small_byte_vec.go) called directly.
//
// T is one of  u8 u16 u32 u64 u256 bool  B <n>.   `B n` with n != 32 is SmallByteVecMeta(n)
// (n > 32 allowed: the library must refuse), `B 32` stands for BOTH RootType/*RootView and
// SmallByteVecMeta(32): the observation of the RootView variant is followed by the one of the
// SmallByteVec variant.  V is the project's value notation (n<dec> | t | f | x<hex>).
//
//   bv.enc T V            -> ok <Encode|-> <Serialize> <ByteLength|-> <FixedLength|-> <ValueByteLength>
//                               <HashTreeRoot> <Backing root> <Type()>            ("-": method does not exist)
//   bv.meta T             -> ok <Default> <New|-> <DefaultNode root> <TypeByteLength> <Min> <Max> <IsFixed>
//   bv.dec T <scope> <x>  -> ok <Decode(x)|-> <(*T).Deserialize|-> <Meta.Deserialize> [<scope left>]
//                               each: value | err; readers over exactly x with the given scope; the
//                               destinations hold a non-zero prior value
//   bv.base T <xbase> i V -> ok <BackingFromBase|nil> <alias 0/1> <base afterwards> <read(base,i)>
//                               <k> <read(result or base, j)> for j < k
//                               read = BasicViewFromBacking (value|err) / SubViewFromBacking (t|f|nil);
//                               bool: then <BackingFromBitfieldBase> <BoolViewFromBitfieldBacking> <base afterwards>
//   bv.pack T k V…        -> ok <n> <chunk>…  | err
//   bv.frombacking T <x|P>-> ok <ViewFromBacking value|err> <node after mutating the view>   (P: a pair node)
//   bv.copy T V           -> ok <orig> <copy> <orig after mutating copy> <copy> <Backing root> <HashTreeRoot>
//                               (both taken before) <orig after mutating it> <copy> <Backing root again>

import (
	"bufio"
	"bytes"
	"fmt"
	"math/big"
	"strings"

	"github.com/holiman/uint256"
	"github.com/protolambda/ztyp/codec"
	"github.com/protolambda/ztyp/tree"
	"github.com/protolambda/ztyp/view"
)

func init() {
	registerExec("bv.enc", execBvEnc)
	registerExec("bv.meta", execBvMeta)
	registerExec("bv.dec", execBvDec)
	registerExec("bv.base", execBvBase)
	registerExec("bv.pack", execBvPack)
	registerExec("bv.frombacking", execBvFromBacking)
	registerExec("bv.copy", execBvCopy)
	registerGen("C09b", genC09b)
}

// bvVariant: which library type stands behind a type token.
type bvVariant int

const (
	bvBasic bvVariant = iota // uint / bool
	bvRoot
	bvSmall
)

func bvVariants(t *Ty) []bvVariant {
	switch t.Kind {
	case KUint, KBool:
		return []bvVariant{bvBasic}
	case KBytesN:
		if t.N == 32 {
			return []bvVariant{bvRoot, bvSmall}
		}
		return []bvVariant{bvSmall}
	}
	panic("parse: not a basic value type")
}

func bvTypeDef(t *Ty, k bvVariant) view.TypeDef {
	switch k {
	case bvRoot:
		return view.RootType
	case bvSmall:
		return view.SmallByteVecMeta(t.N)
	}
	if t.Kind == KBool {
		return view.BoolType
	}
	return view.UintMeta(t.N)
}

func bvMake(t *Ty, k bvVariant, v *Val) view.View {
	switch k {
	case bvRoot:
		var r view.RootView
		copy(r[:], v.Bytes)
		return &r
	case bvSmall:
		return view.SmallByteVecView(append([]byte{}, v.Bytes...))
	}
	if t.Kind == KBool {
		return view.BoolView(v.B)
	}
	return basicView(t, v)
}

func bvValTok(v view.View) string {
	switch x := v.(type) {
	case view.Uint8View:
		return fmt.Sprintf("n%d", uint64(x))
	case view.Uint16View:
		return fmt.Sprintf("n%d", uint64(x))
	case view.Uint32View:
		return fmt.Sprintf("n%d", uint64(x))
	case view.Uint64View:
		return fmt.Sprintf("n%d", uint64(x))
	case view.Uint256View:
		n := new(big.Int)
		for i := 3; i >= 0; i-- {
			n.Lsh(n, 64)
			n.Or(n, new(big.Int).SetUint64(x[i]))
		}
		return "n" + n.String()
	case view.BoolView:
		if x {
			return "t"
		}
		return "f"
	case *view.RootView:
		if x == nil {
			return "nil"
		}
		return hexs(x[:])
	case view.SmallByteVecView:
		return hexs(x)
	case nil:
		return "nil"
	}
	return fmt.Sprintf("?%T", v)
}

func bvTypeTok(td view.TypeDef) string {
	switch x := td.(type) {
	case view.UintMeta:
		return fmt.Sprintf("U%d", uint64(x))
	case view.BoolMeta:
		return "bool"
	case view.RootMeta:
		return "root"
	case view.SmallByteVecMeta:
		return fmt.Sprintf("S%d", uint64(x))
	}
	return fmt.Sprintf("?%T", td)
}

func rootTok(r tree.Root) string { return hexs(r[:]) }

func execBvEnc(st *State, args []string) string {
	p := &parser{toks: args}
	t := p.ty()
	v := p.val()
	var out []string
	for _, k := range bvVariants(t) {
		vw := bvMake(t, k, v)
		enc, blen, flen := "-", "-", "-"
		if e, ok := vw.(codec.Encodable); ok {
			bs, err := e.Encode()
			if err != nil {
				return "err"
			}
			enc = hexs(bs)
		}
		if e, ok := vw.(interface{ ByteLength() uint64 }); ok {
			blen = fmt.Sprint(e.ByteLength())
		}
		if e, ok := vw.(interface{ FixedLength() uint64 }); ok {
			flen = fmt.Sprint(e.FixedLength())
		}
		ser, err := serializeView(vw)
		if err != nil {
			return "err"
		}
		vbl, err := vw.ValueByteLength()
		if err != nil {
			return "err"
		}
		out = append(out, enc, hexs(ser), blen, flen, fmt.Sprint(vbl),
			rootTok(vw.HashTreeRoot(tree.Hash)), rootTok(vw.Backing().MerkleRoot(tree.Hash)), bvTypeTok(vw.Type()))
	}
	return "ok " + strings.Join(out, " ")
}

func execBvMeta(st *State, args []string) string {
	p := &parser{toks: args}
	t := p.ty()
	var out []string
	for _, k := range bvVariants(t) {
		td := bvTypeDef(t, k)
		nw := "-"
		switch x := td.(type) {
		case view.UintMeta:
			nw = bvValTok(x.New())
		case view.BoolMeta:
			nw = bvValTok(x.New())
		case view.SmallByteVecMeta:
			nw = bvValTok(x.New())
		}
		fx := 0
		if td.IsFixedByteLength() {
			fx = 1
		}
		out = append(out, bvValTok(td.Default(nil)), nw, rootTok(td.DefaultNode().MerkleRoot(tree.Hash)),
			fmt.Sprint(td.TypeByteLength()), fmt.Sprint(td.MinByteLength()), fmt.Sprint(td.MaxByteLength()), fmt.Sprint(fx))
	}
	return "ok " + strings.Join(out, " ")
}

// bvPrior: a destination holding a non-zero value.
func bvPrior(t *Ty) interface{} {
	if t.Kind == KBool {
		b := view.BoolView(true)
		return &b
	}
	switch t.N {
	case 1:
		x := view.Uint8View(0xa5)
		return &x
	case 2:
		x := view.Uint16View(0xa5a5)
		return &x
	case 4:
		x := view.Uint32View(0xa5a5a5a5)
		return &x
	case 8:
		x := view.Uint64View(0xa5a5a5a5a5a5a5a5)
		return &x
	case 32:
		x := view.Uint256View(uint256.Int{0xa5a5a5a5a5a5a5a5, 0xa5a5a5a5a5a5a5a5, 0xa5a5a5a5a5a5a5a5, 0xa5a5a5a5a5a5a5a5})
		return &x
	}
	panic("bad uint size")
}

func bvDeref(p interface{}) view.View {
	switch x := p.(type) {
	case *view.BoolView:
		return *x
	case *view.Uint8View:
		return *x
	case *view.Uint16View:
		return *x
	case *view.Uint32View:
		return *x
	case *view.Uint64View:
		return *x
	case *view.Uint256View:
		return *x
	}
	panic("bad destination")
}

func execBvDec(st *State, args []string) string {
	p := &parser{toks: args}
	t := p.ty()
	scope := p.num()
	x := unhex(p.next())
	var out []string
	for _, k := range bvVariants(t) {
		dec, des := "-", "-"
		if k == bvBasic {
			d := bvPrior(t)
			if err := d.(codec.Decodable).Decode(append([]byte{}, x...)); err != nil {
				dec = "err"
			} else {
				dec = bvValTok(bvDeref(d))
			}
			d = bvPrior(t)
			dr := codec.NewDecodingReader(bytes.NewReader(x), scope)
			if err := d.(codec.Deserializable).Deserialize(dr); err != nil {
				des = "err"
			} else {
				des = bvValTok(bvDeref(d))
			}
		}
		out = append(out, dec, des)
		dr := codec.NewDecodingReader(bytes.NewReader(x), scope)
		vw, err := bvTypeDef(t, k).Deserialize(dr)
		if err != nil {
			out = append(out, "err")
		} else {
			out = append(out, bvValTok(vw), fmt.Sprint(dr.Scope()))
		}
	}
	return "ok " + strings.Join(out, " ")
}

func root32(b []byte) tree.Root {
	if len(b) != 32 {
		panic("parse: chunk must be 32 bytes")
	}
	var r tree.Root
	copy(r[:], b)
	return r
}

func execBvBase(st *State, args []string) string {
	p := &parser{toks: args}
	t := p.ty()
	base := root32(unhex(p.next()))
	i := uint8(p.num())
	v := p.val()
	bview := bvMake(t, bvBasic, v).(view.BasicView)
	read := func(r *tree.Root, j uint8) string {
		if t.Kind == KBool {
			return bvValTok(view.BoolType.SubViewFromBacking(r, j))
		}
		w, err := view.UintMeta(t.N).BasicViewFromBacking(r, j)
		if err != nil {
			return "err"
		}
		return bvValTok(w)
	}
	var out []string
	res := bview.BackingFromBase(&base, i)
	alias := 0
	if res == &base {
		alias = 1
	}
	if res == nil {
		out = append(out, "nil")
	} else {
		out = append(out, rootTok(*res))
	}
	out = append(out, fmt.Sprint(alias), rootTok(base), read(&base, i))
	from := res
	if from == nil {
		from = &base
	}
	size := uint64(1)
	if t.Kind == KUint {
		size = t.N
	}
	k := int(32 / size)
	out = append(out, fmt.Sprint(k))
	for j := 0; j < k; j++ {
		out = append(out, read(from, uint8(j)))
	}
	if t.Kind == KBool {
		r2 := view.BoolView(v.B).BackingFromBitfieldBase(&base, i)
		bit, err := view.BoolType.BoolViewFromBitfieldBacking(&base, i)
		if err != nil || r2 == nil || r2 == &base {
			return "err"
		}
		out = append(out, rootTok(*r2), bvValTok(bit), rootTok(base))
	}
	return "ok " + strings.Join(out, " ")
}

func execBvPack(st *State, args []string) string {
	p := &parser{toks: args}
	t := p.ty()
	k := int(p.num())
	views := make([]view.BasicView, 0, k)
	for j := 0; j < k; j++ {
		views = append(views, bvMake(t, bvBasic, p.val()).(view.BasicView))
	}
	nodes, err := bvTypeDef(t, bvBasic).(view.BasicTypeDef).PackViews(views)
	if err != nil {
		return "err"
	}
	var sb strings.Builder
	fmt.Fprintf(&sb, "ok %d", len(nodes))
	for _, n := range nodes {
		sb.WriteString(" " + rootTok(n.MerkleRoot(tree.Hash)))
	}
	return sb.String()
}

func bvMutate(v view.View, first bool) {
	switch x := v.(type) {
	case *view.RootView:
		if first {
			x[0] ^= 0xff
		} else {
			x[31] ^= 0x0f
		}
	case view.SmallByteVecView:
		if len(x) > 0 {
			if first {
				x[0] ^= 0xff
			} else {
				x[len(x)-1] ^= 0x0f
			}
		}
	}
}

func execBvFromBacking(st *State, args []string) string {
	p := &parser{toks: args}
	t := p.ty()
	tok := p.next()
	var out []string
	for _, k := range bvVariants(t) {
		var node tree.Node
		if tok == "P" {
			node = tree.NewPairNode(&tree.Root{1}, &tree.Root{2})
		} else {
			r := root32(unhex(tok))
			node = &r
		}
		vw, err := bvTypeDef(t, k).ViewFromBacking(node, nil)
		if err != nil {
			out = append(out, "err")
		} else {
			out = append(out, bvValTok(vw))
			bvMutate(vw, true)
		}
		out = append(out, rootTok(node.MerkleRoot(tree.Hash)))
	}
	return "ok " + strings.Join(out, " ")
}

func execBvCopy(st *State, args []string) string {
	p := &parser{toks: args}
	t := p.ty()
	v := p.val()
	var out []string
	for _, k := range bvVariants(t) {
		orig := bvMake(t, k, v)
		c, err := orig.Copy()
		if err != nil {
			return "err"
		}
		out = append(out, bvValTok(orig), bvValTok(c))
		bvMutate(c, true)
		out = append(out, bvValTok(orig), bvValTok(c))
		b := orig.Backing()
		hr := orig.HashTreeRoot(tree.Hash)
		out = append(out, rootTok(b.MerkleRoot(tree.Hash)), rootTok(hr))
		bvMutate(orig, false)
		out = append(out, bvValTok(orig), bvValTok(c), rootTok(b.MerkleRoot(tree.Hash)))
	}
	return "ok " + strings.Join(out, " ")
}

// ---- generator ----

func bvUintTypes() []*Ty {
	return []*Ty{{Kind: KUint, N: 1}, {Kind: KUint, N: 2}, {Kind: KUint, N: 4}, {Kind: KUint, N: 8}, {Kind: KUint, N: 32}}
}

// bvBoundaries: 0, 1, 2^k-1, 2^k, max-1, max around every byte boundary of the width.
func bvBoundaries(size uint64) []*big.Int {
	one := big.NewInt(1)
	max := new(big.Int).Lsh(one, uint(size*8))
	seen := map[string]bool{}
	var out []*big.Int
	add := func(n *big.Int) {
		if n.Sign() < 0 || n.Cmp(max) >= 0 || seen[n.String()] {
			return
		}
		seen[n.String()] = true
		out = append(out, new(big.Int).Set(n))
	}
	add(big.NewInt(0))
	add(one)
	for k := uint(1); k <= uint(size*8); k++ {
		if k%8 > 1 && k%8 < 7 && k > 16 && k%64 > 1 && k%64 < 63 {
			continue
		}
		pw := new(big.Int).Lsh(one, k)
		add(new(big.Int).Sub(pw, one))
		add(pw)
		add(new(big.Int).Add(pw, one))
	}
	add(new(big.Int).Sub(max, big.NewInt(2)))
	return out
}

func (g *Gen) bvVal(t *Ty) *Val {
	switch t.Kind {
	case KUint:
		return &Val{Kind: VNum, Num: g.randUint(t.N)}
	case KBool:
		return &Val{Kind: VBool, B: g.Bool()}
	case KBytesN:
		return &Val{Kind: VBytes, Bytes: g.Bytes(int(t.N))}
	}
	panic("bad type")
}

// bvChunk: random 32 bytes, sometimes sparse / all ones.
func (g *Gen) bvChunk() []byte {
	switch g.Intn(6) {
	case 0:
		return make([]byte, 32)
	case 1:
		return bytes.Repeat([]byte{0xff}, 32)
	case 2:
		b := make([]byte, 32)
		b[g.Intn(32)] = byte(g.U64())
		return b
	}
	return g.Bytes(32)
}

func genC09b(g *Gen, tier string, w *bufio.Writer) {
	uints := bvUintTypes()
	boolT := &Ty{Kind: KBool}
	basics := append(append([]*Ty{}, uints...), boolT)
	var smalls []*Ty
	for n := uint64(0); n <= 32; n++ {
		smalls = append(smalls, &Ty{Kind: KBytesN, N: n})
	}
	reps := tierN(tier, 3, 24)

	// --- bv.meta: every type, byte vectors 0..40 and a few beyond
	for _, t := range basics {
		fmt.Fprintf(w, "bv.meta %s\n", t)
	}
	for n := 0; n <= 40; n++ {
		fmt.Fprintf(w, "bv.meta B %d\n", n)
	}
	for _, n := range []int{64, 100, 255} {
		fmt.Fprintf(w, "bv.meta B %d\n", n)
	}

	// --- bv.enc / bv.copy: all uint8, boundaries + random of the others, both bools, byte vectors 0..32
	for n := 0; n < 256; n++ {
		fmt.Fprintf(w, "bv.enc u8 n%d\n", n)
	}
	fmt.Fprintln(w, "bv.enc bool t")
	fmt.Fprintln(w, "bv.enc bool f")
	fmt.Fprintln(w, "bv.copy bool t")
	fmt.Fprintln(w, "bv.copy bool f")
	for _, t := range uints[1:] {
		for _, n := range bvBoundaries(t.N) {
			fmt.Fprintf(w, "bv.enc %s n%s\n", t, n)
		}
	}
	for _, t := range uints {
		for r := 0; r < 60*reps; r++ {
			v := g.bvVal(t)
			fmt.Fprintf(w, "bv.enc %s %s\n", t, v)
			if r < 8*reps {
				fmt.Fprintf(w, "bv.copy %s %s\n", t, v)
			}
		}
	}
	for _, t := range smalls {
		for r := 0; r < 6*reps; r++ {
			v := g.bvVal(t)
			if r == 0 {
				v = &Val{Kind: VBytes, Bytes: make([]byte, t.N)}
			}
			fmt.Fprintf(w, "bv.enc %s %s\n", t, v)
			fmt.Fprintf(w, "bv.copy %s %s\n", t, v)
		}
	}

	// --- bv.dec: every length 0..40 per type with scope = length; scope above / below the data;
	//     all single bytes for u8 and bool; valid encodings
	for _, t := range append(append([]*Ty{}, basics...), smalls...) {
		for n := 0; n <= 40; n++ {
			for r := 0; r < reps; r++ {
				x := g.Bytes(n)
				if t.Kind == KBool && n > 0 && g.Bool() {
					x[0] = byte(g.Intn(3))
				}
				fmt.Fprintf(w, "bv.dec %s %d %s\n", t, n, hexs(x))
			}
		}
		size := t.N
		if t.Kind == KBool {
			size = 1
		}
		for r := 0; r < 12*reps; r++ {
			// exactly the type's size, with the scope off by a little in either direction
			x := g.Bytes(int(size) + g.Intn(3))
			if t.Kind == KBool && g.Chance(70) {
				x[0] = byte(g.Intn(2))
			}
			scope := int(size) + g.Intn(5) - 2
			if scope < 0 {
				scope = 0
			}
			fmt.Fprintf(w, "bv.dec %s %d %s\n", t, scope, hexs(x))
		}
	}
	for n := 0; n < 256; n++ {
		fmt.Fprintf(w, "bv.dec u8 1 %s\n", hexs([]byte{byte(n)}))
		fmt.Fprintf(w, "bv.dec bool 1 %s\n", hexs([]byte{byte(n)}))
	}
	for _, n := range []int{33, 40, 100, 255} {
		fmt.Fprintf(w, "bv.dec B %d %d %s\n", n, n, hexs(g.Bytes(n)))
		fmt.Fprintf(w, "bv.dec B %d %d %s\n", n, n, hexs(g.Bytes(n-1)))
	}

	// --- bv.base: every uint8 sub-index 0..255 per type, random base chunks and values
	for _, t := range basics {
		for i := 0; i < 256; i++ {
			for r := 0; r < reps; r++ {
				fmt.Fprintf(w, "bv.base %s %s %d %s\n", t, hexs(g.bvChunk()), i, g.bvVal(t))
			}
		}
		// in-range sub-indices more densely
		size := t.N
		if t.Kind == KBool {
			size = 1
		}
		for i := 0; i < int(32/size); i++ {
			for r := 0; r < 4*reps; r++ {
				fmt.Fprintf(w, "bv.base %s %s %d %s\n", t, hexs(g.bvChunk()), i, g.bvVal(t))
			}
		}
	}
	// bool sub-views of chunks holding bytes > 1
	for b := 0; b < 256; b++ {
		c := g.bvChunk()
		i := g.Intn(32)
		c[i] = byte(b)
		fmt.Fprintf(w, "bv.base bool %s %d %s\n", hexs(c), (i+1)%32, g.bvVal(boolT))
	}

	// --- bv.pack: every count 0..70 per element size
	for _, t := range uints {
		for k := 0; k <= 70; k++ {
			for r := 0; r < reps; r++ {
				var sb strings.Builder
				for j := 0; j < k; j++ {
					sb.WriteString(" " + g.bvVal(t).String())
				}
				fmt.Fprintf(w, "bv.pack %s %d%s\n", t, k, sb.String())
			}
		}
	}
	if tier == "thorough" {
		for _, t := range uints {
			for _, k := range []int{127, 128, 129, 255, 256, 257, 1000} {
				var sb strings.Builder
				for j := 0; j < k; j++ {
					sb.WriteString(" " + g.bvVal(t).String())
				}
				fmt.Fprintf(w, "bv.pack %s %d%s\n", t, k, sb.String())
			}
		}
	}

	// --- bv.frombacking: random chunks per type; bool chunks with every first byte; byte
	//     vectors 0..40 (and beyond); a pair node
	for _, t := range basics {
		for r := 0; r < 40*reps; r++ {
			fmt.Fprintf(w, "bv.frombacking %s %s\n", t, hexs(g.bvChunk()))
		}
		fmt.Fprintf(w, "bv.frombacking %s P\n", t)
	}
	for b := 0; b < 256; b++ {
		c := g.bvChunk()
		c[0] = byte(b)
		fmt.Fprintf(w, "bv.frombacking bool %s\n", hexs(c))
		fmt.Fprintf(w, "bv.frombacking u8 %s\n", hexs(c))
	}
	for n := 0; n <= 40; n++ {
		for r := 0; r < 3*reps; r++ {
			fmt.Fprintf(w, "bv.frombacking B %d %s\n", n, hexs(g.bvChunk()))
		}
		fmt.Fprintf(w, "bv.frombacking B %d P\n", n)
	}
	for _, n := range []int{64, 100, 255} {
		fmt.Fprintf(w, "bv.frombacking B %d %s\n", n, hexs(g.bvChunk()))
	}
}
