package main

// C11: tree navigation (Getter / Setter with expansion / SummarizeInto) and subtree filling
// on explicit trees.  Ops have the prefix "tr.".
//
// Tree text (prefix notation):  P <left> <right> | D x<32 bytes hex> | Z <k>
// (Z k = tree.ZeroNode(k), the shared zero-subtree summary of height k under the current hash).
// Dumps use the same notation, zero nodes printed as data leaves.
//
//	tr.get  <hash> <gindex> <tree>                     -> ok <dump>
//	tr.set  <hash> <gindex> <expand> <tree> <value>    -> ok <dump> <root> unchanged=<0|1> shared=<0|1>
//	tr.sum  <hash> <gindex> <tree>                     -> ok <dump> <root> unchanged=<0|1> shared=<0|1>
//	tr.fillc <hash> <depth> <k> <tree>*k               -> ok <dump> <root>
//	tr.filll <hash> <depth> <length> <tree>            -> ok <dump> <root>
//	tr.filld <depth> <tree>                            -> ok <dump>
//	tr.topath <index> <depth>                          -> ok <gindex>
//
// errors: "err nav" (tree.NavigationError) | "err other"; panics are recovered by main.go.

import (
	"strconv"
	"bytes"
	"bufio"
	"errors"
	"fmt"
	"math/bits"
	"strings"

	"github.com/protolambda/ztyp/tree"
)

func init() {
	registerExec("tr.get", execTrGet)
	registerExec("tr.set", execTrSet)
	registerExec("tr.sum", execTrSum)
	registerExec("tr.set2", execTrSet2)
	registerExec("tr.fillc", execTrFillC)
	registerExec("tr.filll", execTrFillL)
	registerExec("tr.filld", execTrFillD)
	registerExec("tr.topath", execTrToPath)
	registerGen("C11", genC11)
}

// ---------- notation ----------

func trParse(p *parser) tree.Node {
	switch t := p.next(); t {
	case "P":
		l := trParse(p)
		r := trParse(p)
		return tree.NewPairNode(l, r)
	case "D":
		var r tree.Root
		b := unhex(p.next())
		if len(b) != 32 {
			panic("parse: data leaf must be 32 bytes")
		}
		copy(r[:], b)
		return &r
	case "Z":
		return tree.ZeroNode(uint32(p.num()))
	case "Y": // a zero-subtree summary that is value-equal to ZeroNode(k) but a distinct object
		r := tree.ZeroHashes[p.num()]
		return &r
	default:
		panic("parse: bad tree token " + t)
	}
}

func trDumpTo(sb *strings.Builder, n tree.Node) {
	switch t := n.(type) {
	case *tree.Root:
		if t == nil {
			sb.WriteString("nilroot")
			return
		}
		sb.WriteString("D x" + rootHex(*t))
	case *tree.PairNode:
		if t == nil {
			sb.WriteString("nilpair")
			return
		}
		sb.WriteString("P ")
		trDumpTo(sb, t.LeftChild)
		sb.WriteString(" ")
		trDumpTo(sb, t.RightChild)
	case nil:
		sb.WriteString("nil")
	default:
		sb.WriteString("unknown-node")
	}
}

func trDump(n tree.Node) string {
	var sb strings.Builder
	trDumpTo(&sb, n)
	return sb.String()
}

func trErr(err error) string {
	if errors.Is(err, tree.NavigationError) {
		return "err nav"
	}
	return "err other"
}

func trB01(b bool) int {
	if b {
		return 1
	}
	return 0
}

// trShared walks the written path (computed here from the integer, not with the library's
// bit iterator) through the original and the result and checks with pointer identity that
// every off-path child of the result is the very node object of the original - or, where the
// original had a zero summary that was expanded, the shared tree.ZeroNode of that height -
// and that the node at the target is the very object `v` (skipped when v == nil).
func trShared(orig, res tree.Node, g uint64, v tree.Node) bool {
	if g == 0 {
		g = 2 // Gindex64(0) behaves as "left child" on pair nodes
	}
	d := bits.Len64(g) - 1
	o, r := orig, res
	for i := d - 1; i >= 0; i-- {
		right := (g>>uint(i))&1 == 1
		rp, ok := r.(*tree.PairNode)
		if !ok {
			return false
		}
		var oOff, oOn tree.Node
		if op, ok := o.(*tree.PairNode); ok {
			oOff, oOn = op.RightChild, op.LeftChild
			if right {
				oOff, oOn = op.LeftChild, op.RightChild
			}
		} else {
			oOff = tree.ZeroNode(uint32(i))
			oOn = oOff
		}
		rOff, rOn := rp.RightChild, rp.LeftChild
		if right {
			rOff, rOn = rp.LeftChild, rp.RightChild
		}
		if rOff != oOff {
			return false
		}
		o, r = oOn, rOn
	}
	return v == nil || r == v
}

// trUnchanged: the original still dumps to the same text and still has the root of a freshly
// parsed copy (the memoised pair values are the only thing allowed to have been written).
func trUnchanged(orig tree.Node, before string, treeToks []string, h tree.HashFn) bool {
	if trDump(orig) != before {
		return false
	}
	fresh := trParse(&parser{toks: treeToks})
	return orig.MerkleRoot(h) == fresh.MerkleRoot(h)
}

// ---------- executors ----------

func execTrGet(st *State, args []string) string {
	h := useHash(args[0])
	_ = h
	defer useHash("sha")
	p := &parser{toks: args[1:]}
	g := p.num()
	n := trParse(p)
	res, err := n.Getter(tree.Gindex64(g))
	if err != nil {
		return trErr(err)
	}
	return "ok " + trDump(res)
}

func execTrSet(st *State, args []string) string {
	h := useHash(args[0])
	defer useHash("sha")
	p := &parser{toks: args[1:]}
	g := p.num()
	expand := p.num() == 1
	start := p.pos
	n := trParse(p)
	treeToks := p.toks[start:p.pos]
	v := trParse(p)
	before := trDump(n)
	if g%2 == 0 || len(before)%3 != 0 {
		n.MerkleRoot(h) // mostly: the original was hashed before the write (memoised roots must not leak into the result)
		v.MerkleRoot(h)
	}
	link, err := n.Setter(tree.Gindex64(g), expand)
	if err != nil {
		return trErr(err)
	}
	res, err := link(v)
	if err != nil {
		return "err link"
	}
	root := res.MerkleRoot(h)
	return fmt.Sprintf("ok %s %s unchanged=%d shared=%d", trDump(res), rootHex(root),
		trB01(trUnchanged(n, before, treeToks, h)), trB01(trShared(n, res, g, v)))
}

func execTrSum(st *State, args []string) string {
	h := useHash(args[0])
	defer useHash("sha")
	p := &parser{toks: args[1:]}
	g := p.num()
	start := p.pos
	n := trParse(p)
	treeToks := p.toks[start:p.pos]
	before := trDump(n)
	sl, err := n.SummarizeInto(tree.Gindex64(g), h)
	if err != nil {
		return trErr(err)
	}
	res, err := sl()
	if err != nil {
		return "err link"
	}
	root := res.MerkleRoot(h)
	return fmt.Sprintf("ok %s %s unchanged=%d shared=%d", trDump(res), rootHex(root),
		trB01(trUnchanged(n, before, treeToks, h)), trB01(trShared(n, res, g, nil)))
}

func execTrFillC(st *State, args []string) string {
	h := useHash(args[0])
	defer useHash("sha")
	p := &parser{toks: args[1:]}
	depth := p.num()
	k := int(p.num())
	nodes := make([]tree.Node, 0, k)
	for i := 0; i < k; i++ {
		nodes = append(nodes, trParse(p))
	}
	res, err := tree.SubtreeFillToContents(nodes, uint8(depth))
	if err != nil {
		return trErr(err)
	}
	return "ok " + trDump(res) + " " + rootHex(res.MerkleRoot(h))
}

func execTrFillL(st *State, args []string) string {
	h := useHash(args[0])
	defer useHash("sha")
	p := &parser{toks: args[1:]}
	depth := p.num()
	length := p.num()
	bottom := trParse(p)
	if (depth >= 64 && length == 0) || (depth < 64 && length > 1<<12 && length <= uint64(1)<<depth) {
		return "skip-dump-too-big" // the result has >= length leaves (shared in memory, not in the dump)
	}
	res, err := tree.SubtreeFillToLength(bottom, uint8(depth), length)
	if err != nil {
		return trErr(err)
	}
	return "ok " + trDump(res) + " " + rootHex(res.MerkleRoot(h))
}

func execTrFillD(st *State, args []string) string {
	p := &parser{toks: args}
	depth := p.num()
	bottom := trParse(p)
	if depth > 16 {
		return "skip-dump-too-big"
	}
	return "ok " + trDump(tree.SubtreeFillToDepth(bottom, uint8(depth)))
}

func execTrToPath(st *State, args []string) string {
	p := &parser{toks: args}
	index := p.num()
	depth := p.num()
	g, err := tree.ToGindex64(index, uint8(depth))
	if err != nil {
		return trErr(err)
	}
	return fmt.Sprintf("ok %d", uint64(g))
}

// ---------- generators ----------

type trShape struct{ l, r *trShape } // nil children = leaf

// all shapes of depth <= d
func trShapes(d int) []*trShape {
	out := []*trShape{{}}
	if d == 0 {
		return out
	}
	sub := trShapes(d - 1)
	for _, a := range sub {
		for _, b := range sub {
			out = append(out, &trShape{a, b})
		}
	}
	return out
}

func (s *trShape) leaf() bool { return s.l == nil }

func (s *trShape) leaves() int {
	if s.leaf() {
		return 1
	}
	return s.l.leaves() + s.r.leaves()
}

func (g *Gen) trData() string { return "D x" + hexs(g.Bytes(32))[1:] }

// trLabel writes the shape with a label per leaf: label(k, depth) gives the leaf text of the
// k-th leaf (left to right) that sits at the given depth.
func trLabel(sb *strings.Builder, s *trShape, depth int, k *int, label func(k, depth int) string) {
	if s.leaf() {
		sb.WriteString(label(*k, depth))
		*k++
		return
	}
	sb.WriteString("P ")
	trLabel(sb, s.l, depth+1, k, label)
	sb.WriteString(" ")
	trLabel(sb, s.r, depth+1, k, label)
}

// index (left to right) and depth of the leaf that the path of gindex gi meets strictly
// before its end or exactly at its end; -1 if the path ends on a pair node.
func trPathLeaf(s *trShape, gi uint64) (idx int, depth int) {
	d := bits.Len64(gi) - 1
	idx = 0
	cur := s
	for i := d - 1; ; i-- {
		if cur.leaf() {
			return idx, d - 1 - i
		}
		if i < 0 {
			return -1, 0
		}
		if (gi>>uint(i))&1 == 1 {
			idx += cur.l.leaves()
			cur = cur.r
		} else {
			cur = cur.l
		}
	}
}

func trWrongHeight(g *Gen, right int) int {
	for {
		var c int
		switch g.Intn(5) {
		case 0:
			c = right + 1
		case 1:
			c = right - 1
		case 2:
			c = 0
		case 3:
			c = 64
		default:
			c = g.Intn(65)
		}
		if c >= 0 && c <= 64 && c != right {
			return c
		}
	}
}

func (g *Gen) trValue() string {
	switch g.Intn(6) {
	case 0:
		return "P " + g.trData() + " " + g.trData()
	case 1:
		return fmt.Sprintf("Z %d", g.Intn(4))
	case 2:
		return "P " + g.trData() + " P " + g.trData() + " Z 1"
	default:
		return g.trData()
	}
}

func trHashName(i uint64) string {
	if i&1 == 1 {
		return "alt"
	}
	return "sha"
}

// emit get / set / sum for one (tree, gindex)
func trEmit(w *bufio.Writer, g *Gen, hn string, gi uint64, tr string, expands []int, withGetSum bool) {
	for _, e := range expands {
		fmt.Fprintf(w, "tr.set %s %d %d %s %s\n", hn, gi, e, tr, g.trValue())
	}
	if withGetSum {
		fmt.Fprintf(w, "tr.get %s %d %s\n", hn, gi, tr)
		fmt.Fprintf(w, "tr.sum %s %d %s\n", hn, gi, tr)
	}
}

// Exhaustive stream A: every shape to depth 3 x every gindex to depth 5 x expand on/off x every
// class of the (unique) leaf the path runs into: data leaf, zero summary of the right height
// (= remaining path length), of each neighbouring wrong height, and of heights 0 and 64.
// All other leaves are distinct data leaves, so a wrong node is visible in the dump.
func genC11PathExhaustive(g *Gen, w *bufio.Writer, hn string, slice func() bool) {
	shapes := trShapes(3)
	for _, s := range shapes {
		for gi := uint64(1); gi < 64; gi++ {
			if !slice() {
				continue
			}
			D := bits.Len64(gi) - 1
			idx, ld := trPathLeaf(s, gi)
			variants := []string{""}
			if idx >= 0 {
				right := D - ld
				variants = []string{g.trData(), fmt.Sprintf("Z %d", right), fmt.Sprintf("Z %d", right+1), "Z 0", "Z 64"}
				if right >= 1 {
					variants = append(variants, fmt.Sprintf("Z %d", right-1))
				}
			}
			for _, v := range variants {
				var sb strings.Builder
				k := 0
				trLabel(&sb, s, 0, &k, func(k, depth int) string {
					if k == idx {
						return v
					}
					return g.trData()
				})
				trEmit(w, g, hn, gi, sb.String(), []int{0, 1}, true)
			}
		}
	}
}

// Exhaustive stream B: every labelling of every shape to depth maxDepth with leaves in
// {data, zero summary of the right height for the target depth, zero summary of a wrong height}
// x gindices to depth 5 (all, or `per` seed-chosen ones per labelled tree) x expand on/off.
func genC11Labelled(g *Gen, w *bufio.Writer, maxDepth int, minDepthOnly bool, per int, hashSel func() string) {
	shapes := trShapes(maxDepth)
	for _, s := range shapes {
		if minDepthOnly && trDepth(s) < maxDepth {
			continue // already covered by the smaller full product
		}
		nl := s.leaves()
		total := 1
		for i := 0; i < nl; i++ {
			total *= 3
		}
		for code := 0; code < total; code++ {
			var gis []uint64
			if per <= 0 {
				for gi := uint64(1); gi < 64; gi++ {
					gis = append(gis, gi)
				}
			} else {
				for i := 0; i < per; i++ {
					gis = append(gis, uint64(1+g.Intn(63)))
				}
			}
			for _, gi := range gis {
				D := bits.Len64(gi) - 1
				var sb strings.Builder
				k := 0
				trLabel(&sb, s, 0, &k, func(k, depth int) string {
					c := code
					for i := 0; i < k; i++ {
						c /= 3
					}
					right := D - depth
					if right < 0 {
						right = 0
					}
					switch c % 3 {
					case 0:
						return g.trData()
					case 1:
						return fmt.Sprintf("Z %d", right)
					default:
						return fmt.Sprintf("Z %d", trWrongHeight(g, right))
					}
				})
				trEmit(w, g, hashSel(), gi, sb.String(), []int{0, 1}, per <= 0)
			}
		}
	}
}

func trDepth(s *trShape) int {
	if s.leaf() {
		return 0
	}
	a, b := trDepth(s.l), trDepth(s.r)
	if a > b {
		return a + 1
	}
	return b + 1
}

// random tree text; depth budget `d`, at absolute depth `at`.  Leaves: data or zero summaries
// (heights biased to small values so that targets below them stay within 63 bits).
func (g *Gen) trRandTree(d, at int) string {
	if d == 0 || g.Intn(100) < 22 {
		if g.Chance(55) {
			return g.trData()
		}
		switch g.Intn(4) {
		case 0:
			return fmt.Sprintf("Z %d", g.Intn(65))
		case 1:
			return fmt.Sprintf("Z %d", 63-at)
		default:
			return fmt.Sprintf("Z %d", g.Intn(6))
		}
	}
	return "P " + g.trRandTree(d-1, at+1) + " " + g.trRandTree(d-1, at+1)
}

// trRandIndex walks the tree text randomly: mostly a position that exists or lies below a
// zero summary at exactly its height; sometimes one level off; sometimes fully random.
func (g *Gen) trRandIndex(tr string) uint64 {
	r := g.Intn(100)
	if r < 8 {
		return g.U64() >> uint(g.Intn(64)) // any bit length, includes 0 and >= 2^63
	}
	toks := strings.Fields(tr)
	gi := uint64(1)
	pos := 0
	// skip returns the position after the subtree starting at pos
	var skip func(pos int) int
	skip = func(pos int) int {
		if toks[pos] == "P" {
			return skip(skip(pos + 1))
		}
		return pos + 2
	}
	for {
		if gi >= 1<<62 {
			return gi
		}
		switch toks[pos] {
		case "P":
			if g.Intn(100) < 12 {
				return gi
			}
			if g.Bool() {
				gi = gi<<1 | 1
				pos = skip(pos + 1)
			} else {
				gi <<= 1
				pos++
			}
		case "D":
			if g.Intn(100) < 75 {
				return gi
			}
			for k := 1 + g.Intn(3); k > 0 && gi < 1<<63; k-- {
				gi = gi<<1 | uint64(g.Intn(2))
			}
			return gi
		case "Z":
			var k int
			fmt.Sscanf(toks[pos+1], "%d", &k)
			switch g.Intn(10) {
			case 0:
				k++
			case 1:
				k--
			case 2:
				k = 0
			}
			for ; k > 0 && gi < 1<<63; k-- {
				gi = gi<<1 | uint64(g.Intn(2))
			}
			return gi
		}
	}
}

func genC11Random(g *Gen, w *bufio.Writer, n int) {
	for i := 0; i < n; i++ {
		hn := trHashName(uint64(i / 64)) // few zero-hash table rebuilds
		tr := g.trRandTree(1+g.Intn(12), 0)
		if len(tr) > 24000 {
			i--
			continue
		}
		for k := 0; k < 3; k++ {
			gi := g.trRandIndex(tr)
			e := g.Intn(2)
			fmt.Fprintf(w, "tr.set %s %d %d %s %s\n", hn, gi, e, tr, g.trValue())
			if g.Chance(50) {
				fmt.Fprintf(w, "tr.get %s %d %s\n", hn, gi, tr)
			}
			if g.Chance(30) {
				fmt.Fprintf(w, "tr.sum %s %d %s\n", hn, gi, tr)
			}
		}
	}
}

// malformed / boundary stream: gindex 0, gindices >= 2^63, deep expansion from the anchor
func genC11Boundary(g *Gen, w *bufio.Writer) {
	trees := []string{"Z 0", "Z 1", "Z 5", "Z 62", "Z 63", "Z 64", g.trData(),
		"P " + g.trData() + " Z 0", "P Z 0 " + g.trData(), "P Z 62 Z 62", "P Z 63 Z 61", "P P Z 0 Z 0 Z 1",
		"P P " + g.trData() + " " + g.trData() + " P Z 0 " + g.trData()}
	idx := []uint64{0, 1, 2, 3, 4, 5, 6, 7, 1 << 62, 1<<62 + 1, 1<<63 - 1, 1 << 63, 1<<63 + 1, 3 << 62, 1<<64 - 1, 1<<64 - 2,
		1 << 32, 1<<32 - 1, 1 << 31, 1 << 16, 255, 256}
	for _, hn := range []string{"sha", "alt"} {
		for _, tr := range trees {
			for _, gi := range idx {
				trEmit(w, g, hn, gi, tr, []int{0, 1}, true)
			}
			for k := 0; k < 6; k++ {
				trEmit(w, g, hn, g.U64()|1<<63, tr, []int{0, 1}, true)
				trEmit(w, g, hn, g.U64()>>1|1<<62, tr, []int{1}, false)
			}
		}
	}
}

func genC11Fill(g *Gen, w *bufio.Writer, n int) {
	// exhaustive small: every depth 0..5, every count 0..2^depth+1
	for _, hn := range []string{"sha", "alt"} {
		for d := 0; d <= 5; d++ {
			for k := 0; k <= (1<<uint(d))+1; k++ {
				var sb strings.Builder
				for i := 0; i < k; i++ {
					sb.WriteString(" " + g.trData())
				}
				fmt.Fprintf(w, "tr.fillc %s %d %d%s\n", hn, d, k, sb.String())
				fmt.Fprintf(w, "tr.filll %s %d %d %s\n", hn, d, k, g.trValue())
			}
			fmt.Fprintf(w, "tr.filld %d %s\n", d, g.trValue())
		}
	}
	for i := 0; i < n; i++ {
		hn := trHashName(uint64(i / 32))
		var d, k int
		switch g.Intn(4) {
		case 0: // deep, few nodes
			d = g.Intn(64)
			k = g.Intn(6)
		case 1: // around powers of two
			d = 1 + g.Intn(8)
			k = (1 << uint(g.Intn(d+1))) + g.Intn(3) - 1
		default:
			d = g.Intn(9)
			k = g.Intn((1 << uint(d)) + 2)
		}
		if k < 0 {
			k = 0
		}
		if k > 300 {
			k = 300
		}
		var sb strings.Builder
		for j := 0; j < k; j++ {
			if g.Chance(15) {
				sb.WriteString(" P " + g.trData() + " " + g.trData())
			} else {
				sb.WriteString(" " + g.trData())
			}
		}
		fmt.Fprintf(w, "tr.fillc %s %d %d%s\n", hn, d, k, sb.String())
		fmt.Fprintf(w, "tr.filll %s %d %d %s\n", hn, d, k, g.trValue())
		if d <= 10 {
			fmt.Fprintf(w, "tr.filld %d %s\n", d, g.trValue())
		}
	}
	// uint8 depth / uint64 shift boundaries (1<<depth == 0 for depth >= 64)
	for _, d := range []int{62, 63, 64, 65, 66, 128, 255} {
		for _, k := range []int{0, 1, 2, 3} {
			var sb strings.Builder
			for j := 0; j < k; j++ {
				sb.WriteString(" " + g.trData())
			}
			fmt.Fprintf(w, "tr.fillc sha %d %d%s\n", d, k, sb.String())
			if !(d >= 64 && k == 0) {
				fmt.Fprintf(w, "tr.filll sha %d %d %s\n", d, k, g.trData())
			}
		}
		if d != 63 {
			fmt.Fprintf(w, "tr.filll sha %d %d %s\n", d, uint64(1)<<63, g.trData())
		}
		fmt.Fprintf(w, "tr.filll sha %d %d %s\n", d, ^uint64(0), g.trData())
	}
	// ToGindex64: every (index, depth) around the representable boundary
	for _, d := range []uint64{0, 1, 2, 3, 5, 8, 31, 32, 33, 62, 63, 64, 65, 128, 255} {
		var anchor uint64
		if d < 64 {
			anchor = 1 << d
		}
		for _, ix := range []uint64{0, 1, 2, anchor - 2, anchor - 1, anchor, anchor + 1, anchor >> 1, g.U64(), g.U64() >> 1, ^uint64(0)} {
			fmt.Fprintf(w, "tr.topath %d %d\n", ix, d)
		}
		if d < 64 && d > 0 {
			for k := 0; k < 4; k++ {
				fmt.Fprintf(w, "tr.topath %d %d\n", g.U64()&(anchor-1), d)
			}
		}
	}
	for ix := uint64(0); ix < 40; ix++ {
		for d := uint64(0); d < 6; d++ {
			fmt.Fprintf(w, "tr.topath %d %d\n", ix, d)
		}
	}
}

// genC11 post-processes the stream: in about a third of the lines the shared zero nodes `Z k`
// are replaced by value-equal but distinct summary leaves `Y k`.
func genC11(g *Gen, tier string, out *bufio.Writer) {
	var buf bytes.Buffer
	w := bufio.NewWriter(&buf)
	genC11Inner(g, tier, w)
	w.Flush()
	g2 := NewGen(g.U64())
	for _, line := range strings.Split(buf.String(), "\n") {
		if line == "" {
			continue
		}
		if strings.HasPrefix(line, "tr.set ") && g2.Intn(4) == 0 {
			// the same link applied twice (second value: a fresh data leaf)
			fmt.Fprintf(out, "tr.set2 %s D x%064x\n", strings.TrimPrefix(line, "tr.set "), g2.U64())
		}
		if strings.Contains(line, " Z ") && !strings.Contains(line, "Z 65") && g2.Intn(3) == 0 {
			toks := strings.Fields(line)
			for i := range toks {
				if toks[i] == "Z" && i+1 < len(toks) && g2.Intn(2) == 0 {
					if k, err := strconv.Atoi(toks[i+1]); err == nil && k <= 64 {
						toks[i] = "Y"
					}
				}
			}
			line = strings.Join(toks, " ")
		}
		fmt.Fprintln(out, line)
	}
}

func genC11Inner(g *Gen, tier string, w *bufio.Writer) {
	thorough := tier == "thorough"
	genC11Boundary(g, w)
	if thorough {
		genC11PathExhaustive(g, w, "sha", func() bool { return true })
		genC11PathExhaustive(g, w, "alt", func() bool { return true })
		// full labelled product: all trees to depth 2 x all gindices, both hashes
		genC11Labelled(g, w, 2, false, 0, func() string { return "sha" })
		genC11Labelled(g, w, 2, false, 0, func() string { return "alt" })
		// depth-3 labelled trees (21465 of them): 4 seed-chosen gindices each
		i := uint64(0)
		genC11Labelled(g, w, 3, true, 4, func() string { i++; return trHashName(i / 512) })
		genC11Random(g, w, 12000)
		genC11Fill(g, w, 4000)
	} else {
		// a seed-chosen ~10% slice of the exhaustive path stream (hash chosen by the seed)
		hn := trHashName(g.U64())
		genC11PathExhaustive(g, w, hn, func() bool { return g.Intn(10) == 0 })
		genC11Labelled(g, w, 1, false, 0, func() string { return hn })
		genC11Random(g, w, 400)
		genC11Fill(g, w, 150)
	}
}

// tr.set2 <hash> <g> <expand> <tree> <v1> <v2>: the SAME link applied twice; the first result is
// hashed in between and re-dumped afterwards (it must not have been touched by the second call).
func execTrSet2(st *State, args []string) string {
	h := useHash(args[0])
	defer useHash("sha")
	p := &parser{toks: args[1:]}
	g := p.num()
	expand := p.num() == 1
	n := trParse(p)
	v1 := trParse(p)
	v2 := trParse(p)
	link, err := n.Setter(tree.Gindex64(g), expand)
	if err != nil {
		return trErr(err)
	}
	res1, err := link(v1)
	if err != nil {
		return "err link"
	}
	root1 := res1.MerkleRoot(h)
	res2, err := link(v2)
	if err != nil {
		return "err link"
	}
	root2 := res2.MerkleRoot(h)
	again := res1.MerkleRoot(h)
	return fmt.Sprintf("ok %s %s %s %s again=%s", trDump(res1), rootHex(root1), trDump(res2), rootHex(root2), rootHex(again))
}
