package main

import (
	"bufio"
	"fmt"
	"strings"
)

// shadow handle: the generator's own bookkeeping of what each handle holds, only used to
// draw mostly-valid operations (indices inside the current length etc.).
type shadow struct {
	name   string
	t      *Ty
	v      *Val
	parent *shadow
	slot   uint64
	basic  bool // detached basic value (no mutation possible)
}

func cloneVal(v *Val) *Val {
	if v == nil {
		return nil
	}
	c := *v
	if v.Seq != nil {
		c.Seq = make([]*Val, len(v.Seq))
		for i, e := range v.Seq {
			c.Seq[i] = cloneVal(e)
		}
	}
	if v.Bits != nil {
		c.Bits = append([]bool{}, v.Bits...)
	}
	if v.Bytes != nil {
		c.Bytes = append([]byte{}, v.Bytes...)
	}
	c.Inner = cloneVal(v.Inner)
	return &c
}

func (s *shadow) writeBack() {
	if s.basic {
		return // basic value views are detached
	}
	for c := s; c.parent != nil; c = c.parent {
		p := c.parent
		if p.v.Kind != VSeq || int(c.slot) >= len(p.v.Seq) {
			return
		}
		nv := cloneVal(p.v)
		nv.Seq[c.slot] = cloneVal(c.v)
		p.v = nv
	}
}

func isComposite(t *Ty) bool {
	switch t.Kind {
	case KUint, KBool, KBytesN:
		return false
	}
	return true
}

type histOpts struct {
	steps    int
	snaps    bool // C05
	memo     bool // C06
	hcount   bool // C07
	copies   bool
	iters    bool // C17
	sums     bool // C12
	obsEvery bool
}

func (g *Gen) histType(depth int) *Ty {
	o := TyOpts{NoBoolSeries: true}
	for {
		t := g.RandTy(depth, o)
		if isComposite(t) {
			return t
		}
	}
}

func genHistory(g *Gen, w *bufio.Writer, t *Ty, o histOpts) {
	fmt.Fprintln(w, g.beginLine())
	v := g.RandVal(t, 60)
	route := []string{"new", "new", "dec", "def"}[g.Intn(4)]
	if route == "def" {
		v = DefaultVal(t)
		fmt.Fprintf(w, "mk r def %s\n", t)
	} else {
		fmt.Fprintf(w, "mk r %s %s %s\n", route, t, v)
	}
	genHistoryBody(g, w, t, v, o)
}

// genHistoryFrom emits only the steps of a history on an existing root handle "r" holding v.
func genHistoryFrom(g *Gen, w *bufio.Writer, t *Ty, v *Val, o histOpts) {
	genHistoryBody(g, w, t, v, o)
}

func genHistoryBody(g *Gen, w *bufio.Writer, t *Ty, v *Val, o histOpts) {
	g.unhashed = !o.hcount // C07 counts hash calls under the premise that inserted values are hashed
	defer func() { g.unhashed = false }()
	root := &shadow{name: "r", t: t, v: v}
	handles := []*shadow{root}
	nh := 0
	nsnap := 0
	fmt.Fprintln(w, "obs r")
	if o.hcount {
		fmt.Fprintln(w, "hcount r")
	}
	for step := 0; step < o.steps; step++ {
		if o.snaps && g.Chance(50) {
			h := handles[g.Intn(len(handles))]
			if !h.basic {
				fmt.Fprintf(w, "snap s%d %s\n", nsnap, h.name)
				nsnap++
			}
		}
		h := handles[g.Intn(len(handles))]
		if g.Chance(40) {
			h = handles[len(handles)-1]
		}
		if h.basic {
			if h.t.Kind == KBytesN && g.Chance(60) {
				// in-place writes on a (detached) byte-vector view must not reach any tree
				nb := g.Bytes(int(h.t.N))
				op := "rtxt"
				if h.t.N == 32 && g.Bool() {
					op = "rset"
				}
				target := h
				switch g.Intn(3) {
				case 1: // write through a Copy: the original must not follow
					nh++
					cn := fmt.Sprintf("h%d", nh)
					fmt.Fprintf(w, "copy %s %s\n", cn, h.name)
					target = &shadow{name: cn, t: h.t, v: cloneVal(h.v), basic: true}
					handles = append(handles, target)
				case 2: // bind the view object into a tree first, then rewrite the object
					if h.parent != nil && h.parent.v.Kind == VSeq && len(h.parent.v.Seq) > 0 {
						j := uint64(g.Intn(len(h.parent.v.Seq)))
						if et := elemTy(h.parent.t, j); et != nil && et.Kind == KBytesN && et.N == h.t.N {
							fmt.Fprintf(w, "setv %s %d %s\n", h.parent.name, j, h.name)
							c := cloneVal(h.parent.v)
							c.Seq[j] = cloneVal(h.v)
							h.parent.v = c
							h.parent.writeBack()
							fmt.Fprintln(w, "obs r")
						}
					}
				}
				fmt.Fprintf(w, "%s %s %s\n", op, target.name, hexs(nb))
				target.v = &Val{Kind: VBytes, Bytes: nb}
				fmt.Fprintf(w, "obs %s\n", target.name)
				fmt.Fprintf(w, "obs %s\n", h.name)
				fmt.Fprintln(w, "obs r")
				if o.memo {
					fmt.Fprintln(w, "memo r")
				}
				if o.snaps {
					for k := 0; k < nsnap; k++ {
						fmt.Fprintf(w, "chk s%d\n", k)
					}
				}
			} else if g.Chance(30) {
				fmt.Fprintf(w, "obs %s\n", h.name)
			}
			h = root
		}
		r := g.Intn(100)
		mutated := false
		switch {
		case r < 18: // obtain a sub-view
			n, et := g.pickIndex(h)
			if et == nil {
				break
			}
			nh++
			name := fmt.Sprintf("h%d", nh)
			if g.Chance(25) && (h.t.Kind == KVector || h.t.Kind == KList || h.t.Kind == KContainer) {
				fmt.Fprintf(w, "iterget %s %s %d\n", name, h.name, n) // the element handed out by the mutable Iter()
			} else {
				fmt.Fprintf(w, "get %s %s %d\n", name, h.name, n)
			}
			if h.v.Kind == VSeq && int(n) < len(h.v.Seq) {
				nsh := &shadow{name: name, t: et, v: cloneVal(h.v.Seq[n]), parent: h, slot: n, basic: !isComposite(et)}
				handles = append(handles, nsh)
			} else if h.v.Kind == VBits && int(n) < len(h.v.Bits) {
				handles = append(handles, &shadow{name: name, t: et, v: &Val{Kind: VBool, B: h.v.Bits[n]}, basic: true})
			}
		case r < 22 && o.copies:
			nh++
			name := fmt.Sprintf("h%d", nh)
			fmt.Fprintf(w, "copy %s %s\n", name, h.name)
			handles = append(handles, &shadow{name: name, t: h.t, v: cloneVal(h.v)})
		case r < 26 && h.t.Kind == KUnion:
			nh++
			name := fmt.Sprintf("h%d", nh)
			fmt.Fprintf(w, "val %s %s\n", name, h.name)
			if h.v.Inner.Kind != VNone {
				ot := unionOpt(h.t, h.v.Sel)
				handles = append(handles, &shadow{name: name, t: ot, v: cloneVal(h.v.Inner), basic: !isComposite(ot)})
			}
		case r < 30 && h.parent != nil && h.parent.v.Kind == VSeq && len(h.parent.v.Seq) > 1 && !h.parent.basic:
			// bind this (hooked) sub-view's backing into another slot of its parent as well
			j := uint64(g.Intn(len(h.parent.v.Seq)))
			if et := elemTy(h.parent.t, j); et != nil && et.String() == h.t.String() {
				fmt.Fprintf(w, "setv %s %d %s\n", h.parent.name, j, h.name)
				c := cloneVal(h.parent.v)
				c.Seq[j] = cloneVal(h.v)
				h.parent.v = c
				h.parent.writeBack()
				mutated = true
			}
		default:
			mutated = g.mutate(w, h)
		}
		if mutated {
			h.writeBack()
		}
		// C06: root requests at a random subset of the positions (otherwise after every mutation)
		if o.obsEvery || (mutated && (!o.memo || g.Chance(55))) {
			if g.Chance(30) {
				fmt.Fprintln(w, "obsg r")
			} else {
				fmt.Fprintln(w, "obs r")
			}
			if g.Chance(25) {
				fmt.Fprintln(w, "blen r")
			}
			if h != root && g.Chance(50) {
				fmt.Fprintf(w, "obs %s\n", h.name)
			}
		}
		if o.memo && g.Chance(60) {
			fmt.Fprintln(w, "memo r")
		}
		if o.hcount && mutated {
			fmt.Fprintln(w, "hcount r")
		}
		if o.snaps {
			if nsnap > 0 && g.Chance(8) {
				// plugging in another pair hash re-initialises the zero-hash table: existing trees must not change
				fmt.Fprintln(w, "rehash alt")
				for k := 0; k < nsnap; k++ {
					fmt.Fprintf(w, "chk s%d\n", k)
				}
				fmt.Fprintln(w, "rehash sha")
			}
			for k := 0; k < nsnap; k++ {
				if g.Chance(60) || k == nsnap-1 {
					fmt.Fprintf(w, "chk s%d\n", k)
				}
			}
		}
		if o.iters && g.Chance(30) && !h.basic {
			fmt.Fprintf(w, "iter %s %s\n", h.name, []string{"ro", "idx"}[g.Intn(2)])
		}
		if len(handles) > 12 {
			handles = append(handles[:1], handles[len(handles)-8:]...)
		}
	}
	for _, h := range handles {
		if g.Chance(50) {
			fmt.Fprintf(w, "obs %s\n", h.name)
		}
	}
	if o.memo {
		fmt.Fprintln(w, "memo r")
	}
}

// pickIndex draws an index into h (mostly valid, sometimes out of range) and its element type.
func (g *Gen) pickIndex(h *shadow) (uint64, *Ty) {
	var n uint64
	switch h.t.Kind {
	case KVector, KList, KContainer:
		n = uint64(len(h.v.Seq))
	case KBitvector, KBitlist:
		n = uint64(len(h.v.Bits))
	default:
		return 0, nil
	}
	var i uint64
	switch {
	case g.Chance(8):
		i = n + uint64(g.Intn(3))
	case n == 0:
		i = 0
	case g.Chance(25):
		i = n - 1
	default:
		i = uint64(g.Intn(int(n)))
	}
	et := elemTy(h.t, i)
	if et == nil && h.t.Kind == KContainer {
		et = h.t.Fields[0]
	}
	return i, et
}

// mutate emits one mutation of h and updates the shadow; returns whether it is expected to succeed.
func (g *Gen) mutate(w *bufio.Writer, h *shadow) bool {
	switch h.t.Kind {
	case KVector, KContainer:
		i, et := g.pickIndex(h)
		if g.Chance(12) {
			fmt.Fprintf(w, "setd %s %d\n", h.name, i)
			if int(i) < len(h.v.Seq) {
				c := cloneVal(h.v)
				c.Seq[i] = DefaultVal(et)
				h.v = c
				return true
			}
			return false
		}
		nv := g.RandVal(et, 20)
		fmt.Fprintf(w, "%s %s %d %s\n", g.insOp("set"), h.name, i, nv)
		if int(i) < len(h.v.Seq) {
			c := cloneVal(h.v)
			c.Seq[i] = nv
			h.v = c
			return true
		}
		return false
	case KList:
		r := g.Intn(100)
		switch {
		case r < 8:
			fmt.Fprintf(w, "appd %s\n", h.name)
			if uint64(len(h.v.Seq)) < h.t.N {
				c := cloneVal(h.v)
				c.Seq = append(c.Seq, DefaultVal(h.t.Elem))
				h.v = c
				return true
			}
			return false
		case r < 14:
			i, et := g.pickIndex(h)
			fmt.Fprintf(w, "setd %s %d\n", h.name, i)
			if int(i) < len(h.v.Seq) {
				c := cloneVal(h.v)
				c.Seq[i] = DefaultVal(et)
				h.v = c
				return true
			}
			return false
		case r < 40:
			nv := g.RandVal(h.t.Elem, 20)
			fmt.Fprintf(w, "%s %s %s\n", g.insOp("app"), h.name, nv)
			if uint64(len(h.v.Seq)) < h.t.N {
				c := cloneVal(h.v)
				c.Seq = append(c.Seq, nv)
				h.v = c
				return true
			}
			return false
		case r < 65:
			fmt.Fprintf(w, "pop %s\n", h.name)
			if len(h.v.Seq) > 0 {
				c := cloneVal(h.v)
				c.Seq = c.Seq[:len(c.Seq)-1]
				h.v = c
				return true
			}
			return false
		default:
			i, et := g.pickIndex(h)
			nv := g.RandVal(et, 20)
			fmt.Fprintf(w, "%s %s %d %s\n", g.insOp("set"), h.name, i, nv)
			if int(i) < len(h.v.Seq) {
				c := cloneVal(h.v)
				c.Seq[i] = nv
				h.v = c
				return true
			}
			return false
		}
	case KBitvector, KBitlist:
		r := g.Intn(100)
		b := g.Bool()
		bv := &Val{Kind: VBool, B: b}
		switch {
		case h.t.Kind == KBitlist && r < 40:
			fmt.Fprintf(w, "app %s %s\n", h.name, bv)
			if uint64(len(h.v.Bits)) < h.t.N {
				c := cloneVal(h.v)
				c.Bits = append(c.Bits, b)
				h.v = c
				return true
			}
			return false
		case h.t.Kind == KBitlist && r < 65:
			fmt.Fprintf(w, "pop %s\n", h.name)
			if len(h.v.Bits) > 0 {
				c := cloneVal(h.v)
				c.Bits = c.Bits[:len(c.Bits)-1]
				h.v = c
				return true
			}
			return false
		default:
			i, _ := g.pickIndex(h)
			fmt.Fprintf(w, "set %s %d %s\n", h.name, i, bv)
			if int(i) < len(h.v.Bits) {
				c := cloneVal(h.v)
				c.Bits[i] = b
				h.v = c
				return true
			}
			return false
		}
	case KUnion:
		n := len(h.t.Fields)
		if h.t.HasNone {
			n++
		}
		sel := uint64(g.Intn(n))
		if g.Chance(6) {
			sel = uint64(n + g.Intn(3))
		}
		ot := unionOpt(h.t, sel)
		if ot == nil {
			if h.t.HasNone && sel == 0 {
				fmt.Fprintf(w, "chg %s %d _\n", h.name, sel)
				h.v = &Val{Kind: VUnion, Sel: 0, Inner: &Val{Kind: VNone}}
				return true
			}
			fmt.Fprintf(w, "%s %s %d %s\n", g.insOp("chg"), h.name, sel, g.RandVal(h.t.Fields[0], 10))
			return false
		}
		nv := g.RandVal(ot, 20)
		fmt.Fprintf(w, "%s %s %d %s\n", g.insOp("chg"), h.name, sel, nv)
		h.v = &Val{Kind: VUnion, Sel: sel, Inner: nv}
		return true
	}
	return false
}

func histTypes(g *Gen, n int) []*Ty {
	var ts []*Ty
	for i := 0; i < n; i++ {
		ts = append(ts, g.histType(1+g.Intn(3)))
	}
	return ts
}

func init() {
	registerGen("C04", func(g *Gen, tier string, w *bufio.Writer) {
		n := tierN(tier, 250, 6000)
		for _, t := range histTypes(g, n) {
			genHistory(g, w, t, histOpts{steps: 8 + g.Intn(tierN(tier, 30, 300)), copies: true})
		}
		genExhaustiveHist(g, tier, w)
		genBoundaryHist(g, tier, w)
		genRedecode(g, tier, w)
	})
	registerGen("C05", func(g *Gen, tier string, w *bufio.Writer) {
		n := tierN(tier, 200, 4000)
		for _, t := range histTypes(g, n) {
			genHistory(g, w, t, histOpts{steps: 6 + g.Intn(tierN(tier, 20, 120)), copies: true, snaps: true})
		}
		genRedecode(g, tier, w)
	})
	registerGen("C06", func(g *Gen, tier string, w *bufio.Writer) {
		n := tierN(tier, 200, 4000)
		for _, t := range histTypes(g, n) {
			genHistory(g, w, t, histOpts{steps: 6 + g.Intn(tierN(tier, 25, 150)), copies: true, memo: true})
		}
		genSubsetHist(g, tier, w)
	})
	registerGen("C07", func(g *Gen, tier string, w *bufio.Writer) {
		n := tierN(tier, 300, 5000)
		g.zHist = true // the memo's "not computed" sentinel is the all-zero root only
		for _, t := range histTypes(g, n) {
			genHistory(g, w, t, histOpts{steps: 3 + g.Intn(10), hcount: true})
		}
		g.zHist = false
		genC07Targeted(g, tier, w, "begin")
		genC07Targeted(g, tier, w, "begin z")
	})
	registerGen("C17", func(g *Gen, tier string, w *bufio.Writer) {
		n := tierN(tier, 300, 5000)
		for _, t := range histTypes(g, n) {
			genHistory(g, w, t, histOpts{steps: 2 + g.Intn(8), iters: true})
		}
		genIterBoundaries(g, tier, w)
		genIterInterleaved(g, w)
		genIterMutated(g, tier, w)
	})
}

// genSubsetHist (C06): bounded histories over the small types of genExhaustiveHist with a root
// request inserted at EVERY subset of the positions; inserted values hashed beforehand or not.
// The final observation must not depend on the subset (PROP compares it with the value machine).
func genSubsetHist(g *Gen, tier string, w *bufio.Writer) {
	maxLen := 3
	if tier == "thorough" {
		maxLen = 4
	}
	for _, t := range exhaustiveTypes() {
		ops := candidateOps(t)
		var rec func(prefix []string)
		rec = func(prefix []string) {
			n := len(prefix)
			// quick: all histories of length <= 2, a tenth of the longer ones
			if n > 0 && (tier == "thorough" || n <= 2 || g.Chance(10)) {
				for subset := 0; subset < 1<<uint(n); subset++ {
					for _, unhashed := range []bool{false, true} {
						fmt.Fprintln(w, "begin")
						fmt.Fprintf(w, "mk r def %s\n", t)
						if subset&1 != 0 && n > 1 { // bit 0 doubles as "request before the first step"
							fmt.Fprintln(w, "obs r")
						}
						for k, o := range prefix {
							if unhashed {
								for _, pre := range []string{"set ", "app ", "chg "} {
									if strings.HasPrefix(o, pre) {
										o = pre[:3] + "u " + o[4:]
									}
								}
							}
							fmt.Fprintln(w, o)
							if subset>>uint(k)&1 != 0 && k < n-1 {
								fmt.Fprintln(w, "obs r")
							}
						}
						fmt.Fprintln(w, "obs r")
						fmt.Fprintln(w, "memo r")
					}
				}
			}
			if n == maxLen {
				return
			}
			for _, o := range ops {
				rec(append(append([]string{}, prefix...), o))
			}
		}
		rec(nil)
	}
}

// genIterMutated: the index-based iterator is advanced part of the way, the view is then shrunk,
// grown or overwritten, and the iteration is finished.
func genIterMutated(g *Gen, tier string, w *bufio.Writer) {
	u8 := &Ty{Kind: KUint, N: 1}
	u64 := &Ty{Kind: KUint, N: 8}
	elems := []*Ty{u8, {Kind: KUint, N: 2}, u64, {Kind: KUint, N: 32}, {Kind: KBytesN, N: 32}, {Kind: KBitlist, N: 5},
		{Kind: KContainer, Fields: []*Ty{u64, u8}}, {Kind: KList, N: 3, Elem: u8}}
	reps := tierN(tier, 1, 6)
	for rep := 0; rep < reps; rep++ {
		for _, e := range elems {
			for _, lim := range []uint64{8, 70, 1 << 30} {
				for _, n := range []uint64{1, 2, 3, 5, 8, 33, 65} {
					if n > lim {
						continue
					}
					t := &Ty{Kind: KList, N: lim, Elem: e}
					v := g.RandVal(&Ty{Kind: KVector, N: n, Elem: e}, 400)
					for _, k := range []uint64{0, n / 2, n - 1, n} {
						fmt.Fprintln(w, "begin")
						fmt.Fprintf(w, "mk r %s %s %s\n", []string{"new", "dec"}[g.Intn(2)], t, v)
						switch g.Intn(4) {
						case 0, 1:
							fmt.Fprintf(w, "iterm r %d pop\n", k)
						case 2:
							fmt.Fprintf(w, "iterm r %d app %s\n", k, g.RandVal(e, 8))
						case 3:
							fmt.Fprintf(w, "iterm r %d set %d %s\n", k, g.Intn(int(n)), g.RandVal(e, 8))
						}
						fmt.Fprintln(w, "obs r")
						// two more elements removed while the iterator is alive
						fmt.Fprintln(w, "begin")
						fmt.Fprintf(w, "mk r new %s %s\n", t, v)
						fmt.Fprintln(w, "pop r")
						fmt.Fprintf(w, "iterm r %d pop\n", k/2)
						fmt.Fprintln(w, "iter r idx")
					}
				}
			}
		}
		for _, lim := range []uint64{9, 300, 1 << 30} {
			for _, n := range []uint64{1, 2, 8, 9, 255, 256, 257} {
				if n > lim {
					continue
				}
				t := &Ty{Kind: KBitlist, N: lim}
				for _, k := range []uint64{0, n / 2, n - 1, n} {
					fmt.Fprintln(w, "begin")
					fmt.Fprintf(w, "mk r new %s %s\n", t, &Val{Kind: VBits, Bits: g.randBits(int(n))})
					switch g.Intn(3) {
					case 0, 1:
						fmt.Fprintf(w, "iterm r %d pop\n", k)
					case 2:
						fmt.Fprintf(w, "iterm r %d set %d %s\n", k, g.Intn(int(n)), []string{"t", "f"}[g.Intn(2)])
					}
					fmt.Fprintln(w, "obs r")
				}
			}
		}
		// vectors and containers: only overwriting is possible
		for _, e := range elems {
			n := uint64(1 + g.Intn(9))
			t := &Ty{Kind: KVector, N: n, Elem: e}
			fmt.Fprintln(w, "begin")
			fmt.Fprintf(w, "mk r new %s %s\n", t, g.RandVal(t, 400))
			fmt.Fprintf(w, "iterm r %d set %d %s\n", g.Intn(int(n)+1), g.Intn(int(n)), g.RandVal(e, 8))
			fmt.Fprintln(w, "obs r")
		}
	}
}

// genRedecode: the same bytes / default / elements are turned into a view twice through the SAME
// type definition, the first result being mutated in between: the second view must be the plain
// value again, and later changes of either must not show in the other.
func genRedecode(g *Gen, tier string, w *bufio.Writer) {
	u8 := &Ty{Kind: KUint, N: 1}
	u64 := &Ty{Kind: KUint, N: 8}
	cont := &Ty{Kind: KContainer, Fields: []*Ty{u64, {Kind: KList, N: 4, Elem: u8}}}
	types := []*Ty{
		{Kind: KList, N: 40, Elem: u8}, {Kind: KList, N: 1 << 30, Elem: u64}, {Kind: KList, N: 5, Elem: &Ty{Kind: KUint, N: 32}},
		{Kind: KBitlist, N: 300}, {Kind: KBitlist, N: 1 << 30}, {Kind: KList, N: 4, Elem: cont}, {Kind: KList, N: 1 << 30, Elem: &Ty{Kind: KBytesN, N: 32}},
		{Kind: KList, N: 3, Elem: &Ty{Kind: KList, N: 3, Elem: u8}}, cont, {Kind: KContainer, Fields: []*Ty{{Kind: KList, N: 4, Elem: u64}, {Kind: KBitlist, N: 9}}},
		{Kind: KVector, N: 3, Elem: u64}, {Kind: KVector, N: 2, Elem: cont}, {Kind: KBitvector, N: 12},
		{Kind: KUnion, HasNone: true, Fields: []*Ty{u64, {Kind: KList, N: 3, Elem: u8}}},
	}
	reps := tierN(tier, 2, 12)
	for _, t := range types {
		for rep := 0; rep < reps; rep++ {
			for _, route := range []string{"dec", "new", "def"} {
				v := DefaultVal(t) // empty collections / zero values
				if rep%2 == 1 && route != "def" {
					v = g.RandVal(t, 12)
				}
				mk := func(name string) {
					if route == "def" {
						fmt.Fprintf(w, "mk %s def %s\n", name, t)
					} else {
						fmt.Fprintf(w, "mk %s %s %s %s\n", name, route, t, v)
					}
				}
				fmt.Fprintln(w, "begin")
				mk("r")
				a := &shadow{name: "r", t: t, v: cloneVal(v)}
				// an empty collection can only be changed by an append
				if t.Kind == KList && len(a.v.Seq) == 0 && t.N > 0 {
					nv := g.RandVal(t.Elem, 8)
					fmt.Fprintf(w, "app r %s\n", nv)
					a.v.Seq = append(a.v.Seq, nv)
				} else if t.Kind == KBitlist && len(a.v.Bits) == 0 && t.N > 0 {
					fmt.Fprintln(w, "app r t")
					a.v.Bits = append(a.v.Bits, true)
				}
				for k := 0; k < 1+g.Intn(3); k++ {
					g.mutate(w, a)
				}
				fmt.Fprintln(w, "obs r")
				mk("q")
				fmt.Fprintln(w, "obs q")
				b := &shadow{name: "q", t: t, v: cloneVal(v)}
				g.mutate(w, b)
				fmt.Fprintln(w, "obs q")
				fmt.Fprintln(w, "obs r")
				mk("p")
				fmt.Fprintln(w, "obs p")
			}
		}
	}
}

// genExhaustiveHist: all histories up to a bounded length over a set of small types with 2-3
// candidate values per slot.
func exhaustiveTypes() []*Ty {
	u8 := &Ty{Kind: KUint, N: 1}
	u64 := &Ty{Kind: KUint, N: 8}
	return []*Ty{
		{Kind: KList, N: 3, Elem: u8},
		{Kind: KList, N: 5, Elem: u64},
		{Kind: KBitlist, N: 3},
		{Kind: KVector, N: 2, Elem: u8},
		{Kind: KBitvector, N: 3},
		{Kind: KList, N: 2, Elem: &Ty{Kind: KBytesN, N: 32}},
		{Kind: KList, N: 3, Elem: &Ty{Kind: KBitlist, N: 2}},
		{Kind: KContainer, Fields: []*Ty{u8, {Kind: KList, N: 2, Elem: u8}}},
		{Kind: KUnion, HasNone: true, Fields: []*Ty{u8}},
		{Kind: KUnion, Fields: []*Ty{u8, {Kind: KBitlist, N: 2}}},
		{Kind: KList, N: 1 << 40, Elem: u64},
		{Kind: KVector, N: 2, Elem: &Ty{Kind: KList, N: 2, Elem: u8}},
		{Kind: KVector, N: 3, Elem: &Ty{Kind: KContainer, Fields: []*Ty{u64, u64}}},
	}
}

func genExhaustiveHist(g *Gen, tier string, w *bufio.Writer) {
	maxLen := 3
	if tier == "thorough" {
		maxLen = 5
	}
	for _, t := range exhaustiveTypes() {
		ops := candidateOps(t)
		var rec func(prefix []string)
		rec = func(prefix []string) {
			if len(prefix) > 0 {
				fmt.Fprintln(w, "begin")
				fmt.Fprintf(w, "mk r def %s\n", t)
				for _, o := range prefix {
					fmt.Fprintln(w, o)
				}
				fmt.Fprintln(w, "obs r")
				// the same history with inserted values that were never hashed, and no root request
				// before the last step
				fmt.Fprintln(w, "begin")
				fmt.Fprintf(w, "mk r def %s\n", t)
				for _, o := range prefix {
					for _, pre := range []string{"set ", "app ", "chg "} {
						if strings.HasPrefix(o, pre) {
							o = pre[:3] + "u " + o[4:]
						}
					}
					fmt.Fprintln(w, o)
				}
				fmt.Fprintln(w, "obs r")
			}
			if len(prefix) == maxLen {
				return
			}
			for _, o := range ops {
				rec(append(append([]string{}, prefix...), o))
			}
		}
		rec(nil)
	}
}

func candidateOps(t *Ty) []string {
	switch t.Kind {
	case KList:
		var ops []string
		switch t.Elem.Kind {
		case KUint:
			ops = []string{"app r n1", "app r n255", "pop r", "set r 0 n7", "set r 1 n9"}
		case KBytesN:
			ops = []string{"app r x" + fmt.Sprintf("%064x", 1), "pop r", "set r 0 x" + fmt.Sprintf("%064x", 2)}
		case KBitlist:
			ops = []string{"app r b1", "app r b", "pop r", "set r 0 b01", "get h1 r 0", "app h1 t"}
		}
		return ops
	case KBitlist:
		return []string{"app r t", "app r f", "pop r", "set r 0 t", "set r 1 f"}
	case KVector:
		if t.Elem.Kind == KUint {
			return []string{"set r 0 n3", "set r 1 n4", "set r 2 n5"}
		}
		if t.Elem.Kind == KContainer {
			return []string{"set r 0 s 2 n1 n2", "set r 1 s 2 n3 n4", "set r 0 s 2 n5 n6", "get h1 r 0", "set h1 0 n9", "set r 2 s 2 n0 n0"}
		}
		return []string{"get h1 r 0", "get h2 r 1", "app h1 n1", "app h2 n2", "pop h1", "set r 0 s 1 n9"}
	case KBitvector:
		return []string{"set r 0 t", "set r 2 t", "set r 0 f", "set r 3 t"}
	case KContainer:
		return []string{"set r 0 n5", "get h1 r 1", "app h1 n1", "pop h1", "set r 1 s 2 n1 n2", "set r 2 n1"}
	case KUnion:
		if t.HasNone {
			return []string{"chg r 0 _", "chg r 1 n5", "chg r 1 n6", "chg r 2 n1"}
		}
		return []string{"chg r 0 n5", "chg r 1 b1", "chg r 1 b", "chg r 2 n1"}
	}
	return nil
}

// genIterInterleaved: two read-only iterators alive at the same time, advanced alternately
func genIterInterleaved(g *Gen, w *bufio.Writer) {
	pairs := [][2]*Ty{
		{{Kind: KBitlist, N: 2048}, {Kind: KBitlist, N: 2048}},
		{{Kind: KBitvector, N: 700}, {Kind: KBitlist, N: 1 << 20}},
		{{Kind: KList, N: 64, Elem: &Ty{Kind: KBytesN, N: 32}}, {Kind: KVector, N: 5, Elem: &Ty{Kind: KBytesN, N: 32}}},
		{{Kind: KList, N: 300, Elem: &Ty{Kind: KUint, N: 2}}, {Kind: KList, N: 300, Elem: &Ty{Kind: KUint, N: 2}}},
		{{Kind: KVector, N: 6, Elem: &Ty{Kind: KBytesN, N: 4}}, {Kind: KList, N: 9, Elem: &Ty{Kind: KBytesN, N: 4}}},
	}
	for _, pr := range pairs {
		for rep := 0; rep < 3; rep++ {
			fmt.Fprintln(w, "begin")
			for k, t := range pr {
				var v *Val
				if t.Kind == KBitlist {
					v = &Val{Kind: VBits, Bits: g.randBits(300 + g.Intn(400))}
				} else if t.Kind == KList {
					n := 3 + g.Intn(40)
					if uint64(n) > t.N {
						n = int(t.N)
					}
					v = &Val{Kind: VSeq, Seq: []*Val{}}
					for j := 0; j < n; j++ {
						v.Seq = append(v.Seq, g.RandVal(t.Elem, 2))
					}
				} else {
					v = g.RandVal(t, 800)
				}
				fmt.Fprintf(w, "mk %s new %s %s\n", []string{"r", "q"}[k], t, v)
			}
			fmt.Fprintln(w, "iter2 r q")
			fmt.Fprintln(w, "iter2 q r")
		}
	}
}

// genIterBoundaries: series whose lengths end inside / at / just after a 32-byte or 256-bit
// chunk, with depth larger than the length needs (large limits).
func genIterBoundaries(g *Gen, tier string, w *bufio.Writer) {
	lens := []uint64{0, 1, 2, 31, 32, 33, 63, 64, 65}
	for _, lim := range []uint64{0, 1, 2, 33, 64, 65, 1 << 20, 1 << 40} {
		for _, e := range []*Ty{{Kind: KUint, N: 1}, {Kind: KUint, N: 2}, {Kind: KUint, N: 8}, {Kind: KUint, N: 32}, {Kind: KBytesN, N: 32}, {Kind: KBitlist, N: 5},
			{Kind: KVector, N: 4, Elem: &Ty{Kind: KUint, N: 1}}, {Kind: KVector, N: 5, Elem: &Ty{Kind: KUint, N: 8}}, {Kind: KList, N: 4, Elem: &Ty{Kind: KUint, N: 2}}, {Kind: KBitvector, N: 9}} {
			for _, n := range lens {
				if n > lim {
					continue
				}
				t := &Ty{Kind: KList, N: lim, Elem: e}
				v := &Val{Kind: VSeq, Seq: []*Val{}}
				for k := uint64(0); k < n; k++ {
					v.Seq = append(v.Seq, g.RandVal(e, 4))
				}
				fmt.Fprintln(w, "begin")
				fmt.Fprintf(w, "mk r %s %s %s\n", []string{"new", "dec"}[g.Intn(2)], t, v)
				fmt.Fprintln(w, "iter r ro")
				fmt.Fprintln(w, "iter r idx")
				if n >= 1 && n <= 33 && lim == 65 {
					vt := &Ty{Kind: KVector, N: n, Elem: e}
					fmt.Fprintln(w, "begin")
					fmt.Fprintf(w, "mk r new %s %s\n", vt, v)
					fmt.Fprintln(w, "iter r ro")
					fmt.Fprintln(w, "iter r idx")
				}
			}
		}
	}
	// every tree depth around 32 (and the deepest navigable ones): 32-bit index arithmetic
	for _, k := range []uint{27, 28, 29, 30, 31, 32, 33, 34, 35, 36, 37, 38, 47, 48, 61, 62} {
		lim := uint64(1) << k
		u64e := &Ty{Kind: KUint, N: 8}
		for _, t := range []*Ty{
			{Kind: KList, N: lim, Elem: &Ty{Kind: KContainer, Fields: []*Ty{u64e, u64e}}},
			{Kind: KList, N: lim, Elem: &Ty{Kind: KList, N: 4, Elem: &Ty{Kind: KUint, N: 2}}},
			{Kind: KList, N: lim, Elem: u64e},
			{Kind: KList, N: lim, Elem: &Ty{Kind: KUint, N: 1}},
			{Kind: KList, N: lim, Elem: &Ty{Kind: KBytesN, N: 32}},
			{Kind: KBitlist, N: lim},
		} {
			var v *Val
			if t.Kind == KBitlist {
				v = &Val{Kind: VBits, Bits: g.randBits(5 + g.Intn(300))}
			} else {
				v = &Val{Kind: VSeq, Seq: []*Val{}}
				for j := 0; j < 5+g.Intn(4); j++ {
					v.Seq = append(v.Seq, g.RandVal(t.Elem, 3))
				}
			}
			fmt.Fprintln(w, "begin")
			fmt.Fprintf(w, "mk r %s %s %s\n", []string{"new", "dec"}[g.Intn(2)], t, v)
			fmt.Fprintln(w, "iter r ro")
			fmt.Fprintln(w, "iter r idx")
		}
	}
	// hand-written length nodes: beyond the limit every iterator (and every other read that
	// starts from Length()) reports the error for ever; inside the limit CORR only
	for _, lim := range []uint64{1, 4, 5, 32, 33, 256, 257, 1 << 20, 1 << 40} {
		for _, e := range []*Ty{{Kind: KUint, N: 1}, {Kind: KUint, N: 8}, {Kind: KUint, N: 32}, {Kind: KBitlist, N: 5}, {Kind: KList, N: 4, Elem: &Ty{Kind: KUint, N: 2}}, nil} {
			for _, n := range []uint64{0, 1, 3, 33} {
				if n > lim {
					continue
				}
				var t *Ty
				var v *Val
				if e == nil {
					t = &Ty{Kind: KBitlist, N: lim}
					v = &Val{Kind: VBits, Bits: g.randBits(int(n))}
				} else {
					t = &Ty{Kind: KList, N: lim, Elem: e}
					v = &Val{Kind: VSeq, Seq: []*Val{}}
					for k := uint64(0); k < n; k++ {
						v.Seq = append(v.Seq, g.RandVal(e, 4))
					}
				}
				ovs := []uint64{lim + 1, lim + 2, lim * 2, lim + uint64(g.Intn(1000)) + 1, 1 << 63, ^uint64(0), g.U64() | lim + 1}
				if lim > 1 {
					ovs = append(ovs, uint64(g.Intn(int(min64(lim, 40))+1)), lim)
				}
				for _, ov := range ovs {
					fmt.Fprintln(w, "begin")
					fmt.Fprintf(w, "mk r %s %s %s\n", []string{"new", "dec"}[g.Intn(2)], t, v)
					fmt.Fprintf(w, "tamper r %d\n", ov)
					fmt.Fprintln(w, "iter r ro")
					fmt.Fprintln(w, "iter r idx")
					fmt.Fprintln(w, "len r")
					if ov > lim {
						fmt.Fprintln(w, "pop r")
						fmt.Fprintln(w, "iter r ro")
					}
				}
			}
		}
	}
	// more than three 256-bit chunks / 32-byte chunks: the iterators' backtracking over chunk
	// indices that are not powers of two (3, 5, 6, 7, …)
	for _, n := range []uint64{768, 769, 1023, 1024, 1025, 1279, 1281, 1792, 2047, 2048, 2049, 4097} {
		for _, t := range []*Ty{{Kind: KBitvector, N: n}, {Kind: KBitlist, N: n}, {Kind: KBitlist, N: 1 << 30}} {
			fmt.Fprintln(w, "begin")
			fmt.Fprintf(w, "mk r %s %s %s\n", []string{"new", "dec"}[g.Intn(2)], t, &Val{Kind: VBits, Bits: g.randBits(int(n))})
			fmt.Fprintln(w, "iter r ro")
			fmt.Fprintln(w, "iter r idx")
		}
	}
	// more than 512 bottom chunks (chunk indices that need more than 8 / 9 bits)
	for _, c := range []struct {
		e *Ty
		n uint64
	}{{&Ty{Kind: KUint, N: 8}, 2100}, {&Ty{Kind: KUint, N: 1}, 16500}, {&Ty{Kind: KUint, N: 32}, 520}, {&Ty{Kind: KBytesN, N: 32}, 515}} {
		for _, t := range []*Ty{{Kind: KVector, N: c.n, Elem: c.e}, {Kind: KList, N: 1 << 30, Elem: c.e}} {
			fmt.Fprintln(w, "begin")
			fmt.Fprintf(w, "mk r %s %s %s\n", []string{"new", "dec"}[g.Intn(2)], t, g.RandVal(&Ty{Kind: KVector, N: c.n, Elem: c.e}, 1<<20))
			fmt.Fprintln(w, "iter r ro")
			fmt.Fprintln(w, "iter r idx")
		}
	}
	for _, n := range []uint64{131073, 140000} {
		t := &Ty{Kind: KBitvector, N: n}
		fmt.Fprintln(w, "begin")
		fmt.Fprintf(w, "mk r new %s %s\n", t, &Val{Kind: VBits, Bits: g.randBits(int(n))})
		fmt.Fprintln(w, "iter r ro")
	}
	for _, n := range []uint64{96, 97, 128, 129, 160, 161, 224, 255, 257} {
		for _, e := range []*Ty{{Kind: KUint, N: 1}, {Kind: KUint, N: 2}} {
			for _, t := range []*Ty{{Kind: KVector, N: n, Elem: e}, {Kind: KList, N: n, Elem: e}, {Kind: KList, N: 1 << 30, Elem: e}} {
				fmt.Fprintln(w, "begin")
				fmt.Fprintf(w, "mk r %s %s %s\n", []string{"new", "dec"}[g.Intn(2)], t, g.RandVal(&Ty{Kind: KVector, N: n, Elem: e}, 1000))
				fmt.Fprintln(w, "iter r ro")
				fmt.Fprintln(w, "iter r idx")
			}
		}
	}
	for _, lim := range []uint64{0, 1, 8, 255, 256, 257, 513, 1 << 20, 1 << 40} {
		for _, n := range []uint64{0, 1, 7, 8, 9, 255, 256, 257, 511, 512, 513} {
			if n <= lim {
				t := &Ty{Kind: KBitlist, N: lim}
				fmt.Fprintln(w, "begin")
				fmt.Fprintf(w, "mk r new %s %s\n", t, &Val{Kind: VBits, Bits: g.randBits(int(n))})
				fmt.Fprintln(w, "iter r ro")
				fmt.Fprintln(w, "iter r idx")
			}
			if n >= 1 && lim == 513 {
				t := &Ty{Kind: KBitvector, N: n}
				fmt.Fprintln(w, "begin")
				fmt.Fprintf(w, "mk r new %s %s\n", t, &Val{Kind: VBits, Bits: g.randBits(int(n))})
				fmt.Fprintln(w, "iter r ro")
				fmt.Fprintln(w, "iter r idx")
			}
		}
	}
}

// genBoundaryHist: lists and bitlists whose length sits at / just below / just above a packing
// boundary (32-byte chunk, 256-bit chunk, power-of-two node counts), mutated back and forth
// across the boundary.
func genBoundaryHist(g *Gen, tier string, w *bufio.Writer) {
	reps := tierN(tier, 1, 6)
	type cfg struct {
		t    *Ty
		lens []uint64
	}
	var cfgs []cfg
	for _, lim := range []uint64{256, 257, 512, 600, 1 << 20, 1 << 40} {
		var ls []uint64
		for _, n := range []uint64{255, 256, 257, 511, 512, 513} {
			if n <= lim {
				ls = append(ls, n)
			}
		}
		cfgs = append(cfgs, cfg{&Ty{Kind: KBitlist, N: lim}, ls})
	}
	for _, sz := range []uint64{1, 2, 4, 8, 32} {
		per := 32 / sz
		for _, lim := range []uint64{per * 2, per*4 + 1, 1 << 20} {
			var ls []uint64
			for _, n := range []uint64{per - 1, per, per + 1, 2*per - 1, 2 * per, 2*per + 1, 4 * per, 4*per + 1} {
				if n <= lim && n <= 200 {
					ls = append(ls, n)
				}
			}
			cfgs = append(cfgs, cfg{&Ty{Kind: KList, N: lim, Elem: &Ty{Kind: KUint, N: sz}}, ls})
		}
	}
	for _, lim := range []uint64{2, 3, 4, 5, 8, 9, 1 << 32} {
		var ls []uint64
		for _, n := range []uint64{1, 2, 3, 4, 5, 8} {
			if n <= lim {
				ls = append(ls, n)
			}
		}
		cfgs = append(cfgs, cfg{&Ty{Kind: KList, N: lim, Elem: &Ty{Kind: KBytesN, N: 32}}, ls})
		cfgs = append(cfgs, cfg{&Ty{Kind: KList, N: lim, Elem: &Ty{Kind: KContainer, Fields: []*Ty{{Kind: KUint, N: 8}}}}, ls})
	}
	for rep := 0; rep < reps; rep++ {
		for _, c := range cfgs {
			for _, n := range c.lens {
				var v *Val
				if c.t.Kind == KBitlist {
					bits := g.randBits(int(n))
					if n > 0 && g.Chance(70) {
						bits[n-1] = true
					}
					v = &Val{Kind: VBits, Bits: bits}
				} else {
					v = &Val{Kind: VSeq, Seq: []*Val{}}
					for k := uint64(0); k < n; k++ {
						v.Seq = append(v.Seq, g.RandVal(c.t.Elem, 4))
					}
				}
				fmt.Fprintln(w, "begin")
				fmt.Fprintf(w, "mk r %s %s %s\n", []string{"new", "dec"}[g.Intn(2)], c.t, v)
				sh := &shadow{name: "r", t: c.t, v: v}
				pattern := [][]string{{"pop", "pop", "app", "app", "app"}, {"app", "pop", "pop"}, {"pop", "app"}, {"app", "app", "pop", "pop", "pop"}}[g.Intn(4)]
				for _, op := range pattern {
					switch op {
					case "pop":
						fmt.Fprintln(w, "pop r")
						if sh.v.Kind == VBits && len(sh.v.Bits) > 0 {
							sh.v = &Val{Kind: VBits, Bits: sh.v.Bits[:len(sh.v.Bits)-1]}
						} else if sh.v.Kind == VSeq && len(sh.v.Seq) > 0 {
							sh.v = &Val{Kind: VSeq, Seq: sh.v.Seq[:len(sh.v.Seq)-1]}
						}
					case "app":
						var x *Val
						if c.t.Kind == KBitlist {
							x = &Val{Kind: VBool, B: g.Chance(70)}
						} else {
							x = g.RandVal(c.t.Elem, 4)
						}
						fmt.Fprintf(w, "app r %s\n", x)
					}
					fmt.Fprintln(w, "obs r")
				}
			}
		}
	}
}

// genC07Targeted: single mutations on fully hashed views where the path bound is tight:
// appends from empty through every power-of-two boundary (zero padding is expanded level by
// level), sets, pops, default-constructed vectors (shared children), mutations through nested
// sub-views, and elements moved from one tree into another.
func genC07Targeted(g *Gen, tier string, w *bufio.Writer, begin string) {
	u64 := &Ty{Kind: KUint, N: 8}
	elems := []*Ty{u64, {Kind: KUint, N: 1}, {Kind: KBytesN, N: 32}, {Kind: KContainer, Fields: []*Ty{u64, u64}}, {Kind: KContainer, Fields: []*Ty{u64}}}
	limits := []uint64{4, 16, 1024, 1 << 20, 1 << 40}
	steps := tierN(tier, 18, 70)
	for _, e := range elems {
		for _, lim := range limits {
			lt := &Ty{Kind: KList, N: lim, Elem: e}
			fmt.Fprintln(w, begin)
			fmt.Fprintf(w, "mk r def %s\n", lt)
			fmt.Fprintln(w, "hcount r")
			n := uint64(0)
			for k := 0; k < steps && n < lim; k++ {
				if g.Chance(15) {
					fmt.Fprintln(w, "appd r")
				} else {
					fmt.Fprintf(w, "app r %s\n", g.RandVal(e, 4))
				}
				n++
				fmt.Fprintln(w, "hcount r")
			}
			for k := 0; k < 4 && n > 0; k++ {
				fmt.Fprintf(w, "set r %d %s\n", g.Intn(int(n)), g.RandVal(e, 4))
				fmt.Fprintln(w, "hcount r")
				if k == 1 {
					// the zero-hash table is initialised again with the same function: cached roots stay valid
					fmt.Fprintf(w, "rehash %s\n", map[string]string{"begin": "sha", "begin z": "z"}[begin])
					fmt.Fprintln(w, "hcount r")
				}
			}
			for k := 0; k < 5 && n > 0; k++ {
				fmt.Fprintln(w, "pop r")
				n--
				fmt.Fprintln(w, "hcount r")
				if n > 0 && g.Chance(50) {
					fmt.Fprintf(w, "set r %d %s\n", g.Intn(int(n)), g.RandVal(e, 4))
					fmt.Fprintln(w, "hcount r")
				}
			}
		}
		// default-constructed vectors: children are shared nodes
		for _, k := range []uint64{2, 5, 16, 33} {
			vt := &Ty{Kind: KVector, N: k, Elem: e}
			fmt.Fprintln(w, begin)
			fmt.Fprintf(w, "mk r def %s\n", vt)
			fmt.Fprintln(w, "hcount r")
			fmt.Fprintln(w, "hcount r")
			for j := 0; j < 3; j++ {
				fmt.Fprintf(w, "set r %d %s\n", g.Intn(int(k)), g.RandVal(e, 4))
				fmt.Fprintln(w, "hcount r")
			}
		}
	}
	fmt.Fprintln(w, begin)
	fmt.Fprintf(w, "mk r def %s\n", &Ty{Kind: KBitvector, N: 1024})
	fmt.Fprintln(w, "hcount r")
	fmt.Fprintln(w, "hcount r")
	fmt.Fprintln(w, "set r 700 t")
	fmt.Fprintln(w, "hcount r")
	// nested sub-views and elements moved between trees
	inner := &Ty{Kind: KContainer, Fields: []*Ty{u64, u64, u64}}
	la := &Ty{Kind: KList, N: 8, Elem: inner}
	outer := &Ty{Kind: KContainer, Fields: []*Ty{la, la, u64}}
	for rep := 0; rep < tierN(tier, 6, 40); rep++ {
		v := g.RandVal(outer, 60)
		if len(v.Seq[0].Seq) == 0 {
			v.Seq[0].Seq = append(v.Seq[0].Seq, g.RandVal(inner, 4))
		}
		if len(v.Seq[1].Seq) >= 8 {
			v.Seq[1].Seq = v.Seq[1].Seq[:7]
		}
		fmt.Fprintln(w, begin)
		fmt.Fprintf(w, "mk r new %s %s\n", outer, v)
		fmt.Fprintln(w, "hcount r")
		fmt.Fprintln(w, "get a r 0")
		fmt.Fprintln(w, "get b r 1")
		fmt.Fprintln(w, "get e a 0")
		fmt.Fprintf(w, "set e 1 %s\n", g.RandVal(u64, 1))
		fmt.Fprintln(w, "hcount r")
		fmt.Fprintln(w, "appv b e") // an already hashed element view bound into another list
		fmt.Fprintln(w, "hcount r")
		if len(v.Seq[1].Seq) > 0 {
			fmt.Fprintln(w, "setv b 0 e")
			fmt.Fprintln(w, "hcount r")
		}
		// root requests on nested sub-views and on a copy change nothing: the root view stays hashed
		fmt.Fprintln(w, "obs e")
		fmt.Fprintln(w, "obs a")
		fmt.Fprintln(w, "hcount r")
		fmt.Fprintln(w, "copy c r")
		fmt.Fprintln(w, "obs c")
		fmt.Fprintln(w, "hcount r")
		fmt.Fprintln(w, "hcount c")
		// an element bound next to itself / a sibling bound over its neighbour (already hashed values)
		if len(v.Seq[0].Seq) >= 2 {
			fmt.Fprintln(w, "get e1 a 1")
			fmt.Fprintln(w, "setv a 0 e1")
			fmt.Fprintln(w, "hcount r")
		}
		// the copy is untouched by changes of the original
		fmt.Fprintf(w, "set r 2 %s\n", g.RandVal(u64, 1))
		fmt.Fprintln(w, "hcount r")
		fmt.Fprintln(w, "hcount c")
		fmt.Fprintln(w, "obs r")
	}
	// a fresh Copy() / Get() / iterator element of a hashed view shares its hashed backing: the
	// count is taken WITHOUT a warm-up root request on the new view object, and binding such a view
	// elsewhere costs the path only
	un := &Ty{Kind: KUnion, Fields: []*Ty{u64, inner}}
	unN := &Ty{Kind: KUnion, HasNone: true, Fields: []*Ty{inner}}
	for _, ft := range []*Ty{
		{Kind: KContainer, Fields: []*Ty{u64, la, un, u64, {Kind: KVector, N: 4, Elem: inner}, u64, u64, unN}},
		{Kind: KList, N: 8, Elem: un},
		{Kind: KVector, N: 4, Elem: &Ty{Kind: KContainer, Fields: []*Ty{un, u64, unN}}},
		{Kind: KList, N: 16, Elem: &Ty{Kind: KContainer, Fields: []*Ty{u64, u64, u64, u64, u64, u64, u64, u64}}},
		outer,
	} {
		for rep := 0; rep < 3; rep++ {
			v := g.RandVal(ft, 60)
			n := 0
			if ft.Kind == KList {
				for len(v.Seq) < 3 {
					v.Seq = append(v.Seq, g.RandVal(ft.Elem, 8))
				}
				if uint64(len(v.Seq)) >= ft.N {
					v.Seq = v.Seq[:ft.N-1]
				}
				n = len(v.Seq)
			} else if ft.Kind == KVector {
				n = int(ft.N)
			} else {
				n = len(ft.Fields)
			}
			fmt.Fprintln(w, begin)
			fmt.Fprintf(w, "mk r %s %s %s\n", []string{"new", "dec"}[rep%2], ft, v)
			fmt.Fprintln(w, "hcount r")
			fmt.Fprintln(w, "copy c r")
			fmt.Fprintln(w, "hcount c")
			for i := 0; i < n && i < 8; i++ {
				fmt.Fprintf(w, "get s%d r %d\n", i, i)
				fmt.Fprintf(w, "hcount s%d\n", i)
				fmt.Fprintf(w, "copy k%d s%d\n", i, i)
				fmt.Fprintf(w, "hcount k%d\n", i)
			}
			if ft.Kind == KList || ft.Kind == KVector {
				fmt.Fprintf(w, "get x r %d\n", n-1)
				fmt.Fprintln(w, "setv r 0 x") // list.Set(0, list.Get(n-1)) without touching x in between
				fmt.Fprintln(w, "hcount r")
				fmt.Fprintln(w, "get y r 1")
				fmt.Fprintln(w, "copy z y")
				if ft.Kind == KList {
					fmt.Fprintln(w, "appv r z") // list.Append(elem.Copy())
				} else {
					fmt.Fprintln(w, "setv r 2 z")
				}
				fmt.Fprintln(w, "hcount r")
			}
		}
	}
	// default vectors of composites (all slots share one node): a write through a sub-view
	dv := &Ty{Kind: KVector, N: 4, Elem: inner}
	for rep := 0; rep < 3; rep++ {
		fmt.Fprintln(w, begin)
		fmt.Fprintf(w, "mk r def %s\n", dv)
		fmt.Fprintln(w, "hcount r")
		fmt.Fprintf(w, "get e r %d\n", rep)
		fmt.Fprintf(w, "set e 1 %s\n", g.RandVal(u64, 1))
		fmt.Fprintln(w, "hcount r")
		fmt.Fprintf(w, "get f r %d\n", rep+1)
		fmt.Fprintf(w, "setv r %d f\n", rep) // the neighbour's (shared default) node bound beside itself
		fmt.Fprintln(w, "hcount r")
	}
}

func min64(a, b uint64) uint64 {
	if a < b {
		return a
	}
	return b
}
