package main

// Op family "fl.*" (properties C09, C10): the FLAT codec (package codec, tree.ReadRoots…,
// the basic values' Serialize/Deserialize) driven through the generic flat value of flat.go.
//
//   fl.enc T V            -> ok <xbytes> <ByteLength> <FixedLength> | err | panic
//   fl.dec <prior> T V    -> ok <value read back from the destination struct> | err | panic
//                            prior = fresh | short | long : the destination is a zero struct, or one
//                            that first decoded flatShort(T,V) / flatLong(T,V) (derived deterministically)
//   fl.raw T <xbytes>     -> ok <xre-encoded> <value> | err | panic      (fresh destination, scope = len)

import (
	"bufio"
	"bytes"
	"encoding/binary"
	"fmt"
	"math/big"

	"github.com/protolambda/ztyp/codec"
)

func init() {
	registerExec("fl.enc", execFlEnc)
	registerExec("fl.dec", execFlDec)
	registerExec("fl.raw", execFlRaw)
	registerGen("C09", genC09)
	registerGen("C10", genC10)
}

func flatEncode(f *flatVal) ([]byte, error) {
	var buf bytes.Buffer
	if err := f.asSer().Serialize(codec.NewEncodingWriter(&buf)); err != nil {
		return nil, err
	}
	return buf.Bytes(), nil
}

func flatDecodeInto(f *flatVal, bs []byte) error {
	return f.asDes().Deserialize(codec.NewDecodingReader(bytes.NewReader(bs), uint64(len(bs))))
}

func execFlEnc(st *State, args []string) string {
	p := &parser{toks: args}
	t := p.ty()
	v := p.val()
	f := flatFromVal(t, v)
	bs, err := flatEncode(f)
	if err != nil {
		return "err"
	}
	return fmt.Sprintf("ok %s %d %d", hexs(bs), f.asSer().ByteLength(), f.asSer().FixedLength())
}

func execFlDec(st *State, args []string) string {
	prior := args[0]
	p := &parser{toks: args[1:]}
	t := p.ty()
	v := p.val()
	f := newFlat(t)
	switch prior {
	case "fresh":
	case "short":
		if err := flatDecodeInto(f, refSer(t, flatShort(t, v))); err != nil {
			return "err"
		}
	case "long":
		if err := flatDecodeInto(f, refSer(t, flatLong(t, v))); err != nil {
			return "err"
		}
	default:
		panic("parse: bad prior " + prior)
	}
	if err := flatDecodeInto(f, refSer(t, v)); err != nil {
		return "err"
	}
	return "ok " + f.toVal().String()
}

// The decode is run twice: into a fresh destination and into a recycled one (every byte / root
// slice of the destination's top level and container fields holds 3 stale items and has spare
// capacity for 4096); the observation must not depend on it (the second is appended if it does).
func execFlRaw(st *State, args []string) string {
	a := flRaw(args, false)
	b := func() (res string) {
		defer func() {
			if r := recover(); r != nil {
				res = "panic"
			}
		}()
		return flRaw(args, true)
	}()
	if a != b {
		return a + " recycled:" + b
	}
	return a
}

func flRaw(args []string, recycled bool) string {
	p := &parser{toks: args}
	t := p.ty()
	bs := unhex(p.next())
	f := newFlat(t)
	if recycled {
		flatPresize(f, 3, 4096)
	}
	if err := flatDecodeInto(f, bs); err != nil {
		return "err"
	}
	out, err := flatEncode(f)
	if err != nil {
		return "ok reser-err"
	}
	return fmt.Sprintf("ok %s %s", hexs(out), f.toVal())
}

// ---- deterministic prior values (mirrored by Driver/OpsFlat.lean) ----

// flatChg changes every byte/bit of a leaf value.
func flatChg(t *Ty, v *Val) *Val {
	switch t.Kind {
	case KUint:
		m := new(big.Int).Lsh(big.NewInt(1), uint(8*t.N))
		n := new(big.Int).Add(v.Num, big.NewInt(1))
		return &Val{Kind: VNum, Num: n.Mod(n, m)}
	case KBool:
		return &Val{Kind: VBool, B: !v.B}
	case KBytesN:
		out := make([]byte, len(v.Bytes))
		for i, b := range v.Bytes {
			out[i] = b + 1
		}
		return &Val{Kind: VBytes, Bytes: out}
	case KBitvector:
		out := make([]bool, len(v.Bits))
		for i, b := range v.Bits {
			out[i] = !b
		}
		return &Val{Kind: VBits, Bits: out}
	}
	panic("not a leaf")
}

var flatLongTail = []bool{true, false, true, true, false, false, true, false, true}

// flatShort: same type, every list and bitlist emptied, every leaf changed, unions at their default.
func flatShort(t *Ty, v *Val) *Val {
	switch t.Kind {
	case KUint, KBool, KBytesN, KBitvector:
		return flatChg(t, v)
	case KBitlist:
		return &Val{Kind: VBits, Bits: []bool{}}
	case KVector:
		r := &Val{Kind: VSeq, Seq: []*Val{}}
		for _, e := range v.Seq {
			r.Seq = append(r.Seq, flatShort(t.Elem, e))
		}
		return r
	case KList:
		return &Val{Kind: VSeq, Seq: []*Val{}}
	case KContainer:
		r := &Val{Kind: VSeq, Seq: []*Val{}}
		for i, e := range v.Seq {
			r.Seq = append(r.Seq, flatShort(t.Fields[i], e))
		}
		return r
	case KUnion:
		return DefaultVal(t)
	}
	panic("bad type")
}

// flatLong: same type, every list doubled plus one element and every bitlist doubled plus
// nine bits (cut at the limit), every leaf changed, unions keep their selector.
func flatLong(t *Ty, v *Val) *Val {
	switch t.Kind {
	case KUint, KBool, KBytesN, KBitvector:
		return flatChg(t, v)
	case KBitlist:
		var out []bool
		for _, b := range v.Bits {
			out = append(out, !b)
		}
		out = append(out, v.Bits...)
		out = append(out, flatLongTail...)
		if uint64(len(out)) > t.N {
			out = out[:t.N]
		}
		return &Val{Kind: VBits, Bits: append([]bool{}, out...)}
	case KVector:
		r := &Val{Kind: VSeq, Seq: []*Val{}}
		for _, e := range v.Seq {
			r.Seq = append(r.Seq, flatLong(t.Elem, e))
		}
		return r
	case KList:
		r := &Val{Kind: VSeq, Seq: []*Val{}}
		for k := 0; k < 2; k++ {
			for _, e := range v.Seq {
				r.Seq = append(r.Seq, flatLong(t.Elem, e))
			}
		}
		r.Seq = append(r.Seq, flatLong(t.Elem, DefaultVal(t.Elem)))
		if uint64(len(r.Seq)) > t.N {
			r.Seq = r.Seq[:t.N]
		}
		return r
	case KContainer:
		r := &Val{Kind: VSeq, Seq: []*Val{}}
		for i, e := range v.Seq {
			r.Seq = append(r.Seq, flatLong(t.Fields[i], e))
		}
		return r
	case KUnion:
		if v.Inner.Kind == VNone {
			return &Val{Kind: VUnion, Sel: v.Sel, Inner: &Val{Kind: VNone}}
		}
		return &Val{Kind: VUnion, Sel: v.Sel, Inner: flatLong(unionOpt(t, v.Sel), v.Inner)}
	}
	panic("bad type")
}

// ---- generators ----

func emitC09(w *bufio.Writer, t *Ty, v *Val) {
	fmt.Fprintf(w, "fl.enc %s %s\n", t, v)
	fmt.Fprintf(w, "fl.dec fresh %s %s\n", t, v)
	fmt.Fprintf(w, "fl.dec short %s %s\n", t, v)
	fmt.Fprintf(w, "fl.dec long %s %s\n", t, v)
}

func seqOf(g *Gen, e *Ty, n uint64, budget int) *Val {
	v := &Val{Kind: VSeq, Seq: []*Val{}}
	for k := uint64(0); k < n; k++ {
		v.Seq = append(v.Seq, g.RandVal(e, budget))
	}
	return v
}

func genC09(g *Gen, tier string, w *bufio.Writer) {
	u8 := &Ty{Kind: KUint, N: 1}
	// every boundary length/limit once per element kind, zero elements and full lists included
	elems := []*Ty{u8, {Kind: KUint, N: 2}, {Kind: KUint, N: 4}, {Kind: KUint, N: 8}, {Kind: KUint, N: 32},
		{Kind: KBool}, {Kind: KBytesN, N: 32}, {Kind: KBytesN, N: 5}, {Kind: KBitvector, N: 9}, {Kind: KBitlist, N: 9},
		{Kind: KList, N: 3, Elem: u8},
		{Kind: KContainer, Fields: []*Ty{{Kind: KUint, N: 8}, {Kind: KBool}}},
		{Kind: KContainer, Fields: []*Ty{{Kind: KUint, N: 8}, {Kind: KBitlist, N: 3}}},
		{Kind: KUnion, HasNone: true, Fields: []*Ty{u8, {Kind: KList, N: 2, Elem: u8}}}}
	lims := append(append(append([]uint64{}, smallNums...), packNums...), hugeLimits...)
	for _, e := range elems {
		for _, lim := range lims {
			lt := &Ty{Kind: KList, N: lim, Elem: e}
			for _, ln := range []uint64{0, 1, lim / 2, lim} {
				if ln > lim || ln > 40 {
					continue
				}
				emitC09(w, lt, seqOf(g, e, ln, 8))
			}
			if lim >= 1 && lim <= 33 {
				vt := &Ty{Kind: KVector, N: lim, Elem: e}
				emitC09(w, vt, g.RandVal(vt, 100))
			}
		}
	}
	for _, ct := range wideContainers() {
		for k := 0; k < 3; k++ {
			emitC09(w, ct, g.RandVal(ct, 200))
		}
	}
	for _, n := range append(append(append([]uint64{}, smallNums...), packNums...), bitNums...) {
		bl := &Ty{Kind: KBitlist, N: n}
		for _, ln := range []uint64{0, 1, n / 2, n - 1, n} {
			if ln > n {
				continue
			}
			emitC09(w, bl, &Val{Kind: VBits, Bits: g.randBits(int(ln))})
		}
		for _, hl := range hugeLimits {
			emitC09(w, &Ty{Kind: KBitlist, N: hl}, &Val{Kind: VBits, Bits: g.randBits(int(n))})
		}
		if n >= 1 {
			bv := &Ty{Kind: KBitvector, N: n}
			emitC09(w, bv, &Val{Kind: VBits, Bits: g.randBits(int(n))})
			// byte lists / byte vectors at the bit-count boundaries as well
			emitC09(w, &Ty{Kind: KVector, N: n, Elem: u8}, seqOf(g, u8, n, 1))
			emitC09(w, &Ty{Kind: KList, N: n, Elem: u8}, seqOf(g, u8, n, 1))
			emitC09(w, &Ty{Kind: KList, N: 1 << 32, Elem: u8}, seqOf(g, u8, n, 1))
		}
		if n >= 1 && n <= 32 {
			bt := &Ty{Kind: KBytesN, N: n}
			emitC09(w, bt, g.RandVal(bt, 1))
		}
	}
	// random compositions
	n := tierN(tier, 4000, 40000)
	o := TyOpts{}
	for i := 0; i < n; i++ {
		t := g.RandTy(1+g.Intn(3), o)
		v := g.RandVal(t, 120)
		emitC09(w, t, v)
	}
}

func genC10(g *Gen, tier string, w *bufio.Writer) {
	// exhaustive short strings for the small types with a variable-size top level
	maxLen := 2
	if tier == "thorough" {
		maxLen = 3
	}
	for _, t := range smallTypes() {
		if isFixed(t) {
			continue
		}
		var rec func(prefix []byte)
		rec = func(prefix []byte) {
			fmt.Fprintf(w, "fl.raw %s %s\n", t, hexs(prefix))
			if len(prefix) == maxLen {
				return
			}
			for b := 0; b < 256; b++ {
				if len(prefix) >= 1 && !(b <= 9 || b == 0x7f || b == 0x80 || b == 0xff) {
					continue
				}
				rec(append(append([]byte{}, prefix...), byte(b)))
			}
		}
		rec(nil)
	}
	// offset-word enumeration on offset-carrying types (as gen_c03.go)
	u8 := &Ty{Kind: KUint, N: 1}
	l4 := &Ty{Kind: KList, N: 4, Elem: u8}
	offTypes := []*Ty{
		{Kind: KList, N: 3, Elem: &Ty{Kind: KBitlist, N: 9}},
		{Kind: KList, N: 1 << 40, Elem: l4},
		{Kind: KVector, N: 2, Elem: l4},
		{Kind: KContainer, Fields: []*Ty{l4, l4}},
		{Kind: KContainer, Fields: []*Ty{u8, {Kind: KBitlist, N: 9}}},
		{Kind: KContainer, Fields: []*Ty{{Kind: KList, N: 2, Elem: &Ty{Kind: KBytesN, N: 32}}, {Kind: KUint, N: 2}, l4}},
		{Kind: KUnion, HasNone: true, Fields: []*Ty{{Kind: KVector, N: 2, Elem: l4}, {Kind: KUint, N: 4}}},
		// a dynamic field that cannot be empty followed by one that can absorb the remaining bytes
		{Kind: KContainer, Fields: []*Ty{{Kind: KBitlist, N: 9}, l4}},
		{Kind: KContainer, Fields: []*Ty{{Kind: KUnion, HasNone: true, Fields: []*Ty{u8}}, l4}},
		{Kind: KContainer, Fields: []*Ty{{Kind: KContainer, Fields: []*Ty{l4}}, l4}},
		{Kind: KList, N: 4, Elem: &Ty{Kind: KUnion, HasNone: true, Fields: []*Ty{{Kind: KUint, N: 2}, {Kind: KList, N: 8, Elem: u8}}}},
	}
	words := []uint32{0, 1, 3, 4, 5, 7, 8, 9, 11, 12, 13, 16, 0xffffffff, 0x80000000}
	for _, t := range offTypes {
		pre := []byte{}
		if t.Kind == KUnion {
			pre = []byte{1}
		}
		for _, a := range words {
			for _, b := range words {
				for tail := 0; tail <= 3; tail++ {
					bs := make([]byte, 8+tail)
					binary.LittleEndian.PutUint32(bs[0:], a)
					binary.LittleEndian.PutUint32(bs[4:], b)
					for k := 0; k < tail; k++ {
						bs[8+k] = byte(1 + k)
					}
					fmt.Fprintf(w, "fl.raw %s %s\n", t, hexs(append(append([]byte{}, pre...), bs...)))
				}
			}
			for tail := 0; tail <= 4; tail++ {
				bs := make([]byte, 4+tail)
				binary.LittleEndian.PutUint32(bs[0:], a)
				for k := 0; k < tail; k++ {
					bs[4+k] = byte(1 + k)
				}
				fmt.Fprintf(w, "fl.raw %s %s\n", t, hexs(append(append([]byte{}, pre...), bs...)))
			}
		}
	}
	// valid encodings and their corruptions for random types with a variable-size top level
	n := tierN(tier, 2500, 60000)
	o := TyOpts{}
	for i := 0; i < n; i++ {
		t := g.RandTy(1+g.Intn(3), o)
		if isFixed(t) {
			continue
		}
		v := g.RandVal(t, 120)
		bs := refSer(t, v)
		fmt.Fprintf(w, "fl.raw %s %s\n", t, hexs(bs))
		for k := 0; k < 4; k++ {
			c := g.corrupt(bs)
			if g.Chance(20) {
				c = g.corrupt(c)
			}
			fmt.Fprintf(w, "fl.raw %s %s\n", t, hexs(c))
		}
	}
}
