module verifharness

go 1.16

require (
	github.com/holiman/uint256 v1.2.0
	github.com/protolambda/ztyp v0.0.0
)

replace github.com/protolambda/ztyp => /repo
