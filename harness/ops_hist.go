package main

// Stateful history ops on real views (C04, C05, C06, C07, C12, C17).
//
//	begin                       start a new history (drops all handles)
//	mk <h> <route> T V          root view by route new|def|dec
//	get <h2> <h> <i>            h2 := h.Get(i)  (hooked sub-view or detached basic value)
//	val <h2> <h>                h2 := union h .Value()  (detached)
//	copy <h2> <h>               h2 := h.Copy()
//	set <h> <i> V               h.Set(i, <fresh view of V>)
//	setv <h> <i> <h2>           h.Set(i, view of handle h2)  (shares h2's backing)
//	app <h> V | pop <h>         list / bitlist append, pop
//	chg <h> <sel> V             union Change (V = _ for None)
//	obs <h>                     ok <root> <bytes> <value through getters>
//	len <h>                     ok <n>
//	rd <h> <i>                  element read: ok <value>
//	snap <s> <h> / chk <s>      remember backing node + structure; later re-verify from raw structure
//	memo <h>                    every reachable pair with a memoised root re-derived from its children
//	hcount <h>                  hash invocations of HashTreeRoot, twice: ok <root> calls=<n> again=<m>
//	sum <h> <k> <g1>..<gk>      replace h's backing by one with the given positions summarised
//	iter <h> <ro|idx>           run the iterator to its end plus two extra calls

import (
	"encoding/binary"
	"bytes"
	"fmt"
	"strconv"
	"strings"

	"github.com/protolambda/ztyp/tree"
	"github.com/protolambda/ztyp/view"
)

type handle struct {
	t  *Ty
	vw view.View
}

type snapshot struct {
	node tree.Node
	dump string
}

func init() {
	// begin [hash]: a new history; every root of it is computed with the named pair hash (default sha)
	registerExec("begin", func(st *State, a []string) string {
		st.objs = map[string]interface{}{}
		name := "sha"
		if len(a) > 0 {
			name = a[0]
		}
		useHash(name)
		histHash = hashByName(name)
		return "ok"
	})
	registerExec("mk", hMk)
	registerExec("get", hGet)
	registerExec("val", hVal)
	registerExec("copy", hCopy)
	registerExec("set", hSet)
	registerExec("setv", hSetv)
	registerExec("app", hApp)
	registerExec("pop", hPop)
	registerExec("chg", hChg)
	registerExec("obs", hObs)
	registerExec("len", hLen)
	registerExec("rd", hRd)
	registerExec("snap", hSnap)
	registerExec("chk", hChk)
	registerExec("memo", hMemo)
	registerExec("hcount", hHcount)
	registerExec("sum", hSum)
	registerExec("iter", hIter)
	registerExec("tamper", hTamper)
	registerExec("iterm", hIterM)
	registerExec("setu", func(st *State, a []string) string { return withUnhashed(st, func() string { return hSet(st, a) }) })
	registerExec("appu", func(st *State, a []string) string { return withUnhashed(st, func() string { return hApp(st, a) }) })
	registerExec("chgu", func(st *State, a []string) string { return withUnhashed(st, func() string { return hChg(st, a) }) })
	registerExec("obsg", hObsg)
	registerExec("iterget", hIterGet)
	registerExec("rehash", hRehash)
	registerExec("iter2", hIter2)
	registerExec("appv", hAppv)
	registerExec("blen", hBlen)
	registerExec("appd", hAppd)
	registerExec("setd", hSetd)
	registerExec("rset", hRset)
	registerExec("rtxt", hRtxt)
}

// rset <h> x<bytes>: SetBacking on a byte-vector view (RootView accepts it and rewrites itself;
// basic value views refuse).  The view is detached: no tree may change.
// histHash: the pair hash of the current history (set by begin)
var histHash tree.HashFn = tree.Hash

func hRset(st *State, a []string) string {
	hd := st.h(a[0])
	var r tree.Root
	copy(r[:], unhex(a[1]))
	return errStr(hd.vw.SetBacking(&r))
}

// rtxt <h> x<bytes>: UnmarshalText of the hex form on a byte-vector view (in-place write)
func hRtxt(st *State, a []string) string {
	hd := st.h(a[0])
	txt := []byte("0x" + a[1][1:])
	switch x := hd.vw.(type) {
	case *view.RootView:
		return errStr(x.UnmarshalText(txt))
	case view.SmallByteVecView:
		return errStr(x.UnmarshalText(txt))
	}
	return "err"
}

type noHandle struct{ name string }

// h looks a handle up; an unknown handle (its creating op failed) aborts the op with the
// canonical observation "nohandle" (see runOp).
func (st *State) h(name string) *handle {
	x, ok := st.objs[name]
	if !ok {
		panic(noHandle{name})
	}
	return x.(*handle)
}

func hMk(st *State, a []string) string {
	p := &parser{toks: a[2:]}
	t := p.ty()
	var v *Val
	if a[1] != "def" {
		v = p.val()
	}
	vw, err := viewByRoute(a[1], t, v)
	if err != nil {
		return "err"
	}
	st.objs[a[0]] = &handle{t: t, vw: vw}
	return "ok"
}

func elemTy(t *Ty, i uint64) *Ty {
	switch t.Kind {
	case KVector, KList:
		return t.Elem
	case KContainer:
		if int(i) < len(t.Fields) {
			return t.Fields[i]
		}
	case KBitvector, KBitlist:
		return &Ty{Kind: KBool}
	}
	return nil
}

// getElem is the typed indexed getter of any series/container/bitfield view.
func getElem(hd *handle, i uint64) (view.View, error) {
	switch x := hd.vw.(type) {
	case *view.BasicVectorView:
		return x.Get(i)
	case *view.BasicListView:
		return x.Get(i)
	case *view.ComplexVectorView:
		return x.Get(i)
	case *view.ComplexListView:
		return x.Get(i)
	case *view.ContainerView:
		return x.Get(i)
	case *view.BitVectorView:
		return x.Get(i)
	case *view.BitListView:
		return x.Get(i)
	}
	return nil, fmt.Errorf("no indexed getter on %T", hd.vw)
}

func hGet(st *State, a []string) string {
	hd := st.h(a[1])
	i, _ := strconv.ParseUint(a[2], 10, 64)
	el, err := getElem(hd, i)
	if err != nil {
		return "err"
	}
	et := elemTy(hd.t, i)
	if et == nil {
		return "err"
	}
	st.objs[a[0]] = &handle{t: et, vw: el}
	return "ok"
}

func hVal(st *State, a []string) string {
	hd := st.h(a[1])
	u, ok := hd.vw.(*view.UnionView)
	if !ok {
		return "err"
	}
	sel, err := u.Selector()
	if err != nil {
		return "err"
	}
	v, err := u.Value()
	if err != nil {
		return "err"
	}
	if v == nil {
		return "ok none"
	}
	st.objs[a[0]] = &handle{t: unionOpt(hd.t, uint64(sel)), vw: v}
	return "ok some"
}

func hCopy(st *State, a []string) string {
	hd := st.h(a[1])
	c, err := hd.vw.Copy()
	if err != nil {
		return "err"
	}
	st.objs[a[0]] = &handle{t: hd.t, vw: c}
	return "ok"
}

func errStr(err error) string {
	if err != nil {
		return "err"
	}
	return "ok"
}

// setElem is the typed indexed setter.
func setElem(hd *handle, i uint64, el view.View) error {
	switch x := hd.vw.(type) {
	case *view.BasicVectorView:
		return x.Set(i, el.(view.BasicView))
	case *view.BasicListView:
		return x.Set(i, el.(view.BasicView))
	case *view.ComplexVectorView:
		return x.Set(i, el)
	case *view.ComplexListView:
		return x.Set(i, el)
	case *view.ContainerView:
		return x.Set(i, el)
	case *view.BitVectorView:
		return x.Set(i, el.(view.BoolView))
	case *view.BitListView:
		return x.Set(i, el.(view.BoolView))
	}
	return fmt.Errorf("no indexed setter on %T", hd.vw)
}

// setu / appu / chgu: as set / app / chg, but the inserted value has never been hashed (C06: the
// result must not depend on which roots were requested before, the inserted value's included)
func withUnhashed(st *State, f func() string) string {
	st.unhashed = true
	defer func() { st.unhashed = false }()
	return f()
}

func preHash(st *State, el view.View) {
	if !st.unhashed {
		el.HashTreeRoot(histHash) // the inserted value is hashed beforehand (C07 premise)
	}
}

func hSet(st *State, a []string) string {
	hd := st.h(a[0])
	i, _ := strconv.ParseUint(a[1], 10, 64)
	et := elemTy(hd.t, 0)
	if hd.t.Kind == KContainer {
		et = elemTy(hd.t, i)
		if et == nil { // out of range field: still exercise the library's bounds check
			et = hd.t.Fields[0]
		}
	}
	p := &parser{toks: a[2:]}
	v := p.val()
	el, err := construct(et, v)
	if err != nil {
		return "err"
	}
	preHash(st, el)
	return errStr(setElem(hd, i, el))
}

func hSetv(st *State, a []string) string {
	hd := st.h(a[0])
	i, _ := strconv.ParseUint(a[1], 10, 64)
	src := st.h(a[2])
	return errStr(setElem(hd, i, src.vw))
}

func hApp(st *State, a []string) string {
	hd := st.h(a[0])
	et := elemTy(hd.t, 0)
	p := &parser{toks: a[1:]}
	v := p.val()
	el, err := construct(et, v)
	if err != nil {
		return "err"
	}
	preHash(st, el)
	switch x := hd.vw.(type) {
	case *view.BasicListView:
		return errStr(x.Append(el.(view.BasicView)))
	case *view.ComplexListView:
		return errStr(x.Append(el))
	case *view.BitListView:
		return errStr(x.Append(el.(view.BoolView)))
	}
	return "err"
}

func hPop(st *State, a []string) string {
	hd := st.h(a[0])
	switch x := hd.vw.(type) {
	case *view.BasicListView:
		return errStr(x.Pop())
	case *view.ComplexListView:
		return errStr(x.Pop())
	case *view.BitListView:
		return errStr(x.Pop())
	}
	return "err"
}

func hChg(st *State, a []string) string {
	hd := st.h(a[0])
	u, ok := hd.vw.(*view.UnionView)
	if !ok {
		return "err"
	}
	sel, _ := strconv.ParseUint(a[1], 10, 64)
	p := &parser{toks: a[2:]}
	v := p.val()
	if v.Kind == VNone {
		return errStr(u.Change(uint8(sel), nil))
	}
	ot := unionOpt(hd.t, sel)
	if ot == nil { // out-of-range selector: exercise the library's check with some value
		ot = hd.t.Fields[0]
	}
	el, err := construct(ot, v)
	if err != nil {
		return "err"
	}
	preHash(st, el)
	return errStr(u.Change(uint8(sel), el))
}

func hObs(st *State, a []string) string {
	hd := st.h(a[0])
	root := hd.vw.HashTreeRoot(histHash)
	bs, err := serializeView(hd.vw)
	if err != nil {
		return "ok " + rootHex(root) + " ser-err"
	}
	ev, err := extract(hd.t, hd.vw)
	if err != nil {
		return "ok " + rootHex(root) + " " + hexs(bs) + " extract-err"
	}
	return fmt.Sprintf("ok %s %s %s", rootHex(root), hexs(bs), ev)
}

func hLen(st *State, a []string) string {
	hd := st.h(a[0])
	var n uint64
	var err error
	switch x := hd.vw.(type) {
	case *view.BasicListView:
		n, err = x.Length()
	case *view.ComplexListView:
		n, err = x.Length()
	case *view.BitListView:
		n, err = x.Length()
	case *view.BasicVectorView:
		n = x.VectorLength
	case *view.ComplexVectorView:
		n = x.VectorLength
	case *view.BitVectorView:
		n = x.BitLength
	case *view.ContainerView:
		n = x.FieldCount()
	default:
		return "err"
	}
	if err != nil {
		return "err"
	}
	return fmt.Sprintf("ok %d", n)
}

func hRd(st *State, a []string) string {
	hd := st.h(a[0])
	i, _ := strconv.ParseUint(a[1], 10, 64)
	el, err := getElem(hd, i)
	if err != nil {
		return "err"
	}
	et := elemTy(hd.t, i)
	if et == nil {
		return "err"
	}
	ev, err := extract(et, el)
	if err != nil {
		return "err"
	}
	return "ok " + ev.String()
}

// dumpNode prints the raw structure of a tree ignoring memoised roots.  Shared subtrees are
// printed once per occurrence up to a budget; beyond it only the node identity is compared.
func dumpNode(n tree.Node, sb *strings.Builder, budget *int) {
	if *budget <= 0 {
		sb.WriteString("…")
		return
	}
	*budget--
	switch x := n.(type) {
	case *tree.Root:
		if x == nil {
			sb.WriteString("nil")
			return
		}
		sb.WriteString("D")
		sb.WriteString(rootHex(*x))
	case *tree.PairNode:
		sb.WriteString("P(")
		dumpNode(x.LeftChild, sb, budget)
		sb.WriteString(",")
		dumpNode(x.RightChild, sb, budget)
		sb.WriteString(")")
	default:
		fmt.Fprintf(sb, "?%T", n)
	}
}

func dumpOf(n tree.Node) string {
	var sb strings.Builder
	b := 4000
	dumpNode(n, &sb, &b)
	return sb.String()
}

func hSnap(st *State, a []string) string {
	hd := st.h(a[1])
	n := hd.vw.Backing()
	st.objs["snap:"+a[0]] = &snapshot{node: n, dump: dumpOf(n)}
	return "ok"
}

func hChk(st *State, a []string) string {
	s := st.objs["snap:"+a[0]].(*snapshot)
	if dumpOf(s.node) != s.dump {
		return "ok changed"
	}
	return "ok same"
}

// memo check: every reachable pair with Value != 0 must equal h(left root, right root)
// recomputed without trusting memos.
func pureRoot(n tree.Node, seen map[*tree.PairNode]tree.Root) tree.Root {
	switch x := n.(type) {
	case *tree.Root:
		if x == nil {
			return tree.Root{}
		}
		return *x
	case *tree.PairNode:
		if r, ok := seen[x]; ok {
			return r
		}
		r := histHash(pureRoot(x.LeftChild, seen), pureRoot(x.RightChild, seen))
		seen[x] = r
		return r
	}
	return n.MerkleRoot(histHash)
}

func hMemo(st *State, a []string) string {
	hd := st.h(a[0])
	seen := map[*tree.PairNode]tree.Root{}
	pureRoot(hd.vw.Backing(), seen)
	bad, memo := 0, 0
	for p, r := range seen {
		if p.Value != (tree.Root{}) {
			memo++
			if p.Value != r {
				bad++
			}
		}
	}
	_ = memo
	return fmt.Sprintf("ok bad=%d", bad)
}

func hHcount(st *State, a []string) string {
	hd := st.h(a[0])
	calls := 0
	counting := func(x tree.Root, y tree.Root) tree.Root {
		calls++
		return histHash(x, y)
	}
	r1 := hd.vw.HashTreeRoot(counting)
	c1 := calls
	calls = 0
	r2 := hd.vw.HashTreeRoot(counting)
	if r1 != r2 {
		return "ok roots-differ"
	}
	return fmt.Sprintf("ok %s calls=%d again=%d", rootHex(r1), c1, calls)
}

// sum <h> <k> <g1>..<gk>: summarise positions (generalized indices) of h's backing.
func hSum(st *State, a []string) string {
	hd := st.h(a[0])
	k, _ := strconv.Atoi(a[1])
	n := hd.vw.Backing()
	for j := 0; j < k; j++ {
		g, _ := strconv.ParseUint(a[2+j], 10, 64)
		link, err := n.SummarizeInto(tree.Gindex64(g), histHash)
		if err != nil {
			return "err"
		}
		n, err = link()
		if err != nil {
			return "err"
		}
	}
	return errStr(hd.vw.SetBacking(n))
}

// tamper <h> <ov>: the length mix-in node of a list view's backing is replaced by a hand-written
// one holding ov (Backing().Left(), NewPairNode, SetBacking) - the way a client that assembles
// backings itself (proofs, partial trees) can hand a list view a length its limit does not allow.
// Every read that starts from Length() must then report the error, never data (C17/C12).
func hTamper(st *State, a []string) string {
	hd := st.h(a[0])
	ov, _ := strconv.ParseUint(a[1], 10, 64)
	n := hd.vw.Backing()
	l, err := n.Left()
	if err != nil {
		return "err"
	}
	var ln tree.Root
	binary.LittleEndian.PutUint64(ln[:8], ov)
	return errStr(hd.vw.SetBacking(tree.NewPairNode(l, &ln)))
}

// iterOf starts the read-only (ro) or index-based iterator of a view.
func iterOf(hd *handle, ro bool) (bit view.BitIter, el view.ElemIter, ok bool) {
	switch x := hd.vw.(type) {
	case *view.BitVectorView:
		if ro {
			bit = x.ReadonlyIter()
		} else {
			bit = x.Iter()
		}
	case *view.BitListView:
		if ro {
			bit = x.ReadonlyIter()
		} else {
			bit = x.Iter()
		}
	case *view.BasicVectorView:
		if ro {
			el = x.ReadonlyIter()
		} else {
			el = x.Iter()
		}
	case *view.BasicListView:
		if ro {
			el = x.ReadonlyIter()
		} else {
			el = x.Iter()
		}
	case *view.ComplexVectorView:
		if ro {
			el = x.ReadonlyIter()
		} else {
			el = x.Iter()
		}
	case *view.ComplexListView:
		if ro {
			el = x.ReadonlyIter()
		} else {
			el = x.Iter()
		}
	case *view.ContainerView:
		if ro {
			el = x.ReadonlyIter()
		} else {
			el = x.Iter()
		}
	default:
		return nil, nil, false
	}
	return bit, el, true
}

func hIter(st *State, a []string) string {
	hd := st.h(a[0])
	bit, el, ok := iterOf(hd, a[1] == "ro")
	if !ok {
		return "err"
	}
	return driveIter(hd, bit, el, -1, nil)
}

// iterm <h> <k> <pop | app V | set i V>: the index-based iterator of h is advanced k times, then
// the view is mutated, then the iteration is finished: what it yields afterwards must be the
// view's CURRENT components or an error, never a component the view no longer has.
func hIterM(st *State, a []string) string {
	hd := st.h(a[0])
	k, _ := strconv.Atoi(a[1])
	bit, el, ok := iterOf(hd, false)
	if !ok {
		return "err"
	}
	return driveIter(hd, bit, el, k, func() string {
		switch a[2] {
		case "pop":
			return hPop(st, []string{a[0]})
		case "app":
			return hApp(st, append([]string{a[0]}, a[3:]...))
		case "set":
			return hSet(st, append([]string{a[0]}, a[3:]...))
		}
		panic("bad iterm mutation " + a[2])
	})
}

// driveIter calls Next until the third end report (or two calls after the first error); after
// `pause` calls (if >= 0) it runs `between` and records its outcome as `m=<outcome>`.
func driveIter(hd *handle, bit view.BitIter, el view.ElemIter, pause int, between func() string) string {
	var sb bytes.Buffer
	sb.WriteString("ok")
	extra := 0
	emit := func(s string) { sb.WriteString(" " + s) }
	// after the first error exactly two more calls are made (an iterator must not hand out a
	// wrong component after it reported missing data); the run also ends at the third end report
	post := -1
	calls := uint64(0)
	for steps := 0; steps < 400000; steps++ {
		if post == 0 {
			return sb.String()
		}
		if post > 0 {
			post--
		}
		if between != nil && int(calls) == pause {
			emit("m=" + between())
			between = nil
		}
		calls++
		if bit != nil {
			b, ok, err := bit.Next()
			if err != nil {
				emit("E")
				if post < 0 {
					post = 2
				}
				continue
			}
			if !ok {
				emit(".")
				extra++
				if extra == 3 {
					return sb.String()
				}
				continue
			}
			if extra > 0 {
				emit("resumed")
			}
			if b {
				emit("1")
			} else {
				emit("0")
			}
			continue
		}
		v, ok, err := el.Next()
		if err != nil {
			emit("E")
			if post < 0 {
				post = 2
			}
			continue
		}
		if !ok {
			emit(".")
			extra++
			if extra == 3 {
				return sb.String()
			}
			continue
		}
		if extra > 0 {
			emit("resumed")
		}
		// each element is read at the step it is produced (the read-only iterator re-targets one view)
		et := elemTy(hd.t, calls-1)
		if et == nil {
			emit("|?")
			continue
		}
		ev, err := extract(et, v)
		if err != nil {
			emit("|X")
			continue
		}
		emit("| " + ev.String())
	}
	return sb.String()
}

// blen <h>: ValueByteLength
func hBlen(st *State, a []string) string {
	hd := st.h(a[0])
	n, err := hd.vw.ValueByteLength()
	if err != nil {
		return "err"
	}
	return fmt.Sprintf("ok %d", n)
}

// appd <h>: append the element type's Default view (it shares the process-wide zero nodes)
func hAppd(st *State, a []string) string {
	hd := st.h(a[0])
	et := elemTy(hd.t, 0)
	if et == nil {
		return "err"
	}
	el := typeDef(et).Default(nil)
	el.HashTreeRoot(histHash) // the inserted value is hashed beforehand (C07 premise)
	switch x := hd.vw.(type) {
	case *view.BasicListView:
		return errStr(x.Append(el.(view.BasicView)))
	case *view.ComplexListView:
		return errStr(x.Append(el))
	case *view.BitListView:
		return errStr(x.Append(el.(view.BoolView)))
	}
	return "err"
}

// setd <h> <i>: set slot i to the element type's Default view
func hSetd(st *State, a []string) string {
	hd := st.h(a[0])
	i, _ := strconv.ParseUint(a[1], 10, 64)
	et := elemTy(hd.t, i)
	if et == nil {
		et = elemTy(hd.t, 0)
		if et == nil {
			return "err"
		}
	}
	el := typeDef(et).Default(nil)
	el.HashTreeRoot(histHash)
	return errStr(setElem(hd, i, el))
}

// appv <h> <hsrc>: append the view held by handle hsrc (shares its backing)
func hAppv(st *State, a []string) string {
	hd := st.h(a[0])
	src := st.h(a[1])
	switch x := hd.vw.(type) {
	case *view.BasicListView:
		return errStr(x.Append(src.vw.(view.BasicView)))
	case *view.ComplexListView:
		return errStr(x.Append(src.vw))
	case *view.BitListView:
		return errStr(x.Append(src.vw.(view.BoolView)))
	}
	return "err"
}

// obsg <h>: like obs, but the root is computed with the history's own tree.GetHashFn() instance
// (a stateful hasher that is re-used for every obsg of this history)
func hObsg(st *State, a []string) string {
	hd := st.h(a[0])
	hf, ok := st.objs["hasher:"].(tree.HashFn)
	if !ok {
		hf = tree.GetHashFn()
		if currentHash != "sha" {
			hf = histHash
		}
		st.objs["hasher:"] = hf
	}
	root := hd.vw.HashTreeRoot(hf)
	bs, err := serializeView(hd.vw)
	if err != nil {
		return "ok " + rootHex(root) + " ser-err"
	}
	ev, err := extract(hd.t, hd.vw)
	if err != nil {
		return "ok " + rootHex(root) + " " + hexs(bs) + " extract-err"
	}
	return fmt.Sprintf("ok %s %s %s", rootHex(root), hexs(bs), ev)
}

// iterget <h2> <h> <k>: h2 := the k-th element handed out by h.Iter() (the mutable, index-based
// iterator: its elements are hooked sub-views like those of Get)
func hIterGet(st *State, a []string) string {
	hd := st.h(a[1])
	k, _ := strconv.ParseUint(a[2], 10, 64)
	var it view.ElemIter
	switch x := hd.vw.(type) {
	case *view.BasicVectorView:
		it = x.Iter()
	case *view.BasicListView:
		it = x.Iter()
	case *view.ComplexVectorView:
		it = x.Iter()
	case *view.ComplexListView:
		it = x.Iter()
	case *view.ContainerView:
		it = x.Iter()
	default:
		return "err"
	}
	var el view.View
	for i := uint64(0); i <= k; i++ {
		v, ok, err := it.Next()
		if err != nil || !ok {
			return "err"
		}
		el = v
	}
	et := elemTy(hd.t, k)
	if et == nil {
		return "err"
	}
	st.objs[a[0]] = &handle{t: et, vw: el}
	return "ok"
}

// rehash <name>: re-initialise the zero-hash table with the named pair hash (same level count).
// Existing trees must not change.
func hRehash(st *State, a []string) string {
	tree.InitZeroHashes(hashByName(a[0]), 64)
	currentHash = a[0]
	return "ok"
}

// iter2 <h1> <h2>: two read-only bit/element iterators advanced alternately; prints both sequences
func hIter2(st *State, a []string) string {
	type gen func() (string, bool)
	mk := func(hd *handle) gen {
		switch x := hd.vw.(type) {
		case *view.BitVectorView:
			it := x.ReadonlyIter()
			return func() (string, bool) {
				b, ok, err := it.Next()
				if err != nil {
					return "E", false
				}
				if !ok {
					return ".", false
				}
				if b {
					return "1", true
				}
				return "0", true
			}
		case *view.BitListView:
			it := x.ReadonlyIter()
			return func() (string, bool) {
				b, ok, err := it.Next()
				if err != nil {
					return "E", false
				}
				if !ok {
					return ".", false
				}
				if b {
					return "1", true
				}
				return "0", true
			}
		}
		var it view.ElemIter
		switch x := hd.vw.(type) {
		case *view.BasicVectorView:
			it = x.ReadonlyIter()
		case *view.BasicListView:
			it = x.ReadonlyIter()
		case *view.ComplexVectorView:
			it = x.ReadonlyIter()
		case *view.ComplexListView:
			it = x.ReadonlyIter()
		case *view.ContainerView:
			it = x.ReadonlyIter()
		default:
			return nil
		}
		idx := uint64(0)
		return func() (string, bool) {
			v, ok, err := it.Next()
			if err != nil {
				return "E", false
			}
			if !ok {
				return ".", false
			}
			et := elemTy(hd.t, idx)
			idx++
			if et == nil {
				return "|?", true
			}
			ev, err := extract(et, v)
			if err != nil {
				return "|X", true
			}
			return "| " + ev.String(), true
		}
	}
	g1, g2 := mk(st.h(a[0])), mk(st.h(a[1]))
	if g1 == nil || g2 == nil {
		return "err"
	}
	var o1, o2 []string
	d1, d2 := false, false
	for steps := 0; steps < 200000 && !(d1 && d2); steps++ {
		if !d1 {
			s, more := g1()
			o1 = append(o1, s)
			d1 = !more
		}
		if !d2 {
			s, more := g2()
			o2 = append(o2, s)
			d2 = !more
		}
	}
	return "ok " + strings.Join(o1, " ") + " && " + strings.Join(o2, " ")
}
