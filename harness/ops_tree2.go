package main

// C11b: the parts of package tree's public node API that C11 (ops_tree.go) reaches only
// indirectly.  Ops have the prefix "tr2.".  Tree notation, dumps and error classes as in
// ops_tree.go (P <l> <r> | D x<hex32> | Z <k> | Y <k>).
//
// Link expressions (clients of the Link API, built here from the real closures):
//
//	I                          tree.Identity
//	RL <tree> | RR <tree>      the method value n.RebindLeft / n.RebindRight
//	S <g> <e> <tree>           n.Setter(Gindex64(g), e)
//	DS <g> <e> <link> <tree>   tree.DeeperSetter(link, n, Gindex64(g), e)
//	W <outer> <inner>          outer.Wrap(inner)
//
// sub-expressions are evaluated left to right, the first construction error is the result.
//
//	tr2.walk   <hash> <tree>                           -> ok <dump through Left/Right/IsLeaf only> <root> self=<0|1> kids=<0|1>
//	tr2.rebind <hash> <side> <tree> <value>            -> ok <dump> <root> new=<0|1> other=<0|1> unchanged=<0|1> | err nav
//	tr2.pair   <hash> <a> <b>                          -> ok <dump> <root> fresh=<0|1> kids=<0|1>
//	tr2.zero   <hash> <depth>                          -> ok <dump> leaf=<0|1> table=<0|1> mat=<root of the materialised zero tree>
//	tr2.link   <hash> <eq> <n> <link>*n <v1> <v2>      -> ok <r_1> | … | <r_n>   with r_i = ok <dump1> <root1> <dump2> <root2> | err <class> | errl <class>
//	                                                      (each link applied to v1, hashed, applied to v2; dump1 taken afterwards)
//	tr2.comp   <hash> <g1> <g2> <e1> <e> <tree> <v>    -> ok <A> | <B>   A = parent.Setter(g1,e1).Wrap(parent.Getter(g1).Setter(g2,e))(v),
//	                                                      B = parent.Setter(g1∘g2, e)(v); each: ok <dump> <root> shared=<0|1> | err <class> | errl <class>
//	tr2.sum    <hash> <g> <tree>                       -> ok <dump> <root> unchanged=<0|1> shared=<0|1> method=<0|1> | err <class>
//	                                                      (tree.SummaryInto called directly; the link is called twice; method = n.SummarizeInto agrees)

import (
	"bufio"
	"fmt"
	"math/bits"
	"strings"

	"github.com/protolambda/ztyp/tree"
)

func init() {
	registerExec("tr2.walk", execTr2Walk)
	registerExec("tr2.rebind", execTr2Rebind)
	registerExec("tr2.pair", execTr2Pair)
	registerExec("tr2.zero", execTr2Zero)
	registerExec("tr2.link", execTr2Link)
	registerExec("tr2.comp", execTr2Comp)
	registerExec("tr2.sum", execTr2Sum)
	registerGen("C11b", genC11b)
}

// ---------- link expressions ----------

type tr2LinkExpr struct {
	kind string
	g    uint64
	e    bool
	n    tree.Node
	a, b *tr2LinkExpr
}

func tr2ParseLink(p *parser) *tr2LinkExpr {
	switch t := p.next(); t {
	case "I":
		return &tr2LinkExpr{kind: "I"}
	case "RL", "RR":
		return &tr2LinkExpr{kind: t, n: trParse(p)}
	case "S":
		g := p.num()
		e := p.num() == 1
		return &tr2LinkExpr{kind: t, g: g, e: e, n: trParse(p)}
	case "DS":
		g := p.num()
		e := p.num() == 1
		a := tr2ParseLink(p)
		return &tr2LinkExpr{kind: t, g: g, e: e, a: a, n: trParse(p)}
	case "W":
		a := tr2ParseLink(p)
		b := tr2ParseLink(p)
		return &tr2LinkExpr{kind: t, a: a, b: b}
	default:
		panic("parse: bad link token " + t)
	}
}

func (x *tr2LinkExpr) eval() (tree.Link, error) {
	switch x.kind {
	case "I":
		return tree.Identity, nil
	case "RL":
		return x.n.RebindLeft, nil
	case "RR":
		return x.n.RebindRight, nil
	case "S":
		return x.n.Setter(tree.Gindex64(x.g), x.e)
	case "DS":
		link, err := x.a.eval()
		if err != nil {
			return nil, err
		}
		return tree.DeeperSetter(link, x.n, tree.Gindex64(x.g), x.e)
	case "W":
		outer, err := x.a.eval()
		if err != nil {
			return nil, err
		}
		inner, err := x.b.eval()
		if err != nil {
			return nil, err
		}
		return outer.Wrap(inner), nil
	}
	panic("bad link expr")
}

// ---------- executors ----------

// tr2WalkDump dumps through the Node interface only (IsLeaf / Left / Right / MerkleRoot of a
// leaf) and checks on every node the root-index getters/setters and the child accessors.
func tr2WalkDump(sb *strings.Builder, n tree.Node, h tree.HashFn, probe tree.Node, self, kids *bool) {
	if got, err := n.Getter(tree.RootGindex); err != nil || got != n {
		*self = false
	}
	for _, e := range []bool{false, true} {
		link, err := n.Setter(tree.RootGindex, e)
		if err != nil {
			*self = false
			continue
		}
		if got, err := link(probe); err != nil || got != probe {
			*self = false
		}
	}
	if n.IsLeaf() {
		sb.WriteString("D x" + rootHex(n.MerkleRoot(h)))
		if _, err := n.Left(); err != tree.NavigationError {
			*kids = false
		}
		if _, err := n.Right(); err != tree.NavigationError {
			*kids = false
		}
		if _, err := n.RebindLeft(probe); err != tree.NavigationError {
			*kids = false
		}
		if _, err := n.RebindRight(probe); err != tree.NavigationError {
			*kids = false
		}
		if _, err := n.Getter(tree.LeftGindex); err != tree.NavigationError {
			*kids = false
		}
		if _, err := n.Getter(tree.RightGindex); err != tree.NavigationError {
			*kids = false
		}
		if _, ok := n.(*tree.Root); !ok {
			*kids = false
		}
		return
	}
	l, errL := n.Left()
	r, errR := n.Right()
	if errL != nil || errR != nil {
		sb.WriteString("broken-pair")
		*kids = false
		return
	}
	pn, ok := n.(*tree.PairNode)
	if !ok || pn.LeftChild != l || pn.RightChild != r {
		*kids = false
	}
	if got, err := n.Getter(tree.LeftGindex); err != nil || got != l {
		*kids = false
	}
	if got, err := n.Getter(tree.RightGindex); err != nil || got != r {
		*kids = false
	}
	sb.WriteString("P ")
	tr2WalkDump(sb, l, h, probe, self, kids)
	sb.WriteString(" ")
	tr2WalkDump(sb, r, h, probe, self, kids)
}

func execTr2Walk(st *State, args []string) string {
	h := useHash(args[0])
	defer useHash("sha")
	p := &parser{toks: args[1:]}
	n := trParse(p)
	probe := &tree.Root{0xaa, 0x55}
	self, kids := true, true
	var sb strings.Builder
	tr2WalkDump(&sb, n, h, probe, &self, &kids)
	return fmt.Sprintf("ok %s %s self=%d kids=%d", sb.String(), rootHex(n.MerkleRoot(h)), trB01(self), trB01(kids))
}

func execTr2Rebind(st *State, args []string) string {
	h := useHash(args[0])
	defer useHash("sha")
	p := &parser{toks: args[1:]}
	side := p.num()
	start := p.pos
	n := trParse(p)
	treeToks := p.toks[start:p.pos]
	v := trParse(p)
	before := trDump(n)
	if len(before)%3 != 0 {
		n.MerkleRoot(h) // mostly: the original is hashed first (its memoised root must not leak into the result)
		v.MerkleRoot(h)
	}
	var res tree.Node
	var err error
	if side == 0 {
		res, err = n.RebindLeft(v)
	} else {
		res, err = n.RebindRight(v)
	}
	if err != nil {
		return trErr(err)
	}
	root := res.MerkleRoot(h)
	l, errL := res.Left()
	r, errR := res.Right()
	ol, _ := n.Left()
	or, _ := n.Right()
	isNew, other := false, false
	if errL == nil && errR == nil && !res.IsLeaf() {
		if side == 0 {
			isNew, other = l == v, r == or
		} else {
			isNew, other = r == v, l == ol
		}
	}
	return fmt.Sprintf("ok %s %s new=%d other=%d unchanged=%d", trDump(res), rootHex(root),
		trB01(isNew), trB01(other), trB01(res != n && trUnchanged(n, before, treeToks, h)))
}

func execTr2Pair(st *State, args []string) string {
	h := useHash(args[0])
	defer useHash("sha")
	p := &parser{toks: args[1:]}
	a := trParse(p)
	b := trParse(p)
	pn := tree.NewPairNode(a, b)
	fresh := pn.Value == (tree.Root{})
	var n tree.Node = pn
	l, errL := n.Left()
	r, errR := n.Right()
	kids := errL == nil && errR == nil && l == a && r == b && !n.IsLeaf()
	root := n.MerkleRoot(h)
	fresh = fresh && pn.Value == root && n.MerkleRoot(h) == root
	return fmt.Sprintf("ok %s %s fresh=%d kids=%d", trDump(n), rootHex(root), trB01(fresh), trB01(kids))
}

func execTr2Zero(st *State, args []string) string {
	h := useHash(args[0])
	defer useHash("sha")
	p := &parser{toks: args[1:]}
	depth := p.num()
	n := tree.ZeroNode(uint32(depth))
	r, isRoot := n.(*tree.Root)
	table := isRoot && r == &tree.ZeroHashes[depth]
	mat := tree.SubtreeFillToDepth(&tree.Root{}, uint8(depth)) // depth <= 64 here (ZeroNode panics beyond)
	return fmt.Sprintf("ok %s leaf=%d table=%d mat=%s", trDump(n), trB01(n.IsLeaf()), trB01(table), rootHex(mat.MerkleRoot(h)))
}

func tr2ErrClass(prefix string, err error) string {
	return prefix + strings.TrimPrefix(trErr(err), "err")
}

func execTr2Link(st *State, args []string) string {
	h := useHash(args[0])
	defer useHash("sha")
	p := &parser{toks: args[1:]}
	_ = p.num() // eq flag: only for the verdict
	k := int(p.num())
	exprs := make([]*tr2LinkExpr, 0, k)
	for i := 0; i < k; i++ {
		exprs = append(exprs, tr2ParseLink(p))
	}
	v1 := trParse(p)
	v2 := trParse(p)
	outs := make([]string, 0, k)
	for _, x := range exprs {
		link, err := x.eval()
		if err != nil {
			outs = append(outs, trErr(err))
			continue
		}
		res1, err := link(v1)
		if err != nil {
			outs = append(outs, tr2ErrClass("errl", err))
			continue
		}
		root1 := res1.MerkleRoot(h)
		res2, err := link(v2)
		if err != nil {
			outs = append(outs, tr2ErrClass("errl", err))
			continue
		}
		root2 := res2.MerkleRoot(h)
		outs = append(outs, fmt.Sprintf("ok %s %s %s %s", trDump(res1), rootHex(root1), trDump(res2), rootHex(root2)))
	}
	return "ok " + strings.Join(outs, " | ")
}

// tr2Concat: the generalized index of "g2 below g1" (both >= 1, depths adding up to <= 63)
func tr2Concat(g1, g2 uint64) uint64 {
	d2 := uint(bits.Len64(g2) - 1)
	return g1<<d2 | (g2 &^ (uint64(1) << d2))
}

func execTr2Comp(st *State, args []string) string {
	h := useHash(args[0])
	defer useHash("sha")
	p := &parser{toks: args[1:]}
	g1 := p.num()
	g2 := p.num()
	e1 := p.num() == 1
	e := p.num() == 1
	parent := trParse(p)
	v := trParse(p)
	if len(args)%2 == 0 {
		parent.MerkleRoot(h)
	}
	g12 := tr2Concat(g1, g2)
	finish := func(link tree.Link) string {
		res, err := link(v)
		if err != nil {
			return tr2ErrClass("errl", err)
		}
		return fmt.Sprintf("ok %s %s shared=%d", trDump(res), rootHex(res.MerkleRoot(h)), trB01(trShared(parent, res, g12, v)))
	}
	composed := func() string {
		l1, err := parent.Setter(tree.Gindex64(g1), e1)
		if err != nil {
			return trErr(err)
		}
		child, err := parent.Getter(tree.Gindex64(g1))
		if err != nil {
			return trErr(err)
		}
		l2, err := child.Setter(tree.Gindex64(g2), e)
		if err != nil {
			return trErr(err)
		}
		return finish(l1.Wrap(l2))
	}
	direct := func() string {
		l, err := parent.Setter(tree.Gindex64(g12), e)
		if err != nil {
			return trErr(err)
		}
		return finish(l)
	}
	a := composed()
	b := direct()
	return "ok " + a + " | " + b
}

func execTr2Sum(st *State, args []string) string {
	h := useHash(args[0])
	defer useHash("sha")
	p := &parser{toks: args[1:]}
	g := p.num()
	start := p.pos
	n := trParse(p)
	treeToks := p.toks[start:p.pos]
	before := trDump(n)
	// the method, on a second copy (so that memoised roots of one run cannot help the other)
	n2 := trParse(&parser{toks: treeToks})
	method := "-"
	if sl, err := n2.SummarizeInto(tree.Gindex64(g), h); err != nil {
		method = trErr(err)
	} else if res, err := sl(); err != nil {
		method = "errl"
	} else {
		method = trDump(res)
	}
	sl, err := tree.SummaryInto(n, tree.Gindex64(g), h)
	if err != nil {
		return fmt.Sprintf("%s method=%d", trErr(err), trB01(method == trErr(err)))
	}
	res, err := sl()
	if err != nil {
		return "errl"
	}
	root := res.MerkleRoot(h)
	d1 := trDump(res)
	res2, err := sl()
	if err != nil {
		return "errl"
	}
	again := trDump(res2) == d1 && trDump(res) == d1 && res2.MerkleRoot(h) == root
	return fmt.Sprintf("ok %s %s unchanged=%d shared=%d method=%d", d1, rootHex(root),
		trB01(again && trUnchanged(n, before, treeToks, h)), trB01(trShared(n, res, g, nil)), trB01(method == d1))
}

// ---------- generators ----------

// tr2Sub: the text of the subtree at generalized index gi of a tree text, "" if missing
func tr2Sub(tr string, gi uint64) string {
	toks := strings.Fields(tr)
	var end func(pos int) int
	end = func(pos int) int {
		if toks[pos] == "P" {
			return end(end(pos + 1))
		}
		return pos + 2
	}
	pos := 0
	for i := bits.Len64(gi) - 2; i >= 0; i-- {
		if toks[pos] != "P" {
			return ""
		}
		if (gi>>uint(i))&1 == 1 {
			pos = end(pos + 1)
		} else {
			pos++
		}
	}
	return strings.Join(toks[pos:end(pos)], " ")
}

// tr2Label: the shape with every leaf labelled for a write along gi (D levels deep).  The leaf
// the path runs into is mostly a zero summary of exactly the remaining height (so that expanding
// writes succeed), sometimes a data leaf or a summary of a wrong height; leaves off the path are
// mostly data, sometimes summaries.
func (g *Gen) tr2LabelFor(s *trShape, gi uint64) string {
	if gi == 0 {
		gi = 1
	}
	D := bits.Len64(gi) - 1
	idx, _ := trPathLeaf(s, gi)
	var sb strings.Builder
	k := 0
	trLabel(&sb, s, 0, &k, func(k, depth int) string {
		right := D - depth
		if right < 0 {
			right = 0
		}
		r := g.Intn(20)
		if k == idx {
			switch {
			case r < 15:
				return fmt.Sprintf("Z %d", right)
			case r < 18:
				return g.trData()
			default:
				return fmt.Sprintf("Z %d", trWrongHeight(g, right))
			}
		}
		switch {
		case r < 14:
			return g.trData()
		case r < 18:
			return fmt.Sprintf("Z %d", right)
		default:
			return fmt.Sprintf("Z %d", g.Intn(65))
		}
	})
	return sb.String()
}

func (g *Gen) tr2Label(s *trShape, D int) string {
	return g.tr2LabelFor(s, uint64(1)<<uint(D)|g.U64()&(uint64(1)<<uint(D)-1))
}

// tr2Exists: the position gi exists in the shape
func tr2Exists(s *trShape, gi uint64) bool {
	idx, ld := trPathLeaf(s, gi)
	return idx < 0 || ld == bits.Len64(gi)-1
}

// a (shape, index) pair: mostly an existing position or one below a leaf of the shape
func (g *Gen) tr2Target(maxShape int, maxDepth int) (*trShape, uint64) {
	shapes := trShapes(maxShape)
	s := shapes[g.Intn(len(shapes))]
	for try := 0; ; try++ {
		gi := uint64(1)
		for d := g.Intn(maxDepth + 1); d > 0; d-- {
			gi = gi<<1 | uint64(g.Intn(2))
		}
		if tr2Exists(s, gi) || try > 4 || g.Intn(3) == 0 {
			return s, gi
		}
	}
}

// expansion flag for a write at gi into the shape: needed (mostly given) when the path leaves it
func (g *Gen) tr2Expand(s *trShape, gi uint64) int {
	if tr2Exists(s, gi) {
		return g.Intn(2)
	}
	if g.Intn(8) == 0 {
		return 0
	}
	return 1
}

// a small link (may fail at construction or at application, mostly does not)
func (g *Gen) tr2BaseLink() string {
	switch g.Intn(8) {
	case 0:
		return "I"
	case 1, 2:
		s, gi := g.tr2Target(2, 3)
		side := []string{"RL", "RR"}[g.Intn(2)]
		if s.leaf() && g.Intn(4) > 0 {
			return side + " P " + g.trData() + " " + g.trValue()
		}
		return side + " " + g.tr2LabelFor(s, gi)
	case 3:
		s, gi := g.tr2Target(2, 4)
		gi |= uint64(1) << 2 // depth >= 2
		gi = uint64(1)<<uint(bits.Len64(gi)-1) | gi&(uint64(1)<<uint(bits.Len64(gi)-1)-1)
		low := gi &^ (uint64(3) << uint(bits.Len64(gi)-2))
		tail := uint64(1)<<uint(bits.Len64(gi)-2) | low
		return fmt.Sprintf("DS %d %d I %s", gi, g.tr2Expand(s, tail), g.tr2LabelFor(s, tail))
	default:
		s, gi := g.tr2Target(2, 4)
		return fmt.Sprintf("S %d %d %s", gi, g.tr2Expand(s, gi), g.tr2LabelFor(s, gi))
	}
}

func (g *Gen) tr2SmallTree() string {
	s, gi := g.tr2Target(2, 4)
	return g.tr2LabelFor(s, gi)
}

func (g *Gen) tr2RandLink(depth int) string {
	if depth == 0 || g.Intn(3) == 0 {
		return g.tr2BaseLink()
	}
	switch g.Intn(4) {
	case 0:
		s, tail := g.tr2Target(2, 3)
		gi := g.U64() % 34 // 0..3: outside the precondition
		if tail >= 2 && g.Intn(6) > 0 {
			D := bits.Len64(tail) - 1
			gi = uint64(1)<<uint(D+1) | uint64(g.Intn(2))<<uint(D) | tail&(uint64(1)<<uint(D)-1)
		}
		return fmt.Sprintf("DS %d %d %s %s", gi, g.tr2Expand(s, tail), g.tr2RandLink(depth-1), g.tr2LabelFor(s, tail))
	default:
		return "W " + g.tr2RandLink(depth-1) + " " + g.tr2RandLink(depth-1)
	}
}

func tr2EmitLink(w *bufio.Writer, g *Gen, hn string, eq int, links []string) {
	fmt.Fprintf(w, "tr2.link %s %d %d %s %s %s\n", hn, eq, len(links), strings.Join(links, " "), g.trValue(), g.trData())
}

// laws of Identity / Wrap on links drawn from the pool
func genC11bWrapLaws(g *Gen, w *bufio.Writer, hn string, n int) {
	for i := 0; i < n; i++ {
		a, b, c := g.tr2RandLink(1), g.tr2RandLink(1), g.tr2RandLink(1)
		tr2EmitLink(w, g, hn, 1, []string{a, "W I " + a, "W " + a + " I", "W I W " + a + " I"})
		tr2EmitLink(w, g, hn, 1, []string{"W W " + a + " " + b + " " + c, "W " + a + " W " + b + " " + c})
		tr2EmitLink(w, g, hn, 0, []string{"W " + a + " " + b, "W " + b + " " + a})
	}
}

// setter composition and DeeperSetter through link expressions: every shape to depth maxShape,
// every existing split position g1, every g2 to depth d2max, expand on/off
func genC11bCompose(g *Gen, w *bufio.Writer, hn string, maxShape int, d2max int, slice func() bool) {
	for _, s := range trShapes(maxShape) {
		for g1 := uint64(1); g1 < 16; g1++ {
			for g2 := uint64(1); g2 < uint64(1)<<uint(d2max+1); g2++ {
				if !slice() {
					continue
				}
				if !tr2Exists(s, g1) && g.Intn(6) > 0 {
					continue // composition through a missing position: a navigation error, kept thin
				}
				g12 := tr2Concat(g1, g2)
				D := bits.Len64(g12) - 1
				tr := g.tr2LabelFor(s, g12)
				e := g.tr2Expand(s, g12)
				e1 := g.Intn(2)
				fmt.Fprintf(w, "tr2.comp %s %d %d %d %d %s %s\n", hn, g1, g2, e1, e, tr, g.trValue())
				sub := tr2Sub(tr, g1)
				if sub == "" {
					continue
				}
				// the same law with separately parsed operands, as link expressions
				links := []string{
					fmt.Sprintf("S %d %d %s", g12, e, tr),
					fmt.Sprintf("W S %d %d %s S %d %d %s", g1, e1, tr, g2, e, sub),
				}
				// PairNode.Setter's own decomposition, called by hand
				if D >= 2 && strings.HasPrefix(tr, "P ") {
					if (g12>>uint(D-1))&1 == 0 {
						links = append(links, fmt.Sprintf("DS %d %d RL %s %s", g12, e, tr, tr2Sub(tr, 2)))
					} else {
						links = append(links, fmt.Sprintf("DS %d %d RR %s %s", g12, e, tr, tr2Sub(tr, 3)))
					}
				}
				tr2EmitLink(w, g, hn, 1, links)
			}
		}
	}
}

// DeeperSetter called directly: identity link against the plain setter one level down, foreign
// links, and the precondition boundary (indices 0..3 panic)
func genC11bDeeper(g *Gen, w *bufio.Writer, hn string, maxShape int, slice func() bool) {
	for _, s := range trShapes(maxShape) {
		for gi := uint64(0); gi < 64; gi++ {
			if !slice() {
				continue
			}
			D := bits.Len64(gi) - 1
			if D < 1 {
				D = 1
			}
			node := g.tr2Label(s, D-1)
			e := g.Intn(2)
			if gi >= 4 {
				low := gi &^ (uint64(3) << uint(D-1))
				node = g.tr2LabelFor(s, uint64(1)<<uint(D-1)|low)
				e = g.tr2Expand(s, uint64(1)<<uint(D-1)|low)
			}
			if gi < 4 {
				tr2EmitLink(w, g, hn, 0, []string{fmt.Sprintf("DS %d %d %s %s", gi, e, g.tr2BaseLink(), node)})
				continue
			}
			// drop the first bit after the leading one
			low := gi &^ (uint64(3) << uint(D-1))
			tail := uint64(1)<<uint(D-1) | low
			tr2EmitLink(w, g, hn, 1, []string{
				fmt.Sprintf("DS %d %d I %s", gi, e, node),
				fmt.Sprintf("S %d %d %s", tail, e, node),
				fmt.Sprintf("DS %d %d I %s", gi^(uint64(1)<<uint(D-1)), e, node), // the skipped bit is ignored
			})
			outer := g.tr2BaseLink()
			tr2EmitLink(w, g, hn, 1, []string{
				fmt.Sprintf("DS %d %d %s %s", gi, e, outer, node),
				fmt.Sprintf("W %s S %d %d %s", outer, tail, e, node),
			})
		}
	}
}

func genC11bNodes(g *Gen, w *bufio.Writer, hn string, maxShape int) {
	for _, s := range trShapes(maxShape) {
		tr := g.tr2Label(s, g.Intn(5))
		fmt.Fprintf(w, "tr2.walk %s %s\n", hn, tr)
		for side := 0; side < 2; side++ {
			fmt.Fprintf(w, "tr2.rebind %s %d %s %s\n", hn, side, tr, g.trValue())
			fmt.Fprintf(w, "tr2.rebind %s %d %s %s\n", hn, side, tr, tr) // rebinding the node itself as its own child
		}
		fmt.Fprintf(w, "tr2.pair %s %s %s\n", hn, tr, g.trValue())
		fmt.Fprintf(w, "tr2.pair %s %s %s\n", hn, g.trValue(), tr)
	}
	for _, lf := range []string{g.trData(), "Z 0", "Z 1", "Z 64", "Y 0", "Y 3", "D x" + strings.Repeat("00", 32)} {
		fmt.Fprintf(w, "tr2.walk %s %s\n", hn, lf)
		fmt.Fprintf(w, "tr2.rebind %s 0 %s %s\n", hn, lf, g.trValue())
		fmt.Fprintf(w, "tr2.rebind %s 1 %s %s\n", hn, lf, g.trValue())
		fmt.Fprintf(w, "tr2.pair %s %s %s\n", hn, lf, lf)
	}
}

func genC11bZero(w *bufio.Writer, hn string) {
	for d := 0; d <= 70; d++ {
		fmt.Fprintf(w, "tr2.zero %s %d\n", hn, d)
	}
	for _, d := range []uint64{127, 128, 255, 256, 320, 1 << 16, 1<<32 - 1} {
		fmt.Fprintf(w, "tr2.zero %s %d\n", hn, d)
	}
}

func genC11bSum(g *Gen, w *bufio.Writer, hn string, maxShape int, slice func() bool) {
	for _, s := range trShapes(maxShape) {
		for gi := uint64(0); gi < 32; gi++ {
			if !slice() {
				continue
			}
			if gi > 1 && !tr2Exists(s, gi) && g.Intn(5) > 0 {
				continue
			}
			fmt.Fprintf(w, "tr2.sum %s %d %s\n", hn, gi, g.tr2LabelFor(s, gi))
		}
	}
}

// random deep trees: composition at a random split of a random position, 63-bit boundaries
func genC11bRandom(g *Gen, w *bufio.Writer, n int) {
	for i := 0; i < n; i++ {
		hn := trHashName(uint64(i / 64))
		tr := g.trRandTree(1+g.Intn(10), 0)
		if len(tr) > 16000 {
			i--
			continue
		}
		gi := g.trRandIndex(tr)
		if gi == 0 {
			gi = 1
		}
		D := bits.Len64(gi) - 1
		cut := g.Intn(D + 1) // bits of gi that go to g1
		g1 := gi >> uint(D-cut)
		g2 := uint64(1)<<uint(D-cut) | gi&(uint64(1)<<uint(D-cut)-1)
		fmt.Fprintf(w, "tr2.comp %s %d %d %d %d %s %s\n", hn, g1, g2, g.Intn(2), g.Intn(2), tr, g.trValue())
		if g.Chance(40) {
			fmt.Fprintf(w, "tr2.sum %s %d %s\n", hn, gi, tr)
		}
		if g.Chance(30) {
			fmt.Fprintf(w, "tr2.walk %s %s\n", hn, tr)
		}
		if g.Chance(40) && len(tr) < 3000 {
			e := g.Intn(2)
			links := []string{fmt.Sprintf("S %d %d %s", gi, e, tr)}
			if sub := tr2Sub(tr, g1); sub != "" {
				links = append(links, fmt.Sprintf("W S %d %d %s S %d %d %s", g1, g.Intn(2), tr, g2, e, sub))
			}
			if D >= 2 && strings.HasPrefix(tr, "P ") {
				side, kid := "RL", uint64(2)
				if (gi>>uint(D-1))&1 == 1 {
					side, kid = "RR", 3
				}
				links = append(links, fmt.Sprintf("DS %d %d %s %s %s", gi, e, side, tr, tr2Sub(tr, kid)))
			}
			tr2EmitLink(w, g, hn, 1, links)
		}
	}
}

func genC11b(g *Gen, tier string, w *bufio.Writer) {
	all := func() bool { return true }
	if tier == "thorough" {
		for _, hn := range []string{"sha", "alt"} {
			genC11bNodes(g, w, hn, 3)
			genC11bZero(w, hn)
			genC11bSum(g, w, hn, 3, all)
			genC11bDeeper(g, w, hn, 3, all)
			genC11bCompose(g, w, hn, 3, 2, all)
			genC11bWrapLaws(g, w, hn, 1500)
		}
		for i := 0; i < 3000; i++ {
			tr2EmitLink(w, g, trHashName(uint64(i/128)), 0, []string{g.tr2RandLink(3)})
		}
		genC11bRandom(g, w, 6000)
		return
	}
	hn := trHashName(g.U64())
	other := "alt"
	if hn == "alt" {
		other = "sha"
	}
	genC11bNodes(g, w, hn, 3)
	genC11bNodes(g, w, other, 2)
	genC11bZero(w, "sha")
	genC11bZero(w, "alt")
	genC11bSum(g, w, hn, 3, func() bool { return g.Intn(4) == 0 })
	genC11bDeeper(g, w, hn, 2, all)
	genC11bDeeper(g, w, hn, 3, func() bool { return g.Intn(4) == 0 })
	genC11bCompose(g, w, hn, 2, 2, all)
	genC11bCompose(g, w, hn, 3, 2, func() bool { return g.Intn(5) == 0 })
	genC11bWrapLaws(g, w, hn, 300)
	for i := 0; i < 300; i++ {
		tr2EmitLink(w, g, hn, 0, []string{g.tr2RandLink(3)})
	}
	genC11bRandom(g, w, 500)
}
