package main

// Family C16 (op prefix "g64."): tree/bitlen.go and tree/gindex.go on the real library.
//
//	g64.bits <v>          -> ok <BitIndex> <BitLength> <CoverDepth>
//	g64.nav  <v>          -> ok <Left> <Right> <Parent> <IsLeft> <IsRoot> <IsClose> <Depth> <Anchor> <Subtree>
//	g64.iter <v>          -> ok <depth> <r><k> ...   (depth+2 calls of Next; two 0/1 digits right,ok per call)
//	g64.enc  <v>          -> ok <LittleEndian> <BigEndian> <LeftAlignedBigEndian data> <bitLen>
//	                         (byte strings: "nil" for a nil slice, otherwise x<hex>)
//	g64.to   <index> <d>  -> ok <gindex> | err
//
// The Lean side is lean/Driver/OpsBits.lean.

import (
	"bufio"
	"encoding/hex"
	"fmt"
	"strconv"
	"strings"

	"github.com/protolambda/ztyp/tree"
)

func init() {
	registerExec("g64.bits", execG64Bits)
	registerExec("g64.nav", execG64Nav)
	registerExec("g64.iter", execG64Iter)
	registerExec("g64.enc", execG64Enc)
	registerExec("g64.to", execG64To)
	registerGen("C16", genC16)
}

func g64Arg(s string) uint64 {
	v, err := strconv.ParseUint(s, 10, 64)
	if err != nil {
		panic(err)
	}
	return v
}

func g64b01(b bool) string {
	if b {
		return "1"
	}
	return "0"
}

// g64Of unwraps the Gindex interface value returned by the navigation methods.
func g64Of(g tree.Gindex) uint64 { return uint64(g.(tree.Gindex64)) }

func g64BytesTok(b []byte) string {
	if b == nil {
		return "nil"
	}
	return "x" + hex.EncodeToString(b)
}

func execG64Bits(st *State, args []string) string {
	v := g64Arg(args[0])
	return fmt.Sprintf("ok %d %d %d", tree.BitIndex(v), tree.BitLength(v), tree.CoverDepth(v))
}

func execG64Nav(st *State, args []string) string {
	v := tree.Gindex64(g64Arg(args[0]))
	return fmt.Sprintf("ok %d %d %d %s %s %s %d %d %d",
		g64Of(v.Left()), g64Of(v.Right()), g64Of(v.Parent()),
		g64b01(v.IsLeft()), g64b01(v.IsRoot()), g64b01(v.IsClose()),
		v.Depth(), g64Of(v.Anchor()), g64Of(v.Subtree()))
}

func execG64Iter(st *State, args []string) string {
	v := tree.Gindex64(g64Arg(args[0]))
	iter, depth := v.BitIter()
	var sb strings.Builder
	fmt.Fprintf(&sb, "ok %d", depth)
	for i := uint32(0); i < depth+2; i++ {
		right, ok := iter.Next()
		sb.WriteString(" " + g64b01(right) + g64b01(ok))
	}
	return sb.String()
}

func execG64Enc(st *State, args []string) string {
	v := tree.Gindex64(g64Arg(args[0]))
	le := retainNote(v.LittleEndian())
	be := retainNote(v.BigEndian())
	la, bitLen := v.LeftAlignedBigEndian()
	retainNote(la)
	return fmt.Sprintf("ok %s %s %s %d", g64BytesTok(le), g64BytesTok(be), g64BytesTok(la), bitLen)
}

func execG64To(st *State, args []string) string {
	index := g64Arg(args[0])
	d, err := strconv.ParseUint(args[1], 10, 8)
	if err != nil {
		panic(err)
	}
	g, err := tree.ToGindex64(index, uint8(d))
	if err != nil {
		return "err"
	}
	return fmt.Sprintf("ok %d", uint64(g))
}

// ---- generator ----

func g64EmitValue(out *bufio.Writer, v uint64) {
	fmt.Fprintf(out, "g64.bits %d\n", v)
	fmt.Fprintf(out, "g64.nav %d\n", v)
	fmt.Fprintf(out, "g64.iter %d\n", v)
	fmt.Fprintf(out, "g64.enc %d\n", v)
}

// g64RandInClass returns a random value with exactly `bits` significant bits (bits in 1..64).
func g64RandInClass(g *Gen, bits int) uint64 {
	v := g.U64()
	if bits < 64 {
		v &= (uint64(1) << uint(bits)) - 1
	}
	return v | uint64(1)<<uint(bits-1)
}

// genC16: all values below 2^17 exhaustively (quick: all below 2^12 plus a seed-chosen 1/16
// slice of the rest), every 2^k and 2^k±1 for k ≤ 64 (wrapping), random values in every
// bit-length class, and (index, depth) pairs around the ToGindex64 boundary.
func genC16(g *Gen, tier string, out *bufio.Writer) {
	thorough := tier == "thorough"

	// 1. exhaustive small domain
	const small = 1 << 17
	if thorough {
		for v := uint64(0); v < small; v++ {
			g64EmitValue(out, v)
		}
	} else {
		for v := uint64(0); v < 1<<12; v++ {
			g64EmitValue(out, v)
		}
		slice := uint64(g.Intn(16))
		for v := uint64(1 << 12); v < small; v++ {
			if v%16 == slice {
				g64EmitValue(out, v)
			}
		}
	}

	// 2. every power of two and its neighbours, k = 0..64 (2^64 wraps to 0)
	for k := 0; k <= 64; k++ {
		var p uint64
		if k < 64 {
			p = uint64(1) << uint(k)
		}
		g64EmitValue(out, p-1)
		g64EmitValue(out, p)
		g64EmitValue(out, p+1)
	}

	// 3. random values in every bit-length class; also patterns near the byte-length and
	// mask boundaries (all-ones below the top bit, single low bit, single bit below the top)
	perClass := 8
	if thorough {
		perClass = 200
	}
	for bits := 1; bits <= 64; bits++ {
		for j := 0; j < perClass; j++ {
			g64EmitValue(out, g64RandInClass(g, bits))
		}
		top := uint64(1) << uint(bits-1)
		g64EmitValue(out, top|(top-1))
		g64EmitValue(out, top|1)
		g64EmitValue(out, top|(top>>1))
		g64EmitValue(out, top|uint64(g.Intn(256)))
		if bits > 8 {
			g64EmitValue(out, top|(g.U64()&0xff)<<uint(g.Intn(bits-8)))
		}
	}
	nrand := 200
	if thorough {
		nrand = 20000
	}
	for j := 0; j < nrand; j++ {
		g64EmitValue(out, g.U64())
	}

	// 4. ToGindex64: every depth 0..255 at the boundary index, plus random pairs
	emitTo := func(i uint64, d int) { fmt.Fprintf(out, "g64.to %d %d\n", i, d) }
	for d := 0; d <= 255; d++ {
		var a uint64 // 2^d, wrapping to 0 like the Go shift for d ≥ 64
		if d < 64 {
			a = uint64(1) << uint(d)
		}
		emitTo(0, d)
		emitTo(1, d)
		emitTo(a-2, d)
		emitTo(a-1, d)
		emitTo(a, d)
		emitTo(a+1, d)
		emitTo(^uint64(0), d)
		if d >= 56 && d <= 72 {
			emitTo(uint64(1)<<63, d)
			emitTo(uint64(1)<<63-1, d)
			emitTo(uint64(1)<<62, d)
		}
		emitTo(g.U64(), d)
		if d < 64 && d > 0 {
			emitTo(g.U64()&(a-1), d)          // valid
			emitTo(g.U64()&(a-1)|a, d)        // one bit too large
			emitTo(g64RandInClass(g, d+1), d) // in [2^d, 2^(d+1))
			emitTo(g64RandInClass(g, d), d)   // in [2^(d-1), 2^d)
		}
	}
	nto := 3000
	if thorough {
		nto = 50000
	}
	for j := 0; j < nto; j++ {
		var d int
		switch g.Intn(4) {
		case 0:
			d = g.Intn(64)
		case 1:
			d = 60 + g.Intn(8)
		case 2:
			d = g.Intn(256)
		default:
			d = g.Intn(20)
		}
		var i uint64
		switch g.Intn(3) {
		case 0:
			i = g.U64()
		case 1:
			i = g64RandInClass(g, 1+g.Intn(64))
		default:
			if d < 64 {
				i = (uint64(1) << uint(d)) + uint64(g.Intn(5)) - 2
			} else {
				i = uint64(g.Intn(5)) - 2
			}
		}
		emitTo(i, d)
	}
}
