package main

import "math/big"

// Numbers from the properties' quantifier text.
var smallNums = []uint64{0, 1, 2, 3, 4, 5, 6, 7, 8, 9, 10, 11, 12, 13, 14, 15, 16, 17}
var packNums = []uint64{31, 32, 33}
var bitNums = []uint64{255, 256, 257, 512, 513}
var hugeLimits = []uint64{1 << 20, 1 << 32, 1 << 40}

type TyOpts struct {
	NoBoolSeries bool // exclude Vector/List of boolean (known finding D3 stream is separate)
	MaxDepth     int
}

func (g *Gen) uintTy() *Ty {
	return &Ty{Kind: KUint, N: g.Pick([]uint64{1, 2, 4, 8, 32})}
}

func (g *Gen) length(min uint64, allowBits bool) uint64 {
	for {
		var n uint64
		r := g.Intn(100)
		switch {
		case r < 70:
			n = g.Pick(smallNums)
		case r < 90 || !allowBits:
			n = g.Pick(packNums)
		default:
			n = g.Pick(bitNums)
		}
		if n >= min {
			return n
		}
	}
}

func (g *Gen) limit(allowBits bool) uint64 {
	r := g.Intn(100)
	switch {
	case r < 55:
		return g.Pick(smallNums)
	case r < 70:
		return g.Pick(packNums)
	case r < 80 && allowBits:
		return g.Pick(bitNums)
	default:
		return g.Pick(hugeLimits)
	}
}

// RandTy draws a type from the recursive grammar; depth = remaining nesting budget.
func (g *Gen) RandTy(depth int, o TyOpts) *Ty {
	leaf := depth <= 0
	r := g.Intn(100)
	if leaf {
		r = g.Intn(40)
	}
	switch {
	case r < 12:
		return g.uintTy()
	case r < 16:
		return &Ty{Kind: KBool}
	case r < 24:
		if g.Chance(30) {
			return &Ty{Kind: KBytesN, N: 32}
		}
		return &Ty{Kind: KBytesN, N: uint64(1 + g.Intn(32))}
	case r < 32:
		return &Ty{Kind: KBitvector, N: g.length(1, true)}
	case r < 40:
		return &Ty{Kind: KBitlist, N: g.limit(true)}
	case r < 55:
		e := g.elemTy(depth-1, o)
		return &Ty{Kind: KVector, N: g.vecLen(e), Elem: e}
	case r < 72:
		e := g.elemTy(depth-1, o)
		return &Ty{Kind: KList, N: g.limit(e.Kind == KUint), Elem: e}
	case r < 90:
		k := 1 + g.Intn(5)
		if g.Chance(10) {
			k = 1 + g.Intn(9)
		}
		t := &Ty{Kind: KContainer}
		for i := 0; i < k; i++ {
			if i > 0 && g.Chance(30) {
				// the same type again (adjacent fields of one user-defined type)
				t.Fields = append(t.Fields, t.Fields[i-1])
				continue
			}
			t.Fields = append(t.Fields, g.RandTy(depth-1, o))
		}
		return t
	default:
		k := 1 + g.Intn(3)
		t := &Ty{Kind: KUnion, HasNone: g.Chance(40)}
		for i := 0; i < k; i++ {
			t.Fields = append(t.Fields, g.RandTy(depth-1, o))
		}
		return t
	}
}

func (g *Gen) elemTy(depth int, o TyOpts) *Ty {
	for {
		var e *Ty
		if g.Chance(45) {
			e = g.uintTy()
		} else {
			e = g.RandTy(depth, o)
		}
		if o.NoBoolSeries && e.Kind == KBool {
			continue
		}
		return e
	}
}

func (g *Gen) vecLen(e *Ty) uint64 {
	if e.Kind == KUint {
		return g.length(1, e.N == 1)
	}
	if e.Kind == KBool || e.Kind == KBytesN {
		return g.length(1, false)
	}
	return uint64(1 + g.Intn(6))
}

func hasBoolSeries(t *Ty) bool {
	switch t.Kind {
	case KVector, KList:
		return t.Elem.Kind == KBool || hasBoolSeries(t.Elem)
	case KContainer, KUnion:
		for _, f := range t.Fields {
			if hasBoolSeries(f) {
				return true
			}
		}
	}
	return false
}

// seriesLen draws an element count for a list with the given limit.
func (g *Gen) seriesLen(limit uint64, basic bool, budget int) uint64 {
	max := uint64(budget)
	if limit < max {
		max = limit
	}
	r := g.Intn(100)
	var n uint64
	switch {
	case r < 15:
		n = 0
	case r < 25:
		n = 1
	case r < 40:
		n = max // full (or as full as the budget allows)
	case r < 55 && basic:
		n = g.Pick(append(append([]uint64{}, packNums...), 63, 64, 65))
	default:
		n = uint64(g.Intn(int(max) + 1))
	}
	if n > max {
		n = max
	}
	return n
}

// RandVal draws a value of type t; budget bounds the number of leaves.
func (g *Gen) RandVal(t *Ty, budget int) *Val {
	switch t.Kind {
	case KUint:
		return &Val{Kind: VNum, Num: g.randUint(t.N)}
	case KBool:
		return &Val{Kind: VBool, B: g.Bool()}
	case KBytesN:
		if g.Chance(10) {
			return &Val{Kind: VBytes, Bytes: make([]byte, t.N)}
		}
		return &Val{Kind: VBytes, Bytes: g.Bytes(int(t.N))}
	case KBitvector:
		return &Val{Kind: VBits, Bits: g.randBits(int(t.N))}
	case KBitlist:
		max := 600
		n := g.seriesLen(t.N, false, max)
		if g.Chance(25) {
			n = g.Pick(append(append([]uint64{}, bitNums...), 7, 8, 9))
			if n > t.N {
				n = t.N
			}
		}
		return &Val{Kind: VBits, Bits: g.randBits(int(n))}
	case KVector:
		r := &Val{Kind: VSeq, Seq: []*Val{}}
		for i := uint64(0); i < t.N; i++ {
			r.Seq = append(r.Seq, g.RandVal(t.Elem, budget/int(t.N+1)))
		}
		return r
	case KList:
		b := budget
		if t.Elem.Kind != KUint && t.Elem.Kind != KBool && t.Elem.Kind != KBytesN {
			b = 6
			if budget < b {
				b = budget
			}
			if b < 1 {
				b = 1
			}
		} else if b > 600 {
			b = 600
		} else if b < 2 {
			b = 2
		}
		n := g.seriesLen(t.N, t.Elem.Kind == KUint, b)
		r := &Val{Kind: VSeq, Seq: []*Val{}}
		for i := uint64(0); i < n; i++ {
			r.Seq = append(r.Seq, g.RandVal(t.Elem, budget/int(n+1)))
		}
		return r
	case KContainer:
		r := &Val{Kind: VSeq, Seq: []*Val{}}
		for _, f := range t.Fields {
			r.Seq = append(r.Seq, g.RandVal(f, budget/len(t.Fields)))
		}
		return r
	case KUnion:
		n := len(t.Fields)
		if t.HasNone {
			n++
		}
		sel := uint64(g.Intn(n))
		ot := unionOpt(t, sel)
		if ot == nil {
			return &Val{Kind: VUnion, Sel: sel, Inner: &Val{Kind: VNone}}
		}
		return &Val{Kind: VUnion, Sel: sel, Inner: g.RandVal(ot, budget)}
	}
	panic("bad type")
}

func (g *Gen) randBits(n int) []bool {
	bits := make([]bool, n)
	mode := g.Intn(4)
	for i := range bits {
		switch mode {
		case 0:
			bits[i] = false
		case 1:
			bits[i] = true
		default:
			bits[i] = g.Bool()
		}
	}
	return bits
}

func (g *Gen) randUint(size uint64) *big.Int {
	bitsN := uint(size * 8)
	max := new(big.Int).Lsh(big.NewInt(1), bitsN)
	switch g.Intn(6) {
	case 0:
		return big.NewInt(0)
	case 1:
		return new(big.Int).Sub(max, big.NewInt(1))
	case 2:
		return big.NewInt(int64(g.Intn(256)))
	default:
		n := new(big.Int).SetBytes(g.Bytes(int(size)))
		return n.Mod(n, max)
	}
}

// DefaultVal is the spec default value (used by generators for the "default" route).
func DefaultVal(t *Ty) *Val {
	switch t.Kind {
	case KUint:
		return &Val{Kind: VNum, Num: big.NewInt(0)}
	case KBool:
		return &Val{Kind: VBool}
	case KBytesN:
		return &Val{Kind: VBytes, Bytes: make([]byte, t.N)}
	case KBitvector:
		return &Val{Kind: VBits, Bits: make([]bool, t.N)}
	case KBitlist:
		return &Val{Kind: VBits, Bits: []bool{}}
	case KVector:
		r := &Val{Kind: VSeq, Seq: []*Val{}}
		for i := uint64(0); i < t.N; i++ {
			r.Seq = append(r.Seq, DefaultVal(t.Elem))
		}
		return r
	case KList:
		return &Val{Kind: VSeq, Seq: []*Val{}}
	case KContainer:
		r := &Val{Kind: VSeq, Seq: []*Val{}}
		for _, f := range t.Fields {
			r.Seq = append(r.Seq, DefaultVal(f))
		}
		return r
	case KUnion:
		if t.HasNone {
			return &Val{Kind: VUnion, Sel: 0, Inner: &Val{Kind: VNone}}
		}
		return &Val{Kind: VUnion, Sel: 0, Inner: DefaultVal(t.Fields[0])}
	}
	panic("bad type")
}

// wideContainers: containers with more fields than a machine word has bits (33, 40, 65, 70),
// variable-size fields before, at and after positions 31/32 and 63/64.
func wideContainers() []*Ty {
	u8 := &Ty{Kind: KUint, N: 1}
	u16 := &Ty{Kind: KUint, N: 2}
	lst := &Ty{Kind: KList, N: 4, Elem: u8}
	bl := &Ty{Kind: KBitlist, N: 5}
	var out []*Ty
	for _, n := range []int{33, 40, 65, 70} {
		fs := make([]*Ty, n)
		for i := range fs {
			switch {
			case i == 3 || i == 31 || i == 32 || i == 34 || i == 63 || i == 64 || i == n-1:
				fs[i] = lst
			case i == 36 || i == 66:
				fs[i] = bl
			case i%5 == 0:
				fs[i] = u16
			default:
				fs[i] = u8
			}
		}
		out = append(out, &Ty{Kind: KContainer, Fields: fs})
	}
	return out
}
