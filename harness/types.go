package main

import (
	"sync"
	"bytes"
	"encoding/binary"
	"fmt"
	"math/big"

	"github.com/holiman/uint256"
	"github.com/protolambda/ztyp/codec"
	"github.com/protolambda/ztyp/tree"
	"github.com/protolambda/ztyp/view"
)

// typeDef builds the library's TypeDef for a Ty the way a downstream user would: a type is
// defined once and the same TypeDef object is used wherever that type occurs (e.g. two fields
// of the same list type share one *ComplexListTypeDef).
var typeDefCache = map[string]view.TypeDef{}
var typeDefMu sync.Mutex // the harness's own cache is shared by the goroutines of `conc`

func typeDef(t *Ty) view.TypeDef {
	typeDefMu.Lock()
	defer typeDefMu.Unlock()
	return typeDefLocked(t)
}

func typeDefLocked(t *Ty) view.TypeDef {
	key := t.String()
	if td, ok := typeDefCache[key]; ok {
		return td
	}
	td := typeDefBuild(t)
	typeDefCache[key] = td
	return td
}

// typeDefTrim empties the cache when it has grown large.  Called between ops only (main.go), so
// that within one op a type and its component types always come from one generation of the cache
// (ops compare TypeDef objects by identity).
func typeDefTrim() {
	typeDefMu.Lock()
	defer typeDefMu.Unlock()
	if len(typeDefCache) > 50000 {
		typeDefCache = map[string]view.TypeDef{}
	}
}

func typeDefBuild(t *Ty) view.TypeDef {
	switch t.Kind {
	case KUint:
		return view.UintMeta(t.N)
	case KBool:
		return view.BoolType
	case KBytesN:
		if t.N == 32 {
			return view.RootType
		}
		return view.SmallByteVecMeta(t.N)
	case KBitvector:
		return view.BitVectorType(t.N)
	case KBitlist:
		return view.BitListType(t.N)
	case KVector:
		return view.VectorType(typeDefLocked(t.Elem), t.N)
	case KList:
		return view.ListType(typeDefLocked(t.Elem), t.N)
	case KContainer:
		fs := make([]view.FieldDef, len(t.Fields))
		for i, f := range t.Fields {
			fs[i] = view.FieldDef{Name: fmt.Sprintf("f%d", i), Type: typeDefLocked(f)}
		}
		return view.ContainerType("C", fs)
	case KUnion:
		var opts []view.TypeDef
		if t.HasNone {
			opts = append(opts, nil)
		}
		for _, f := range t.Fields {
			opts = append(opts, typeDefLocked(f))
		}
		return view.UnionType(opts)
	}
	panic("bad type")
}

func u256View(n *big.Int) view.Uint256View {
	var x uint256.Int
	x.SetFromBig(n)
	return view.Uint256View(x)
}

// basicView makes the library's basic value for a uint Val.
func basicView(t *Ty, v *Val) view.BasicView {
	switch t.N {
	case 1:
		return view.Uint8View(v.Num.Uint64())
	case 2:
		return view.Uint16View(v.Num.Uint64())
	case 4:
		return view.Uint32View(v.Num.Uint64())
	case 8:
		return view.Uint64View(v.Num.Uint64())
	case 32:
		return u256View(v.Num)
	}
	panic("bad uint size")
}

// construct builds a view through the element/field/bit constructors ("new" route).
func construct(t *Ty, v *Val) (view.View, error) {
	td := typeDef(t)
	switch t.Kind {
	case KUint:
		return basicView(t, v), nil
	case KBool:
		return view.BoolView(v.B), nil
	case KBytesN:
		if t.N == 32 {
			var r view.RootView
			copy(r[:], v.Bytes)
			return &r, nil
		}
		return view.SmallByteVecView(append([]byte{}, v.Bytes...)), nil
	case KBitvector:
		return td.(*view.BitVectorTypeDef).FromBits(v.Bits)
	case KBitlist:
		return td.(*view.BitListTypeDef).FromBits(v.Bits)
	case KVector, KList:
		if t.Elem.Kind == KUint {
			els := make([]view.BasicView, len(v.Seq))
			for i, e := range v.Seq {
				els[i] = basicView(t.Elem, e)
			}
			if t.Kind == KVector {
				return td.(*view.BasicVectorTypeDef).FromElements(els...)
			}
			return td.(*view.BasicListTypeDef).FromElements(els...)
		}
		els := make([]view.View, len(v.Seq))
		for i, e := range v.Seq {
			x, err := construct(t.Elem, e)
			if err != nil {
				return nil, err
			}
			els[i] = x
		}
		if t.Kind == KVector {
			return td.(*view.ComplexVectorTypeDef).FromElements(els...)
		}
		return td.(*view.ComplexListTypeDef).FromElements(els...)
	case KContainer:
		els := make([]view.View, len(v.Seq))
		for i, e := range v.Seq {
			x, err := construct(t.Fields[i], e)
			if err != nil {
				return nil, err
			}
			els[i] = x
		}
		return td.(*view.ContainerTypeDef).FromFields(els...)
	case KUnion:
		ut := td.(*view.UnionTypeDef)
		if v.Inner.Kind == VNone {
			return ut.FromView(uint8(v.Sel), nil)
		}
		ot := unionOpt(t, v.Sel)
		x, err := construct(ot, v.Inner)
		if err != nil {
			return nil, err
		}
		return ut.FromView(uint8(v.Sel), x)
	}
	panic("bad type")
}

func unionOpt(t *Ty, sel uint64) *Ty {
	if t.HasNone {
		if sel == 0 || int(sel-1) >= len(t.Fields) {
			return nil
		}
		return t.Fields[sel-1]
	}
	if int(sel) >= len(t.Fields) {
		return nil
	}
	return t.Fields[sel]
}

// extract reads a value back out of a view through the typed getters only.
func extract(t *Ty, vw view.View) (*Val, error) {
	switch t.Kind {
	case KUint:
		switch x := vw.(type) {
		case view.Uint8View:
			return &Val{Kind: VNum, Num: new(big.Int).SetUint64(uint64(x))}, nil
		case view.Uint16View:
			return &Val{Kind: VNum, Num: new(big.Int).SetUint64(uint64(x))}, nil
		case view.Uint32View:
			return &Val{Kind: VNum, Num: new(big.Int).SetUint64(uint64(x))}, nil
		case view.Uint64View:
			return &Val{Kind: VNum, Num: new(big.Int).SetUint64(uint64(x))}, nil
		case view.Uint256View:
			u := uint256.Int(x)
			return &Val{Kind: VNum, Num: u.ToBig()}, nil
		}
		return nil, fmt.Errorf("not a uint view: %T", vw)
	case KBool:
		b, err := view.AsBool(vw, nil)
		if err != nil {
			return nil, err
		}
		return &Val{Kind: VBool, B: bool(b)}, nil
	case KBytesN:
		if t.N == 32 {
			r, err := view.AsRoot(vw, nil)
			if err != nil {
				return nil, err
			}
			return &Val{Kind: VBytes, Bytes: append([]byte{}, r[:]...)}, nil
		}
		b, err := view.AsSmallByteVec(vw, nil)
		if err != nil {
			return nil, err
		}
		return &Val{Kind: VBytes, Bytes: append([]byte{}, b...)}, nil
	case KBitvector:
		bv, err := view.AsBitVector(vw, nil)
		if err != nil {
			return nil, err
		}
		r := &Val{Kind: VBits, Bits: []bool{}}
		for i := uint64(0); i < bv.BitLength; i++ {
			b, err := bv.Get(i)
			if err != nil {
				return nil, err
			}
			r.Bits = append(r.Bits, bool(b))
		}
		return r, nil
	case KBitlist:
		bl, err := view.AsBitList(vw, nil)
		if err != nil {
			return nil, err
		}
		n, err := bl.Length()
		if err != nil {
			return nil, err
		}
		r := &Val{Kind: VBits, Bits: []bool{}}
		for i := uint64(0); i < n; i++ {
			b, err := bl.Get(i)
			if err != nil {
				return nil, err
			}
			r.Bits = append(r.Bits, bool(b))
		}
		return r, nil
	case KVector, KList:
		n, get, err := seriesAccess(t, vw)
		if err != nil {
			return nil, err
		}
		r := &Val{Kind: VSeq, Seq: []*Val{}}
		for i := uint64(0); i < n; i++ {
			el, err := get(i)
			if err != nil {
				return nil, err
			}
			ev, err := extract(t.Elem, el)
			if err != nil {
				return nil, err
			}
			r.Seq = append(r.Seq, ev)
		}
		return r, nil
	case KContainer:
		c, err := view.AsContainer(vw, nil)
		if err != nil {
			return nil, err
		}
		r := &Val{Kind: VSeq, Seq: []*Val{}}
		for i := range t.Fields {
			el, err := c.Get(uint64(i))
			if err != nil {
				return nil, err
			}
			ev, err := extract(t.Fields[i], el)
			if err != nil {
				return nil, err
			}
			r.Seq = append(r.Seq, ev)
		}
		return r, nil
	case KUnion:
		u, err := view.AsUnion(vw, nil)
		if err != nil {
			return nil, err
		}
		sel, err := u.Selector()
		if err != nil {
			return nil, err
		}
		inner, err := u.Value()
		if err != nil {
			return nil, err
		}
		if inner == nil {
			return &Val{Kind: VUnion, Sel: uint64(sel), Inner: &Val{Kind: VNone}}, nil
		}
		ot := unionOpt(t, uint64(sel))
		if ot == nil {
			return nil, fmt.Errorf("selector %d has no option type", sel)
		}
		iv, err := extract(ot, inner)
		if err != nil {
			return nil, err
		}
		return &Val{Kind: VUnion, Sel: uint64(sel), Inner: iv}, nil
	}
	panic("bad type")
}

// seriesAccess returns length and indexed getter of a vector/list view.
func seriesAccess(t *Ty, vw view.View) (uint64, func(i uint64) (view.View, error), error) {
	switch x := vw.(type) {
	case *view.BasicVectorView:
		return x.VectorLength, func(i uint64) (view.View, error) { return x.Get(i) }, nil
	case *view.BasicListView:
		n, err := x.Length()
		return n, func(i uint64) (view.View, error) { return x.Get(i) }, err
	case *view.ComplexVectorView:
		return x.VectorLength, x.Get, nil
	case *view.ComplexListView:
		n, err := x.Length()
		return n, x.Get, err
	}
	return 0, nil, fmt.Errorf("not a series view: %T", vw)
}

// serializeView runs the view's serializer into a buffer.
func serializeView(vw view.View) ([]byte, error) {
	var buf bytes.Buffer
	if err := vw.Serialize(codec.NewEncodingWriter(&buf)); err != nil {
		return nil, err
	}
	return buf.Bytes(), nil
}

// decodeView hands bs to the type's deserializer with scope = len(bs).
func decodeView(td view.TypeDef, bs []byte) (view.View, error) {
	return td.Deserialize(codec.NewDecodingReader(bytes.NewReader(bs), uint64(len(bs))))
}

// ---- independent reference serializer (used by generators only) ----

func isFixed(t *Ty) bool {
	switch t.Kind {
	case KUint, KBool, KBytesN, KBitvector:
		return true
	case KBitlist, KList, KUnion:
		return false
	case KVector:
		return isFixed(t.Elem)
	case KContainer:
		for _, f := range t.Fields {
			if !isFixed(f) {
				return false
			}
		}
		return true
	}
	panic("bad type")
}

func packBits(bits []bool, delim bool) []byte {
	n := len(bits)
	if delim {
		n++
	}
	out := make([]byte, (n+7)/8)
	for i, b := range bits {
		if b {
			out[i>>3] |= 1 << uint(i&7)
		}
	}
	if delim {
		out[len(bits)>>3] |= 1 << uint(len(bits)&7)
	}
	return out
}

func refSer(t *Ty, v *Val) []byte {
	switch t.Kind {
	case KUint:
		out := make([]byte, t.N)
		b := v.Num.Bytes() // big endian
		for i := 0; i < len(b) && i < int(t.N); i++ {
			out[i] = b[len(b)-1-i]
		}
		return out
	case KBool:
		if v.B {
			return []byte{1}
		}
		return []byte{0}
	case KBytesN:
		return append([]byte{}, v.Bytes...)
	case KBitvector:
		return packBits(v.Bits, false)
	case KBitlist:
		return packBits(v.Bits, true)
	case KVector, KList:
		parts := make([][]byte, len(v.Seq))
		fixed := make([]bool, len(v.Seq))
		for i, e := range v.Seq {
			parts[i] = refSer(t.Elem, e)
			fixed[i] = isFixed(t.Elem)
		}
		return layout(parts, fixed)
	case KContainer:
		parts := make([][]byte, len(v.Seq))
		fixed := make([]bool, len(v.Seq))
		for i, e := range v.Seq {
			parts[i] = refSer(t.Fields[i], e)
			fixed[i] = isFixed(t.Fields[i])
		}
		return layout(parts, fixed)
	case KUnion:
		out := []byte{byte(v.Sel)}
		if v.Inner.Kind != VNone {
			out = append(out, refSer(unionOpt(t, v.Sel), v.Inner)...)
		}
		return out
	}
	panic("bad type")
}

func layout(parts [][]byte, fixed []bool) []byte {
	fixedLen := 0
	for i, p := range parts {
		if fixed[i] {
			fixedLen += len(p)
		} else {
			fixedLen += 4
		}
	}
	var head, tail []byte
	off := fixedLen
	for i, p := range parts {
		if fixed[i] {
			head = append(head, p...)
		} else {
			var o [4]byte
			binary.LittleEndian.PutUint32(o[:], uint32(off))
			head = append(head, o[:]...)
			tail = append(tail, p...)
			off += len(p)
		}
	}
	return append(head, tail...)
}

// altHash is the alternative pluggable pair hash; identical to ZtypV.Sha.altHash in Lean.
func altHash(a tree.Root, b tree.Root) (out tree.Root) {
	var inp [64]byte
	copy(inp[:32], a[:])
	copy(inp[32:], b[:])
	s := [4]uint64{0x9e3779b97f4a7c15, 0xbf58476d1ce4e5b9, 0x94d049bb133111eb, 0x2545f4914f6cdd1d}
	for r := 0; r < 2; r++ {
		for k := 0; k < 8; k++ {
			w := binary.LittleEndian.Uint64(inp[8*k:])
			i := (k + r) % 4
			x := (s[i] ^ w) * 0x100000001b3
			s[i] = (x<<23 | x>>41) + s[(i+1)%4]
		}
	}
	for k := 0; k < 4; k++ {
		x := s[k] ^ (s[k] >> 29)
		s[k] = x*0xff51afd7ed558ccd + s[(k+3)%4]
	}
	for k := 0; k < 4; k++ {
		binary.LittleEndian.PutUint64(out[8*k:], s[k])
	}
	return
}

// withHash runs f with the zero-hash table initialised for the named pair hash and
// restores the default afterwards.  Returns the hash function to pass to the library.
func hashByName(name string) tree.HashFn {
	if name == "alt" {
		return altHash
	}
	if name == "z" {
		return zHash
	}
	return tree.Hash
}

// zHash: SHA-256 with the first two output bytes forced to zero.  Never the all-zero root (the
// library's "not computed yet" sentinel), but every root LOOKS zero to a test that inspects only
// part of it.
func zHash(a, b tree.Root) tree.Root {
	r := tree.Hash(a, b)
	r[0], r[1] = 0, 0
	return r
}

var currentHash = "sha"

func useHash(name string) tree.HashFn {
	if name != currentHash {
		tree.InitZeroHashes(hashByName(name), 64)
		currentHash = name
	}
	return hashByName(name)
}
