#!/bin/bash
# usage: tools/revert_test.sh <repo-commit> <Cxx> [<Cxx>...]
# temporarily reverts one fix commit in /repo's working tree, runs the given checks (quick), restores.
c=$1; shift
cd /repo && git show $c | git apply -R || exit 2
cd /verif
for p in "$@"; do
  out=$(./check $p --tier quick 2>&1 | tail -4 | cut -c1-160)
  echo "--- revert $c vs $p:"; echo "$out"
done
cd /repo && git checkout -- . && git status --short | head -3
