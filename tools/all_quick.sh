#!/bin/bash
# run every check (quick tier) on the current /repo tree; one summary line each; exit 1 if any alarms
cd /verif
bad=0
for n in $(seq -w 1 20); do
  p=C$n
  out=$(./check $p --tier ${1:-quick} 2>&1); rc=$?
  echo "$(echo "$out" | grep "^$p ${1:-quick}" | tail -1) exit=$rc"
  if [ $rc -ne 0 ]; then bad=1; echo "$out" | grep "^VIOLATION" | head -3; fi
done
exit $bad
