#!/usr/bin/env python3
"""For every fixed defect: revert its fix in /repo's working tree, run the property's quick check,
collect up to 3 distinct failing inputs (stateless families) or the shrunk failing history (stateful)
and store them as regression corpus corpus/<Cxx>/regress-<id>.ops.  Restores /repo afterwards."""
import json, os, re, subprocess, sys, glob
sys.path.insert(0, '/verif/runner')
from props import PROPS
k = json.load(open('/verif/known_findings.json'))
def sh(c, **kw): return subprocess.run(c, shell=True, capture_output=True, text=True, **kw)
for e in k:
    if e.get('status') != 'fixed': continue
    if len(sys.argv) > 1 and e['id'] not in sys.argv[1:]: continue
    pid, cid, commit = e['property'], e['id'], e['commit']
    r = sh(f"cd /repo && git show {commit} | git apply -R")
    if r.returncode != 0:
        print(cid, 'revert does not apply cleanly (later fix touches the same lines): skipped'); continue
    try:
        dump = f"/verif/.run/{pid}-failures.txt"
        if os.path.exists(dump): os.remove(dump)
        out = sh(f"cd /verif && CHECK_DUMP=1 ./check {pid} --tier quick", timeout=3600).stdout
        os.makedirs(f"/verif/corpus/{pid}", exist_ok=True)
        dst = f"/verif/corpus/{pid}/regress-{cid}.ops"
        lines = []
        if PROPS[pid].get('stateful'):
            for rp in sorted(glob.glob(f"/verif/replays/{pid}-quick-*.ops"))[:2]:
                lines += [l.rstrip('\n') for l in open(rp) if l.strip() and not l.startswith('#')]
        elif os.path.exists(dump):
            seen = set()
            for l in open(dump):
                if ' || ' not in l: continue
                op = l.split(' || ', 1)[1].split(' => ')[0].strip()
                key = re.sub(r'[0-9a-f]{4,}|\d+', '#', op)[:60]
                if key in seen or len(op) > 2000: continue
                seen.add(key); lines.append(op)
                if len(lines) >= 3: break
        if lines:
            with open(dst, 'w') as fh:
                fh.write(f"# regression inputs for {cid} ({e['what'][:150]})\n" + "\n".join(lines) + "\n")
        print(cid, pid, 'detected' if 'VIOLATION' in out else 'NOT DETECTED', len(lines), 'corpus lines')
    finally:
        sh("cd /repo && git checkout -- .")
print(sh("cd /repo && git status --short").stdout)
