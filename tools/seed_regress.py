#!/usr/bin/env python3
"""Regression over every stored seeded change: apply seeded/<id>/patch.diff to /repo, run ONE check that
is recorded as detecting it (the seed's own property if it is among them), undo, report seeds that are no
longer detected.  The stored meta.json is not rewritten (this is a regression run, not an evaluation).

  tools/seed_regress.py [id-prefix …]        (writes /verif/seeded/REGRESS.json)
"""
import json, os, subprocess, sys, glob, re, time

ENV = dict(os.environ, GOFLAGS="-mod=mod", GOPROXY="off", GOSUMDB="off", GOTOOLCHAIN="local")


def sh(cmd, cwd=None, timeout=3600):
    p = subprocess.run(cmd, cwd=cwd, env=ENV, shell=True, stdout=subprocess.PIPE, stderr=subprocess.STDOUT, timeout=timeout)
    return p.returncode, p.stdout.decode(errors="replace")


def main():
    pref = sys.argv[1:]
    out = {}
    rc, st = sh("git -C /repo status --short")
    assert st.strip() == "", "/repo is not clean:\n" + st
    for d in sorted(glob.glob("/verif/seeded/C*/")):
        sid = os.path.basename(d.rstrip("/"))
        if pref and not any(sid.startswith(p) for p in pref):
            continue
        m = json.load(open(d + "meta.json"))
        det = m.get("detected_by", [])
        if not det:
            out[sid] = {"status": "recorded-as-missed"}
            print(sid, "recorded as missed: skipped", flush=True)
            continue
        pid = m.get("property") if m.get("property") in det else det[0]
        rc, o = sh(f"git -C /repo apply {d}patch.diff")
        if rc != 0:
            out[sid] = {"status": "patch-does-not-apply"}
            print(sid, "PATCH DOES NOT APPLY", flush=True)
            continue
        t0 = time.time()
        try:
            rc, o = sh(f"./check {pid} --tier quick", cwd="/verif")
        finally:
            sh("git -C /repo checkout -- . && git -C /repo clean -fdq")
        tail = [l for l in o.split("\n") if l.startswith(pid + " quick")]
        f = re.search(r"failures=(\d+)", tail[-1]) if tail else None
        out[sid] = {"status": "detected" if rc != 0 else "NOT-DETECTED", "check": pid, "failures": int(f.group(1)) if f else None,
                    "wall_s": round(time.time() - t0, 1)}
        print(sid, out[sid], flush=True)
    rc, st = sh("git -C /repo status --short")
    assert st.strip() == "", st
    allr = {}
    if os.path.exists("/verif/seeded/REGRESS.json"):
        allr = json.load(open("/verif/seeded/REGRESS.json"))
    allr.update(out)
    json.dump(allr, open("/verif/seeded/REGRESS.json", "w"), indent=1, sort_keys=True)
    bad = [s for s, r in out.items() if r["status"] not in ("detected", "recorded-as-missed")]
    print("DONE", len(out), "seeds;", "not detected:", bad)


if __name__ == "__main__":
    main()
