#!/usr/bin/env python3
"""print the markdown table of seeded changes from /verif/seeded/*/meta.json"""
import json, os, glob
rows = []
for d in sorted(glob.glob('/verif/seeded/*/')):
    m = json.load(open(os.path.join(d, 'meta.json')))
    sid = os.path.basename(d.rstrip('/'))
    if sid.startswith('benign'):
        continue  # behaviour-preserving refactors: evaluated by tools/benign_eval.py
    det = m.get('detected_by', [])
    how = []
    for p, r in m.get('checks_run', {}).items():
        s = r.get('summary', '')
        import re
        f = re.search(r'failures=(\d+)', s); i = re.search(r'infra-violations=(\d+)', s)
        how.append(f"{p}: {f.group(1) if f else '?'} failing inputs" + (f", fact inventory" if i and i.group(1) != '0' else ""))
    rows.append((sid, m.get('property', ''), (m.get('title') or m.get('what_breaks', ''))[:110].replace('|', '/'), ', '.join(m.get('files', []))[:60],
                 (m.get('needs_to_manifest', '') or '')[:120].replace('|', '/'), ', '.join(det) or 'MISSED', '; '.join(how)))
print('| seed | property | change | files | needs | detected by | detail |')
print('|---|---|---|---|---|---|---|')
for r in rows:
    print('| ' + ' | '.join(r) + ' |')
