#!/usr/bin/env python3
"""Confirm a seeded change and run checks against it.

  tools/seed_eval.py <src-dir-with patch.diff,demo_test.go,meta.json> <seed-id> <Cxx> [<Cxx>…]

1. in a scratch worktree of /repo: demo passes clean, fails with the patch, the original suite
   passes with the patch (demo removed);
2. applies the patch to /repo, runs the given checks (quick), restores /repo;
3. stores everything under /verif/seeded/<seed-id>/ with the outcome in meta.json.
"""
import json, os, shutil, subprocess, sys, re

ENV = dict(os.environ, GOFLAGS="-mod=mod", GOPROXY="off", GOSUMDB="off", GOTOOLCHAIN="local")


def sh(cmd, cwd=None, timeout=3600):
    p = subprocess.run(cmd, cwd=cwd, env=ENV, shell=isinstance(cmd, str), stdout=subprocess.PIPE,
                       stderr=subprocess.STDOUT, timeout=timeout)
    return p.returncode, p.stdout.decode(errors="replace")


def main():
    src, sid = sys.argv[1], sys.argv[2]
    props = sys.argv[3:]
    meta = json.load(open(os.path.join(src, "meta.json")))
    demo_dir = meta.get("demo_dir", "view")
    wt = f"/tmp/seedeval-{sid}"
    sh(f"git -C /repo worktree remove --force {wt}")
    rc, out = sh(f"git -C /repo worktree add -q {wt} HEAD")
    assert rc == 0, out
    res = {}
    try:
        demo = os.path.join(wt, demo_dir, "zz_seed_demo_test.go")
        shutil.copy(os.path.join(src, "demo_test.go"), demo)
        rc, out = sh(f"go test -vet=off -count=1 ./{demo_dir}/", cwd=wt)
        res["demo_clean_passes"] = rc == 0
        rc, out = sh(f"git apply {os.path.abspath(os.path.join(src, 'patch.diff'))}", cwd=wt)
        res["patch_applies"] = rc == 0
        rc, out = sh(f"go test -vet=off -count=1 ./{demo_dir}/", cwd=wt)
        res["demo_patched_fails"] = rc != 0
        if rc == 0:  # demonstrations of data races need the race detector
            rc, out = sh(f"go test -race -vet=off -count=1 ./{demo_dir}/", cwd=wt)
            res["demo_patched_fails"] = rc != 0
            res["demo_needs_race"] = rc != 0
        os.remove(demo)
        rc, out = sh("go build ./... && go test -vet=off -count=1 ./...", cwd=wt)
        res["suite_passes_with_patch"] = rc == 0
    finally:
        sh(f"git -C /repo worktree remove --force {wt}")
    confirmed = all(res.get(k) for k in ["demo_clean_passes", "patch_applies", "demo_patched_fails", "suite_passes_with_patch"])
    res["confirmed"] = confirmed
    detected = {}
    if confirmed and props:
        rc, out = sh(f"git -C /repo apply {os.path.abspath(os.path.join(src, 'patch.diff'))}")
        assert rc == 0, out
        try:
            for p in props:
                rc, out = sh(f"./check {p} --tier quick", cwd="/verif", timeout=7200)
                viol = [l for l in out.split("\n") if l.startswith("VIOLATION")]
                tail = [l for l in out.split("\n") if l.startswith(p + " quick")]
                detected[p] = {"exit": rc, "violations": len(viol),
                               "no_failing_input": any("no-failing-input-found" in l for l in viol),
                               "summary": tail[-1] if tail else out[-300:]}
        finally:
            sh("git -C /repo checkout -- . && git -C /repo clean -fdq")
            rc, out = sh("git -C /repo status --short")
            assert out.strip() == "", out
    dst = f"/verif/seeded/{sid}"
    os.makedirs(dst, exist_ok=True)
    for f in ["patch.diff", "demo_test.go"]:
        shutil.copy(os.path.join(src, f), os.path.join(dst, f))
    meta["confirmation"] = res
    meta["checks_run"] = detected
    meta["detected_by"] = sorted(p for p, d in detected.items() if d["exit"] != 0)
    json.dump(meta, open(os.path.join(dst, "meta.json"), "w"), indent=1)
    print(sid, "confirmed" if confirmed else f"NOT CONFIRMED {res}", "detected_by=", meta["detected_by"],
          {p: d["summary"][-90:] for p, d in detected.items()})


if __name__ == "__main__":
    main()
