#!/usr/bin/env python3
"""Apply a behaviour-preserving patch to /repo, run every check (quick); none may report a violation.
  tools/benign_eval.py <dir with patch.diff, meta.json> <id>"""
import json, os, shutil, subprocess, sys
ENV = dict(os.environ, GOFLAGS="-mod=mod", GOPROXY="off", GOSUMDB="off", GOTOOLCHAIN="local")
def sh(cmd, cwd=None, timeout=7200):
    p = subprocess.run(cmd, cwd=cwd, env=ENV, shell=True, stdout=subprocess.PIPE, stderr=subprocess.STDOUT, timeout=timeout)
    return p.returncode, p.stdout.decode(errors="replace")
src, bid = sys.argv[1], sys.argv[2]
meta = json.load(open(os.path.join(src, "meta.json")))
rc, out = sh("git -C /repo status --short")
assert out.strip() == "", "/repo not clean: " + out
rc, out = sh(f"git -C /repo apply {os.path.abspath(os.path.join(src, 'patch.diff'))}")
assert rc == 0, out
res = {}
try:
    rc, out = sh("go build ./... && go test -vet=off -count=1 ./...", cwd="/repo")
    meta["suite_passes"] = rc == 0
    for n in range(1, 21):
        p = f"C{n:02d}"
        rc, out = sh(f"./check {p} --tier quick", cwd="/verif")
        viol = [l for l in out.split("\n") if l.startswith("VIOLATION")]
        res[p] = {"exit": rc, "violations": viol[:3]}
finally:
    sh("git -C /repo checkout -- . && git -C /repo clean -fdq")
alarms = sorted(p for p, r in res.items() if r["exit"] != 0)
meta["alarms"] = alarms
meta["checks"] = {p: r for p, r in res.items() if r["exit"] != 0}
dst = f"/verif/seeded/benign-{bid}"
os.makedirs(dst, exist_ok=True)
shutil.copy(os.path.join(src, "patch.diff"), dst)
json.dump(meta, open(os.path.join(dst, "meta.json"), "w"), indent=1)
print(bid, meta.get("title", "")[:60], "ALARMS:" if alarms else "no alarm", alarms)
