/-
SSZ specification (simple-serialize.md) transcribed: types, values, typing,
sizes, `serialize`, `hash_tree_root`.  This is the oracle; it is trusted (DESIGN §9).
-/
import ZtypV.Basic
namespace ZtypV

inductive Ty where
  | uint (bytes : Nat)                 -- uint8/16/32/64/256: bytes ∈ {1,2,4,8,32}
  | bool
  | bytesN (n : Nat)                   -- byte vector of 1..32 bytes (ztyp: SmallByteVec / Root)
  | bitvector (n : Nat)
  | bitlist (lim : Nat)
  | vector (e : Ty) (n : Nat)
  | list (e : Ty) (lim : Nat)
  | container (fs : List Ty)
  | union (hasNone : Bool) (opts : List Ty)   -- hasNone: option 0 is None, `opts` are options 1..
  deriving Repr, BEq, Inhabited

inductive Val where
  | num (n : Nat)
  | bool (b : Bool)
  | bytes (bs : Bytes)
  | bits (bs : List Bool)
  | seq (vs : List Val)
  | none
  | union (sel : Nat) (v : Val)        -- `v = .none` for the None option
  deriving Repr, BEq, Inhabited

namespace Ty

/-- basic types in the SSZ sense (packed in series) -/
def isBasic : Ty → Bool
  | .uint _ | .bool => true
  | _ => false

mutual
def isFixed : Ty → Bool
  | .uint _ | .bool | .bytesN _ | .bitvector _ => true
  | .bitlist _ | .list _ _ | .union _ _ => false
  | .vector e _ => e.isFixed
  | .container fs => allFixed fs
def allFixed : List Ty → Bool
  | [] => true
  | t :: ts => t.isFixed && allFixed ts
end

mutual
/-- byte length of a fixed-size type; for containers: the length of the fixed part
    (4 per variable-size field); 0 for other variable-size types -/
def fixedSize : Ty → Nat
  | .uint b => b
  | .bool => 1
  | .bytesN n => n
  | .bitvector n => (n + 7) / 8
  | .bitlist _ | .list _ _ | .union _ _ => 0
  | .vector e n => if e.isFixed then n * e.fixedSize else 0
  | .container fs => fixedPart fs
def fixedPart : List Ty → Nat
  | [] => 0
  | t :: ts => (if t.isFixed then t.fixedSize else 4) + fixedPart ts
end

/-- the spec's "fixed size" (0 when the type is variable-size), as ztyp's `TypeByteLength` -/
def typeByteLength (t : Ty) : Nat := if t.isFixed then t.fixedSize else 0

mutual
def minSize : Ty → Nat
  | .uint b => b
  | .bool => 1
  | .bytesN n => n
  | .bitvector n => (n + 7) / 8
  | .bitlist _ => 1
  | .list _ _ => 0
  | .vector e n => if e.isFixed then n * e.fixedSize else n * (4 + e.minSize)
  | .container fs => minFields fs
  | .union hasNone opts => 1 + (if hasNone then 0 else minOpts opts)
def minFields : List Ty → Nat
  | [] => 0
  | t :: ts => (if t.isFixed then t.fixedSize else 4 + t.minSize) + minFields ts
/-- minimum over the options' minimum sizes (0 for the empty list: only reached for ill-formed unions) -/
def minOpts : List Ty → Nat
  | [] => 0
  | [t] => t.minSize
  | t :: ts => min t.minSize (minOpts ts)
end

mutual
def maxSize : Ty → Nat
  | .uint b => b
  | .bool => 1
  | .bytesN n => n
  | .bitvector n => (n + 7) / 8
  | .bitlist lim => lim / 8 + 1
  | .list e lim => if e.isFixed then lim * e.fixedSize else lim * (4 + e.maxSize)
  | .vector e n => if e.isFixed then n * e.fixedSize else n * (4 + e.maxSize)
  | .container fs => maxFields fs
  | .union _ opts => 1 + maxOpts opts
def maxFields : List Ty → Nat
  | [] => 0
  | t :: ts => (if t.isFixed then t.fixedSize else 4 + t.maxSize) + maxFields ts
def maxOpts : List Ty → Nat
  | [] => 0
  | t :: ts => max t.maxSize (maxOpts ts)
end

mutual
/-- legal SSZ type within the supported family -/
def wf : Ty → Bool
  | .uint b => b == 1 || b == 2 || b == 4 || b == 8 || b == 32
  | .bool => true
  | .bytesN n => 1 ≤ n && n ≤ 32
  | .bitvector n => 1 ≤ n
  | .bitlist _ => true
  | .vector e n => 1 ≤ n && e.wf
  | .list e _ => e.wf
  | .container fs => !fs.isEmpty && wfAll fs
  | .union hasNone opts => !opts.isEmpty && wfAll opts && opts.length + (if hasNone then 1 else 0) ≤ 128
def wfAll : List Ty → Bool
  | [] => true
  | t :: ts => t.wf && wfAll ts
end

end Ty

/-- up to 8 bits, least significant first, as a byte -/
def byteOfBits (bs : List Bool) : UInt8 :=
  UInt8.ofNat (bs.foldr (fun b acc => 2 * acc + (if b then 1 else 0)) 0)

/-- SSZ bit packing, no delimiter -/
def packBits (bs : List Bool) : Bytes :=
  (List.range ((bs.length + 7) / 8)).map fun i => byteOfBits ((bs.drop (8 * i)).take 8)

/-- split into zero-padded 32-byte chunks -/
def chunks (bs : Bytes) : List Root :=
  (List.range ((bs.length + 31) / 32)).map fun i => chunkOf (bs.drop (32 * i))

/-- offsets-then-payload layout of a series of variable-size parts (spec `serialize` for
    lists/vectors of variable-size elements) -/
def offsetsOf (start : Nat) : List Bytes → List Bytes
  | [] => []
  | p :: ps => leBytes 4 start :: offsetsOf (start + p.length) ps

def serVarParts (parts : List Bytes) : Bytes :=
  (offsetsOf (4 * parts.length) parts).flatten ++ parts.flatten

/-- container layout: `parts` carries, per field, whether it is fixed-size and its encoding -/
def fixedPartLen : List (Bool × Bytes) → Nat
  | [] => 0
  | (fx, p) :: ps => (if fx then p.length else 4) + fixedPartLen ps

def serFixedPart (off : Nat) : List (Bool × Bytes) → Bytes
  | [] => []
  | (true, p) :: ps => p ++ serFixedPart off ps
  | (false, p) :: ps => leBytes 4 off ++ serFixedPart (off + p.length) ps

def serVarPart : List (Bool × Bytes) → Bytes
  | [] => []
  | (true, _) :: ps => serVarPart ps
  | (false, p) :: ps => p ++ serVarPart ps

def serContainerParts (parts : List (Bool × Bytes)) : Bytes :=
  serFixedPart (fixedPartLen parts) parts ++ serVarPart parts

/-- option type for selector `sel` (none: the None option or out of range) -/
def unionOpt (hasNone : Bool) (opts : List Ty) (sel : Nat) : Option Ty :=
  if hasNone then (if sel = 0 then Option.none else opts[sel - 1]?) else opts[sel]?

mutual
def hasType : Ty → Val → Bool
  | .uint b, .num n => n < 256 ^ b
  | .bool, .bool _ => true
  | .bytesN n, .bytes bs => bs.length == n
  | .bitvector n, .bits bs => bs.length == n
  | .bitlist lim, .bits bs => bs.length ≤ lim
  | .vector e n, .seq vs => vs.length == n && allHaveType e vs
  | .list e lim, .seq vs => vs.length ≤ lim && allHaveType e vs
  | .container fs, .seq vs => fieldsHaveType fs vs
  | .union hasNone opts, .union sel v =>
    match unionOpt hasNone opts sel with
    | some t => hasType t v
    | Option.none => hasNone && sel == 0 && (match v with | .none => true | _ => false)
  | _, _ => false
def allHaveType (e : Ty) : List Val → Bool
  | [] => true
  | v :: vs => hasType e v && allHaveType e vs
def fieldsHaveType : List Ty → List Val → Bool
  | [], [] => true
  | t :: ts, v :: vs => hasType t v && fieldsHaveType ts vs
  | _, _ => false
end

mutual
def serialize : Ty → Val → Bytes
  | .uint b, .num n => leBytes b n
  | .bool, .bool b => [if b then 1 else 0]
  | .bytesN _, .bytes bs => bs
  | .bitvector _, .bits bs => packBits bs
  | .bitlist _, .bits bs => packBits (bs ++ [true])
  | .vector e _, .seq vs =>
    if e.isFixed then (serList e vs).flatten else serVarParts (serList e vs)
  | .list e _, .seq vs =>
    if e.isFixed then (serList e vs).flatten else serVarParts (serList e vs)
  | .container fs, .seq vs => serContainerParts (serFields fs vs)
  | .union hasNone opts, .union sel v =>
    UInt8.ofNat sel :: (match unionOpt hasNone opts sel with
      | some t => serialize t v
      | Option.none => [])
  | _, _ => []
def serList (e : Ty) : List Val → List Bytes
  | [] => []
  | v :: vs => serialize e v :: serList e vs
def serFields : List Ty → List Val → List (Bool × Bytes)
  | t :: ts, v :: vs => (t.isFixed, serialize t v) :: serFields ts vs
  | _, _ => []
end

/-- chunk count (limit) of a series of `n` basic elements of `size` bytes -/
def basicChunkCount (size n : Nat) : Nat := (n * size + 31) / 32

mutual
def htr (h : HashFn) : Ty → Val → Root
  | .uint b, .num n => chunkOf (leBytes b n)
  | .bool, .bool b => chunkOf [if b then 1 else 0]
  | .bytesN n, .bytes bs => merk h (coverDepth ((n + 31) / 32)) (chunks bs)
  | .bitvector n, .bits bs => merk h (coverDepth ((n + 255) / 256)) (chunks (packBits bs))
  | .bitlist lim, .bits bs =>
    mixin h (merk h (coverDepth ((lim + 255) / 256)) (chunks (packBits bs))) bs.length
  | .vector e n, .seq vs =>
    if e.isBasic then
      merk h (coverDepth (basicChunkCount e.fixedSize n)) (chunks (serList e vs).flatten)
    else merk h (coverDepth n) (htrList h e vs)
  | .list e lim, .seq vs =>
    if e.isBasic then
      mixin h (merk h (coverDepth (basicChunkCount e.fixedSize lim)) (chunks (serList e vs).flatten)) vs.length
    else mixin h (merk h (coverDepth lim) (htrList h e vs)) vs.length
  | .container fs, .seq vs => merk h (coverDepth fs.length) (htrFields h fs vs)
  | .union hasNone opts, .union sel v =>
    mixin h (match unionOpt hasNone opts sel with
      | some t => htr h t v
      | Option.none => z0) sel
  | _, _ => z0
def htrList (h : HashFn) (e : Ty) : List Val → List Root
  | [] => []
  | v :: vs => htr h e v :: htrList h e vs
def htrFields (h : HashFn) : List Ty → List Val → List Root
  | t :: ts, v :: vs => htr h t v :: htrFields h ts vs
  | _, _ => []
end

mutual
/-- the spec's default value of a type -/
def defaultVal : Ty → Val
  | .uint _ => .num 0
  | .bool => .bool false
  | .bytesN n => .bytes (List.replicate n 0)
  | .bitvector n => .bits (List.replicate n false)
  | .bitlist _ => .bits []
  | .vector e n => .seq (List.replicate n (defaultVal e))
  | .list _ _ => .seq []
  | .container fs => .seq (defaultVals fs)
  | .union hasNone opts =>
    if hasNone then .union 0 .none
    else match opts with
      | t :: _ => .union 0 (defaultVal t)
      | [] => .union 0 .none
def defaultVals : List Ty → List Val
  | [] => []
  | t :: ts => defaultVal t :: defaultVals ts
end

/-- valid SSZ encodings of a type -/
def Valid (t : Ty) (bs : Bytes) : Prop := ∃ v, hasType t v = true ∧ serialize t v = bs

end ZtypV
