/-
Model P: `TypeDef.Deserialize` for every type, over the IO model of DESIGN §4.4.

`DR` is `codec.DecodingReader`: the Go fields `i`, `max` plus `avail`, the bytes that can
still arrive through the nested `io.LimitReader`s (already truncated by every enclosing
limiter).  `SubScope(count)` checks `max - i < count`; the child gets `avail.take count`;
what the child really consumes moves the parent's stream (the parent's `i` is NOT advanced:
`UpdateIndexFromScoped` is never called by the decoders).

Models the code after the `fix:` commits D1, D5–D8 (DESIGN §7).  Sizes are naturals;
the Go code narrows some of them to uint32 (`uint32(scope)`, offsets) — faithful for
scopes below 2^32, which the correspondence inputs satisfy (assumption recorded in §9).
-/
import ZtypV.Model.View
namespace ZtypV.View

structure DR where
  i : Nat
  max : Nat
  avail : Bytes
  deriving Repr

/-- `NewDecodingReader(bytes.NewReader(bs), scope)` -/
def DR.new (bs : Bytes) (scope : Nat) : DR := { i := 0, max := scope, avail := bs.take scope }

def DR.scope (dr : DR) : Nat := dr.max - dr.i

/-- `DecodingReader.Read(p)` with `len(p) = n` -/
def DR.read (dr : DR) (n : Nat) : R (Bytes × DR) :=
  if n = 0 then .ok ([], dr)
  else if dr.i + n > dr.max then .error .other
  else if dr.avail.length < n then .error .other      -- the stream ends first (EOF)
  else .ok (dr.avail.take n, { dr with i := dr.i + n, avail := dr.avail.drop n })

/-- `ReadOffset` / `ReadUint32` -/
def DR.readOffset (dr : DR) : R (Nat × DR) := do
  let (bs, dr') ← dr.read 4
  .ok (leNat bs, dr')

/-- `SubScope(count)` -/
def DR.sub (dr : DR) (count : Nat) : R DR :=
  if dr.scope < count then .error .other
  else .ok { i := 0, max := count, avail := dr.avail.take count }

/-- the parent after a child that started as `c0` and ended as `c1` consumed its bytes -/
def DR.after (dr : DR) (c0 c1 : DR) : DR :=
  { dr with avail := dr.avail.drop (c0.avail.length - c1.avail.length) }

/-- run `f` in a sub-scope of `count` bytes and move the parent's stream accordingly -/
def DR.inSub {α} (dr : DR) (count : Nat) (f : DR → R (α × DR)) : R (α × DR) := do
  let c0 ← dr.sub count
  let (a, c1) ← f c0
  .ok (a, dr.after c0 c1)

/-- decode `n` items, each in its own sub-scope of `size` bytes -/
def decodeFixedItems (f : DR → R (Node × DR)) (size : Nat) : Nat → DR → R (List Node × DR)
  | 0, dr => .ok ([], dr)
  | n + 1, dr => do
    let (x, dr') ← dr.inSub size f
    let (xs, dr'') ← decodeFixedItems f size n dr'
    .ok (x :: xs, dr'')

/-- decode items delimited by `offsets` (already validated monotone), last one ends at `scope` -/
def decodeOffsetItems (f : DR → R (Node × DR)) (scope : Nat) : List Nat → DR → R (List Node × DR)
  | [], dr => .ok ([], dr)
  | [last], dr => do
    if last > scope then .error .other   -- `scope - offsets[last]` wraps, SubScope refuses
    else do
      let (x, dr') ← dr.inSub (scope - last) f
      .ok ([x], dr')
  | o :: o' :: rest, dr => do
    let (x, dr') ← dr.inSub (o' - o) f
    let (xs, dr'') ← decodeOffsetItems f scope (o' :: rest) dr'
    .ok (x :: xs, dr'')

/-- read `n` more offsets, each at least the previous one -/
def readOffsets : Nat → Nat → DR → R (List Nat × DR)
  | 0, _, dr => .ok ([], dr)
  | n + 1, prev, dr => do
    let (o, dr') ← dr.readOffset
    if o < prev then .error .other
    else do
      let (os, dr'') ← readOffsets n o dr'
      .ok (o :: os, dr'')

/-- `bitfields`-style index of the highest set bit of a non-zero byte -/
def byteBitIndex (b : UInt8) : Nat := Nat.log2 b.toNat

mutual
/-- `TypeDef.Deserialize(dr)`: returns the backing of the decoded view and the reader afterwards -/
def decode (h : HashFn) : Ty → DR → R (Node × DR)
  | .uint b, dr => do
    let (bs, dr') ← dr.read b
    .ok (.leaf (chunkOf bs), dr')
  | .bool, dr => do
    let (bs, dr') ← dr.read 1
    match bs with
    | [x] => if x > 1 then .error .other else .ok (.leaf (chunkOf [x]), dr')
    | _ => .error .panic
  | .bytesN k, dr => do
    let (bs, dr') ← dr.read k
    .ok (.leaf (chunkOf bs), dr')
  | .bitvector k, dr => do
    let scope := dr.scope
    if (k + 7) / 8 ≠ scope then .error .other
    else do
      let (bs, dr') ← dr.read scope
      let bad := scope ≠ 0 && k % 8 ≠ 0 &&
        (match bs.getLast? with
         | some last => last.toNat % 2 ^ (k % 8) ≠ last.toNat
         | Option.none => false)
      if bad then .error .other
      else do
        let n ← orNil (fillToContents h (bitDepth k) (bytesIntoNodes bs))
        .ok (n, dr')
  | .bitlist lim, dr => do
    let scope := dr.scope
    if scope = 0 then .error .other
    else if scope > (lim + 8) / 8 then .error .other
    else do
      let (bs, dr') ← dr.read scope
      match bs.getLast? with
      | Option.none => .error .panic
      | some last =>
        if last = 0 then .error .other
        else if scope = 1 ∧ last = 1 then .ok (.pair (zeroNode h (bitDepth lim)) (zeroNode h 0), dr')
        else
          let dbi := byteBitIndex last
          let bitLen := (scope - 1) * 8 + dbi
          if bitLen > lim then .error .other
          else
            let contents :=
              if dbi = 0 then bs.dropLast
              else bs.dropLast ++ [UInt8.ofNat (last.toNat - 2 ^ dbi)]
            do
              let c ← orNil (fillToContents h (bitDepth lim) (bytesIntoNodes contents))
              .ok (.pair c (lengthNode bitLen), dr')
  | .vector e k, dr =>
    let scope := dr.scope
    if isBasicElem e then
      if k * e.fixedSize ≠ scope then .error .other
      else do
        let (bs, dr') ← dr.read scope
        let n ← orNil (fillToContents h (seriesDepth e k) (bytesIntoNodes bs))
        .ok (n, dr')
    else if e.isFixed then
      if k * e.fixedSize ≠ scope then .error .other
      else do
        let (ns, dr') ← decodeFixedItems (fun d => decode h e d) e.fixedSize k dr
        let n ← orNil (fillToContents h (coverDepth k) ns)
        .ok (n, dr')
    else do
      -- offsets[0..k) with the first one checked against the offsets part size
      if k = 0 then .error .panic
      else do
        let (first, dr1) ← dr.readOffset
        if first ≠ k * 4 then .error .other
        else do
          let (os, dr2) ← readOffsets (k - 1) first dr1
          let (ns, dr3) ← decodeOffsetItems (fun d => decode h e d) scope (first :: os) dr2
          let n ← orNil (fillToContents h (coverDepth k) ns)
          .ok (n, dr3)
  | .list e lim, dr =>
    let scope := dr.scope
    if isBasicElem e then
      let size := e.fixedSize
      let length := scope / size
      if length > lim then .error .other
      else if length * size ≠ scope then .error .other
      else if length = 0 then .ok (.pair (zeroNode h (seriesDepth e lim)) (zeroNode h 0), dr)
      else do
        let (bs, dr') ← dr.read scope
        let c ← orNil (fillToContents h (seriesDepth e lim) (bytesIntoNodes bs))
        .ok (.pair c (lengthNode length), dr')
    else if scope = 0 then .ok (.pair (zeroNode h (seriesDepth e lim)) (zeroNode h 0), dr)
    else if e.isFixed then
      let size := e.fixedSize
      if size = 0 then .error .panic     -- division by zero (illegal element types only)
      else
        let length := scope / size
        if length > lim then .error .other
        else if length * size ≠ scope then .error .other
        else do
          let (ns, dr') ← decodeFixedItems (fun d => decode h e d) size length dr
          let c ← orNil (fillToContents h (coverDepth lim) ns)
          .ok (.pair c (lengthNode length), dr')
    else do
      let (first, dr1) ← dr.readOffset
      if first % 4 ≠ 0 then .error .other
      else if first = 0 ∨ first > scope then .error .other
      else
        let length := first / 4
        if length > lim then .error .other
        else do
          let (os, dr2) ← readOffsets (length - 1) first dr1
          let (ns, dr3) ← decodeOffsetItems (fun d => decode h e d) scope (first :: os) dr2
          let c ← orNil (fillToContents h (coverDepth lim) ns)
          .ok (.pair c (lengthNode length), dr3)
  | .container fs, dr =>
    let scope := dr.scope
    if scope < Ty.minFields fs ∨ scope > Ty.maxFields fs then .error .other
    else do
      let (slots, offs, dr1) ← decodeFixedPart h fs (Ty.fixedPart fs) true scope dr
      let (dyn, dr2) ← decodeDynPart h fs scope offs dr1
      let ns := mergeFields slots dyn
      match fillToContents h (coverDepth fs.length) ns with
      | .ok n => .ok (n, dr2)
      | .error _ => .error .other
  | .union hasNone opts, dr => do
    let scope := dr.scope
    if scope = 0 then .error .other
    else do
      let (sb, dr1) ← dr.read 1
      let sel := (sb.getD 0 0).toNat
      if sel ≥ opts.length + (if hasNone then 1 else 0) then .error .other
      else if hasNone && sel == 0 then
        if scope ≠ 1 then .error .other
        else .ok (.pair (.leaf z0) (.leaf (chunkOf [UInt8.ofNat sel])), dr1)
      else do
        let (c, dr2) ← decodeOpt h opts (if hasNone then sel - 1 else sel) (scope - 1) dr1
        .ok (.pair c (.leaf (chunkOf [UInt8.ofNat sel])), dr2)
/-- container, first loop: fixed-size fields are decoded in place, offsets collected.
    Result: per field `some node` (fixed) or `none` (dynamic), the offsets, the reader. -/
def decodeFixedPart (h : HashFn) : List Ty → Nat → Bool → Nat → DR → R (List (Option Node) × List Nat × DR)
  | [], _, _, _, dr => .ok ([], [], dr)
  | t :: ts, prev, first, scope, dr =>
    if t.isFixed then do
      let (x, dr') ← dr.inSub t.fixedSize (fun d => decode h t d)
      let (slots, offs, dr'') ← decodeFixedPart h ts prev first scope dr'
      .ok (some x :: slots, offs, dr'')
    else do
      let (o, dr') ← dr.readOffset
      if o < prev then .error .other
      else if first && o ≠ prev then .error .other
      else if o > scope then .error .other
      else do
        let (slots, offs, dr'') ← decodeFixedPart h ts o false scope dr'
        .ok (Option.none :: slots, o :: offs, dr'')
/-- container, second loop: the dynamic fields in order, each in the span its offsets give -/
def decodeDynPart (h : HashFn) : List Ty → Nat → List Nat → DR → R (List Node × DR)
  | [], _, _, dr => .ok ([], dr)
  | t :: ts, scope, offs, dr =>
    if t.isFixed then decodeDynPart h ts scope offs dr
    else
      match offs with
      | [] => .error .panic
      | o :: rest => do
        let next := match rest with | [] => scope | o' :: _ => o'
        let (x, dr') ← dr.inSub (next - o) (fun d => decode h t d)
        let (xs, dr'') ← decodeDynPart h ts scope rest dr'
        .ok (x :: xs, dr'')
/-- union: option `k`, with the fixed-size check against the remaining scope -/
def decodeOpt (h : HashFn) : List Ty → Nat → Nat → DR → R (Node × DR)
  | [], _, _, _ => .error .panic
  | t :: _, 0, rem, dr =>
    if t.isFixed && t.fixedSize != rem then .error .other
    else decode h t dr
  | _ :: ts, k + 1, rem, dr => decodeOpt h ts k rem dr
/-- put the dynamic fields into their slots -/
def mergeFields : List (Option Node) → List Node → List Node
  | [], _ => []
  | some x :: slots, dyn => x :: mergeFields slots dyn
  | Option.none :: slots, d :: dyn => d :: mergeFields slots dyn
  | Option.none :: slots, [] => .leaf z0 :: mergeFields slots []
end

/-- top-level entry: hand `bs` to the deserializer with scope = `bs.length` -/
def decodeTop (h : HashFn) (t : Ty) (bs : Bytes) : R Node := do
  let (n, _) ← decode h t (DR.new bs bs.length)
  .ok n

end ZtypV.View
