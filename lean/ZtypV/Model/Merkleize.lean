/-
Model of `tree/merkle.go` (`Merkleize`) and of the typed flat hash-tree-root helpers of
`tree/hashing.go` (`HashFn` methods), plus `bitfields.BitlistLen` / `bitfields.BitIndex`.
One Lean function per Go function / closure.

Conventions
* Result type `Option _`: `none` is a Go panic (slice index out of range).  Every indexing
  site of the Go code is an explicit bounds check here: `tmp[j]`, `ZeroHashes[j]` (65 entries
  after `InitZeroHashes(h, 64)`), `fields[i]`, `values[i<<5:]`, `out[x]`, `PutUint64(out[x:], _)`.
* Machine integers.  `count`, `limit`, `i`, lengths are Go `uint64`; the model takes naturals
  and the theorems assume they are `< 2^64`.  Every Go arithmetic operation that could wrap
  is written with `add64` / `shl64` (reduction mod 2^64); `uint64(1) << j` for the `uint8`
  loop variable `j` is `shl1 j` (Go: 0 when `j ≥ 64`, unlike Lean's `UInt64 <<<`).
  `j` itself is a natural: the loop is bounded by fuel 66, so `j ≤ 66 < 256` and the `uint8`
  never wraps; running out of fuel is reported as `none` and `Proofs/Merkleize.lean`
  (`mergeLoop_run`, `mergeLoop_j_le_64`: the loop ends at some `j ≤ 64`) shows it cannot happen for `count ≤ limit < 2^64`.
* `leaf : Nat → Option Root` — the Go closure may itself index a slice; `none` = it panics.
* Element/field objects (`HTR` interface values) are represented by the root their
  `HashTreeRoot(h)` returns; a nil `HTR` is `none` in `series`/`value` arguments.
-/
import ZtypV.Basic
namespace ZtypV.Mk
open ZtypV

/-- uint64 addition -/
def add64 (a b : Nat) : Nat := (a + b) % 2 ^ 64

/-- uint64 `a << k` for a constant `k < 64` -/
def shl64 (a k : Nat) : Nat := (a * 2 ^ k) % 2 ^ 64

/-- Go `uint64(1) << j` with `j` a `uint8` -/
def shl1 (j : Nat) : Nat := if j < 64 then 2 ^ j else 0

/-- inner loop of the closure `merge(i)` in `tree.Merkleize`:
    `for j = 0; ; j++ { … }`; returns the final `(j, hArr)`.  First argument is fuel. -/
def mergeLoop (h : HashFn) (count depth : Nat) (tmp : Array Root) (i : Nat) :
    Nat → Nat → Root → Option (Nat × Root)
  | 0, _, _ => none
  | fuel+1, j, hArr =>
    if i &&& shl1 j = 0 then
      if i = count ∧ j < depth then
        -- hArr = hasher(hArr, ZeroHashes[j])
        if j < 65 then mergeLoop h count depth tmp i fuel (j+1) (h hArr (zh h j)) else none
      else some (j, hArr)
    else
      -- hArr = hasher(tmp[j], hArr)
      match tmp[j]? with
      | some t => mergeLoop h count depth tmp i fuel (j+1) (h t hArr)
      | none => none

/-- closure `merge(i)` including the final store `tmp[j] = hArr` -/
def merge (h : HashFn) (count depth : Nat) (tmp : Array Root) (i : Nat) (hArr : Root) :
    Option (Array Root) :=
  match mergeLoop h count depth tmp i 66 0 hArr with
  | some (j, r) => if j < tmp.size then some (tmp.setIfInBounds j r) else none
  | none => none

/-- one iteration of `for j := depth; j < limitDepth; j++ { tmp[j+1] = hasher(tmp[j], ZeroHashes[j]) }` -/
def extendStep (h : HashFn) (depth : Nat) (tmp : Array Root) (k : Nat) : Option (Array Root) :=
  let j := depth + k
  match tmp[j]? with
  | some t =>
    if j < 65 ∧ j + 1 < tmp.size then some (tmp.setIfInBounds (j+1) (h t (zh h j))) else none
  | none => none

/-- `if (uint64(1) << depth) != count { hArr = ZeroHashes[0]; merge(count) }` -/
def padMerge (h : HashFn) (count depth : Nat) (tmp : Array Root) : Option (Array Root) :=
  if shl1 depth ≠ count then merge h count depth tmp count (zh h 0) else some tmp

/-- `tree.Merkleize(hasher, count, limit, leaf)` -/
def merkleize (h : HashFn) (count limit : Nat) (leaf : Nat → Option Root) : Option Root :=
  let count := if count > limit then limit else count
  if limit = 0 then some z0
  else if limit = 1 then (if count = 1 then leaf 0 else some z0)
  else do
    let depth := coverDepth count
    let limitDepth := coverDepth limit
    let tmp0 : Array Root := Array.replicate (limitDepth + 1) z0
    -- for i := 0; i < count; i++ { hArr = leaf(i); merge(i) }
    let tmp1 ← (List.range count).foldlM
      (fun tmp i => do let r ← leaf i; merge h count depth tmp i r) tmp0
    let tmp2 ← padMerge h count depth tmp1
    let tmp3 ← (List.range (limitDepth - depth)).foldlM (extendStep h depth) tmp2
    tmp3[limitDepth]?

/-! ### `tree/hashing.go` -/

/-- `HashFn.HashTreeRoot(fields...)`; `rs` are the roots `fields[i].HashTreeRoot(h)` -/
def fieldsHTR (h : HashFn) (rs : List Root) : Option Root :=
  match rs with
  | [] => some z0
  | [a] => some a
  | [a, b] => some (h a b)
  | _ => merkleize h rs.length rs.length (fun i => rs[i]?)

/-- leaf closure of `ComplexVectorHTR` / `ComplexListHTR`: nil element = empty node -/
def complexLeaf (series : Nat → Option Root) (i : Nat) : Option Root :=
  some ((series i).getD z0)

/-- `HashFn.ComplexVectorHTR(series, length)` -/
def complexVectorHTR (h : HashFn) (series : Nat → Option Root) (length : Nat) : Option Root :=
  merkleize h length length (complexLeaf series)

/-- `HashFn.Mixin(v, length)`: `PutUint64` into a zeroed root -/
def mixinGo (h : HashFn) (v : Root) (length : Nat) : Root := h v (chunkOf (leBytes 8 length))

/-- `HashFn.ComplexListHTR(series, length, limit)` -/
def complexListHTR (h : HashFn) (series : Nat → Option Root) (length limit : Nat) : Option Root := do
  let r ← merkleize h length limit (complexLeaf series)
  pure (mixinGo h r length)

/-- `HashFn.ChunksHTR(chunks, length, limit)` -/
def chunksHTR (h : HashFn) (chunks : Nat → Option Root) (length limit : Nat) : Option Root :=
  merkleize h length limit chunks

/-- loop `for x, j := 0, i<<5; x < 32 && j < length; j, x = j+1, x+1 { out[x] = v(j) }` -/
def u8Fill (v : Nat → UInt8) (length : Nat) : Nat → Nat → Nat → Root → Option Root
  | 0, _, _, _ => none
  | fuel+1, x, j, out =>
    if x < 32 ∧ j < length then
      if x < out.length then u8Fill v length fuel (x+1) (add64 j 1) (out.set x (v j)) else none
    else some out

/-- chunk closure of `Uint8VectorHTR` / `Uint8ListHTR` (at most 32 iterations: `x < 32`) -/
def u8Chunk (v : Nat → UInt8) (length i : Nat) : Option Root :=
  u8Fill v length 33 0 (shl64 i 5) z0

/-- `HashFn.Uint8VectorHTR(v, length)` -/
def uint8VectorHTR (h : HashFn) (v : Nat → UInt8) (length : Nat) : Option Root :=
  let chunks := add64 length 31 >>> 5
  chunksHTR h (u8Chunk v length) chunks chunks

/-- `HashFn.Uint8ListHTR(v, length, limit)` -/
def uint8ListHTR (h : HashFn) (v : Nat → UInt8) (length limit : Nat) : Option Root := do
  let chunks := add64 length 31 >>> 5
  let r ← chunksHTR h (u8Chunk v length) chunks (add64 limit 31 >>> 5)
  pure (mixinGo h r length)

/-- `binary.LittleEndian.PutUint64(out[x:], n)`: panics when fewer than 8 bytes remain -/
def putU64 (out : Root) (x n : Nat) : Option Root :=
  if x + 8 ≤ out.length then some (out.take x ++ leBytes 8 n ++ out.drop (x + 8)) else none

/-- loop `for x, j := 0, i<<2; x < 32 && j < length; j, x = j+1, x+8 { PutUint64(out[x:], v(j)) }` -/
def u64Fill (v : Nat → Nat) (length : Nat) : Nat → Nat → Nat → Root → Option Root
  | 0, _, _, _ => none
  | fuel+1, x, j, out =>
    if x < 32 ∧ j < length then
      match putU64 out x (v j) with
      | some out' => u64Fill v length fuel (x+8) (add64 j 1) out'
      | none => none
    else some out

/-- chunk closure of `Uint64VectorHTR` / `Uint64ListHTR` (at most 4 iterations) -/
def u64Chunk (v : Nat → Nat) (length i : Nat) : Option Root :=
  u64Fill v length 5 0 (shl64 i 2) z0

/-- `HashFn.Uint64VectorHTR(v, length)`; `v j` is a uint64 value (taken mod 2^64 by `leBytes 8`) -/
def uint64VectorHTR (h : HashFn) (v : Nat → Nat) (length : Nat) : Option Root :=
  let chunks := add64 length 3 >>> 2
  chunksHTR h (u64Chunk v length) chunks chunks

/-- `HashFn.Uint64ListHTR(v, length, limit)` -/
def uint64ListHTR (h : HashFn) (v : Nat → Nat) (length limit : Nat) : Option Root := do
  let chunks := add64 length 3 >>> 2
  let r ← chunksHTR h (u64Chunk v length) chunks (add64 limit 3 >>> 2)
  pure (mixinGo h r length)

/-- Go slice expression `values[k:]` -/
def sliceFrom (values : Bytes) (k : Nat) : Option Bytes :=
  if k ≤ values.length then some (values.drop k) else none

/-- chunk closure `copy(out[:], values[i<<5:])` of `ByteVectorHTR` / `ByteListHTR` -/
def byteChunk (values : Bytes) (i : Nat) : Option Root := do
  let s ← sliceFrom values (shl64 i 5)
  pure (chunkOf s)

/-- `HashFn.ByteVectorHTR(values)` -/
def byteVectorHTR (h : HashFn) (values : Bytes) : Option Root :=
  let chunks := add64 values.length 31 / 32
  chunksHTR h (byteChunk values) chunks chunks

/-- `HashFn.ByteListHTR(values, limit)` -/
def byteListHTR (h : HashFn) (values : Bytes) (limit : Nat) : Option Root := do
  let chunks := add64 values.length 31 / 32
  let chunkLimit := add64 limit 31 / 32
  let r ← chunksHTR h (byteChunk values) chunks chunkLimit
  pure (mixinGo h r values.length)

/-- chunk closure of `BitVectorHTR` -/
def bitVecChunk (bits : Bytes) (chunks i : Nat) : Option Root :=
  if i < chunks then byteChunk bits i else some z0

/-- `HashFn.BitVectorHTR(bits)` -/
def bitVectorHTR (h : HashFn) (bits : Bytes) : Option Root :=
  let chunks := add64 bits.length 31 / 32
  chunksHTR h (bitVecChunk bits chunks) chunks chunks

/-- `bitfields.BitIndex(v byte)`: index of the left-most 1 bit -/
def bitIndex (v : UInt8) : Nat :=
  let out := 0
  let (out, v) := if v &&& 0xf0 ≠ 0 then (out ||| 4, v >>> 4) else (out, v)
  let (out, v) := if v &&& 0x0c ≠ 0 then (out ||| 2, v >>> 2) else (out, v)
  let (out, _) := if v &&& 0x02 ≠ 0 then (out ||| 1, v >>> 1) else (out, v)
  out

/-- `bitfields.BitlistLen(b)` -/
def bitlistLen (b : Bytes) : Nat :=
  let byteLen := b.length
  if byteLen = 0 then 0
  else
    let last := b.getD (byteLen - 1) 0      -- index byteLen-1 < byteLen: in range
    shl64 (byteLen - 1) 3 ||| bitIndex last

/-- `out[k] &^= 1 << n` on a 32-byte root (`k = (bitLen&0xff)>>3 ≤ 31`) -/
def clearBit (out : Root) (k n : Nat) : Option Root :=
  if k < out.length then
    some (out.set k (out.getD k 0 &&& ~~~ ((1 : UInt8) <<< UInt8.ofNat n)))
  else none

/-- chunk closure of `BitListHTR` -/
def bitListChunk (bits : Bytes) (bitLen chunks i : Nat) : Option Root :=
  if i < chunks then do
    let out ← byteChunk bits i
    if shl64 (add64 i 1) 8 > bitLen then
      clearBit out ((bitLen &&& 0xff) >>> 3) (bitLen &&& 0x7)
    else pure out
  else some z0

/-- `HashFn.BitListHTR(bits, bitlimit)` -/
def bitListHTR (h : HashFn) (bits : Bytes) (bitlimit : Nat) : Option Root := do
  let bitLen := bitlistLen bits
  let chunks := add64 bitLen 0xff >>> 8
  let chunkLimit := add64 bitlimit 0xff >>> 8
  let r ← chunksHTR h (bitListChunk bits bitLen chunks) chunks chunkLimit
  pure (mixinGo h r bitLen)

/-- `HashFn.Union(selector, value)`; `value = none` is a nil `HTR` -/
def unionHTR (h : HashFn) (selector : UInt8) (value : Option Root) : Root :=
  let selectorNode : Root := z0.set 0 selector
  match value with
  | none => h z0 selectorNode
  | some r => h r selectorNode

end ZtypV.Mk
