/-
Model P, package `view` (read side and construction): for every type definition the
default backing, the constructor route (`FromElements/FromFields/FromBits/FromView`,
`Backing()` of basic views), the typed getters composed into `viewVal`, `Serialize`,
`ValueByteLength`.  One Lean function per Go function, same case splits and order of checks;
models the code after the `fix:` commits (DESIGN §7).  A nil backing node (an ignored error of
`SubtreeFill…`) is modelled as `.error .panic` at the point it would first be used.

Known modelled defect (known finding D3): `BoolMeta` is not a `BasicTypeDef`, so
`VectorType/ListType` of boolean build *complex* series (`isBasicElem`).
-/
import ZtypV.Spec
import ZtypV.Model.Tree
namespace ZtypV.View

/-- `elemType.(BasicTypeDef)` succeeds only for `UintMeta` -/
def isBasicElem : Ty → Bool
  | .uint _ => true
  | _ => false

/-- `ElementsPerBottomNode` -/
def perNode (size : Nat) : Nat := 32 / size

/-- `BottomNodeLength/Limit` of a basic series -/
def bottomNodes (size n : Nat) : Nat := (n + perNode size - 1) / perNode size

/-- contents depth of a series of `n` elements of type `e` -/
def seriesDepth (e : Ty) (n : Nat) : Nat :=
  if isBasicElem e then coverDepth (bottomNodes e.fixedSize n) else coverDepth n

def bitDepth (n : Nat) : Nat := coverDepth ((n + 255) / 256)

/-- `Uint64View(n).Backing()`: length mix-in node -/
def lengthNode (n : Nat) : Node := .leaf (chunkOf (leBytes 8 n))

/-- `BytesIntoNodes` -/
def bytesIntoNodes (bs : Bytes) : List Node := (chunks bs).map Node.leaf

/-- `bitsToBytes` -/
def bitsToBytes (bits : List Bool) : Bytes := packBits bits

/-- lift an ignored `SubtreeFill…` error to the panic the nil backing causes later -/
def orNil (r : R Node) : R Node :=
  match r with
  | .ok n => .ok n
  | .error _ => .error .panic

mutual
/-- `TypeDef.DefaultNode()` -/
def defaultNode (h : HashFn) : Ty → R Node
  | .uint _ | .bool | .bytesN _ => .ok (zeroNode h 0)
  | .bitvector n => .ok (fillToDepth (zeroNode h 0) (bitDepth n))
  | .bitlist lim => .ok (.pair (zeroNode h (bitDepth lim)) (zeroNode h 0))
  | .vector e n =>
    if isBasicElem e then .ok (fillToDepth (zeroNode h 0) (seriesDepth e n))
    else do
      let d ← defaultNode h e
      orNil (fillToLength h d (coverDepth n) n)
  | .list e lim => .ok (.pair (zeroNode h (seriesDepth e lim)) (zeroNode h 0))
  | .container fs => do
    let ns ← defaultNodes h fs
    orNil (fillToContents h (coverDepth fs.length) ns)
  | .union hasNone opts =>
    if hasNone then .ok (.pair (.leaf z0) (.leaf z0))
    else match opts with
      | t :: _ => do let d ← defaultNode h t; .ok (.pair d (.leaf z0))
      | [] => .error .panic
def defaultNodes (h : HashFn) : List Ty → R (List Node)
  | [] => .ok []
  | t :: ts => do
    let n ← defaultNode h t
    let ns ← defaultNodes h ts
    .ok (n :: ns)
end

mutual
/-- the constructor route: build the backing of value `v : t` through the element / field /
    bit constructors (`FromElements`, `FromFields`, `FromBits`, `FromView`, `Backing()`) -/
def construct (h : HashFn) : Ty → Val → R Node
  | .uint b, .num n => .ok (.leaf (chunkOf (leBytes b n)))
  | .bool, .bool b => .ok (.leaf (chunkOf [if b then 1 else 0]))
  | .bytesN _, .bytes bs => .ok (.leaf (chunkOf bs))
  | .bitvector n, .bits bs =>
    if bs.length ≠ n then .error .other
    else orNil (fillToContents h (bitDepth n) (bytesIntoNodes (bitsToBytes bs)))
  | .bitlist lim, .bits bs =>
    if bs.length > lim then .error .other
    else do
      let c ← orNil (fillToContents h (bitDepth lim) (bytesIntoNodes (bitsToBytes bs)))
      .ok (.pair c (lengthNode bs.length))
  | .vector e n, .seq vs =>
    if isBasicElem e then
      if vs.length > n then .error .other
      else orNil (fillToContents h (seriesDepth e n) (bytesIntoNodes (serList e vs).flatten))
    else
      if vs.length ≠ n then .error .other
      else do
        let ns ← constructList h e vs
        orNil (fillToContents h (coverDepth n) ns)
  | .list e lim, .seq vs =>
    if vs.length > lim then .error .other
    else if isBasicElem e then do
      let c ← orNil (fillToContents h (seriesDepth e lim) (bytesIntoNodes (serList e vs).flatten))
      .ok (.pair c (lengthNode vs.length))
    else do
      let ns ← constructList h e vs
      let c ← orNil (fillToContents h (coverDepth lim) ns)
      .ok (.pair c (lengthNode vs.length))
  | .container fs, .seq vs =>
    if fs.length ≠ vs.length then .error .other
    else do
      let ns ← constructFields h fs vs
      match fillToContents h (coverDepth fs.length) ns with
      | .ok n => .ok n
      | .error _ => .error .other
  | .union hasNone opts, .union sel v =>
    match v with
    | .none => .ok (.pair (.leaf z0) (.leaf (chunkOf [UInt8.ofNat sel])))
    | _ =>
      match unionOpt hasNone opts sel with
      | some t => do
        let c ← construct h t v
        .ok (.pair c (.leaf (chunkOf [UInt8.ofNat sel])))
      | Option.none => .error .other
  | _, _ => .error .other
def constructList (h : HashFn) (e : Ty) : List Val → R (List Node)
  | [] => .ok []
  | v :: vs => do
    let n ← construct h e v
    let ns ← constructList h e vs
    .ok (n :: ns)
def constructFields (h : HashFn) : List Ty → List Val → R (List Node)
  | t :: ts, v :: vs => do
    let n ← construct h t v
    let ns ← constructFields h ts vs
    .ok (n :: ns)
  | _, _ => .ok []
end

/-! ### getters -/

/-- a node that must be a `*Root` -/
def asLeaf : Node → R Root
  | .leaf r => .ok r
  | .pair _ _ => .error .other

/-- `SubtreeView.GetNode(i)` at view depth `d` -/
def subtreeGet (n : Node) (d i : Nat) : R Node := do
  let p ← toPath i d
  getNode n p

/-- `Length()` of list / bitlist views -/
def listLength (n : Node) (lim : Nat) : R Nat := do
  let ln ← getNode n [true]
  let r ← asLeaf ln
  let ll := leNat (r.take 8)
  if ll > lim then .error .other else .ok ll

/-- `BasicViewFromBacking(root, i)` for uint types: the `i`-th packed element -/
def basicFromChunk (size : Nat) (r : Root) (i : Nat) : R Val :=
  if i ≥ 32 / size then .error .other
  else .ok (.num (leNat ((r.drop (size * i)).take size)))

/-- bit `i` (mod 256) of a chunk: `BoolViewFromBitfieldBacking` -/
def bitFromChunk (r : Root) (i : Nat) : Bool :=
  let j := i % 256
  ((r.getD (j / 8) 0).toNat / 2 ^ (j % 8)) % 2 == 1

/-- read all `len` bits of a bitfield contents subtree of depth `d` through `Get(i)` -/
def readBits (contents : Node) (d len : Nat) : R (List Bool) :=
  (List.range len).mapM fun i => do
    let c ← subtreeGet contents d (i / 256)
    let r ← asLeaf c
    .ok (bitFromChunk r i)

/-- read all elements of a basic series through `Get(i)` -/
def readBasics (size : Nat) (contents : Node) (d len : Nat) : R (List Val) :=
  (List.range len).mapM fun i => do
    let c ← subtreeGet contents d (i / perNode size)
    let r ← asLeaf c
    basicFromChunk size r (i % perNode size)

mutual
/-- the value of a view read through the typed getters only (`Get`, `Length`, `Selector`,
    `Value`, `ViewFromBacking` of basic types) -/
def viewVal : Ty → Node → R Val
  | .uint b, n => do
    let r ← asLeaf n
    .ok (.num (leNat (r.take b)))
  | .bool, n => do
    let r ← asLeaf n
    .ok (.bool (r.getD 0 0 != 0))
  | .bytesN k, n => do
    let r ← asLeaf n
    .ok (.bytes (r.take k))
  | .bitvector k, n => do
    let bs ← readBits n (bitDepth k) k
    .ok (.bits bs)
  | .bitlist lim, n => do
    let ll ← listLength n lim
    -- Get(i) navigates from the view root at depth+1; the contents are its left child
    let bs ← (List.range ll).mapM fun i => do
      let c ← subtreeGet n (bitDepth lim + 1) (i / 256)
      let r ← asLeaf c
      .ok (bitFromChunk r i)
    .ok (.bits bs)
  | .vector e k, n =>
    if isBasicElem e then do
      let vs ← readBasics e.fixedSize n (seriesDepth e k) k
      .ok (.seq vs)
    else do
      let vs ← (List.range k).mapM fun i => do
        let c ← subtreeGet n (coverDepth k) i
        viewVal e c
      .ok (.seq vs)
  | .list e lim, n => do
    let ll ← listLength n lim
    if isBasicElem e then do
      let vs ← (List.range ll).mapM fun i => do
        let c ← subtreeGet n (seriesDepth e lim + 1) (i / perNode e.fixedSize)
        let r ← asLeaf c
        basicFromChunk e.fixedSize r (i % perNode e.fixedSize)
      .ok (.seq vs)
    else do
      let vs ← (List.range ll).mapM fun i => do
        let c ← subtreeGet n (coverDepth lim + 1) i
        viewVal e c
      .ok (.seq vs)
  | .container fs, n => do
    let vs ← viewFields fs n (coverDepth fs.length) 0
    .ok (.seq vs)
  | .union hasNone opts, n => do
    -- Selector()
    let sn ← getNode n [true]
    let r ← asLeaf sn
    if (r.drop 1).any (· != 0) then .error .other
    else
      let sel := (r.getD 0 0).toNat
      if sel ≥ opts.length + (if hasNone then 1 else 0) then .error .other
      else do
        let c ← getNode n [false]
        if hasNone && sel == 0 then .ok (.union 0 .none)
        else do
          let v ← viewOpt opts (if hasNone then sel - 1 else sel) c
          .ok (.union sel v)
def viewFields : List Ty → Node → Nat → Nat → R (List Val)
  | [], _, _, _ => .ok []
  | t :: ts, n, d, i => do
    let c ← subtreeGet n d i
    let v ← viewVal t c
    let vs ← viewFields ts n d (i + 1)
    .ok (v :: vs)
def viewOpt : List Ty → Nat → Node → R Val
  | [], _, _ => .error .panic
  | t :: _, 0, c => viewVal t c
  | _ :: ts, k + 1, c => viewOpt ts k c
end

/-! ### serialization -/

/-- `SubtreeIntoBytes(anchor, depth, length, dest)`: the first `count` bottom chunks,
    concatenated and cut to `byteLen` bytes -/
def subtreeIntoBytes (anchor : Node) (d count byteLen : Nat) : R Bytes := do
  let cs ← (List.range count).mapM fun i => do
    let c ← subtreeGet anchor d i
    asLeaf c
  .ok (cs.flatten.take byteLen)

/-- `EncodingWriter.WriteOffset`: panics when an operand or the result does not fit uint32 -/
def writeOffset (prev size : Nat) : R Nat :=
  if prev ≥ 2 ^ 32 ∨ size ≥ 2 ^ 32 ∨ prev + size ≥ 2 ^ 32 then .error .panic else .ok (prev + size)

/-- `serializeComplexVarElemSeries`: offsets then payloads -/
def serVarSeries (parts : List Bytes) : R Bytes := do
  let rec offs (prev size : Nat) : List Bytes → R Bytes
    | [] => .ok []
    | p :: ps => do
      let o ← writeOffset prev size
      let rest ← offs o p.length ps
      .ok (leBytes 4 o ++ rest)
  let os ← offs (parts.length * 4) 0 parts
  .ok (os ++ parts.flatten)

/-- container fixed part: fixed fields inline, offsets for the others -/
def serContainer (fixedPartSize : Nat) (parts : List (Bool × Bytes)) : R Bytes := do
  let rec go (prev size : Nat) : List (Bool × Bytes) → R Bytes
    | [] => .ok []
    | (true, p) :: ps => do
      let rest ← go prev size ps
      .ok (p ++ rest)
    | (false, p) :: ps => do
      let o ← writeOffset prev size
      let rest ← go o p.length ps
      .ok (leBytes 4 o ++ rest)
  let fixedPart ← go fixedPartSize 0 parts
  .ok (fixedPart ++ ((parts.filter (fun x => !x.1)).map (·.2)).flatten)

mutual
/-- `View.Serialize` -/
def serializeView : Ty → Node → R Bytes
  | .uint b, n => do
    let r ← asLeaf n
    .ok (r.take b)
  | .bool, n => do
    let r ← asLeaf n
    .ok [if r.getD 0 0 != 0 then 1 else 0]
  | .bytesN k, n => do
    let r ← asLeaf n
    .ok (r.take k)
  | .bitvector k, n =>
    subtreeIntoBytes n (bitDepth k) ((k + 255) / 256) ((k + 7) / 8)
  | .bitlist lim, n => do
    let c ← getNode n [false]
    let ll ← listLength n lim
    let byteLen := (ll + 8) / 8
    let bs ← subtreeIntoBytes c (bitDepth lim) ((ll + 255) / 256) byteLen
    -- contents := make(byteLen); copy chunks; contents[byteLen-1] |= 1 << (ll & 7)
    let padded := bs ++ List.replicate (byteLen - bs.length) 0
    match padded.getLast? with
    | some last => .ok (padded.dropLast ++ [last ||| (UInt8.ofNat (2 ^ (ll % 8)))])
    | Option.none => .error .panic
  | .vector e k, n =>
    if isBasicElem e then
      subtreeIntoBytes n (seriesDepth e k) (bottomNodes e.fixedSize k) (k * e.fixedSize)
    else do
      let parts ← (List.range k).mapM fun i => do
        let c ← subtreeGet n (coverDepth k) i
        serializeView e c
      if e.isFixed then .ok parts.flatten else serVarSeries parts
  | .list e lim, n =>
    if isBasicElem e then do
      let c ← getNode n [false]
      let ll ← listLength n lim
      let size := e.fixedSize
      subtreeIntoBytes c (seriesDepth e lim) ((ll + perNode size - 1) / perNode size) (ll * size)
    else do
      let ll ← listLength n lim
      let c ← getNode n [false]
      let parts ← (List.range ll).mapM fun i => do
        let x ← subtreeGet c (coverDepth lim) i
        serializeView e x
      if e.isFixed then .ok parts.flatten else serVarSeries parts
  | .container fs, n => do
    let parts ← serFieldsView fs n (coverDepth fs.length) 0
    serContainer (Ty.fixedPart fs) parts
  | .union hasNone opts, n => do
    let sn ← getNode n [true]
    let r ← asLeaf sn
    if (r.drop 1).any (· != 0) then .error .other
    else
      let sel := (r.getD 0 0).toNat
      if sel ≥ opts.length + (if hasNone then 1 else 0) then .error .other
      else do
        let c ← getNode n [false]
        if hasNone && sel == 0 then .ok [UInt8.ofNat sel]
        else do
          let bs ← serOptView opts (if hasNone then sel - 1 else sel) c
          .ok (UInt8.ofNat sel :: bs)
def serFieldsView : List Ty → Node → Nat → Nat → R (List (Bool × Bytes))
  | [], _, _, _ => .ok []
  | t :: ts, n, d, i => do
    let c ← subtreeGet n d i
    let bs ← serializeView t c
    let rest ← serFieldsView ts n d (i + 1)
    .ok ((t.isFixed, bs) :: rest)
def serOptView : List Ty → Nat → Node → R Bytes
  | [], _, _ => .error .panic
  | t :: _, 0, c => serializeView t c
  | _ :: ts, k + 1, c => serOptView ts k c
end

mutual
/-- `View.ValueByteLength` -/
def valueByteLength : Ty → Node → R Nat
  | .uint b, _ => .ok b
  | .bool, _ => .ok 1
  | .bytesN k, _ => .ok k
  | .bitvector k, _ => .ok ((k + 7) / 8)
  | .bitlist lim, n => do
    let ll ← listLength n lim
    .ok ((ll + 8) / 8)
  | .vector e k, n =>
    if e.isFixed then .ok (k * e.fixedSize)
    else do
      let sizes ← (List.range k).mapM fun i => do
        let c ← subtreeGet n (coverDepth k) i
        valueByteLength e c
      .ok (k * 4 + sizes.sum)
  | .list e lim, n => do
    let ll ← listLength n lim
    if e.isFixed then .ok (ll * e.fixedSize)
    else do
      let c ← getNode n [false]
      let sizes ← (List.range ll).mapM fun i => do
        let x ← subtreeGet c (coverDepth lim) i
        valueByteLength e x
      .ok (ll * 4 + sizes.sum)
  | .container fs, n =>
    if Ty.allFixed fs then .ok (Ty.fixedPart fs)
    else lenFieldsView fs n (coverDepth fs.length) 0
  | .union hasNone opts, n => do
    let sn ← getNode n [true]
    let r ← asLeaf sn
    if (r.drop 1).any (· != 0) then .error .other
    else
      let sel := (r.getD 0 0).toNat
      if sel ≥ opts.length + (if hasNone then 1 else 0) then .error .other
      else do
        let c ← getNode n [false]
        if hasNone && sel == 0 then .ok 1
        else do
          let k ← lenOptView opts (if hasNone then sel - 1 else sel) c
          .ok (k + 1)
def lenFieldsView : List Ty → Node → Nat → Nat → R Nat
  | [], _, _, _ => .ok 0
  | t :: ts, n, d, i => do
    let here ← if t.isFixed then (pure t.fixedSize : R Nat) else (do
      let c ← subtreeGet n d i
      let k ← valueByteLength t c
      pure (k + 4))
    let rest ← lenFieldsView ts n d (i + 1)
    .ok (here + rest)
def lenOptView : List Ty → Nat → Node → R Nat
  | [], _, _ => .error .panic
  | t :: _, 0, c => valueByteLength t c
  | _ :: ts, k + 1, c => lenOptView ts k c
end

end ZtypV.View
