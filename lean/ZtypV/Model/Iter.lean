/-
Model P: the iterators of package `view` as explicit state machines —
`nodeReadonlyIter`, `basicElemReadonlyIter`, `bitReadonlyIter` (stack of left-hand
ancestors, backtracking height from `i xor (i-1)`), `elemReadonlyIter`, `fieldReadonlyIter`
on top of the node iterator, and the index-based `Iter()`s.
`runIter` drives an iterator to its end plus the extra calls the harness makes and renders
the observation exactly like harness/ops_hist.go `hIter`.
-/
import ZtypV.Model.Machine
namespace ZtypV.View.Iter
open ZtypV ZtypV.View

/-- bit length of a natural -/
def bitLen (n : Nat) : Nat := if n = 0 then 0 else Nat.log2 n + 1

/-- the shared navigation step of the three stack iterators: move to bottom node number `idx`
    (0-based) given the stack of ancestors left by the previous step.
    `stackIndex` is a uint8 in Go: the subtraction wraps. -/
def navStep (anchor : Node) (depth : Nat) (stack : Array Node) (idx : Nat) : R (Node × Array Node) := do
  let (start, si) ←
    if idx ≠ 0 then do
      let s := idx ^^^ (idx - 1)
      let si := (depth + 256 - bitLen s % 256) % 256
      match stack[si]? with
      | none => (.error .panic : R (Node × Nat))
      | some up =>
        match up with
        | .pair _ r => pure (r, (si + 1) % 256)
        | .leaf _ => .error .nav
    else pure (anchor, 0)
  -- move down left, remembering the left-hand nodes
  let rec down (fuel : Nat) (node : Node) (si : Nat) (stack : Array Node) : R (Node × Array Node) :=
    match fuel with
    | 0 => .ok (node, stack)
    | fuel + 1 =>
      if si < depth then
        if si ≥ stack.size then .error .panic
        else
          match node with
          | .pair l _ => down fuel l (si + 1) (stack.set! si node)
          | .leaf _ => .error .nav
      else .ok (node, stack)
  down 256 start si stack

/-- `nodeReadonlyIter` state -/
structure NodeIt where
  anchor : Node
  length : Nat
  depth : Nat
  stack : Array Node
  i : Nat
  bad : Bool        -- the construction-time limit check failed: every Next errs

def NodeIt.new (anchor : Node) (length depth : Nat) : NodeIt :=
  { anchor, length, depth, stack := Array.replicate depth (.leaf z0), i := 0,
    bad := decide ((if depth ≥ 64 then 0 else 2 ^ depth) < length) }

inductive Step (α : Type) where
  | item (a : α)
  | done
  | err (e : Err)

/-- `Next()` of the node iterator -/
def NodeIt.next (it : NodeIt) : Step Node × NodeIt :=
  if it.bad then (.err .other, it)
  else if it.i ≥ it.length then (.done, it)
  else
    match navStep it.anchor it.depth it.stack it.i with
    | .error e => (.err e, it)
    | .ok (n, st) => (.item n, { it with stack := st, i := it.i + 1 })

/-- `basicElemReadonlyIter` state -/
structure BasicIt where
  anchor : Node
  length : Nat
  depth : Nat
  size : Nat
  stack : Array Node
  i : Nat
  j : Nat
  cur : Root
  rootIndex : Nat
  bad : Bool

def BasicIt.new (anchor : Node) (length depth size : Nat) : BasicIt :=
  let per := 32 / size
  { anchor, length, depth, size, stack := Array.replicate depth (.leaf z0), i := 0, j := per,
    cur := z0, rootIndex := 0,
    bad := decide ((if depth ≥ 64 then 0 else 2 ^ depth) * per < length) }

def BasicIt.next (it : BasicIt) : Step Val × BasicIt :=
  let per := 32 / it.size
  if it.bad then (.err .other, it)
  else if it.i ≥ it.length then (.done, it)
  else if it.j < per then
    match basicFromChunk it.size it.cur it.j with
    | .error e => (.err e, it)
    | .ok v => (.item v, { it with j := it.j + 1, i := it.i + 1 })
  else
    match navStep it.anchor it.depth it.stack it.rootIndex with
    | .error e => (.err e, it)
    | .ok (n, st) =>
      match n with
      | .pair _ _ => (.err .other, { it with stack := st })
      | .leaf r =>
        match basicFromChunk it.size r 0 with
        | .error e => (.err e, { it with stack := st, cur := r })
        | .ok v => (.item v, { it with stack := st, cur := r, j := 1, rootIndex := it.rootIndex + 1, i := it.i + 1 })

/-- `bitReadonlyIter` state (`j` is a uint8: wraps to 0 after 255) -/
structure BitIt where
  anchor : Node
  length : Nat
  depth : Nat
  stack : Array Node
  i : Nat
  j : Nat
  cur : Root
  rootIndex : Nat
  bad : Bool

def BitIt.new (anchor : Node) (length depth : Nat) : BitIt :=
  { anchor, length, depth, stack := Array.replicate depth (.leaf z0), i := 0, j := 0, cur := z0,
    rootIndex := 0,
    bad := decide (((if depth ≥ 64 then 0 else 2 ^ depth) * 256) % 2 ^ 64 < length) }

def BitIt.next (it : BitIt) : Step Bool × BitIt :=
  if it.bad then (.err .other, it)
  else if it.i ≥ it.length then (.done, it)
  else if it.j > 0 then
    (.item (bitFromChunk it.cur it.j), { it with j := (it.j + 1) % 256, i := it.i + 1 })
  else
    match navStep it.anchor it.depth it.stack it.rootIndex with
    | .error e => (.err e, it)
    | .ok (n, st) =>
      match n with
      | .pair _ _ => (.err .other, { it with stack := st })
      | .leaf r =>
        (.item (bitFromChunk r 0), { it with stack := st, cur := r, j := 1, rootIndex := it.rootIndex + 1, i := it.i + 1 })

/-! ### driving an iterator the way a client does -/

/-- what a client sees from one `Next()` -/
inductive Out where
  | node (t : Ty) (n : Node)     -- an element view of type `t` over backing `n`
  | val (t : Ty) (v : Val)       -- a basic element value
  | bit (b : Bool)
  | done
  | err

/-- a started iterator of any kind -/
inductive AnyIt where
  | nodes (it : NodeIt) (elemTy : Nat → Option Ty)    -- element type by position (containers: per field)
  | basics (it : BasicIt) (t : Ty)
  | bits (it : BitIt)
  | indexed (t : Ty) (n : Node) (length : Nat) (i : Nat)   -- the index-based `Iter()`
  | failed                                                -- `ErrElemIter` / `ErrBitIter`

/-- `ViewFromBacking` / `SetBacking` of the re-used element view succeeds -/
def elemViewOk (t : Ty) (n : Node) : Bool := viewFromBackingOk t n

def AnyIt.next : AnyIt → Out × AnyIt
  | .failed => (.err, .failed)
  | .nodes it ety =>
    match it.next with
    | (.err _, it') => (.err, .nodes it' ety)
    | (.done, it') => (.done, .nodes it' ety)
    | (.item n, it') =>
      match ety it.i with
      | none => (.err, .nodes it' ety)
      | some t => if elemViewOk t n then (.node t n, .nodes it' ety) else (.err, .nodes it' ety)
  | .basics it t =>
    match it.next with
    | (.err _, it') => (.err, .basics it' t)
    | (.done, it') => (.done, .basics it' t)
    | (.item v, it') => (.val t v, .basics it' t)
  | .bits it =>
    match it.next with
    | (.err _, it') => (.err, .bits it')
    | (.done, it') => (.done, .bits it')
    | (.item b, it') => (.bit b, .bits it')
  | .indexed t n length i =>
    if i < length then
      match getElemNode t n i with
      | .error _ => (.err, .indexed t n length (i + 1))
      | .ok (et, en) =>
        if !elemViewOk et en then (.err, .indexed t n length (i + 1))
        else match t with
          | .bitvector _ | .bitlist _ =>
            (match en with
             | .leaf r => (.bit (r.getD 0 0 != 0), .indexed t n length (i + 1))
             | _ => (.err, .indexed t n length (i + 1)))
          | _ => (.node et en, .indexed t n length (i + 1))
    else (.done, .indexed t n length i)

/-- `ReadonlyIter()` (ro = true) or `Iter()` (ro = false) of a view of type `t` over `n` -/
def start (t : Ty) (n : Node) (ro : Bool) : AnyIt :=
  let left (k : Node → AnyIt) : AnyIt :=
    match n with
    | .pair l _ => k l
    | .leaf _ => .failed
  match t with
  | .bitvector k => if ro then .bits (BitIt.new n k (bitDepth k)) else .indexed t n k 0
  | .bitlist lim =>
    match listLength n lim with
    | .error _ => .failed
    | .ok ll => if ro then left fun l => .bits (BitIt.new l ll (bitDepth lim)) else .indexed t n ll 0
  | .vector e k =>
    if !ro then .indexed t n k 0
    else if isBasicElem e then .basics (BasicIt.new n k (seriesDepth e k) e.fixedSize) e
    else .nodes (NodeIt.new n k (coverDepth k)) (fun _ => some e)
  | .list e lim =>
    match listLength n lim with
    | .error _ => .failed
    | .ok ll =>
      if !ro then .indexed t n ll 0
      else if isBasicElem e then left fun l => .basics (BasicIt.new l ll (seriesDepth e lim) e.fixedSize) e
      else left fun l => .nodes (NodeIt.new l ll (coverDepth lim)) (fun _ => some e)
  | .container fs =>
    if ro then .nodes (NodeIt.new n fs.length (coverDepth fs.length)) (fun i => fs[i]?)
    else .indexed t n fs.length 0
  | _ => .failed

/-- run to the end plus the extra calls: stops after the first error or the third `done` -/
def collect : Nat → Nat → AnyIt → List Out
  | 0, _, _ => []
  | fuel + 1, dones, it =>
    match it.next with
    | (.err, _) => [.err]
    | (.done, it') => if dones + 1 ≥ 3 then [.done] else .done :: collect fuel (dones + 1) it'
    | (o, it') => o :: collect fuel dones it'

end ZtypV.View.Iter
