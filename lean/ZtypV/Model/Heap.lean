/-
Model H: a small heap machine for package `tree`.

In the pure model (`ZtypV.Node`) persistence, cache validity, hashing cost and
race-freedom are trivial consequences of purity.  Here they have content: nodes are
cells of a mutable heap, `PairNode.MerkleRoot` tests, fills and returns the memo field
`Value` in place, and a client is an arbitrary program over the primitives that package
`tree` offers to the view layer.

Go                                        model
----------------------------------------  -----------------------------------------------
`*Root` leaf                              `Cell.leaf r`
`*PairNode{Value, LeftChild, RightChild}` `Cell.pair memo l r`   (memo = z0  ⇔  `Value == Root{}`)
pointer                                   address (index into the heap array)
`&Root{…}`                                `Prog.allocLeaf`
`NewPairNode(a,b)` / `&PairNode{…}`       `Prog.allocPair`      (memo unset)
`Left/Right/IsLeaf`, type switch, `*r`    `Prog.read`
`n.MerkleRoot(h)`                         `Prog.root`           (`rootH`: memo test, recursion, memo write)
`*r = …` on an existing leaf              `Prog.pokeLeaf`       (NOT used by the view layer: fact inventory)

`RebindLeft/Right`, `Getter`, `Setter/DeeperSetter` (with expansion), `SubtreeFill*`,
`ZeroNode`, `SummaryInto` are *programs* over these primitives (they only read cells, hash, and
allocate new cells); `setPath` / `setPathX` below are the rebinding spines that
`Setter/DeeperSetter` build (without / with expansion of zero summaries).

The memo field is invisible to `read`: in the Go sources `PairNode.Value` is read and written
only inside `PairNode.MerkleRoot` (fact inventory).

Contents: cells, heaps, traces; `absNode` (erasure to the pure model); `rootH`; `Prog`, `NoPoke`,
`Safe`; `step1` (one primitive) and `run` (big step); predicates (`WF`, `SameStruct`, `Ext`,
`MemoValid`, `NoZeroOut`, `TopMemo`, `FullyMemo`, `MemoClosed`, `AllMemo`, `Reach`, `UReach`);
`setPath`, `setPathX`, `Spine`, `Spn`; `reloc`; `RootEdit`; threads (`Sys`, `Sys.step`, `Sys.exec`,
`soloN`, `Loc`); executable checkers and the example objects of the non-vacuity `example`s.

Modelling limits (stated, not hidden):
* a nil child (`NewPairNode(nil, x)`) is not representable; `allocPair` with an address that
  does not exist aborts the program at once (in Go the pair could be built, and hashing it
  panics).  `root`/`pokeLeaf` on an address that does not exist abort (Go: nil dereference).
* addresses are plain numbers, and a `Prog` continuation may inspect them; Go clients cannot
  fabricate pointers nor see their numeric value.  Where that matters it is made explicit:
  `Safe` (only legitimately held addresses), `reloc` (a client expressed in a shifted address
  space), a private address region per thread.
* a cyclic or forward-pointing heap cannot be built by `allocPair` (children must exist), as in
  Go without in-place writes to `LeftChild/RightChild` (there are none: fact inventory); `rootH`
  runs on fuel = address + 1, which is exact for such heaps (`WF`).
-/
import ZtypV.Basic
namespace ZtypV.H

inductive Cell where
  | leaf (r : Root)
  | pair (memo : Root) (l r : Nat)
  deriving Repr, DecidableEq, Inhabited

/-- forget the memo field -/
def Cell.erase : Cell → Cell
  | .leaf r => .leaf r
  | .pair _ l r => .pair z0 l r

abbrev Heap := Array Cell

inductive Acc where
  | read | write
  deriving Repr, DecidableEq, Inhabited

/-- what a run did: number of pair-hash invocations and the memory accesses in order -/
structure Trace where
  calls : Nat
  acc : List (Nat × Acc)
  deriving Repr, DecidableEq, Inhabited

def Trace.nil : Trace := ⟨0, []⟩
def Trace.one (a : Nat) (k : Acc) : Trace := ⟨0, [(a, k)]⟩
def Trace.app (s t : Trace) : Trace := ⟨s.calls + t.calls, s.acc ++ t.acc⟩
instance : Append Trace := ⟨Trace.app⟩

/-- the addresses written -/
def Trace.writes (t : Trace) : List Nat := (t.acc.filter (fun p => p.2 = Acc.write)).map (·.1)

/-- erasure to the pure model, by fuel (`absNode` uses fuel = address + 1, enough when children
    have smaller addresses) -/
def absF : Nat → Heap → Nat → Node
  | 0, _, _ => .leaf z0
  | f+1, hp, a =>
    match hp[a]? with
    | none => .leaf z0
    | some (Cell.leaf r) => .leaf r
    | some (Cell.pair _ l r) => .pair (absF f hp l) (absF f hp r)

def absNode (hp : Heap) (a : Nat) : Node := absF (a+1) hp a

/-- memo-free Merkle root of the tree at `a` -/
def pureRoot (h : HashFn) (hp : Heap) (a : Nat) : Root := (absNode hp a).root h

/-- `Node.MerkleRoot(h)`: `(*Root).MerkleRoot` returns `*r`; `(*PairNode).MerkleRoot` tests the
    memo, recurses left then right, writes the memo, returns it.  Result, heap, trace. -/
def rootH (h : HashFn) : Nat → Heap → Nat → Root × Heap × Trace
  | 0, hp, _ => (z0, hp, Trace.nil)
  | f+1, hp, a =>
    match hp[a]? with
    | none => (z0, hp, Trace.nil)
    | some (Cell.leaf r) => (r, hp, Trace.one a .read)
    | some (Cell.pair m l r) =>
      if m ≠ z0 then (m, hp, Trace.one a .read) else
        let x := rootH h f hp l
        let y := rootH h f x.2.1 r
        let v := h x.1 y.1
        (v, y.2.1.setIfInBounds a (Cell.pair v l r),
          Trace.one a .read ++ x.2.2 ++ y.2.2 ++ ⟨1, [(a, .write)]⟩)

/-- what `Left()/Right()/IsLeaf()`/a type switch/`*r` reveal about a node -/
def view : Cell → Sum Root (Nat × Nat)
  | .leaf r => .inl r
  | .pair _ l r => .inr (l, r)

/-- an arbitrary client of package `tree` -/
inductive Prog (α : Type) where
  | ret (a : α)
  | allocLeaf (r : Root) (k : Nat → Prog α)
  | allocPair (l r : Nat) (k : Nat → Prog α)
  | read (a : Nat) (k : Option (Sum Root (Nat × Nat)) → Prog α)
  | root (a : Nat) (k : Root → Prog α)
  | pokeLeaf (a : Nat) (r : Root) (k : Unit → Prog α)

/-- the client never writes into an existing leaf -/
inductive NoPoke {α : Type} : Prog α → Prop where
  | ret (a : α) : NoPoke (.ret a)
  | allocLeaf (r : Root) (k : Nat → Prog α) : (∀ a, NoPoke (k a)) → NoPoke (.allocLeaf r k)
  | allocPair (l r : Nat) (k : Nat → Prog α) : (∀ a, NoPoke (k a)) → NoPoke (.allocPair l r k)
  | read (a : Nat) (k : Option (Sum Root (Nat × Nat)) → Prog α) : (∀ c, NoPoke (k c)) → NoPoke (.read a k)
  | root (a : Nat) (k : Root → Prog α) : (∀ v, NoPoke (k v)) → NoPoke (.root a k)

/-- the child addresses a `read` result reveals -/
def childOf : Option (Sum Root (Nat × Nat)) → Nat → Prop
  | some (.inr (l, r)), z => z = l ∨ z = r
  | _, _ => False

/-- `Safe K p`: the client uses only addresses it legitimately holds — the set `K` it starts
    with, addresses returned by its own allocations, and children revealed by reads of such
    addresses (Go: a client cannot fabricate pointers).  Poke-free by construction. -/
inductive Safe {α : Type} : (Nat → Prop) → Prog α → Prop where
  | ret (K : Nat → Prop) (a : α) : Safe K (.ret a)
  | allocLeaf (K : Nat → Prop) (r : Root) (k : Nat → Prog α) :
      (∀ a, Safe (fun z => K z ∨ z = a) (k a)) → Safe K (.allocLeaf r k)
  | allocPair (K : Nat → Prop) (l r : Nat) (k : Nat → Prog α) : K l → K r →
      (∀ a, Safe (fun z => K z ∨ z = a) (k a)) → Safe K (.allocPair l r k)
  | read (K : Nat → Prop) (a : Nat) (k : Option (Sum Root (Nat × Nat)) → Prog α) : K a →
      (∀ c, Safe (fun z => K z ∨ childOf c z) (k c)) → Safe K (.read a k)
  | root (K : Nat → Prop) (a : Nat) (k : Root → Prog α) : K a →
      (∀ v, Safe K (k v)) → Safe K (.root a k)

/-- one primitive: finished, aborted (Go panic / unrepresentable nil), or the rest of the program -/
inductive Status (α : Type) where
  | done (a : α)
  | abort
  | more (p : Prog α)

/-- the result of a finished thread -/
def Status.result : Status α → Option α
  | .done a => some a
  | _ => none

/-- execute the head primitive of a program -/
def step1 (h : HashFn) : Prog α → Heap → Status α × Heap × Trace
  | .ret a, hp => (.done a, hp, Trace.nil)
  | .allocLeaf r k, hp => (.more (k hp.size), hp.push (.leaf r), Trace.one hp.size .write)
  | .allocPair l r k, hp =>
    if l < hp.size ∧ r < hp.size then
      (.more (k hp.size), hp.push (.pair z0 l r), Trace.one hp.size .write)
    else (.abort, hp, Trace.nil)
  | .read a k, hp =>
    match hp[a]? with
    | none => (.more (k none), hp, Trace.nil)
    | some c => (.more (k (some (view c))), hp, Trace.one a .read)
  | .root a k, hp =>
    if a < hp.size then
      let x := rootH h (a+1) hp a
      (.more (k x.1), x.2.1, x.2.2)
    else (.abort, hp, Trace.nil)
  | .pokeLeaf a r k, hp =>
    match hp[a]? with
    | some (.leaf _) => (.more (k ()), hp.setIfInBounds a (.leaf r), Trace.one a .write)
    | _ => (.abort, hp, Trace.nil)

/-- big-step run: result (`none` = aborted), final heap, trace -/
def run (h : HashFn) : Prog α → Heap → Option α × Heap × Trace
  | .ret a, hp => (some a, hp, Trace.nil)
  | .allocLeaf r k, hp =>
    let y := run h (k hp.size) (hp.push (.leaf r))
    (y.1, y.2.1, Trace.one hp.size .write ++ y.2.2)
  | .allocPair l r k, hp =>
    if l < hp.size ∧ r < hp.size then
      let y := run h (k hp.size) (hp.push (.pair z0 l r))
      (y.1, y.2.1, Trace.one hp.size .write ++ y.2.2)
    else (none, hp, Trace.nil)
  | .read a k, hp =>
    match hp[a]? with
    | none => run h (k none) hp
    | some c =>
      let y := run h (k (some (view c))) hp
      (y.1, y.2.1, Trace.one a .read ++ y.2.2)
  | .root a k, hp =>
    if a < hp.size then
      let x := rootH h (a+1) hp a
      let y := run h (k x.1) x.2.1
      (y.1, y.2.1, x.2.2 ++ y.2.2)
    else (none, hp, Trace.nil)
  | .pokeLeaf a r k, hp =>
    match hp[a]? with
    | some (.leaf _) =>
      let y := run h (k ()) (hp.setIfInBounds a (.leaf r))
      (y.1, y.2.1, Trace.one a .write ++ y.2.2)
    | _ => (none, hp, Trace.nil)

/-- sequencing of clients -/
def Prog.bind : Prog α → (α → Prog β) → Prog β
  | .ret a, f => f a
  | .allocLeaf r k, f => .allocLeaf r (fun a => (k a).bind f)
  | .allocPair l r k, f => .allocPair l r (fun a => (k a).bind f)
  | .read a k, f => .read a (fun c => (k c).bind f)
  | .root a k, f => .root a (fun v => (k v).bind f)
  | .pokeLeaf a r k, f => .pokeLeaf a r (fun u => (k u).bind f)

/-- a single hash-tree-root request -/
def Prog.root1 (a : Nat) : Prog Root := .root a .ret

/-! ### predicates -/

/-- children point to strictly smaller addresses (the heap is a DAG built bottom-up) -/
def WF (hp : Heap) : Prop :=
  ∀ (a : Nat) (m : Root) (l r : Nat), hp[a]? = some (Cell.pair m l r) → l < a ∧ r < a

/-- `hp'` differs from `hp` only in memo fields -/
def SameStruct (hp hp' : Heap) : Prop := hp.map Cell.erase = hp'.map Cell.erase

/-- `hp'` extends `hp`: old cells keep their structure and content (memos may differ) -/
def Ext (hp hp' : Heap) : Prop :=
  hp.size ≤ hp'.size ∧ ∀ x, x < hp.size → (hp'[x]?).map Cell.erase = (hp[x]?).map Cell.erase

/-- every remembered root is the root recomputed from the node's current children -/
def MemoValid (h : HashFn) (hp : Heap) : Prop :=
  ∀ (a : Nat) (m : Root) (l r : Nat), hp[a]? = some (Cell.pair m l r) → m ≠ z0 →
    m = h (pureRoot h hp l) (pureRoot h hp r)

/-- the Go memo uses the zero root as "unset": a pair whose hash is the zero root is never cached -/
def NoZeroOut (h : HashFn) : Prop := ∀ a b, h a b ≠ z0

/-- the node at `a` answers `MerkleRoot` without hashing: a leaf, or a pair with its memo set -/
def TopMemo (hp : Heap) (a : Nat) : Prop :=
  (∃ r, hp[a]? = some (Cell.leaf r)) ∨ (∃ m l r, hp[a]? = some (Cell.pair m l r) ∧ m ≠ z0)

/-- `y` is reachable from `x` -/
inductive Reach (hp : Heap) : Nat → Nat → Prop where
  | refl (x : Nat) : Reach hp x x
  | left {x y : Nat} (m : Root) (l r : Nat) : hp[x]? = some (Cell.pair m l r) → Reach hp l y → Reach hp x y
  | right {x y : Nat} (m : Root) (l r : Nat) : hp[x]? = some (Cell.pair m l r) → Reach hp r y → Reach hp x y

/-- every pair reachable from `x` has its memo set ("the tree at `x` was hashed") -/
def FullyMemo (hp : Heap) (x : Nat) : Prop :=
  ∀ (y : Nat) (m : Root) (l r : Nat), Reach hp x y → hp[y]? = some (Cell.pair m l r) → m ≠ z0

/-- a set memo implies that both children answer from their memo too (true of every heap that was
    built by poke-free clients from unhashed nodes when the hash never returns the zero root) -/
def MemoClosed (hp : Heap) : Prop :=
  ∀ (a : Nat) (m : Root) (l r : Nat), hp[a]? = some (Cell.pair m l r) → m ≠ z0 →
    TopMemo hp l ∧ TopMemo hp r

/-- every pair of the heap has its memo set -/
def AllMemo (hp : Heap) : Prop :=
  ∀ (y : Nat) (m : Root) (l r : Nat), hp[y]? = some (Cell.pair m l r) → m ≠ z0

/-- `y` is reached by `MerkleRoot` from `x` and will be hashed: the path to it consists of
    pairs with unset memo, `y` included -/
inductive UReach (hp : Heap) : Nat → Nat → Prop where
  | here {x : Nat} (l r : Nat) : hp[x]? = some (Cell.pair z0 l r) → UReach hp x x
  | left {x y : Nat} (l r : Nat) : hp[x]? = some (Cell.pair z0 l r) → UReach hp l y → UReach hp x y
  | right {x y : Nat} (l r : Nat) : hp[x]? = some (Cell.pair z0 l r) → UReach hp r y → UReach hp x y

/-! ### the rebinding spine (`Setter`/`DeeperSetter` link applied to a new node) -/

/-- replace the node at `path` (false = left) below `x` by `y`: reads the old pairs on the path,
    allocates one new pair per level (`RebindLeft/RebindRight`), bottom-up as the composed `Link`
    does.  `none` = `NavigationError` (a leaf on the path; expansion is `setPathX`). -/
def setPath : List Bool → Nat → Nat → Prog (Option Nat)
  | [], _, y => .ret (some y)
  | b :: bs, x, y =>
    .read x (fun c =>
      match c with
      | some (.inr (l, r)) =>
        if b then
          (setPath bs r y).bind (fun o => match o with
            | some r' => .allocPair l r' (fun a => .ret (some a))
            | none => .ret none)
        else
          (setPath bs l y).bind (fun o => match o with
            | some l' => .allocPair l' r (fun a => .ret (some a))
            | none => .ret none)
      | _ => .ret none)

/-- `setPath` with expansion (`DeeperSetter(…, expand = true)`): `zs d` is the address of the
    shared zero leaf `&ZeroHashes[d]`.  A leaf met on the path with `k+1` levels still to go is
    expanded only if its value equals that of `zs (k+1)` (only zero summaries are expanded); the
    code then builds the throw-away pair `NewPairNode(child, child)` with `child = ZeroNode(k)`,
    continues into it, and the link rebinds with `child` as sibling. -/
def setPathX (zs : Nat → Nat) : List Bool → Nat → Nat → Prog (Option Nat)
  | [], _, y => .ret (some y)
  | b :: bs, x, y =>
    .read x (fun c =>
      match c with
      | some (.inr (l, r)) =>
        if b then
          (setPathX zs bs r y).bind (fun o => match o with
            | some r' => .allocPair l r' (fun a => .ret (some a))
            | none => .ret none)
        else
          (setPathX zs bs l y).bind (fun o => match o with
            | some l' => .allocPair l' r (fun a => .ret (some a))
            | none => .ret none)
      | some (.inl v) =>
        .read (zs (bs.length + 1)) (fun cz =>
          match cz with
          | some (.inl vz) =>
            if v = vz then
              .allocPair (zs bs.length) (zs bs.length) (fun _ =>
                (setPathX zs bs (zs bs.length) y).bind (fun o => match o with
                  | some c' =>
                    if b then .allocPair (zs bs.length) c' (fun a => .ret (some a))
                    else .allocPair c' (zs bs.length) (fun a => .ret (some a))
                  | none => .ret none))
            else .ret none
          | _ => .ret none)
      | none => .ret none)

/-- `Spn hp x d`: `x` is the top of a chain of at most `d` unset pairs whose off-chain children
    answer `MerkleRoot` from their memo (or are leaves) — the shape of a freshly rebound path -/
inductive Spn : Heap → Nat → Nat → Prop where
  | base {hp : Heap} {x : Nat} (d : Nat) : TopMemo hp x → Spn hp x d
  | right {hp : Heap} {x l r d : Nat} : hp[x]? = some (Cell.pair z0 l r) → TopMemo hp l → Spn hp r d →
      Spn hp x (d+1)
  | left {hp : Heap} {x l r d : Nat} : hp[x]? = some (Cell.pair z0 l r) → Spn hp l d → TopMemo hp r →
      Spn hp x (d+1)

/-- the pure counterpart of `setPath` -/
def Node.setAt : List Bool → Node → Node → Option Node
  | [], _, y => some y
  | b :: bs, .pair l r, y =>
    if b then (Node.setAt bs r y).map (fun r' => .pair l r')
    else (Node.setAt bs l y).map (fun l' => .pair l' r)
  | _ :: _, .leaf _, _ => none

/-- what `setPath` builds, as a relation: `Spine hp hp' path x y x'` — starting from heap `hp`,
    replacing the node at `path` below `x` by `y` yields heap `hp'` and new top `x'` -/
inductive Spine : Heap → Heap → List Bool → Nat → Nat → Nat → Prop where
  | nil (hp : Heap) (x y : Nat) : Spine hp hp [] x y y
  | right {hp hp1 : Heap} {bs : List Bool} {x y c' : Nat} (m : Root) (l r : Nat) :
      hp[x]? = some (Cell.pair m l r) → Spine hp hp1 bs r y c' → l < hp1.size → c' < hp1.size →
      Spine hp (hp1.push (.pair z0 l c')) (true :: bs) x y hp1.size
  | left {hp hp1 : Heap} {bs : List Bool} {x y c' : Nat} (m : Root) (l r : Nat) :
      hp[x]? = some (Cell.pair m l r) → Spine hp hp1 bs l y c' → c' < hp1.size → r < hp1.size →
      Spine hp (hp1.push (.pair z0 c' r)) (false :: bs) x y hp1.size

/-! ### relocation: the same client in a heap where `n` foreign cells sit at addresses `s … s+n-1` -/

/-- own address ↦ address in the bigger heap -/
def sh (s n x : Nat) : Nat := if x < s then x else x + n
/-- and back -/
def unsh (s n x : Nat) : Nat := if x < s then x else x - n

def shCell (s n : Nat) : Cell → Cell
  | .leaf r => .leaf r
  | .pair m l r => .pair m (sh s n l) (sh s n r)

def unshView (s n : Nat) : Sum Root (Nat × Nat) → Sum Root (Nat × Nat)
  | .inl r => .inl r
  | .inr (l, r) => .inr (unsh s n l, unsh s n r)

/-- A Go client never sees the numeric value of a pointer; a `Prog` does.  `reloc s n p` is the
    client `p` expressed in the address space in which every address `≥ s` is shifted by `n`:
    addresses it passes to the machine are shifted, addresses it receives are shifted back. -/
def reloc (s n : Nat) : Prog α → Prog α
  | .ret a => .ret a
  | .allocLeaf r k => .allocLeaf r (fun a => reloc s n (k (unsh s n a)))
  | .allocPair l r k => .allocPair (sh s n l) (sh s n r) (fun a => reloc s n (k (unsh s n a)))
  | .read a k => .read (sh s n a) (fun c => reloc s n (k (c.map (unshView s n))))
  | .root a k => .root (sh s n a) (fun v => reloc s n (k v))
  | .pokeLeaf a r k => .pokeLeaf (sh s n a) r (fun u => reloc s n (k u))

/-! ### editing the hash-tree-root requests of a client -/

/-- `RootEdit n p p'`: `p'` is `p` with hash-tree-root requests (whose results are ignored)
    inserted (`ins`) or deleted (`del`) at arbitrary points; everything else is the same.
    The index `n` is the heap size at that point of the run: inserted/deleted requests are on
    existing nodes (`x < n`; in Go: on non-nil nodes). -/
inductive RootEdit {α : Type} : Nat → Prog α → Prog α → Prop where
  | ret (n : Nat) (a : α) : RootEdit n (.ret a) (.ret a)
  | ins (n x : Nat) (p p' : Prog α) : x < n → RootEdit n p p' → RootEdit n p (.root x (fun _ => p'))
  | del (n x : Nat) (p p' : Prog α) : x < n → RootEdit n p p' → RootEdit n (.root x (fun _ => p)) p'
  | allocLeaf (n : Nat) (r : Root) (k k' : Nat → Prog α) :
      RootEdit (n+1) (k n) (k' n) → RootEdit n (.allocLeaf r k) (.allocLeaf r k')
  | allocPair (n l r : Nat) (k k' : Nat → Prog α) :
      (l < n → r < n → RootEdit (n+1) (k n) (k' n)) → RootEdit n (.allocPair l r k) (.allocPair l r k')
  | read (n a : Nat) (k k' : Option (Sum Root (Nat × Nat)) → Prog α) :
      (∀ c, RootEdit n (k c) (k' c)) → RootEdit n (.read a k) (.read a k')
  | root (n a : Nat) (k k' : Root → Prog α) :
      (∀ v, RootEdit n (k v) (k' v)) → RootEdit n (.root a k) (.root a k')

/-! ### threads -/

/-- a memory location as the whole process sees it -/
inductive Loc where
  | shared (n : Nat)
  | priv (thread n : Nat)
  deriving Repr, DecidableEq

/-- thread `i` addresses `B ++ priv_i`: indices below `n = B.size` are shared -/
def Loc.of (n i x : Nat) : Loc := if x < n then .shared x else .priv i (x - n)

structure TState (α : Type) where
  st : Status α
  priv : Heap
  tr : Trace

/-- shared heap (initially `B`; a memo fill on a shared pair WOULD change it) and the threads -/
structure Sys (α : Type) where
  shared : Heap
  threads : Nat → TState α

/-- thread `i` executes its next primitive against `shared ++ priv_i`, hashing with its own hash
    function `hs i` (the package-level `Hash` or a per-goroutine `GetHashFn()`); the first
    `shared.size` cells of the result are written back to the shared heap -/
def Sys.step (hs : Nat → HashFn) (s : Sys α) (i : Nat) : Sys α :=
  match (s.threads i).st with
  | .more p =>
    let x := step1 (hs i) p (s.shared ++ (s.threads i).priv)
    let t' : TState α :=
      { st := x.1, priv := x.2.1.extract s.shared.size x.2.1.size, tr := (s.threads i).tr ++ x.2.2 }
    { shared := x.2.1.extract 0 s.shared.size,
      threads := fun j => if j = i then t' else s.threads j }
  | _ => s

/-- run a schedule (any list of thread ids) -/
def Sys.exec (hs : Nat → HashFn) (s : Sys α) : List Nat → Sys α
  | [] => s
  | i :: is => (s.step hs i).exec hs is

def Sys.init (B : Heap) (p : Nat → Prog α) : Sys α :=
  { shared := B, threads := fun i => { st := .more (p i), priv := #[], tr := Trace.nil } }

/-- thread alone: `n` primitives against the fixed base heap -/
def soloN (h : HashFn) (B : Heap) (t : TState α) : Nat → TState α
  | 0 => t
  | n+1 =>
    match t.st with
    | .more p =>
      let x := step1 h p (B ++ t.priv)
      soloN h B { st := x.1, priv := x.2.1.extract B.size x.2.1.size, tr := t.tr ++ x.2.2 } n
    | _ => t

/-- the accesses of thread `i` as process-wide locations -/
def TState.locs (n i : Nat) (t : TState α) : List (Loc × Acc) :=
  t.tr.acc.map (fun p => (Loc.of n i p.1, p.2))

/-! ### executable checks and the example objects used by the non-vacuity `example`s -/

def Cell.isUnsetPair : Cell → Bool
  | .pair m _ _ => decide (m = z0)
  | .leaf _ => false

def wfB (hp : Heap) : Bool :=
  (List.range hp.size).all fun a =>
    match hp[a]? with
    | some (Cell.pair _ l r) => decide (l < a) && decide (r < a)
    | _ => true

def memoValidB (h : HashFn) (hp : Heap) : Bool :=
  (List.range hp.size).all fun a =>
    match hp[a]? with
    | some (Cell.pair m l r) => decide (m = z0) || decide (m = h (pureRoot h hp l) (pureRoot h hp r))
    | _ => true

def topMemoB (hp : Heap) (a : Nat) : Bool :=
  match hp[a]? with
  | some (Cell.leaf _) => true
  | some (Cell.pair m _ _) => !decide (m = z0)
  | none => false

def memoClosedB (hp : Heap) : Bool :=
  (List.range hp.size).all fun a =>
    match hp[a]? with
    | some (Cell.pair m l r) => decide (m = z0) || (topMemoB hp l && topMemoB hp r)
    | _ => true

def allMemoB (hp : Heap) : Bool :=
  (List.range hp.size).all fun a =>
    match hp[a]? with
    | some (Cell.pair m _ _) => !decide (m = z0)
    | _ => true

/-- a toy pair hash that never returns the zero root -/
def exHash : HashFn := fun a b => 1 :: (a ++ b).take 31

/-- `0`: the shared zero leaf, `1`: a data leaf, `2 = (0,1)`, `3 = (2,2)` (sharing), `4 = (3,0)`;
    nothing hashed yet -/
def exHeap : Heap :=
  #[.leaf z0, .leaf (chunkOf [7]), .pair z0 0 1, .pair z0 2 2, .pair z0 3 0]

/-- `exHeap` after hashing node 3 (memos of 2 and 3 set, 4 unset) -/
def exHeap3 : Heap := (rootH exHash 4 exHeap 3).2.1

/-- `exHeap` after hashing everything -/
def exHeapAll : Heap := (rootH exHash 5 exHeap 4).2.1

/-- a client: replace the right child of node 4 by a fresh leaf, hash the new tree -/
def exClient : Prog Root :=
  .read 4 (fun c => match c with
    | some (.inr (l, _)) => .allocLeaf (chunkOf [9]) (fun a => .allocPair l a (fun b => .root b .ret))
    | _ => .ret z0)

/-- a client that writes into the shared zero leaf -/
def exPoker : Prog Unit := .pokeLeaf 0 (chunkOf [1]) (fun _ => .ret ())

/-- the fully hashed heap plus an unhashed garbage pair (address 5) that no view reaches — e.g. the
    throw-away `NewPairNode(child, child)` of an expansion, or an intermediate root never hashed -/
def exHeapG : Heap := exHeapAll.push (.pair z0 0 0)

/-- `0`: zero leaf of depth 0, `1`: zero summary of depth 1 (a leaf holding `h z0 z0`), `2`: a data
    leaf, `3 = (2, 1)`: a list-like tree whose right half is still the collapsed zero summary -/
def exHeapZ : Heap := #[.leaf z0, .leaf (exHash z0 z0), .leaf (chunkOf [7]), .pair z0 2 1]

/-- the zero-leaf table of `exHeapZ` (`&ZeroHashes[d]`) -/
def exZs : Nat → Nat := fun d => if d = 0 then 0 else 1

/-- two goroutines working on forks of node 4 (one mutates and hashes, one only hashes), the rest idle -/
def exThreads : Nat → Prog Root := fun i =>
  if i = 0 then exClient else if i = 1 then .root 4 .ret else .ret z0

end ZtypV.H
