/-
Model of Go package `bitfields` (/repo/bitfields/bitfield.go, bitlist.go, bitvector.go):
the free helper functions on packed bitfields.  One Lean function per Go function, same
case splits in the same order, machine integers where Go uses them.

Conventions
* a Go `[]byte` is a `Bytes = List UInt8`; `uint64(len(b))` is `UInt64.ofNat b.length`
  (exact for every real Go slice because `len(b) < 2^63`; the theorems about functions that
  convert a length carry the hypothesis `b.length < 2^64`).
* Go `error` results are `Except Err Unit` with `Err.err` (only the class is observable),
  every slice-index expression with a `uint64` index is an explicit `Err.panic` outcome when
  out of range (`idx`).  `BitlistLen`/`BitlistCheck`/`BitvectorCheck` index with
  `byteLen-1` after testing `byteLen != 0`; `Proofs/Bitfields.lean` proves these never panic.
* All shift counts in this package are `< 8` (`i&7`, `n&7`, `BitIndex`), so Go's and Lean's
  shift semantics (Lean reduces the count mod 8 / mod 64) coincide; `(byteLen-1)<<3` is a
  plain wrapping `UInt64` shift by 3 in both.
* `math/bits.OnesCount8` is modelled by its specification (number of one bits).
* Loops over an `int` index that stay inside the slice by construction
  (`for i := 0; i < end; i++`) are list folds/`any`.
-/
import ZtypV.Basic
namespace ZtypV.Bitfields

inductive Err where
  | err      -- a non-nil Go `error`
  | panic    -- a Go run-time panic (index out of range)
  deriving Repr, DecidableEq, BEq, Inhabited

abbrev R := Except Err

/-- Go slice indexing `b[i]` with a `uint64` index -/
def idx (b : Bytes) (i : UInt64) : R UInt8 :=
  match b[i.toNat]? with
  | some x => .ok x
  | none => .error .panic

/-- `BitIndex(v byte) uint64`: index of the left-most 1 bit (0 for `v = 0`) -/
def bitIndex (v : UInt8) : UInt64 :=
  let out : UInt64 := 0
  let (out, v) := if v &&& 0xf0 != 0 then (out ||| 4, v >>> 4) else (out, v)
  let (out, v) := if v &&& 0x0c != 0 then (out ||| 2, v >>> 2) else (out, v)
  let (out, _) := if v &&& 0x02 != 0 then (out ||| 1, v >>> 1) else (out, v)
  out

/-- `uint64(bits.OnesCount8(v))` -/
def onesCount8 (v : UInt8) : UInt64 :=
  UInt64.ofNat ((List.range 8).countP fun j => v.toNat.testBit j)

/-- `GetBit(b, i)`: `(b[i>>3]>>(i&7))&1 == 1` -/
def getBit (b : Bytes) (i : UInt64) : R Bool := do
  let x ← idx b (i >>> 3)
  pure (((x >>> (i &&& 7).toUInt8) &&& 1) == 1)

/-- `SetBit(b, i, v)`; the result is the slice content afterwards (Go mutates in place).
    The mask is computed before the slice is indexed, as in Go. -/
def setBit (b : Bytes) (i : UInt64) (v : Bool) : R Bytes :=
  let bit : UInt8 := 1 <<< (i &&& 7).toUInt8
  if v then do
    let x ← idx b (i >>> 3)
    pure (b.set (i >>> 3).toNat (x ||| bit))
  else do
    let x ← idx b (i >>> 3)
    pure (b.set (i >>> 3).toNat (x &&& ~~~bit))

/-- `IsZeroBitlist(b)` -/
def isZeroBitlist (b : Bytes) : Bool :=
  let end_ := b.length
  if end_ == 0 then true else
  let end_ := end_ - 1
  -- `if end > 0 { for i := 0; i < end; i++ { if b[i] != 0 { return false } } }`
  if (b.take end_).any (· != 0) then false else
  let last := b.getD end_ 0          -- `b[end]`, `end = len(b)-1` is in range
  if last == 0 then true else
  let last := last ^^^ ((1 : UInt8) <<< (bitIndex last).toUInt8)
  last == 0

/-- `Covers(af, bf)` -/
def covers (af bf : Bytes) : R Bool :=
  if af.length != bf.length then .error .err else
  -- `for i := 0; i < len(bf); i++ { if bf[i]&^af[i] != 0 { return false, nil } }`
  .ok ((af.zip bf).all fun p => (p.2 &&& ~~~p.1) == 0)

/-- `BitlistLen(b)` -/
def bitlistLen (b : Bytes) : R UInt64 :=
  let byteLen := UInt64.ofNat b.length
  if byteLen == 0 then pure 0 else do
  let last ← idx b (byteLen - 1)
  pure (((byteLen - 1) <<< 3) ||| bitIndex last)

/-- `BitlistCheckByteLen(byteLen, bitLimit)` -/
def bitlistCheckByteLen (byteLen bitLimit : UInt64) : R Unit :=
  if byteLen == 0 then .error .err else
  let byteLimitWithDelimiter := (bitLimit >>> 3) + 1
  if byteLen > byteLimitWithDelimiter then .error .err else
  .ok ()

/-- `BitlistCheckLastByte(last, limit)` -/
def bitlistCheckLastByte (last : UInt8) (limit : UInt64) : R Unit :=
  if last == 0 then .error .err else
  if bitIndex last > limit then .error .err else
  .ok ()

/-- `BitlistCheck(b, limit)`; `limit-((byteLen-1)<<3)` is wrapping `uint64` arithmetic -/
def bitlistCheck (b : Bytes) (limit : UInt64) : R Unit := do
  let byteLen := UInt64.ofNat b.length
  bitlistCheckByteLen byteLen limit
  let last ← idx b (byteLen - 1)
  bitlistCheckLastByte last (limit - ((byteLen - 1) <<< 3))

/-- the loop `for i := 0; i < n; i++ { count += uint64(bits.OnesCount8(v[i])) }` over a prefix -/
def onesLoop (count : UInt64) (v : Bytes) : UInt64 :=
  v.foldl (fun c x => c + onesCount8 x) count

/-- `BitlistOnesCount(v)` -/
def bitlistOnesCount (v : Bytes) : UInt64 :=
  if v.length == 0 then 0 else
  let count := onesLoop 0 (v.take (v.length - 1))
  let last := v.getD (v.length - 1) 0     -- `v[len(v)-1]`, in range
  if last == 0 then count else
  let last := last ^^^ ((1 : UInt8) <<< (bitIndex last).toUInt8)
  count + onesCount8 last

/-- `BitvectorCheckByteLen(byteLen, bitLength)`; `bitLength + 7` wraps -/
def bitvectorCheckByteLen (byteLen bitLength : UInt64) : R Unit :=
  let expected := (bitLength + 7) >>> 3
  if byteLen != expected then .error .err else .ok ()

/-- `BitvectorCheckLastByte(last, n)` -/
def bitvectorCheckLastByte (last : UInt8) (n : UInt64) : R Unit :=
  if n == 0 then .error .err else
  if n &&& 7 == 0 then .ok () else
  let expectedBitsLen := n &&& 7
  if (last >>> expectedBitsLen.toUInt8) != 0 then .error .err else
  .ok ()

/-- `BitvectorCheck(b, n)` -/
def bitvectorCheck (b : Bytes) (n : UInt64) : R Unit := do
  let byteLen := UInt64.ofNat b.length
  bitvectorCheckByteLen byteLen n
  if byteLen == 0 then .ok () else do
  let last ← idx b (byteLen - 1)
  bitvectorCheckLastByte last n

/-- `BitvectorOnesCount(v)` -/
def bitvectorOnesCount (v : Bytes) : UInt64 := onesLoop 0 v

end ZtypV.Bitfields
