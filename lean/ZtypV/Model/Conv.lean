/-
Executable model of the text/JSON conversions of ztyp (property C19).

Part A  environment: behaviour of the Go standard library pieces the conversions sit on
        (`strconv.ParseUint(s, 0, bitSize)`, `strconv.AppendUint(_, _, 10)`, `encoding/hex`,
        `math/big.Int.UnmarshalText`, `uint256.Int.SetFromBig`, `%d` formatting),
        transcribed from the Go 1.23 sources, one Lean function per Go function/loop.
Part B  ztyp layer: /repo/conv/numbers.go, /repo/conv/bytes.go and the Marshal/Unmarshal
        Text/JSON methods of the basic views, function by function.
Part C  specification vocabulary: the denotation of Go base-0 integer literals, written from
        the grammar of the Go language specification (not from the parsers' control flow), the
        quote convention and the hex denotation.  The theorems in Props/C19 relate B to C.

Texts are byte lists (`[]byte` in Go).  Byte constants:
  '"' 0x22   '+' 0x2b   '-' 0x2d   '0' 0x30   '9' 0x39   'A' 0x41   'X' 0x58   '_' 0x5f
  'a' 0x61   'b' 0x62   'f' 0x66   'o' 0x6f   'x' 0x78   'z' 0x7a
Nil destinations (`DestNilErr`) are not modelled: the harness always passes a destination.
-/
import ZtypV.Basic
namespace ZtypV.Conv

abbrev Text := List UInt8

/-- observable outcome classes of the line protocol -/
inductive Res (α : Type) where
  | ok (v : α)
  | err
  | panic
  deriving DecidableEq, Repr

/-! ## Part A.1  strconv -/

/-- `strconv.lower`: `c | ('x' - 'X')` -/
def lower (c : UInt8) : UInt8 := c ||| 0x20

/-- error kinds of `strconv.ParseUint` (the observable class of all of them is `err`) -/
inductive NumErr where
  | syntax
  | range
  | bitSize
  deriving DecidableEq, Repr

/-- digit decoding inside the `ParseUint` loop (`none` = the `default:` syntax error case) -/
def strconvDigit (c : UInt8) : Option UInt8 :=
  if 0x30 ≤ c ∧ c ≤ 0x39 then some (c - 0x30)
  else if 0x61 ≤ lower c ∧ lower c ≤ 0x7a then some (lower c - 0x61 + 10)
  else none

/-- the `for _, c := range []byte(s)` loop of `ParseUint` called with base argument 0
(`base0 = true`).  State: `n` (a uint64, kept as a Nat with explicit wrap-around) and the
`underscores` flag. -/
def parseLoop (base cutoff maxVal : Nat) : Text → Nat → Bool → Except NumErr (Nat × Bool)
  | [], n, us => .ok (n, us)
  | c :: rest, n, us =>
    if c = 0x5f then parseLoop base cutoff maxVal rest n true
    else
      match strconvDigit c with
      | none => .error .syntax
      | some d =>
        if d.toNat ≥ base then .error .syntax
        else if n ≥ cutoff then .error .range          -- n*base overflows
        else
          let n' := (n * base) % 2^64                  -- n *= uint64(base)
          let n1 := (n' + d.toNat) % 2^64              -- n1 := n + uint64(d)
          if n1 < n' ∨ n1 > maxVal then .error .range  -- n+d overflows
          else parseLoop base cutoff maxVal rest n1 us

/-- the `saw` variable of `strconv.underscoreOK`: '^', '0', '_', '!' -/
inductive Saw where
  | start
  | digit
  | us
  | other
  deriving DecidableEq, Repr

/-- "Number proper" loop of `underscoreOK` -/
def usLoop (hex : Bool) : Text → Saw → Bool
  | [], saw => saw ≠ .us
  | c :: rest, saw =>
    if (0x30 ≤ c ∧ c ≤ 0x39) ∨ (hex = true ∧ 0x61 ≤ lower c ∧ lower c ≤ 0x66) then usLoop hex rest .digit
    else if c = 0x5f then
      if saw ≠ .digit then false else usLoop hex rest .us
    else if saw = .us then false
    else usLoop hex rest .other

/-- `strconv.underscoreOK` -/
def underscoreOK (s : Text) : Bool :=
  -- optional sign
  let s := match s with
    | c :: t => if c = 0x2d ∨ c = 0x2b then t else s
    | [] => s
  -- optional base prefix
  match s with
  | c0 :: c1 :: t =>
    if c0 = 0x30 ∧ (lower c1 = 0x62 ∨ lower c1 = 0x6f ∨ lower c1 = 0x78) then
      usLoop (lower c1 = 0x78) t .digit
    else usLoop false s .start
  | _ => usLoop false s .start

/-- base-prefix detection of `ParseUint` for base argument 0: the actual base and the rest -/
def splitBase (s : Text) : Nat × Text :=
  match s with
  | c0 :: t =>
    if c0 = 0x30 then
      match t with
      | c1 :: b =>
        if s.length ≥ 3 ∧ lower c1 = 0x62 then (2, b)
        else if s.length ≥ 3 ∧ lower c1 = 0x6f then (8, b)
        else if s.length ≥ 3 ∧ lower c1 = 0x78 then (16, b)
        else (8, t)
      | [] => (8, t)
    else (10, s)
  | [] => (10, s)

def maxUint64 : Nat := 2^64 - 1

/-- `uint64(1)<<uint(bitSize) - 1` (Go: the shift gives 0 for 64, the subtraction wraps) -/
def maxValOf (bitSize : Nat) : Nat := ((2^bitSize) % 2^64 + 2^64 - 1) % 2^64

/-- `strconv.ParseUint(s, 0, bitSize)` -/
def parseUint (s : Text) (bitSize : Nat) : Except NumErr Nat :=
  if s.isEmpty then .error .syntax else
  let (base, body) := splitBase s
  if bitSize > 64 then .error .bitSize else
  let bitSize := if bitSize = 0 then 64 else bitSize
  let cutoff := maxUint64 / base + 1
  let maxVal := maxValOf bitSize
  match parseLoop base cutoff maxVal body 0 false with
  | .error e => .error e
  | .ok (n, us) => if us && !underscoreOK s then .error .syntax else .ok n

/-- decimal digits of `n`, most significant first (what `strconv.formatBits(_, n, 10, …)`
and `big.Int.Format('d')` produce for a non-negative number) -/
def decDigits (n : Nat) : Text :=
  if h : n < 10 then [UInt8.ofNat (48 + n)]
  else decDigits (n / 10) ++ [UInt8.ofNat (48 + n % 10)]
decreasing_by omega

/-- `strconv.AppendUint(dst, n, 10)` -/
def appendUintDec (dst : Text) (n : Nat) : Text := dst ++ decDigits n

/-! ## Part A.2  encoding/hex -/

/-- `hextable[n]` for `n < 16` -/
def hexDigit (n : UInt8) : UInt8 := if n < 10 then 0x30 + n else 0x57 + n

/-- `reverseHexTable[c]` (0xff = invalid) -/
def fromHex (c : UInt8) : UInt8 :=
  if 0x30 ≤ c ∧ c ≤ 0x39 then c - 0x30
  else if 0x41 ≤ c ∧ c ≤ 0x46 then c - 0x37
  else if 0x61 ≤ c ∧ c ≤ 0x66 then c - 0x57
  else 0xff

/-- the bytes `hex.Encode` writes for `src` -/
def hexEncode (src : Bytes) : Text :=
  src.flatMap fun (v : UInt8) => [hexDigit (v >>> 4), hexDigit (v &&& 0x0f)]

/-- `hex.Encode(dst, src)` into a zeroed `dst` of length `dstLen`: index panic when `dst` is short -/
def hexEncodeInto (dstLen : Nat) (src : Bytes) : Res Text :=
  if dstLen < 2 * src.length then .panic
  else .ok (hexEncode src ++ List.replicate (dstLen - 2 * src.length) 0)

/-- loop of `hex.Decode(dst, src)`; `acc` = bytes written so far (`i = acc.length`).
`ok` carries the `i` decoded bytes. -/
def hexDecodeLoop (dstLen : Nat) : Text → Bytes → Res Bytes
  | [], acc => .ok acc
  | [_], _ => .err                       -- odd length: InvalidByteError or ErrLength
  | p :: q :: rest, acc =>
    let a := fromHex p
    let b := fromHex q
    if a > 0x0f then .err
    else if b > 0x0f then .err
    else if acc.length ≥ dstLen then .panic     -- dst[i] = … out of range
    else hexDecodeLoop dstLen rest (acc ++ [(a <<< 4) ||| b])

/-- `hex.Decode(dst, src)` with `len(dst) = dstLen` -/
def hexDecode (dstLen : Nat) (src : Text) : Res Bytes := hexDecodeLoop dstLen src []

/-! ## Part A.3  math/big and uint256 -/

/-- `prev` of `nat.scan`: '_', '0' (digit), '.' (anything else) -/
inductive Prev where
  | us
  | digit
  | other
  deriving DecidableEq, Repr

/-- digit value in `nat.scan` for bases ≤ 36 (`MaxBase+1` = 63 for non-digits) -/
def bigDigit (ch : UInt8) : Nat :=
  if 0x30 ≤ ch ∧ ch ≤ 0x39 then (ch - 0x30).toNat
  else if 0x61 ≤ ch ∧ ch ≤ 0x7a then (ch - 0x61).toNat + 10
  else if 0x41 ≤ ch ∧ ch ≤ 0x5a then (ch - 0x41).toNat + 10
  else 63

structure ScanState where
  left : Text        -- unread input (non-empty exactly when the loop stopped at a non-digit)
  prev : Prev
  invalSep : Bool
  count : Nat
  acc : Nat          -- value of the digits so far (`z`, `di` combined)
  deriving Repr

/-- digit loop of `nat.scan(r, 0, false)` (`fracOk = false`, so the '.' branch is dead) -/
def bigLoop (b : Nat) : Text → Prev → Bool → Nat → Nat → ScanState
  | [], prev, inv, count, acc => ⟨[], prev, inv, count, acc⟩                -- io.EOF
  | ch :: rest, prev, inv, count, acc =>
    if ch = 0x5f then bigLoop b rest .us (inv || decide (prev ≠ .digit)) count acc
    else
      let d1 := bigDigit ch
      if d1 ≥ b then ⟨ch :: rest, prev, inv, count, acc⟩                    -- UnreadByte; break
      else bigLoop b rest .digit inv (count + 1) (acc * b + d1)

/-- end of `nat.scan`: `prefix0` = the octal prefix "0" was seen.  Result `(value, err)`. -/
def bigFinish (prefix0 : Bool) (st : ScanState) : Nat × Bool :=
  let err := st.invalSep || decide (st.prev = .us)       -- errInvalSep
  if st.count = 0 then
    if prefix0 then (0, err)
    else (0, true)                                       -- errNoDigits
  else (st.acc, err)

/-- `nat.scan(r, 0, false)` on the text `s`: value, error flag and unread rest -/
def natScan0 (s : Text) : Nat × Bool × Text :=
  match s with
  | [] => (0, true, [])                                             -- errNoDigits
  | ch :: r1 =>
    if ch = 0x30 then
      match r1 with
      | [] => (0, false, [])                                        -- "0": count = 1
      | c2 :: r2 =>
        if c2 = 0x62 ∨ c2 = 0x42 then
          let st := bigLoop 2 r2 .digit false 0 0
          let (v, e) := bigFinish false st; (v, e, st.left)
        else if c2 = 0x6f ∨ c2 = 0x4f then
          let st := bigLoop 8 r2 .digit false 0 0
          let (v, e) := bigFinish false st; (v, e, st.left)
        else if c2 = 0x78 ∨ c2 = 0x58 then
          let st := bigLoop 16 r2 .digit false 0 0
          let (v, e) := bigFinish false st; (v, e, st.left)
        else
          let st := bigLoop 8 r1 .digit false 0 0
          let (v, e) := bigFinish true st; (v, e, st.left)
    else
      let st := bigLoop 10 s .other false 0 0
      let (v, e) := bigFinish false st; (v, e, st.left)

/-- `(*big.Int).UnmarshalText(text)` = `setFromScanner(_, 0)`: `none` = error -/
def bigSetString0 (s : Text) : Option Int :=
  match s with
  | [] => none                                                       -- scanSign: EOF
  | ch :: rest =>
    let neg := decide (ch = 0x2d)
    let s1 := if ch = 0x2d ∨ ch = 0x2b then rest else s
    let (v, e, left) := natScan0 s1
    if e then none
    else if left ≠ [] then none                                      -- not all consumed
    else some (if v ≠ 0 ∧ neg then -(v : Int) else (v : Int))

/-- `(*uint256.Int).SetFromBig(b)`: the stored value and the overflow flag -/
def setFromBig (x : Int) : Nat × Bool :=
  let z := x.natAbs % 2^256
  (if x < 0 then (2^256 - z) % 2^256 else z, decide (x.natAbs ≥ 2^256))

/-- `fmt.Sprintf("%d", *uint256.Int)` -/
def fmtU256 (v : Nat) : Text := decDigits v

/-! ## Part B.1  conv/numbers.go -/

/-- the quote handling shared by `uintUnmarshal` and `Uint256Unmarshal`: `none` = error -/
def stripQuotes (b : Text) : Option Text :=
  match b with
  | [] => none                                                        -- EmptyInputErr
  | b0 :: _ =>
    if b0 = 0x22 then
      if b.length = 1 ∨ b.getLast? ≠ some b0 then none                -- MissingQuoteErr
      else some ((b.take (b.length - 1)).drop 1)                      -- b[1 : len(b)-1]
    else some b

/-- `conv.uintUnmarshal(v, b, bitSize)` -/
def uintUnmarshal (b : Text) (bitSize : Nat) : Res Nat :=
  match stripQuotes b with
  | none => .err
  | some b =>
    match parseUint b bitSize with
    | .error _ => .err
    | .ok n => .ok n

def uint64Unmarshal (b : Text) : Res Nat := uintUnmarshal b 64

def uint32Unmarshal (b : Text) : Res Nat :=
  match uintUnmarshal b 32 with
  | .ok x => .ok (x % 2^32)          -- uint32(x)
  | .err => .err
  | .panic => .panic

def uint16Unmarshal (b : Text) : Res Nat :=
  match uintUnmarshal b 16 with
  | .ok x => .ok (x % 2^16)
  | .err => .err
  | .panic => .panic

def uint8Unmarshal (b : Text) : Res Nat :=
  match uintUnmarshal b 8 with
  | .ok x => .ok (x % 2^8)
  | .err => .err
  | .panic => .panic

/-- `conv.Uint256Unmarshal` -/
def uint256Unmarshal (b : Text) : Res Nat :=
  match stripQuotes b with
  | none => .err
  | some b =>
    match bigSetString0 b with
    | none => .err
    | some x =>
      if x < 0 then .err
      else
        let (v, overflow) := setFromBig x
        if overflow then .err else .ok v

/-- `conv.Uint64Marshal` (and Uint32/16/8Marshal, which widen and call it) -/
def uint64Marshal (v : Nat) : Text := appendUintDec [0x22] v ++ [0x22]
def uint32Marshal (v : Nat) : Text := uint64Marshal v
def uint16Marshal (v : Nat) : Text := uint64Marshal v
def uint8Marshal (v : Nat) : Text := uint64Marshal v

/-- `conv.Uint256Marshal` -/
def uint256Marshal (v : Nat) : Text := [0x22] ++ fmtU256 v ++ [0x22]

/-! ## Part B.2  view/basic.go, view/u256.go -/

/-- `Uint8View/16/32/64.MarshalText` -/
def uintViewMarshalText (v : Nat) : Text := appendUintDec [] v

/-- `UintNView.UnmarshalText` for N = `w`: `ParseUint(string(b), 0, w)` then the cast -/
def uintViewUnmarshalText (w : Nat) (b : Text) : Res Nat :=
  match parseUint b w with
  | .error _ => .err
  | .ok n => .ok (n % 2^w)

def uint8ViewUnmarshalText (b : Text) : Res Nat := uintViewUnmarshalText 8 b
def uint16ViewUnmarshalText (b : Text) : Res Nat := uintViewUnmarshalText 16 b
def uint32ViewUnmarshalText (b : Text) : Res Nat := uintViewUnmarshalText 32 b
def uint64ViewUnmarshalText (b : Text) : Res Nat := uintViewUnmarshalText 64 b

/-- `Uint256View.MarshalText` -/
def uint256ViewMarshalText (v : Nat) : Text := fmtU256 v

/-- `Uint256View.SetFromBig` -/
def uint256ViewSetFromBig (x : Int) : Nat × Bool :=
  if x < 0 then (0, true) else setFromBig x

/-- `Uint256View.UnmarshalText` -/
def uint256ViewUnmarshalText (b : Text) : Res Nat :=
  match bigSetString0 b with
  | none => .err
  | some x =>
    let (v, overflow) := uint256ViewSetFromBig x
    if overflow then .err else .ok v

/-- dispatch on the width token of the driver: the JSON forms
(`conv.UintNUnmarshal` = `UintNView.UnmarshalJSON`) -/
def uintUnmarshalJSON (w : Nat) (b : Text) : Res Nat :=
  if w = 8 then uint8Unmarshal b
  else if w = 16 then uint16Unmarshal b
  else if w = 32 then uint32Unmarshal b
  else if w = 64 then uint64Unmarshal b
  else if w = 256 then uint256Unmarshal b
  else .err

def uintMarshalJSON (w : Nat) (v : Nat) : Text :=
  if w = 256 then uint256Marshal v else uint64Marshal v

def uintUnmarshalText (w : Nat) (b : Text) : Res Nat :=
  if w = 8 then uint8ViewUnmarshalText b
  else if w = 16 then uint16ViewUnmarshalText b
  else if w = 32 then uint32ViewUnmarshalText b
  else if w = 64 then uint64ViewUnmarshalText b
  else if w = 256 then uint256ViewUnmarshalText b
  else .err

def uintMarshalText (w : Nat) (v : Nat) : Text :=
  if w = 256 then uint256ViewMarshalText v else uintViewMarshalText v

/-! ## Part B.3  conv/bytes.go -/

/-- `conv.BytesMarshalText` (= `RootView/SmallByteVecView/tree.Root.MarshalText`) -/
def bytesMarshalText (b : Bytes) : Res Text :=
  match hexEncodeInto (2 * b.length) b with      -- hex.Encode(res[2:], b), len(res) = 2 + 2*len(b)
  | .ok t => .ok (0x30 :: 0x78 :: t)
  | .err => .err
  | .panic => .panic

/-- the optional "0x"/"0X" prefix removal of Fixed/DynamicBytesUnmarshalText -/
def stripHexPrefix (text : Text) : Text :=
  match text with
  | c0 :: c1 :: t => if c0 = 0x30 ∧ (c1 = 0x78 ∨ c1 = 0x58) then t else text
  | _ => text

/-- `conv.FixedBytesUnmarshalText(dst, text)` with `len(dst) = dstLen`; `ok` = final `dst` -/
def fixedBytesUnmarshalText (dstLen : Nat) (text : Text) : Res Bytes :=
  let text := stripHexPrefix text
  if text.length ≠ 2 * dstLen then .err
  else hexDecode dstLen text

/-- `conv.DynamicBytesUnmarshalText(dst, text)`; `ok` = final `*dst` -/
def dynamicBytesUnmarshalText (text : Text) : Res Bytes :=
  let text := stripHexPrefix text
  let size := text.length / 2
  hexDecode size text

/-! ## Part C  specification vocabulary (independent of the parsers above) -/

/-- value of a digit character: '0'–'9', 'a'–'z', 'A'–'Z' -/
def charVal (c : UInt8) : Option Nat :=
  let n := c.toNat
  if 48 ≤ n ∧ n ≤ 57 then some (n - 48)
  else if 97 ≤ n ∧ n ≤ 122 then some (n - 87)
  else if 65 ≤ n ∧ n ≤ 90 then some (n - 55)
  else none

/-- `c` is a digit of the given base -/
def isDig (base : Nat) (c : UInt8) : Bool :=
  match charVal c with
  | some d => decide (d < base)
  | none => false

/-- the grammar `{ [ "_" ] digit }` of the Go specification -/
def sepTail (base : Nat) : Text → Bool
  | [] => true
  | [c] => isDig base c
  | c :: d :: r =>
    if c = 0x5f then isDig base d && sepTail base r
    else isDig base c && sepTail base (d :: r)

/-- value of a digit string, underscores ignored (`acc` = value of the digits to the left) -/
def digitsVal (base : Nat) (acc : Nat) : Text → Nat
  | [] => acc
  | c :: rest =>
    if c = 0x5f then digitsVal base acc rest
    else digitsVal base (acc * base + (charVal c).getD 0) rest

/-- `"0" ( "b" | "B" ) [ "_" ] binary_digits` etc.: the part after the two-character prefix -/
def prefixedLit (base : Nat) (body : Text) : Option Nat :=
  if body ≠ [] ∧ sepTail base body = true then some (digitsVal base 0 body) else none

/-- Denotation of a Go integer literal (The Go Programming Language Specification, "Integer
literals"), which is what `strconv.ParseUint(_, 0, _)` and `big.Int.SetString(_, 0)` document
as their base-0 input language:
```
decimal_lit = "0" | ( "1" … "9" ) [ [ "_" ] decimal_digits ] .
binary_lit  = "0" ( "b" | "B" ) [ "_" ] binary_digits .
octal_lit   = "0" [ "o" | "O" ] [ "_" ] octal_digits .
hex_lit     = "0" ( "x" | "X" ) [ "_" ] hex_digits .
X_digits    = X_digit { [ "_" ] X_digit } .
```
-/
def denotes (s : Text) : Option Nat :=
  match s with
  | [] => none
  | c0 :: t =>
    if c0 = 0x30 then
      match t with
      | c1 :: body =>
        if c1 = 0x62 ∨ c1 = 0x42 then prefixedLit 2 body
        else if c1 = 0x6f ∨ c1 = 0x4f then prefixedLit 8 body
        else if c1 = 0x78 ∨ c1 = 0x58 then prefixedLit 16 body
        else if sepTail 8 t then some (digitsVal 8 0 t) else none     -- "0" [ "_" ] octal_digits
      | [] => some 0                                                  -- "0"
    else if isDig 10 c0 && sepTail 10 t then some (digitsVal 10 0 s) else none

/-- signed literal: optional '+' or '-' in front of an integer literal -/
def denotesInt (s : Text) : Option Int :=
  match s with
  | [] => none
  | c :: t =>
    if c = 0x2d then (denotes t).map fun n => -(n : Int)
    else if c = 0x2b then (denotes t).map fun n => (n : Int)
    else (denotes s).map fun n => (n : Int)

/-- `Unquoted s s'`: `s'` is `s` without the optional surrounding double quotes
(JSON string form); a text that opens a quote must close it. -/
def Unquoted (s s' : Text) : Prop :=
  s = 0x22 :: (s' ++ [0x22]) ∨ (s' = s ∧ s ≠ [] ∧ s.head? ≠ some 0x22)

/-- executable form of `Unquoted` (used by the driver's verdict) -/
def unquote (s : Text) : Option Text :=
  match s with
  | [] => none
  | c :: t =>
    if c = 0x22 then
      match t.reverse with
      | q :: m => if q = 0x22 then some m.reverse else none
      | [] => none
    else some s

/-- `s` without an optional leading "0x"/"0X" (specification side of `stripHexPrefix`) -/
def unprefix (s : Text) : Text :=
  match s with
  | 0x30 :: 0x78 :: t => t
  | 0x30 :: 0x58 :: t => t
  | _ => s

/-- bytes denoted by a text of hex digit pairs (`none` if odd length or a non-hex character) -/
def hexDenotes : Text → Option Bytes
  | [] => some []
  | [_] => none
  | p :: q :: rest =>
    match charVal p, charVal q, hexDenotes rest with
    | some a, some b, some bs => if a < 16 ∧ b < 16 then some (UInt8.ofNat (16 * a + b) :: bs) else none
    | _, _, _ => none

end ZtypV.Conv
