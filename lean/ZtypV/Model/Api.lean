/-
Model P, packages `view` and `codec`: public API that the other model files do not cover
(op family `api.*`, property family C02c).

  basic_list.go    ElementsPerBottomNode, BottomNodeLimit, TranslateIndex, CheckIndex
  basic_vector.go  ElementsPerBottomNode, BottomNodeLength, TranslateIndex
  bitlist.go       BottomNodeLimit, ByteBitIndex, CheckIndex
  bitvector.go     BottomNodeLength
  complex_list.go  CheckIndex
  container.go     TypeRepr, FieldValues
  union.go         TypeRepr (= String), Value
  every String() of a type definition                       -> `typeString`
  the As* casts (basic.go, u256.go, root.go, small_byte_vec.go and the eight complex view files)
  u256.go          Bytes32 / SetBytes32 (Model/BasicApi.lean `U256`), MustUint256
  codec/decoder.go ReadUint32 (called directly), Skip  (on top of Model/IO.lean)

Conventions
* The accessors compute in Go `uint64`: modelled on `UInt64`, wrap-around included; `32 / size`
  with `size = 0` is Go's integer-divide-by-zero panic (`none`).
* `ElementType()`, `Limit()`, `Length()` return the constructor arguments unchanged; the element
  type's observable facts are `Sizes.sizeInfo` of the element type.
* A view is a type plus its backing node (as in Model/View.lean); the dynamic Go type behind the
  `View` interface is `Kind`, a function of the type alone (`kindOf`): that is what the `As*`
  type assertions look at.
* `Skip`: `dr.input` is always the `*io.LimitedReader` made by `NewDecodingReader`/`SubScope`,
  which is not an `io.Seeker`: the `io.CopyN(ioutil.Discard, …)` arm is the only reachable one.
  `io.CopyN` = `io.Copy(Discard, LimitReader(src, n))` = `discard.ReadFrom`: `Read` calls with an
  8192 byte buffer until an error; `io.EOF` ends the copy without error.
Core Lean only.
-/
import ZtypV.Model.Sizes
import ZtypV.Model.Iter
import ZtypV.Model.BasicApi
import ZtypV.Model.Conv
import ZtypV.Model.IO
namespace ZtypV.Api
open ZtypV ZtypV.View

/-! ## type-definition accessors -/

/-- `ElementsPerBottomNode()`: `32 / td.ElemType.TypeByteLength()` (`none`: division by zero) -/
def elementsPerBottomNode (elemSize : UInt64) : Option UInt64 :=
  if elemSize = 0 then none else some (32 / elemSize)

/-- `BasicListTypeDef.BottomNodeLimit()` / `BasicVectorTypeDef.BottomNodeLength()`:
    `perNode := td.ElementsPerBottomNode(); return (td.ListLimit + perNode - 1) / perNode` -/
def bottomNodeLimit (limit elemSize : UInt64) : Option UInt64 :=
  match elementsPerBottomNode elemSize with
  | none => none
  | some perNode => if perNode = 0 then none else some ((limit + perNode - 1) / perNode)

/-- `TranslateIndex(index)`: `return index / perNode, uint8(index & (perNode - 1))` -/
def translateIndex (elemSize index : UInt64) : Option (UInt64 × UInt8) :=
  match elementsPerBottomNode elemSize with
  | none => none
  | some perNode =>
    if perNode = 0 then none else some (index / perNode, (index &&& (perNode - 1)).toUInt8)

/-- `BitListTypeDef.BottomNodeLimit()` / `BitVectorTypeDef.BottomNodeLength()`:
    `(td.BitLimit + 0xff) >> 8` -/
def bitBottomNodes (n : UInt64) : UInt64 := (n + 0xff) >>> 8

/-- `view.ByteBitIndex(v)`: three halving steps -/
def byteBitIndex (v : UInt8) : UInt64 :=
  let (out, v) := if v &&& 0xf0 ≠ 0 then ((4 : UInt64), v >>> 4) else (0, v)
  let (out, v) := if v &&& 0x0c ≠ 0 then (out ||| 2, v >>> 2) else (out, v)
  let (out, _) := if v &&& 0x02 ≠ 0 then (out ||| 1, v >>> 1) else (out, v)
  out

mutual
/-- `TypeDef.String()` of the type definition the harness builds for a `Ty` (`none`: panic —
    `UnionTypeDef.TypeRepr` calls `String()` on the nil option of a `Union[None, …]`).
    Containers are named "C"; `SmallByteVecMeta` is a `uint8`. -/
def typeString : Ty → Option String
  | .uint b => some s!"uint{(b * 8) % 2 ^ 64}"
  | .bool => some "bool"
  | .bytesN n => if n = 32 then some "Root" else some s!"Vector[byte, {n % 256}]"
  | .bitvector n => some s!"Bitvector[{n}]"
  | .bitlist n => some s!"Bitist[{n}]"
  | .vector e n => (typeString e).map fun s => s!"Vector[{s}, {n}]"
  | .list e n => (typeString e).map fun s => s!"List[{s}, {n}]"
  | .container _ => some "C"
  | .union hasNone opts =>
    if hasNone then none else (optionStrings opts).map fun s => "Union[" ++ s ++ "]"
/-- the loop of `UnionTypeDef.TypeRepr`: `f.String()`, then ", " -/
def optionStrings : List Ty → Option String
  | [] => some ""
  | t :: ts =>
    match typeString t with
    | none => none
    | some s => (optionStrings ts).map fun r => s ++ ", " ++ r
end

/-- the loop of `ContainerTypeDef.TypeRepr` from field number `i` (fields are named `f<i>`) -/
def fieldLines : List Ty → Nat → Option String
  | [], _ => some ""
  | t :: ts, i =>
    match typeString t with
    | none => none
    | some s => (fieldLines ts (i + 1)).map fun r => s!"    f{i}: {s}\n" ++ r

/-- `TypeRepr()` of a container / union type definition (`none`: panic) -/
def typeRepr : Ty → Option String
  | .container fs => (fieldLines fs 0).map fun r => "C(Container):" ++ r
  | .union hasNone opts => typeString (.union hasNone opts)
  | _ => none

/-! ## `CheckIndex` -/

/-- `BasicListView.CheckIndex(i)` = `BitListView.CheckIndex(i)` = `ComplexListView.CheckIndex(i)`
    (three identical bodies): `Length()`, then `i >= ll`, then `i >= limit` -/
def checkIndex (n : Node) (lim i : Nat) : R Unit := do
  let ll ← listLength n lim
  if i ≥ ll then .error .other
  else if i ≥ lim then .error .other
  else .ok ()

/-- harness: the list backing with its length node replaced (`Backing().Left()`, `NewPairNode`) -/
def tamperLength (n : Node) (ov : Nat) : R Node :=
  match n with
  | .pair l _ => .ok (.pair l (lengthNode ov))
  | .leaf _ => .error .nav

/-! ## `ContainerView.FieldValues` -/

/-- the loop of `FieldValues` over the `ReadonlyIter()`: the element views as (type, backing) -/
def fieldValuesLoop : Nat → Iter.AnyIt → R (List (Ty × Node))
  | 0, _ => .error .panic
  | fuel + 1, it =>
    match it.next with
    | (.err, _) => .error .other
    | (.done, _) => .ok []
    | (.node t n, it') => do
      let rest ← fieldValuesLoop fuel it'
      .ok ((t, n) :: rest)
    | (_, _) => .error .other

/-- `tv.FieldValues()` of a container view over backing `n` -/
def fieldValues (fs : List Ty) (n : Node) : R (List (Ty × Node)) :=
  fieldValuesLoop (fs.length + 1) (Iter.start (.container fs) n true)


/-! ## the remaining small public methods (`New()`, `BackedView`, basic `SetBacking`, `tree.Root` as a value) -/

/-- `td.New()` of every composite type definition: `td.Default(nil)` asserted to the view type -/
def newBacking (h : HashFn) (t : Ty) : R Node := defaultNode h t

/-- `BackedView.Copy()` and `BackedView.Default(hook)`: `TypeDef.ViewFromBacking(BackingNode, …)` —
    a view of the same type over the SAME node (nothing is copied; trees are immutable) -/
def backedCopy (t : Ty) (n : Node) : R Node :=
  if viewFromBackingOk t n then .ok n else .error .other

/-- `SetBacking` of the basic value views (`Uint8View` … `Uint256View`, `BoolView`): always the
    error `BasicViewNoSetBackingError`; the value (a Go value receiver) is untouched -/
def basicSetBacking (v : Val) (_b : Node) : Option Err × Val := (some .other, v)

/-- `tree.Root` used as a value: `ByteLength`, `ValueByteLength`, `HashTreeRoot`, `Serialize` -/
def rootByteLength : Nat := 32
def rootValueByteLength : R Nat := .ok 32
def rootHashTreeRoot (_h : HashFn) (r : Root) : Root := r
def rootSerialize (r : Root) : Bytes := r

/-! ## the `As*` casts -/

/-- dynamic Go type behind a `View` -/
inductive Kind where
  | u8 | u16 | u32 | u64 | u256 | bool
  | root                 -- `*RootView`
  | small (len : Nat)    -- `SmallByteVecView` of that length
  | blist | bvec | clist | cvec | container | union | bitlist | bitvec
  deriving DecidableEq, Repr, Inhabited

/-- the view `ViewFromBacking` / the constructors of the type definition of `t` produce
    (`none`: `UintMeta` of an unsupported size has no view) -/
def kindOf : Ty → Option Kind
  | .uint b =>
    if b = 1 then some .u8 else if b = 2 then some .u16 else if b = 4 then some .u32
    else if b = 8 then some .u64 else if b = 32 then some .u256 else none
  | .bool => some .bool
  | .bytesN n => if n = 32 then some .root else some (.small n)
  | .bitvector _ => some .bitvec
  | .bitlist _ => some .bitlist
  | .vector e _ => if isBasicElem e then some .bvec else some .cvec
  | .list e _ => if isBasicElem e then some .blist else some .clist
  | .container _ => some .container
  | .union _ _ => some .union

/-- the cast functions in the order of harness `apiCasts` -/
inductive Cast where
  | u8 | byte | u16 | u32 | u64 | u256 | bool | root | small | b4 | b8 | b16
  | blist | bvec | clist | cvec | container | union | bitlist | bitvec
  deriving DecidableEq, Repr, Inhabited

def Cast.all : List Cast :=
  [.u8, .byte, .u16, .u32, .u64, .u256, .bool, .root, .small, .b4, .b8, .b16,
   .blist, .bvec, .clist, .cvec, .container, .union, .bitlist, .bitvec]

/-- `AsBytesN`: `AsSmallByteVec`, then `len(data) != byteLen` -/
def asBytesN (byteLen : Nat) : Kind → Bool
  | .small len => len = byteLen
  | _ => false

/-- does the type assertion of the cast succeed on a (non-nil) view of this dynamic type?
    One arm per Go function; `AsByte` forwards to `AsUint8`. -/
def Cast.accepts : Cast → Kind → Bool
  | .u8, k => k = .u8
  | .byte, k => k = .u8            -- `return AsUint8(v, err)`
  | .u16, k => k = .u16
  | .u32, k => k = .u32
  | .u64, k => k = .u64
  | .u256, k => k = .u256
  | .bool, k => k = .bool
  | .root, k => k = .root
  | .small, k => match k with | .small _ => true | _ => false
  | .b4, k => asBytesN 4 k
  | .b8, k => asBytesN 8 k
  | .b16, k => asBytesN 16 k
  | .blist, k => k = .blist
  | .bvec, k => k = .bvec
  | .clist, k => k = .clist
  | .cvec, k => k = .cvec
  | .container, k => k = .container
  | .union, k => k = .union
  | .bitlist, k => k = .bitlist
  | .bitvec, k => k = .bitvec

/-- specification side: the SSZ types a cast is for.  Basic series = series of basic elements in
    the SSZ sense (`Ty.isBasic`).  Byte vectors: the harness builds `B 32` as `RootType` and every
    other length as `SmallByteVecMeta`. -/
def Cast.isFor : Cast → Ty → Bool
  | .u8, .uint b | .byte, .uint b => b == 1
  | .u16, .uint b => b == 2
  | .u32, .uint b => b == 4
  | .u64, .uint b => b == 8
  | .u256, .uint b => b == 32
  | .bool, .bool => true
  | .root, .bytesN n => n == 32
  | .small, .bytesN n => n != 32
  | .b4, .bytesN n => n == 4
  | .b8, .bytesN n => n == 8
  | .b16, .bytesN n => n == 16
  | .blist, .list e _ => e.isBasic
  | .clist, .list e _ => !e.isBasic
  | .bvec, .vector e _ => e.isBasic
  | .cvec, .vector e _ => !e.isBasic
  | .container, .container _ => true
  | .union, .union _ _ => true
  | .bitlist, .bitlist _ => true
  | .bitvec, .bitvector _ => true
  | _, _ => false

/-- what a cast is handed: `(v, err)` -/
inductive Incoming where
  | err                          -- a non-nil error (the view is ignored)
  | nil                          -- `(nil, nil)`: `Value()` of the None option
  | view (t : Ty) (n : Node)
  deriving Inhabited

/-- `AsX(v, err)`: the incoming error is passed through; a nil view fails every type assertion;
    result = the view itself (`some (t, n)`) or an error (`none`) -/
def Cast.apply (c : Cast) : Incoming → Option (Ty × Node)
  | .err => none
  | .nil => none
  | .view t n =>
    match kindOf t with
    | none => none
    | some k => if c.accepts k then some (t, n) else none

/-- `UnionView.Value()`: `(nil, nil)` for the None option -/
def unionValue (hasNone : Bool) (opts : List Ty) (n : Node) : R (Option (Ty × Node)) := do
  let sn ← getNode n [true]
  let r ← asLeaf sn
  if (r.drop 1).any (· != 0) then .error .other
  else
    let sel := (r.getD 0 0).toNat
    if sel ≥ opts.length + (if hasNone then 1 else 0) then .error .other
    else do
      let c ← getNode n [false]
      if hasNone && sel == 0 then .ok none
      else
        match opts[if hasNone then sel - 1 else sel]? with
        | some t => if viewFromBackingOk t c then .ok (some (t, c)) else .error .other
        | none => .error .panic

/-- the harness selectors -/
inductive Sel where
  | self            -- the view itself, nil error
  | get (i : Nat)   -- `Get(i)`
  | value           -- `Value()`
  | errIn           -- `(nil, error)`
  deriving Repr, Inhabited

/-- a successful result of `ViewFromBacking` of an element type is a view only if the type has one -/
def asIncoming (r : R (Option (Ty × Node))) : R Incoming :=
  match r with
  | .error .panic => .error .panic
  | .error _ => .ok .err
  | .ok none => .ok .nil
  | .ok (some (t, n)) => if (kindOf t).isSome then .ok (.view t n) else .ok .err

/-- evaluate a selector on a view (`.error`: only `.panic` is produced) -/
def select (t : Ty) (n : Node) : Sel → R Incoming
  | .self => .ok (.view t n)
  | .errIn => .ok .err
  | .get i =>
    asIncoming (do
      let (et, en) ← getElemNode t n i
      if viewFromBackingOk et en then .ok (some (et, en)) else .error .other)
  | .value =>
    match t with
    | .union hasNone opts => asIncoming (unionValue hasNone opts n)
    | _ => .ok .err

/-! ## `Uint256View`: `MustUint256` (`Bytes32`/`SetBytes32` are `BasicApi.U256.bytes32/setBytes32`) -/

/-- `MustUint256(v)`: `UnmarshalText`, panic on error (`none`) -/
def mustUint256 (text : Conv.Text) : Option Nat :=
  match Conv.uint256ViewUnmarshalText text with
  | .ok v => some v
  | _ => none

/-! ## codec: `ReadUint32` called directly, `Skip` -/

open CodecIO

/-- outcome of `io.Copy` / `io.CopyN` into `ioutil.Discard` -/
inductive CopyRes where
  | done (n : Nat) (err : Option IOErr)
  | spin                                   -- fuel exhausted: the reader keeps returning (0, nil)
  deriving Repr, DecidableEq, Inhabited

/-- `discard.ReadFrom(r)`: `for { readSize, err = r.Read(buf[8192]); n += readSize; if err != nil { if err == EOF { return n, nil }; return } }` -/
def discardReadFrom : Nat → Rd → Nat → CopyRes × Rd
  | 0, r, _ => (.spin, r)
  | fuel + 1, r, n =>
    let c := r.read 8192
    let n' := n + c.1.length
    match c.2.1 with
    | some e => (.done n' (if e = .eof then none else some e), c.2.2)
    | none => discardReadFrom fuel c.2.2 n'

/-- `io.CopyN(ioutil.Discard, src, n)`; the returned reader is `src` after the copy
    (the temporary `LimitedReader` is dropped) -/
def copyN (fuel : Nat) (src : Rd) (n : Int) : CopyRes × Rd :=
  let r := discardReadFrom fuel (.limit n src) 0
  let src' := match r.2 with
    | .limit _ inner => inner
    | other => other
  match r.1 with
  | .spin => (.spin, src')
  | .done written err =>
    if (written : Int) = n then (.done written none, src')
    else if (written : Int) < n ∧ err = none then (.done written (some .eof), src')
    else (.done written err, src')

/-- result of `Skip`: the `int` and the error -/
inductive SkipRes where
  | ok (n : Int)
  | err (e : IOErr) (n : Int)
  | spin
  deriving Repr, DecidableEq, Inhabited

/-- `DecodingReader.Skip(count)`.  `checkedIndexUpdate` returns `0` with the overflow error and
    `int(dr.i)` with the beyond-scope error; then the `io.CopyN` arm.  Fuel: every legal call
    delivers at least one of the outstanding bytes or ends the copy. -/
def skip (dr : CodecIO.DR) (count : UInt64) : SkipRes × CodecIO.DR :=
  if ~~~(0 : UInt64) - dr.i < count then (.err .scope 0, dr)
  else if dr.i + count > dr.max then (.err .scope (toInt64 dr.i), dr)
  else
    let dr1 : CodecIO.DR := { dr with i := dr.i + count }
    let r := copyN (dr1.input.avail.length + 2) dr1.input (toInt64 count)
    let dr2 : CodecIO.DR := { dr1 with input := r.2 }
    match r.1 with
    | .spin => (.spin, dr2)
    | .done n none => (.ok n, dr2)
    | .done n (some e) => (.err e n, dr2)

/-- the requests of `api.read`: those of `io.read` plus the two new ones -/
inductive Req2 where
  | base (q : Req)
  | u32                     -- `ReadUint32()` called directly (`Req.uintN 4` is `ReadOffset()`)
  | skip (count : UInt64)
  deriving Repr, Inhabited

inductive Obs2 where
  | base (o : Obs)
  | skipped (n : Int)
  deriving Repr, DecidableEq, Inhabited

/-- why a run stopped: the `int` next to a `Skip` error is observable -/
inductive Stop2 where
  | stop (s : Stop)
  | skipErr (e : IOErr) (n : Int)
  deriving Repr, DecidableEq, Inhabited

/-- a step of `io.read` as a step of `api.read` -/
def liftBase : Except Stop (Obs × Dec) → Except Stop2 (Obs2 × Dec)
  | .ok (o, d') => .ok (.base o, d')
  | .error s => .error (.stop s)

/-- the outcome of `Skip` on the current reader -/
def skipOut (d : Dec) (r : SkipRes × CodecIO.DR) : Except Stop2 (Obs2 × Dec) :=
  match r.1 with
  | .ok n => .ok (.skipped n, { d with cur := r.2 })
  | .err e n => .error (.skipErr e n)
  | .spin => .error (.stop .spin)

def step2 (d : Dec) : Req2 → Except Stop2 (Obs2 × Dec)
  | .base q => liftBase (d.step q)
  | .u32 => liftBase (d.step (.uintN 4))   -- `ReadOffset()` is `return dr.ReadUint32()`: the same body
  | .skip count => skipOut d (skip d.cur count)

def run2 : Dec → List Req2 → List Obs2 × Option Stop2
  | _, [] => ([], none)
  | d, q :: qs =>
    match step2 d q with
    | .error s => ([], some s)
    | .ok (o, d') =>
      let r := run2 d' qs
      (o :: r.1, r.2)

/-! ### the flat answer -/

/-- skipping `count` bytes inside one scope: refused beyond the scope (`scopeUpdate`) or when
    fewer than `count` bytes can arrive; the frame with the advanced index -/
def skipFrame (f : SFrame) (count : UInt64) : Option SFrame :=
  if count.toNat ≤ f.avail.length then
    (scopeUpdate f.i f.max count).map fun v => { f with i := v }
  else none

/-- skipping `count` bytes of the current scope; the returned count is `count` -/
def specSkip (fs : List SFrame) (count : UInt64) : Option (Int × List SFrame) :=
  match fs with
  | [] => none
  | f :: ps =>
    (skipFrame f count).map fun f' => ((count.toNat : Int), (f' :: ps).map (SFrame.adv count.toNat))

def specStep2 (fs : List SFrame) : Req2 → Option (Obs2 × List SFrame)
  | .base q => (specStep fs q).map fun r => (.base r.1, r.2)
  | .u32 => (specStep fs (.uintN 4)).map fun r => (.base r.1, r.2)
  | .skip count => (specSkip fs count).map fun r => (.skipped r.1, r.2)

def specRun2 : List SFrame → List Req2 → List Obs2 × Bool
  | _, [] => ([], false)
  | fs, q :: qs =>
    match specStep2 fs q with
    | none => ([], true)
    | some (o, fs') =>
      let r := specRun2 fs' qs
      (o :: r.1, r.2)

end ZtypV.Api
