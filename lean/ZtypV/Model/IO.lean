/-
Model of the codec I/O layer (package `codec`, files decoder.go / encoder.go) for property C13.

Bottom of the stack: an `io.Reader` given as a *delivery schedule* (`ReaderState`): the bytes
that will still be delivered, a cyclic list of chunk sizes and an end mode.  On top of it
`io.LimitReader` (`Rd.limit`), `DecodingReader` (`DR`: the Go struct fields `input`, `i`, `max`),
its `Read` fill loop (`fill`), `SubScope`, the typed reads, and a small request language
(`Req`, `Dec.step`, `Dec.run`) — what a decoder does with a `DecodingReader`.
`SFrame`/`specStep`/`specRun` is the flat-byte-list answer (no reader, no chunks, no end mode);
`Proofs/IO.lean` proves `Dec.run = specRun ∘ abs` for every legal schedule.

Writer side: `WriterState`/`writeCall` is an `io.Writer` that fails at a byte position and may
accept only `cap` bytes per call; `EW` is `EncodingWriter` (`w`, `n`), `ewLoop` its `Write` loop.

One Lean function per Go function; loops are structural on a fuel argument that the callers set
to the number of outstanding bytes: every *legal* call delivers (accepts) at least one byte or
reports an error, so the fuel never runs out (outcome `spin` = Go would call again; proved
unreachable for legal readers and for every writer of the model).

Legal schedules (`ReaderState.legal`): every chunk size is ≥ 1.  A chunk size 0 is a call that
returns `(0, nil)`; readers doing this forever are excluded by the `io.Reader` contract, and the
model excludes the entry 0 altogether (the driver rejects such schedules as malformed).

Not modelled: the `int` count returned next to the error by `Read` (callers in the library ignore
it), `Skip` (seeks / `io.CopyN`; not part of C13), the scratch buffer (typed reads return the value
only on success; on error Go returns stale scratch content *together with* the error).
-/
import ZtypV.Basic
namespace ZtypV.CodecIO

/-- error classes that matter to the Go code: it compares with `io.EOF` only -/
inductive IOErr where
  | eof      -- io.EOF
  | fault    -- any other error of the underlying stream / writer
  | scope    -- DecodingReader's own fmt.Errorf (overflow / beyond scope / sub-scope too big)
  | short    -- io.ErrShortWrite-like error of a writer that accepted fewer bytes than offered
  deriving Repr, DecidableEq, Inhabited

/-! ## io.Reader as a delivery schedule -/

inductive EndMode where
  | eofSeparate   -- after the last byte: a further call returns (0, EOF)
  | eofWithData   -- the call delivering the last byte returns (n, EOF); later calls (0, EOF)
  | fail          -- after the last deliverable byte every call returns (0, fault)
  deriving Repr, DecidableEq, Inhabited

structure ReaderState where
  data : Bytes          -- bytes still to be delivered (stream truncated at the end/failure position)
  chunks : List Nat     -- rest of the current pass over the chunk sizes
  cycle : List Nat      -- the whole chunk-size list (restarted when `chunks` is used up); [] = "everything asked"
  endm : EndMode
  deriving Repr, Inhabited

/-- every chunk size ≥ 1 (no `(0, nil)` calls) -/
def ReaderState.legal (st : ReaderState) : Prop :=
  (∀ c ∈ st.chunks, 1 ≤ c) ∧ (∀ c ∈ st.cycle, 1 ≤ c)

instance (st : ReaderState) : Decidable st.legal :=
  inferInstanceAs (Decidable ((∀ c ∈ st.chunks, 1 ≤ c) ∧ (∀ c ∈ st.cycle, 1 ≤ c)))

/-- the reader built from a byte string, a chunk list, an end mode and the end/failure position `k` -/
def mkReader (bs : Bytes) (cycle : List Nat) (endm : EndMode) (k : Nat) : ReaderState :=
  { data := bs.take k, chunks := [], cycle := cycle, endm := endm }

/-- a plain in-memory reader (`bytes.Reader`): delivers everything asked, EOF on a separate call -/
def flatReader (bs : Bytes) : ReaderState :=
  { data := bs, chunks := [], cycle := [], endm := .eofSeparate }

/-- size of the next chunk and the remaining pass -/
def nextChunk (st : ReaderState) (want : Nat) : Nat × List Nat :=
  match st.chunks with
  | c :: r => (c, r)
  | [] =>
    match st.cycle with
    | c :: r => (c, r)
    | [] => (want, [])

def endErr : EndMode → IOErr
  | .fail => .fault
  | _ => .eof

/-- one `Read(p)` call with `len(p) = want` on the scheduled reader: (bytes put into `p`, err, new state) -/
def readCall (st : ReaderState) (want : Nat) : Bytes × Option IOErr × ReaderState :=
  if want = 0 then ([], none, st)
  else if st.data.isEmpty then ([], some (endErr st.endm), st)
  else
    let cr := nextChunk st want
    let d := min cr.1 (min want st.data.length)
    let rest := st.data.drop d
    (st.data.take d,
     if rest = [] ∧ st.endm = .eofWithData then some .eof else none,
     { st with data := rest, chunks := cr.2 })

/-! ## io.LimitReader stacks -/

/-- a reader stack: the scheduled reader wrapped in `io.LimitedReader`s (`N` is an `int64`) -/
inductive Rd where
  | base (st : ReaderState)
  | limit (n : Int) (inner : Rd)
  deriving Repr, Inhabited

/-- Go `int64(x)` for `x : uint64` -/
def toInt64 (x : UInt64) : Int :=
  if x.toNat < 2 ^ 63 then (x.toNat : Int) else (x.toNat : Int) - 2 ^ 64

/-- `(*io.LimitedReader).Read` / the scheduled reader's `Read` -/
def Rd.read : Rd → Nat → Bytes × Option IOErr × Rd
  | .base st, want =>
    let r := readCall st want
    (r.1, r.2.1, .base r.2.2)
  | .limit n inner, want =>
    if n ≤ 0 then ([], some .eof, .limit n inner)
    else
      let want' := if n < (want : Int) then n.toNat else want
      let r := inner.read want'
      (r.1, r.2.1, .limit (n - (r.1.length : Int)) r.2.2)

def Rd.legal : Rd → Prop
  | .base st => st.legal
  | .limit _ r => r.legal

instance Rd.decLegal : (r : Rd) → Decidable r.legal
  | .base st => inferInstanceAs (Decidable st.legal)
  | .limit _ r => Rd.decLegal r

/-- bytes that can still arrive through the whole stack -/
def Rd.avail : Rd → Bytes
  | .base st => st.data
  | .limit n r => r.avail.take n.toNat

/-- the same, per limiter, outermost first -/
def Rd.avails : Rd → List Bytes
  | .base _ => []
  | .limit n r => (Rd.limit n r).avail :: r.avails

/-! ## DecodingReader -/

inductive FillRes where
  | ok (bs : Bytes)                 -- `p` completely filled, nil error
  | err (e : IOErr) (got : Bytes)   -- error returned; `got` = the part of `p` filled so far
  | spin                            -- fuel exhausted: the reader keeps returning (0, nil)
  deriving Repr, DecidableEq, Inhabited

/-- the fill loop of `DecodingReader.Read`:
    `for n < len(p) { v, err := input.Read(p[n:]); n += v; if err != nil { if err == EOF && n == len(p) { return n, nil }; return n, err } }`
    `need = len(p) - n`, `acc = p[:n]` -/
def fill : Nat → Rd → Nat → Bytes → FillRes × Rd
  | 0, r, need, acc => if need = 0 then (.ok acc, r) else (.spin, r)
  | fuel + 1, r, need, acc =>
    if need = 0 then (.ok acc, r)
    else
      let c := r.read need
      let acc' := acc ++ c.1
      match c.2.1 with
      | some e =>
        if e = .eof ∧ c.1.length = need then (.ok acc', c.2.2) else (.err e acc', c.2.2)
      | none => fill fuel c.2.2 (need - c.1.length) acc'

structure DR where
  input : Rd
  i : UInt64
  max : UInt64
  deriving Repr, Inhabited

/-- `NewDecodingReader(input, scope)` -/
def newDecodingReader (st : ReaderState) (scope : UInt64) : DR :=
  { input := .limit (toInt64 scope) (.base st), i := 0, max := scope }

/-- `Scope() = Max() - Index()` (wraps) -/
def DR.scope (dr : DR) : UInt64 := dr.max - dr.i

/-- the scope arithmetic of `hasScope` / `checkedIndexUpdate` on its own: the new index, or none = error -/
def scopeUpdate (i max x : UInt64) : Option UInt64 :=
  if ~~~(0 : UInt64) - i < x then none
  else if i + x > max then none
  else some (i + x)

/-- `checkedIndexUpdate(x)`: `if ^uint64(0)-dr.i < x {err}; v := dr.i + x; if v > dr.max {err}; dr.i = v` -/
def DR.checkedIndexUpdate (dr : DR) (x : UInt64) : Except IOErr DR :=
  if ~~~(0 : UInt64) - dr.i < x then .error .scope
  else if dr.i + x > dr.max then .error .scope
  else .ok { dr with i := dr.i + x }

/-- `hasScope(x)` -/
def DR.hasScope (dr : DR) (x : UInt64) : Option IOErr :=
  if ~~~(0 : UInt64) - dr.i < x then some .scope
  else if dr.i + x > dr.max then some .scope
  else none

/-- `SubScope(count)` -/
def DR.subScope (dr : DR) (count : UInt64) : Except IOErr DR :=
  if dr.scope < count then .error .scope
  else .ok { input := .limit (toInt64 count) dr.input, i := 0, max := count }

/-- `UpdateIndexFromScoped(other)` -/
def DR.updateIndexFromScoped (dr other : DR) : DR := { dr with i := dr.i + other.i }

/-- `Read(p)` with `len(p) = n` -/
def DR.read (dr : DR) (n : Nat) : FillRes × DR :=
  if n = 0 then (.ok [], dr)
  else
    match dr.checkedIndexUpdate (UInt64.ofNat n) with
    | .error e => (.err e [], dr)
    | .ok dr1 =>
      let r := fill n dr1.input n []
      (r.1, { dr1 with input := r.2 })

/-- why a decoder run stopped -/
inductive Stop where
  | err (e : IOErr)
  | spin
  deriving Repr, DecidableEq, Inhabited

def FillRes.toExcept : FillRes → Except Stop Bytes
  | .ok bs => .ok bs
  | .err e _ => .error (.err e)
  | .spin => .error .spin

/-- the value of a successful `Read`, none for an error -/
def FillRes.val? : FillRes → Option Bytes
  | .ok bs => some bs
  | _ => none

/-- a plain sequence of `Read`s of the given sizes, stopping at the first error -/
def DR.reads : DR → List Nat → List Bytes × Option Stop
  | _, [] => ([], none)
  | dr, n :: ns =>
    match dr.read n with
    | (.ok bs, dr') =>
      let r := DR.reads dr' ns
      (bs :: r.1, r.2)
    | (.err e _, _) => ([], some (.err e))
    | (.spin, _) => ([], some .spin)

/-- `ReadByte` / `ReadUint16` / `ReadUint32` / `ReadUint64` / `ReadOffset`: `Read(scratch[0:k])`, then little endian -/
def DR.readUintN (dr : DR) (k : Nat) : Except Stop Nat × DR :=
  let r := dr.read k
  (r.1.toExcept.map leNat, r.2)

def DR.readByte (dr : DR) := dr.readUintN 1
def DR.readUint16 (dr : DR) := dr.readUintN 2
def DR.readUint32 (dr : DR) := dr.readUintN 4
def DR.readUint64 (dr : DR) := dr.readUintN 8
def DR.readOffset (dr : DR) := dr.readUint32

/-! ## what a decoder does: a sequence of requests on the current scope -/

inductive Req where
  | read (n : Nat)         -- Read(p), len(p) = n
  | uintN (k : Nat)        -- k = 1,2,4,8: ReadByte / ReadUint16 / ReadUint32 (ReadOffset) / ReadUint64
  | sub (count : UInt64)   -- sub := dr.SubScope(count); continue on sub
  | up                     -- return to the parent (as Container/List/Vector do: parent index untouched)
  | upUpdate               -- return to the parent after parent.UpdateIndexFromScoped(sub)
  | index                  -- observe Index() and Max()
  deriving Repr, Inhabited

inductive Obs where
  | bytes (bs : Bytes)
  | num (n : Nat)
  | sub
  | up
  | index (i max : UInt64)
  deriving Repr, DecidableEq, Inhabited

/-- current `DecodingReader` plus the `(i, max)` of the enclosing ones (their `input` is the inner
    part of the current reader stack: Go shares the `*LimitedReader` pointers) -/
structure Dec where
  cur : DR
  parents : List (UInt64 × UInt64)
  deriving Repr, Inhabited

def Dec.new (st : ReaderState) (scope : UInt64) : Dec := { cur := newDecodingReader st scope, parents := [] }

def Dec.step (d : Dec) : Req → Except Stop (Obs × Dec)
  | .read n =>
    let r := d.cur.read n
    match r.1.toExcept with
    | .ok bs => .ok (.bytes bs, { d with cur := r.2 })
    | .error s => .error s
  | .uintN k =>
    let r := d.cur.readUintN k
    match r.1 with
    | .ok v => .ok (.num v, { d with cur := r.2 })
    | .error s => .error s
  | .sub count =>
    match d.cur.subScope count with
    | .error e => .error (.err e)
    | .ok s => .ok (.sub, { cur := s, parents := (d.cur.i, d.cur.max) :: d.parents })
  | .up =>
    match d.cur.input, d.parents with
    | .limit _ inner, p :: ps => .ok (.up, { cur := { input := inner, i := p.1, max := p.2 }, parents := ps })
    | _, _ => .ok (.up, d)
  | .upUpdate =>
    match d.cur.input, d.parents with
    | .limit _ inner, p :: ps =>
      .ok (.up, { cur := DR.updateIndexFromScoped { input := inner, i := p.1, max := p.2 } d.cur, parents := ps })
    | _, _ => .ok (.up, d)
  | .index => .ok (.index d.cur.i d.cur.max, d)

/-- run requests in order; stop at the first failing one -/
def Dec.run : Dec → List Req → List Obs × Option Stop
  | _, [] => ([], none)
  | d, q :: qs =>
    match d.step q with
    | .error s => ([], some s)
    | .ok (o, d') =>
      let r := Dec.run d' qs
      (o :: r.1, r.2)

/-- an *adaptive* decoder: the next request is computed from the observations so far (offsets read
    decide the sub-scopes opened next, …); `none` = finished.  `fuel` bounds the number of requests. -/
def Dec.runAdaptive (next : List Obs → Option Req) : Nat → Dec → List Obs → List Obs × Option Stop
  | 0, _, os => (os, none)
  | fuel + 1, d, os =>
    match next os with
    | none => (os, none)
    | some q =>
      match d.step q with
      | .error s => (os, some s)
      | .ok (o, d') => Dec.runAdaptive next fuel d' (os ++ [o])

/-! ## the flat answer: same requests on a byte list -/

/-- a scope as the specification sees it: index, bound, and the bytes that can still arrive in it -/
structure SFrame where
  i : UInt64
  max : UInt64
  avail : Bytes
  deriving Repr, DecidableEq, Inhabited

def SFrame.adv (d : Nat) (f : SFrame) : SFrame := { f with avail := f.avail.drop d }

def specNew (bs : Bytes) (scope : UInt64) : List SFrame :=
  [{ i := 0, max := scope, avail := bs.take (toInt64 scope).toNat }]

/-- read `n` bytes in the current scope: error beyond the scope or when fewer than `n` bytes can arrive -/
def specRead (fs : List SFrame) (n : Nat) : Option (Bytes × List SFrame) :=
  match fs with
  | [] => none
  | f :: ps =>
    if n = 0 then some ([], fs)
    else
      match scopeUpdate f.i f.max (UInt64.ofNat n) with
      | none => none
      | some v =>
        if n ≤ f.avail.length then
          some (f.avail.take n, ({ f with i := v } :: ps).map (SFrame.adv n))
        else none

def specStep (fs : List SFrame) : Req → Option (Obs × List SFrame)
  | .read n => (specRead fs n).map fun r => (.bytes r.1, r.2)
  | .uintN k => (specRead fs k).map fun r => (.num (leNat r.1), r.2)
  | .sub count =>
    match fs with
    | [] => none
    | f :: ps =>
      if f.max - f.i < count then none
      else some (.sub, { i := 0, max := count, avail := f.avail.take (toInt64 count).toNat } :: f :: ps)
  | .up =>
    match fs with
    | _ :: p :: ps => some (.up, p :: ps)
    | _ => some (.up, fs)
  | .upUpdate =>
    match fs with
    | f :: p :: ps => some (.up, { p with i := p.i + f.i } :: ps)
    | _ => some (.up, fs)
  | .index =>
    match fs with
    | [] => none
    | f :: _ => some (.index f.i f.max, fs)

/-- observations, and whether the run stopped with an error -/
def specRun : List SFrame → List Req → List Obs × Bool
  | _, [] => ([], false)
  | fs, q :: qs =>
    match specStep fs q with
    | none => ([], true)
    | some (o, fs') =>
      let r := specRun fs' qs
      (o :: r.1, r.2)

/-- the adaptive decoder on the flat specification -/
def specRunAdaptive (next : List Obs → Option Req) : Nat → List SFrame → List Obs → List Obs × Bool
  | 0, _, os => (os, false)
  | fuel + 1, fs, os =>
    match next os with
    | none => (os, false)
    | some q =>
      match specStep fs q with
      | none => (os, true)
      | some (o, fs') => specRunAdaptive next fuel fs' (os ++ [o])

/-- plain sequence of `Read`s of the given sizes on a flat byte list, indices as naturals -/
def specReads (avail : Bytes) (i max : Nat) : List Nat → List Bytes × Bool
  | [] => ([], false)
  | n :: ns =>
    if n = 0 then
      let r := specReads avail i max ns
      ([] :: r.1, r.2)
    else if i + n ≤ max ∧ n ≤ avail.length then
      let r := specReads (avail.drop n) (i + n) max ns
      (avail.take n :: r.1, r.2)
    else ([], true)

/-- abstraction: the frames of a decoder state -/
def zipFrames : List (UInt64 × UInt64) → List Bytes → List SFrame
  | p :: ps, a :: as => { i := p.1, max := p.2, avail := a } :: zipFrames ps as
  | _, _ => []

def Dec.abs (d : Dec) : List SFrame :=
  zipFrames ((d.cur.i, d.cur.max) :: d.parents) d.cur.input.avails

/-- structural invariant: one limiter per open scope -/
def Dec.wf (d : Dec) : Prop := d.cur.input.avails.length = d.parents.length + 1 ∧ d.cur.input.legal

/-! ## io.Writer that fails at a byte position, optionally with short writes -/

structure WriterState where
  acc : Bytes              -- everything accepted so far
  failAt : Option Nat      -- total number of bytes the writer accepts before failing (none: never fails)
  cap : Nat                -- at most `cap` bytes per call (0: no per-call limit)
  lenient : Bool           -- a `cap`-short write reports a nil error (contract violation the Go loop tolerates)
  deriving Repr, DecidableEq, Inhabited

def WriterState.room (w : WriterState) (len : Nat) : Nat :=
  match w.failAt with
  | none => len
  | some k => k - w.acc.length

/-- one `Write(p)` call: (d accepted, err, new state).  `d < len(p)` comes with a non-nil error
    (fault at the failure position, `short` for a per-call limit) unless `lenient`. -/
def writeCall (w : WriterState) (p : Bytes) : Nat × Option IOErr × WriterState :=
  let d0 := min p.length (w.room p.length)
  let d := if w.cap = 0 then d0 else min d0 w.cap
  (d,
   if d = p.length then none
   else if d = d0 then some .fault
   else if w.lenient then none else some .short,
   { w with acc := w.acc ++ p.take d })

/-- `EncodingWriter`: underlying writer and the byte counter `n` -/
structure EW where
  w : WriterState
  n : Nat
  deriving Repr, DecidableEq, Inhabited

def newEncodingWriter (w : WriterState) : EW := { w := w, n := 0 }

/-- `Written()` -/
def EW.written (ew : EW) : Nat := ew.n

/-- the loop of `EncodingWriter.Write`:
    `for n < len(p) { d, err := w.Write(p[n:]); ew.n += d; if err != nil { return err }; n += d }`; `p` here is `p[n:]` -/
def ewLoop : Nat → EW → Bytes → Option Stop × EW
  | 0, ew, p => if p.isEmpty then (none, ew) else (some .spin, ew)
  | fuel + 1, ew, p =>
    if p.isEmpty then (none, ew)
    else
      let c := writeCall ew.w p
      let ew' : EW := { w := c.2.2, n := ew.n + c.1 }
      match c.2.1 with
      | some e => (some (.err e), ew')
      | none => ewLoop fuel ew' (p.drop c.1)

/-- `Write(p)` -/
def EW.write (ew : EW) (p : Bytes) : Option Stop × EW := ewLoop p.length ew p

/-- `WriteByte`, `WriteUint16/32/64` -/
def EW.writeByte (ew : EW) (v : UInt8) := ew.write [v]
def EW.writeUint16 (ew : EW) (v : UInt16) := ew.write (leBytes 2 v.toNat)
def EW.writeUint32 (ew : EW) (v : UInt32) := ew.write (leBytes 4 v.toNat)
def EW.writeUint64 (ew : EW) (v : UInt64) := ew.write (leBytes 8 v.toNat)

/-- `WriteOffset(prevOffset, elemLen)`: `none` = one of the three explicit panics -/
def offsetBytes (prev len : UInt64) : Option (UInt64 × Bytes) :=
  if prev ≥ 4294967296 then none
  else if len ≥ 4294967296 then none
  else
    let off := prev + len
    if off ≥ 4294967296 then none else some (off, leBytes 4 off.toNat)

/-- a serializer's sequence of calls on the `EncodingWriter` -/
inductive WOp where
  | raw (p : Bytes)
  | byte (v : UInt8)
  | u16 (v : UInt16)
  | u32 (v : UInt32)
  | u64 (v : UInt64)
  | offset (prev len : UInt64)
  deriving Repr, Inhabited

/-- the bytes an op hands to `Write` (none: the op panics before writing) -/
def WOp.bytes : WOp → Option Bytes
  | .raw p => some p
  | .byte v => some [v]
  | .u16 v => some (leBytes 2 v.toNat)
  | .u32 v => some (leBytes 4 v.toNat)
  | .u64 v => some (leBytes 8 v.toNat)
  | .offset prev len => (offsetBytes prev len).map (·.2)

inductive WOutcome where
  | ok
  | err
  | spin
  | panic
  deriving Repr, DecidableEq, Inhabited

def EW.op (ew : EW) : WOp → Option (Option Stop × EW)
  | .raw p => some (ew.write p)
  | .byte v => some (ew.writeByte v)
  | .u16 v => some (ew.writeUint16 v)
  | .u32 v => some (ew.writeUint32 v)
  | .u64 v => some (ew.writeUint64 v)
  | .offset prev len => (offsetBytes prev len).map fun ob => ew.write ob.2

/-- run the calls in order, stop at the first error (as every serializer in the library does) -/
def ewRun : EW → List WOp → WOutcome × EW
  | ew, [] => (.ok, ew)
  | ew, o :: os =>
    match ew.op o with
    | none => (.panic, ew)
    | some (some (.err _), ew') => (.err, ew')
    | some (some .spin, ew') => (.spin, ew')
    | some (none, ew') => ewRun ew' os

/-- plain version over byte slices -/
def ewWrites : EW → List Bytes → Option Stop × EW
  | ew, [] => (none, ew)
  | ew, p :: ps =>
    match ew.write p with
    | (some s, ew') => (some s, ew')
    | (none, ew') => ewWrites ew' ps

end ZtypV.CodecIO
