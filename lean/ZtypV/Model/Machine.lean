/-
Model P: typed mutations and the view-object machine (hooks).

`Mut.*` are the per-type mutators on backing nodes, one per Go method
(`Set`, `Append`, `Pop`, `Change`) — they return the new backing of that view.
`Machine` keeps view *objects* (type, current backing, optional hook = (parent object,
slot)) and replays Go's `SetBacking` propagation: child.SetBacking(b) sets the child's
backing, then calls the hook, i.e. parent.setNode(slot, b), which checks the index against
the parent's *current* state, rebinds and propagates further up.
Models the code after fix commits D9 (Pop index), D10 (Change pair order), D16 (expansion).
-/
import ZtypV.Model.View
namespace ZtypV.View

/-- `SubtreeView.SetNode(i, node)` at view depth `d` (no expansion) -/
def subtreeSet (h : HashFn) (n : Node) (d i : Nat) (v : Node) : R Node := do
  let p ← toPath i d
  setNode h n p false v

/-- `BackingFromBase(base, i)` of a uint view of `size` bytes holding `val` -/
def basicIntoChunk (size : Nat) (r : Root) (i : Nat) (val : Nat) : Root :=
  r.take (size * i) ++ leBytes size val ++ r.drop (size * i + size)

/-- `BoolView.BackingFromBitfieldBase(base, i)` -/
def bitIntoChunk (r : Root) (i : Nat) (b : Bool) : Root :=
  let j := i % 256
  let byte := r.getD (j / 8) 0
  let mask := UInt8.ofNat (2 ^ (j % 8))
  let nb := if b then byte ||| mask else byte &&& (~~~ mask)
  r.take (j / 8) ++ [nb] ++ r.drop (j / 8 + 1)

/-- value of a basic (uint) `Val` -/
def numOf : Val → Nat
  | .num n => n
  | _ => 0

def boolOf : Val → Bool
  | .bool b => b
  | _ => false

/-- the view depth of a subtree view (lists: +1 for the length mix-in) -/
def viewDepth : Ty → Nat
  | .bitvector k => bitDepth k
  | .bitlist lim => bitDepth lim + 1
  | .vector e k => seriesDepth e k
  | .list e lim => seriesDepth e lim + 1
  | .container fs => coverDepth fs.length
  | _ => 0

/-- set the length mix-in: `bNode.Setter(RightGindex, false)` then bind the new length -/
def setLength (h : HashFn) (n : Node) (len : Nat) : R Node :=
  setNode h n [true] false (lengthNode len)

namespace Mut

/-- `Set(i, v)` on vectors, lists, containers, bitfields. `elem` is the backing of the new
    element (complex) and `v` its value (basic / bit). -/
def set (h : HashFn) (t : Ty) (n : Node) (i : Nat) (v : Val) (elem : Node) : R Node :=
  match t with
  | .vector e k =>
    if i ≥ k then .error .other
    else if isBasicElem e then do
      let size := e.fixedSize
      let c ← subtreeGet n (viewDepth t) (i / perNode size)
      let r ← asLeaf c
      subtreeSet h n (viewDepth t) (i / perNode size) (.leaf (basicIntoChunk size r (i % perNode size) (numOf v)))
    else subtreeSet h n (viewDepth t) i elem
  | .list e lim => do
    let ll ← listLength n lim
    if i ≥ ll then .error .other
    else if i ≥ lim then .error .other
    else if isBasicElem e then do
      let size := e.fixedSize
      let c ← subtreeGet n (viewDepth t) (i / perNode size)
      let r ← asLeaf c
      subtreeSet h n (viewDepth t) (i / perNode size) (.leaf (basicIntoChunk size r (i % perNode size) (numOf v)))
    else subtreeSet h n (viewDepth t) i elem
  | .container fs =>
    if i ≥ fs.length then .error .other
    else subtreeSet h n (viewDepth t) i elem
  | .bitvector k =>
    if i ≥ k then .error .other
    else do
      let c ← subtreeGet n (viewDepth t) (i / 256)
      let r ← asLeaf c
      subtreeSet h n (viewDepth t) (i / 256) (.leaf (bitIntoChunk r i (boolOf v)))
  | .bitlist lim => do
    let ll ← listLength n lim
    if i ≥ ll then .error .other
    else if i ≥ lim then .error .other
    else do
      let c ← subtreeGet n (viewDepth t) (i / 256)
      let r ← asLeaf c
      subtreeSet h n (viewDepth t) (i / 256) (.leaf (bitIntoChunk r i (boolOf v)))
  | _ => .error .other

/-- `Append(v)` on lists and bitlists -/
def append (h : HashFn) (t : Ty) (n : Node) (v : Val) (elem : Node) : R Node :=
  match t with
  | .list e lim => do
    let ll ← listLength n lim
    if ll ≥ lim then .error .other
    else if isBasicElem e then do
      let size := e.fixedSize
      let per := perNode size
      let p ← toPath (ll / per) (viewDepth t)
      let _ ← setNode h n p true (.leaf z0)     -- Setter(lastGindex, expand) must succeed first
      let bottom ← if ll % per = 0 then (pure (basicIntoChunk size z0 0 (numOf v)) : R Root) else (do
        let c ← subtreeGet n (viewDepth t) (ll / per)
        let r ← asLeaf c
        pure (basicIntoChunk size r (ll % per) (numOf v)))
      let b ← setNode h n p true (.leaf bottom)
      setLength h b (ll + 1)
    else do
      let p ← toPath ll (viewDepth t)
      let b ← setNode h n p true elem
      setLength h b (ll + 1)
  | .bitlist lim => do
    let ll ← listLength n lim
    if ll ≥ lim then .error .other
    else do
      let p ← toPath (ll / 256) (viewDepth t)
      let _ ← setNode h n p true (.leaf z0)
      let bottom ← if ll % 256 = 0 then (pure (bitIntoChunk z0 0 (boolOf v)) : R Root) else (do
        let c ← subtreeGet n (viewDepth t) (ll / 256)
        let r ← asLeaf c
        pure (bitIntoChunk r ll (boolOf v)))
      let b ← setNode h n p true (.leaf bottom)
      setLength h b (ll + 1)
  | _ => .error .other

/-- `Pop()` on lists and bitlists -/
def pop (h : HashFn) (t : Ty) (n : Node) : R Node :=
  match t with
  | .list e lim => do
    let ll ← listLength n lim
    if ll = 0 then .error .other
    else if isBasicElem e then do
      let size := e.fixedSize
      let per := perNode size
      let p ← toPath ((ll - 1) / per) (viewDepth t)
      let _ ← setNode h n p true (.leaf z0)
      let c ← subtreeGet n (viewDepth t) ((ll - 1) / per)
      let r ← asLeaf c
      let b ← setNode h n p true (.leaf (basicIntoChunk size r ((ll - 1) % per) 0))
      setLength h b (ll - 1)
    else do
      let p ← toPath (ll - 1) (viewDepth t)
      let b ← setNode h n p true (zeroNode h 0)
      setLength h b (ll - 1)
  | .bitlist lim => do
    let ll ← listLength n lim
    if ll = 0 then .error .other
    else do
      let p ← toPath ((ll - 1) / 256) (viewDepth t)
      let _ ← setNode h n p true (.leaf z0)
      let c ← subtreeGet n (viewDepth t) ((ll - 1) / 256)
      let r ← asLeaf c
      let b ← setNode h n p true (.leaf (bitIntoChunk r (ll - 1) false))
      setLength h b (ll - 1)
  | _ => .error .other

/-- `UnionView.Change(selector, value)`; `content = none` for a nil value -/
def change (t : Ty) (sel : Nat) (content : Option Node) : R Node :=
  match t with
  | .union hasNone opts =>
    if sel % 256 ≥ (opts.length + (if hasNone then 1 else 0)) % 256 then .error .other
    else match content with
      | Option.none => if sel ≠ 0 then .error .other else .ok (.pair (.leaf z0) (.leaf (chunkOf [UInt8.ofNat sel])))
      | some c => .ok (.pair c (.leaf (chunkOf [UInt8.ofNat sel])))
  | _ => .error .other

end Mut

/-- typed indexed getter `Get(i)`: the element's backing node (complex) — for basic series
    and bitfields the element value is packed; `getElemNode` returns a fresh leaf holding it,
    as `BasicView.Backing()` would. -/
def getElemNode (t : Ty) (n : Node) (i : Nat) : R (Ty × Node) :=
  match t with
  | .vector e k =>
    if i ≥ k then .error .other
    else if isBasicElem e then do
      let c ← subtreeGet n (viewDepth t) (i / perNode e.fixedSize)
      let r ← asLeaf c
      let v ← basicFromChunk e.fixedSize r (i % perNode e.fixedSize)
      .ok (e, .leaf (chunkOf (leBytes e.fixedSize (numOf v))))
    else do
      let c ← subtreeGet n (viewDepth t) i
      .ok (e, c)
  | .list e lim => do
    let ll ← listLength n lim
    if i ≥ ll then .error .other
    else if i ≥ lim then .error .other
    else if isBasicElem e then do
      let c ← subtreeGet n (viewDepth t) (i / perNode e.fixedSize)
      let r ← asLeaf c
      let v ← basicFromChunk e.fixedSize r (i % perNode e.fixedSize)
      .ok (e, .leaf (chunkOf (leBytes e.fixedSize (numOf v))))
    else do
      let c ← subtreeGet n (viewDepth t) i
      .ok (e, c)
  | .container fs =>
    match fs[i]? with
    | Option.none => .error .other
    | some ft => do
      let c ← subtreeGet n (viewDepth t) i
      .ok (ft, c)
  | .bitvector k =>
    if i ≥ k then .error .other
    else do
      let c ← subtreeGet n (viewDepth t) (i / 256)
      let r ← asLeaf c
      .ok (.bool, .leaf (chunkOf [if bitFromChunk r i then 1 else 0]))
  | .bitlist lim => do
    let ll ← listLength n lim
    if i ≥ ll then .error .other
    else if i ≥ lim then .error .other
    else do
      let c ← subtreeGet n (viewDepth t) (i / 256)
      let r ← asLeaf c
      .ok (.bool, .leaf (chunkOf [if bitFromChunk r i then 1 else 0]))
  | _ => .error .other

/-- whether `ViewFromBacking(node, hook)` of this type keeps the hook (backed views do,
    basic value views ignore it) -/
def keepsHook : Ty → Bool
  | .uint _ | .bool | .bytesN _ => false
  | _ => true

/-- element views of complex types are created by `ViewFromBacking`, which fails for basic
    element types when the node is not a leaf -/
def viewFromBackingOk (t : Ty) (n : Node) : Bool :=
  match t, n with
  | .uint _, .pair _ _ | .bool, .pair _ _ | .bytesN _, .pair _ _ => false
  | _, _ => true

/-! ### the object machine -/

structure VObj where
  ty : Ty
  node : Node
  hook : Option (Nat × Nat)     -- (parent object, slot)
  deriving Inhabited

abbrev Store := Array VObj

/-- `parent.setNode(i, b)` of the hook: index checks against the parent's current state -/
def hookSet (h : HashFn) (pt : Ty) (pn : Node) (i : Nat) (b : Node) : R Node :=
  match pt with
  | .vector _ k => if i ≥ k then .error .other else subtreeSet h pn (viewDepth pt) i b
  | .list _ lim => do
    let ll ← listLength pn lim
    if i ≥ ll then .error .other
    else if i ≥ lim then .error .other
    else subtreeSet h pn (viewDepth pt) i b
  | .container fs => if i ≥ fs.length then .error .other else subtreeSet h pn (viewDepth pt) i b
  | _ => .error .other

/-- `v.SetBacking(b)`: rebind and propagate through the hook chain.  Returns the store as it
    is left (objects below a failing hook keep their new backing) and the error, if any. -/
def setBacking (h : HashFn) : Nat → Store → Nat → Node → Store × Option Err
  | 0, st, _, _ => (st, some .panic)
  | fuel + 1, st, id, b =>
    match st[id]? with
    | Option.none => (st, some .panic)
    | some o =>
      let st' := st.set! id { o with node := b }
      match o.hook with
      | Option.none => (st', Option.none)
      | some (p, slot) =>
        match st'[p]? with
        | Option.none => (st', some .panic)
        | some po =>
          match hookSet h po.ty po.node slot b with
          | .error e => (st', some e)
          | .ok pn => setBacking h fuel st' p pn

end ZtypV.View
