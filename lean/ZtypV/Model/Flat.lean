/-
Model of the FLAT codec of /repo (properties C09, C10):

* `codec.DecodingReader` helpers `Vector`, `List`, `BitVector`, `BitList`, `ByteVector`, `ByteList`,
  `FixedLenContainer`, `Container`, `Union` (codec/decoder.go) as higher-order functions over the
  reader model `DR` of Model/Decode.lean, taking the item deserializers as arguments like the Go API;
* `codec.EncodingWriter` helpers `List`, `Vector`, `BitList`, `BitVector`, `FixedLenContainer`,
  `Container`, `Union`, `WriteOffset`, `Sum`, `ContainerLength` (codec/encoder.go): an encoding is
  `R Bytes` (the bytes written, or the error class; `WriteOffset` panics at 2^32);
* `tree.ReadRoots`, `ReadRootsLimited`, `WriteRoots`, `Root.Deserialize/Serialize` (tree/root.go);
* the basic values' `Deserialize/Serialize/ByteLength/FixedLength` (view/basic.go, view/u256.go);
* `flatEncode`, `flatByteLength`, `flatFixedLength`, `flatDecode`: the composition of these helpers
  by the recipe of harness/flat.go (the zrnt-style hand-written flat types).

Destination slices are `(len, cap, backing array)` where the Go code looks at them
(`ByteVector/ByteList/BitVector/BitList` and `ReadRoots` re-use capacity).  The prior content of a
destination is given as a `Val` (`Val.none` = the zero struct; anything that does not fit the
type is treated as the zero struct): a destination that decoded the value `p` before holds
slices with `len = cap = ` the lengths of `p`.

Assumptions (recorded in the report): all lengths, limits and scopes are below 2^61, so the Go
`uint64` expressions `(bitLength+7)>>3`, `length*4`, `limit-((byteLen-1)<<3)`, the `ByteLength`
sums … do not wrap and are modelled on naturals; `next - off` with `next < off` wraps in Go to a
count ≥ 2^64-2^32 that `SubScope` refuses: modelled as that refusal.
Models the code after the repairs (first-offset checks in `Vector`, `item(i)`, no skipping of empty
elements in `List`, first offset bound in `List`, trailing bytes in `Union`, `ByteList` shrinking,
`BitList` byte limit `(bitLimit>>3)+1`).
-/
import ZtypV.Model.Decode
namespace ZtypV.Flat
open ZtypV ZtypV.View

/-! ## destination slices -/

/-- a Go `[]byte`: length, capacity and the backing array from the slice start (`arr.length = cap`) -/
structure Slice where
  len : Nat
  cap : Nat
  arr : Bytes
  deriving Repr

def Slice.nil : Slice := ⟨0, 0, []⟩
def Slice.ofBytes (bs : Bytes) : Slice := ⟨bs.length, bs.length, bs⟩
/-- the visible content `s[0:len]` -/
def Slice.bytes (s : Slice) : Bytes := s.arr.take s.len

/-- `if cap(*dst) < n { *dst = make([]byte, n, n) } else { *dst = (*dst)[:n] }` -/
def Slice.resize (s : Slice) (n : Nat) : Slice :=
  if s.cap < n then ⟨n, n, List.replicate n 0⟩ else { s with len := n }

/-- `dr.Read(*dst)`: fills the whole visible part (a failed read leaves a partly written
    destination behind, which the callers never look at: they return the error) -/
def Slice.readFull (s : Slice) (dr : DR) : R (Slice × DR) := do
  let (bs, dr') ← dr.read s.len
  .ok ({ s with arr := bs ++ s.arr.drop s.len }, dr')

/-- a Go `[]tree.Root` -/
structure RSlice where
  len : Nat
  cap : Nat
  arr : List Bytes
  deriving Repr

def RSlice.nil : RSlice := ⟨0, 0, []⟩
def RSlice.ofList (rs : List Bytes) : RSlice := ⟨rs.length, rs.length, rs⟩
def RSlice.roots (s : RSlice) : List Bytes := s.arr.take s.len

/-! ## bit fields (package `bitfields`, on naturals) -/

/-- bit `i` of a packed byte string (`false` beyond the end) -/
def getBit (b : Bytes) (i : Nat) : Bool := (b.getD (i / 8) 0).toNat.testBit (i % 8)

def unpackBits (b : Bytes) (n : Nat) : List Bool := (List.range n).map (getBit b)

def lastByte (b : Bytes) : UInt8 := b.getD (b.length - 1) 0

/-- bits of a valid bitlist encoding: everything below the delimiter (the highest set bit of the last byte) -/
def unpackBitlist (b : Bytes) : List Bool :=
  unpackBits b (8 * (b.length - 1) + Nat.log2 (lastByte b).toNat)

/-- `bitfields.BitvectorCheck(b, n) == nil` -/
def bitvectorCheck (b : Bytes) (n : Nat) : Bool :=
  if b.length ≠ (n + 7) / 8 then false
  else if b.length = 0 then true
  else if n = 0 then false
  else if n % 8 = 0 then true
  else (lastByte b).toNat >>> (n % 8) = 0

/-- `bitfields.BitlistCheck(b, limit) == nil` -/
def bitlistCheck (b : Bytes) (limit : Nat) : Bool :=
  if b.length = 0 then false
  else if b.length > limit / 8 + 1 then false
  else if lastByte b = 0 then false
  else if Nat.log2 (lastByte b).toNat > limit - 8 * (b.length - 1) then false
  else true

/-! ## decoder helpers (codec/decoder.go, tree/root.go) -/

/-- a `codec.Deserializable`: its `FixedLength()` and what `Deserialize(dr)` stores in its destination -/
structure Des where
  fixedLength : Nat
  run : DR → R (Val × DR)

def err {α} : R α := .error .other

/-- `DecodingReader.ByteVector(dst, byteLength)` (`dst` is never nil here) -/
def decByteVector (dst : Slice) (byteLength : Nat) (dr : DR) : R (Slice × DR) :=
  (dst.resize byteLength).readFull dr

/-- `DecodingReader.ByteList(dst, byteLimit)` -/
def decByteList (dst : Slice) (byteLimit : Nat) (dr : DR) : R (Slice × DR) :=
  let byteLen := dr.scope
  if byteLen > byteLimit then err
  else (dst.resize byteLen).readFull dr

/-- `DecodingReader.BitVector(dst, bitLength)` -/
def decBitVector (dst : Slice) (bitLength : Nat) (dr : DR) : R (Slice × DR) := do
  let byteLen := (bitLength + 7) / 8
  let (s, dr') ← (dst.resize byteLen).readFull dr
  if bitvectorCheck s.bytes bitLength then .ok (s, dr') else err

/-- byte limit of `DecodingReader.BitList`: `(bitLimit >> 3) + 1` -/
def bitListByteLimit (bitLimit : Nat) : Nat := bitLimit / 8 + 1

/-- `DecodingReader.BitList(dst, bitLimit)` -/
def decBitList (dst : Slice) (bitLimit : Nat) (dr : DR) : R (Slice × DR) :=
  let byteLen := dr.scope
  if byteLen > bitListByteLimit bitLimit then err
  else do
    let (s, dr') ← (dst.resize byteLen).readFull dr
    if bitlistCheck s.bytes bitLimit then .ok (s, dr') else err

/-- the loop of `tree.ReadRoots`: `length` reads of 32 bytes -/
def readRootsLoop : Nat → DR → R (List Bytes × DR)
  | 0, dr => .ok ([], dr)
  | n + 1, dr => do
    let (r, dr1) ← dr.read 32
    let (rs, dr2) ← readRootsLoop n dr1
    .ok (r :: rs, dr2)

/-- `tree.ReadRoots(dr, roots, length)` -/
def readRoots (dst : RSlice) (length : Nat) (dr : DR) : R (RSlice × DR) := do
  let dst1 : RSlice :=
    if dst.len ≠ length then
      (if dst.cap ≥ length then { dst with len := length }
       else ⟨length, length, List.replicate length z0⟩)
    else dst
  let (rs, dr') ← readRootsLoop length dr
  .ok ({ dst1 with arr := rs ++ dst1.arr.drop length }, dr')

/-- `tree.ReadRootsLimited(dr, roots, limit)` -/
def readRootsLimited (dst : RSlice) (limit : Nat) (dr : DR) : R (RSlice × DR) :=
  let scope := dr.scope
  if scope % 32 ≠ 0 then err
  else
    let length := scope / 32
    if length > limit then err
    else readRoots dst length dr

/-- items in consecutive sub-scopes of `size` bytes (fixed-size branch of `Vector` and `List`) -/
def decFixedItems (size : Nat) : List Des → DR → R (List Val × DR)
  | [], dr => .ok ([], dr)
  | it :: its, dr => do
    let (x, dr') ← dr.inSub size it.run
    let (xs, dr'') ← decFixedItems size its dr'
    .ok (x :: xs, dr'')

/-- `n` calls of `ReadOffset`, nothing checked yet -/
def readOffsetsN : Nat → DR → R (List Nat × DR)
  | 0, dr => .ok ([], dr)
  | n + 1, dr => do
    let (o, dr') ← dr.readOffset
    let (os, dr'') ← readOffsetsN n dr'
    .ok (o :: os, dr'')

/-- the element loop over the offsets (`Vector`: `prev = next`, `List`: `prev = off`);
    item `i` is decoded by the `i`-th deserializer -/
def decOffsetItems (vec : Bool) (scope : Nat) : Nat → List Nat → List Des → DR → R (List Val × DR)
  | _, [], _, dr => .ok ([], dr)
  | _, _ :: _, [], _ => .error .panic
  | prev, off :: rest, it :: its, dr =>
    if prev > off then err
    else
      let next := rest.headD scope
      if next < off then err     -- `next - off` wraps, `SubScope` refuses
      else do
        let (x, dr') ← dr.inSub (next - off) it.run
        let (xs, dr'') ← decOffsetItems vec scope (if vec then next else off) rest its dr'
        .ok (x :: xs, dr'')

/-- `DecodingReader.Vector(item, fixedElemSize, length)` with `items = [item 0, …, item (length-1)]` -/
def decVector (items : List Des) (fixedElemSize : Nat) (dr : DR) : R (List Val × DR) :=
  if fixedElemSize ≠ 0 then decFixedItems fixedElemSize items dr
  else
    let scope := dr.scope
    let length := items.length
    do
      let (offs, dr1) ← readOffsetsN length dr
      if length > 0 ∧ offs.headD 0 ≠ length * 4 then err
      else decOffsetItems true scope 0 offs items dr1

/-- `DecodingReader.List(add, fixedElemSize, limit)`; `add` decodes one freshly appended element -/
def decList (add : DR → R (Val × DR)) (fixedElemSize limit : Nat) (dr : DR) : R (List Val × DR) :=
  let scope := dr.scope
  if scope = 0 then .ok ([], dr)
  else if fixedElemSize ≠ 0 then
    if scope % fixedElemSize ≠ 0 then err
    else
      let length := scope / fixedElemSize
      if length > limit then err
      else decFixedItems fixedElemSize (List.replicate length ⟨fixedElemSize, add⟩) dr
  else do
    let (first, dr1) ← dr.readOffset
    if first % 4 ≠ 0 then err
    else if first = 0 ∨ first > scope then err
    else
      let length := first / 4
      if length > limit then err
      else do
        let (os, dr2) ← readOffsetsN (length - 1) dr1
        decOffsetItems false scope 0 (first :: os) (List.replicate length ⟨0, add⟩) dr2

/-- `DecodingReader.FixedLenContainer(fields...)`: every field reads from the same reader -/
def decFixedLenContainer : List Des → DR → R (List Val × DR)
  | [], dr => .ok ([], dr)
  | f :: fs, dr => do
    let (x, dr') ← f.run dr
    let (xs, dr'') ← decFixedLenContainer fs dr'
    .ok (x :: xs, dr'')

/-- `prev` after the first loop of `Container`: fixed lengths plus 4 per offset -/
def containerFixedLen : List Des → Nat
  | [] => 0
  | f :: fs => (if f.fixedLength ≠ 0 then f.fixedLength else 4) + containerFixedLen fs

/-- first loop of `Container`: fixed-size fields in their own sub-scope, offsets collected.
    Per field `some value` (fixed) or `none` (dynamic); the offsets; the dynamic fields. -/
def decContainerFixed : List Des → DR → R (List (Option Val) × List Nat × List Des × DR)
  | [], dr => .ok ([], [], [], dr)
  | f :: fs, dr =>
    if f.fixedLength ≠ 0 then do
      let (x, dr') ← dr.inSub f.fixedLength f.run
      let (slots, offs, dyn, dr'') ← decContainerFixed fs dr'
      .ok (some x :: slots, offs, dyn, dr'')
    else do
      let (o, dr') ← dr.readOffset
      let (slots, offs, dyn, dr'') ← decContainerFixed fs dr'
      .ok (Option.none :: slots, o :: offs, f :: dyn, dr'')

/-- second loop of `Container` -/
def decContainerDyn (scope : Nat) : List Nat → List Des → DR → R (List Val × DR)
  | [], _, dr => .ok ([], dr)
  | _ :: _, [], _ => .error .panic
  | off :: rest, f :: fs, dr =>
    let next := rest.headD scope
    if next < off then err
    else do
      let (x, dr') ← dr.inSub (next - off) f.run
      let (xs, dr'') ← decContainerDyn scope rest fs dr'
      .ok (x :: xs, dr'')

/-- the field values in field order -/
def mergeSlots : List (Option Val) → List Val → List Val
  | [], _ => []
  | some x :: slots, dyn => x :: mergeSlots slots dyn
  | Option.none :: slots, d :: dyn => d :: mergeSlots slots dyn
  | Option.none :: slots, [] => Val.none :: mergeSlots slots []

/-- `DecodingReader.Container(fields...)` -/
def decContainer (fields : List Des) (dr : DR) : R (List Val × DR) :=
  let scope := dr.scope
  do
    let (slots, offs, dyn, dr1) ← decContainerFixed fields dr
    if dyn.isEmpty ∨ offs.isEmpty then .ok (mergeSlots slots [], dr1)
    else if containerFixedLen fields ≠ offs.headD 0 then err
    else do
      let (vs, dr2) ← decContainerDyn scope offs dyn dr1
      .ok (mergeSlots slots vs, dr2)

/-- `DecodingReader.Union(selectFn)`; `select sel` is the `selectFn`: an error, `none` (nil
    destination) or the destination.  Result: selector and the value (none = None). -/
def decUnion (select : Nat → R (Option Des)) (dr : DR) : R ((Nat × Option Val) × DR) := do
  let (sb, dr1) ← dr.read 1
  let sel := (sb.headD 0).toNat
  let dest ← select sel
  match dest with
  | Option.none =>
    if sel ≠ 0 then err
    else if dr1.scope ≠ 0 then err
    else .ok ((sel, Option.none), dr1)
  | some d =>
    if d.fixedLength ≠ 0 ∧ d.fixedLength ≠ dr1.scope then err
    else do
      let (v, dr2) ← d.run dr1
      .ok ((sel, some v), dr2)

/-! ## basic values (view/basic.go, view/u256.go, tree/root.go) -/

/-- `(*UintNView).Deserialize` for N = 8·b -/
def decUint (b : Nat) (dr : DR) : R (Val × DR) := do
  let (bs, dr') ← dr.read b
  .ok (.num (leNat bs), dr')

/-- `(*BoolView).Deserialize` -/
def decBool (dr : DR) : R (Val × DR) := do
  let (bs, dr') ← dr.read 1
  let d := bs.headD 0
  if d.toNat > 1 then err else .ok (.bool (d.toNat > 0), dr')

/-- `(*tree.Root).Deserialize` -/
def decRoot (dr : DR) : R (Val × DR) := do
  let (bs, dr') ← dr.read 32
  .ok (.bytes bs, dr')

/-! ## encoder helpers (codec/encoder.go) -/

/-- a `codec.Serializable`: what `Serialize(w)` writes, `ByteLength()`, `FixedLength()` -/
structure Ser where
  run : R Bytes
  byteLength : Nat
  fixedLength : Nat

/-- every item's `Serialize` in order -/
def encItems : List Ser → R Bytes
  | [] => .ok []
  | it :: its => do
    let b ← it.run
    let rest ← encItems its
    .ok (b ++ rest)

/-- the offsets loop of `EncodingWriter.List` -/
def encOffsets : Nat → Nat → List Ser → R Bytes
  | _, _, [] => .ok []
  | prevOffset, prevSize, it :: its => do
    let o ← writeOffset prevOffset prevSize
    let rest ← encOffsets o it.byteLength its
    .ok (leBytes 4 o ++ rest)

/-- `EncodingWriter.List(item, fixedElemSize, length)` (= `Vector`), `items = [item 0, …]` -/
def encList (items : List Ser) (fixedElemSize : Nat) : R Bytes := do
  let offs ← if fixedElemSize = 0 then encOffsets (4 * items.length) 0 items else .ok []
  let body ← encItems items
  .ok (offs ++ body)

/-- `EncodingWriter.BitList(bits)` -/
def encBitList (bits : Bytes) : R Bytes :=
  if bits.length = 0 ∨ lastByte bits = 0 then err else .ok bits

/-- `EncodingWriter.BitVector(bits)` -/
def encBitVector (bits : Bytes) : R Bytes :=
  if bits.length = 0 then err else .ok bits

/-- `EncodingWriter.FixedLenContainer(fields...)` -/
def encFixedLenContainer (fields : List Ser) : R Bytes := encItems fields

/-- first loop of `EncodingWriter.Container`: fixed fields and offsets -/
def encContainerFixed : Nat → Nat → List Ser → R Bytes
  | _, _, [] => .ok []
  | prevOffset, prevSize, f :: fs =>
    if f.fixedLength ≠ 0 then do
      let b ← f.run
      let rest ← encContainerFixed prevOffset prevSize fs
      .ok (b ++ rest)
    else do
      let o ← writeOffset prevOffset prevSize
      let rest ← encContainerFixed o f.byteLength fs
      .ok (leBytes 4 o ++ rest)

/-- second loop: the dynamic fields -/
def encContainerDyn : List Ser → R Bytes
  | [] => .ok []
  | f :: fs =>
    if f.fixedLength = 0 then do
      let b ← f.run
      let rest ← encContainerDyn fs
      .ok (b ++ rest)
    else encContainerDyn fs

/-- `fixedLen` of `EncodingWriter.Container` -/
def serFixedLen : List Ser → Nat
  | [] => 0
  | f :: fs => (if f.fixedLength ≠ 0 then f.fixedLength else 4) + serFixedLen fs

/-- `EncodingWriter.Container(fields...)` -/
def encContainer (fields : List Ser) : R Bytes := do
  let fixedPart ← encContainerFixed (serFixedLen fields) 0 fields
  let dynPart ← if fields.all (fun f => f.fixedLength ≠ 0) then .ok [] else encContainerDyn fields
  .ok (fixedPart ++ dynPart)

/-- `EncodingWriter.Union(selector, value)` -/
def encUnion (selector : UInt8) (value : Option Ser) : R Bytes :=
  match value with
  | Option.none => if selector ≠ 0 then err else .ok [selector]
  | some s => do
    let b ← s.run
    .ok (selector :: b)

/-- `codec.Sum(values...)` -/
def sumLength : List Ser → Nat
  | [] => 0
  | f :: fs => f.byteLength + sumLength fs

/-- `codec.ContainerLength(values...)` -/
def containerLength : List Ser → Nat
  | [] => 0
  | f :: fs => (if f.fixedLength = 0 then f.byteLength + 4 else f.fixedLength) + containerLength fs

/-- `tree.WriteRoots(ew, roots)` -/
def writeRoots (roots : List Bytes) : R Bytes := .ok roots.flatten

/-! ## the flat value of harness/flat.go -/

def isU8 : Ty → Bool
  | .uint 1 => true
  | _ => false

def isRootTy : Ty → Bool
  | .bytesN 32 => true
  | _ => false

mutual
/-- type-level `FixedLength()` as `flatFixedLen` computes it: 0 = variable-size -/
def flatFixedLength : Ty → Nat
  | .uint b => b
  | .bool => 1
  | .bytesN n => n
  | .bitvector n => (n + 7) / 8
  | .bitlist _ | .list _ _ | .union _ _ => 0
  | .vector e n => n * flatFixedLength e
  | .container fs => (flatFixedSum fs).getD 0
/-- sum of the fields' fixed lengths; `none` as soon as one field reports 0 -/
def flatFixedSum : List Ty → Option Nat
  | [] => some 0
  | t :: ts =>
    if flatFixedLength t = 0 then Option.none
    else (flatFixedSum ts).map (flatFixedLength t + ·)
end

def byteOfVal : Val → UInt8
  | .num n => UInt8.ofNat n
  | _ => 0

def bytesOfVal : Val → Bytes
  | .bytes b => b
  | _ => []

/-- `copy(root[:], v.Bytes)` -/
def rootOfVal (v : Val) : Bytes := chunkOf (bytesOfVal v)

mutual
/-- `ByteLength()` of the flat value -/
def flatByteLength : Ty → Val → Nat
  | .uint b, _ => b
  | .bool, _ => 1
  | .bytesN n, _ => n
  | .bitvector n, _ => (n + 7) / 8
  | .bitlist _, .bits bs => (packBits (bs ++ [true])).length
  | .vector e n, .seq vs =>
    if isU8 e then n
    else if isRootTy e then vs.length * 32
    else if flatFixedLength e ≠ 0 then vs.length * flatFixedLength e
    else flatVarLength e vs
  | .list e _, .seq vs =>
    if isU8 e then vs.length
    else if isRootTy e then vs.length * 32
    else if flatFixedLength e ≠ 0 then vs.length * flatFixedLength e
    else flatVarLength e vs
  | .container fs, .seq vs =>
    if Ty.allFixed fs then flatSumLength fs vs else flatContainerLength fs vs
  | .union hasNone opts, .union sel v =>
    match v with
    | .none => 1
    | _ =>
      match unionOpt hasNone opts sel with
      | some t => 1 + flatByteLength t v
      | Option.none => 1
  | _, _ => 0
/-- `out += e.ByteLength() + OFFSET_SIZE` -/
def flatVarLength (e : Ty) : List Val → Nat
  | [] => 0
  | v :: vs => flatByteLength e v + 4 + flatVarLength e vs
/-- `codec.Sum` over the fields -/
def flatSumLength : List Ty → List Val → Nat
  | t :: ts, v :: vs => flatByteLength t v + flatSumLength ts vs
  | _, _ => 0
/-- `codec.ContainerLength` over the fields -/
def flatContainerLength : List Ty → List Val → Nat
  | t :: ts, v :: vs =>
    (if flatFixedLength t = 0 then flatByteLength t v + 4 else flatFixedLength t)
      + flatContainerLength ts vs
  | _, _ => 0
end

mutual
/-- `Serialize(w)` of the flat value holding `v` (values that do not fit the type make the
    harness itself panic; never the case for well-typed values) -/
def flatEncode : Ty → Val → R Bytes
  | .uint b, .num n => .ok (leBytes b n)
  | .bool, .bool b => .ok [if b then 1 else 0]
  | .bytesN n, .bytes bs => if n = 32 then .ok (chunkOf bs) else .ok bs
  | .bitvector _, .bits bs => encBitVector (packBits bs)
  | .bitlist _, .bits bs => encBitList (packBits (bs ++ [true]))
  | .vector e _, .seq vs =>
    if isU8 e then .ok (vs.map byteOfVal)
    else if isRootTy e then writeRoots (vs.map rootOfVal)
    else encList (flatSers e vs) (flatFixedLength e)
  | .list e _, .seq vs =>
    if isU8 e then .ok (vs.map byteOfVal)
    else if isRootTy e then writeRoots (vs.map rootOfVal)
    else encList (flatSers e vs) (flatFixedLength e)
  | .container fs, .seq vs =>
    if Ty.allFixed fs then encFixedLenContainer (flatFieldSers fs vs)
    else encContainer (flatFieldSers fs vs)
  | .union hasNone opts, .union sel v =>
    match v with
    | .none => encUnion (UInt8.ofNat sel) Option.none
    | _ =>
      match unionOpt hasNone opts sel with
      | some t => encUnion (UInt8.ofNat sel) (some ⟨flatEncode t v, flatByteLength t v, flatFixedLength t⟩)
      | Option.none => .error .panic
  | _, _ => .error .panic
/-- the elements as `Serializable`s -/
def flatSers (e : Ty) : List Val → List Ser
  | [] => []
  | v :: vs => ⟨flatEncode e v, flatByteLength e v, flatFixedLength e⟩ :: flatSers e vs
/-- the fields as `Serializable`s -/
def flatFieldSers : List Ty → List Val → List Ser
  | t :: ts, v :: vs => ⟨flatEncode t v, flatByteLength t v, flatFixedLength t⟩ :: flatFieldSers ts vs
  | _, _ => []
end

/-! ### decoding into a destination -/

/-- the byte slice a destination field holds after it decoded `p` (nil for the zero struct) -/
def priorBytes : Ty → Val → Bytes
  | .bitlist _, .bits bs => packBits (bs ++ [true])
  | .bitvector _, .bits bs => packBits bs
  | _, .bytes bs => bs
  | _, .seq vs => vs.map byteOfVal
  | _, _ => []

def priorSlice (t : Ty) (p : Val) : Slice := Slice.ofBytes (priorBytes t p)

def priorRoots : Val → RSlice
  | .seq vs => RSlice.ofList (vs.map rootOfVal)
  | _ => RSlice.nil

/-- prior content of element / field `i` -/
def priorElem : Val → Nat → Val
  | .seq ps, i => ps.getD i Val.none
  | _, _ => Val.none

def numOfByte (b : UInt8) : Val := .num b.toNat

mutual
/-- `Deserialize(dr)` of the flat destination that held `prior`; returns the value the
    destination holds afterwards (read back field by field) -/
def flatDecode : Ty → Val → DR → R (Val × DR)
  | .uint b, _, dr => decUint b dr
  | .bool, _, dr => decBool dr
  | .bytesN n, p, dr =>
    if n = 32 then decRoot dr
    else do
      let (s, dr') ← decByteVector (priorSlice (.bytesN n) p) n dr
      .ok (.bytes s.bytes, dr')
  | .bitvector n, p, dr => do
    let (s, dr') ← decBitVector (priorSlice (.bitvector n) p) n dr
    .ok (.bits (unpackBits s.bytes n), dr')
  | .bitlist lim, p, dr => do
    let (s, dr') ← decBitList (priorSlice (.bitlist lim) p) lim dr
    .ok (.bits (unpackBitlist s.bytes), dr')
  | .vector e n, p, dr =>
    if isU8 e then do
      let (s, dr') ← decByteVector (priorSlice (.vector e n) p) n dr
      .ok (.seq (s.bytes.map numOfByte), dr')
    else if isRootTy e then do
      let (s, dr') ← readRoots (priorRoots p) n dr
      .ok (.seq (s.roots.map Val.bytes), dr')
    else do
      let items := (List.range n).map fun i =>
        (⟨flatFixedLength e, fun d => flatDecode e (priorElem p i) d⟩ : Des)
      let (vs, dr') ← decVector items (flatFixedLength e) dr
      .ok (.seq vs, dr')
  | .list e lim, p, dr =>
    if isU8 e then do
      let (s, dr') ← decByteList (priorSlice (.list e lim) p) lim dr
      .ok (.seq (s.bytes.map numOfByte), dr')
    else if isRootTy e then do
      let (s, dr') ← readRootsLimited (priorRoots p) lim dr
      .ok (.seq (s.roots.map Val.bytes), dr')
    else do
      -- `*l = (*l)[:0]`, every element appended as a zero value
      let (vs, dr') ← decList (fun d => flatDecode e Val.none d) (flatFixedLength e) lim dr
      .ok (.seq vs, dr')
  | .container fs, p, dr =>
    if Ty.allFixed fs then do
      let (vs, dr') ← decFixedLenContainer (flatFieldDes fs p 0) dr
      .ok (.seq vs, dr')
    else do
      let (vs, dr') ← decContainer (flatFieldDes fs p 0) dr
      .ok (.seq vs, dr')
  | .union hasNone opts, _, dr => do
    let select : Nat → R (Option Des) := fun sel =>
      if sel ≥ opts.length + (if hasNone then 1 else 0) then err
      else if hasNone && sel == 0 then .ok Option.none
      else flatSelect opts (if hasNone then sel - 1 else sel)
    let ((sel, ov), dr') ← decUnion select dr
    match ov with
    | Option.none => .ok (.union sel Val.none, dr')
    | some v => .ok (.union sel v, dr')
/-- the fields as `Deserializable`s, field `i` with its prior content -/
def flatFieldDes : List Ty → Val → Nat → List Des
  | [], _, _ => []
  | t :: ts, p, i => ⟨flatFixedLength t, fun d => flatDecode t (priorElem p i) d⟩ :: flatFieldDes ts p (i + 1)
/-- the union's `selectFn` for option index `k`: a fresh destination of that option's type -/
def flatSelect : List Ty → Nat → R (Option Des)
  | [], _ => .error .panic
  | t :: _, 0 => .ok (some ⟨flatFixedLength t, fun d => flatDecode t Val.none d⟩)
  | _ :: ts, k + 1 => flatSelect ts k
end

/-- top level: decode `bs` with scope = `bs.length` into the destination that held `prior` -/
def flatDecodeTop (t : Ty) (prior : Val) (bs : Bytes) : R Val := do
  let (v, _) ← flatDecode t prior (DR.new bs bs.length)
  .ok v

end ZtypV.Flat
