/-
Model P, package `tree`: the navigation / fill entry points as they are called with raw
machine integers (`Gindex64` = uint64, `depth uint8`).  On their regular domain
(gindex ≥ 1, depth < 64) they are the functions of `ZtypV.Model.Tree`
(`ZtypV.Props.C11.getG_eq` etc.); outside it they transcribe what the Go code does:

* `Gindex64(0)`: `IsRoot()` is false, `IsClose()` is true (0 ≤ 3) and `IsLeft()` is true
  (`BitIndex(0) = 0`, pivot `1 >> 1 = 0`), so a pair node treats it as "left child" and a
  leaf reports a navigation error — except `Root.Setter(0, expand=true)` on the zero chunk,
  which evaluates `ZeroNode(Depth() - 1) = ZeroNode(0xFFFFFFFF)` and panics.
* `depth ≥ 64`: `uint64(1) << depth` is 0 in Go, so every non-empty fill is "too many nodes";
  the empty fill returns `ZeroNode(depth)`, which panics for depth ≥ 65 (65 table entries).
-/
import ZtypV.Model.Tree
namespace ZtypV

@[simp] theorem R.map_ok {α β : Type} (f : α → β) (a : α) :
    (f <$> (Except.ok a : R α)) = Except.ok (f a) := rfl
@[simp] theorem R.map_error {α β : Type} (f : α → β) (e : Err) :
    (f <$> (Except.error e : R α)) = Except.error e := rfl

/-! ### linear-time expansion (compiled replacement of `setNode`, proved equal)

`setNode` recomputes `zh h k` at every expanded level (quadratic in the depth, 63 levels for
64-bit indices).  Once the descent meets an expandable zero summary the whole remainder is
determined: a spine of pairs whose off-path children are the zero nodes of decreasing height.
`zeroSpine` builds that spine bottom-up together with the zero hash of its height. -/

/-- `(zh h p.length, the expansion of the zero summary of height p.length along p with v at its end)` -/
def zeroSpine (h : HashFn) : List Bool → Node → Root × Node
  | [], v => (z0, v)
  | b :: bs, v =>
    let (z, s) := zeroSpine h bs v
    (h z z, if b then .pair (.leaf z) s else .pair s (.leaf z))

def setNodeFast (h : HashFn) : Node → List Bool → Bool → Node → R Node
  | _, [], _, v => .ok v
  | .pair l r, b :: bs, e, v =>
    if b then (fun r' => Node.pair l r') <$> setNodeFast h r bs e v
    else (fun l' => Node.pair l' r) <$> setNodeFast h l bs e v
  | .leaf x, b :: bs, e, v =>
    if e then
      let (z, s) := zeroSpine h (b :: bs) v
      if x == z then .ok s else .error .nav
    else .error .nav

theorem zeroSpine_fst (h : HashFn) (p : List Bool) (v : Node) : (zeroSpine h p v).1 = zh h p.length := by
  induction p with
  | nil => rfl
  | cons b bs ih => simp only [zeroSpine, List.length_cons, zh, ih]

theorem setNode_zeroNode (h : HashFn) (p : List Bool) (v : Node) :
    setNode h (zeroNode h p.length) p true v = .ok (zeroSpine h p v).2 := by
  induction p with
  | nil => rfl
  | cons b bs ih =>
    have hz : (zeroSpine h bs v).1 = zh h bs.length := zeroSpine_fst h bs v
    simp only [zeroNode, List.length_cons, setNode, Bool.true_and, beq_self_eq_true, if_true]
    simp only [zeroNode] at ih
    cases b <;> simp [ih, zeroSpine, hz]

theorem setNodeFast_eq (h : HashFn) (n : Node) (p : List Bool) (e : Bool) (v : Node) :
    setNodeFast h n p e v = setNode h n p e v := by
  induction p generalizing n with
  | nil => cases n <;> rfl
  | cons b bs ih =>
    cases n with
    | pair l r => simp only [setNodeFast, setNode, ih]
    | leaf x =>
      have hz : (zeroSpine h (b :: bs) v).1 = zh h (bs.length + 1) := zeroSpine_fst h (b :: bs) v
      have hs := setNode_zeroNode h (b :: bs) v
      simp only [zeroNode, List.length_cons, setNode, Bool.true_and, beq_self_eq_true, if_true] at hs
      cases e with
      | false => simp [setNodeFast, setNode]
      | true =>
        simp only [setNodeFast, setNode, Bool.true_and, if_true]
        rw [hz]
        by_cases hx : x == zh h (bs.length + 1)
        · simp only [hx, if_true]; exact hs.symm
        · simp only [hx]; rfl

@[csimp] theorem setNode_eq_setNodeFast : @setNode = @setNodeFast := by
  funext h n p e v; exact (setNodeFast_eq h n p e v).symm

/-- the generalized index denoted by a path (inverse of `gbits`) -/
def gindexOfPath (p : List Bool) : Nat := p.foldl (fun a b => 2 * a + b.toNat) 1

/-- `n.Getter(Gindex64(g))` -/
def getG (n : Node) (g : UInt64) : R Node :=
  if g = 0 then
    match n with
    | .leaf _ => .error .nav
    | .pair l _ => .ok l
  else getNode n (gbits g.toNat)

/-- `n.Setter(Gindex64(g), e)` applied to `v` -/
def setG (h : HashFn) (n : Node) (g : UInt64) (e : Bool) (v : Node) : R Node :=
  if g = 0 then
    match n with
    | .pair _ r => .ok (.pair v r)
    | .leaf x => if e then (if x == zh h 0 then .error .panic else .error .nav) else .error .nav
  else setNode h n (gbits g.toNat) e v

/-- `n.SummarizeInto(Gindex64(g), h)` followed by calling the link -/
def sumG (h : HashFn) (n : Node) (g : UInt64) : R Node :=
  if g = 0 then
    match n with
    | .pair l r => .ok (.pair (.leaf (l.root h)) r)
    | .leaf _ => .error .nav
  else summarizeInto h n (gbits g.toNat)

/-- `SubtreeFillToContents(nodes, uint8 depth)` -/
def fillcG (h : HashFn) (depth : Nat) (ns : List Node) : R Node :=
  if depth < 64 then fillToContents h depth ns
  else if ns.length = 0 then (if depth ≥ 65 then .error .panic else .ok (zeroNode h depth))
  else .error .other

/-- `SubtreeFillToLength(bottom, uint8 depth, uint64 length)` -/
def filllG (h : HashFn) (bottom : Node) (depth len : Nat) : R Node :=
  if depth < 64 then fillToLength h bottom depth len
  else if len > 0 then .error .other
  else .ok (fillToDepth bottom depth)

/-- `ToGindex64(index, depth)` as a number -/
def toGindex (index depth : Nat) : R Nat := gindexOfPath <$> toPath index depth

end ZtypV
