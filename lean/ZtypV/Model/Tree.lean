/-
Model P, package `tree`: navigation (Getter / Setter with expansion / SummarizeInto) and
subtree filling, on memo-erased immutable nodes.  One Lean function per Go function; a
generalized index is used through its bit path (the bits after the leading one, most
significant first — exactly what `Gindex64.BitIter` yields; C16 proves that about the
machine-integer code).

Go's `Setter` returns a `Link` closure that is applied to the new node afterwards; the link
chain is built from `RebindLeft/Right` of pair nodes only and cannot fail, so the model
returns the rebuilt tree directly (`setNode`), and `setNode_error_indep` states that
whether it errs does not depend on the node being bound.

This models the code after the `fix:` commits D1, D15, D16 (DESIGN §7).
-/
import ZtypV.Basic
namespace ZtypV

inductive Err where
  | nav      -- tree.NavigationError
  | other    -- any other error value
  | panic    -- a Go panic (index out of range, nil dereference, explicit panic)
  deriving Repr, DecidableEq, BEq, Inhabited

abbrev R := Except Err

/-- bits of a generalized index after the leading one, most significant first -/
def gbits (g : Nat) : List Bool :=
  (List.range (Nat.log2 g)).reverse.map fun i => g.testBit i

/-- `ToGindex64(index, depth)` as a path; errors as in Go (depth ≥ 64 or index ≥ 2^depth) -/
def toPath (index depth : Nat) : R (List Bool) :=
  if depth ≥ 64 then .error .other
  else if index ≥ 2 ^ depth then .error .other
  else .ok ((List.range depth).reverse.map fun i => index.testBit i)

/-- `tree.ZeroNode(d)`: a pointer into the zero-hash table (65 entries) -/
def zeroNode (h : HashFn) (d : Nat) : Node := .leaf (zh h d)

/-- `Node.Getter(target)` -/
def getNode : Node → List Bool → R Node
  | n, [] => .ok n
  | .leaf _, _ :: _ => .error .nav
  | .pair l r, b :: bs => if b then getNode r bs else getNode l bs

/-- `Node.Setter(target, expand)` followed by applying the link to `v`.
    A leaf met on the way is a navigation error, unless `expand` is set and the leaf is the
    summary of the zero subtree of its height, in which case it is materialised one level. -/
def setNode (h : HashFn) : Node → List Bool → Bool → Node → R Node
  | _, [], _, v => .ok v
  | .pair l r, b :: bs, e, v =>
    if b then (fun r' => Node.pair l r') <$> setNode h r bs e v
    else (fun l' => Node.pair l' r) <$> setNode h l bs e v
  | .leaf x, b :: bs, e, v =>
    if e && x == zh h (bs.length + 1) then
      let z := zeroNode h bs.length
      if b then (fun r' => Node.pair z r') <$> setNode h z bs e v
      else (fun l' => Node.pair l' z) <$> setNode h z bs e v
    else .error .nav

/-- `tree.SummaryInto` then calling the summary link -/
def summarizeInto (h : HashFn) (n : Node) (p : List Bool) : R Node := do
  let _ ← setNode h n p false n   -- Setter(target, false) must succeed first
  let sub ← getNode n p
  setNode h n p false (.leaf (sub.root h))

/-- `SubtreeFillToDepth(bottom, depth)` -/
def fillToDepth (bottom : Node) : Nat → Node
  | 0 => bottom
  | d + 1 => let n := fillToDepth bottom d; .pair n n

/-- `SubtreeFillToLength(bottom, depth, length)` -/
def fillToLength (h : HashFn) (bottom : Node) : Nat → Nat → R Node
  | depth, length =>
    if length > 2 ^ depth then .error .other
    else if length = 2 ^ depth then .ok (fillToDepth bottom depth)
    else match depth with
      | 0 => .error .panic   -- unreachable: length < 1 = 2^0 means length = 0, Go would recurse with depth-1 = 255
      | d + 1 =>
        if d = 0 then
          .ok (if length > 1 then .pair bottom bottom else .pair bottom (zeroNode h 0))
        else if length ≤ 2 ^ d then do
          let l ← fillToLength h bottom d length
          .ok (.pair l (zeroNode h d))
        else do
          let r ← fillToLength h bottom d (length - 2 ^ d)
          .ok (.pair (fillToDepth bottom d) r)

/-- `SubtreeFillToContents(nodes, depth)` (after fix D1: no nodes ⇒ the zero subtree) -/
def fillToContents (h : HashFn) : Nat → List Node → R Node
  | depth, ns =>
    if ns.length = 0 then .ok (zeroNode h depth)
    else if ns.length > 2 ^ depth then .error .other
    else match depth with
      | 0 => .ok (ns.headD (.leaf z0))
      | d + 1 =>
        if d = 0 then
          match ns with
          | [a] => .ok (.pair a (zeroNode h 0))
          | a :: b :: _ => .ok (.pair a b)
          | [] => .error .panic
        else if ns.length ≤ 2 ^ d then do
          let l ← fillToContents h d ns
          .ok (.pair l (zeroNode h d))
        else do
          let l ← fillToContents h d (ns.take (2 ^ d))
          let r ← fillToContents h d (ns.drop (2 ^ d))
          .ok (.pair l r)

end ZtypV
