/-
Model of package `tree`, files `bitlen.go` and `gindex.go` (property C16):
`BitIndex`, `BitLength`, `CoverDepth`, the `Gindex64` methods, `Gindex64BitIter`, `ToGindex64`.

Machine integers are kept (`UInt64` for `uint64`/`Gindex64`, `UInt8` for `uint8`, `UInt32`
for `uint32`, `Int` for Go's `int` where it is only a small slice bound).  One Lean
function per Go function, same order of tests.  Go's shifts with a count ≥ 64 give 0,
Lean's reduce the count mod 64: every shift goes through `shl64` / `shr64`.
The only panic sites in these files are the slice expressions `out[:s]` / `out[s:]` on an
8-byte array; they are explicit (`sliceTo` / `sliceFrom`).

Core Lean only (the compiled driver links this file).
-/
import ZtypV.Basic
namespace ZtypV.Bits64

/-- outcome class of a Go call that can return an error or panic -/
inductive GErr where
  | err     -- a non-nil `error` result
  | panic   -- a run-time panic (slice bounds out of range)
  deriving Repr, DecidableEq, BEq, Inhabited

/-- Go `x << n` on `uint64` with an unsigned count `n` (0 for `n ≥ 64`) -/
def shl64 (x : UInt64) (n : Nat) : UInt64 := if n ≥ 64 then 0 else x <<< n.toUInt64
/-- Go `x >> n` on `uint64` with an unsigned count `n` (0 for `n ≥ 64`) -/
def shr64 (x : UInt64) (n : Nat) : UInt64 := if n ≥ 64 then 0 else x >>> n.toUInt64

/-! ### bitlen.go -/

-- mask_i = ^uint64((1 << (1 << i)) - 1)
def mask0 : UInt64 := 0xFFFFFFFFFFFFFFFE
def mask1 : UInt64 := 0xFFFFFFFFFFFFFFFC
def mask2 : UInt64 := 0xFFFFFFFFFFFFFFF0
def mask3 : UInt64 := 0xFFFFFFFFFFFFFF00
def mask4 : UInt64 := 0xFFFFFFFFFFFF0000
def mask5 : UInt64 := 0xFFFFFFFF00000000

-- bit_i = uint8(1 << i)
def bit0 : UInt8 := 1
def bit1 : UInt8 := 2
def bit2 : UInt8 := 4
def bit3 : UInt8 := 8
def bit4 : UInt8 := 16
def bit5 : UInt8 := 32

/-- one block `if v&mask != 0 { v >>= bit; out |= bit }` on the pair `(v, out)` -/
def step (mask : UInt64) (bit : UInt8) (s : UInt64 × UInt8) : UInt64 × UInt8 :=
  if s.1 &&& mask != 0 then (shr64 s.1 bit.toNat, s.2 ||| bit) else s

/-- `BitIndex` -/
def bitIndex (v : UInt64) : UInt8 :=
  if v == 0 then 0 else
  let s : UInt64 × UInt8 := (v, 0)
  let s := step mask5 bit5 s
  let s := step mask4 bit4 s
  let s := step mask3 bit3 s
  let s := step mask2 bit2 s
  let s := step mask1 bit1 s
  -- last block has no shift
  if s.1 &&& mask0 != 0 then s.2 ||| bit0 else s.2

/-- `BitLength` -/
def bitLength (v : UInt64) : UInt8 :=
  if v == 0 then 0 else bitIndex v + 1

/-- `CoverDepth` -/
def coverDepth (v : UInt64) : UInt8 :=
  if v == 0 || v == 1 then 0 else bitIndex (v - 1) + 1

/-! ### gindex.go : `Gindex64` -/

/-- `Gindex64(1 << BitIndex(uint64(v)))` -/
def anchor (v : UInt64) : UInt64 := shl64 1 (bitIndex v).toNat

/-- `Subtree`: `v ^ anchor | (anchor >> 1)`; `^` and `|` have the same precedence in Go and
    associate to the left, `>>` binds tighter -/
def subtree (v : UInt64) : UInt64 :=
  let a := shl64 1 (bitIndex v).toNat
  (v ^^^ a) ||| (shr64 a 1)

def left (v : UInt64) : UInt64 := shl64 v 1
def right (v : UInt64) : UInt64 := shl64 v 1 ||| 1
def parent (v : UInt64) : UInt64 := shr64 v 1

/-- `IsLeft` -/
def isLeft (v : UInt64) : Bool :=
  let pivot := shr64 (shl64 1 (bitIndex v).toNat) 1
  v &&& pivot == 0

def isRoot (v : UInt64) : Bool := v == 1
def isClose (v : UInt64) : Bool := v ≤ 3

/-- `Depth` -/
def depth (v : UInt64) : UInt32 := (bitIndex v).toUInt32

/-- `Gindex64BitIter` -/
structure BitIter where
  marker : UInt64
  gindex : UInt64
  deriving Repr, DecidableEq

/-- `Gindex64.BitIter` -/
def bitIter (v : UInt64) : BitIter × UInt32 :=
  let d := bitIndex v
  ({ marker := shl64 1 d.toNat, gindex := v }, d.toUInt32)

/-- `(*Gindex64BitIter).Next`: new state and `(right, ok)` -/
def BitIter.next (it : BitIter) : BitIter × (Bool × Bool) :=
  let it' := { it with marker := shr64 it.marker 1 }
  (it', (it'.gindex &&& it'.marker != 0, it'.marker != 0))

/-- results of `n` successive `Next` calls -/
def BitIter.nexts : Nat → BitIter → List (Bool × Bool)
  | 0, _ => []
  | n+1, it => (it.next).2 :: nexts n (it.next).1

/-- state after `n` successive `Next` calls -/
def BitIter.after : Nat → BitIter → BitIter
  | 0, it => it
  | n+1, it => after n (it.next).1

/-- `binary.LittleEndian.PutUint64` into a fresh `[8]byte` -/
def putLE64 (v : UInt64) : Bytes :=
  [v.toUInt8, (shr64 v 8).toUInt8, (shr64 v 16).toUInt8, (shr64 v 24).toUInt8,
   (shr64 v 32).toUInt8, (shr64 v 40).toUInt8, (shr64 v 48).toUInt8, (shr64 v 56).toUInt8]

/-- `binary.BigEndian.PutUint64` into a fresh `[8]byte` -/
def putBE64 (v : UInt64) : Bytes :=
  [(shr64 v 56).toUInt8, (shr64 v 48).toUInt8, (shr64 v 40).toUInt8, (shr64 v 32).toUInt8,
   (shr64 v 24).toUInt8, (shr64 v 16).toUInt8, (shr64 v 8).toUInt8, v.toUInt8]

/-- `out[:s]` (panics unless `0 ≤ s ≤ len(out)`) -/
def sliceTo (out : Bytes) (s : Int) : Except GErr Bytes :=
  if 0 ≤ s ∧ s ≤ out.length then .ok (out.take s.toNat) else .error .panic

/-- `out[s:]` (panics unless `0 ≤ s ≤ len(out)`) -/
def sliceFrom (out : Bytes) (s : Int) : Except GErr Bytes :=
  if 0 ≤ s ∧ s ≤ out.length then .ok (out.drop s.toNat) else .error .panic

/-- one block `if v >= bound { v >>= sh; s += d }` on the pair `(v, s)` (`s` is a Go `int`) -/
def lenStep (bound : UInt64) (sh : Nat) (d : Int) (st : UInt64 × Int) : UInt64 × Int :=
  if st.1 ≥ bound then (shr64 st.1 sh, st.2 + d) else st

/-- `LittleEndian` (`nil` is the empty list; every non-nil result is non-empty) -/
def littleEndian (v : UInt64) : Except GErr Bytes :=
  if v == 0 then .ok [] else
  let out := putLE64 v
  let st : UInt64 × Int := (v, 1)
  let st := lenStep 0x100000000 32 4 st
  let st := lenStep 0x10000 16 2 st
  let st := lenStep 0x100 8 1 st
  sliceTo out st.2

/-- `BigEndian` -/
def bigEndian (v : UInt64) : Except GErr Bytes :=
  if v == 0 then .ok [] else
  let out := putBE64 v
  let st : UInt64 × Int := (v, 7)
  let st := lenStep 0x100000000 32 (-4) st
  let st := lenStep 0x10000 16 (-2) st
  let st := lenStep 0x100 8 (-1) st
  sliceFrom out st.2

/-- `LeftAlignedBigEndian`; `64 - bitLen8` and `(bitLen8+7)>>3` are `uint8` arithmetic -/
def leftAlignedBigEndian (v : UInt64) : Except GErr (Bytes × UInt32) :=
  if v == 0 then .ok ([], 0) else
  let bitLen8 : UInt8 := bitLength v
  let leftAligned := shl64 v ((64 : UInt8) - bitLen8).toNat
  let out := putBE64 leftAligned
  match sliceTo out (((bitLen8 + 7) >>> 3).toNat : Int) with
  | .ok data => .ok (data, bitLen8.toUInt32)
  | .error e => .error e

/-- `ToGindex64(index uint64, depth uint8)` -/
def toGindex64 (index : UInt64) (depth : UInt8) : Except GErr UInt64 :=
  if depth ≥ 64 then .error .err else
  let anchor := shl64 1 depth.toNat
  if index ≥ anchor then .error .err else
  .ok (anchor ||| index)

/-! ### reference decoders used in the statements -/

/-- big-endian decoding -/
def beNat (bs : Bytes) : Nat := bs.foldl (fun a b => 256 * a + b.toNat) 0

end ZtypV.Bits64
