/-
The two machines of C04 over a common operation type:

* `stepM` — Model P's object machine (view objects with backing trees and hooks; the Go code),
* `stepV` — the plain *value machine* (reference semantics, DESIGN §6 C04): every handle holds
  a value and an optional (parent, slot); a mutation updates the handle's value and writes it
  back into the parent slot, recursively.  A write-back into a slot that no longer exists
  fails (reported as an error) and leaves the ancestors unchanged; the handle keeps its own
  new value — exactly what a stale sub-view does.

Both index objects by the same ids (creation order).  The driver executes exactly these
functions; Props/C04.lean proves they produce the same outputs from related states.
-/
import ZtypV.Model.Machine
import ZtypV.Model.Decode
namespace ZtypV.Sim
open ZtypV ZtypV.View

inductive Op where
  | get (parent i : Nat)                -- new object := parent.Get(i)
  | val (parent : Nat)                  -- new object := union parent .Value()  (detached)
  | copy (src : Nat)                    -- new object := src.Copy()
  | set (obj i : Nat) (x : Val)         -- obj.Set(i, fresh view of x)
  | setv (obj i src : Nat)              -- obj.Set(i, view of src)
  | app (obj : Nat) (x : Val)
  | pop (obj : Nat)
  | chg (obj sel : Nat) (x : Val)       -- union Change; x = .none for a nil value
  | obs (obj : Nat)
  | len (obj : Nat)
  | rd (obj i : Nat)
  | blen (obj : Nat)                    -- ValueByteLength
  | appd (obj : Nat)                    -- append the element type's Default view
  | setd (obj i : Nat)                  -- set slot i to the element type's Default view
  | appv (obj src : Nat)                -- append the view of src (shares its backing)
  deriving Repr

inductive Out where
  | ok | err | panic | nohandle
  | okNone | okSome
  | obs (root : Root) (ser : Option Bytes) (v : Option Val)
  | num (n : Nat)
  | val (v : Val)
  deriving Repr, BEq

def outOfErr : Err → Out
  | .panic => .panic
  | _ => .err

/-! ### value machine -/

structure VObjV where
  ty : Ty
  val : Val
  parent : Option (Nat × Nat)
  deriving Inhabited

abbrev VStore := Array VObjV

def valSet (t : Ty) (v : Val) (i : Nat) (x : Val) : Option Val :=
  match t, v with
  | .vector _ _, .seq vs | .list _ _, .seq vs | .container _, .seq vs =>
    if i < vs.length then some (.seq (vs.set i x)) else none
  | .bitvector _, .bits bs | .bitlist _, .bits bs =>
    match x with
    | .bool b => if i < bs.length then some (.bits (bs.set i b)) else none
    | _ => none
  | _, _ => none

def valAppend (t : Ty) (v : Val) (x : Val) : Option Val :=
  match t, v with
  | .list _ lim, .seq vs => if vs.length < lim then some (.seq (vs ++ [x])) else none
  | .bitlist lim, .bits bs =>
    match x with
    | .bool b => if bs.length < lim then some (.bits (bs ++ [b])) else none
    | _ => none
  | _, _ => none

def valPop (t : Ty) (v : Val) : Option Val :=
  match t, v with
  | .list _ _, .seq vs => if vs.isEmpty then none else some (.seq vs.dropLast)
  | .bitlist _, .bits bs => if bs.isEmpty then none else some (.bits bs.dropLast)
  | _, _ => none

def valElem (t : Ty) (v : Val) (i : Nat) : Option (Ty × Val) :=
  match t, v with
  | .vector e _, .seq vs | .list e _, .seq vs => vs[i]?.map fun x => (e, x)
  | .container fs, .seq vs => do let ft ← fs[i]?; let x ← vs[i]?; pure (ft, x)
  | .bitvector _, .bits bs | .bitlist _, .bits bs => bs[i]?.map fun b => (.bool, .bool b)
  | _, _ => none

def valChange (t : Ty) (sel : Nat) (x : Val) : Option Val :=
  match t with
  | .union hasNone opts =>
    match x with
    | .none => if hasNone && sel == 0 then some (.union 0 .none) else none
    | _ => if (unionOpt hasNone opts sel).isSome then some (.union sel x) else none
  | _ => none

/-- write the value of object `id` back up the (parent, slot) chain -/
def writeBack : Nat → VStore → Nat → VStore × Bool
  | 0, st, _ => (st, false)
  | fuel + 1, st, id =>
    match st[id]? with
    | none => (st, false)
    | some o =>
      match o.parent with
      | none => (st, true)
      | some (p, slot) =>
        match st[p]? with
        | none => (st, false)
        | some po =>
          match valSet po.ty po.val slot o.val with
          | none => (st, false)
          | some nv => writeBack fuel (st.set! p { po with val := nv }) p

/-- mutate object `id` by `f` and write back -/
def mutateV (st : VStore) (id : Nat) (f : VObjV → Option Val) : VStore × Out :=
  match st[id]? with
  | none => (st, .nohandle)
  | some o =>
    match f o with
    | none => (st, .err)
    | some nv =>
      let (st', ok) := writeBack (st.size + 1) (st.set! id { o with val := nv }) id
      (st', if ok then .ok else .err)

/-- which element views keep a hook to their parent (`Get` on complex series / containers of
    composite element types) -/
def hooked (parentTy elemTy : Ty) : Bool :=
  keepsHook elemTy && match parentTy with
    | .vector e _ | .list e _ => !isBasicElem e
    | .container _ => true
    | _ => false

/-- element type of slot `i` (containers: the field's type; out of range: the first field's) -/
def slotTyV (t : Ty) (i : Nat) : Ty :=
  match t with
  | .vector e _ | .list e _ => e
  | .container fs => (fs[i]?).getD (fs.headD .bool)
  | _ => .bool

def stepV (h : HashFn) (st : VStore) : Op → VStore × Out
  | .get p i =>
    match st[p]? with
    | none => (st, .nohandle)
    | some po =>
      match valElem po.ty po.val i with
      | none => (st, .err)
      | some (et, x) =>
        (st.push { ty := et, val := x, parent := if hooked po.ty et then some (p, i) else none }, .ok)
  | .val p =>
    match st[p]? with
    | none => (st, .nohandle)
    | some po =>
      match po.ty, po.val with
      | .union hasNone opts, .union sel x =>
        match unionOpt hasNone opts sel with
        | none => (st, .okNone)
        | some ot => (st.push { ty := ot, val := x, parent := none }, .okSome)
      | _, _ => (st, .err)
  | .copy s =>
    match st[s]? with
    | none => (st, .nohandle)
    | some o => (st.push { o with parent := none }, .ok)
  | .set id i x => mutateV st id fun o => valSet o.ty o.val i x
  | .setv id i s =>
    match st[s]? with
    | none => (st, .nohandle)
    | some so => mutateV st id fun o => valSet o.ty o.val i so.val
  | .app id x => mutateV st id fun o => valAppend o.ty o.val x
  | .pop id => mutateV st id fun o => valPop o.ty o.val
  | .chg id sel x => mutateV st id fun o => valChange o.ty sel x
  | .obs id =>
    match st[id]? with
    | none => (st, .nohandle)
    | some o => (st, .obs (htr h o.ty o.val) (some (serialize o.ty o.val)) (some o.val))
  | .len id =>
    match st[id]? with
    | none => (st, .nohandle)
    | some o =>
      match o.val with
      | .seq vs => (st, .num vs.length)
      | .bits bs => (st, .num bs.length)
      | _ => (st, .err)
  | .rd id i =>
    match st[id]? with
    | none => (st, .nohandle)
    | some o =>
      match valElem o.ty o.val i with
      | some (_, x) => (st, .val x)
      | none => (st, .err)
  | .blen id =>
    match st[id]? with
    | none => (st, .nohandle)
    | some o => (st, .num (serialize o.ty o.val).length)
  | .appd id => mutateV st id fun o => valAppend o.ty o.val (defaultVal (slotTyV o.ty 0))
  | .appv id s =>
    match st[s]? with
    | none => (st, .nohandle)
    | some so => mutateV st id fun o => valAppend o.ty o.val so.val
  | .setd id i => mutateV st id fun o => valSet o.ty o.val i (defaultVal (slotTyV o.ty i))

/-! ### object machine (Model P) -/

/-- element type used to build the fresh view inserted by `set` / `app` (the harness builds a
    view of the slot's element type) -/
def slotTy (t : Ty) (i : Nat) : Ty :=
  match t with
  | .vector e _ | .list e _ => e
  | .container fs => (fs[i]?).getD (fs.headD .bool)
  | _ => .bool

/-- apply a mutator result to object `id`: `SetBacking` with hook propagation -/
def mutateM (h : HashFn) (st : Store) (id : Nat) (r : R Node) : Store × Out :=
  match r with
  | .error e => (st, outOfErr e)
  | .ok b =>
    let (st', err) := setBacking h (st.size + 1) st id b
    (st', match err with | none => .ok | some e => outOfErr e)

def stepM (h : HashFn) (st : Store) : Op → Store × Out
  | .get p i =>
    match st[p]? with
    | none => (st, .nohandle)
    | some po =>
      match getElemNode po.ty po.node i with
      | .error e => (st, outOfErr e)
      | .ok (et, en) =>
        if !viewFromBackingOk et en then (st, .err)
        else (st.push { ty := et, node := en, hook := if hooked po.ty et then some (p, i) else none }, .ok)
  | .val p =>
    match st[p]? with
    | none => (st, .nohandle)
    | some po =>
      match po.ty with
      | .union hasNone opts =>
        let r : R (Option (Ty × Node)) := do
          let sn ← getNode po.node [true]
          let rt ← asLeaf sn
          if (rt.drop 1).any (· != 0) then .error .other
          else
            let sel := (rt.getD 0 0).toNat
            if sel ≥ opts.length + (if hasNone then 1 else 0) then .error .other
            else do
              let c ← getNode po.node [false]
              match unionOpt hasNone opts sel with
              | none => pure none
              | some ot => if viewFromBackingOk ot c then pure (some (ot, c)) else .error .other
        match r with
        | .error e => (st, outOfErr e)
        | .ok none => (st, .okNone)
        | .ok (some (ot, c)) => (st.push { ty := ot, node := c, hook := none }, .okSome)
      | _ => (st, .err)
  | .copy s =>
    match st[s]? with
    | none => (st, .nohandle)
    | some o => (st.push { o with hook := none }, .ok)
  | .set id i x =>
    match st[id]? with
    | none => (st, .nohandle)
    | some o =>
      match construct h (slotTy o.ty i) x with
      | .error e => (st, outOfErr e)
      | .ok en => mutateM h st id (Mut.set h o.ty o.node i x en)
  | .setv id i s =>
    match st[id]?, st[s]? with
    | some o, some so =>
      -- the value handed to a packed (basic / bit) slot is read off the source view
      let x : Val := match viewVal so.ty so.node with | .ok v => v | .error _ => .none
      mutateM h st id (Mut.set h o.ty o.node i x so.node)
    | _, _ => (st, .nohandle)
  | .app id x =>
    match st[id]? with
    | none => (st, .nohandle)
    | some o =>
      match construct h (slotTy o.ty 0) x with
      | .error e => (st, outOfErr e)
      | .ok en => mutateM h st id (Mut.append h o.ty o.node x en)
  | .pop id =>
    match st[id]? with
    | none => (st, .nohandle)
    | some o => mutateM h st id (Mut.pop h o.ty o.node)
  | .chg id sel x =>
    match st[id]? with
    | none => (st, .nohandle)
    | some o =>
      match o.ty with
      | .union hasNone opts =>
        let content : R (Option Node) := match x with
          | .none => .ok none
          | _ => (construct h ((unionOpt hasNone opts sel).getD (opts.headD .bool)) x).map some
        match content with
        | .error e => (st, outOfErr e)
        | .ok c => mutateM h st id (Mut.change o.ty sel c)
      | _ => (st, .err)
  | .obs id =>
    match st[id]? with
    | none => (st, .nohandle)
    | some o =>
      match serializeView o.ty o.node with
      | .error .panic => (st, .panic)
      | .error _ => (st, .obs (o.node.root h) none none)
      | .ok bs =>
        match viewVal o.ty o.node with
        | .error .panic => (st, .panic)
        | .error _ => (st, .obs (o.node.root h) (some bs) none)
        | .ok v => (st, .obs (o.node.root h) (some bs) (some v))
  | .len id =>
    match st[id]? with
    | none => (st, .nohandle)
    | some o =>
      match o.ty with
      | .list _ lim | .bitlist lim =>
        (match listLength o.node lim with | .ok n => (st, .num n) | .error e => (st, outOfErr e))
      | .vector _ k | .bitvector k => (st, .num k)
      | .container fs => (st, .num fs.length)
      | _ => (st, .err)
  | .rd id i =>
    match st[id]? with
    | none => (st, .nohandle)
    | some o =>
      let r : R Val := do
        let (et, en) ← getElemNode o.ty o.node i
        if !viewFromBackingOk et en then .error .other else viewVal et en
      match r with
      | .ok v => (st, .val v)
      | .error e => (st, outOfErr e)
  | .blen id =>
    match st[id]? with
    | none => (st, .nohandle)
    | some o =>
      match valueByteLength o.ty o.node with
      | .ok n => (st, .num n)
      | .error e => (st, outOfErr e)
  | .appd id =>
    match st[id]? with
    | none => (st, .nohandle)
    | some o =>
      match o.ty with
      | .list _ _ | .bitlist _ =>
        (match defaultNode h (slotTy o.ty 0) with
         | .error e => (st, outOfErr e)
         | .ok en => mutateM h st id (Mut.append h o.ty o.node (defaultVal (slotTy o.ty 0)) en))
      | _ => (st, .err)
  | .appv id s =>
    match st[id]?, st[s]? with
    | some o, some so =>
      let x : Val := match viewVal so.ty so.node with | .ok v => v | .error _ => .none
      mutateM h st id (Mut.append h o.ty o.node x so.node)
    | _, _ => (st, .nohandle)
  | .setd id i =>
    match st[id]? with
    | none => (st, .nohandle)
    | some o =>
      match defaultNode h (slotTy o.ty i) with
      | .error e => (st, outOfErr e)
      | .ok en => mutateM h st id (Mut.set h o.ty o.node i (defaultVal (slotTy o.ty i)) en)

end ZtypV.Sim
