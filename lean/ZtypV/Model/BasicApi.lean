/-
Model P, package `view`: the BASIC VALUE API (view/basic.go, view/u256.go, view/root.go,
view/small_byte_vec.go).

One Lean function per Go method; a method that exists on several receiver types is one
function over the sum type of the receivers with one arm per Go method body, in the order of
the Go source:

* `BasicV`  — the dynamic types behind the Go interface `BasicView`
  (`Uint8View … Uint64View` as machine integers, `Uint256View` as its four 64-bit limbs
  `uint256.Int`, `BoolView`);
* `BV`      — the dynamic types behind `View` that this file covers: a `BasicV`, `*RootView`
  (a 32 byte array), `SmallByteVecView` (a byte slice);
* `Meta`    — the type definitions `UintMeta(td)`, `BoolMeta`, `RootMeta`, `SmallByteVecMeta(td)`.

Conventions
* `*Root` is a `[32]byte`; the model's `Root` is a byte list.  Every *variable* index or slice
  expression into a root is checked against the static array length 32 (`rootAt`, `rootSlice`,
  `rootPut`, `rootSetIdx` return `.error .panic` where Go panics); constant indices/slices
  (`out[0]`, `out[:2]`, `v[:8]`, `data[8:16]`) are checked by the Go compiler and modelled by the
  total list operations.
* The sub-index `i` is a Go `uint8`: the index arithmetic `i<<1`, `i*4`, `i*8`, `2*i+2`, `i>>3`,
  `i&7` is done on `UInt8` exactly as written (wrap-around included).
* `UintMeta` is a `uint64`, modelled as a natural (`td < 2^64`); `32 / td` with `td = 0` is Go's
  integer-divide-by-zero panic.
* A nil `*Root` returned by `BackingFromBase` is `none`.  In `PackViews` a nil result is either
  dereferenced by the next `BackingFromBase` call or stored as a nil `Node`: modelled as
  `.error .panic` at that point (the convention of Model/View.lean for nil backings).
* `Serialize(w)` is modelled on a writer that never fails (the bytes handed to `w`);
  failing writers are the subject of C13 (Model/IO.lean).
* `BoolView.Backing()` returns the shared global `trueRoot` / `&ZeroHashes[0]`: nodes are
  immutable, the model returns their contents.
-/
import ZtypV.Model.Decode
namespace ZtypV.BasicApi
open ZtypV ZtypV.View

/-! ## `encoding/binary.LittleEndian` -/

def putUint16 (v : UInt16) : Bytes := leBytes 2 v.toNat
def putUint32 (v : UInt32) : Bytes := leBytes 4 v.toNat
def putUint64 (v : UInt64) : Bytes := leBytes 8 v.toNat

/-- `LittleEndian.Uint16(b)`: reads `b[0], b[1]`; every caller hands a slice of at least 2 bytes
    (a successful slice expression of that length, or after a length check) -/
def getUint16 (b : Bytes) : UInt16 := UInt16.ofNat (leNat (b.take 2))
def getUint32 (b : Bytes) : UInt32 := UInt32.ofNat (leNat (b.take 4))
def getUint64 (b : Bytes) : UInt64 := UInt64.ofNat (leNat (b.take 8))

/-! ## `[32]byte` access -/

/-- overwrite `bs.length` bytes at offset `a` (total; used directly for constant slices) -/
def putAt (r : Root) (a : Nat) (bs : Bytes) : Root := r.take a ++ bs ++ r.drop (a + bs.length)

/-- `r[i]` with a variable index -/
def rootAt (r : Root) (i : Nat) : R UInt8 :=
  if i < 32 then .ok (r.getD i 0) else .error .panic

/-- `r[a:b]` with variable bounds -/
def rootSlice (r : Root) (a b : Nat) : R Bytes :=
  if a ≤ b ∧ b ≤ 32 then .ok ((r.drop a).take (b - a)) else .error .panic

/-- `r[i] = x` with a variable index -/
def rootSetIdx (r : Root) (i : Nat) (x : UInt8) : R Root :=
  if i < 32 then .ok (putAt r i [x]) else .error .panic

/-- `PutUintNN(r[a:b], v)`: the slice expression, then `bs.length` bytes written at its start
    (`PutUintNN` panics on a shorter slice) -/
def rootPut (r : Root) (a b : Nat) (bs : Bytes) : R Root :=
  if a ≤ b ∧ b ≤ 32 then
    if b - a < bs.length then .error .panic else .ok (putAt r a bs)
  else .error .panic

/-- Go `copy(dst, src)`: `min(len dst, len src)` bytes -/
def goCopy (dst src : Bytes) : Bytes := src.take dst.length ++ dst.drop src.length

/-- `var trueRoot = &Root{1}` -/
def trueRoot : Root := 1 :: List.replicate 31 0

/-! ## `Uint256View` = `uint256.Int` = `[4]uint64`, limb 0 least significant -/

structure U256 where
  l0 : UInt64
  l1 : UInt64
  l2 : UInt64
  l3 : UInt64
  deriving DecidableEq, Repr, Inhabited

namespace U256
def zero : U256 := ⟨0, 0, 0, 0⟩
def toNat (v : U256) : Nat :=
  v.l0.toNat + 2 ^ 64 * v.l1.toNat + 2 ^ 128 * v.l2.toNat + 2 ^ 192 * v.l3.toNat
/-- harness `u256View` / `SetFromBig` of a non-negative number: reduced mod 2^256 -/
def ofNat (n : Nat) : U256 :=
  ⟨UInt64.ofNat n, UInt64.ofNat (n / 2 ^ 64), UInt64.ofNat (n / 2 ^ 128), UInt64.ofNat (n / 2 ^ 192)⟩
/-- `Bytes32()` (= `Bytes()`) -/
def bytes32 (v : U256) : Bytes :=
  putUint64 v.l0 ++ putUint64 v.l1 ++ putUint64 v.l2 ++ putUint64 v.l3
/-- `setBytes32(data)` / `SetBytes32(data)`: `data[0:8] … data[24:32]` -/
def setBytes32 (data : Bytes) : U256 :=
  ⟨getUint64 ((data.drop 0).take 8), getUint64 ((data.drop 8).take 8),
   getUint64 ((data.drop 16).take 8), getUint64 ((data.drop 24).take 8)⟩
end U256

/-! ## the value types -/

/-- dynamic types of the interface `BasicView` -/
inductive BasicV where
  | u8 (v : UInt8)
  | u16 (v : UInt16)
  | u32 (v : UInt32)
  | u64 (v : UInt64)
  | u256 (v : U256)
  | bool (v : Bool)
  deriving DecidableEq, Repr, Inhabited

/-- dynamic types of `View` covered here -/
inductive BV where
  | basic (b : BasicV)
  | root (r : Root)          -- `*RootView`, a `[32]byte`
  | small (bs : Bytes)       -- `SmallByteVecView`, a `[]byte`
  deriving DecidableEq, Repr, Inhabited

/-- type definitions -/
inductive Meta where
  | uint (td : Nat)          -- `UintMeta(td)`, a uint64
  | bool                     -- `BoolType`
  | root                     -- `RootType`
  | small (td : Nat)         -- `SmallByteVecMeta(td)`, a uint8
  deriving DecidableEq, Repr, Inhabited

/-- `BoolView.byte()` -/
def boolByte (v : Bool) : UInt8 := if v then 1 else 0

namespace BasicV

/-- `Type()` -/
def type : BasicV → Meta
  | .u8 _ => .uint 1
  | .u16 _ => .uint 2
  | .u32 _ => .uint 4
  | .u64 _ => .uint 8
  | .u256 _ => .uint 32
  | .bool _ => .bool

/-- `Backing()` -/
def backing : BasicV → Node
  | .u8 v => .leaf (putAt z0 0 [v])                       -- out[0] = v
  | .u16 v => .leaf (putAt z0 0 (putUint16 v))            -- PutUint16(out[:2], v)
  | .u32 v => .leaf (putAt z0 0 (putUint32 v))
  | .u64 v => .leaf (putAt z0 0 (putUint64 v))
  | .u256 v => .leaf v.bytes32
  | .bool v => if v then .leaf trueRoot else .leaf z0     -- trueRoot / &ZeroHashes[0]

/-- `BackingFromBase(base, i)` on a non-nil base; `none` = nil -/
def backingFromBase : BasicV → Root → UInt8 → R (Option Root)
  | .u8 v, base, i =>
    if i ≥ 32 then .ok none
    else do let r ← rootSetIdx base i.toNat v; .ok (some r)
  | .u16 v, base, i =>
    if i ≥ 16 then .ok none
    else do let r ← rootPut base (i <<< 1).toNat ((i <<< 1) + 2).toNat (putUint16 v); .ok (some r)
  | .u32 v, base, i =>
    if i ≥ 8 then .ok none
    else do let r ← rootPut base (i * 4).toNat (i * 4 + 4).toNat (putUint32 v); .ok (some r)
  | .u64 v, base, i =>
    if i ≥ 4 then .ok none
    else do let r ← rootPut base (i * 8).toNat (i * 8 + 8).toNat (putUint64 v); .ok (some r)
  | .u256 v, _, i =>
    if i ≠ 0 then .ok none else .ok (some v.bytes32)
  | .bool v, base, i =>
    if i ≥ 32 then .ok none
    else do let r ← rootSetIdx base i.toNat (if v then 1 else 0); .ok (some r)

/-- `BoolView.BackingFromBitfieldBase(base, i)`; the other receivers do not have the method -/
def backingFromBitfieldBase (v : Bool) (base : Root) (i : UInt8) : R Root := do
  let b ← rootAt base (i >>> 3).toNat
  let mask : UInt8 := 1 <<< (i &&& 7)
  rootSetIdx base (i >>> 3).toNat (if v then b ||| mask else b &&& ~~~ mask)

/-- `Copy()`: value receivers -/
def copy (v : BasicV) : R BasicV := .ok v

/-- `ValueByteLength()` -/
def valueByteLength : BasicV → R Nat
  | .u8 _ => .ok 1
  | .u16 _ => .ok 2
  | .u32 _ => .ok 4
  | .u64 _ => .ok 8
  | .u256 _ => .ok 32
  | .bool _ => .ok 1

/-- `ByteLength()` -/
def byteLength : BasicV → Nat
  | .u8 _ => 1
  | .u16 _ => 2
  | .u32 _ => 4
  | .u64 _ => 8
  | .u256 _ => 32
  | .bool _ => 1

/-- `FixedLength()` -/
def fixedLength : BasicV → Nat
  | .u8 _ => 1
  | .u16 _ => 2
  | .u32 _ => 4
  | .u64 _ => 8
  | .u256 _ => 32
  | .bool _ => 1

/-- `Serialize(w)`: `WriteByte / WriteUint16 / WriteUint32 / WriteUint64 / Write(v.Bytes())` -/
def serializeW : BasicV → Bytes
  | .u8 v => [v]
  | .u16 v => putUint16 v
  | .u32 v => putUint32 v
  | .u64 v => putUint64 v
  | .u256 v => v.bytes32
  | .bool v => [boolByte v]

/-- `Encode()` (the error is always nil) -/
def encode : BasicV → Bytes
  | .u8 v => [v]
  | .u16 v => putUint16 v
  | .u32 v => putUint32 v
  | .u64 v => putUint64 v
  | .u256 v => v.bytes32
  | .bool v => [boolByte v]

/-- `DecodingReader.ReadByte` -/
def readByte (dr : DR) : R (UInt8 × DR) := do
  let (bs, dr') ← dr.read 1
  .ok (bs.headD 0, dr')

/-- `(*T).Deserialize(r)`: the receiver `dst` only fixes the type; on success it is overwritten -/
def deserialize : BasicV → DR → R (BasicV × DR)
  | .u8 _, dr => do
    let (b, dr') ← readByte dr
    .ok (.u8 b, dr')
  | .u16 _, dr => do
    let (bs, dr') ← dr.read 2
    .ok (.u16 (getUint16 bs), dr')
  | .u32 _, dr => do
    let (bs, dr') ← dr.read 4
    .ok (.u32 (getUint32 bs), dr')
  | .u64 _, dr => do
    let (bs, dr') ← dr.read 8
    .ok (.u64 (getUint64 bs), dr')
  | .u256 _, dr => do
    let (data, dr') ← dr.read 32
    .ok (.u256 (U256.setBytes32 data), dr')
  | .bool _, dr => do
    let (d, dr') ← readByte dr
    if d > 1 then .error .other else .ok (.bool (d > 0), dr')

/-- `(*T).Decode(x)` -/
def decode : BasicV → Bytes → R BasicV
  | .u8 _, x => if x.length ≠ 1 then .error .other else .ok (.u8 (x.getD 0 0))
  | .u16 _, x => if x.length ≠ 2 then .error .other else .ok (.u16 (getUint16 x))
  | .u32 _, x => if x.length ≠ 4 then .error .other else .ok (.u32 (getUint32 x))
  | .u64 _, x => if x.length ≠ 8 then .error .other else .ok (.u64 (getUint64 x))
  | .u256 _, x => if x.length ≠ 32 then .error .other else .ok (.u256 (U256.setBytes32 x))
  | .bool _, x =>
    if x.length ≠ 1 then .error .other
    else if x.getD 0 0 > 1 then .error .other
    else .ok (.bool (x.getD 0 0 > 0))

/-- `HashTreeRoot(h)` (the hash function is not used) -/
def hashTreeRoot : BasicV → Root
  | .u8 v => putAt z0 0 [v]
  | .u16 v => putAt z0 0 (putUint16 v)
  | .u32 v => putAt z0 0 (putUint32 v)
  | .u64 v => putAt z0 0 (putUint64 v)
  | .u256 v => v.bytes32
  | .bool v => putAt z0 0 [boolByte v]

end BasicV

namespace BV

/-- `Type()` -/
def type : BV → Meta
  | .basic b => b.type
  | .root _ => .root
  | .small bs => .small bs.length          -- SmallByteVecMeta(len(v)): a uint8 conversion for len < 256

/-- `Backing()` -/
def backing : BV → Node
  | .basic b => b.backing
  | .root r => .leaf r                      -- copy of the array
  | .small bs => .leaf (goCopy z0 bs)       -- copy(out[:], v)

/-- `Copy()` -/
def copy : BV → R BV
  | .basic b => .ok (.basic b)
  | .root r => .ok (.root r)
  | .small bs => .ok (.small (goCopy (List.replicate bs.length 0) bs))

/-- `ValueByteLength()` -/
def valueByteLength : BV → R Nat
  | .basic b => b.valueByteLength
  | .root _ => .ok 32
  | .small bs => .ok bs.length

/-- `Serialize(w)` -/
def serializeW : BV → Bytes
  | .basic b => b.serializeW
  | .root r => r                            -- w.Write(r[:])
  | .small bs => bs                         -- w.Write(v)

/-- `HashTreeRoot(h)` -/
def hashTreeRoot : BV → Root
  | .basic b => b.hashTreeRoot
  | .root r => r
  | .small bs => goCopy z0 bs

end BV

/-! ## type definitions -/

namespace Meta

/-- `Default(hook)`; `none` = a nil view (`Uint128Type` and unsupported sizes) -/
def defaultView : Meta → Option BV
  | .uint td =>
    match td with
    | 1 => some (.basic (.u8 0))
    | 2 => some (.basic (.u16 0))
    | 4 => some (.basic (.u32 0))
    | 8 => some (.basic (.u64 0))
    | 16 => none
    | 32 => some (.basic (.u256 U256.zero))
    | _ => none
  | .bool => some (.basic (.bool false))
  | .root => some (.root (List.replicate 32 0))
  | .small td => some (.small (List.replicate td 0))

/-- `New()` (`RootMeta` has none: `none`) -/
def new : Meta → Option BV
  | .uint td =>
    match td with
    | 1 => some (.basic (.u8 0))
    | 2 => some (.basic (.u16 0))
    | 4 => some (.basic (.u32 0))
    | 8 => some (.basic (.u64 0))
    | 16 => none
    | 32 => some (.basic (.u256 U256.zero))
    | _ => none
  | .bool => some (.basic (.bool false))
  | .root => none
  | .small td => some (.small (List.replicate td 0))

/-- `DefaultNode()`: `&ZeroHashes[0]` for all four -/
def defaultNode : Meta → Node
  | _ => .leaf z0

/-- `ViewFromBacking(node, hook)` -/
def viewFromBacking : Meta → Node → R BV
  | _, .pair _ _ => .error .other                         -- node.(*Root) fails
  | .uint td, .leaf v =>
    match td with
    | 1 => .ok (.basic (.u8 (v.getD 0 0)))
    | 2 => .ok (.basic (.u16 (getUint16 (v.take 2))))
    | 4 => .ok (.basic (.u32 (getUint32 (v.take 4))))
    | 8 => .ok (.basic (.u64 (getUint64 (v.take 8))))
    | 16 => .error .other
    | 32 => .ok (.basic (.u256 (U256.setBytes32 v)))
    | _ => .error .other
  | .bool, .leaf v => .ok (.basic (.bool (v.getD 0 0 != 0)))
  | .root, .leaf v => .ok (.root v)
  | .small td, .leaf r =>
    if td > 32 then .error .other
    else .ok (.small (goCopy (List.replicate td 0) r))

/-- `UintMeta.BasicViewFromBacking(v, i)` -/
def basicViewFromBacking (td : Nat) (v : Root) (i : UInt8) : R BasicV :=
  if td = 0 then .error .panic                            -- 32 / uint64(td)
  else if i.toNat ≥ 32 / td then .error .other
  else match td with
    | 1 => do let b ← rootAt v i.toNat; .ok (.u8 b)
    | 2 => do let s ← rootSlice v (2 * i).toNat (2 * i + 2).toNat; .ok (.u16 (getUint16 s))
    | 4 => do let s ← rootSlice v (4 * i).toNat (4 * i + 4).toNat; .ok (.u32 (getUint32 s))
    | 8 => do let s ← rootSlice v (8 * i).toNat (8 * i + 8).toNat; .ok (.u64 (getUint64 s))
    | 16 => .error .other
    | 32 => .ok (.u256 (U256.setBytes32 v))
    | _ => .error .other

/-- `BoolMeta.SubViewFromBacking(v, i)`; `none` = nil -/
def subViewFromBacking (v : Root) (i : UInt8) : R (Option BasicV) :=
  if i ≥ 32 then .ok none
  else do
    let b ← rootAt v i.toNat
    if b > 1 then .ok none else .ok (some (.bool (b == 1)))

/-- `BoolMeta.BoolViewFromBitfieldBacking(v, i)` -/
def boolViewFromBitfieldBacking (v : Root) (i : UInt8) : R Bool := do
  let b ← rootAt v (i >>> 3).toNat
  .ok (((b >>> (i &&& 7)) &&& 1) == 1)

/-- inner loop of `PackViews`: `for j < perNode && i < len(views)`; `fuel = perNode - j` -/
def packInner : Nat → Nat → Root → List BasicV → R (Root × List BasicV)
  | 0, _, acc, vs => .ok (acc, vs)
  | _ + 1, _, acc, [] => .ok (acc, [])
  | fuel + 1, j, acc, v :: vs => do
    match ← v.backingFromBase acc (UInt8.ofNat j) with
    | none => .error .panic
    | some r => packInner fuel (j + 1) r vs

/-- outer loop of `PackViews` over `chunkCount` chunks -/
def packOuter (perNode : Nat) : Nat → List BasicV → R (List Node)
  | 0, _ => .ok []
  | c + 1, vs => do
    let (acc, rest) ← packInner perNode 0 z0 vs
    let more ← packOuter perNode c rest
    .ok (.leaf acc :: more)

/-- `UintMeta.PackViews(views)` -/
def packViews (td : Nat) (views : List BasicV) : R (List Node) :=
  if td = 0 then .error .panic
  else
    let perNode := (32 / td) % 256                          -- uint8(32 / td)
    if perNode = 0 then .error .panic                       -- chunkCount: division by zero
    else packOuter perNode ((views.length + perNode - 1) / perNode) views

/-- `IsFixedByteLength()` -/
def isFixedByteLength : Meta → Bool
  | _ => true

/-- `TypeByteLength()` -/
def typeByteLength : Meta → Nat
  | .uint td => td
  | .bool => 1
  | .root => 32
  | .small td => td

/-- `MinByteLength()` -/
def minByteLength : Meta → Nat
  | .uint td => td
  | .bool => 1
  | .root => 32
  | .small td => td

/-- `MaxByteLength()` -/
def maxByteLength : Meta → Nat
  | .uint td => td
  | .bool => 1
  | .root => 32
  | .small td => td

/-- `Deserialize(dr)` -/
def deserialize : Meta → DR → R (BV × DR)
  | .uint td, dr =>
    match td with
    | 1 => do
      let (b, dr') ← BasicV.readByte dr
      .ok (.basic (.u8 b), dr')
    | 2 => do
      let (bs, dr') ← dr.read 2
      .ok (.basic (.u16 (getUint16 bs)), dr')
    | 4 => do
      let (bs, dr') ← dr.read 4
      .ok (.basic (.u32 (getUint32 bs)), dr')
    | 8 => do
      let (bs, dr') ← dr.read 8
      .ok (.basic (.u64 (getUint64 bs)), dr')
    | 16 => .error .other
    | 32 => do
      let (v, dr') ← BasicV.deserialize (.u256 U256.zero) dr
      .ok (.basic v, dr')
    | _ => .error .other
  | .bool, dr => do
    let (b, dr') ← BasicV.readByte dr
    if b > 1 then .error .other else .ok (.basic (.bool (b == 1)), dr')
  | .root, dr => do
    let (bs, dr') ← dr.read 32
    .ok (.root bs, dr')
  | .small td, dr => do
    let (bs, dr') ← dr.read td
    .ok (.small bs, dr')

end Meta

/-! ## the link to the specification's types and values -/

/-- the SSZ type a definition stands for -/
def Meta.ty : Meta → Ty
  | .uint td => .uint td
  | .bool => .bool
  | .root => .bytesN 32
  | .small td => .bytesN td

/-- the SSZ value a basic view stands for -/
def BasicV.val : BasicV → Val
  | .u8 v => .num v.toNat
  | .u16 v => .num v.toNat
  | .u32 v => .num v.toNat
  | .u64 v => .num v.toNat
  | .u256 v => .num v.toNat
  | .bool v => .bool v

def BV.val : BV → Val
  | .basic b => b.val
  | .root r => .bytes r
  | .small bs => .bytes bs

def BasicV.ty (v : BasicV) : Ty := v.type.ty
def BV.ty (v : BV) : Ty := v.type.ty

/-- the harness constructors `UintNView(n)` / `u256View(n)`: reduce mod 2^(8·size) -/
def BasicV.ofNat (td n : Nat) : Option BasicV :=
  match td with
  | 1 => some (.u8 (UInt8.ofNat n))
  | 2 => some (.u16 (UInt16.ofNat n))
  | 4 => some (.u32 (UInt32.ofNat n))
  | 8 => some (.u64 (UInt64.ofNat n))
  | 32 => some (.u256 (U256.ofNat n))
  | _ => none

/-- invariants Go's static types give: a root view is 32 bytes, a small byte vector's
    length fits `SmallByteVecMeta` (uint8) -/
def BV.wf : BV → Prop
  | .basic _ => True
  | .root r => r.length = 32
  | .small bs => bs.length ≤ 32

end ZtypV.BasicApi
