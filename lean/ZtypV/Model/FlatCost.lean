/-
Model of the FLAT codec, cost semantics (property C20, flat side): an allocation-instrumented
twin of `ZtypV.Flat.flatDecode` (Model/Flat.lean).  Same functions, same case splits, same order
of checks; next to the result every function returns the number of allocation UNITS requested
on that run, including runs that end in an error (what was requested before the failure
counts).  `flatDecodeM_res` (Proofs/FlatCost.lean) proves that the result component IS
`flatDecode`, the flat decoder validated against the real code.

What is counted (one unit ~ one byte requested from the allocator), Go statement by Go statement
(/repo/codec/decoder.go, /repo/tree/root.go; the user side is /verif/harness/flat.go):

  ByteVector/ByteList/BitVector/BitList
      `*dst = make([]byte, n, n)`, ONLY in the branch `cap(*dst) < n`            n
  Vector   `offsets := make([]uint64, length, length)` (BEFORE any check; `length` is the
           type's vector length, a type constant)                              8 · length
  List     `offsets := make([]uint64, 0, length)` (AFTER the repaired check
           `firstOffset == 0 || firstOffset > scope`, so `4·length ≤ scope`)     8 · length
  ReadRoots  `*roots = make([]Root, length, length)` when len ≠ length and cap < length
                                                                               32 · length
  SubScope   `&DecodingReader{…}` + `io.LimitReader` (as on the view side)       96
  Container  `offsets = append(offsets, …)`, `dynFields = append(dynFields, f)`: 16 units per
             append statement, i.e. 32 per dynamic field (true element sizes are 8 and 16 bytes;
             Go's amortised doubling, which may request up to about twice the final size in
             total, is NOT modelled: every append is charged its flat 16)
  List     `item := add()`: the caller's callback creating one zero element (harness:
           `newFlat(t.Elem)` + `append`): a TYPE constant                       64 + 64 · footprint e
  Union    `selectFn(selector)` creating the destination of the chosen option  64 + 64 · footprint t
  basic values (`Uint*View`, `BoolView`, `Root`): plain reads through the scratch pad   0

`footprint` is `ZtypV.View.footprint` (Model/DecodeCost.lean).  NOTE on the two caller-side
constants: they are the numbers fixed for this model; the harness's real `newFlat` is smaller for
lists and unions (nil slice / nil pointer) and is the PRODUCT of the vector lengths for nested
vectors (`newFlat` of a vector creates every slot).  Neither depends on the input.
Not counted: error values (`fmt.Errorf`), the variadic `fields...` slice the caller builds
(`desFields()`), the scratch pad.  `Vector`'s `item(i)` returns an existing slot: 0.
-/
import ZtypV.Model.Flat
import ZtypV.Model.DecodeCost
namespace ZtypV.Flat
open ZtypV ZtypV.View ZtypV.View.CR

/-- a `codec.Deserializable` with its allocation units -/
structure DesC where
  fixedLength : Nat
  run : DR → CR (Val × DR)

/-- forget the units -/
def DesC.erase (c : DesC) : Des := ⟨c.fixedLength, fun d => (c.run d).res⟩

/-- `if cap(*dst) < n { *dst = make([]byte, n, n) } else { *dst = (*dst)[:n] }` -/
def Slice.resizeC (s : Slice) (n : Nat) : CR Slice :=
  ⟨.ok (s.resize n), if s.cap < n then n else 0⟩     -- make([]byte, n, n)

/-- twin of `decByteVector` -/
def decByteVectorC (dst : Slice) (byteLength : Nat) (dr : DR) : CR (Slice × DR) := do
  let d ← dst.resizeC byteLength                     -- if cap(*dst) < byteLength { make([]byte, byteLength, byteLength) }
  lift (d.readFull dr)                               -- dr.Read(*dst)

/-- twin of `decByteList` -/
def decByteListC (dst : Slice) (byteLimit : Nat) (dr : DR) : CR (Slice × DR) :=
  let byteLen := dr.scope
  if byteLen > byteLimit then fail .other
  else do
    let d ← dst.resizeC byteLen                      -- if cap(*dst) < byteLen { make([]byte, byteLen, byteLen) }
    lift (d.readFull dr)

/-- twin of `decBitVector` -/
def decBitVectorC (dst : Slice) (bitLength : Nat) (dr : DR) : CR (Slice × DR) := do
  let byteLen := (bitLength + 7) / 8
  let d ← dst.resizeC byteLen                        -- if cap(*dst) < byteLen { make([]byte, byteLen, byteLen) }
  let (s, dr') ← lift (d.readFull dr)
  if bitvectorCheck s.bytes bitLength then pure (s, dr') else fail .other

/-- twin of `decBitList` -/
def decBitListC (dst : Slice) (bitLimit : Nat) (dr : DR) : CR (Slice × DR) :=
  let byteLen := dr.scope
  if byteLen > bitListByteLimit bitLimit then fail .other
  else do
    let d ← dst.resizeC byteLen                      -- if cap(*dst) < byteLen { make([]byte, byteLen, byteLen) }
    let (s, dr') ← lift (d.readFull dr)
    if bitlistCheck s.bytes bitLimit then pure (s, dr') else fail .other

/-- twin of `readRoots` -/
def readRootsC (dst : RSlice) (length : Nat) (dr : DR) : CR (RSlice × DR) := do
  -- if len(*roots) != length { if cap(*roots) >= length { reslice } else { *roots = make([]Root, length, length) } }
  tick (if dst.len ≠ length ∧ dst.cap < length then 32 * length else 0)
  lift (readRoots dst length dr)                     -- the reads go straight into dst[i][:]

/-- twin of `readRootsLimited` -/
def readRootsLimitedC (dst : RSlice) (limit : Nat) (dr : DR) : CR (RSlice × DR) :=
  let scope := dr.scope
  if scope % 32 ≠ 0 then fail .other
  else
    let length := scope / 32
    if length > limit then fail .other
    else readRootsC dst length dr

/-- twin of `decFixedItems`; `pre` = units of obtaining the item (`item(i)`: 0, `add()`: the
    caller's constant), requested BEFORE `SubScope` -/
def decFixedItemsC (pre size : Nat) : List DesC → DR → CR (List Val × DR)
  | [], dr => pure ([], dr)
  | it :: its, dr => do
    tick pre                                         -- item(i) / item := add()
    let (x, dr') ← dr.inSubC size it.run             -- sub, err := dr.SubScope(fixedElemSize); item.Deserialize(sub)
    let (xs, dr'') ← decFixedItemsC pre size its dr'
    pure (x :: xs, dr'')

/-- twin of `readOffsetsN` (reads go through the scratch pad) -/
def readOffsetsNC (n : Nat) (dr : DR) : CR (List Nat × DR) := lift (readOffsetsN n dr)

/-- twin of `decOffsetItems` -/
def decOffsetItemsC (pre : Nat) (vec : Bool) (scope : Nat) :
    Nat → List Nat → List DesC → DR → CR (List Val × DR)
  | _, [], _, dr => pure ([], dr)
  | _, _ :: _, [], _ => fail .panic
  | prev, off :: rest, it :: its, dr =>
    if prev > off then fail .other
    else do
      tick pre                                       -- item := item(uint64(i)) / item := add()
      let next := rest.headD scope
      if next < off then fail .other                 -- `next - off` wraps, `SubScope` refuses
      else do
        let (x, dr') ← dr.inSubC (next - off) it.run -- sub, err := dr.SubScope(next - off); item.Deserialize(sub)
        let (xs, dr'') ← decOffsetItemsC pre vec scope (if vec then next else off) rest its dr'
        pure (x :: xs, dr'')

/-- twin of `decVector` -/
def decVectorC (items : List DesC) (fixedElemSize : Nat) (dr : DR) : CR (List Val × DR) :=
  if fixedElemSize ≠ 0 then decFixedItemsC 0 fixedElemSize items dr
  else
    let scope := dr.scope
    let length := items.length
    do
      tick (8 * length)                              -- offsets := make([]uint64, length, length): BEFORE any check
      let (offs, dr1) ← readOffsetsNC length dr
      if length > 0 ∧ offs.headD 0 ≠ length * 4 then fail .other
      else decOffsetItemsC 0 true scope 0 offs items dr1

/-- twin of `decList`; `addCost` = units of one `add()` call -/
def decListC (addCost : Nat) (add : DR → CR (Val × DR)) (fixedElemSize limit : Nat) (dr : DR) :
    CR (List Val × DR) :=
  let scope := dr.scope
  if scope = 0 then pure ([], dr)
  else if fixedElemSize ≠ 0 then
    if scope % fixedElemSize ≠ 0 then fail .other
    else
      let length := scope / fixedElemSize
      if length > limit then fail .other
      else decFixedItemsC addCost fixedElemSize (List.replicate length ⟨fixedElemSize, add⟩) dr
  else do
    let (first, dr1) ← lift dr.readOffset
    if first % 4 ≠ 0 then fail .other
    else if first = 0 ∨ first > scope then fail .other    -- the repaired check: firstOffset ≤ scope …
    else
      let length := first / 4
      if length > limit then fail .other
      else do
        tick (8 * length)                            -- … BEFORE offsets := make([]uint64, 0, length)
        let (os, dr2) ← readOffsetsNC (length - 1) dr1
        decOffsetItemsC addCost false scope 0 (first :: os) (List.replicate length ⟨0, add⟩) dr2

/-- twin of `decFixedLenContainer` (no `SubScope`) -/
def decFixedLenContainerC : List DesC → DR → CR (List Val × DR)
  | [], dr => pure ([], dr)
  | f :: fs, dr => do
    let (x, dr') ← f.run dr                          -- f.Deserialize(dr)
    let (xs, dr'') ← decFixedLenContainerC fs dr'
    pure (x :: xs, dr'')

/-- `prev` after the first loop of `Container` -/
def containerFixedLenC : List DesC → Nat
  | [] => 0
  | f :: fs => (if f.fixedLength ≠ 0 then f.fixedLength else 4) + containerFixedLenC fs

/-- twin of `decContainerFixed` -/
def decContainerFixedC : List DesC → DR → CR (List (Option Val) × List Nat × List DesC × DR)
  | [], dr => pure ([], [], [], dr)
  | f :: fs, dr =>
    if f.fixedLength ≠ 0 then do
      let (x, dr') ← dr.inSubC f.fixedLength f.run   -- sub, err := dr.SubScope(fix); f.Deserialize(sub)
      let (slots, offs, dyn, dr'') ← decContainerFixedC fs dr'
      pure (some x :: slots, offs, dyn, dr'')
    else do
      let (o, dr') ← lift dr.readOffset
      tick 16                                        -- offsets = append(offsets, uint64(off))
      tick 16                                        -- dynFields = append(dynFields, f)
      let (slots, offs, dyn, dr'') ← decContainerFixedC fs dr'
      pure (Option.none :: slots, o :: offs, f :: dyn, dr'')

/-- twin of `decContainerDyn` -/
def decContainerDynC (scope : Nat) : List Nat → List DesC → DR → CR (List Val × DR)
  | [], _, dr => pure ([], dr)
  | _ :: _, [], _ => fail .panic
  | off :: rest, f :: fs, dr =>
    let next := rest.headD scope
    if next < off then fail .other
    else do
      let (x, dr') ← dr.inSubC (next - off) f.run    -- sub, err := dr.SubScope(next - off); f.Deserialize(sub)
      let (xs, dr'') ← decContainerDynC scope rest fs dr'
      pure (x :: xs, dr'')

/-- twin of `decContainer` -/
def decContainerC (fields : List DesC) (dr : DR) : CR (List Val × DR) :=
  let scope := dr.scope
  do
    let (slots, offs, dyn, dr1) ← decContainerFixedC fields dr
    if dyn.isEmpty ∨ offs.isEmpty then pure (mergeSlots slots [], dr1)
    else if containerFixedLenC fields ≠ offs.headD 0 then fail .other
    else do
      let (vs, dr2) ← decContainerDynC scope offs dyn dr1
      pure (mergeSlots slots vs, dr2)

/-- twin of `decUnion`; the `selectFn` allocates the destination -/
def decUnionC (select : Nat → CR (Option DesC)) (dr : DR) : CR ((Nat × Option Val) × DR) := do
  let (sb, dr1) ← lift (dr.read 1)                   -- selector, err := dr.ReadByte()
  let sel := (sb.headD 0).toNat
  let dest ← select sel                              -- dest, err := selectFn(selector)
  match dest with
  | Option.none =>
    if sel ≠ 0 then fail .other
    else if dr1.scope ≠ 0 then fail .other
    else pure ((sel, Option.none), dr1)
  | some d =>
    if d.fixedLength ≠ 0 ∧ d.fixedLength ≠ dr1.scope then fail .other
    else do
      let (v, dr2) ← d.run dr1                       -- dest.Deserialize(dr): same reader, no SubScope
      pure ((sel, some v), dr2)

/-- units of the caller creating one zero destination of type `t` (`add()` of a list, the
    `selectFn` of a union): a type constant -/
def zeroCost (t : Ty) : Nat := 64 + 64 * footprint t

mutual
/-- `Deserialize(dr)` of the flat destination that held `prior`, with its allocation units -/
def flatDecodeM : Ty → Val → DR → CR (Val × DR)
  | .uint b, _, dr => lift (decUint b dr)            -- (*UintNView).Deserialize: scratch pad only
  | .bool, _, dr => lift (decBool dr)                -- (*BoolView).Deserialize
  | .bytesN n, p, dr =>
    if n = 32 then lift (decRoot dr)                 -- (*Root).Deserialize: dr.Read(r[:])
    else do
      let (s, dr') ← decByteVectorC (priorSlice (.bytesN n) p) n dr
      pure (.bytes s.bytes, dr')
  | .bitvector n, p, dr => do
    let (s, dr') ← decBitVectorC (priorSlice (.bitvector n) p) n dr
    pure (.bits (unpackBits s.bytes n), dr')
  | .bitlist lim, p, dr => do
    let (s, dr') ← decBitListC (priorSlice (.bitlist lim) p) lim dr
    pure (.bits (unpackBitlist s.bytes), dr')
  | .vector e n, p, dr =>
    if isU8 e then do
      let (s, dr') ← decByteVectorC (priorSlice (.vector e n) p) n dr
      pure (.seq (s.bytes.map numOfByte), dr')
    else if isRootTy e then do
      let (s, dr') ← readRootsC (priorRoots p) n dr
      pure (.seq (s.roots.map Val.bytes), dr')
    else do
      let items := (List.range n).map fun i =>
        (⟨flatFixedLength e, fun d => flatDecodeM e (priorElem p i) d⟩ : DesC)
      let (vs, dr') ← decVectorC items (flatFixedLength e) dr
      pure (.seq vs, dr')
  | .list e lim, p, dr =>
    if isU8 e then do
      let (s, dr') ← decByteListC (priorSlice (.list e lim) p) lim dr
      pure (.seq (s.bytes.map numOfByte), dr')
    else if isRootTy e then do
      let (s, dr') ← readRootsLimitedC (priorRoots p) lim dr
      pure (.seq (s.roots.map Val.bytes), dr')
    else do
      -- `*l = (*l)[:0]`; add(): `e := newFlat(t.Elem); f.elems = append(f.elems, e)`
      let (vs, dr') ← decListC (zeroCost e) (fun d => flatDecodeM e Val.none d) (flatFixedLength e) lim dr
      pure (.seq vs, dr')
  | .container fs, p, dr =>
    if Ty.allFixed fs then do
      let (vs, dr') ← decFixedLenContainerC (flatFieldDesM fs p 0) dr
      pure (.seq vs, dr')
    else do
      let (vs, dr') ← decContainerC (flatFieldDesM fs p 0) dr
      pure (.seq vs, dr')
  | .union hasNone opts, _, dr => do
    let select : Nat → CR (Option DesC) := fun sel =>
      if sel ≥ opts.length + (if hasNone then 1 else 0) then fail .other
      else if hasNone && sel == 0 then pure Option.none
      else flatSelectM opts (if hasNone then sel - 1 else sel)
    let ((sel, ov), dr') ← decUnionC select dr
    match ov with
    | Option.none => pure (.union sel Val.none, dr')
    | some v => pure (.union sel v, dr')
/-- twin of `flatFieldDes` -/
def flatFieldDesM : List Ty → Val → Nat → List DesC
  | [], _, _ => []
  | t :: ts, p, i => ⟨flatFixedLength t, fun d => flatDecodeM t (priorElem p i) d⟩ :: flatFieldDesM ts p (i + 1)
/-- twin of `flatSelect`: `f.inner = newFlat(ot)` -/
def flatSelectM : List Ty → Nat → CR (Option DesC)
  | [], _ => fail .panic
  | t :: _, 0 => do
    tick (zeroCost t)                                -- f.inner = newFlat(ot)
    pure (some ⟨flatFixedLength t, fun d => flatDecodeM t Val.none d⟩)
  | _ :: ts, k + 1 => flatSelectM ts k
end

/-- the instrumented flat decoder: result and allocation units of one `Deserialize` call -/
def flatDecodeC (t : Ty) (prior : Val) (dr : DR) : R (Val × DR) × Nat :=
  ((flatDecodeM t prior dr).res, (flatDecodeM t prior dr).cost)

/-! ### the type constant of the flat bound -/

mutual
/-- `footprint` of the flat side: as `View.footprint` (fields / vector slots of the fixed
    structure, a list counts 1), except that a bit vector counts its BYTE length: the flat
    `BitVector` sizes the destination by the type before it reads or checks anything. -/
def flatFootprint : Ty → Nat
  | .bitvector n => (n + 7) / 8
  | .vector e n => n + flatFootprint e
  | .list e _ => 1 + flatFootprint e
  | .container fs => fs.length + flatFootprints fs
  | .union _ fs => 1 + flatFootprints fs
  | _ => 1
def flatFootprints : List Ty → Nat
  | [] => 0
  | t :: ts => flatFootprint t + flatFootprints ts
end

mutual
/-- allocation units per consumed input byte (structural; no limit, no offset value): the rate
    proved for successful runs, `cost ≤ flatRate t · (bytes consumed)`.
    Leaves: 1 unit per byte (the destination slice).  A vector slot: 96 (`SubScope`) + 8 (offset
    slot).  A list element: `add()`, one `SubScope`, 8 (offset slot).  A container field: one
    `SubScope` per field; the two appends and the second `SubScope` of a dynamic field are paid
    by the 4 bytes of its offset.  A union: the `selectFn` destination, paid by the selector
    byte.  Children add up along the nesting (each byte is charged once per level). -/
def flatRate : Ty → Nat
  | .uint _ | .bool => 0
  | .bytesN _ | .bitvector _ | .bitlist _ => 1
  | .vector e _ => 104 + flatRate e
  | .list e _ => 104 + zeroCost e + flatRate e
  | .container fs => 96 + flatRates fs
  | .union _ fs => 64 + 64 * footprints fs + flatRates fs
def flatRates : List Ty → Nat
  | [] => 0
  | t :: ts => max (flatRate t) (flatRates ts)
end

/-- units per input byte, per footprint slot and per nesting level in `C20_flat` -/
def flatCostK : Nat := 512

/-- the proved closed-form bound of C20 (flat side) on the allocation units of one
    `Deserialize` call on an input of `len` bytes -/
def flatCostBound (t : Ty) (len : Nat) : Nat := flatCostK * (len + 1) * flatFootprint t * (1 + nest t)

/-! ### the ORIGINAL upstream `DecodingReader.List`, offsets branch, for contrast -/

/-- `DecodingReader.List` with `fixedElemSize == 0` as upstream had it: `firstOffset` is only
    checked to be a multiple of 4 and (as `length`) against the LIMIT before
    `offsets := make([]uint64, 0, length)`; there is no `firstOffset ≤ scope` check.  Only the part
    up to the end of the offsets loop is modelled (all the counterexample needs). -/
def listOffsetsCostUnrepaired (limit : Nat) (dr : DR) : CR Unit :=
  let scope := dr.scope
  if scope = 0 then pure ()
  else do
    let (first, dr1) ← lift dr.readOffset
    if first % 4 ≠ 0 then fail .other
    else
      let length := first / 4
      if length > limit then fail .other
      else do
        tick (8 * length)                            -- offsets := make([]uint64, 0, length): sized by an OFFSET VALUE
        let (_, _) ← readOffsetsNC (length - 1) dr1
        pure ()

end ZtypV.Flat
