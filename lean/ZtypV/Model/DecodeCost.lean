/-
Model P, cost semantics of `TypeDef.Deserialize` (property C20): an allocation-instrumented
twin of `ZtypV.View.decode` (Model/Decode.lean).  Same mutual structure, same case splits, same
order of checks; next to the result it returns the number of allocation UNITS the Go code
requests on that run, including runs that end in an error (what was requested before the
failure counts).  `decodeC_fst` (Proofs/DecodeCost.lean) proves that the result component IS
`decode`, the decoder validated against the real code.

Units (one unit ~ one byte requested from the allocator; size classes, headers and the garbage
collector are not modelled — the driver calibrates a bytes-per-unit factor):

  make([]byte, n)                                   n
  make([]uint32, n)                                 4 n
  make([]View, n), make([]Node, n),
  make([]offsetField, 0, n)                         16 n
  &Root{} / new(Root) / a basic view's Backing()    32
  NewPairNode / &PairNode{}                         64
  SubScope (DecodingReader + io.LimitedReader)      96
  a returned view object (boxed basic value, slice header, *XxxView struct)   128

Go source mirrored: /repo/view/*.go `Deserialize`, `FromElements`, `FromFields`, `FromView`, `New`
(= `Default(nil)` = `ViewFromBacking(DefaultNode())`), /repo/view/subtree.go `BytesIntoNodes`,
/repo/tree/pair.go `SubtreeFillToContents`, /repo/codec/decoder.go `SubScope`.
Not counted: error values (`fmt.Errorf` strings; only on the single failing path, bounded by the
nesting depth of the type).  A basic view (`Uint8View` …, `BoolView`, `SmallByteVecView`,
`RootView`) is charged its `Backing()` root together with the view (the parent's
`FromElements/FromFields/FromView` calls it; at top level this over-counts by 32).
-/
import ZtypV.Model.Decode
namespace ZtypV.View

/-- a result together with the allocation units requested so far -/
structure CR (α : Type) where
  res : R α
  cost : Nat

namespace CR
variable {α β : Type}

/-- sequencing: the cost of the continuation is added only when the first part succeeded -/
def bind (x : CR α) (f : α → CR β) : CR β :=
  match x.res with
  | .ok a => ⟨(f a).res, x.cost + (f a).cost⟩
  | .error e => ⟨.error e, x.cost⟩

instance : Monad CR where
  pure a := ⟨.ok a, 0⟩
  bind := CR.bind

/-- a step of the decoder that allocates nothing -/
def lift (r : R α) : CR α := ⟨r, 0⟩
/-- request `n` units -/
def tick (n : Nat) : CR Unit := ⟨.ok (), n⟩
/-- return an error (the error value itself is not counted) -/
def fail (e : Err) : CR α := ⟨.error e, 0⟩
end CR

open CR

/-- pairs allocated by `SubtreeFillToContents(nodes, depth)` with `len(nodes) = k`
    (one `NewPairNode` per call that gets past the two early returns and `depth == 0`) -/
def fillCost : Nat → Nat → Nat
  | depth, k =>
    if k = 0 then 0
    else if k > 2 ^ depth then 0
    else match depth with
      | 0 => 0
      | d + 1 =>
        if d = 0 then 1
        else if k ≤ 2 ^ d then fillCost d k + 1
        else fillCost d (2 ^ d) + fillCost d (k - 2 ^ d) + 1

/-- `SubtreeFillToContents`: the result of `fillToContents`, 64 units per pair node -/
def fillC (h : HashFn) (depth : Nat) (ns : List Node) : CR Node :=
  ⟨fillToContents h depth ns, 64 * fillCost depth ns.length⟩

/-- `BytesIntoNodes`: `make([]Node, chunkCount)` and one `&Root{}` per chunk -/
def bytesIntoNodesC (bs : Bytes) : CR (List Node) :=
  ⟨.ok (bytesIntoNodes bs), 48 * ((bs.length + 31) / 32)⟩

/-- an ignored `SubtreeFill…` error: the nil backing panics later -/
def orNilC (r : CR Node) : CR Node := ⟨orNil r.res, r.cost⟩

/-- `FromFields` returns the error of `SubtreeFillToContents` -/
def orOtherC (r : CR Node) : CR Node :=
  ⟨match r.res with
    | .ok n => .ok n
    | .error _ => .error .other, r.cost⟩

/-- `SubScope(count)` (96 units once the scope check passed), the child, the parent afterwards -/
def DR.inSubC {α : Type} (dr : DR) (count : Nat) (f : DR → CR (α × DR)) : CR (α × DR) := do
  let c0 ← lift (dr.sub count)
  tick 96
  let (a, c1) ← f c0
  pure (a, dr.after c0 c1)

/-- twin of `decodeFixedItems` -/
def decodeFixedItemsC (f : DR → CR (Node × DR)) (size : Nat) : Nat → DR → CR (List Node × DR)
  | 0, dr => pure ([], dr)
  | n + 1, dr => do
    let (x, dr') ← dr.inSubC size f
    let (xs, dr'') ← decodeFixedItemsC f size n dr'
    pure (x :: xs, dr'')

/-- twin of `decodeOffsetItems` -/
def decodeOffsetItemsC (f : DR → CR (Node × DR)) (scope : Nat) : List Nat → DR → CR (List Node × DR)
  | [], dr => pure ([], dr)
  | [last], dr => do
    if last > scope then fail .other
    else do
      let (x, dr') ← dr.inSubC (scope - last) f
      pure ([x], dr')
  | o :: o' :: rest, dr => do
    let (x, dr') ← dr.inSubC (o' - o) f
    let (xs, dr'') ← decodeOffsetItemsC f scope (o' :: rest) dr'
    pure (x :: xs, dr'')

/-- twin of `readOffsets` (reads go through the reader's scratch pad: nothing is allocated) -/
def readOffsetsC (n prev : Nat) (dr : DR) : CR (List Nat × DR) := lift (readOffsets n prev dr)

/-- `OffsetsCount` of a container type -/
def dynCount : List Ty → Nat
  | [] => 0
  | t :: ts => (if t.isFixed then 0 else 1) + dynCount ts

mutual
/-- `TypeDef.Deserialize(dr)` with its allocation units -/
def decodeM (h : HashFn) : Ty → DR → CR (Node × DR)
  | .uint b, dr => do
    let (bs, dr') ← lift (dr.read b)
    tick 160                                   -- the boxed UintNView (128) and its Backing() root (32)
    pure (.leaf (chunkOf bs), dr')
  | .bool, dr => do
    let (bs, dr') ← lift (dr.read 1)
    match bs with
    | [x] =>
      if x > 1 then fail .other
      else do
        tick 160                               -- BoolView and its Backing() root
        pure (.leaf (chunkOf [x]), dr')
    | _ => fail .panic
  | .bytesN k, dr => do
    tick k                                     -- v := make(SmallByteVecView, td) / v := RootView{}
    let (bs, dr') ← lift (dr.read k)
    tick 160                                   -- the view (slice header / pointer) and its Backing() root
    pure (.leaf (chunkOf bs), dr')
  | .bitvector k, dr =>
    let scope := dr.scope
    if (k + 7) / 8 ≠ scope then fail .other
    else do
      tick scope                               -- contents := make([]byte, scope)
      let (bs, dr') ← lift (dr.read scope)
      let bad := scope ≠ 0 && k % 8 ≠ 0 &&
        (match bs.getLast? with
         | some last => last.toNat % 2 ^ (k % 8) ≠ last.toNat
         | Option.none => false)
      if bad then fail .other
      else do
        let ns ← bytesIntoNodesC bs
        let n ← orNilC (fillC h (bitDepth k) ns)
        tick 128                               -- &BitVectorView{…}
        pure (n, dr')
  | .bitlist lim, dr =>
    let scope := dr.scope
    if scope = 0 then fail .other
    else if scope > (lim + 8) / 8 then fail .other
    else do
      tick scope                               -- contents := make([]byte, scope)
      let (bs, dr') ← lift (dr.read scope)
      match bs.getLast? with
      | Option.none => fail .panic
      | some last =>
        if last = 0 then fail .other
        else if scope = 1 ∧ last = 1 then do
          tick 192                             -- td.New(): &PairNode{…} (64) + &BitListView{…} (128)
          pure (.pair (zeroNode h (bitDepth lim)) (zeroNode h 0), dr')
        else
          let dbi := byteBitIndex last
          let bitLen := (scope - 1) * 8 + dbi
          if bitLen > lim then fail .other
          else
            let contents :=
              if dbi = 0 then bs.dropLast
              else bs.dropLast ++ [UInt8.ofNat (last.toNat - 2 ^ dbi)]
            do
              let ns ← bytesIntoNodesC contents
              let c ← orNilC (fillC h (bitDepth lim) ns)
              tick 224                         -- &PairNode{…} (64), Uint64View(bitLen).Backing() (32), the view (128)
              pure (.pair c (lengthNode bitLen), dr')
  | .vector e k, dr =>
    let scope := dr.scope
    if isBasicElem e then
      if k * e.fixedSize ≠ scope then fail .other
      else do
        tick scope                             -- contents := make([]byte, scope)
        let (bs, dr') ← lift (dr.read scope)
        let ns ← bytesIntoNodesC bs
        let n ← orNilC (fillC h (seriesDepth e k) ns)
        tick 128                               -- &BasicVectorView{…}
        pure (n, dr')
    else if e.isFixed then
      if k * e.fixedSize ≠ scope then fail .other
      else do
        tick (16 * k)                          -- elements := make([]View, VectorLength)
        let (ns, dr') ← decodeFixedItemsC (fun d => decodeM h e d) e.fixedSize k dr
        tick (16 * k)                          -- FromElements: nodes := make([]Node, VectorLength)
        let n ← orNilC (fillC h (coverDepth k) ns)
        tick 128                               -- &ComplexVectorView{…}
        pure (n, dr')
    else do
      tick (4 * k)                             -- offsets := make([]uint32, VectorLength): BEFORE any check
      if k = 0 then fail .panic
      else do
        let (first, dr1) ← lift dr.readOffset
        if first ≠ k * 4 then fail .other
        else do
          let (os, dr2) ← readOffsetsC (k - 1) first dr1
          tick (16 * k)                        -- elements := make([]View, VectorLength)
          let (ns, dr3) ← decodeOffsetItemsC (fun d => decodeM h e d) scope (first :: os) dr2
          tick (16 * k)                        -- FromElements: nodes := make([]Node, VectorLength)
          let n ← orNilC (fillC h (coverDepth k) ns)
          tick 128                             -- &ComplexVectorView{…}
          pure (n, dr3)
  | .list e lim, dr =>
    let scope := dr.scope
    if isBasicElem e then
      let size := e.fixedSize
      let length := scope / size
      if length > lim then fail .other
      else if length * size ≠ scope then fail .other
      else if length = 0 then do
        tick 192                               -- td.New(): &PairNode{…} + &BasicListView{…}
        pure (.pair (zeroNode h (seriesDepth e lim)) (zeroNode h 0), dr)
      else do
        tick scope                             -- contents := make([]byte, scope)
        let (bs, dr') ← lift (dr.read scope)
        let ns ← bytesIntoNodesC bs
        let c ← orNilC (fillC h (seriesDepth e lim) ns)
        tick 224                               -- &PairNode{…}, Uint64View(length).Backing(), the view
        pure (.pair c (lengthNode length), dr')
    else if scope = 0 then do
      tick 192                                 -- td.New(): &PairNode{…} + &ComplexListView{…}
      pure (.pair (zeroNode h (seriesDepth e lim)) (zeroNode h 0), dr)
    else if e.isFixed then
      let size := e.fixedSize
      if size = 0 then fail .panic
      else
        let length := scope / size
        if length > lim then fail .other
        else if length * size ≠ scope then fail .other
        else do
          tick (16 * length)                   -- elements := make([]View, length): length ≤ scope
          let (ns, dr') ← decodeFixedItemsC (fun d => decodeM h e d) size length dr
          tick (16 * length)                   -- FromElements: nodes := make([]Node, len(v))
          let c ← orNilC (fillC h (coverDepth lim) ns)
          tick 224                             -- &PairNode{…}, Uint64View(len).Backing(), the view
          pure (.pair c (lengthNode length), dr')
    else do
      let (first, dr1) ← lift dr.readOffset
      if first % 4 ≠ 0 then fail .other
      else if first = 0 ∨ first > scope then fail .other      -- the repaired check: firstOffset ≤ scope …
      else
        let length := first / 4
        if length > lim then fail .other
        else do
          tick (4 * length)                    -- … BEFORE offsets := make([]uint32, length)
          let (os, dr2) ← readOffsetsC (length - 1) first dr1
          tick (16 * length)                   -- elements := make([]View, length)
          let (ns, dr3) ← decodeOffsetItemsC (fun d => decodeM h e d) scope (first :: os) dr2
          tick (16 * length)                   -- FromElements: nodes := make([]Node, len(v))
          let c ← orNilC (fillC h (coverDepth lim) ns)
          tick 224                             -- &PairNode{…}, Uint64View(len).Backing(), the view
          pure (.pair c (lengthNode length), dr3)
  | .container fs, dr =>
    let scope := dr.scope
    do
    -- fields := make([]View, len(td.Fields)); offsets := make([]offsetField, 0, td.OffsetsCount): BEFORE checkScope
    tick (16 * fs.length + 16 * dynCount fs)
    if scope < Ty.minFields fs ∨ scope > Ty.maxFields fs then fail .other
    else do
      let (slots, offs, dr1) ← decodeFixedPartM h fs (Ty.fixedPart fs) true scope dr
      let (dyn, dr2) ← decodeDynPartM h fs scope offs dr1
      let ns := mergeFields slots dyn
      tick (16 * fs.length)                    -- FromFields: nodes := make([]Node, len(td.Fields))
      let n ← orOtherC (fillC h (coverDepth fs.length) ns)
      tick 128                                 -- &ContainerView{…}
      pure (n, dr2)
  | .union hasNone opts, dr =>
    let scope := dr.scope
    if scope = 0 then fail .other
    else do
      let (sb, dr1) ← lift (dr.read 1)
      let sel := (sb.getD 0 0).toNat
      if sel ≥ opts.length + (if hasNone then 1 else 0) then fail .other
      else if hasNone && sel == 0 then
        if scope ≠ 1 then fail .other
        else do
          tick 256                             -- FromView(sel, nil): new(Root), selector root, NewPairNode, &UnionView{…}
          pure (.pair (.leaf z0) (.leaf (chunkOf [UInt8.ofNat sel])), dr1)
      else do
        let (c, dr2) ← decodeOptM h opts (if hasNone then sel - 1 else sel) (scope - 1) dr1
        tick 224                               -- FromView: selector root, NewPairNode, &UnionView{…}
        pure (.pair c (.leaf (chunkOf [UInt8.ofNat sel])), dr2)
/-- twin of `decodeFixedPart` -/
def decodeFixedPartM (h : HashFn) : List Ty → Nat → Bool → Nat → DR → CR (List (Option Node) × List Nat × DR)
  | [], _, _, _, dr => pure ([], [], dr)
  | t :: ts, prev, first, scope, dr =>
    if t.isFixed then do
      let (x, dr') ← dr.inSubC t.fixedSize (fun d => decodeM h t d)
      let (slots, offs, dr'') ← decodeFixedPartM h ts prev first scope dr'
      pure (some x :: slots, offs, dr'')
    else do
      let (o, dr') ← lift dr.readOffset
      if o < prev then fail .other
      else if first && o ≠ prev then fail .other
      else if o > scope then fail .other
      else do
        let (slots, offs, dr'') ← decodeFixedPartM h ts o false scope dr'
        pure (Option.none :: slots, o :: offs, dr'')
/-- twin of `decodeDynPart` -/
def decodeDynPartM (h : HashFn) : List Ty → Nat → List Nat → DR → CR (List Node × DR)
  | [], _, _, dr => pure ([], dr)
  | t :: ts, scope, offs, dr =>
    if t.isFixed then decodeDynPartM h ts scope offs dr
    else
      match offs with
      | [] => fail .panic
      | o :: rest => do
        let next := match rest with | [] => scope | o' :: _ => o'
        let (x, dr') ← dr.inSubC (next - o) (fun d => decodeM h t d)
        let (xs, dr'') ← decodeDynPartM h ts scope rest dr'
        pure (x :: xs, dr'')
/-- twin of `decodeOpt` (the option is decoded in the union's own reader: no `SubScope`) -/
def decodeOptM (h : HashFn) : List Ty → Nat → Nat → DR → CR (Node × DR)
  | [], _, _, _ => fail .panic
  | t :: _, 0, rem, dr =>
    if t.isFixed && t.fixedSize != rem then fail .other
    else decodeM h t dr
  | _ :: ts, k + 1, rem, dr => decodeOptM h ts k rem dr
end

/-- the instrumented decoder: result and allocation units of one `Deserialize` call -/
def decodeC (h : HashFn) (t : Ty) (dr : DR) : (R (Node × DR)) × Nat :=
  ((decodeM h t dr).res, (decodeM h t dr).cost)

/-! ### the quantities of the bound (structural recursion; no limit, no offset value) -/

mutual
/-- number of fields / vector slots of the type's fixed structure.  A list counts 1 whatever
    its limit; a vector counts its slots once (not multiplied through the element type: along one
    failing path at most one instance of each nested type allocates before its scope check). -/
def footprint : Ty → Nat
  | .vector e n => n + footprint e
  | .list e _ => 1 + footprint e
  | .container fs => fs.length + footprints fs
  | .union _ fs => 1 + footprints fs
  | _ => 1
def footprints : List Ty → Nat
  | [] => 0
  | t :: ts => footprint t + footprints ts
end

mutual
/-- depth of the deepest basic leaf in the type's full backing tree (subtree depths of all the
    nesting levels on the way, length mix-ins and selectors included) plus one per nesting level:
    each input byte pays one path of pair nodes and one reader/view/slot per level it sits under.
    Limits enter only through `coverDepth` (≤ 64 for 64-bit limits): see `maxDepth_le`. -/
def maxDepth : Ty → Nat
  | .uint _ | .bool | .bytesN _ => 0
  | .bitvector n => 1 + bitDepth n
  | .bitlist lim => 2 + bitDepth lim
  | .vector e n => 1 + seriesDepth e n + maxDepth e
  | .list e lim => 2 + seriesDepth e lim + maxDepth e
  | .container fs => 1 + coverDepth fs.length + maxDepths fs
  | .union _ fs => 2 + maxDepths fs
def maxDepths : List Ty → Nat
  | [] => 0
  | t :: ts => max (maxDepth t) (maxDepths ts)
end

mutual
/-- nesting depth of the type expression (limit-free) -/
def nest : Ty → Nat
  | .vector e _ => 1 + nest e
  | .list e _ => 1 + nest e
  | .container fs => 1 + nests fs
  | .union _ fs => 1 + nests fs
  | .bitvector _ | .bitlist _ => 1
  | _ => 0
def nests : List Ty → Nat
  | [] => 0
  | t :: ts => max (nest t) (nests ts)
end

mutual
/-- every vector length, list limit, bit count and field count fits a Go `uint64` -/
def lims64 : Ty → Bool
  | .bitvector n => n < 2 ^ 64
  | .bitlist lim => lim < 2 ^ 64
  | .vector e n => n < 2 ^ 64 && lims64 e
  | .list e lim => lim < 2 ^ 64 && lims64 e
  | .container fs => fs.length < 2 ^ 64 && lims64s fs
  | .union _ fs => lims64s fs
  | _ => true
def lims64s : List Ty → Bool
  | [] => true
  | t :: ts => lims64 t && lims64s ts
end

mutual
/-- the type with every list / bitlist LIMIT erased (set to 0): what `footprint` and `nest` see -/
def eraseLims : Ty → Ty
  | .bitlist _ => .bitlist 0
  | .list e _ => .list (eraseLims e) 0
  | .vector e n => .vector (eraseLims e) n
  | .container fs => .container (eraseLimsL fs)
  | .union hn fs => .union hn (eraseLimsL fs)
  | .uint b => .uint b
  | .bool => .bool
  | .bytesN n => .bytesN n
  | .bitvector n => .bitvector n
def eraseLimsL : List Ty → List Ty
  | [] => []
  | t :: ts => eraseLims t :: eraseLimsL ts
end

/-- units per (input byte + footprint slot) and per level of depth in `C20_view` -/
def costK : Nat := 2048

/-- the proved bound of C20 on the allocation units of one decode call -/
def costBound (t : Ty) (len : Nat) : Nat := costK * (len + footprint t) * (1 + maxDepth t)

/-! ### the ORIGINAL upstream complex-list decoder (variable-size elements), for contrast -/

/-- `ComplexListTypeDef.Deserialize`, offsets branch, as upstream had it: `firstOffset` is only
    compared with the LIMIT before `offsets := make([]uint32, firstOffset/4)` — there is no
    `firstOffset ≤ scope` check.  Only the part up to the first failing read is modelled (that
    is all the counterexample needs): returns the units requested. -/
def listVarCostUnrepaired (lim : Nat) (dr : DR) : CR Unit := do
  let scope := dr.scope
  if scope = 0 then tick 192
  else do
    let (first, dr1) ← lift dr.readOffset
    if first % 4 ≠ 0 then fail .other
    else
      let length := first / 4
      if length > lim then fail .other
      else do
        tick (4 * length)                      -- offsets := make([]uint32, length): sized by an OFFSET VALUE
        let (_, _) ← readOffsetsC (length - 1) first dr1
        tick (16 * length)
        pure ()

end ZtypV.View
