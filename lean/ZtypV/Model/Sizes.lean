/-
Model P, package `view`: the size metadata every type constructor computes
(`IsFixedByteLength`, `TypeByteLength`, `MinByteLength`, `MaxByteLength`), one Lean function
per Go constructor, in WRAPPING `UInt64` arithmetic exactly as the Go `uint64` expressions.

  basic.go          UintMeta, BoolMeta            -> `uintMeta`, `boolMeta`
  small_byte_vec.go SmallByteVecMeta (a uint8)    -> `smallByteVecMeta`
  root.go           RootMeta                      -> `rootMeta`
  bitvector.go      BitVectorType                 -> `bitVectorType`
  bitlist.go        BitListType                   -> `bitListType`
  basic_vector.go   BasicVectorType               -> `basicVectorType`
  basic_list.go     BasicListType                 -> `basicListType`
  complex_vector.go ComplexVectorType             -> `complexVectorType`
  complex_list.go   ComplexListType               -> `complexListType`
  complex.go        VectorType / ListType         -> `vectorType` / `listType` (dispatch on `elemType.(BasicTypeDef)`)
  container.go      ContainerType                 -> `containerType` (the `for _, f := range fields` loop = `containerLoop`)
  union.go          UnionType                     -> `unionType` (the `for … range options[1:]` loop = `unionLoop`)

`sizeInfo : Ty → SizeInfo` composes them the way harness/types.go `typeDef` (a downstream user)
builds the type definition of a `Ty`.  The only panic site of these constructors is
`UnionType(options)` with `len(options) == 0`; Go evaluates the sub-type constructors eagerly, so
the construction of `t` panics iff some union inside `t` has no option at all: `panics t`.
`typeSizes` is the observable outcome (`none` = panic).
Core Lean only.
-/
import ZtypV.Spec
namespace ZtypV.Sizes

/-- the four observable size facts of a `TypeDef` -/
structure SizeInfo where
  isFixed : Bool
  size : UInt64
  min : UInt64
  max : UInt64
  deriving DecidableEq, Repr, Inhabited

/-- `const OffsetByteLength = 4` -/
def offsetByteLength : UInt64 := 4

/-- `UintMeta(n)`: all three lengths are `uint64(td)` -/
def uintMeta (td : UInt64) : SizeInfo := ⟨true, td, td, td⟩

/-- `BoolMeta` -/
def boolMeta : SizeInfo := ⟨true, 1, 1, 1⟩

/-- `SmallByteVecMeta(n)` (`type SmallByteVecMeta uint8`): lengths are `uint64(td)` -/
def smallByteVecMeta (td : UInt8) : SizeInfo := ⟨true, td.toUInt64, td.toUInt64, td.toUInt64⟩

/-- `RootMeta` -/
def rootMeta : SizeInfo := ⟨true, 32, 32, 32⟩

/-- `BitVectorType(length)`: `byteSize := (length + 7) / 8` -/
def bitVectorType (length : UInt64) : SizeInfo :=
  let byteSize := (length + 7) / 8
  ⟨true, byteSize, byteSize, byteSize⟩

/-- `BitListType(limit)`: `MinSize: 1, MaxSize: (limit + 7 + 1) / 8, Size: 0` -/
def bitListType (limit : UInt64) : SizeInfo :=
  ⟨false, 0, 1, (limit + 7 + 1) / 8⟩

/-- `BasicVectorType(elemType, length)`: `size := length * elemType.TypeByteLength()` -/
def basicVectorType (elemType : SizeInfo) (length : UInt64) : SizeInfo :=
  let size := length * elemType.size
  ⟨true, size, size, size⟩

/-- `BasicListType(elemType, limit)` -/
def basicListType (elemType : SizeInfo) (limit : UInt64) : SizeInfo :=
  ⟨false, 0, 0, limit * elemType.size⟩

/-- `ComplexVectorType(elemType, length)` -/
def complexVectorType (elemType : SizeInfo) (length : UInt64) : SizeInfo :=
  if elemType.isFixed then
    let size := length * elemType.size
    ⟨true, size, size, size⟩
  else
    ⟨false, 0, length * (elemType.min + offsetByteLength), length * (elemType.max + offsetByteLength)⟩

/-- `ComplexListType(elemType, limit)` -/
def complexListType (elemType : SizeInfo) (limit : UInt64) : SizeInfo :=
  let maxSize :=
    if elemType.isFixed then limit * elemType.size
    else limit * (elemType.max + offsetByteLength)
  ⟨false, 0, 0, maxSize⟩

/-- `VectorType`: `elemType.(BasicTypeDef)` succeeds only for `UintMeta` (`isBasic`) -/
def vectorType (isBasic : Bool) (elemType : SizeInfo) (length : UInt64) : SizeInfo :=
  if isBasic then basicVectorType elemType length else complexVectorType elemType length

/-- `ListType` -/
def listType (isBasic : Bool) (elemType : SizeInfo) (limit : UInt64) : SizeInfo :=
  if isBasic then basicListType elemType limit else complexListType elemType limit

/-- loop state of `ContainerType`.  `offsetsCount` is a `uint64` counter incremented once per
    field; a Go slice has fewer than 2^63 elements, so it cannot wrap and is kept as a `Nat`. -/
structure ContainerAcc where
  minSize : UInt64
  maxSize : UInt64
  fixedPart : UInt64
  offsetsCount : Nat

/-- one iteration of `for _, f := range fields` -/
def containerStep (a : ContainerAcc) (f : SizeInfo) : ContainerAcc :=
  if f.isFixed then
    let size := f.size
    { a with fixedPart := a.fixedPart + size, minSize := a.minSize + size, maxSize := a.maxSize + size }
  else
    { offsetsCount := a.offsetsCount + 1,
      fixedPart := a.fixedPart + offsetByteLength,
      minSize := a.minSize + (offsetByteLength + f.min),
      maxSize := a.maxSize + (offsetByteLength + f.max) }

def containerLoop : List SizeInfo → ContainerAcc → ContainerAcc
  | [], a => a
  | f :: fs, a => containerLoop fs (containerStep a f)

/-- `ContainerType(name, fields)` -/
def containerType (fields : List SizeInfo) : SizeInfo :=
  let a := containerLoop fields ⟨0, 0, 0, 0⟩
  let isFixedSize := a.offsetsCount == 0
  let size := if isFixedSize then a.fixedPart else 0
  ⟨isFixedSize, size, a.minSize, a.maxSize⟩

/-- the loop `for i, t := range options[1:]` of `UnionType` on `(minSize, maxSize)` -/
def unionLoop : List SizeInfo → UInt64 × UInt64 → UInt64 × UInt64
  | [], acc => acc
  | t :: ts, (minSize, maxSize) =>
    let minSize := if t.min < minSize then t.min else minSize
    let maxSize := if t.max > maxSize then t.max else maxSize
    unionLoop ts (minSize, maxSize)

/-- `UnionType(options)` for `len(options) ≥ 1`: `first` is `options[0]` (`none` = nil = the None
    option), `rest` is `options[1:]` -/
def unionType (first : Option SizeInfo) (rest : List SizeInfo) : SizeInfo :=
  let init : UInt64 × UInt64 :=
    match first with
    | some o => (o.min, o.max)
    | none => (0, 0)
  let r := unionLoop rest init
  ⟨false, 0, r.1 + 1, r.2 + 1⟩

/-- `elemType.(BasicTypeDef)`: only `UintMeta` implements it (`BoolMeta` does not: finding D3) -/
def isBasicElem : Ty → Bool
  | .uint _ => true
  | _ => false

mutual
/-- the size metadata of the `TypeDef` that harness `typeDef t` builds.  For a union without any
    option (`panics`) the value is irrelevant. -/
def sizeInfo : Ty → SizeInfo
  | .uint b => uintMeta (UInt64.ofNat b)
  | .bool => boolMeta
  | .bytesN n => if n = 32 then rootMeta else smallByteVecMeta (UInt8.ofNat n)
  | .bitvector n => bitVectorType (UInt64.ofNat n)
  | .bitlist lim => bitListType (UInt64.ofNat lim)
  | .vector e n => vectorType (isBasicElem e) (sizeInfo e) (UInt64.ofNat n)
  | .list e lim => listType (isBasicElem e) (sizeInfo e) (UInt64.ofNat lim)
  | .container fs => containerType (sizeInfos fs)
  | .union hasNone opts =>
    if hasNone then unionType none (sizeInfos opts)
    else match sizeInfos opts with
      | o :: rest => unionType (some o) rest
      | [] => ⟨false, 0, 1, 1⟩          -- unreachable: `UnionType` panicked
def sizeInfos : List Ty → List SizeInfo
  | [] => []
  | t :: ts => sizeInfo t :: sizeInfos ts
end

mutual
/-- does building the type definition panic (`UnionType` with zero options, anywhere inside)? -/
def panics : Ty → Bool
  | .uint _ | .bool | .bytesN _ | .bitvector _ | .bitlist _ => false
  | .vector e _ => panics e
  | .list e _ => panics e
  | .container fs => anyPanics fs
  | .union hasNone opts => anyPanics opts || (!hasNone && opts.isEmpty)
def anyPanics : List Ty → Bool
  | [] => false
  | t :: ts => panics t || anyPanics ts
end

/-- observable outcome of constructing the type and reading its four size facts -/
def typeSizes (t : Ty) : Option SizeInfo :=
  if panics t then none else some (sizeInfo t)

mutual
/-- every bit length in the type leaves room for the rounding-up addition:
    `length + 7` (BitVectorType) and `limit + 7 + 1` (BitListType) do not wrap -/
def bitLensOk : Ty → Bool
  | .uint _ | .bool | .bytesN _ => true
  | .bitvector n => n + 7 < 2 ^ 64
  | .bitlist lim => lim + 8 < 2 ^ 64
  | .vector e _ => bitLensOk e
  | .list e _ => bitLensOk e
  | .container fs => allBitLensOk fs
  | .union _ opts => allBitLensOk opts
def allBitLensOk : List Ty → Bool
  | [] => true
  | t :: ts => bitLensOk t && allBitLensOk ts
end

end ZtypV.Sizes
