/-
Model P, package `tree`, second part (family C11b): the pieces of the public node API that
`ZtypV.Model.Tree` folds into the one-stage functions `getNode` / `setNode` / `summarizeInto`,
here transcribed one Lean function per Go function and with Go's *two-stage* shape kept:

* the `Node` interface methods `Left / Right / IsLeaf / RebindLeft / RebindRight` of both node
  kinds (`*PairNode`, `*Root`) and `NewPairNode`;
* `Link` (a closure `Node → (Node, error)`), `tree.Identity`, `Link.Wrap`;
* `PairNode.Getter` with its three cases (root / close / bit-iterated descent through the
  interface methods) and `Root.Getter`;
* `PairNode.Setter`, `Root.Setter` and `tree.DeeperSetter` **returning the link**, which is built
  by repeated `link.Wrap(node.RebindLeft/Right)` exactly as in the Go loop;
* `tree.SummaryInto` returning the `SummaryLink`, `PairNode.SummarizeInto`, `Root.SummarizeInto`;
* `tree.ZeroNode(depth)` with its explicit panic beyond the 65-entry table.

A generalized index is used through its bit path (`gbits`, C16 ties `Gindex64.BitIter` to it);
the `…G` functions at the end are the entry points on raw `Gindex64` values including the
non-index 0 (same treatment as `ZtypV.Model.TreeG`).

Paths coming from a `Gindex64` have at most 63 bits, so `ZeroHashes[depth+1]` in `DeeperSetter`
and `ZeroNode(target.Depth())` in `Root.Setter` stay inside the table; on paths the model uses the
unbounded `zh` (as `setNode` does).

`ZtypV.Props.C11b` proves that all of this coincides with the one-stage model.
-/
import ZtypV.Model.TreeG
namespace ZtypV

/-! ### node constructors and accessors -/

/-- `tree.NewPairNode(a, b)` (memo field erased) -/
def newPairNode (a b : Node) : Node := .pair a b

/-- `(*PairNode).IsLeaf` = false, `(*Root).IsLeaf` = true -/
def Node.isLeaf : Node → Bool
  | .leaf _ => true
  | .pair _ _ => false

/-- `Left()`: the left child of a pair, `NavigationError` on a `*Root` -/
def Node.left : Node → R Node
  | .leaf _ => .error .nav
  | .pair l _ => .ok l

/-- `Right()` -/
def Node.right : Node → R Node
  | .leaf _ => .error .nav
  | .pair _ r => .ok r

/-- `RebindLeft(v)`: `NewPairNode(v, c.RightChild)` on a pair, `NavigationError` on a `*Root` -/
def Node.rebindLeft : Node → Node → R Node
  | .leaf _, _ => .error .nav
  | .pair _ r, v => .ok (newPairNode v r)

/-- `RebindRight(v)` -/
def Node.rebindRight : Node → Node → R Node
  | .leaf _, _ => .error .nav
  | .pair l _, v => .ok (newPairNode l v)

/-! ### links -/

/-- `type Link func(v Node) (Node, error)` -/
abbrev Link := Node → R Node

/-- `tree.Identity` -/
def identity : Link := fun v => .ok v

/-- `outer.Wrap(inner)`: run `inner` first, hand its result to `outer`; an error of `inner` is
    returned as it is -/
def Link.wrap (outer inner : Link) : Link := fun v =>
  match inner v with
  | .error err => .error err
  | .ok res => outer res

/-- `type SummaryLink func() (Node, error)` -/
abbrev SummaryLink := Unit → R Node

/-! ### getters -/

/-- the `for` loop of `PairNode.Getter`: one interface call `Right()` / `Left()` per bit -/
def getLoop : Node → List Bool → R Node
  | node, [] => .ok node
  | node, right :: bs =>
    match (if right then node.right else node.left) with
    | .error err => .error err
    | .ok nxt => getLoop nxt bs

/-- `(*PairNode).Getter(target)` -/
def pairGetter (l r : Node) (target : List Bool) : R Node :=
  match target with
  | [] => .ok (.pair l r)                          -- target.IsRoot()
  | [b] => .ok (if b then r else l)                -- target.IsClose(): IsLeft() ⇔ the bit is 0
  | _ => getLoop (.pair l r) target

/-- `(*Root).Getter(target)` -/
def rootGetter (x : Root) (target : List Bool) : R Node :=
  match target with
  | [] => .ok (.leaf x)
  | _ :: _ => .error .nav

/-- `Node.Getter` (interface dispatch) -/
def Node.getter : Node → List Bool → R Node
  | .pair l r, t => pairGetter l r t
  | .leaf x, t => rootGetter x t

/-! ### setters returning links -/

/-- The `if node.IsLeaf() { … }` block in the loop of `DeeperSetter`; `depth` is the Go variable
    after its `depth -= 1`.  A pair is kept; a leaf is replaced by the pair of zero nodes one
    level down if `expand` is set and it is the zero hash of height `depth+1`. -/
def expandStep (h : HashFn) (node : Node) (depth : Nat) (expand : Bool) : R Node :=
  match node with
  | .pair l r => .ok (.pair l r)
  | .leaf x =>
    if !expand then .error .nav
    else if x != zh h (depth + 1) then .error .nav     -- `*r != ZeroHashes[depth+1]` (a leaf is a *Root)
    else
      let child := zeroNode h depth
      .ok (newPairNode child child)

/-- The loop of `DeeperSetter` over the bits after the first one.  The Go variable `depth`
    equals `bs.length` after the decrement at the top of an iteration. -/
def deeperLoop (h : HashFn) : Link → Node → List Bool → Bool → R Link
  | link, _, [], _ => .ok link
  | link, node, right :: bs, expand =>
    match expandStep h node bs.length expand with
    | .error err => .error err
    | .ok node =>
      if right then
        match node.right with
        | .error err => .error err
        | .ok nxt => deeperLoop h (Link.wrap link node.rebindRight) nxt bs expand
      else
        match node.left with
        | .error err => .error err
        | .ok nxt => deeperLoop h (Link.wrap link node.rebindLeft) nxt bs expand

/-- `tree.DeeperSetter(link, node, target, expand)`: panics unless the target has at least two
    bits; the first bit is skipped (link and node are already one step into the path).  The
    final `depth != 0` panic is unreachable: the loop runs once per remaining bit. -/
def deeperSetter (h : HashFn) (link : Link) (node : Node) (target : List Bool) (expand : Bool) : R Link :=
  if target.length < 2 then .error .panic
  else deeperLoop h link node target.tail expand

/-- `(*PairNode).Setter(target, expand)` -/
def pairSetter (h : HashFn) (l r : Node) (target : List Bool) (expand : Bool) : R Link :=
  match target with
  | [] => .ok identity                                              -- IsRoot
  | [b] => .ok (if b then (Node.pair l r).rebindRight else (Node.pair l r).rebindLeft)   -- IsClose
  | b :: _ =>
    if !b then deeperSetter h (Node.pair l r).rebindLeft l target expand
    else deeperSetter h (Node.pair l r).rebindRight r target expand

/-- `(*Root).Setter(target, expand)` -/
def rootSetter (h : HashFn) (x : Root) (target : List Bool) (expand : Bool) : R Link :=
  match target with
  | [] => .ok identity
  | _ :: _ =>
    if expand then
      if x != zh h target.length then .error .nav          -- `*r != *ZeroNode(target.Depth())`
      else
        let child := zeroNode h (target.length - 1)
        pairSetter h child child target expand              -- `NewPairNode(child, child).Setter(…)`
    else .error .nav

/-- `Node.Setter` (interface dispatch) -/
def Node.setter (h : HashFn) : Node → List Bool → Bool → R Link
  | .pair l r, t, e => pairSetter h l r t e
  | .leaf x, t, e => rootSetter h x t e

/-! ### summaries -/

/-- `tree.SummaryInto(n, target, h)` -/
def summaryInto (h : HashFn) (n : Node) (target : List Bool) : R SummaryLink :=
  match n.setter h target false with
  | .error err => .error err
  | .ok setter =>
    match n.getter target with
    | .error err => .error err
    | .ok node => .ok (fun _ => setter (.leaf (node.root h)))

/-- `Node.SummarizeInto`: a pair delegates to `SummaryInto`, a `*Root` has its own two cases -/
def Node.summarizeInto (h : HashFn) : Node → List Bool → R SummaryLink
  | .pair l r, t => summaryInto h (.pair l r) t
  | .leaf x, [] => .ok (fun _ => .ok (.leaf x))
  | .leaf _, _ :: _ => .error .nav

/-! ### zero nodes -/

/-- `tree.ZeroNode(depth)`: explicit panic beyond the table (`InitZeroHashes(h, 64)`: 65 entries) -/
def zeroNodeG (h : HashFn) (depth : Nat) : R Node :=
  if depth ≥ 65 then .error .panic else .ok (zeroNode h depth)

/-! ### entry points on raw `Gindex64` values

`Gindex64(0)`: `IsRoot()` false, `IsClose()` true, `IsLeft()` true, `Depth()` 0, `BitIter`
depth 0 (see `ZtypV.Model.TreeG`). -/

def getterG (n : Node) (g : UInt64) : R Node :=
  if g = 0 then
    match n with
    | .leaf _ => .error .nav
    | .pair l _ => .ok l
  else n.getter (gbits g.toNat)

def setterG (h : HashFn) (n : Node) (g : UInt64) (e : Bool) : R Link :=
  if g = 0 then
    match n with
    | .pair l r => .ok (Node.pair l r).rebindLeft
    | .leaf x =>
      -- not the root; with expand: compare with ZeroNode(0), then `ZeroNode(0 - 1)` panics
      if e then (if x != zh h 0 then .error .nav else .error .panic) else .error .nav
  else n.setter h (gbits g.toNat) e

/-- `tree.DeeperSetter(link, node, Gindex64(g), e)`; 0..3 have `BitIter` depth < 2: panic -/
def deeperSetterG (h : HashFn) (link : Link) (node : Node) (g : UInt64) (e : Bool) : R Link :=
  deeperSetter h link node (gbits g.toNat) e

/-- `tree.SummaryInto(n, Gindex64(g), h)` -/
def summaryIntoG (h : HashFn) (n : Node) (g : UInt64) : R SummaryLink :=
  match setterG h n g false with
  | .error err => .error err
  | .ok setter =>
    match getterG n g with
    | .error err => .error err
    | .ok node => .ok (fun _ => setter (.leaf (node.root h)))

/-- `n.SummarizeInto(Gindex64(g), h)` -/
def summarizeIntoG (h : HashFn) (n : Node) (g : UInt64) : R SummaryLink :=
  match n with
  | .pair l r => summaryIntoG h (.pair l r) g
  | .leaf x => if g = 1 then .ok (fun _ => .ok (.leaf x)) else .error .nav

/-! ### client programs over the link API

`LinkExpr` is the little language in which the C11b generator writes clients of the link API
(the same expression is built from real closures by harness/ops_tree2.go).  `eval` runs the
model functions above in Go's evaluation order; `den` is the *reference semantics*: Kleisli
composition of one-stage writes (`setG` / `setNode` of `ZtypV.Model.Tree[G]`, whose laws are
C11).  `ZtypV.Props.C11b.C11b_eval_eq_den` proves them equal. -/

inductive LinkExpr where
  | id                                                        -- `tree.Identity`
  | rebL (n : Node)                                           -- `n.RebindLeft` (method value)
  | rebR (n : Node)                                           -- `n.RebindRight`
  | setter (n : Node) (g : UInt64) (e : Bool)                 -- `n.Setter(g, e)`
  | deeper (link : LinkExpr) (n : Node) (g : UInt64) (e : Bool)   -- `tree.DeeperSetter(link, n, g, e)`
  | wrap (outer inner : LinkExpr)                             -- `outer.Wrap(inner)`
  deriving Inhabited

/-- build the link the way the Go client does (sub-expressions left to right, first error wins) -/
def LinkExpr.eval (h : HashFn) : LinkExpr → R Link
  | .id => .ok identity
  | .rebL n => .ok n.rebindLeft
  | .rebR n => .ok n.rebindRight
  | .setter n g e => setterG h n g e
  | .deeper k n g e =>
    match k.eval h with
    | .error err => .error err
    | .ok link => deeperSetterG h link n g e
  | .wrap a b =>
    match a.eval h with
    | .error err => .error err
    | .ok outer =>
      match b.eval h with
      | .error err => .error err
      | .ok inner => .ok (Link.wrap outer inner)

/-- reference semantics (specification, not a transcription of Go code) -/
def LinkExpr.den (h : HashFn) : LinkExpr → R (Node → R Node)
  | .id => .ok fun v => .ok v
  | .rebL n => .ok fun v => match n with | .pair _ r => .ok (.pair v r) | .leaf _ => .error .nav
  | .rebR n => .ok fun v => match n with | .pair l _ => .ok (.pair l v) | .leaf _ => .error .nav
  | .setter n g e =>
    match setG h n g e n with            -- whether and how a write fails does not depend on the value
    | .error err => .error err
    | .ok _ => .ok fun v => setG h n g e v
  | .deeper k n g e =>
    match k.den h with
    | .error err => .error err
    | .ok f =>
      if g < 4 then .error .panic        -- outside DeeperSetter's documented precondition
      else
        let p := (gbits g.toNat).tail
        match setNode h n p e n with
        | .error err => .error err
        | .ok _ => .ok fun v => setNode h n p e v >>= f
  | .wrap a b =>
    match a.den h with
    | .error err => .error err
    | .ok f =>
      match b.den h with
      | .error err => .error err
      | .ok g => .ok fun v => g v >>= f

end ZtypV
