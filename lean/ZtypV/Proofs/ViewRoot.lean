/-
Helper lemmas for property C01: the root of a view backing produced by the default /
constructor route of the `view` model equals the SSZ-spec `htr`.  Core Lean only.
-/
import ZtypV.Model.View
import ZtypV.Proofs.Fill
namespace ZtypV
open View

/-! ### the side condition: no `Vector/List` of `boolean` anywhere inside the type (finding D3) -/

def Ty.isBool : Ty → Bool
  | .bool => true
  | _ => false

mutual
/-- no `vector` / `list` whose element type is `bool`, anywhere inside the type -/
def noBoolSeries : Ty → Bool
  | .vector e _ => !e.isBool && noBoolSeries e
  | .list e _ => !e.isBool && noBoolSeries e
  | .container fs => noBoolSeriesAll fs
  | .union _ opts => noBoolSeriesAll opts
  | _ => true
def noBoolSeriesAll : List Ty → Bool
  | [] => true
  | t :: ts => noBoolSeries t && noBoolSeriesAll ts
end

/-! Generic helper lemmas live in `ZtypV.ViewRoot` (to keep the `ZtypV` namespace free of
    clashes with other proof files); the main results `construct_root`, `defaultNode_root` and
    the definitions `noBoolSeries`, `Reach` are in `ZtypV`. -/
namespace ViewRoot

/-! ### depth / size arithmetic -/

theorem le_pow_coverDepth (v : Nat) : v ≤ 2 ^ coverDepth v := by
  unfold coverDepth
  split
  · rename_i h; simpa using h
  · have := Nat.lt_log2_self (n := v - 1)
    omega

theorem bottomNodes_eq (b n : Nat) (hb : (Ty.uint b).wf = true) :
    bottomNodes b n = basicChunkCount b n := by
  simp only [Ty.wf, Bool.or_eq_true, beq_iff_eq] at hb
  unfold bottomNodes perNode basicChunkCount
  rcases hb with (((rfl | rfl) | rfl) | rfl) | rfl <;> simp <;> omega

/-! ### `fillToContents` does not fail when the nodes fit -/

theorem fillToContents_ok (h : HashFn) : ∀ (d : Nat) (ns : List Node), ns.length ≤ 2 ^ d →
    ∃ n, fillToContents h d ns = .ok n := by
  intro d
  induction d with
  | zero =>
    intro ns hle
    unfold fillToContents
    split
    · exact ⟨_, rfl⟩
    · rw [if_neg (by simpa using hle)]
      exact ⟨_, rfl⟩
  | succ d ih =>
    intro ns hle
    unfold fillToContents
    split
    · exact ⟨_, rfl⟩
    rename_i hne
    rw [if_neg (by omega)]
    simp only
    split
    · match ns, hne with
      | [a], _ => exact ⟨_, rfl⟩
      | a :: b :: _, _ => exact ⟨_, rfl⟩
      | [], hne => simp at hne
    · have h2 : 2 ^ (d + 1) = 2 ^ d + 2 ^ d := by rw [Nat.pow_succ]; omega
      split
      · rename_i hp
        obtain ⟨l, hl⟩ := ih ns hp
        rw [hl]; exact ⟨_, rfl⟩
      · obtain ⟨l, hl⟩ := ih (ns.take (2 ^ d)) (by rw [List.length_take]; omega)
        obtain ⟨r, hr⟩ := ih (ns.drop (2 ^ d)) (by rw [List.length_drop]; omega)
        rw [hl, hr]; exact ⟨_, rfl⟩

/-- existence + root of `SubtreeFillToContents` for nodes that fit -/
theorem fill_nodes (h : HashFn) (d : Nat) (ns : List Node) (hle : ns.length ≤ 2 ^ d) :
    ∃ n, fillToContents h d ns = .ok n ∧ n.root h = merk h d (ns.map (Node.root h)) := by
  obtain ⟨n, hn⟩ := fillToContents_ok h d ns hle
  exact ⟨n, hn, fill_root h d ns n hn⟩

/-! ### byte chunks -/

theorem chunks_length (bs : Bytes) : (chunks bs).length = (bs.length + 31) / 32 := by
  simp [chunks]

theorem packBits_length (bs : List Bool) : (packBits bs).length = (bs.length + 7) / 8 := by
  simp [packBits]

theorem map_root_bytesIntoNodes (h : HashFn) (bs : Bytes) :
    (bytesIntoNodes bs).map (Node.root h) = chunks bs := by
  unfold bytesIntoNodes
  rw [List.map_map]
  have : (Node.root h ∘ Node.leaf) = id := by funext r; rfl
  rw [this, List.map_id]

/-- existence + root of the packed-bytes subtree (`BytesIntoNodes` then `SubtreeFillToContents`) -/
theorem fill_bytes (h : HashFn) (d : Nat) (bs : Bytes) (hle : (bs.length + 31) / 32 ≤ 2 ^ d) :
    ∃ n, orNil (fillToContents h d (bytesIntoNodes bs)) = .ok n ∧
      n.root h = merk h d (chunks bs) := by
  obtain ⟨n, hn, hr⟩ := fill_nodes h d (bytesIntoNodes bs)
    (by unfold bytesIntoNodes; rw [List.length_map, chunks_length]; exact hle)
  refine ⟨n, by rw [hn]; rfl, ?_⟩
  rw [hr, map_root_bytesIntoNodes]

/-! ### number chunks -/

theorem pair_lengthNode_root (h : HashFn) (c : Node) (k : Nat) :
    (Node.pair c (lengthNode k)).root h = mixin h (c.root h) k := rfl

/-- the selector chunk written by `UnionType` (one byte) is the spec's 8-byte mix-in number -/
theorem selector_chunk (sel : Nat) (hs : sel < 256) :
    chunkOf [UInt8.ofNat sel] = chunkOf (leBytes 8 sel) := by
  have h1 : sel % 256 = sel := Nat.mod_eq_of_lt hs
  have h2 : sel / 256 = 0 := Nat.div_eq_of_lt hs
  simp [leBytes, h1, h2, chunkOf]

/-! ### leaf types -/

theorem construct_uint (h : HashFn) (b : Nat) (v : Val) (hty : hasType (.uint b) v = true) :
    ∃ n, construct h (.uint b) v = .ok n ∧ n.root h = htr h (.uint b) v := by
  cases v with
  | num n => exact ⟨.leaf (chunkOf (leBytes b n)), by simp only [construct], by simp only [Node.root, htr]⟩
  | _ => simp [hasType] at hty

theorem construct_bool (h : HashFn) (v : Val) (hty : hasType .bool v = true) :
    ∃ n, construct h .bool v = .ok n ∧ n.root h = htr h .bool v := by
  cases v with
  | bool b => exact ⟨.leaf (chunkOf [if b then 1 else 0]), by simp only [construct], by simp only [Node.root, htr]⟩
  | _ => simp [hasType] at hty

theorem chunks_single (bs : Bytes) (h1 : 1 ≤ bs.length) (h2 : bs.length ≤ 32) :
    chunks bs = [chunkOf bs] := by
  have : (bs.length + 31) / 32 = 1 := by omega
  simp [chunks, this]

theorem construct_bytesN (h : HashFn) (k : Nat) (v : Val) (hwf : (Ty.bytesN k).wf = true)
    (hty : hasType (.bytesN k) v = true) :
    ∃ n, construct h (.bytesN k) v = .ok n ∧ n.root h = htr h (.bytesN k) v := by
  cases v with
  | bytes bs =>
    simp only [hasType, beq_iff_eq] at hty
    simp only [Ty.wf, Bool.and_eq_true, decide_eq_true_eq] at hwf
    refine ⟨.leaf (chunkOf bs), by simp only [construct], ?_⟩
    have hk : (k + 31) / 32 = 1 := by omega
    have hc : coverDepth 1 = 0 := by decide
    simp only [Node.root, htr, hk, hc, chunks_single bs (by omega) (by omega), merk, List.headD]
  | _ => simp [hasType] at hty

/-! ### bitfields -/

theorem bits_fit (k lim : Nat) (hle : k ≤ lim) :
    ((k + 7) / 8 + 31) / 32 ≤ 2 ^ bitDepth lim := by
  have := le_pow_coverDepth ((lim + 255) / 256)
  unfold bitDepth
  omega

theorem construct_bitvector (h : HashFn) (k : Nat) (v : Val)
    (hty : hasType (.bitvector k) v = true) :
    ∃ n, construct h (.bitvector k) v = .ok n ∧ n.root h = htr h (.bitvector k) v := by
  cases v with
  | bits bs =>
    simp only [hasType, beq_iff_eq] at hty
    obtain ⟨c, hc, hr⟩ := fill_bytes h (bitDepth k) (packBits bs)
      (by rw [packBits_length]; exact bits_fit _ _ (by omega))
    refine ⟨c, ?_, ?_⟩
    · simp only [construct, bitsToBytes, hty, ne_eq, not_true_eq_false, if_false, hc]
    · rw [hr]; simp only [htr, bitDepth]
  | _ => simp [hasType] at hty

theorem construct_bitlist (h : HashFn) (lim : Nat) (v : Val)
    (hty : hasType (.bitlist lim) v = true) :
    ∃ n, construct h (.bitlist lim) v = .ok n ∧ n.root h = htr h (.bitlist lim) v := by
  cases v with
  | bits bs =>
    simp only [hasType, decide_eq_true_eq] at hty
    obtain ⟨c, hc, hr⟩ := fill_bytes h (bitDepth lim) (packBits bs)
      (by rw [packBits_length]; exact bits_fit _ _ hty)
    refine ⟨.pair c (lengthNode bs.length), ?_, ?_⟩
    · simp only [construct, bitsToBytes, if_neg (Nat.not_lt.mpr hty), hc]; rfl
    · rw [pair_lengthNode_root, hr]; simp only [htr, bitDepth]
  | _ => simp [hasType] at hty

/-! ### series -/

theorem serList_uint_length (b : Nat) : ∀ vs : List Val, allHaveType (.uint b) vs = true →
    (serList (.uint b) vs).flatten.length = vs.length * b
  | [], _ => by simp [serList]
  | v :: vs, hall => by
    simp only [allHaveType, Bool.and_eq_true] at hall
    have ih := serList_uint_length b vs hall.2
    cases v with
    | num n =>
      simp only [serList, serialize, List.flatten_cons, List.length_append, leBytes_length, ih,
        List.length_cons, Nat.succ_mul]
      omega
    | _ => simp [hasType] at hall

theorem htrList_length (h : HashFn) (e : Ty) : ∀ vs : List Val, (htrList h e vs).length = vs.length
  | [] => rfl
  | v :: vs => by simp only [htrList, List.length_cons, htrList_length h e vs]

theorem isBasicElem_uint (e : Ty) (hb : isBasicElem e = true) : ∃ b, e = .uint b := by
  cases e <;> simp [isBasicElem] at hb
  exact ⟨_, rfl⟩

/-- for non-`bool` element types ztyp's notion of "basic" coincides with the spec's -/
theorem isBasic_eq_isBasicElem (e : Ty) (hnb : e.isBool = false) : e.isBasic = isBasicElem e := by
  cases e <;> simp [Ty.isBasic, isBasicElem, Ty.isBool] at hnb ⊢

theorem basic_fit (b k n : Nat) (hb : (Ty.uint b).wf = true) (hle : k ≤ n) :
    (k * b + 31) / 32 ≤ 2 ^ seriesDepth (.uint b) n := by
  have h1 := le_pow_coverDepth (basicChunkCount b n)
  have h2 : (k * b + 31) / 32 ≤ basicChunkCount b n :=
    Nat.div_le_div_right (Nat.add_le_add_right (Nat.mul_le_mul_right b hle) 31)
  simp only [seriesDepth, isBasicElem, if_true, Ty.fixedSize, bottomNodes_eq b n hb]
  omega

theorem seriesDepth_uint (b n : Nat) (hb : (Ty.uint b).wf = true) :
    seriesDepth (.uint b) n = coverDepth (basicChunkCount b n) := by
  simp only [seriesDepth, isBasicElem, if_true, Ty.fixedSize, bottomNodes_eq b n hb]

theorem construct_vector (h : HashFn) (e : Ty) (n : Nat) (vs : List Val)
    (hwf : (Ty.vector e n).wf = true) (hnb : noBoolSeries (.vector e n) = true)
    (hty : hasType (.vector e n) (.seq vs) = true)
    (hrec : ∃ ns, constructList h e vs = .ok ns ∧ ns.map (Node.root h) = htrList h e vs) :
    ∃ c, construct h (.vector e n) (.seq vs) = .ok c ∧
      c.root h = htr h (.vector e n) (.seq vs) := by
  simp only [hasType, Bool.and_eq_true, beq_iff_eq] at hty
  obtain ⟨hlen, hall⟩ := hty
  simp only [Ty.wf, Bool.and_eq_true, decide_eq_true_eq] at hwf
  simp only [noBoolSeries, Bool.and_eq_true, Bool.not_eq_true'] at hnb
  have hbe := isBasic_eq_isBasicElem e hnb.1
  cases hb : isBasicElem e with
  | true =>
    obtain ⟨b, rfl⟩ := isBasicElem_uint e hb
    obtain ⟨c, hc, hr⟩ := fill_bytes h (seriesDepth (.uint b) n) (serList (.uint b) vs).flatten
      (by rw [serList_uint_length b vs hall]; exact basic_fit b _ n hwf.2 (by omega))
    refine ⟨c, ?_, ?_⟩
    · simp only [construct, hb, if_true, if_neg (show ¬ vs.length > n by omega), hc]
    · rw [hr]
      simp only [htr, hbe, hb, if_true, seriesDepth_uint b n hwf.2, Ty.fixedSize]
  | false =>
    obtain ⟨ns, hns, hroots⟩ := hrec
    have hnl : ns.length = vs.length := by
      rw [← htrList_length h e vs, ← hroots, List.length_map]
    obtain ⟨c, hc, hr⟩ := fill_nodes h (coverDepth n) ns
      (by rw [hnl, hlen]; exact le_pow_coverDepth n)
    refine ⟨c, ?_, ?_⟩
    · simp only [construct, hb, hlen, ne_eq, not_true_eq_false, if_false, hns]
      show orNil (fillToContents h (coverDepth n) ns) = _
      rw [hc]; rfl
    · rw [hr, hroots]
      simp only [htr, hbe, hb]; rfl

theorem construct_list (h : HashFn) (e : Ty) (lim : Nat) (vs : List Val)
    (hwf : (Ty.list e lim).wf = true) (hnb : noBoolSeries (.list e lim) = true)
    (hty : hasType (.list e lim) (.seq vs) = true)
    (hrec : ∃ ns, constructList h e vs = .ok ns ∧ ns.map (Node.root h) = htrList h e vs) :
    ∃ c, construct h (.list e lim) (.seq vs) = .ok c ∧
      c.root h = htr h (.list e lim) (.seq vs) := by
  simp only [hasType, Bool.and_eq_true, decide_eq_true_eq] at hty
  obtain ⟨hlen, hall⟩ := hty
  simp only [Ty.wf] at hwf
  simp only [noBoolSeries, Bool.and_eq_true, Bool.not_eq_true'] at hnb
  have hbe := isBasic_eq_isBasicElem e hnb.1
  have hgt : ¬ vs.length > lim := by omega
  cases hb : isBasicElem e with
  | true =>
    obtain ⟨b, rfl⟩ := isBasicElem_uint e hb
    obtain ⟨c, hc, hr⟩ := fill_bytes h (seriesDepth (.uint b) lim) (serList (.uint b) vs).flatten
      (by rw [serList_uint_length b vs hall]; exact basic_fit b _ lim hwf hlen)
    refine ⟨.pair c (lengthNode vs.length), ?_, ?_⟩
    · simp only [construct, hb, if_true, if_neg hgt, hc]; rfl
    · rw [pair_lengthNode_root, hr]
      simp only [htr, hbe, hb, if_true, seriesDepth_uint b lim hwf, Ty.fixedSize]
  | false =>
    obtain ⟨ns, hns, hroots⟩ := hrec
    have hnl : ns.length = vs.length := by
      rw [← htrList_length h e vs, ← hroots, List.length_map]
    obtain ⟨c, hc, hr⟩ := fill_nodes h (coverDepth lim) ns
      (by rw [hnl]; exact Nat.le_trans hlen (le_pow_coverDepth lim))
    refine ⟨.pair c (lengthNode vs.length), ?_, ?_⟩
    · simp only [construct, hb, if_neg hgt, hns]
      show (do let c ← orNil (fillToContents h (coverDepth lim) ns)
               Except.ok (Node.pair c (lengthNode vs.length))) = _
      rw [hc]; rfl
    · rw [pair_lengthNode_root, hr, hroots]
      simp only [htr, hbe, hb]; rfl

/-! ### containers -/

theorem fieldsHaveType_length : ∀ (fs : List Ty) (vs : List Val),
    fieldsHaveType fs vs = true → fs.length = vs.length
  | [], [], _ => rfl
  | t :: ts, v :: vs, hh => by
    simp only [fieldsHaveType, Bool.and_eq_true] at hh
    simp only [List.length_cons, fieldsHaveType_length ts vs hh.2]
  | [], _ :: _, hh => by simp [fieldsHaveType] at hh
  | _ :: _, [], hh => by simp [fieldsHaveType] at hh

theorem htrFields_length (h : HashFn) : ∀ (fs : List Ty) (vs : List Val),
    fs.length = vs.length → (htrFields h fs vs).length = fs.length
  | [], [], _ => rfl
  | t :: ts, v :: vs, hh => by
    simp only [List.length_cons, Nat.add_right_cancel_iff] at hh
    simp only [htrFields, List.length_cons, htrFields_length h ts vs hh]
  | [], _ :: _, hh => by simp at hh
  | _ :: _, [], hh => by simp at hh

theorem construct_container (h : HashFn) (fs : List Ty) (vs : List Val)
    (hty : hasType (.container fs) (.seq vs) = true)
    (hrec : ∃ ns, constructFields h fs vs = .ok ns ∧ ns.map (Node.root h) = htrFields h fs vs) :
    ∃ c, construct h (.container fs) (.seq vs) = .ok c ∧
      c.root h = htr h (.container fs) (.seq vs) := by
  simp only [hasType] at hty
  have hlen := fieldsHaveType_length fs vs hty
  obtain ⟨ns, hns, hroots⟩ := hrec
  have hnl : ns.length = fs.length := by
    rw [← htrFields_length h fs vs hlen, ← hroots, List.length_map]
  obtain ⟨c, hc, hr⟩ := fill_nodes h (coverDepth fs.length) ns
    (by rw [hnl]; exact le_pow_coverDepth _)
  refine ⟨c, ?_, ?_⟩
  · simp only [construct, hlen, ne_eq, not_true_eq_false, if_false, hns]
    show (match fillToContents h (coverDepth vs.length) ns with
      | .ok n => (Except.ok n : R Node)
      | .error _ => .error Err.other) = _
    rw [← hlen, hc]
  · rw [hr, hroots]; simp only [htr]

/-! ### unions -/

theorem hasType_none (t : Ty) : hasType t .none = false := by
  cases t <;> simp [hasType]

theorem unionOpt_some (hasNone : Bool) (opts : List Ty) (sel : Nat) (t : Ty)
    (ho : unionOpt hasNone opts sel = some t) :
    t ∈ opts ∧ sel < opts.length + (if hasNone then 1 else 0) := by
  unfold unionOpt at ho
  cases hasNone with
  | true =>
    simp only [if_true] at ho
    split at ho
    · cases ho
    · obtain ⟨hlt, _⟩ := List.getElem?_eq_some_iff.mp ho
      exact ⟨List.mem_of_getElem? ho, by simp only [if_true]; omega⟩
  | false =>
    simp only [Bool.false_eq_true, if_false] at ho
    obtain ⟨hlt, _⟩ := List.getElem?_eq_some_iff.mp ho
    exact ⟨List.mem_of_getElem? ho, by simp only [Bool.false_eq_true, if_false]; omega⟩

theorem wfAll_mem : ∀ (ts : List Ty) (t : Ty), Ty.wfAll ts = true → t ∈ ts → t.wf = true
  | [], _, _, hm => by cases hm
  | x :: xs, t, hw, hm => by
    simp only [Ty.wfAll, Bool.and_eq_true] at hw
    rcases List.mem_cons.mp hm with rfl | hm'
    · exact hw.1
    · exact wfAll_mem xs t hw.2 hm'

theorem noBoolSeriesAll_mem : ∀ (ts : List Ty) (t : Ty), noBoolSeriesAll ts = true → t ∈ ts →
    noBoolSeries t = true
  | [], _, _, hm => by cases hm
  | x :: xs, t, hw, hm => by
    simp only [noBoolSeriesAll, Bool.and_eq_true] at hw
    rcases List.mem_cons.mp hm with rfl | hm'
    · exact hw.1
    · exact noBoolSeriesAll_mem xs t hw.2 hm'

theorem construct_union (h : HashFn) (hasNone : Bool) (opts : List Ty) (sel : Nat) (v : Val)
    (hwf : (Ty.union hasNone opts).wf = true)
    (hty : hasType (.union hasNone opts) (.union sel v) = true)
    (hrec : ∀ t, unionOpt hasNone opts sel = some t → hasType t v = true →
      ∃ c, construct h t v = .ok c ∧ c.root h = htr h t v) :
    ∃ c, construct h (.union hasNone opts) (.union sel v) = .ok c ∧
      c.root h = htr h (.union hasNone opts) (.union sel v) := by
  simp only [hasType] at hty
  cases ho : unionOpt hasNone opts sel with
  | none =>
    rw [ho] at hty
    simp only [Bool.and_eq_true, beq_iff_eq] at hty
    obtain ⟨⟨_, hsel⟩, hv⟩ := hty
    subst hsel
    cases v with
    | none =>
      refine ⟨.pair (.leaf z0) (.leaf (chunkOf [UInt8.ofNat 0])), by simp only [construct], ?_⟩
      simp only [Node.root, htr, ho, mixin, selector_chunk 0 (by omega)]
    | _ => simp at hv
  | some t =>
    rw [ho] at hty
    simp only at hty
    have hs : sel < 256 := by
      have h1 := (unionOpt_some hasNone opts sel t ho).2
      simp only [Ty.wf, Bool.and_eq_true, decide_eq_true_eq] at hwf
      omega
    obtain ⟨c, hc, hr⟩ := hrec t ho hty
    refine ⟨.pair c (.leaf (chunkOf [UInt8.ofNat sel])), ?_, ?_⟩
    · cases v with
      | none => rw [hasType_none] at hty; cases hty
      | _ => simp only [construct, ho, hc]; rfl
    · simp only [Node.root, htr, ho, mixin, selector_chunk sel hs, hr]

end ViewRoot
open ViewRoot

/-! ### the constructor route, all types -/

mutual
theorem construct_root (h : HashFn) (t : Ty) (v : Val) (hwf : t.wf = true)
    (hnb : noBoolSeries t = true) (hty : hasType t v = true) :
    ∃ n, construct h t v = .ok n ∧ n.root h = htr h t v := by
  cases t with
  | uint b => exact construct_uint h b v hty
  | bool => exact construct_bool h v hty
  | bytesN k => exact construct_bytesN h k v hwf hty
  | bitvector k => exact construct_bitvector h k v hty
  | bitlist lim => exact construct_bitlist h lim v hty
  | vector e n =>
    cases v with
    | seq vs =>
      have hwf' := hwf
      have hnb' := hnb
      have hty' := hty
      simp only [Ty.wf, Bool.and_eq_true] at hwf'
      simp only [noBoolSeries, Bool.and_eq_true] at hnb'
      simp only [hasType, Bool.and_eq_true] at hty'
      exact construct_vector h e n vs hwf hnb hty
        (constructList_root h e vs hwf'.2 hnb'.2 hty'.2)
    | _ => simp [hasType] at hty
  | list e lim =>
    cases v with
    | seq vs =>
      have hwf' := hwf
      have hnb' := hnb
      have hty' := hty
      simp only [Ty.wf] at hwf'
      simp only [noBoolSeries, Bool.and_eq_true] at hnb'
      simp only [hasType, Bool.and_eq_true] at hty'
      exact construct_list h e lim vs hwf hnb hty
        (constructList_root h e vs hwf' hnb'.2 hty'.2)
    | _ => simp [hasType] at hty
  | container fs =>
    cases v with
    | seq vs =>
      have hwf' := hwf
      have hnb' := hnb
      have hty' := hty
      simp only [Ty.wf, Bool.and_eq_true] at hwf'
      simp only [noBoolSeries] at hnb'
      simp only [hasType] at hty'
      exact construct_container h fs vs hty (constructFields_root h fs vs hwf'.2 hnb' hty')
    | _ => simp [hasType] at hty
  | union hasNone opts =>
    cases v with
    | union sel w =>
      have hwf' := hwf
      have hnb' := hnb
      simp only [Ty.wf, Bool.and_eq_true] at hwf'
      simp only [noBoolSeries] at hnb'
      exact construct_union h hasNone opts sel w hwf hty (fun t ho ht =>
        construct_root h t w
          (wfAll_mem opts t hwf'.1.2 (unionOpt_some hasNone opts sel t ho).1)
          (noBoolSeriesAll_mem opts t hnb' (unionOpt_some hasNone opts sel t ho).1) ht)
    | _ => simp [hasType] at hty
termination_by sizeOf v

theorem constructList_root (h : HashFn) (e : Ty) (vs : List Val) (hwf : e.wf = true)
    (hnb : noBoolSeries e = true) (hall : allHaveType e vs = true) :
    ∃ ns, constructList h e vs = .ok ns ∧ ns.map (Node.root h) = htrList h e vs := by
  cases vs with
  | nil => exact ⟨[], rfl, rfl⟩
  | cons v vs =>
    simp only [allHaveType, Bool.and_eq_true] at hall
    obtain ⟨n, hn, hr⟩ := construct_root h e v hwf hnb hall.1
    obtain ⟨ns, hns, hrs⟩ := constructList_root h e vs hwf hnb hall.2
    refine ⟨n :: ns, ?_, ?_⟩
    · simp only [constructList, hn, hns]; rfl
    · simp only [List.map_cons, htrList, hr, hrs]
termination_by sizeOf vs

theorem constructFields_root (h : HashFn) (fs : List Ty) (vs : List Val)
    (hwf : Ty.wfAll fs = true) (hnb : noBoolSeriesAll fs = true)
    (hall : fieldsHaveType fs vs = true) :
    ∃ ns, constructFields h fs vs = .ok ns ∧ ns.map (Node.root h) = htrFields h fs vs := by
  cases vs with
  | nil =>
    cases fs with
    | nil => exact ⟨[], rfl, rfl⟩
    | cons t ts => simp [fieldsHaveType] at hall
  | cons v vs =>
    cases fs with
    | nil => simp [fieldsHaveType] at hall
    | cons t ts =>
      simp only [fieldsHaveType, Bool.and_eq_true] at hall
      simp only [Ty.wfAll, Bool.and_eq_true] at hwf
      simp only [noBoolSeriesAll, Bool.and_eq_true] at hnb
      obtain ⟨n, hn, hr⟩ := construct_root h t v hwf.1 hnb.1 hall.1
      obtain ⟨ns, hns, hrs⟩ := constructFields_root h ts vs hwf.2 hnb.2 hall.2
      refine ⟨n :: ns, ?_, ?_⟩
      · simp only [constructFields, hn, hns]; rfl
      · simp only [List.map_cons, htrFields, hr, hrs]
termination_by sizeOf vs
end

namespace ViewRoot

/-! ### all-zero chunk lists (the default route) -/

theorem chunkOf_zeros (k : Nat) : chunkOf (List.replicate k 0) = z0 := by
  unfold chunkOf z0
  rw [List.replicate_append_replicate, List.take_replicate]
  congr 1 <;> omega

theorem leBytes_zero : ∀ k : Nat, leBytes k 0 = List.replicate k 0
  | 0 => rfl
  | k + 1 => by
    simp only [leBytes, Nat.zero_mod, Nat.zero_div, leBytes_zero k, List.replicate_succ]
    rfl

theorem byteOfBits_false (m : Nat) : byteOfBits (List.replicate m false) = 0 := by
  have : (List.replicate m false).foldr (fun b acc => 2 * acc + (if b then 1 else 0)) 0 = 0 := by
    induction m with
    | zero => rfl
    | succ m ih => simp [List.replicate_succ, ih]
  unfold byteOfBits
  rw [this]; rfl

theorem packBits_false (n : Nat) : ∃ k, packBits (List.replicate n false) = List.replicate k 0 := by
  refine ⟨(packBits (List.replicate n false)).length, ?_⟩
  rw [List.eq_replicate_iff]
  refine ⟨rfl, ?_⟩
  intro b hb
  unfold packBits at hb
  obtain ⟨i, _, rfl⟩ := List.mem_map.mp hb
  rw [List.drop_replicate, List.take_replicate, byteOfBits_false]

theorem chunks_zeros (k : Nat) : ∃ m, chunks (List.replicate k 0) = List.replicate m z0 := by
  refine ⟨(chunks (List.replicate k 0)).length, ?_⟩
  rw [List.eq_replicate_iff]
  refine ⟨rfl, ?_⟩
  intro c hc
  unfold chunks at hc
  obtain ⟨i, _, rfl⟩ := List.mem_map.mp hc
  rw [List.drop_replicate, chunkOf_zeros]

theorem merk_zeros (h : HashFn) : ∀ (d k : Nat), merk h d (List.replicate k z0) = zh h d
  | 0, 0 => rfl
  | 0, k + 1 => rfl
  | d + 1, k => by
    simp only [merk, List.take_replicate, List.drop_replicate, merk_zeros h d, zh]

/-- the merkleization of an all-zero byte string is the zero hash of that depth -/
theorem merk_chunks_zeros (h : HashFn) (d k : Nat) :
    merk h d (chunks (List.replicate k 0)) = zh h d := by
  obtain ⟨m, hm⟩ := chunks_zeros k
  rw [hm, merk_zeros]

theorem fillToDepth_zero_root (h : HashFn) (d : Nat) :
    (fillToDepth (zeroNode h 0) d).root h = zh h d := by
  rw [fillToDepth_root, zeroNode_root]
  exact merk_zeros h d _

theorem serList_default_uint (b : Nat) : ∀ n : Nat,
    ∃ k, (serList (.uint b) (List.replicate n (.num 0))).flatten = List.replicate k 0
  | 0 => ⟨0, rfl⟩
  | n + 1 => by
    obtain ⟨k, hk⟩ := serList_default_uint b n
    refine ⟨b + k, ?_⟩
    simp only [List.replicate_succ, serList, serialize, List.flatten_cons, hk, leBytes_zero,
      List.replicate_append_replicate]

theorem htrList_replicate (h : HashFn) (e : Ty) (v : Val) : ∀ n : Nat,
    htrList h e (List.replicate n v) = List.replicate n (htr h e v)
  | 0 => rfl
  | n + 1 => by simp only [List.replicate_succ, htrList, htrList_replicate h e v n]

theorem fillToLength_ok (h : HashFn) (b : Node) : ∀ (d len : Nat), 0 < len → len ≤ 2 ^ d →
    ∃ n, fillToLength h b d len = .ok n := by
  intro d
  induction d with
  | zero =>
    intro len hpos hle
    unfold fillToLength
    rw [if_neg (by omega)]
    have : len = 2 ^ 0 := by simp at hle ⊢; omega
    rw [if_pos this]; exact ⟨_, rfl⟩
  | succ d ih =>
    intro len hpos hle
    unfold fillToLength
    rw [if_neg (by omega)]
    split
    · exact ⟨_, rfl⟩
    · simp only
      have h2 : 2 ^ (d + 1) = 2 ^ d + 2 ^ d := by rw [Nat.pow_succ]; omega
      split
      · exact ⟨_, rfl⟩
      · split
        · rename_i hp
          obtain ⟨l, hl⟩ := ih len hpos hp
          rw [hl]; exact ⟨_, rfl⟩
        · obtain ⟨r, hr⟩ := ih (len - 2 ^ d) (by omega) (by omega)
          rw [hr]; exact ⟨_, rfl⟩

/-! ### default backing, per type -/

theorem z0_number_chunk : chunkOf (leBytes 8 0) = z0 := by
  rw [leBytes_zero]; exact chunkOf_zeros 8

theorem default_uint (h : HashFn) (b : Nat) :
    ∃ n, defaultNode h (.uint b) = .ok n ∧ n.root h = htr h (.uint b) (defaultVal (.uint b)) := by
  refine ⟨zeroNode h 0, by simp only [defaultNode], ?_⟩
  simp only [defaultVal, htr, leBytes_zero, chunkOf_zeros]; rfl

theorem default_bool (h : HashFn) :
    ∃ n, defaultNode h .bool = .ok n ∧ n.root h = htr h .bool (defaultVal .bool) := by
  refine ⟨zeroNode h 0, by simp only [defaultNode], ?_⟩
  simp only [defaultVal, htr]
  exact (chunkOf_zeros 1).symm

theorem default_bytesN (h : HashFn) (k : Nat) (hwf : (Ty.bytesN k).wf = true) :
    ∃ n, defaultNode h (.bytesN k) = .ok n ∧
      n.root h = htr h (.bytesN k) (defaultVal (.bytesN k)) := by
  simp only [Ty.wf, Bool.and_eq_true, decide_eq_true_eq] at hwf
  refine ⟨zeroNode h 0, by simp only [defaultNode], ?_⟩
  have hk : (k + 31) / 32 = 1 := by omega
  have hc : coverDepth 1 = 0 := by decide
  simp only [defaultVal, htr, hk, hc, merk_chunks_zeros]; rfl

theorem default_bitvector (h : HashFn) (k : Nat) :
    ∃ n, defaultNode h (.bitvector k) = .ok n ∧
      n.root h = htr h (.bitvector k) (defaultVal (.bitvector k)) := by
  refine ⟨fillToDepth (zeroNode h 0) (bitDepth k), by simp only [defaultNode], ?_⟩
  obtain ⟨m, hm⟩ := packBits_false k
  simp only [defaultVal, htr, hm, merk_chunks_zeros, fillToDepth_zero_root, bitDepth]

theorem default_bitlist (h : HashFn) (lim : Nat) :
    ∃ n, defaultNode h (.bitlist lim) = .ok n ∧
      n.root h = htr h (.bitlist lim) (defaultVal (.bitlist lim)) := by
  refine ⟨.pair (zeroNode h (bitDepth lim)) (zeroNode h 0), by simp only [defaultNode], ?_⟩
  have hp : packBits [] = [] := rfl
  have hc : chunks [] = [] := rfl
  simp only [defaultVal, htr, hp, hc, merk_nil, mixin, List.length_nil, z0_number_chunk,
    Node.root, zeroNode, bitDepth, zh]

theorem default_vector (h : HashFn) (e : Ty) (n : Nat)
    (hwf : (Ty.vector e n).wf = true) (hnb : noBoolSeries (.vector e n) = true)
    (hrec : ∃ d, defaultNode h e = .ok d ∧ d.root h = htr h e (defaultVal e)) :
    ∃ c, defaultNode h (.vector e n) = .ok c ∧
      c.root h = htr h (.vector e n) (defaultVal (.vector e n)) := by
  simp only [Ty.wf, Bool.and_eq_true, decide_eq_true_eq] at hwf
  simp only [noBoolSeries, Bool.and_eq_true, Bool.not_eq_true'] at hnb
  have hbe := isBasic_eq_isBasicElem e hnb.1
  cases hb : isBasicElem e with
  | true =>
    obtain ⟨b, rfl⟩ := isBasicElem_uint e hb
    refine ⟨fillToDepth (zeroNode h 0) (seriesDepth (.uint b) n),
      by simp only [defaultNode, hb, if_true], ?_⟩
    obtain ⟨k, hk⟩ := serList_default_uint b n
    simp only [defaultVal, htr, hbe, hb, if_true, hk, merk_chunks_zeros, fillToDepth_zero_root,
      seriesDepth_uint b n hwf.2, Ty.fixedSize]
  | false =>
    obtain ⟨d, hd, hdr⟩ := hrec
    obtain ⟨c, hc⟩ := fillToLength_ok h d (coverDepth n) n (by omega) (le_pow_coverDepth n)
    refine ⟨c, ?_, ?_⟩
    · simp only [defaultNode, hb, hd]
      show orNil (fillToLength h d (coverDepth n) n) = _
      rw [hc]; rfl
    · rw [fillToLength_root h d (coverDepth n) n c (by omega) hc, hdr]
      simp only [defaultVal, htr, hbe, hb, htrList_replicate]; rfl

theorem default_list (h : HashFn) (e : Ty) (lim : Nat)
    (hwf : (Ty.list e lim).wf = true) (hnb : noBoolSeries (.list e lim) = true) :
    ∃ c, defaultNode h (.list e lim) = .ok c ∧
      c.root h = htr h (.list e lim) (defaultVal (.list e lim)) := by
  simp only [Ty.wf] at hwf
  simp only [noBoolSeries, Bool.and_eq_true, Bool.not_eq_true'] at hnb
  have hbe := isBasic_eq_isBasicElem e hnb.1
  refine ⟨.pair (zeroNode h (seriesDepth e lim)) (zeroNode h 0), by simp only [defaultNode], ?_⟩
  have hs : (serList e []).flatten = [] := rfl
  have hc : chunks [] = [] := rfl
  have hl : htrList h e [] = [] := rfl
  cases hb : isBasicElem e with
  | true =>
    obtain ⟨b, rfl⟩ := isBasicElem_uint e hb
    simp only [defaultVal, htr, hbe, hb, if_true, hs, hc, merk_nil, mixin, List.length_nil,
      z0_number_chunk, Node.root, zeroNode, zh, seriesDepth_uint b lim hwf, Ty.fixedSize]
  | false =>
    simp only [defaultVal, htr, hbe, hb, hl, merk_nil, mixin, List.length_nil,
      z0_number_chunk, Node.root, zeroNode, zh, seriesDepth]
    rfl

theorem defaultVals_length : ∀ fs : List Ty, (defaultVals fs).length = fs.length
  | [] => rfl
  | t :: ts => by simp only [defaultVals, List.length_cons, defaultVals_length ts]

theorem default_container (h : HashFn) (fs : List Ty)
    (hrec : ∃ ns, defaultNodes h fs = .ok ns ∧
      ns.map (Node.root h) = htrFields h fs (defaultVals fs)) :
    ∃ c, defaultNode h (.container fs) = .ok c ∧
      c.root h = htr h (.container fs) (defaultVal (.container fs)) := by
  obtain ⟨ns, hns, hroots⟩ := hrec
  have hnl : ns.length = fs.length := by
    rw [← htrFields_length h fs (defaultVals fs) (defaultVals_length fs).symm, ← hroots,
      List.length_map]
  obtain ⟨c, hc, hr⟩ := fill_nodes h (coverDepth fs.length) ns
    (by rw [hnl]; exact le_pow_coverDepth _)
  refine ⟨c, ?_, ?_⟩
  · simp only [defaultNode, hns]
    show orNil (fillToContents h (coverDepth fs.length) ns) = _
    rw [hc]; rfl
  · rw [hr, hroots]; simp only [defaultVal, htr]

theorem default_union (h : HashFn) (hasNone : Bool) (opts : List Ty)
    (hwf : (Ty.union hasNone opts).wf = true)
    (hrec : ∀ t rest, opts = t :: rest →
      ∃ d, defaultNode h t = .ok d ∧ d.root h = htr h t (defaultVal t)) :
    ∃ c, defaultNode h (.union hasNone opts) = .ok c ∧
      c.root h = htr h (.union hasNone opts) (defaultVal (.union hasNone opts)) := by
  cases hasNone with
  | true =>
    have ho : unionOpt true opts 0 = none := by simp [unionOpt]
    refine ⟨.pair (.leaf z0) (.leaf z0), by cases opts <;> simp only [defaultNode, if_true], ?_⟩
    cases opts <;> simp only [defaultVal, if_true, htr, ho, mixin, z0_number_chunk, Node.root]
  | false =>
    cases opts with
    | nil => simp [Ty.wf] at hwf
    | cons t rest =>
      obtain ⟨d, hd, hdr⟩ := hrec t rest rfl
      refine ⟨.pair d (.leaf z0), ?_, ?_⟩
      · simp only [defaultNode, Bool.false_eq_true, if_false, hd]; rfl
      · have ho : unionOpt false (t :: rest) 0 = some t := by simp [unionOpt]
        simp only [defaultVal, Bool.false_eq_true, if_false, htr, ho, mixin, z0_number_chunk,
          Node.root, hdr]

end ViewRoot

/-! ### the default backing, all types -/

mutual
theorem defaultNode_root (h : HashFn) (t : Ty) (hwf : t.wf = true) (hnb : noBoolSeries t = true) :
    ∃ n, defaultNode h t = .ok n ∧ n.root h = htr h t (defaultVal t) := by
  cases t with
  | uint b => exact default_uint h b
  | bool => exact default_bool h
  | bytesN k => exact default_bytesN h k hwf
  | bitvector k => exact default_bitvector h k
  | bitlist lim => exact default_bitlist h lim
  | vector e n =>
    have hwf' := hwf
    have hnb' := hnb
    simp only [Ty.wf, Bool.and_eq_true] at hwf'
    simp only [noBoolSeries, Bool.and_eq_true] at hnb'
    exact default_vector h e n hwf hnb (defaultNode_root h e hwf'.2 hnb'.2)
  | list e lim => exact default_list h e lim hwf hnb
  | container fs =>
    have hwf' := hwf
    have hnb' := hnb
    simp only [Ty.wf, Bool.and_eq_true] at hwf'
    simp only [noBoolSeries] at hnb'
    exact default_container h fs (defaultNodes_root h fs hwf'.2 hnb')
  | union hasNone opts =>
    have hwf' := hwf
    have hnb' := hnb
    simp only [Ty.wf, Bool.and_eq_true] at hwf'
    simp only [noBoolSeries] at hnb'
    refine default_union h hasNone opts hwf (fun t rest he => ?_)
    subst he
    simp only [Ty.wfAll, Bool.and_eq_true] at hwf'
    simp only [noBoolSeriesAll, Bool.and_eq_true] at hnb'
    exact defaultNode_root h t hwf'.1.2.1 hnb'.1
termination_by sizeOf t

theorem defaultNodes_root (h : HashFn) (fs : List Ty) (hwf : Ty.wfAll fs = true)
    (hnb : noBoolSeriesAll fs = true) :
    ∃ ns, defaultNodes h fs = .ok ns ∧
      ns.map (Node.root h) = htrFields h fs (defaultVals fs) := by
  cases fs with
  | nil => exact ⟨[], rfl, rfl⟩
  | cons t ts =>
    simp only [Ty.wfAll, Bool.and_eq_true] at hwf
    simp only [noBoolSeriesAll, Bool.and_eq_true] at hnb
    obtain ⟨n, hn, hr⟩ := defaultNode_root h t hwf.1 hnb.1
    obtain ⟨ns, hns, hrs⟩ := defaultNodes_root h ts hwf.2 hnb.2
    refine ⟨n :: ns, ?_, ?_⟩
    · simp only [defaultNodes, hn, hns]; rfl
    · simp only [List.map_cons, defaultVals, htrFields, hr, hrs]
termination_by sizeOf fs
end

/-! ### reachable backings (only used to *state* the mutation route, `C01_mutation_full`) -/

/-- `Reach h t v n`: `n` is a backing of a view of type `t` holding value `v`, obtained from the
    default or the constructor route followed by any chain of node-level mutations, each
    expressed with the `tree` primitives the typed mutators are made of
    (`SubtreeView.SetNode` = `toPath` + `setNode`; `Append/Pop` = `Setter(_, expand = true)` +
    length rewrite; `UnionView.Change` = re-pairing).  The new element backing `c` may itself
    be any reachable backing, which covers mutation through nested sub-views (the hook
    propagates the child's new backing with the parent's `setNode`).
    Sub-chunk updates of packed elements / bits are value-level read-modify-write on a single
    chunk and are stated over `Model/Machine.lean` in C04. -/
inductive Reach (h : HashFn) : Ty → Val → Node → Prop where
  | construct {t v n} : t.wf = true → noBoolSeries t = true → hasType t v = true →
      construct h t v = .ok n → Reach h t v n
  | default {t n} : t.wf = true → noBoolSeries t = true → defaultNode h t = .ok n →
      Reach h t (defaultVal t) n
  | setVector {e k vs n i w c p n'} : Reach h (.vector e k) (.seq vs) n →
      isBasicElem e = false → i < k → Reach h e w c →
      toPath i (coverDepth k) = .ok p → setNode h n p false c = .ok n' →
      Reach h (.vector e k) (.seq (vs.set i w)) n'
  | setList {e lim vs n i w c p n'} : Reach h (.list e lim) (.seq vs) n →
      isBasicElem e = false → i < vs.length → Reach h e w c →
      toPath i (coverDepth lim + 1) = .ok p → setNode h n p false c = .ok n' →
      Reach h (.list e lim) (.seq (vs.set i w)) n'
  | setField {fs vs n i t w c p n'} : Reach h (.container fs) (.seq vs) n →
      fs[i]? = some t → Reach h t w c →
      toPath i (coverDepth fs.length) = .ok p → setNode h n p false c = .ok n' →
      Reach h (.container fs) (.seq (vs.set i w)) n'
  | append {e lim vs n w c p n1 n'} : Reach h (.list e lim) (.seq vs) n →
      isBasicElem e = false → vs.length < lim → Reach h e w c →
      toPath vs.length (coverDepth lim + 1) = .ok p → setNode h n p true c = .ok n1 →
      setNode h n1 [true] false (lengthNode (vs.length + 1)) = .ok n' →
      Reach h (.list e lim) (.seq (vs ++ [w])) n'
  | pop {e lim vs n p n1 n'} : Reach h (.list e lim) (.seq vs) n →
      isBasicElem e = false → 0 < vs.length →
      toPath (vs.length - 1) (coverDepth lim + 1) = .ok p →
      setNode h n p true (zeroNode h 0) = .ok n1 →
      setNode h n1 [true] false (lengthNode (vs.length - 1)) = .ok n' →
      Reach h (.list e lim) (.seq vs.dropLast) n'
  | change {hasNone opts v0 n sel t w c} : Reach h (.union hasNone opts) v0 n →
      unionOpt hasNone opts sel = some t → Reach h t w c →
      Reach h (.union hasNone opts) (.union sel w) (.pair c (.leaf (chunkOf [UInt8.ofNat sel])))
  | changeNone {opts v0 n} : Reach h (.union true opts) v0 n →
      Reach h (.union true opts) (.union 0 .none)
        (.pair (.leaf z0) (.leaf (chunkOf [UInt8.ofNat 0])))

/-! ### a concrete nested type / value for the non-vacuity examples of Props/C01.lean -/

/-- a nested type using every constructor of `Ty` -/
def c01ExTy : Ty :=
  .container [
    .uint 8,
    .list (.vector (.uint 2) 3) 4,
    .bitlist 9,
    .bitvector 3,
    .union true [.uint 1, .bytesN 32],
    .vector (.container [.bool, .list (.uint 32) 5]) 2,
    .list (.uint 8) 0]

def c01ExVal : Val :=
  .seq [
    .num 0xFFFFFFFFFFFFFFFF,
    .seq [.seq [.num 1, .num 2, .num 65535], .seq [.num 0, .num 0, .num 7]],
    .bits [true, false, true],
    .bits [false, true, true],
    .union 2 (.bytes (List.replicate 32 7)),
    .seq [.seq [.bool true, .seq []], .seq [.bool false, .seq [.num (2 ^ 255), .num 3]]],
    .seq []]

end ZtypV
