/-
The representation relation `Rep`, part 3: `Serialize` and `ValueByteLength` on any `Rep`
backing give the spec encoding / its length (`rep_ser`, `rep_len`).
-/
import ZtypV.Proofs.RepView2
import ZtypV.Proofs.ViewLenMain
namespace ZtypV
open View

/-- `SubtreeIntoBytes` over a subtree whose bottom nodes are the chunks of `bs`
    (generalises `subtreeIntoBytes_fill` from `fillToContents` to any `SeqShape`) -/
theorem subtreeIntoBytes_shape {h : HashFn} {d : Nat} {bs : Bytes} {n : Node}
    (hs : SeqShape h d n (packedNodes bs)) (hd : d < 64) (count L : Nat)
    (hc : count = (bs.length + 31) / 32) :
    subtreeIntoBytes n d count L = .ok ((chunks bs).flatten.take L) := by
  unfold subtreeIntoBytes
  have hm : (List.range count).mapM (fun i => do
      let c ← subtreeGet n d i
      asLeaf c) = .ok (chunks bs) := by
    apply mapM_range_ok' _ _ _ (by simp [hc])
    intro i hi
    have hi' : i < (packedNodes bs).length := by rw [packedNodes_length]; simpa using hi
    rw [shape_get h hs hi' hd, packedNodes_getElem, R.bind_ok, asLeaf_leaf, chunks_getElem]
  rw [hm]; rfl

/-! ### 5a. serialization -/

/-- induction predicate of `rep_ser` -/
def RepSer (h : HashFn) (v : Val) : Prop :=
  ∀ (t : Ty) (n : Node), t.wf = true → inRange t = true → hasType t v = true →
    SizeOk t v → Rep h t v n → serializeView t n = .ok (serialize t v)

theorem repSer_bitvector (h : HashFn) (k : Nat) (bs : List Bool) (n : Node)
    (hr : inRange (.bitvector k) = true) (ht : hasType (.bitvector k) (.bits bs) = true)
    (hrep : Rep h (.bitvector k) (.bits bs) n) :
    serializeView (.bitvector k) n = .ok (packBits bs) := by
  simp only [hasType, beq_iff_eq] at ht
  simp only [inRange, decide_eq_true_eq] at hr
  simp only [Rep] at hrep
  simp only [serializeView]
  rw [subtreeIntoBytes_shape hrep.2 hr _ _ (by rw [packBits_length]; omega)]
  have : (k + 7) / 8 = (packBits bs).length := by rw [packBits_length, ht]
  rw [this, chunks_flatten_take]

theorem repSer_bitlist (h : HashFn) (lim : Nat) (bs : List Bool) (n : Node)
    (hr : inRange (.bitlist lim) = true) (ht : hasType (.bitlist lim) (.bits bs) = true)
    (hrep : Rep h (.bitlist lim) (.bits bs) n) :
    serializeView (.bitlist lim) n = .ok (packBits (bs ++ [true])) := by
  simp only [hasType, decide_eq_true_eq] at ht
  simp only [inRange, Bool.and_eq_true, decide_eq_true_eq] at hr
  simp only [Rep] at hrep
  obtain ⟨_, c, hn, hs⟩ := hrep
  subst hn
  simp only [serializeView]
  rw [getNode_pair_false, getNode_nil, R.bind_ok, listLength_pair c _ lim ht hr.1, R.bind_ok,
    subtreeIntoBytes_shape hs (by omega) _ _ (by rw [packBits_length]; omega), R.bind_ok]
  have hpad := chunks_take_pad (packBits bs) ((bs.length + 8) / 8) (by rw [packBits_length]; omega)
  rw [packBits_length] at hpad
  obtain ⟨last, hl1, hl2⟩ := packBits_delimiter bs _ hpad
  simp only [hl1, hl2]

theorem repSer_elems (h : HashFn) (e : Ty) (vs : List Val) (xs : List Node)
    (get : Nat → R Node) (ih : ∀ v ∈ vs, RepSer h v) (hwe : e.wf = true)
    (hre : inRange e = true) (hall : allHaveType e vs = true)
    (hsz : ∀ i (hi : i < vs.length), SizeOk e vs[i]) (hrl : RepList h e vs xs)
    (hget : ∀ i (hi : i < xs.length), get i = .ok xs[i]) :
    (List.range vs.length).mapM (fun i => do let c ← get i; serializeView e c)
      = .ok (serList e vs) := by
  have hl := repList_length hrl
  have := elems_get get (serializeView e) xs (serList e vs) (by simp [hl]) hget (by
    intro i h1 h2
    have hi : i < vs.length := by omega
    rw [serList_getElem e vs i hi]
    exact ih vs[i] (List.getElem_mem hi) e xs[i] hwe hre (allHaveType_getElem e vs hall i hi)
      (hsz i hi) (repList_getElem hrl i hi h1))
  rwa [serList_length] at this

theorem repSer_vector (h : HashFn) (e : Ty) (k : Nat) (vs : List Val) (n : Node)
    (ih : ∀ v ∈ vs, RepSer h v) (hw : (Ty.vector e k).wf = true)
    (hr : inRange (.vector e k) = true) (ht : hasType (.vector e k) (.seq vs) = true)
    (hs : SizeOk (.vector e k) (.seq vs)) (hrep : Rep h (.vector e k) (.seq vs) n) :
    serializeView (.vector e k) n = .ok (serialize (.vector e k) (.seq vs)) := by
  have hge := vector_ser_ge e k vs
  have hse : ∀ i (hi : i < vs.length), SizeOk e vs[i] := by
    intro i hi
    rcases hs with hs | hs
    · simp only [offsetFree, Bool.and_eq_true] at hs
      exact Or.inl hs.2
    · have := elem_ser_le e vs i hi
      exact Or.inr (by omega)
  simp only [hasType, Bool.and_eq_true, beq_iff_eq] at ht
  simp only [Ty.wf, Bool.and_eq_true, decide_eq_true_eq] at hw
  simp only [inRange, Bool.and_eq_true, decide_eq_true_eq] at hr
  obtain ⟨hlen, hall⟩ := ht
  cases hb : isBasicElem e
  · -- complex series
    simp only [Rep, hb, Bool.false_eq_true, if_false] at hrep
    obtain ⟨_, xs, hrl, hsh⟩ := hrep
    have hd : coverDepth k < 64 := by rw [← seriesDepth_complex hb k]; exact hr.1
    have hm := repSer_elems h e vs xs (subtreeGet n (coverDepth k)) ih hw.2 hr.2 hall hse hrl
      (fun i hi => shape_get h hsh hi hd)
    rw [hlen] at hm
    simp only [serializeView, hb, Bool.false_eq_true, if_false, hm, R.bind_ok]
    cases hfx : e.isFixed
    · rcases hs with hs | hs
      · simp [offsetFree, hfx] at hs
      simp only [serialize, hfx, Bool.false_eq_true, if_false] at hs ⊢
      exact serVarSeries_ok _ hs
    · simp only [serialize, hfx, if_true]
  · -- packed uints
    obtain ⟨b, rfl⟩ := isBasicElem_uint hb
    have hbw := uint_wf_le hw.2
    simp only [Rep, isBasicElem, if_true] at hrep
    have hfl := basic_flatten_length b vs hall
    simp only [serializeView, isBasicElem, if_true, Ty.fixedSize, serialize, Ty.isFixed]
    rw [subtreeIntoBytes_shape hrep.2 hr.1 _ _ (by rw [View.bottomNodes_eq b k hbw, hfl, hlen])]
    rw [← hlen, ← hfl, chunks_flatten_take]

theorem repSer_list (h : HashFn) (e : Ty) (lim : Nat) (vs : List Val) (n : Node)
    (ih : ∀ v ∈ vs, RepSer h v) (hw : (Ty.list e lim).wf = true)
    (hr : inRange (.list e lim) = true) (ht : hasType (.list e lim) (.seq vs) = true)
    (hs : SizeOk (.list e lim) (.seq vs)) (hrep : Rep h (.list e lim) (.seq vs) n) :
    serializeView (.list e lim) n = .ok (serialize (.list e lim) (.seq vs)) := by
  have hge := list_ser_ge e lim vs
  have hse : ∀ i (hi : i < vs.length), SizeOk e vs[i] := by
    intro i hi
    rcases hs with hs | hs
    · simp only [offsetFree, Bool.and_eq_true] at hs
      exact Or.inl hs.2
    · have := elem_ser_le e vs i hi
      exact Or.inr (by omega)
  simp only [hasType, Bool.and_eq_true, decide_eq_true_eq] at ht
  simp only [Ty.wf] at hw
  simp only [inRange, Bool.and_eq_true, decide_eq_true_eq] at hr
  obtain ⟨hlen, hall⟩ := ht
  cases hb : isBasicElem e
  · -- complex series
    simp only [Rep, hb, Bool.false_eq_true, if_false] at hrep
    obtain ⟨_, xs, hrl, c, hn, hsh⟩ := hrep
    subst hn
    have hd : coverDepth lim < 64 := by rw [← seriesDepth_complex hb lim]; omega
    have hm := repSer_elems h e vs xs (subtreeGet c (coverDepth lim)) ih hw hr.2 hall hse hrl
      (fun i hi => shape_get h hsh hi hd)
    simp only [serializeView, hb, Bool.false_eq_true, if_false]
    rw [listLength_pair c _ lim hlen hr.1.1, R.bind_ok, getNode_pair_false, getNode_nil, R.bind_ok,
      hm, R.bind_ok]
    cases hfx : e.isFixed
    · rcases hs with hs | hs
      · simp [offsetFree, hfx] at hs
      simp only [serialize, hfx, Bool.false_eq_true, if_false] at hs ⊢
      exact serVarSeries_ok _ hs
    · simp only [serialize, hfx, if_true]
  · -- packed uints
    obtain ⟨b, rfl⟩ := isBasicElem_uint hb
    have hbw := uint_wf_le hw
    simp only [Rep, isBasicElem, if_true] at hrep
    obtain ⟨_, c, hn, hsh⟩ := hrep
    subst hn
    have hfl := basic_flatten_length b vs hall
    simp only [serializeView, isBasicElem, if_true, Ty.fixedSize, serialize, Ty.isFixed]
    rw [getNode_pair_false, getNode_nil, R.bind_ok, listLength_pair c _ lim hlen hr.1.1, R.bind_ok]
    have hbn := View.bottomNodes_eq b vs.length hbw
    unfold bottomNodes at hbn
    rw [subtreeIntoBytes_shape hsh (by omega) _ _ (by rw [hbn, hfl])]
    rw [← hfl, chunks_flatten_take]

theorem repSer_container (h : HashFn) (fs : List Ty) (vs : List Val) (n : Node)
    (ih : ∀ v ∈ vs, RepSer h v) (hw : (Ty.container fs).wf = true)
    (hr : inRange (.container fs) = true) (ht : hasType (.container fs) (.seq vs) = true)
    (hs : SizeOk (.container fs) (.seq vs)) (hrep : Rep h (.container fs) (.seq vs) n) :
    serializeView (.container fs) n = .ok (serialize (.container fs) (.seq vs)) := by
  simp only [hasType] at ht
  simp only [Ty.wf, Bool.and_eq_true] at hw
  simp only [inRange, Bool.and_eq_true, decide_eq_true_eq] at hr
  simp only [SizeOk, serialize, offsetFree, Bool.and_eq_true] at hs
  simp only [serialize]
  simp only [Rep] at hrep
  obtain ⟨xs, hrf, hsh⟩ := hrep
  obtain ⟨hl, hlen⟩ := repFields_length hrf
  have hparts : serFieldsView fs n (coverDepth fs.length) 0 = .ok (serFields fs vs) := by
    apply serFieldsView_ok n _ fs vs 0 hlen
    intro j h1 h2
    have h3 : j < xs.length := by omega
    refine ⟨xs[j], ?_, ?_⟩
    · rw [Nat.zero_add]; exact shape_get h hsh h3 hr.1
    · refine ih vs[j] (List.getElem_mem h2) fs[j] xs[j]
        (wfAll_get fs j _ hw.2 (getElem?_of_lt fs j h1))
        (inRangeAll_get fs j _ hr.2 (getElem?_of_lt fs j h1))
        (fieldsHaveType_getElem fs vs ht j h1 h2) ?_ (repFields_getElem hrf j h1 h2 h3)
      rcases hs with hs | hs
      · exact Or.inl (offsetFreeAll_get fs j _ hs.2 (getElem?_of_lt fs j h1))
      · have := field_ser_le fs vs j h1 h2
        exact Or.inr (by omega)
  simp only [serializeView, hparts, R.bind_ok]
  have hfp := (fixedPartLen_serFields fs vs (fun v _ t => serialize_fixed_length v t) ht).symm
  rcases hs with hs | hs
  · exact serContainer_ok_fixed _ _ hfp (serFields_allFixed fs vs hs.1)
  · exact serContainer_ok _ _ hfp hs

theorem repSer_union (h : HashFn) (hasNone : Bool) (opts : List Ty) (sel : Nat) (v : Val)
    (n : Node) (ih : RepSer h v) (hw : (Ty.union hasNone opts).wf = true)
    (hr : inRange (.union hasNone opts) = true)
    (ht : hasType (.union hasNone opts) (.union sel v) = true)
    (hs : SizeOk (.union hasNone opts) (.union sel v))
    (hrep : Rep h (.union hasNone opts) (.union sel v) n) :
    serializeView (.union hasNone opts) n = .ok (serialize (.union hasNone opts) (.union sel v)) := by
  simp only [Ty.wf, Bool.and_eq_true, decide_eq_true_eq] at hw
  simp only [inRange] at hr
  simp only [hasType] at ht
  cases ho : unionOpt hasNone opts sel with
  | none =>
    simp only [ho, Bool.and_eq_true, beq_iff_eq] at ht
    obtain ⟨⟨hn, hsel⟩, hv⟩ := ht
    subst hn; subst hsel
    cases v <;> simp at hv
    obtain ⟨_, _, hn⟩ := rep_union_none.mp hrep
    subst hn
    simp only [serializeView, serialize, ho, getNode_pair_true, getNode_pair_false, getNode_nil,
      R.bind_ok, asLeaf_leaf, chunkOf_single_drop, Bool.false_eq_true, if_false, chunkOf_single_getD]
    simp
  | some t =>
    simp only [ho] at ht
    obtain ⟨hlt, hnz, hget⟩ := unionOpt_lt ho
    have hvn : v ≠ .none := by
      intro hv; subst hv; rw [View.hasType_none] at ht; cases ht
    have hsel : (UInt8.ofNat sel).toNat = sel := by
      rw [UInt8.toNat_ofNat']; apply Nat.mod_eq_of_lt; omega
    simp only [SizeOk, offsetFree, serialize, ho, List.length_cons] at hs
    simp only [serialize, ho]
    obtain ⟨c, hrc, hn⟩ := (rep_union_some ho hvn).mp hrep
    subst hn
    have hrec := ih t c (wfAll_get opts _ t hw.1.2 hget) (inRangeAll_get opts _ t hr hget) ht
      (by
        rcases hs with hs | hs
        · exact Or.inl (offsetFreeAll_get opts _ t hs hget)
        · exact Or.inr (by omega)) hrc
    simp only [serializeView, getNode_pair_true, getNode_pair_false, getNode_nil,
      R.bind_ok, asLeaf_leaf, chunkOf_single_drop, Bool.false_eq_true, if_false,
      chunkOf_single_getD, hsel]
    rw [if_neg (by omega)]
    simp only [hnz, Bool.false_eq_true, if_false, serOptView_get opts _ t c hget, hrec, R.bind_ok]

theorem repSer_all (h : HashFn) : ∀ v, RepSer h v := by
  intro v
  induction v using Val.induct with
  | num k =>
    intro t n hw hr ht hs hrep
    cases t <;> simp [hasType] at ht
    rename_i b
    simp only [Rep] at hrep
    subst hrep
    have hb := uint_wf_le hw
    have := chunkOf_take_self (leBytes b k) (by simp; omega)
    rw [leBytes_length] at this
    simp only [serializeView, asLeaf_leaf, R.bind_ok, this, serialize]
  | bool b =>
    intro t n hw hr ht hs hrep
    cases t <;> simp [hasType] at ht
    simp only [Rep] at hrep
    subst hrep
    simp only [serializeView, asLeaf_leaf, R.bind_ok, chunkOf_single_getD, serialize]
    cases b <;> simp
  | bytes bs =>
    intro t n hw hr ht hs hrep
    cases t <;> simp [hasType] at ht
    simp only [Rep] at hrep
    subst hrep
    simp only [Ty.wf, Bool.and_eq_true, decide_eq_true_eq] at hw
    have := chunkOf_take_self bs (by omega)
    rw [ht] at this
    simp only [serializeView, asLeaf_leaf, R.bind_ok, serialize, this]
  | bits bs =>
    intro t n hw hr ht hs hrep
    cases t <;> try (simp [hasType] at ht; done)
    · simp only [serialize]; exact repSer_bitvector h _ bs n hr ht hrep
    · simp only [serialize]; exact repSer_bitlist h _ bs n hr ht hrep
  | seq vs ih =>
    intro t n hw hr ht hs hrep
    cases t <;> try (simp [hasType] at ht; done)
    · exact repSer_vector h _ _ vs n ih hw hr ht hs hrep
    · exact repSer_list h _ _ vs n ih hw hr ht hs hrep
    · exact repSer_container h _ vs n ih hw hr ht hs hrep
  | none =>
    intro t n hw hr ht hs hrep
    rw [View.hasType_none] at ht; cases ht
  | union sel v ih =>
    intro t n hw hr ht hs hrep
    cases t <;> try (simp [hasType] at ht; done)
    exact repSer_union h _ _ sel v n ih hw hr ht hs hrep

/-- 5a. `Serialize` of any `Rep` backing is the spec encoding (side condition `SizeOk`: the type
    writes no offsets, or the encoding fits `uint32`) -/
theorem rep_ser_sizeOk (h : HashFn) {t : Ty} {v : Val} {n : Node} (hwf : t.wf = true)
    (hr : inRange t = true) (hty : hasType t v = true) (hs : SizeOk t v) (hrep : Rep h t v n) :
    serializeView t n = .ok (serialize t v) :=
  repSer_all h v t n hwf hr hty hs hrep

/-- 5a. … in particular whenever the encoding is shorter than `2^32` bytes -/
theorem rep_ser (h : HashFn) {t : Ty} {v : Val} {n : Node} (hwf : t.wf = true)
    (hr : inRange t = true) (hty : hasType t v = true) (hlen : (serialize t v).length < 2 ^ 32)
    (hrep : Rep h t v n) : serializeView t n = .ok (serialize t v) :=
  rep_ser_sizeOk h hwf hr hty (Or.inr hlen) hrep

/-! ### 5b. `ValueByteLength` -/

/-- induction predicate of `rep_len` -/
def RepLen (h : HashFn) (v : Val) : Prop :=
  ∀ (t : Ty) (n : Node), t.wf = true → inRange t = true → hasType t v = true →
    Rep h t v n → valueByteLength t n = .ok (serialize t v).length

theorem repLen_elems (h : HashFn) (e : Ty) (vs : List Val) (xs : List Node)
    (get : Nat → R Node) (ih : ∀ v ∈ vs, RepLen h v) (hwe : e.wf = true)
    (hre : inRange e = true) (hall : allHaveType e vs = true) (hrl : RepList h e vs xs)
    (hget : ∀ i (hi : i < xs.length), get i = .ok xs[i]) :
    (List.range vs.length).mapM (fun i => do let c ← get i; valueByteLength e c)
      = .ok ((serList e vs).map List.length) := by
  have hl := repList_length hrl
  have := elems_get get (valueByteLength e) xs ((serList e vs).map List.length) (by simp [hl])
    hget (by
      intro i h1 h2
      have hi : i < vs.length := by omega
      rw [List.getElem_map, serList_getElem e vs i hi]
      exact ih vs[i] (List.getElem_mem hi) e xs[i] hwe hre (allHaveType_getElem e vs hall i hi)
        (repList_getElem hrl i hi h1))
  rwa [List.length_map, serList_length] at this

/-- every list view is `pair contents lengthNode` -/
theorem rep_list_pair {h : HashFn} {e : Ty} {lim : Nat} {vs : List Val} {n : Node}
    (hrep : Rep h (.list e lim) (.seq vs) n) : ∃ c, n = .pair c (lengthNode vs.length) := by
  simp only [Rep] at hrep
  obtain ⟨_, hrep⟩ := hrep
  split at hrep
  · obtain ⟨c, hn, _⟩ := hrep; exact ⟨c, hn⟩
  · obtain ⟨_, _, c, hn, _⟩ := hrep; exact ⟨c, hn⟩

theorem repLen_vector (h : HashFn) (e : Ty) (k : Nat) (vs : List Val) (n : Node)
    (ih : ∀ v ∈ vs, RepLen h v) (hw : (Ty.vector e k).wf = true)
    (hr : inRange (.vector e k) = true) (ht : hasType (.vector e k) (.seq vs) = true)
    (hrep : Rep h (.vector e k) (.seq vs) n) :
    valueByteLength (.vector e k) n = .ok (serialize (.vector e k) (.seq vs)).length := by
  simp only [hasType, Bool.and_eq_true, beq_iff_eq] at ht
  simp only [Ty.wf, Bool.and_eq_true, decide_eq_true_eq] at hw
  simp only [inRange, Bool.and_eq_true, decide_eq_true_eq] at hr
  obtain ⟨hlen, hall⟩ := ht
  cases hfx : e.isFixed
  · have hb := not_fixed_not_basic hfx
    simp only [Rep, hb, Bool.false_eq_true, if_false] at hrep
    obtain ⟨_, xs, hrl, hsh⟩ := hrep
    have hd : coverDepth k < 64 := by rw [← seriesDepth_complex hb k]; exact hr.1
    have hm := repLen_elems h e vs xs (subtreeGet n (coverDepth k)) ih hw.2 hr.2 hall hrl
      (fun i hi => shape_get h hsh hi hd)
    rw [hlen] at hm
    simp only [valueByteLength, serialize, hfx, Bool.false_eq_true, if_false, hm, R.bind_ok]
    rw [var_series_length _ k (by simp [hlen])]
  · simp only [valueByteLength, serialize, hfx, if_true]
    rw [fixed_series_length e vs hfx hall, hlen]

theorem repLen_list (h : HashFn) (e : Ty) (lim : Nat) (vs : List Val) (n : Node)
    (ih : ∀ v ∈ vs, RepLen h v) (hw : (Ty.list e lim).wf = true)
    (hr : inRange (.list e lim) = true) (ht : hasType (.list e lim) (.seq vs) = true)
    (hrep : Rep h (.list e lim) (.seq vs) n) :
    valueByteLength (.list e lim) n = .ok (serialize (.list e lim) (.seq vs)).length := by
  simp only [hasType, Bool.and_eq_true, decide_eq_true_eq] at ht
  simp only [Ty.wf] at hw
  simp only [inRange, Bool.and_eq_true, decide_eq_true_eq] at hr
  obtain ⟨hlen, hall⟩ := ht
  cases hfx : e.isFixed
  · have hb := not_fixed_not_basic hfx
    simp only [Rep, hb, Bool.false_eq_true, if_false] at hrep
    obtain ⟨_, xs, hrl, c, hn, hsh⟩ := hrep
    subst hn
    have hd : coverDepth lim < 64 := by rw [← seriesDepth_complex hb lim]; omega
    have hm := repLen_elems h e vs xs (subtreeGet c (coverDepth lim)) ih hw hr.2 hall hrl
      (fun i hi => shape_get h hsh hi hd)
    simp only [valueByteLength, serialize, hfx, Bool.false_eq_true, if_false]
    rw [listLength_pair c _ lim hlen hr.1.1, R.bind_ok, getNode_pair_false, getNode_nil, R.bind_ok,
      hm, R.bind_ok, var_series_length _ vs.length (by simp)]
  · obtain ⟨c, hn⟩ := rep_list_pair hrep
    subst hn
    simp only [valueByteLength, serialize, hfx, if_true]
    rw [listLength_pair c _ lim hlen hr.1.1, R.bind_ok, fixed_series_length e vs hfx hall]

theorem repLen_container (h : HashFn) (fs : List Ty) (vs : List Val) (n : Node)
    (ih : ∀ v ∈ vs, RepLen h v) (hw : (Ty.container fs).wf = true)
    (hr : inRange (.container fs) = true) (ht : hasType (.container fs) (.seq vs) = true)
    (hrep : Rep h (.container fs) (.seq vs) n) :
    valueByteLength (.container fs) n = .ok (serialize (.container fs) (.seq vs)).length := by
  simp only [hasType] at ht
  simp only [Ty.wf, Bool.and_eq_true] at hw
  simp only [inRange, Bool.and_eq_true, decide_eq_true_eq] at hr
  simp only [serialize, serContainerParts_length]
  simp only [Rep] at hrep
  obtain ⟨xs, hrf, hsh⟩ := hrep
  obtain ⟨hl, hlen⟩ := repFields_length hrf
  cases haf : Ty.allFixed fs
  · simp only [valueByteLength, haf, Bool.false_eq_true, if_false]
    apply lenFieldsView_ok n _ fs vs 0 hlen
    intro j h1 h2
    have h3 : j < xs.length := by omega
    have htj := fieldsHaveType_getElem fs vs ht j h1 h2
    refine ⟨fun hfx => serialize_fixed_length _ _ hfx htj, fun _ => ⟨xs[j], ?_, ?_⟩⟩
    · rw [Nat.zero_add]; exact shape_get h hsh h3 hr.1
    · exact ih vs[j] (List.getElem_mem h2) fs[j] xs[j]
        (wfAll_get fs j _ hw.2 (getElem?_of_lt fs j h1))
        (inRangeAll_get fs j _ hr.2 (getElem?_of_lt fs j h1)) htj
        (repFields_getElem hrf j h1 h2 h3)
  · simp only [valueByteLength, haf, if_true]
    rw [serVarPart_allFixed fs vs haf,
      fixedPartLen_serFields fs vs (fun v _ t => serialize_fixed_length v t) ht]
    rfl

theorem repLen_union (h : HashFn) (hasNone : Bool) (opts : List Ty) (sel : Nat) (v : Val)
    (n : Node) (ih : RepLen h v) (hw : (Ty.union hasNone opts).wf = true)
    (hr : inRange (.union hasNone opts) = true)
    (ht : hasType (.union hasNone opts) (.union sel v) = true)
    (hrep : Rep h (.union hasNone opts) (.union sel v) n) :
    valueByteLength (.union hasNone opts) n
      = .ok (serialize (.union hasNone opts) (.union sel v)).length := by
  simp only [Ty.wf, Bool.and_eq_true, decide_eq_true_eq] at hw
  simp only [inRange] at hr
  simp only [hasType] at ht
  cases ho : unionOpt hasNone opts sel with
  | none =>
    simp only [ho, Bool.and_eq_true, beq_iff_eq] at ht
    obtain ⟨⟨hn, hsel⟩, hv⟩ := ht
    subst hn; subst hsel
    cases v <;> simp at hv
    obtain ⟨_, _, hn⟩ := rep_union_none.mp hrep
    subst hn
    simp only [valueByteLength, serialize, ho, getNode_pair_true, getNode_pair_false, getNode_nil,
      R.bind_ok, asLeaf_leaf, chunkOf_single_drop, Bool.false_eq_true, if_false, chunkOf_single_getD]
    simp
  | some t =>
    simp only [ho] at ht
    obtain ⟨hlt, hnz, hget⟩ := unionOpt_lt ho
    have hvn : v ≠ .none := by
      intro hv; subst hv; rw [View.hasType_none] at ht; cases ht
    have hsel : (UInt8.ofNat sel).toNat = sel := by
      rw [UInt8.toNat_ofNat']; apply Nat.mod_eq_of_lt; omega
    obtain ⟨c, hrc, hn⟩ := (rep_union_some ho hvn).mp hrep
    subst hn
    have hrec := ih t c (wfAll_get opts _ t hw.1.2 hget) (inRangeAll_get opts _ t hr hget) ht hrc
    simp only [valueByteLength, serialize, ho, List.length_cons, getNode_pair_true,
      getNode_pair_false, getNode_nil,
      R.bind_ok, asLeaf_leaf, chunkOf_single_drop, Bool.false_eq_true, if_false,
      chunkOf_single_getD, hsel]
    rw [if_neg (by omega)]
    simp only [hnz, Bool.false_eq_true, if_false, lenOptView_get opts _ t c hget, hrec, R.bind_ok]

theorem repLen_all (h : HashFn) : ∀ v, RepLen h v := by
  intro v
  induction v using Val.induct with
  | num k =>
    intro t n hw hr ht hrep
    cases t <;> simp [hasType] at ht
    simp only [valueByteLength, serialize, leBytes_length]
  | bool b =>
    intro t n hw hr ht hrep
    cases t <;> simp [hasType] at ht
    simp only [valueByteLength, serialize, List.length_singleton]
  | bytes bs =>
    intro t n hw hr ht hrep
    cases t <;> simp [hasType] at ht
    simp only [valueByteLength, serialize, ht]
  | bits bs =>
    intro t n hw hr ht hrep
    cases t <;> try (simp [hasType] at ht; done)
    · simp only [hasType, beq_iff_eq] at ht
      simp only [valueByteLength, serialize, packBits_length, ht]
    · simp only [hasType, decide_eq_true_eq] at ht
      simp only [inRange, Bool.and_eq_true, decide_eq_true_eq] at hr
      simp only [Rep] at hrep
      obtain ⟨_, c, hn, _⟩ := hrep
      subst hn
      simp only [valueByteLength, serialize, packBits_length, List.length_append,
        List.length_singleton]
      rw [listLength_pair c _ _ ht hr.1, R.bind_ok]
  | seq vs ih =>
    intro t n hw hr ht hrep
    cases t <;> try (simp [hasType] at ht; done)
    · exact repLen_vector h _ _ vs n ih hw hr ht hrep
    · exact repLen_list h _ _ vs n ih hw hr ht hrep
    · exact repLen_container h _ vs n ih hw hr ht hrep
  | none =>
    intro t n hw hr ht hrep
    rw [View.hasType_none] at ht; cases ht
  | union sel v ih =>
    intro t n hw hr ht hrep
    cases t <;> try (simp [hasType] at ht; done)
    exact repLen_union h _ _ sel v n ih hw hr ht hrep

/-- 5b. `ValueByteLength` of any `Rep` backing is the length of the spec encoding -/
theorem rep_len (h : HashFn) {t : Ty} {v : Val} {n : Node} (hwf : t.wf = true)
    (hr : inRange t = true) (hty : hasType t v = true) (hrep : Rep h t v n) :
    valueByteLength t n = .ok (serialize t v).length :=
  repLen_all h v t n hwf hr hty hrep

end ZtypV
