/-
Model H: the rebinding spine with expansion of zero summaries (`DeeperSetter(expand = true)`), and
its hashing cost (C07).  Core Lean only.
-/
import ZtypV.Proofs.HeapCost
namespace ZtypV.H

theorem spn_cost (h : HashFn) {hp : Heap} {x d : Nat} (hw : WF hp) (hs : Spn hp x d) :
    ∀ f, x < f → (rootH h f hp x).2.2.calls ≤ d := by
  induction hs with
  | base d ht =>
    intro f hlt
    obtain ⟨f0, rfl⟩ : ∃ f0, f = f0 + 1 := ⟨f - 1, by omega⟩
    rw [(rootH_top h ht).2]; exact Nat.zero_le _
  | @right x l r d e htl _ ih =>
    intro f hlt
    have hlr := hw x z0 l r e
    obtain ⟨f1, rfl⟩ : ∃ f1, f = f1 + 1 + 1 := ⟨f - 2, by omega⟩
    rw [rootH_unset h e]
    obtain ⟨e1, e2⟩ := rootH_top h (f := f1) htl
    rw [e1]
    have := ih (f1+1) (by omega)
    simp only [Trace.app_calls, e2, Trace.one]
    omega
  | @left x l r d e _ htr ih =>
    intro f hlt
    have hlr := hw x z0 l r e
    obtain ⟨f1, rfl⟩ : ∃ f1, f = f1 + 1 + 1 := ⟨f - 2, by omega⟩
    rw [rootH_unset h e]
    have c1 := ih (f1+1) (by omega)
    have htr' := topMemo_memoStep htr (rootH_memoStep h (f1+1) hp l).1
    obtain ⟨_, e2⟩ := rootH_top h (f := f1) htr'
    simp only [Trace.app_calls, e2, Trace.one]
    omega

theorem spn_lt {hp : Heap} {x d : Nat} (hs : Spn hp x d) : x < hp.size := by
  cases hs with
  | base d ht => exact topMemo_lt ht
  | right e _ _ => exact get_lt_size e
  | left e _ _ => exact get_lt_size e

theorem spn_mono {hp hp' : Heap} {x d : Nat} (he : PExt hp hp') (hs : Spn hp x d) : Spn hp' x d := by
  induction hs with
  | base d ht => exact .base d (topMemo_pext he (topMemo_lt ht) ht)
  | right e htl _ ih =>
    exact .right (by rw [he.2 _ (get_lt_size e)]; exact e) (topMemo_pext he (topMemo_lt htl) htl) ih
  | left e _ htr ih =>
    exact .left (by rw [he.2 _ (get_lt_size e)]; exact e) ih (topMemo_pext he (topMemo_lt htr) htr)

theorem fullyMemo_leaf {hp : Heap} {a : Nat} {r : Root} (ha : hp[a]? = some (Cell.leaf r)) :
    FullyMemo hp a := by
  intro y m l r' hr hy
  cases hr with
  | refl => rw [ha] at hy; cases hy
  | left m' l' r'' e _ => rw [ha] at e; cases e
  | right m' l' r'' e _ => rw [ha] at e; cases e

/-- the last step of every level: the rest of the path yields `c'`, then one `NewPairNode` -/
theorem bind_alloc (h : HashFn) {sub : Prog (Option Nat)} {F : Option Nat → Prog (Option Nat)}
    {L R : Nat → Nat} {hp0 : Heap} {x' : Nat} (hr : (run h (sub.bind F) hp0).1 = some (some x'))
    (hnone : F none = .ret none)
    (hsome : ∀ c', F (some c') = .allocPair (L c') (R c') (fun a => .ret (some a))) :
    ∃ c', (run h sub hp0).1 = some (some c') ∧ L c' < (run h sub hp0).2.1.size
      ∧ R c' < (run h sub hp0).2.1.size ∧ x' = (run h sub hp0).2.1.size
      ∧ (run h (sub.bind F) hp0).2.1 = (run h sub hp0).2.1.push (.pair z0 (L c') (R c'))
      ∧ (run h (sub.bind F) hp0).2.2.calls = (run h sub hp0).2.2.calls := by
  cases hsub : (run h sub hp0).1 with
  | none => rw [run_bind_none h _ _ _ hsub] at hr; cases hr
  | some o =>
    rw [run_bind_some h _ _ _ _ hsub] at hr ⊢
    cases o with
    | none => rw [hnone] at hr; simp [run] at hr
    | some c' =>
      rw [hsome] at hr ⊢
      by_cases hlr : L c' < (run h sub hp0).2.1.size ∧ R c' < (run h sub hp0).2.1.size
      · rw [run_allocPair_ok h _ hlr.1 hlr.2] at hr ⊢
        simp only [run, Option.some.injEq] at hr
        refine ⟨c', rfl, hlr.1, hlr.2, hr.symm, rfl, ?_⟩
        simp only [run, Trace.app_calls, Trace.one, Trace.nil]
        omega
      · rw [run_allocPair_bad h _ hlr] at hr; cases hr

/-- `setPathX` hashes nothing, leaves all existing cells untouched and yields a spine -/
theorem run_setPathX (h : HashFn) (zs : Nat → Nat) :
    ∀ (path : List Bool) (x y : Nat) (hp : Heap) (x' : Nat),
    WF hp → (∀ d, ∃ r, hp[zs d]? = some (Cell.leaf r)) → TopMemo hp y → FullyMemo hp x →
    (run h (setPathX zs path x y) hp).1 = some (some x') →
      PExt hp (run h (setPathX zs path x y) hp).2.1 ∧ WF (run h (setPathX zs path x y) hp).2.1
        ∧ Spn (run h (setPathX zs path x y) hp).2.1 x' path.length
        ∧ (run h (setPathX zs path x y) hp).2.2.calls = 0 := by
  intro path
  induction path with
  | nil =>
    intro x y hp x' hw _ hty _ hr
    simp only [setPathX, run, Option.some.injEq] at hr
    subst hr
    exact ⟨PExt.refl hp, hw, .base 0 hty, rfl⟩
  | cons b bs ih =>
    intro x y hp x' hw hzs hty hfx hr
    rw [setPathX] at hr ⊢
    cases hx : hp[x]? with
    | none => rw [run_read_none h _ hx] at hr; simp [run] at hr
    | some c =>
      rw [run_read_some h _ hx] at hr ⊢
      cases c with
      | pair m l r =>
        have hlr := hw x m l r hx
        have hxs := get_lt_size hx
        obtain ⟨hfl, hfr⟩ := fullyMemo_child hfx hx
        simp only [view] at hr ⊢
        cases b with
        | true =>
          simp only [if_true] at hr ⊢
          obtain ⟨c', hsub, hl1, hc1, rfl, hheap, hcalls⟩ :=
            bind_alloc h hr (L := fun _ => l) (R := fun c' => c') rfl (fun _ => rfl)
          obtain ⟨pe, hw1, sp, hc0⟩ := ih r y hp c' hw hzs hty hfr hsub
          rw [hheap, Trace.app_calls, hcalls, hc0]
          have pe' := pe.trans (pext_push _ (Cell.pair z0 l c'))
          refine ⟨pe', WF_push_pair hw1 hl1 hc1 z0, ?_, rfl⟩
          exact .right (get_push_size _ _)
            (topMemo_pext pe' (by omega) (topMemo_of_fullyMemo hfl (by omega)))
            (spn_mono (pext_push _ _) sp)
        | false =>
          simp only [Bool.false_eq_true, if_false] at hr ⊢
          obtain ⟨c', hsub, hc1, hr1, rfl, hheap, hcalls⟩ :=
            bind_alloc h hr (L := fun c' => c') (R := fun _ => r) rfl (fun _ => rfl)
          obtain ⟨pe, hw1, sp, hc0⟩ := ih l y hp c' hw hzs hty hfl hsub
          rw [hheap, Trace.app_calls, hcalls, hc0]
          have pe' := pe.trans (pext_push _ (Cell.pair z0 c' r))
          refine ⟨pe', WF_push_pair hw1 hc1 hr1 z0, ?_, rfl⟩
          exact .left (get_push_size _ _) (spn_mono (pext_push _ _) sp)
            (topMemo_pext pe' (by omega) (topMemo_of_fullyMemo hfr (by omega)))
      | leaf v =>
        simp only [view] at hr ⊢
        obtain ⟨vz, hz⟩ := hzs (bs.length + 1)
        rw [run_read_some h _ hz] at hr ⊢
        simp only [view] at hr ⊢
        by_cases hv : v = vz
        · simp only [hv, if_true] at hr ⊢
          obtain ⟨vc, hc⟩ := hzs bs.length
          have hcs := get_lt_size hc
          rw [run_allocPair_ok h _ hcs hcs] at hr ⊢
          -- the heap with the throw-away expansion pair
          have hwg := WF_push_pair hw hcs hcs z0
          have peg := pext_push hp (Cell.pair z0 (zs bs.length) (zs bs.length))
          have hzsg : ∀ d, ∃ r, (hp.push (Cell.pair z0 (zs bs.length) (zs bs.length)))[zs d]?
              = some (Cell.leaf r) := by
            intro d
            obtain ⟨r, e⟩ := hzs d
            exact ⟨r, by rw [peg.2 _ (get_lt_size e)]; exact e⟩
          have htyg := topMemo_pext peg (topMemo_lt hty) hty
          have hcg : (hp.push (Cell.pair z0 (zs bs.length) (zs bs.length)))[zs bs.length]?
              = some (Cell.leaf vc) := by rw [peg.2 _ hcs]; exact hc
          cases b with
          | true =>
            simp only [if_true] at hr ⊢
            obtain ⟨c', hsub, hl1, hc1, rfl, hheap, hcalls⟩ :=
              bind_alloc h hr (L := fun _ => zs bs.length) (R := fun c' => c') rfl (fun _ => rfl)
            obtain ⟨pe, hw1, sp, hc0⟩ :=
              ih (zs bs.length) y _ c' hwg hzsg htyg (fullyMemo_leaf hcg) hsub
            rw [hheap, Trace.app_calls, Trace.app_calls, Trace.app_calls, hcalls, hc0]
            have pe' := (peg.trans pe).trans (pext_push _ (Cell.pair z0 (zs bs.length) c'))
            refine ⟨pe', WF_push_pair hw1 hl1 hc1 z0, ?_, rfl⟩
            exact .right (get_push_size _ _) (topMemo_pext pe' hcs (.inl ⟨vc, hc⟩))
              (spn_mono (pext_push _ _) sp)
          | false =>
            simp only [Bool.false_eq_true, if_false] at hr ⊢
            obtain ⟨c', hsub, hc1, hr1, rfl, hheap, hcalls⟩ :=
              bind_alloc h hr (L := fun c' => c') (R := fun _ => zs bs.length) rfl (fun _ => rfl)
            obtain ⟨pe, hw1, sp, hc0⟩ :=
              ih (zs bs.length) y _ c' hwg hzsg htyg (fullyMemo_leaf hcg) hsub
            rw [hheap, Trace.app_calls, Trace.app_calls, Trace.app_calls, hcalls, hc0]
            have pe' := (peg.trans pe).trans (pext_push _ (Cell.pair z0 c' (zs bs.length)))
            refine ⟨pe', WF_push_pair hw1 hc1 hr1 z0, ?_, rfl⟩
            exact .left (get_push_size _ _) (spn_mono (pext_push _ _) sp)
              (topMemo_pext pe' hcs (.inl ⟨vc, hc⟩))
        · simp only [hv, if_false] at hr
          simp [run] at hr

theorem exZs_leaves (hp : Heap) (h0 : ∃ r, hp[0]? = some (Cell.leaf r)) (h1 : ∃ r, hp[1]? = some (Cell.leaf r)) :
    ∀ d, ∃ r, hp[exZs d]? = some (Cell.leaf r) := by
  intro d
  unfold exZs
  split
  · exact h0
  · exact h1

end ZtypV.H
