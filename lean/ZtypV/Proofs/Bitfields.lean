/-
Helper lemmas for C18: bit-level view of packed byte strings (`bitAt`), characterisation of
`packBits`, and exact characterisations of every model function of `Model/Bitfields.lean`.
Core Lean only.
-/
import ZtypV.Spec
import ZtypV.Model.Bitfields
namespace ZtypV.Bitfields
open ZtypV

/-! ### 8-bit facts -/

theorem forall_u8 {P : UInt8 → Prop} (h : ∀ n : Nat, n < 256 → P (UInt8.ofNat n)) : ∀ v, P v := by
  intro v
  have := h v.toNat v.toNat_lt
  rwa [UInt8.ofNat_toNat] at this

/-- bit `j` of a byte -/
def tb (x : UInt8) (j : Nat) : Bool := x.toNat.testBit j

theorem tb_ge8 (x : UInt8) {j : Nat} (h : 8 ≤ j) : tb x j = false := by
  unfold tb
  apply Nat.testBit_lt_two_pow
  have h1 : x.toNat < 2 ^ 8 := x.toNat_lt
  have h2 : 2 ^ 8 ≤ 2 ^ j := Nat.pow_le_pow_right (by decide) h
  omega

@[simp] theorem tb_zero (j : Nat) : tb 0 j = false := by
  unfold tb; simp

theorem u8_ext {x y : UInt8} (h : ∀ j, j < 8 → tb x j = tb y j) : x = y := by
  apply UInt8.toNat_inj.mp
  apply Nat.eq_of_testBit_eq
  intro j
  by_cases hj : j < 8
  · exact h j hj
  · have := tb_ge8 x (Nat.le_of_not_lt hj)
    have := tb_ge8 y (Nat.le_of_not_lt hj)
    unfold tb at *
    simp [*]

theorem u8_eq_zero_iff {x : UInt8} : x = 0 ↔ ∀ j, j < 8 → tb x j = false := by
  constructor
  · intro h j _; subst h; simp
  · intro h; apply u8_ext; intro j hj; simp [h j hj]

set_option maxRecDepth 100000 in
theorem bitIndex_eq_log2 : ∀ v : UInt8, (bitIndex v).toNat = Nat.log2 v.toNat := by
  apply forall_u8
  decide

theorem log2_u8_lt (v : UInt8) : Nat.log2 v.toNat < 8 := by
  by_cases h : v.toNat = 0
  · rw [h]; decide
  · exact (Nat.log2_lt h).mpr v.toNat_lt

theorem bitIndex_lt (v : UInt8) : (bitIndex v).toNat < 8 := by
  rw [bitIndex_eq_log2]; exact log2_u8_lt v

/-- value of a list of bits, least significant first -/
def bitsVal (bs : List Bool) : Nat := bs.foldr (fun b acc => 2 * acc + (if b then 1 else 0)) 0

theorem bitsVal_testBit (l : List Bool) (j : Nat) : (bitsVal l).testBit j = l.getD j false := by
  induction l generalizing j with
  | nil => simp [bitsVal]
  | cons b l ih =>
    have hv : bitsVal (b :: l) = 2 * bitsVal l + (if b then 1 else 0) := rfl
    cases j with
    | zero =>
      rw [hv, Nat.testBit_zero]
      cases b <;> simp <;> omega
    | succ j =>
      rw [hv, Nat.testBit_succ]
      have : (2 * bitsVal l + (if b then 1 else 0)) / 2 = bitsVal l := by
        cases b <;> simp <;> omega
      rw [this, ih]
      simp

theorem tb_byteOfBits (l : List Bool) (j : Nat) :
    tb (byteOfBits l) j = (decide (j < 8) && l.getD j false) := by
  unfold tb byteOfBits
  rw [UInt8.toNat_ofNat']
  rw [Nat.testBit_mod_two_pow]
  congr 1
  exact bitsVal_testBit l j

/-! ### bit view of byte strings -/

/-- bit `i` of a packed byte string (false beyond the end) -/
def bitAt (b : Bytes) (i : Nat) : Bool := tb (b.getD (i / 8) 0) (i % 8)

theorem packBits_length (bs : List Bool) : (packBits bs).length = (bs.length + 7) / 8 := by
  simp [packBits]

theorem packBits_getD (bs : List Bool) (k : Nat) :
    (packBits bs).getD k 0 = byteOfBits ((bs.drop (8 * k)).take 8) := by
  unfold packBits
  rw [List.getD_eq_getElem?_getD, List.getElem?_map]
  by_cases hk : k < (bs.length + 7) / 8
  · rw [List.getElem?_range hk]; rfl
  · rw [List.getElem?_eq_none (by simpa using Nat.le_of_not_lt hk)]
    have : bs.drop (8 * k) = [] := by
      apply List.drop_eq_nil_of_le; omega
    rw [this]
    rfl

theorem bitAt_packBits (bs : List Bool) (i : Nat) : bitAt (packBits bs) i = bs.getD i false := by
  unfold bitAt
  rw [packBits_getD, tb_byteOfBits]
  have h8 : i % 8 < 8 := Nat.mod_lt _ (by decide)
  simp only [h8, decide_true, Bool.true_and]
  rw [List.getD_eq_getElem?_getD, List.getElem?_take, if_pos h8, List.getElem?_drop,
    List.getD_eq_getElem?_getD]
  congr 2
  omega

theorem bitAt_of_ge (b : Bytes) {i : Nat} (h : 8 * b.length ≤ i) : bitAt b i = false := by
  unfold bitAt
  rw [List.getD_eq_getElem?_getD, List.getElem?_eq_none (by omega)]
  simp

theorem bitAt_of_lt (b : Bytes) {k : Nat} (hk : k < b.length) (j : Nat) (hj : j < 8) :
    bitAt b (8 * k + j) = tb b[k] j := by
  unfold bitAt
  have h1 : (8 * k + j) / 8 = k := by omega
  have h2 : (8 * k + j) % 8 = j := by omega
  rw [h1, h2, List.getD_eq_getElem?_getD, List.getElem?_eq_getElem hk]
  rfl

theorem bytes_ext {a b : Bytes} (hl : a.length = b.length) (h : ∀ i, bitAt a i = bitAt b i) :
    a = b := by
  apply List.ext_getElem hl
  intro k h1 h2
  apply u8_ext
  intro j hj
  rw [← bitAt_of_lt a h1 j hj, ← bitAt_of_lt b h2 j hj]
  exact h _

/-- characterisation of the spec packing -/
theorem eq_packBits_iff (b : Bytes) (bits : List Bool) :
    b = packBits bits ↔ b.length = (bits.length + 7) / 8 ∧ ∀ i, bitAt b i = bits.getD i false := by
  constructor
  · intro h; subst h
    exact ⟨packBits_length _, bitAt_packBits _⟩
  · intro ⟨hl, hb⟩
    apply bytes_ext
    · rw [hl, packBits_length]
    · intro i; rw [hb, bitAt_packBits]

/-- the first `n` bits of a byte string -/
def unpack (b : Bytes) (n : Nat) : List Bool := (List.range n).map (bitAt b)

@[simp] theorem unpack_length (b : Bytes) (n : Nat) : (unpack b n).length = n := by
  simp [unpack]

theorem unpack_getD (b : Bytes) (n i : Nat) :
    (unpack b n).getD i false = if i < n then bitAt b i else false := by
  unfold unpack
  rw [List.getD_eq_getElem?_getD, List.getElem?_map]
  by_cases h : i < n
  · rw [List.getElem?_range h, if_pos h]; rfl
  · rw [List.getElem?_eq_none (by simpa using Nat.le_of_not_lt h), if_neg h]; rfl


/-! ### machine-integer facts -/

theorem u64_shr3 (x : UInt64) : (x >>> 3).toNat = x.toNat / 8 := by
  rw [UInt64.toNat_shiftRight, Nat.shiftRight_eq_div_pow]; rfl

theorem u64_and7 (x : UInt64) : (x &&& 7).toNat = x.toNat % 8 := by
  rw [UInt64.toNat_and]; exact Nat.and_two_pow_sub_one_eq_mod x.toNat 3

theorem u64_and7_u8 (x : UInt64) : (x &&& 7).toUInt8.toNat = x.toNat % 8 := by
  rw [UInt64.toNat_toUInt8, u64_and7]; omega

theorem u64_eq_zero (x : UInt64) : (x == 0) = decide (x.toNat = 0) := by
  rw [Bool.eq_iff_iff]; simp [← UInt64.toNat_inj]

theorem u64_ofNat {n : Nat} (h : n < 2 ^ 64) : (UInt64.ofNat n).toNat = n := by
  rw [UInt64.toNat_ofNat']; exact Nat.mod_eq_of_lt h

theorem u64_sub1 (x : UInt64) (h : x.toNat ≠ 0) : (x - 1).toNat = x.toNat - 1 := by
  rw [UInt64.toNat_sub]
  have : x.toNat < 2 ^ 64 := x.toNat_lt
  have h1 : (1 : UInt64).toNat = 1 := rfl
  rw [h1]; omega

theorem u64_shl3 (x : UInt64) (h : x.toNat < 2 ^ 61) : (x <<< 3).toNat = 8 * x.toNat := by
  rw [UInt64.toNat_shiftLeft, Nat.shiftLeft_eq]
  have : (3 : UInt64).toNat % 64 = 3 := rfl
  rw [this]; omega

theorem idx_eq (b : Bytes) (i : UInt64) (h : i.toNat < b.length) : idx b i = .ok (b.getD i.toNat 0) := by
  unfold idx
  rw [List.getD_eq_getElem?_getD, List.getElem?_eq_getElem h]; rfl

theorem idx_panic (b : Bytes) (i : UInt64) (h : b.length ≤ i.toNat) : idx b i = .error .panic := by
  unfold idx
  rw [List.getElem?_eq_none h]

/-! ### BitvectorCheck -/

theorem shr_eq_zero_iff (x : UInt8) (s : UInt8) (hs : s.toNat < 8) :
    x >>> s = 0 ↔ ∀ j, s.toNat ≤ j → tb x j = false := by
  rw [← UInt8.toNat_inj, UInt8.toNat_shiftRight, Nat.mod_eq_of_lt hs]
  show x.toNat >>> s.toNat = 0 ↔ _
  constructor
  · intro h j hj
    unfold tb
    have := Nat.testBit_shiftRight (i := s.toNat) (j := j - s.toNat) x.toNat
    rw [h] at this
    have e : s.toNat + (j - s.toNat) = j := by omega
    rw [e] at this
    simpa using this.symm
  · intro h
    apply Nat.eq_of_testBit_eq
    intro j
    rw [Nat.testBit_shiftRight]
    simpa [tb] using h (s.toNat + j) (by omega)

theorem bitvectorCheckByteLen_eq (bl n : UInt64) (hn : n.toNat + 7 < 2 ^ 64) :
    bitvectorCheckByteLen bl n = if bl.toNat = (n.toNat + 7) / 8 then .ok () else .error .err := by
  unfold bitvectorCheckByteLen
  have h7 : (n + 7).toNat = n.toNat + 7 := by
    rw [UInt64.toNat_add]; exact Nat.mod_eq_of_lt hn
  have he : ((n + 7) >>> 3).toNat = (n.toNat + 7) / 8 := by rw [u64_shr3, h7]
  by_cases h : bl.toNat = (n.toNat + 7) / 8
  · have : bl = (n + 7) >>> 3 := UInt64.toNat_inj.mp (by rw [he, h])
    simp [this, he]
  · have : bl ≠ (n + 7) >>> 3 := fun e => h (by rw [e, he])
    simp [this, h]

set_option linter.unusedSimpArgs false in
theorem bitvectorCheckLastByte_ok_iff (last : UInt8) (n : UInt64) :
    bitvectorCheckLastByte last n = .ok () ↔
      n.toNat ≠ 0 ∧ (n.toNat % 8 ≠ 0 → ∀ j, n.toNat % 8 ≤ j → tb last j = false) := by
  unfold bitvectorCheckLastByte
  rw [u64_eq_zero, u64_eq_zero, u64_and7]
  by_cases h0 : n.toNat = 0
  · simp [h0]
  · by_cases h8 : n.toNat % 8 = 0
    · simp [h0, h8]
    · have hs : (n &&& 7).toUInt8.toNat < 8 := by rw [u64_and7_u8]; omega
      have := shr_eq_zero_iff last (n &&& 7).toUInt8 hs
      rw [u64_and7_u8] at this
      simp only [h0, h8, decide_false, Bool.false_eq_true, if_false, ne_eq, not_false_eq_true,
        true_and, forall_const]
      rw [← this]
      by_cases hz : last >>> (n &&& 7).toUInt8 = 0 <;> simp [hz]

theorem bitvectorCheckLastByte_ne_panic (last : UInt8) (n : UInt64) :
    bitvectorCheckLastByte last n ≠ .error .panic := by
  unfold bitvectorCheckLastByte
  split
  · simp
  · split
    · simp
    · dsimp only
      split <;> simp

/-- exact acceptance condition of `BitvectorCheck` (no wrap of `n+7`) -/
theorem bitvectorCheck_ok_iff (b : Bytes) (n : UInt64) (hb : b.length < 2 ^ 64)
    (hn : n.toNat + 7 < 2 ^ 64) :
    bitvectorCheck b n = .ok () ↔
      b.length = (n.toNat + 7) / 8 ∧ ∀ i, n.toNat ≤ i → bitAt b i = false := by
  unfold bitvectorCheck
  dsimp only
  rw [bitvectorCheckByteLen_eq _ _ hn, u64_ofNat hb, u64_eq_zero, u64_ofNat hb]
  by_cases hl : b.length = (n.toNat + 7) / 8
  · rw [if_pos hl]
    by_cases h0 : b.length = 0
    · have : b = [] := List.length_eq_zero_iff.mp h0
      subst this
      simpa [bind, Except.bind, bitAt] using hl
    · have hi : (UInt64.ofNat b.length - 1).toNat = b.length - 1 := by
        rw [u64_sub1 _ (by rw [u64_ofNat hb]; exact h0), u64_ofNat hb]
      have hidx := idx_eq b (UInt64.ofNat b.length - 1) (by rw [hi]; omega)
      rw [hi] at hidx
      simp only [h0, decide_false, bind, Except.bind, Bool.false_eq_true, if_false, hidx]
      rw [bitvectorCheckLastByte_ok_iff]
      constructor
      · intro ⟨hn0, hbits⟩
        refine ⟨hl, fun i hi => ?_⟩
        by_cases hge : 8 * b.length ≤ i
        · exact bitAt_of_ge b hge
        · have hk : b.length - 1 < b.length := by omega
          have hdecomp : i = 8 * (b.length - 1) + (i - 8 * (b.length - 1)) := by omega
          rw [hdecomp, bitAt_of_lt b hk _ (by omega)]
          have hr : n.toNat % 8 ≠ 0 := by omega
          have := hbits hr (i - 8 * (b.length - 1)) (by omega)
          rw [List.getD_eq_getElem?_getD, List.getElem?_eq_getElem hk] at this
          exact this
      · intro ⟨_, h⟩
        refine ⟨by omega, fun hr j hj => ?_⟩
        by_cases hj8 : j < 8
        · have hk : b.length - 1 < b.length := by omega
          have := h (8 * (b.length - 1) + j) (by omega)
          rw [bitAt_of_lt b hk j hj8] at this
          rw [List.getD_eq_getElem?_getD, List.getElem?_eq_getElem hk]
          exact this
        · exact tb_ge8 _ (by omega)
  · rw [if_neg hl]
    simp [bind, Except.bind, hl]

/-! ### BitlistCheck -/

theorem bitlistCheckByteLen_eq (bl lim : UInt64) :
    bitlistCheckByteLen bl lim =
      if bl.toNat = 0 then .error .err
      else if bl.toNat > lim.toNat / 8 + 1 then .error .err else .ok () := by
  unfold bitlistCheckByteLen
  have hl : lim.toNat < 2 ^ 64 := lim.toNat_lt
  have h1 : ((lim >>> 3) + 1).toNat = lim.toNat / 8 + 1 := by
    rw [UInt64.toNat_add, u64_shr3]
    have : (1 : UInt64).toNat = 1 := rfl
    rw [this]; omega
  rw [u64_eq_zero]
  dsimp only
  by_cases h0 : bl.toNat = 0
  · simp [h0]
  · simp only [h0, decide_false, Bool.false_eq_true, if_false]
    have : (bl > (lim >>> 3) + 1) ↔ bl.toNat > lim.toNat / 8 + 1 := by
      show (lim >>> 3) + 1 < bl ↔ _
      rw [UInt64.lt_iff_toNat_lt, h1]
    by_cases hg : bl.toNat > lim.toNat / 8 + 1
    · rw [if_pos (this.mpr hg), if_pos hg]
    · rw [if_neg (fun h => hg (this.mp h)), if_neg hg]

theorem bitlistCheckLastByte_eq (last : UInt8) (limit : UInt64) :
    bitlistCheckLastByte last limit =
      if last = 0 then .error .err
      else if Nat.log2 last.toNat > limit.toNat then .error .err else .ok () := by
  unfold bitlistCheckLastByte
  by_cases h0 : last = 0
  · simp [h0]
  · have hb : (last == 0) = false := by simpa using h0
    rw [hb, if_neg h0]
    simp only [Bool.false_eq_true, if_false]
    have : (bitIndex last > limit) ↔ Nat.log2 last.toNat > limit.toNat := by
      show limit < bitIndex last ↔ _
      rw [UInt64.lt_iff_toNat_lt, bitIndex_eq_log2]
    by_cases hg : Nat.log2 last.toNat > limit.toNat
    · rw [if_pos (this.mpr hg), if_pos hg]
    · rw [if_neg (fun h => hg (this.mp h)), if_neg hg]

/-- the last byte of a byte string (`0` for the empty string) -/
def lastByte (b : Bytes) : UInt8 := b.getD (b.length - 1) 0

/-- exact acceptance condition of `BitlistCheck` -/
theorem bitlistCheck_ok_iff (b : Bytes) (lim : UInt64) (hb : b.length < 2 ^ 64) :
    bitlistCheck b lim = .ok () ↔
      b.length ≠ 0 ∧ lastByte b ≠ 0 ∧
        8 * (b.length - 1) + Nat.log2 (lastByte b).toNat ≤ lim.toNat := by
  unfold bitlistCheck
  dsimp only
  rw [bitlistCheckByteLen_eq, u64_ofNat hb]
  have hlim : lim.toNat < 2 ^ 64 := lim.toNat_lt
  by_cases h0 : b.length = 0
  · simp [h0, bind, Except.bind]
  · rw [if_neg h0]
    by_cases hg : b.length > lim.toNat / 8 + 1
    · rw [if_pos hg]
      simp only [bind, Except.bind]
      constructor
      · intro h; cases h
      · intro ⟨_, _, h⟩; omega
    · rw [if_neg hg]
      have hi : (UInt64.ofNat b.length - 1).toNat = b.length - 1 := by
        rw [u64_sub1 _ (by rw [u64_ofNat hb]; exact h0), u64_ofNat hb]
      have hidx := idx_eq b (UInt64.ofNat b.length - 1) (by rw [hi]; omega)
      rw [hi] at hidx
      have hsh : ((UInt64.ofNat b.length - 1) <<< 3).toNat = 8 * (b.length - 1) := by
        rw [u64_shl3 _ (by rw [hi]; omega), hi]
      have hsub : (lim - ((UInt64.ofNat b.length - 1) <<< 3)).toNat
          = lim.toNat - 8 * (b.length - 1) := by
        rw [UInt64.toNat_sub, hsh]; omega
      simp only [bind, Except.bind, hidx]
      rw [bitlistCheckLastByte_eq, hsub]
      show _ ↔ _ ∧ lastByte b ≠ 0 ∧ _
      unfold lastByte
      by_cases hz : b.getD (b.length - 1) 0 = 0
      · rw [if_pos hz]
        constructor
        · intro h; cases h
        · intro ⟨_, h, _⟩; exact absurd hz h
      · rw [if_neg hz]
        by_cases hgt : Nat.log2 (b.getD (b.length - 1) 0).toNat > lim.toNat - 8 * (b.length - 1)
        · rw [if_pos hgt]
          constructor
          · intro h; cases h
          · intro ⟨_, _, h⟩; omega
        · rw [if_neg hgt]
          constructor
          · intro _; exact ⟨h0, hz, by omega⟩
          · intro _; rfl

theorem bitlistCheck_ne_panic (b : Bytes) (lim : UInt64) (hb : b.length < 2 ^ 64) :
    bitlistCheck b lim ≠ .error .panic := by
  unfold bitlistCheck
  dsimp only
  rw [bitlistCheckByteLen_eq, u64_ofNat hb]
  by_cases h0 : b.length = 0
  · simp [h0, bind, Except.bind]
  · rw [if_neg h0]
    split
    · simp [bind, Except.bind]
    · have hi : (UInt64.ofNat b.length - 1).toNat = b.length - 1 := by
        rw [u64_sub1 _ (by rw [u64_ofNat hb]; exact h0), u64_ofNat hb]
      have hidx := idx_eq b (UInt64.ofNat b.length - 1) (by rw [hi]; omega)
      simp only [bind, Except.bind, hidx]
      rw [bitlistCheckLastByte_eq]
      split
      · simp
      · split <;> simp

theorem bitvectorCheck_ne_panic (b : Bytes) (n : UInt64) (hb : b.length < 2 ^ 64) :
    bitvectorCheck b n ≠ .error .panic := by
  unfold bitvectorCheck bitvectorCheckByteLen
  dsimp only
  split
  · simp [bind, Except.bind]
  · simp only [bind, Except.bind]
    rw [u64_eq_zero, u64_ofNat hb]
    by_cases h0 : b.length = 0
    · simp [h0]
    · have hi : (UInt64.ofNat b.length - 1).toNat = b.length - 1 := by
        rw [u64_sub1 _ (by rw [u64_ofNat hb]; exact h0), u64_ofNat hb]
      have hidx := idx_eq b (UInt64.ofNat b.length - 1) (by rw [hi]; omega)
      simp only [h0, decide_false, Bool.false_eq_true, if_false, hidx]
      exact bitvectorCheckLastByte_ne_panic _ _

/-! ### shape of bitlist encodings -/

theorem log2_eq_of_bits {x m : Nat} (h1 : x.testBit m = true)
    (h2 : ∀ j, m < j → x.testBit j = false) : Nat.log2 x = m := by
  have hge : x ≥ 2 ^ m := Nat.ge_two_pow_of_testBit h1
  have hpos : 0 < 2 ^ m := Nat.two_pow_pos m
  have hx : x ≠ 0 := by omega
  have hlt : x < 2 ^ (m + 1) := Nat.lt_pow_two_of_testBit x (fun j hj => h2 j (by omega))
  have a : Nat.log2 x < m + 1 := (Nat.log2_lt hx).mpr hlt
  have b : m ≤ Nat.log2 x := (Nat.le_log2 hx).mpr hge
  omega

theorem bitAt_last (b : Bytes) (h0 : b.length ≠ 0) (j : Nat) (hj : j < 8) :
    bitAt b (8 * (b.length - 1) + j) = tb (lastByte b) j := by
  have hk : b.length - 1 < b.length := by omega
  rw [bitAt_of_lt b hk j hj]
  unfold lastByte
  rw [List.getD_eq_getElem?_getD, List.getElem?_eq_getElem hk]
  rfl

theorem tb_log2 (x : UInt8) (h : x ≠ 0) : tb x (Nat.log2 x.toNat) = true := by
  unfold tb
  apply Nat.testBit_log2
  intro e
  apply h
  exact UInt8.toNat_inj.mp e

theorem tb_above_log2 (x : UInt8) {j : Nat} (hj : Nat.log2 x.toNat < j) : tb x j = false := by
  unfold tb
  by_cases h : x.toNat = 0
  · rw [h]; simp
  · exact Nat.testBit_lt_two_pow ((Nat.log2_lt h).mp hj)

/-- a byte string with non-zero last byte is the bitlist encoding of its bits below the
    highest set bit of the last byte -/
theorem eq_packBits_delim (b : Bytes) (h0 : b.length ≠ 0) (hz : lastByte b ≠ 0) :
    b = packBits (unpack b (8 * (b.length - 1) + Nat.log2 (lastByte b).toNat) ++ [true]) := by
  have hlog := log2_u8_lt (lastByte b)
  rw [eq_packBits_iff]
  constructor
  · simp only [List.length_append, unpack_length, List.length_singleton]
    omega
  · intro i
    rw [List.getD_eq_getElem?_getD, List.getElem?_append, unpack_length]
    by_cases hi : i < 8 * (b.length - 1) + Nat.log2 (lastByte b).toNat
    · rw [if_pos hi, ← List.getD_eq_getElem?_getD, unpack_getD, if_pos hi]
    · rw [if_neg hi]
      by_cases he : i = 8 * (b.length - 1) + Nat.log2 (lastByte b).toNat
      · rw [he, bitAt_last b h0 _ hlog, tb_log2 _ hz]
        simp
      · rw [List.getElem?_eq_none (by simp; omega)]
        show bitAt b i = false
        by_cases hge : 8 * b.length ≤ i
        · exact bitAt_of_ge b hge
        · have hd : i = 8 * (b.length - 1) + (i - 8 * (b.length - 1)) := by omega
          rw [hd, bitAt_last b h0 _ (by omega)]
          exact tb_above_log2 _ (by omega)

/-- shape of the bitlist encoding -/
theorem bitlist_shape (bits : List Bool) :
    (packBits (bits ++ [true])).length = bits.length / 8 + 1 ∧
    lastByte (packBits (bits ++ [true])) ≠ 0 ∧
    Nat.log2 (lastByte (packBits (bits ++ [true]))).toNat = bits.length % 8 := by
  have hlen : (packBits (bits ++ [true])).length = bits.length / 8 + 1 := by
    rw [packBits_length]; simp; omega
  have h0 : (packBits (bits ++ [true])).length ≠ 0 := by omega
  have hbit : ∀ j, j < 8 → tb (lastByte (packBits (bits ++ [true]))) j
      = (bits ++ [true]).getD (8 * (bits.length / 8) + j) false := by
    intro j hj
    rw [← bitAt_last _ h0 j hj, bitAt_packBits, hlen]
    rfl
  have h8 : bits.length % 8 < 8 := Nat.mod_lt _ (by decide)
  have hdelim : tb (lastByte (packBits (bits ++ [true]))) (bits.length % 8) = true := by
    rw [hbit _ h8]
    have : 8 * (bits.length / 8) + bits.length % 8 = bits.length := by omega
    rw [this, List.getD_eq_getElem?_getD, List.getElem?_append]
    simp
  refine ⟨hlen, ?_, ?_⟩
  · intro e
    rw [e] at hdelim
    simp at hdelim
  · apply log2_eq_of_bits hdelim
    intro j hj
    by_cases hj8 : j < 8
    · show tb _ j = false
      rw [hbit j hj8, List.getD_eq_getElem?_getD, List.getElem?_eq_none (by simp; omega)]
      rfl
    · exact tb_ge8 _ (by omega)

/-! ### GetBit / SetBit -/

set_option maxRecDepth 1000000 in
theorem getbit_u8 : ∀ x : UInt8, ∀ s : Nat, s < 8 →
    (((x >>> UInt8.ofNat s) &&& 1) == 1) = x.toNat.testBit s := by
  apply forall_u8
  decide

theorem mask_tb : ∀ s : Nat, s < 8 → ∀ j : Nat, j < 8 →
    tb ((1 : UInt8) <<< UInt8.ofNat s) j = decide (j = s) := by
  decide

theorem notmask_tb : ∀ s : Nat, s < 8 → ∀ j : Nat, j < 8 →
    tb (~~~((1 : UInt8) <<< UInt8.ofNat s)) j = !decide (j = s) := by
  decide

theorem tb_or (x y : UInt8) (j : Nat) : tb (x ||| y) j = (tb x j || tb y j) := by
  unfold tb; rw [UInt8.toNat_or, Nat.testBit_or]

theorem tb_and (x y : UInt8) (j : Nat) : tb (x &&& y) j = (tb x j && tb y j) := by
  unfold tb; rw [UInt8.toNat_and, Nat.testBit_and]

theorem tb_xor (x y : UInt8) (j : Nat) : tb (x ^^^ y) j = (tb x j ^^ tb y j) := by
  unfold tb; rw [UInt8.toNat_xor, Nat.testBit_xor]

theorem getBit_eq (b : Bytes) (i : UInt64) :
    getBit b i = if i.toNat / 8 < b.length then .ok (bitAt b i.toNat) else .error .panic := by
  unfold getBit
  by_cases h : i.toNat / 8 < b.length
  · rw [if_pos h, idx_eq b _ (by rw [u64_shr3]; exact h), u64_shr3]
    simp only [bind, Except.bind, pure, Except.pure]
    have h8 : i.toNat % 8 < 8 := Nat.mod_lt _ (by decide)
    have := getbit_u8 (b.getD (i.toNat / 8) 0) (i.toNat % 8) h8
    have e : UInt8.ofNat (i.toNat % 8) = (i &&& 7).toUInt8 := by
      apply UInt8.toNat_inj.mp
      rw [u64_and7_u8, UInt8.toNat_ofNat']; omega
    rw [e] at this
    rw [this]
    rfl
  · rw [if_neg h, idx_panic b _ (by rw [u64_shr3]; omega)]
    rfl

theorem bitAt_set (b : Bytes) (k : Nat) (y : UInt8) (i : Nat) :
    bitAt (b.set k y) i = if i / 8 = k ∧ k < b.length then tb y (i % 8) else bitAt b i := by
  unfold bitAt
  rw [List.getD_eq_getElem?_getD, List.getElem?_set]
  by_cases h : k = i / 8
  · by_cases hk : k < b.length
    · rw [if_pos h, if_pos hk, if_pos ⟨h.symm, hk⟩]; rfl
    · rw [if_pos h, if_neg hk, if_neg (fun c => hk c.2), List.getD_eq_getElem?_getD,
        List.getElem?_eq_none (by omega)]
  · rw [if_neg h, if_neg (fun c => h c.1.symm), List.getD_eq_getElem?_getD]

/-- exact behaviour of `SetBit` in terms of bits -/
theorem setBit_spec (b : Bytes) (i : UInt64) (v : Bool) (h : i.toNat / 8 < b.length) :
    ∃ b', setBit b i v = .ok b' ∧ b'.length = b.length ∧
      ∀ j, bitAt b' j = if j = i.toNat then v else bitAt b j := by
  have h8 : i.toNat % 8 < 8 := Nat.mod_lt _ (by decide)
  have e : (i &&& 7).toUInt8 = UInt8.ofNat (i.toNat % 8) := by
    apply UInt8.toNat_inj.mp
    rw [u64_and7_u8, UInt8.toNat_ofNat']; omega
  have hidx := idx_eq b (i >>> 3) (by rw [u64_shr3]; exact h)
  rw [u64_shr3] at hidx
  unfold setBit
  rw [hidx, u64_shr3, e]
  cases v with
  | true =>
    refine ⟨_, rfl, by simp, fun j => ?_⟩
    rw [bitAt_set]
    have hj8 : j % 8 < 8 := Nat.mod_lt _ (by decide)
    by_cases hj : j = i.toNat
    · subst hj
      rw [if_pos ⟨rfl, h⟩, tb_or, mask_tb _ h8 _ h8]
      simp
    · rw [if_neg hj]
      by_cases hq : j / 8 = i.toNat / 8
      · rw [if_pos ⟨hq, h⟩, tb_or, mask_tb _ h8 _ hj8]
        have : ¬ j % 8 = i.toNat % 8 := by omega
        simp only [this, decide_false, Bool.or_false]
        unfold bitAt; rw [hq]
      · rw [if_neg (fun c => hq c.1)]
  | false =>
    refine ⟨_, rfl, by simp, fun j => ?_⟩
    rw [bitAt_set]
    have hj8 : j % 8 < 8 := Nat.mod_lt _ (by decide)
    by_cases hj : j = i.toNat
    · subst hj
      rw [if_pos ⟨rfl, h⟩, tb_and, notmask_tb _ h8 _ h8]
      simp
    · rw [if_neg hj]
      by_cases hq : j / 8 = i.toNat / 8
      · rw [if_pos ⟨hq, h⟩, tb_and, notmask_tb _ h8 _ hj8]
        have : ¬ j % 8 = i.toNat % 8 := by omega
        simp only [this, decide_false, Bool.not_false, Bool.and_true]
        unfold bitAt; rw [hq]
      · rw [if_neg (fun c => hq c.1)]

theorem setBit_panic (b : Bytes) (i : UInt64) (v : Bool) (h : b.length ≤ i.toNat / 8) :
    setBit b i v = .error .panic := by
  unfold setBit
  rw [idx_panic b _ (by rw [u64_shr3]; exact h)]
  cases v <;> rfl

/-! ### BitlistLen -/

/-- exact value of `BitlistLen` on any byte string of at most 2^61 bytes -/
theorem bitlistLen_eq (b : Bytes) (hb : b.length ≤ 2 ^ 61) :
    ∃ r, bitlistLen b = .ok r ∧
      r.toNat = if b.length = 0 then 0 else 8 * (b.length - 1) + Nat.log2 (lastByte b).toNat := by
  have hb' : b.length < 2 ^ 64 := by omega
  unfold bitlistLen
  dsimp only
  rw [u64_eq_zero, u64_ofNat hb']
  by_cases h0 : b.length = 0
  · exact ⟨0, by simp [h0, pure, Except.pure], by simp [h0]⟩
  · have hi : (UInt64.ofNat b.length - 1).toNat = b.length - 1 := by
      rw [u64_sub1 _ (by rw [u64_ofNat hb']; exact h0), u64_ofNat hb']
    have hidx := idx_eq b (UInt64.ofNat b.length - 1) (by rw [hi]; omega)
    rw [hi] at hidx
    simp only [h0, decide_false, Bool.false_eq_true, if_false, hidx, bind, Except.bind, pure,
      Except.pure]
    refine ⟨_, rfl, ?_⟩
    rw [UInt64.toNat_or, u64_shl3 _ (by rw [hi]; omega), hi, bitIndex_eq_log2]
    show 8 * (b.length - 1) ||| Nat.log2 (lastByte b).toNat = _
    have hlog := log2_u8_lt (lastByte b)
    have := Nat.shiftLeft_add_eq_or_of_lt (i := 3) (b := Nat.log2 (lastByte b).toNat) hlog (b.length - 1)
    rw [Nat.shiftLeft_eq] at this
    have e : (b.length - 1) * 2 ^ 3 = 8 * (b.length - 1) := by omega
    rw [e] at this
    exact this.symm

/-! ### counting -/

/-- number of one bits of a byte -/
def pop (x : UInt8) : Nat := (List.range 8).countP (tb x)

/-- number of one bits of a byte string -/
def natOnes (b : Bytes) : Nat := (b.map pop).sum

theorem pop_le (x : UInt8) : pop x ≤ 8 := by
  unfold pop
  have := List.countP_le_length (p := tb x) (l := List.range 8)
  simpa using this

theorem onesCount8_toNat (x : UInt8) : (onesCount8 x).toNat = pop x := by
  unfold onesCount8
  have := pop_le x
  exact u64_ofNat (by unfold pop tb at this; omega)

theorem onesLoop_toNat (c : UInt64) (v : Bytes) :
    (onesLoop c v).toNat = (c.toNat + natOnes v) % 2 ^ 64 := by
  unfold onesLoop natOnes
  induction v generalizing c with
  | nil => simp [Nat.mod_eq_of_lt c.toNat_lt]
  | cons x v ih =>
    rw [List.foldl_cons, ih, UInt64.toNat_add, onesCount8_toNat]
    simp only [List.map_cons, List.sum_cons]
    omega

theorem bitAt_cons_lt (x : UInt8) (b : Bytes) {j : Nat} (hj : j < 8) : bitAt (x :: b) j = tb x j := by
  unfold bitAt
  have h1 : j / 8 = 0 := by omega
  have h2 : j % 8 = j := by omega
  rw [h1, h2]; rfl

theorem bitAt_cons_add (x : UInt8) (b : Bytes) (i : Nat) : bitAt (x :: b) (8 + i) = bitAt b i := by
  unfold bitAt
  have h1 : (8 + i) / 8 = i / 8 + 1 := by omega
  have h2 : (8 + i) % 8 = i % 8 := by omega
  rw [h1, h2]; rfl

theorem natOnes_eq_countP (b : Bytes) : natOnes b = (List.range (8 * b.length)).countP (bitAt b) := by
  induction b with
  | nil => rfl
  | cons x b ih =>
    have e : 8 * (x :: b).length = 8 + 8 * b.length := by simp; omega
    rw [e, List.range_add, List.countP_append, List.countP_map]
    have h1 : List.countP (bitAt (x :: b)) (List.range 8) = pop x := by
      unfold pop
      apply List.countP_congr
      intro j hj
      rw [bitAt_cons_lt x b (by simpa using hj)]
    have h2 : (bitAt (x :: b) ∘ fun i => 8 + i) = bitAt b := by
      funext i; exact bitAt_cons_add x b i
    rw [h1, h2, ← ih]
    simp [natOnes]

theorem countP_getD (l : List Bool) (n : Nat) (h : l.length ≤ n) :
    (List.range n).countP (fun i => l.getD i false) = l.count true := by
  induction l generalizing n with
  | nil => simp
  | cons a l ih =>
    cases n with
    | zero => simp at h
    | succ m =>
      rw [List.range_succ_eq_map, List.countP_cons, List.countP_map]
      have : ((fun i => (a :: l).getD i false) ∘ Nat.succ) = fun i => l.getD i false := by
        funext i; simp
      rw [this, ih m (by simpa using h)]
      cases a <;> simp

theorem natOnes_packBits (l : List Bool) : natOnes (packBits l) = l.count true := by
  rw [natOnes_eq_countP]
  have : bitAt (packBits l) = fun i => l.getD i false := funext (bitAt_packBits l)
  rw [this, countP_getD]
  rw [packBits_length]; omega


/-! ### clearing the delimiter -/

/-- `last ^= 1 << BitIndex(last)` -/
def clearTop (x : UInt8) : UInt8 := x ^^^ ((1 : UInt8) <<< (bitIndex x).toUInt8)

theorem tb_clearTop (x : UInt8) {j : Nat} (hj : j < 8) :
    tb (clearTop x) j = (tb x j ^^ decide (j = Nat.log2 x.toNat)) := by
  unfold clearTop
  have e : (bitIndex x).toUInt8 = UInt8.ofNat (Nat.log2 x.toNat) := by
    apply UInt8.toNat_inj.mp
    have := log2_u8_lt x
    rw [UInt64.toNat_toUInt8, bitIndex_eq_log2, UInt8.toNat_ofNat']
  rw [tb_xor, e, mask_tb _ (log2_u8_lt x) _ hj]

theorem take_append_eq_set (b : Bytes) (y : UInt8) (h0 : b.length ≠ 0) :
    b.take (b.length - 1) ++ [y] = b.set (b.length - 1) y := by
  apply List.ext_getElem?
  intro i
  rw [List.getElem?_append, List.getElem?_take, List.getElem?_set, List.length_take]
  have hm : min (b.length - 1) b.length = b.length - 1 := by omega
  rw [hm]
  by_cases h1 : i < b.length - 1
  · rw [if_pos h1, if_pos h1, if_neg (by omega)]
  · rw [if_neg h1]
    by_cases h2 : i = b.length - 1
    · subst h2
      rw [if_pos rfl, if_pos (by omega)]
      simp
    · rw [if_neg (fun e => h2 e.symm), List.getElem?_eq_none (by simp; omega),
        List.getElem?_eq_none (by omega)]

theorem getD_append_singleton (bits : List Bool) (c : Bool) (i : Nat) :
    (bits ++ [c]).getD i false =
      if i < bits.length then bits.getD i false else if i = bits.length then c else false := by
  rw [List.getD_eq_getElem?_getD, List.getElem?_append]
  by_cases h : i < bits.length
  · rw [if_pos h, if_pos h, List.getD_eq_getElem?_getD]
  · rw [if_neg h, if_neg h]
    by_cases h2 : i = bits.length
    · subst h2; simp
    · rw [if_neg h2, List.getElem?_eq_none (by simp; omega)]; rfl

/-- the bitlist encoding with its delimiter bit cleared is the packing of `bits ++ [false]` -/
theorem clear_delim (bits : List Bool) :
    (packBits (bits ++ [true])).take ((packBits (bits ++ [true])).length - 1)
        ++ [clearTop (lastByte (packBits (bits ++ [true])))] = packBits (bits ++ [false]) := by
  obtain ⟨hlen, hz, hlog⟩ := bitlist_shape bits
  have hbit : ∀ i, bitAt (packBits (bits ++ [true])) i = (bits ++ [true]).getD i false :=
    bitAt_packBits _
  generalize packBits (bits ++ [true]) = b at *
  have h0 : b.length ≠ 0 := by omega
  rw [take_append_eq_set b _ h0]
  apply bytes_ext
  · rw [List.length_set, packBits_length, hlen]; simp; omega
  · intro i
    rw [bitAt_set, bitAt_packBits, getD_append_singleton]
    have hbi := hbit i
    rw [getD_append_singleton] at hbi
    have h8 : i % 8 < 8 := Nat.mod_lt _ (by decide)
    by_cases hq : i / 8 = b.length - 1
    · rw [if_pos ⟨hq, by omega⟩, tb_clearTop _ h8]
      have hb2 : tb (lastByte b) (i % 8) = bitAt b i := by
        rw [← bitAt_last b h0 _ h8]; congr 1; omega
      rw [hb2, hbi, hlog]
      by_cases h1 : i < bits.length
      · have : ¬ i % 8 = bits.length % 8 := by omega
        simp [h1, this]
      · by_cases h2 : i = bits.length
        · subst h2; simp
        · have : ¬ i % 8 = bits.length % 8 := by omega
          simp [h1, h2, this]
    · rw [if_neg (fun c => hq c.1), hbi]
      by_cases h1 : i < bits.length
      · simp [h1]
      · have : ¬ i = bits.length := by omega
        simp [h1, this]

/-! ### ones counts -/

theorem onesLoop_snoc (c : UInt64) (v : Bytes) (x : UInt8) :
    onesLoop c (v ++ [x]) = onesLoop c v + onesCount8 x := by
  unfold onesLoop; rw [List.foldl_append]; rfl

theorem bitlistOnesCount_nz (b : Bytes) (h0 : b.length ≠ 0) (hz : lastByte b ≠ 0) :
    bitlistOnesCount b = onesLoop 0 (b.take (b.length - 1) ++ [clearTop (lastByte b)]) := by
  unfold bitlistOnesCount
  have h1 : (b.length == 0) = false := by simpa using h0
  have h2 : (b.getD (b.length - 1) 0 == 0) = false := by
    have : b.getD (b.length - 1) 0 ≠ 0 := hz
    simpa using this
  rw [h1]
  simp only [Bool.false_eq_true, if_false, h2]
  rw [onesLoop_snoc]; rfl

theorem bitlistOnesCount_packed (bits : List Bool) (h : bits.length < 2 ^ 64) :
    (bitlistOnesCount (packBits (bits ++ [true]))).toNat = bits.count true := by
  obtain ⟨hlen, hz, _⟩ := bitlist_shape bits
  rw [bitlistOnesCount_nz _ (by omega) hz, clear_delim, onesLoop_toNat, natOnes_packBits]
  have : (bits ++ [false]).count true = bits.count true := by simp
  rw [this]
  have hle := List.count_le_length (a := true) (l := bits)
  have : (0 : UInt64).toNat = 0 := rfl
  rw [this]
  omega

theorem bitvectorOnesCount_packed (bits : List Bool) (h : bits.length < 2 ^ 64) :
    (bitvectorOnesCount (packBits bits)).toNat = bits.count true := by
  unfold bitvectorOnesCount
  rw [onesLoop_toNat, natOnes_packBits]
  have hle := List.count_le_length (a := true) (l := bits)
  have : (0 : UInt64).toNat = 0 := rfl
  rw [this]
  omega

/-! ### zero test -/

theorem allZero_iff (b : Bytes) : (b.all (· == 0)) = true ↔ ∀ i, bitAt b i = false := by
  rw [List.all_eq_true]
  constructor
  · intro h i
    by_cases hi : 8 * b.length ≤ i
    · exact bitAt_of_ge b hi
    · have hk : i / 8 < b.length := by omega
      have e : i = 8 * (i / 8) + i % 8 := by omega
      rw [e, bitAt_of_lt b hk _ (Nat.mod_lt _ (by decide))]
      have := h b[i / 8] (List.getElem_mem hk)
      have : b[i / 8] = 0 := by simpa using this
      rw [this]; simp
  · intro h x hx
    obtain ⟨k, hk, rfl⟩ := List.mem_iff_getElem.mp hx
    have : b[k] = 0 := by
      apply u8_eq_zero_iff.mpr
      intro j hj
      rw [← bitAt_of_lt b hk j hj]
      exact h _
    simp [this]

theorem isZeroBitlist_nz (b : Bytes) (h0 : b.length ≠ 0) (hz : lastByte b ≠ 0) :
    isZeroBitlist b = (b.take (b.length - 1) ++ [clearTop (lastByte b)]).all (· == 0) := by
  unfold isZeroBitlist
  have h1 : (b.length == 0) = false := by simpa using h0
  have h2 : (b.getD (b.length - 1) 0 == 0) = false := by
    have : b.getD (b.length - 1) 0 ≠ 0 := hz
    simpa using this
  simp only [h1, Bool.false_eq_true, if_false, h2, List.all_append, List.all_cons, List.all_nil,
    Bool.and_true]
  have hany : (b.take (b.length - 1)).any (· != 0) = !(b.take (b.length - 1)).all (· == 0) := by
    rw [List.any_eq_not_all_not]
    congr 2
    funext x
    cases hx : (x == 0) <;> simp [bne, hx]
  rw [hany]
  cases (b.take (b.length - 1)).all (· == 0) <;> simp [clearTop, lastByte]

theorem isZeroBitlist_packed (bits : List Bool) :
    isZeroBitlist (packBits (bits ++ [true])) = bits.all (fun x => !x) := by
  obtain ⟨hlen, hz, _⟩ := bitlist_shape bits
  rw [isZeroBitlist_nz _ (by omega) hz, clear_delim]
  rw [Bool.eq_iff_iff, allZero_iff, List.all_eq_true]
  constructor
  · intro h x hx
    obtain ⟨k, hk, rfl⟩ := List.mem_iff_getElem.mp hx
    have := h k
    rw [bitAt_packBits, getD_append_singleton, if_pos hk, List.getD_eq_getElem?_getD,
      List.getElem?_eq_getElem hk] at this
    simpa using this
  · intro h i
    rw [bitAt_packBits, getD_append_singleton]
    by_cases hi : i < bits.length
    · rw [if_pos hi, List.getD_eq_getElem?_getD, List.getElem?_eq_getElem hi]
      have := h bits[i] (List.getElem_mem hi)
      simpa using this
    · rw [if_neg hi]; split <;> rfl

/-! ### Covers -/

theorem tb_not (x : UInt8) {j : Nat} (hj : j < 8) : tb (~~~x) j = !tb x j := by
  unfold tb
  rw [UInt8.toNat_not]
  have : UInt8.size - 1 - x.toNat = 2 ^ 8 - (x.toNat + 1) := by
    have := x.toNat_lt
    show 256 - 1 - x.toNat = 256 - (x.toNat + 1)
    omega
  rw [this, Nat.testBit_two_pow_sub_succ x.toNat_lt]
  simp [hj]

theorem andnot_eq_zero_iff (x y : UInt8) :
    ((y &&& ~~~x) == 0) = true ↔ ∀ j, j < 8 → tb y j = true → tb x j = true := by
  rw [beq_iff_eq, u8_eq_zero_iff]
  constructor
  · intro h j hj hy
    have := h j hj
    rw [tb_and, tb_not _ hj, hy] at this
    simpa using this
  · intro h j hj
    rw [tb_and, tb_not _ hj]
    cases hy : tb y j
    · rfl
    · rw [h j hj hy]; rfl

theorem covers_err (a b : Bytes) (h : a.length ≠ b.length) : covers a b = .error .err := by
  unfold covers
  have : (a.length != b.length) = true := by simpa using h
  rw [this]; rfl

theorem covers_ok (a b : Bytes) (h : a.length = b.length) :
    ∃ r, covers a b = .ok r ∧ (r = true ↔ ∀ i, bitAt b i = true → bitAt a i = true) := by
  unfold covers
  have : (a.length != b.length) = false := by simpa using h
  rw [this]
  refine ⟨_, rfl, ?_⟩
  induction a generalizing b with
  | nil =>
    have : b = [] := List.length_eq_zero_iff.mp h.symm
    subst this
    simp [bitAt]
  | cons x a ih =>
    cases b with
    | nil => simp at h
    | cons y b =>
      have hl : a.length = b.length := by simpa using h
      rw [List.zip_cons_cons, List.all_cons, Bool.and_eq_true, ih b hl (by simpa using hl),
        andnot_eq_zero_iff]
      constructor
      · intro ⟨h1, h2⟩ i
        by_cases hi : i < 8
        · rw [bitAt_cons_lt _ _ hi, bitAt_cons_lt _ _ hi]; exact h1 i hi
        · have e : i = 8 + (i - 8) := by omega
          rw [e, bitAt_cons_add, bitAt_cons_add]; exact h2 _
      · intro h'
        constructor
        · intro j hj
          have := h' j
          rwa [bitAt_cons_lt _ _ hj, bitAt_cons_lt _ _ hj] at this
        · intro i
          have := h' (8 + i)
          rwa [bitAt_cons_add, bitAt_cons_add] at this

end ZtypV.Bitfields
