/-
Model H, threads: a shared base heap plus one private heap per goroutine (C14).  Core Lean only.
-/
import ZtypV.Proofs.HeapCost
namespace ZtypV.H

/-! ### one primitive never writes below a fully hashed prefix -/

/-- every pair below address `n` has its memo set -/
def MemoBelow (n : Nat) (hp : Heap) : Prop :=
  ∀ (y : Nat) (m : Root) (l r : Nat), y < n → hp[y]? = some (Cell.pair m l r) → m ≠ z0

theorem step1_shared (h : HashFn) {p : Prog α} (hnp : NoPoke p) {hp : Heap} {n : Nat}
    (hn : n ≤ hp.size) (hw : WF hp) (hmb : MemoBelow n hp) :
    (∀ y, y < n → (step1 h p hp).2.1[y]? = hp[y]?)
      ∧ (∀ y, y ∈ (step1 h p hp).2.2.writes → n ≤ y)
      ∧ WF (step1 h p hp).2.1 ∧ hp.size ≤ (step1 h p hp).2.1.size
      ∧ (∀ p', (step1 h p hp).1 = .more p' → NoPoke p') := by
  cases hnp with
  | ret a =>
    refine ⟨fun _ _ => rfl, fun y hy => (by cases hy), hw, Nat.le_refl _, ?_⟩
    intro p' e; simp [step1] at e
  | allocLeaf r k hk =>
    refine ⟨fun y hy => get_push_lt _ (by omega), fun y hy => ?_, WF_push_leaf hw r,
      by simp [step1], ?_⟩
    · simp only [step1, Trace.writes_write, List.mem_singleton] at hy
      omega
    · intro p' e
      simp only [step1, Status.more.injEq] at e
      subst e; exact hk _
  | allocPair l r k hk =>
    by_cases hlr : l < hp.size ∧ r < hp.size
    · simp only [step1, hlr, and_self, if_true]
      refine ⟨fun y hy => get_push_lt _ (by omega), fun y hy => ?_,
        WF_push_pair hw hlr.1 hlr.2 z0, by simp, ?_⟩
      · simp only [Trace.writes_write, List.mem_singleton] at hy
        omega
      · intro p' e
        simp only [Status.more.injEq] at e
        subst e; exact hk _
    · simp only [step1, hlr, if_false]
      refine ⟨fun _ _ => (by first | rfl | trivial), fun y hy => (by cases hy), hw, Nat.le_refl _, ?_⟩
      intro p' e; cases e
  | read a k hk =>
    cases ha : hp[a]? with
    | none =>
      simp only [step1, ha]
      refine ⟨fun _ _ => (by first | rfl | trivial), fun y hy => (by cases hy), hw, Nat.le_refl _, ?_⟩
      intro p' e
      simp only [Status.more.injEq] at e
      subst e; exact hk _
    | some c =>
      simp only [step1, ha]
      refine ⟨fun _ _ => (by first | rfl | trivial), fun y hy => (by cases hy), hw, Nat.le_refl _, ?_⟩
      intro p' e
      simp only [Status.more.injEq] at e
      subst e; exact hk _
  | root a k hk =>
    by_cases ha : a < hp.size
    · simp only [step1, ha, if_true]
      obtain ⟨ms, wr⟩ := rootH_memoStep h (a+1) hp a
      refine ⟨fun y hy => ?_, fun y hy => ?_, WF_sameStruct (rootH_sameStruct h _ hp a) hw,
        by rw [rootH_size]; exact Nat.le_refl _, ?_⟩
      · rcases ms y with e | ⟨l, r, v, e, _⟩
        · exact e
        · exact absurd rfl (hmb y z0 l r hy e)
      · obtain ⟨l, r, e⟩ := wr y hy
        apply Nat.le_of_not_lt
        intro hlt
        exact absurd rfl (hmb y z0 l r hlt e)
      · intro p' e
        simp only [Status.more.injEq] at e
        subst e; exact hk _
    · simp only [step1, ha, if_false]
      refine ⟨fun _ _ => (by first | rfl | trivial), fun y hy => (by cases hy), hw, Nat.le_refl _, ?_⟩
      intro p' e; cases e

/-! ### splitting a thread's view into shared and private part -/

theorem split_heap {B hp' : Heap} (hsz : B.size ≤ hp'.size)
    (hsame : ∀ y, y < B.size → hp'[y]? = B[y]?) :
    hp'.extract 0 B.size = B ∧ B ++ hp'.extract B.size hp'.size = hp' := by
  constructor
  · apply Array.ext_getElem?
    intro i
    rw [get_prefix hsz]
    split
    · rename_i hi; exact hsame i hi
    · rename_i hi; rw [Array.getElem?_eq_none (by omega)]
  · apply Array.ext_getElem?
    intro i
    rw [Array.getElem?_append]
    split
    · rename_i hi; exact (hsame i hi).symm
    · rename_i hi
      rw [Array.getElem?_extract]
      by_cases hi' : i < hp'.size
      · have : i - B.size < min hp'.size hp'.size - B.size := by omega
        rw [if_pos this]
        congr 1; omega
      · have : ¬ i - B.size < min hp'.size hp'.size - B.size := by omega
        rw [if_neg this, Array.getElem?_eq_none (by omega)]

theorem memoBelow_append {B : Heap} (hB : AllMemo B) (pv : Heap) : MemoBelow B.size (B ++ pv) := by
  intro y m l r hy e
  rw [Array.getElem?_append_left hy] at e
  exact hB y m l r e

/-! ### generic thread invariants -/

/-- the next state of a thread that executes one primitive against base `B` -/
def TState.next (h : HashFn) (B : Heap) (t : TState α) (p : Prog α) : TState α :=
  { st := (step1 h p (B ++ t.priv)).1,
    priv := (step1 h p (B ++ t.priv)).2.1.extract B.size (step1 h p (B ++ t.priv)).2.1.size,
    tr := t.tr ++ (step1 h p (B ++ t.priv)).2.2 }

/-- a step that leaves the shared part alone -/
structure StepOK (h : HashFn) (B : Heap) (t : TState α) (p : Prog α) : Prop where
  shared : (step1 h p (B ++ t.priv)).2.1.extract 0 B.size = B
  split : B ++ (t.next h B p).priv = (step1 h p (B ++ t.priv)).2.1
  wr : ∀ y, y ∈ (step1 h p (B ++ t.priv)).2.2.writes → B.size ≤ y

/-- a thread invariant that makes every step well-behaved and is preserved by it -/
def Stable (h : HashFn) (B : Heap) (I : TState α → Prop) : Prop :=
  ∀ t p, I t → t.st = .more p → StepOK h B t p ∧ I (t.next h B p)

theorem stepOK_of (h : HashFn) {B : Heap} {t : TState α} {p : Prog α}
    (same : ∀ y, y < B.size → (step1 h p (B ++ t.priv)).2.1[y]? = (B ++ t.priv)[y]?)
    (sz : (B ++ t.priv).size ≤ (step1 h p (B ++ t.priv)).2.1.size)
    (wr : ∀ y, y ∈ (step1 h p (B ++ t.priv)).2.2.writes → B.size ≤ y) : StepOK h B t p := by
  have hsz : B.size ≤ (B ++ t.priv).size := by simp
  have same' : ∀ y, y < B.size → (step1 h p (B ++ t.priv)).2.1[y]? = B[y]? := by
    intro y hy; rw [same y hy, Array.getElem?_append_left hy]
  obtain ⟨s1, s2⟩ := split_heap (Nat.le_trans hsz sz) same'
  exact ⟨s1, s2, wr⟩

/-! ### invariant 1: the whole base heap is hashed, clients are poke-free -/

def InvAll (B : Heap) (t : TState α) : Prop :=
  WF (B ++ t.priv) ∧ ∀ p, t.st = .more p → NoPoke p

theorem stable_all (h : HashFn) {B : Heap} (hB : AllMemo B) : Stable (α := α) h B (InvAll B) := by
  intro t p hI hst
  have hsz : B.size ≤ (B ++ t.priv).size := by simp
  obtain ⟨same, wr, wf', sz', np'⟩ :=
    step1_shared h (hI.2 p hst) hsz hI.1 (memoBelow_append hB t.priv)
  have ok := stepOK_of h same sz' wr
  refine ⟨ok, ?_, np'⟩
  show WF (B ++ (t.next h B p).priv)
  rw [ok.split]; exact wf'

/-! ### invariant 2: only what a thread can reach is hashed, clients hold legitimate addresses -/

/-- an address a thread may hold: private, or shared and fully hashed -/
def OKAddr (n : Nat) (hp : Heap) (a : Nat) : Prop := a < hp.size ∧ (n ≤ a ∨ FullyMemo hp a)

/-- children of private pairs are addresses the thread may hold -/
def HeapOK (n : Nat) (hp : Heap) : Prop :=
  ∀ (a : Nat) (m : Root) (l r : Nat), n ≤ a → hp[a]? = some (Cell.pair m l r) →
    OKAddr n hp l ∧ OKAddr n hp r

theorem reach_below {hp hp' : Heap} (hw : WF hp) {a : Nat}
    (same : ∀ z, z ≤ a → hp'[z]? = hp[z]?) {x y : Nat} (hr : Reach hp' x y) :
    x ≤ a → Reach hp x y ∧ y ≤ x := by
  induction hr with
  | refl x => intro _; exact ⟨.refl x, Nat.le_refl _⟩
  | left m l r e _ ih =>
    intro hx
    rw [same _ hx] at e
    have := hw _ _ _ _ e
    obtain ⟨r1, r2⟩ := ih (by omega)
    exact ⟨.left m l r e r1, by omega⟩
  | right m l r e _ ih =>
    intro hx
    rw [same _ hx] at e
    have := hw _ _ _ _ e
    obtain ⟨r1, r2⟩ := ih (by omega)
    exact ⟨.right m l r e r1, by omega⟩

theorem fullyMemo_below {hp hp' : Heap} (hw : WF hp) {a : Nat}
    (same : ∀ z, z ≤ a → hp'[z]? = hp[z]?) (hf : FullyMemo hp a) : FullyMemo hp' a := by
  intro y m l r hr hy
  obtain ⟨r1, r2⟩ := reach_below hw same hr (Nat.le_refl a)
  rw [same y r2] at hy
  exact hf y m l r r1 hy

theorem okAddr_mono {n : Nat} {hp hp' : Heap} (hw : WF hp)
    (same : ∀ z, z < n → hp'[z]? = hp[z]?) (sz : hp.size ≤ hp'.size) {a : Nat}
    (ho : OKAddr n hp a) : OKAddr n hp' a := by
  refine ⟨Nat.lt_of_lt_of_le ho.1 sz, ?_⟩
  by_cases hna : n ≤ a
  · exact .inl hna
  · refine .inr (fullyMemo_below hw (fun z hz => same z (by omega)) (ho.2.resolve_left hna))

theorem ureach_private {n : Nat} {hp : Heap} (hok : HeapOK n hp) {a y : Nat} (hu : UReach hp a y) :
    OKAddr n hp a → n ≤ y := by
  have top : ∀ {x l r : Nat}, hp[x]? = some (Cell.pair z0 l r) → OKAddr n hp x → n ≤ x := by
    intro x l r e ho
    rcases ho.2 with h1 | h2
    · exact h1
    · exact absurd rfl (h2 x z0 l r (.refl x) e)
  induction hu with
  | here l r e => intro ho; exact top e ho
  | left l r e _ ih => intro ho; exact ih (hok _ z0 l r (top e ho) e).1
  | right l r e _ ih => intro ho; exact ih (hok _ z0 l r (top e ho) e).2

theorem heapOK_push {n : Nat} {hp : Heap} (hn : n ≤ hp.size) (hw : WF hp) (hok : HeapOK n hp)
    (c : Cell) (hc : ∀ m l r, c = Cell.pair m l r → OKAddr n hp l ∧ OKAddr n hp r) :
    HeapOK n (hp.push c) := by
  have same : ∀ z, z < n → (hp.push c)[z]? = hp[z]? := fun z hz => get_push_lt c (by omega)
  have sz : hp.size ≤ (hp.push c).size := by simp
  intro a m l r hna ha
  by_cases h1 : a < hp.size
  · rw [get_push_lt _ h1] at ha
    obtain ⟨o1, o2⟩ := hok a m l r hna ha
    exact ⟨okAddr_mono hw same sz o1, okAddr_mono hw same sz o2⟩
  · by_cases h2 : a = hp.size
    · subst h2; rw [get_push_size] at ha
      simp only [Option.some.injEq] at ha
      obtain ⟨o1, o2⟩ := hc m l r ha
      exact ⟨okAddr_mono hw same sz o1, okAddr_mono hw same sz o2⟩
    · rw [get_push_gt _ (by omega)] at ha; simp at ha

theorem step1_safe (h : HashFn) {K : Nat → Prop} {p : Prog α} (hs : Safe K p) {hp : Heap} {n : Nat}
    (hn : n ≤ hp.size) (hw : WF hp) (hok : HeapOK n hp) (hK : ∀ a, K a → OKAddr n hp a) :
    (∀ y, y < n → (step1 h p hp).2.1[y]? = hp[y]?)
      ∧ (∀ y, y ∈ (step1 h p hp).2.2.writes → n ≤ y)
      ∧ WF (step1 h p hp).2.1 ∧ hp.size ≤ (step1 h p hp).2.1.size
      ∧ HeapOK n (step1 h p hp).2.1
      ∧ (∀ p', (step1 h p hp).1 = .more p' →
          ∃ K' : Nat → Prop, (∀ a, K' a → OKAddr n (step1 h p hp).2.1 a) ∧ Safe K' p') := by
  cases hs with
  | ret _ a =>
    refine ⟨fun _ _ => rfl, fun y hy => (by cases hy), hw, Nat.le_refl _, hok, ?_⟩
    intro p' e; simp [step1] at e
  | allocLeaf _ r k hk =>
    have same : ∀ z, z < n → (hp.push (Cell.leaf r))[z]? = hp[z]? := fun z hz => get_push_lt _ (by omega)
    refine ⟨same, fun y hy => ?_, WF_push_leaf hw r, by simp [step1],
      heapOK_push hn hw hok _ (by intro m l r' e; cases e), ?_⟩
    · simp only [step1, Trace.writes_write, List.mem_singleton] at hy
      omega
    · intro p' e
      simp only [step1, Status.more.injEq] at e
      subst e
      refine ⟨_, ?_, hk hp.size⟩
      intro a ha
      rcases ha with h1 | rfl
      · exact okAddr_mono hw same (by simp) (hK a h1)
      · exact ⟨by simp [step1], .inl hn⟩
  | allocPair _ l r k hl hr hk =>
    have ol := hK l hl
    have or := hK r hr
    have hlr : l < hp.size ∧ r < hp.size := ⟨ol.1, or.1⟩
    have same : ∀ z, z < n → (hp.push (Cell.pair z0 l r))[z]? = hp[z]? :=
      fun z hz => get_push_lt _ (by omega)
    simp only [step1, hlr, and_self, if_true]
    refine ⟨same, fun y hy => ?_, WF_push_pair hw hlr.1 hlr.2 z0, by simp,
      heapOK_push hn hw hok _ (by intro m l' r' e; cases e; exact ⟨ol, or⟩), ?_⟩
    · simp only [Trace.writes_write, List.mem_singleton] at hy
      omega
    · intro p' e
      simp only [Status.more.injEq] at e
      subst e
      refine ⟨_, ?_, hk hp.size⟩
      intro a ha
      rcases ha with h1 | rfl
      · exact okAddr_mono hw same (by simp) (hK a h1)
      · exact ⟨by simp, .inl hn⟩
  | read _ a k hka hk =>
    have oa := hK a hka
    obtain ⟨c, hc⟩ := get_some_of_lt oa.1
    simp only [step1, hc]
    refine ⟨fun _ _ => (by first | rfl | trivial), fun y hy => (by cases hy), hw, Nat.le_refl _, hok, ?_⟩
    intro p' e
    simp only [Status.more.injEq] at e
    subst e
    refine ⟨_, ?_, hk (some (view c))⟩
    intro z hz
    rcases hz with h1 | h2
    · exact hK z h1
    · cases c with
      | leaf r0 => simp [view, childOf] at h2
      | pair m l r =>
        simp only [view, childOf] at h2
        have hlr := hw a m l r hc
        by_cases hna : n ≤ a
        · obtain ⟨o1, o2⟩ := hok a m l r hna hc
          rcases h2 with rfl | rfl
          · exact o1
          · exact o2
        · have hf := oa.2.resolve_left hna
          obtain ⟨f1, f2⟩ := fullyMemo_child hf hc
          rcases h2 with rfl | rfl
          · exact ⟨by omega, .inr f1⟩
          · exact ⟨by omega, .inr f2⟩
  | root _ a k hka hk =>
    have oa := hK a hka
    simp only [step1, oa.1, if_true]
    obtain ⟨wu, keep⟩ := rootH_writes_ureach h (a+1) hp a
    have hs := rootH_sameStruct h (a+1) hp a
    have wr : ∀ y, y ∈ (rootH h (a+1) hp a).2.2.writes → n ≤ y :=
      fun y hy => ureach_private hok (wu y hy) oa
    have same : ∀ z, z < n → (rootH h (a+1) hp a).2.1[z]? = hp[z]? :=
      fun z hz => keep z (fun hy => by have := wr z hy; omega)
    have sz : hp.size ≤ (rootH h (a+1) hp a).2.1.size := by rw [rootH_size]; exact Nat.le_refl _
    refine ⟨same, wr, WF_sameStruct hs hw, sz, ?_, ?_⟩
    · intro x m l r hnx hx
      obtain ⟨m', hx'⟩ := get_pair_of_erase (hs.get x) hx
      obtain ⟨o1, o2⟩ := hok x m' l r hnx hx'
      exact ⟨okAddr_mono hw same sz o1, okAddr_mono hw same sz o2⟩
    · intro p' e
      simp only [Status.more.injEq] at e
      subst e
      exact ⟨K, fun z hz => okAddr_mono hw same sz (hK z hz), hk _⟩

def InvReach (B : Heap) (t : TState α) : Prop :=
  WF (B ++ t.priv) ∧ HeapOK B.size (B ++ t.priv)
    ∧ ∃ K : Nat → Prop, (∀ a, K a → OKAddr B.size (B ++ t.priv) a) ∧ ∀ p, t.st = .more p → Safe K p

theorem stable_reach (h : HashFn) (B : Heap) : Stable (α := α) h B (InvReach B) := by
  intro t p hI hst
  obtain ⟨hw, hok, K, hK, hsafe⟩ := hI
  have hsz : B.size ≤ (B ++ t.priv).size := by simp
  obtain ⟨same, wr, wf', sz', ok', nx⟩ := step1_safe h (hsafe p hst) hsz hw hok hK
  have ok := stepOK_of h same sz' wr
  refine ⟨ok, ?_⟩
  show WF (B ++ (t.next h B p).priv) ∧ HeapOK B.size (B ++ (t.next h B p).priv) ∧ _
  rw [ok.split]
  refine ⟨wf', ok', ?_⟩
  cases hnx : (step1 h p (B ++ t.priv)).1 with
  | more p' =>
    obtain ⟨K', hK', hs'⟩ := nx p' hnx
    refine ⟨K', hK', ?_⟩
    intro q e
    have e' : (step1 h p (B ++ t.priv)).1 = .more q := e
    rw [hnx] at e'
    simp only [Status.more.injEq] at e'
    subst e'; exact hs'
  | done a =>
    refine ⟨fun _ => False, fun _ hf => hf.elim, ?_⟩
    intro q e
    have e' : (step1 h p (B ++ t.priv)).1 = .more q := e
    rw [hnx] at e'; cases e'
  | abort =>
    refine ⟨fun _ => False, fun _ hf => hf.elim, ?_⟩
    intro q e
    have e' : (step1 h p (B ++ t.priv)).1 = .more q := e
    rw [hnx] at e'; cases e'

/-! ### the system -/

theorem sys_step_more (hs : Nat → HashFn) {s : Sys α} {i : Nat} {p : Prog α}
    (hst : (s.threads i).st = .more p) :
    s.step hs i =
      { shared := (step1 (hs i) p (s.shared ++ (s.threads i).priv)).2.1.extract 0 s.shared.size,
        threads := fun j => if j = i then (s.threads i).next (hs i) s.shared p else s.threads j } := by
  unfold Sys.step
  rw [hst]
  rfl

theorem sys_step_idle (hs : Nat → HashFn) {s : Sys α} {i : Nat}
    (hst : ∀ p, (s.threads i).st ≠ .more p) : s.step hs i = s := by
  unfold Sys.step
  split
  · rename_i p e; exact absurd e (hst p)
  · rfl

theorem soloN_one_more (h : HashFn) (B : Heap) {t : TState α} {p : Prog α} (hst : t.st = .more p) :
    soloN h B t 1 = t.next h B p := by
  unfold soloN
  rw [hst]
  rfl

theorem soloN_idle (h : HashFn) (B : Heap) {t : TState α} (hst : ∀ p, t.st ≠ .more p) (n : Nat) :
    soloN h B t n = t := by
  cases n with
  | zero => rfl
  | succ n =>
    unfold soloN
    split
    · rename_i p e; exact absurd e (hst p)
    · rfl

theorem soloN_succ (h : HashFn) (B : Heap) (t : TState α) (n : Nat) :
    soloN h B t (n+1) = soloN h B (soloN h B t 1) n := by
  by_cases hst : ∃ p, t.st = .more p
  · obtain ⟨p, hst⟩ := hst
    rw [soloN_one_more h B hst]
    conv => lhs; unfold soloN
    rw [hst]
    rfl
  · have hst' : ∀ p, t.st ≠ .more p := fun p e => hst ⟨p, e⟩
    rw [soloN_idle h B hst', soloN_idle h B hst', soloN_idle h B hst']

/-- system invariant: the shared heap is still the base heap, every thread satisfies its invariant
    and has written private addresses only -/
structure SysInv (B : Heap) (I : Nat → TState α → Prop) (s : Sys α) : Prop where
  shared : s.shared = B
  inv : ∀ i, I i (s.threads i)
  wr : ∀ i y, y ∈ (s.threads i).tr.writes → B.size ≤ y

theorem next_writes {h : HashFn} {B : Heap} {t : TState α} {p : Prog α} (ok : StepOK h B t p)
    (hwr : ∀ y, y ∈ t.tr.writes → B.size ≤ y) : ∀ y, y ∈ (t.next h B p).tr.writes → B.size ≤ y := by
  intro y hy
  have : y ∈ (t.tr ++ (step1 h p (B ++ t.priv)).2.2).writes := hy
  rw [Trace.writes_app, List.mem_append] at this
  rcases this with h1 | h2
  · exact hwr y h1
  · exact ok.wr y h2

theorem sys_step_inv (hs : Nat → HashFn) {B : Heap} {I : Nat → TState α → Prop}
    (hI : ∀ i, Stable (hs i) B (I i)) {s : Sys α} (hi : SysInv B I s) (i : Nat) :
    SysInv B I (s.step hs i)
      ∧ (s.step hs i).threads i = soloN (hs i) B (s.threads i) 1
      ∧ ∀ j, j ≠ i → (s.step hs i).threads j = s.threads j := by
  by_cases hst : ∃ p, (s.threads i).st = .more p
  · obtain ⟨p, hst⟩ := hst
    obtain ⟨ok, g⟩ := hI i _ p (hi.inv i) hst
    rw [sys_step_more hs hst, soloN_one_more (hs i) B hst, hi.shared]
    refine ⟨⟨ok.shared, fun j => ?_, fun j => ?_⟩, by simp, fun j hj => by simp [hj]⟩
    · by_cases hj : j = i
      · subst hj; simp only [if_true]; exact g
      · simp only [hj, if_false]; exact hi.inv j
    · by_cases hj : j = i
      · subst hj; simp only [if_true]; exact next_writes ok (hi.wr j)
      · simp only [hj, if_false]; exact hi.wr j
  · have hst' : ∀ p, (s.threads i).st ≠ .more p := fun p e => hst ⟨p, e⟩
    rw [sys_step_idle hs hst', soloN_idle (hs i) B hst']
    exact ⟨hi, rfl, fun _ _ => rfl⟩

theorem sys_exec_inv (hs : Nat → HashFn) {B : Heap} {I : Nat → TState α → Prop}
    (hI : ∀ i, Stable (hs i) B (I i)) (sched : List Nat) :
    ∀ {s : Sys α}, SysInv B I s →
      SysInv B I (s.exec hs sched)
        ∧ ∀ i, (s.exec hs sched).threads i = soloN (hs i) B (s.threads i) (sched.count i) := by
  induction sched with
  | nil => intro s hi; exact ⟨hi, fun _ => rfl⟩
  | cons j js ih =>
    intro s hi
    obtain ⟨hi', e1, e2⟩ := sys_step_inv hs hI hi j
    obtain ⟨hi'', e3⟩ := ih hi'
    refine ⟨hi'', fun i => ?_⟩
    show ((s.step hs j).exec hs js).threads i = _
    rw [e3 i, List.count_cons]
    by_cases hij : i = j
    · subst hij
      simp only [beq_self_eq_true, if_true]
      rw [e1, ← soloN_succ]
    · have : (j == i) = false := by simp [Ne.symm hij]
      simp only [this, Bool.false_eq_true, if_false, Nat.add_zero]
      rw [e2 i hij]

theorem sysInv_init_all {B : Heap} (hw : WF B) {p : Nat → Prog α} (hnp : ∀ i, NoPoke (p i)) :
    SysInv B (fun _ => InvAll B) (Sys.init B p) := by
  refine ⟨rfl, fun i => ⟨?_, ?_⟩, fun i y hy => (by cases hy)⟩
  · show WF (B ++ #[])
    rw [Array.append_empty]; exact hw
  · intro q e
    simp only [Sys.init, Status.more.injEq] at e
    subst e; exact hnp i

theorem sysInv_init_reach {B : Heap} (hw : WF B) {p : Nat → Prog α} {R : Nat → Nat → Prop}
    (hR : ∀ i a, R i a → a < B.size ∧ FullyMemo B a) (hsafe : ∀ i, Safe (R i) (p i)) :
    SysInv B (fun _ => InvReach B) (Sys.init B p) := by
  refine ⟨rfl, fun i => ?_, fun i y hy => (by cases hy)⟩
  show WF (B ++ #[]) ∧ HeapOK B.size (B ++ #[]) ∧ _
  rw [Array.append_empty]
  refine ⟨hw, ?_, R i, fun a ha => ⟨(hR i a ha).1, .inr (hR i a ha).2⟩, ?_⟩
  · intro a m l r hna ha
    have := get_lt_size ha
    omega
  · intro q e
    simp only [Sys.init, Status.more.injEq] at e
    subst e; exact hsafe i

/-! ### locations -/

theorem locs_write_priv {B : Heap} {t : TState α} (hwr : ∀ y, y ∈ t.tr.writes → B.size ≤ y)
    {i : Nat} {l : Loc} (hl : (l, Acc.write) ∈ t.locs B.size i) : ∃ k, l = Loc.priv i k := by
  unfold TState.locs at hl
  rw [List.mem_map] at hl
  obtain ⟨⟨y, k⟩, hm, e⟩ := hl
  simp only [Prod.mk.injEq] at e
  obtain ⟨e1, e2⟩ := e
  subst e2
  have := hwr y (Trace.mem_writes.mpr hm)
  refine ⟨y - B.size, ?_⟩
  rw [← e1]
  unfold Loc.of
  rw [if_neg (by omega)]

theorem locs_not_priv_other {n : Nat} {t : TState α} {i j : Nat} (hij : i ≠ j) {l : Loc} {k : Acc}
    (hl : (l, k) ∈ t.locs n j) (m : Nat) : l ≠ Loc.priv i m := by
  unfold TState.locs at hl
  rw [List.mem_map] at hl
  obtain ⟨⟨y, k'⟩, _, e⟩ := hl
  simp only [Prod.mk.injEq] at e
  rw [← e.1]
  unfold Loc.of
  split
  · intro e'; cases e'
  · intro e'
    simp only [Loc.priv.injEq] at e'
    exact hij e'.1.symm

/-! ### small steps and the big-step run -/

theorem step1_poke_ok (h : HashFn) {a : Nat} {r r0 : Root} (k : Unit → Prog α) {hp : Heap}
    (ha : hp[a]? = some (Cell.leaf r0)) :
    step1 h (.pokeLeaf a r k) hp = (.more (k ()), hp.setIfInBounds a (.leaf r), Trace.one a .write) := by
  rw [step1, ha]

theorem step1_poke_bad (h : HashFn) {a : Nat} {r : Root} (k : Unit → Prog α) {hp : Heap}
    (ha : ∀ r0, hp[a]? ≠ some (Cell.leaf r0)) :
    step1 h (.pokeLeaf a r k) hp = (.abort, hp, Trace.nil) := by
  rw [step1]
  split
  · rename_i r0 hx; exact absurd hx (ha r0)
  · rfl

theorem run_of_step1_done (h : HashFn) {p : Prog α} {hp : Heap} {a : α}
    (hs : (step1 h p hp).1 = .done a) :
    run h p hp = (some a, (step1 h p hp).2.1, (step1 h p hp).2.2) := by
  cases p with
  | ret a0 =>
    simp only [step1, Status.done.injEq] at hs
    subst hs; rfl
  | allocLeaf r k => simp [step1] at hs
  | allocPair l r k =>
    by_cases hlr : l < hp.size ∧ r < hp.size
    · simp [step1, hlr] at hs
    · simp [step1, hlr] at hs
  | read x k =>
    cases hx : hp[x]? with
    | none => simp [step1, hx] at hs
    | some c => simp [step1, hx] at hs
  | root x k =>
    by_cases hx : x < hp.size
    · simp [step1, hx] at hs
    · simp [step1, hx] at hs
  | pokeLeaf x r k =>
    by_cases hx : ∃ r0, hp[x]? = some (Cell.leaf r0)
    · obtain ⟨r0, hx⟩ := hx
      rw [step1_poke_ok h _ hx] at hs; cases hs
    · rw [step1_poke_bad h _ (fun r0 e => hx ⟨r0, e⟩)] at hs; cases hs

theorem run_of_step1_more (h : HashFn) {p p' : Prog α} {hp : Heap}
    (hs : (step1 h p hp).1 = .more p') :
    run h p hp = ((run h p' (step1 h p hp).2.1).1, (run h p' (step1 h p hp).2.1).2.1,
      (step1 h p hp).2.2 ++ (run h p' (step1 h p hp).2.1).2.2) := by
  cases p with
  | ret a0 => simp [step1] at hs
  | allocLeaf r k =>
    simp only [step1, Status.more.injEq] at hs
    subst hs; rfl
  | allocPair l r k =>
    by_cases hlr : l < hp.size ∧ r < hp.size
    · simp only [step1, hlr, and_self, if_true, Status.more.injEq] at hs ⊢
      subst hs
      rw [run_allocPair_ok h _ hlr.1 hlr.2]
    · simp [step1, hlr] at hs
  | read x k =>
    cases hx : hp[x]? with
    | none =>
      simp only [step1, hx, Status.more.injEq] at hs ⊢
      subst hs
      rw [run_read_none h _ hx, Trace.nil_app]
    | some c =>
      simp only [step1, hx, Status.more.injEq] at hs ⊢
      subst hs
      rw [run_read_some h _ hx]
  | root x k =>
    by_cases hx : x < hp.size
    · simp only [step1, hx, if_true, Status.more.injEq] at hs ⊢
      subst hs
      rw [run_root_ok h _ hx]
    · simp [step1, hx] at hs
  | pokeLeaf x r k =>
    by_cases hx : ∃ r0, hp[x]? = some (Cell.leaf r0)
    · obtain ⟨r0, hx⟩ := hx
      rw [step1_poke_ok h _ hx] at hs ⊢
      simp only [Status.more.injEq] at hs
      subst hs
      rw [run_poke_ok h _ hx]
    · rw [step1_poke_bad h _ (fun r0 e => hx ⟨r0, e⟩)] at hs; cases hs

/-- a thread that has finished after `n` primitives alone on `B` has computed exactly the big-step
    run of its program on `B ++ priv` -/
theorem solo_run (h : HashFn) {B : Heap} {I : TState α → Prop} (hI : Stable h B I) :
    ∀ (n : Nat) {t : TState α} {p : Prog α} {a : α},
    I t → t.st = .more p → (soloN h B t n).st = .done a →
    (run h p (B ++ t.priv)).1 = some a
      ∧ (run h p (B ++ t.priv)).2.1 = B ++ (soloN h B t n).priv
      ∧ t.tr ++ (run h p (B ++ t.priv)).2.2 = (soloN h B t n).tr := by
  intro n
  induction n with
  | zero =>
    intro t p a _ hst hd
    rw [show soloN h B t 0 = t from rfl, hst] at hd; cases hd
  | succ n ih =>
    intro t p a hg hst hd
    rw [soloN_succ, soloN_one_more h B hst] at hd ⊢
    obtain ⟨ok, g'⟩ := hI t p hg hst
    have s2 := ok.split
    cases hnx : (step1 h p (B ++ t.priv)).1 with
    | done a' =>
      have hidle : ∀ q, (t.next h B p).st ≠ .more q := by
        intro q e
        have : (t.next h B p).st = .done a' := hnx
        rw [this] at e; cases e
      rw [soloN_idle h B hidle] at hd ⊢
      have : (t.next h B p).st = .done a' := hnx
      rw [this] at hd
      simp only [Status.done.injEq] at hd
      subst hd
      rw [run_of_step1_done h hnx]
      exact ⟨rfl, s2.symm, rfl⟩
    | abort =>
      have hidle : ∀ q, (t.next h B p).st ≠ .more q := by
        intro q e
        have : (t.next h B p).st = .abort := hnx
        rw [this] at e; cases e
      rw [soloN_idle h B hidle] at hd
      have : (t.next h B p).st = .abort := hnx
      rw [this] at hd; cases hd
    | more p' =>
      have hst' : (t.next h B p).st = .more p' := hnx
      obtain ⟨r1, r2, r3⟩ := ih g' hst' hd
      rw [run_of_step1_more h hnx, ← s2]
      refine ⟨r1, r2, ?_⟩
      rw [← r3, ← Trace.app_assoc]
      rfl

/-- everything C14 states, for any stable thread invariant -/
theorem c14_core (hs : Nat → HashFn) {B : Heap} {I : Nat → TState α → Prop}
    (hI : ∀ i, Stable (hs i) B (I i)) {p : Nat → Prog α} (h0 : SysInv B I (Sys.init B p))
    (sched : List Nat) :
    ((Sys.init B p).exec hs sched).shared = B
      ∧ (∀ i y, y ∈ (((Sys.init B p).exec hs sched).threads i).tr.writes → B.size ≤ y)
      ∧ (∀ i j, i ≠ j → ∀ l k,
          (l, Acc.write) ∈ (((Sys.init B p).exec hs sched).threads i).locs B.size i →
          (l, k) ∉ (((Sys.init B p).exec hs sched).threads j).locs B.size j)
      ∧ (∀ i, ((Sys.init B p).exec hs sched).threads i
          = soloN (hs i) B ((Sys.init B p).threads i) (sched.count i))
      ∧ (∀ i a, (((Sys.init B p).exec hs sched).threads i).st = .done a →
          (run (hs i) (p i) B).1 = some a
            ∧ (run (hs i) (p i) B).2.1 = B ++ (((Sys.init B p).exec hs sched).threads i).priv
            ∧ (run (hs i) (p i) B).2.2 = (((Sys.init B p).exec hs sched).threads i).tr) := by
  obtain ⟨inv, seq⟩ := sys_exec_inv hs hI sched h0
  refine ⟨inv.shared, inv.wr, ?_, seq, ?_⟩
  · intro i j hij l k hwi hj
    obtain ⟨m, rfl⟩ := locs_write_priv (inv.wr i) hwi
    exact locs_not_priv_other hij hj m rfl
  · intro i a hd
    rw [seq i] at hd ⊢
    have := solo_run (hs i) (hI i) (sched.count i) (h0.inv i) rfl hd
    simp only [Sys.init, Array.append_empty, Trace.nil_app] at this ⊢
    exact this

theorem noPoke_exThreads : ∀ i, NoPoke (exThreads i) := by
  intro i
  unfold exThreads
  split
  · exact noPoke_exClient
  · split
    · exact .root _ _ (fun v => .ret v)
    · exact .ret _

theorem safe_exClient : Safe (fun z => z = 4) exClient := by
  unfold exClient
  refine .read _ _ _ rfl (fun c => ?_)
  cases c with
  | none => exact .ret _ _
  | some v =>
    cases v with
    | inl _ => exact .ret _ _
    | inr lr =>
      obtain ⟨l, r⟩ := lr
      refine .allocLeaf _ _ _ (fun a => .allocPair _ _ _ _ ?_ ?_ (fun b => .root _ _ _ ?_ (fun v => .ret _ v)))
      · exact .inl (.inr (.inl rfl))
      · exact .inr rfl
      · exact .inr rfl

theorem safe_exThreads : ∀ i, Safe (fun z => z = 4) (exThreads i) := by
  intro i
  unfold exThreads
  split
  · exact safe_exClient
  · split
    · exact .root _ _ _ rfl (fun v => .ret _ v)
    · exact .ret _ _

end ZtypV.H
