/-
Model H, threads: a shared base heap plus one private heap per goroutine (C14).  Core Lean only.
-/
import ZtypV.Proofs.HeapCost
namespace ZtypV.H

/-! ### one primitive never writes below a fully hashed prefix -/

/-- every pair below address `n` has its memo set -/
def MemoBelow (n : Nat) (hp : Heap) : Prop :=
  ∀ (y : Nat) (m : Root) (l r : Nat), y < n → hp[y]? = some (Cell.pair m l r) → m ≠ z0

theorem step1_shared (h : HashFn) {p : Prog α} (hnp : NoPoke p) {hp : Heap} {n : Nat}
    (hn : n ≤ hp.size) (hw : WF hp) (hmb : MemoBelow n hp) :
    (∀ y, y < n → (step1 h p hp).2.1[y]? = hp[y]?)
      ∧ (∀ y, y ∈ (step1 h p hp).2.2.writes → n ≤ y)
      ∧ WF (step1 h p hp).2.1 ∧ hp.size ≤ (step1 h p hp).2.1.size
      ∧ (∀ p', (step1 h p hp).1 = .more p' → NoPoke p') := by
  cases hnp with
  | ret a =>
    refine ⟨fun _ _ => rfl, fun y hy => (by cases hy), hw, Nat.le_refl _, ?_⟩
    intro p' e; simp [step1] at e
  | allocLeaf r k hk =>
    refine ⟨fun y hy => get_push_lt _ (by omega), fun y hy => ?_, WF_push_leaf hw r,
      by simp [step1], ?_⟩
    · simp only [step1, Trace.writes_write, List.mem_singleton] at hy
      omega
    · intro p' e
      simp only [step1, Status.more.injEq] at e
      subst e; exact hk _
  | allocPair l r k hk =>
    by_cases hlr : l < hp.size ∧ r < hp.size
    · simp only [step1, hlr, and_self, if_true]
      refine ⟨fun y hy => get_push_lt _ (by omega), fun y hy => ?_,
        WF_push_pair hw hlr.1 hlr.2 z0, by simp, ?_⟩
      · simp only [Trace.writes_write, List.mem_singleton] at hy
        omega
      · intro p' e
        simp only [Status.more.injEq] at e
        subst e; exact hk _
    · simp only [step1, hlr, if_false]
      refine ⟨fun _ _ => (by first | rfl | trivial), fun y hy => (by cases hy), hw, Nat.le_refl _, ?_⟩
      intro p' e; cases e
  | read a k hk =>
    cases ha : hp[a]? with
    | none =>
      simp only [step1, ha]
      refine ⟨fun _ _ => (by first | rfl | trivial), fun y hy => (by cases hy), hw, Nat.le_refl _, ?_⟩
      intro p' e
      simp only [Status.more.injEq] at e
      subst e; exact hk _
    | some c =>
      simp only [step1, ha]
      refine ⟨fun _ _ => (by first | rfl | trivial), fun y hy => (by cases hy), hw, Nat.le_refl _, ?_⟩
      intro p' e
      simp only [Status.more.injEq] at e
      subst e; exact hk _
  | root a k hk =>
    by_cases ha : a < hp.size
    · simp only [step1, ha, if_true]
      obtain ⟨ms, wr⟩ := rootH_memoStep h (a+1) hp a
      refine ⟨fun y hy => ?_, fun y hy => ?_, WF_sameStruct (rootH_sameStruct h _ hp a) hw,
        by rw [rootH_size]; exact Nat.le_refl _, ?_⟩
      · rcases ms y with e | ⟨l, r, v, e, _⟩
        · exact e
        · exact absurd rfl (hmb y z0 l r hy e)
      · obtain ⟨l, r, e⟩ := wr y hy
        apply Nat.le_of_not_lt
        intro hlt
        exact absurd rfl (hmb y z0 l r hlt e)
      · intro p' e
        simp only [Status.more.injEq] at e
        subst e; exact hk _
    · simp only [step1, ha, if_false]
      refine ⟨fun _ _ => (by first | rfl | trivial), fun y hy => (by cases hy), hw, Nat.le_refl _, ?_⟩
      intro p' e; cases e

/-! ### splitting a thread's view into shared and private part -/

theorem split_heap {B hp' : Heap} (hsz : B.size ≤ hp'.size)
    (hsame : ∀ y, y < B.size → hp'[y]? = B[y]?) :
    hp'.extract 0 B.size = B ∧ B ++ hp'.extract B.size hp'.size = hp' := by
  constructor
  · apply Array.ext_getElem?
    intro i
    rw [get_prefix hsz]
    split
    · rename_i hi; exact hsame i hi
    · rename_i hi; rw [Array.getElem?_eq_none (by omega)]
  · apply Array.ext_getElem?
    intro i
    rw [Array.getElem?_append]
    split
    · rename_i hi; exact (hsame i hi).symm
    · rename_i hi
      rw [Array.getElem?_extract]
      by_cases hi' : i < hp'.size
      · have : i - B.size < min hp'.size hp'.size - B.size := by omega
        rw [if_pos this]
        congr 1; omega
      · have : ¬ i - B.size < min hp'.size hp'.size - B.size := by omega
        rw [if_neg this, Array.getElem?_eq_none (by omega)]

theorem memoBelow_append {B : Heap} (hB : AllMemo B) (pv : Heap) : MemoBelow B.size (B ++ pv) := by
  intro y m l r hy e
  rw [Array.getElem?_append_left hy] at e
  exact hB y m l r e

/-! ### thread invariants -/

/-- thread state `t` is in order w.r.t. base heap `B` -/
structure Good (B : Heap) (t : TState α) : Prop where
  wf : WF (B ++ t.priv)
  np : ∀ p, t.st = .more p → NoPoke p
  wr : ∀ y, y ∈ t.tr.writes → B.size ≤ y

/-- the next state of a thread that executes one primitive against base `B` -/
def TState.next (h : HashFn) (B : Heap) (t : TState α) (p : Prog α) : TState α :=
  { st := (step1 h p (B ++ t.priv)).1,
    priv := (step1 h p (B ++ t.priv)).2.1.extract B.size (step1 h p (B ++ t.priv)).2.1.size,
    tr := t.tr ++ (step1 h p (B ++ t.priv)).2.2 }

theorem thread_step (h : HashFn) {B : Heap} (hB : AllMemo B) {t : TState α} (hg : Good B t)
    {p : Prog α} (hst : t.st = .more p) :
    (step1 h p (B ++ t.priv)).2.1.extract 0 B.size = B
      ∧ B ++ (t.next h B p).priv = (step1 h p (B ++ t.priv)).2.1
      ∧ Good B (t.next h B p) := by
  have hsz : B.size ≤ (B ++ t.priv).size := by simp
  obtain ⟨same, wr, wf', sz', np'⟩ :=
    step1_shared h (hg.np p hst) hsz hg.wf (memoBelow_append hB t.priv)
  have same' : ∀ y, y < B.size → (step1 h p (B ++ t.priv)).2.1[y]? = B[y]? := by
    intro y hy; rw [same y hy, Array.getElem?_append_left hy]
  obtain ⟨s1, s2⟩ := split_heap (Nat.le_trans hsz sz') same'
  refine ⟨s1, s2, ?_⟩
  constructor
  · have e : B ++ (t.next h B p).priv = (step1 h p (B ++ t.priv)).2.1 := s2
    rw [e]; exact wf'
  · exact np'
  · intro y hy
    show B.size ≤ y
    have : y ∈ (t.tr ++ (step1 h p (B ++ t.priv)).2.2).writes := hy
    rw [Trace.writes_app, List.mem_append] at this
    rcases this with h1 | h2
    · exact hg.wr y h1
    · exact wr y h2

/-! ### the system -/

theorem sys_step_more (hs : Nat → HashFn) {s : Sys α} {i : Nat} {p : Prog α}
    (hst : (s.threads i).st = .more p) :
    s.step hs i =
      { shared := (step1 (hs i) p (s.shared ++ (s.threads i).priv)).2.1.extract 0 s.shared.size,
        threads := fun j => if j = i then (s.threads i).next (hs i) s.shared p else s.threads j } := by
  unfold Sys.step
  rw [hst]
  rfl

theorem sys_step_idle (hs : Nat → HashFn) {s : Sys α} {i : Nat}
    (hst : ∀ p, (s.threads i).st ≠ .more p) : s.step hs i = s := by
  unfold Sys.step
  split
  · rename_i p e; exact absurd e (hst p)
  · rfl

theorem soloN_one_more (h : HashFn) (B : Heap) {t : TState α} {p : Prog α} (hst : t.st = .more p) :
    soloN h B t 1 = t.next h B p := by
  unfold soloN
  rw [hst]
  rfl

theorem soloN_idle (h : HashFn) (B : Heap) {t : TState α} (hst : ∀ p, t.st ≠ .more p) (n : Nat) :
    soloN h B t n = t := by
  cases n with
  | zero => rfl
  | succ n =>
    unfold soloN
    split
    · rename_i p e; exact absurd e (hst p)
    · rfl

theorem soloN_succ (h : HashFn) (B : Heap) (t : TState α) (n : Nat) :
    soloN h B t (n+1) = soloN h B (soloN h B t 1) n := by
  by_cases hst : ∃ p, t.st = .more p
  · obtain ⟨p, hst⟩ := hst
    rw [soloN_one_more h B hst]
    conv => lhs; unfold soloN
    rw [hst]
    rfl
  · have hst' : ∀ p, t.st ≠ .more p := fun p e => hst ⟨p, e⟩
    rw [soloN_idle h B hst', soloN_idle h B hst', soloN_idle h B hst']

/-- system invariant: the shared heap is still the base heap and every thread is in order -/
structure SysInv (B : Heap) (s : Sys α) : Prop where
  shared : s.shared = B
  good : ∀ i, Good B (s.threads i)

theorem sys_step_inv (hs : Nat → HashFn) {B : Heap} (hB : AllMemo B) {s : Sys α} (hi : SysInv B s)
    (i : Nat) :
    SysInv B (s.step hs i)
      ∧ (s.step hs i).threads i = soloN (hs i) B (s.threads i) 1
      ∧ ∀ j, j ≠ i → (s.step hs i).threads j = s.threads j := by
  by_cases hst : ∃ p, (s.threads i).st = .more p
  · obtain ⟨p, hst⟩ := hst
    obtain ⟨s1, _, g⟩ := thread_step (hs i) hB (hi.good i) hst
    rw [sys_step_more hs hst, soloN_one_more (hs i) B hst, hi.shared]
    refine ⟨⟨s1, fun j => ?_⟩, by simp, fun j hj => by simp [hj]⟩
    by_cases hj : j = i
    · simp only [hj, if_true]; exact g
    · simp only [hj, if_false]; exact hi.good j
  · have hst' : ∀ p, (s.threads i).st ≠ .more p := fun p e => hst ⟨p, e⟩
    rw [sys_step_idle hs hst', soloN_idle (hs i) B hst']
    exact ⟨hi, rfl, fun _ _ => rfl⟩

theorem sys_exec_inv (hs : Nat → HashFn) {B : Heap} (hB : AllMemo B) (sched : List Nat) :
    ∀ {s : Sys α}, SysInv B s →
      SysInv B (s.exec hs sched)
        ∧ ∀ i, (s.exec hs sched).threads i = soloN (hs i) B (s.threads i) (sched.count i) := by
  induction sched with
  | nil => intro s hi; exact ⟨hi, fun _ => rfl⟩
  | cons j js ih =>
    intro s hi
    obtain ⟨hi', e1, e2⟩ := sys_step_inv hs hB hi j
    obtain ⟨hi'', e3⟩ := ih hi'
    refine ⟨hi'', fun i => ?_⟩
    show ((s.step hs j).exec hs js).threads i = _
    rw [e3 i, List.count_cons]
    by_cases hij : i = j
    · subst hij
      simp only [beq_self_eq_true, if_true]
      rw [e1, ← soloN_succ]
    · have : (j == i) = false := by simp [Ne.symm hij]
      simp only [this, Bool.false_eq_true, if_false, Nat.add_zero]
      rw [e2 i hij]

theorem sysInv_init {B : Heap} (hw : WF B) {p : Nat → Prog α} (hnp : ∀ i, NoPoke (p i)) :
    SysInv B (Sys.init B p) := by
  refine ⟨rfl, fun i => ⟨?_, ?_, ?_⟩⟩
  · show WF (B ++ #[])
    rw [Array.append_empty]; exact hw
  · intro q e
    simp only [Sys.init, Status.more.injEq] at e
    subst e; exact hnp i
  · intro y hy; cases hy

/-! ### locations -/

theorem locs_write_priv {B : Heap} {t : TState α} (hg : Good B t) {i : Nat} {l : Loc}
    (hl : (l, Acc.write) ∈ t.locs B.size i) : ∃ k, l = Loc.priv i k := by
  unfold TState.locs at hl
  rw [List.mem_map] at hl
  obtain ⟨⟨y, k⟩, hm, e⟩ := hl
  simp only [Prod.mk.injEq] at e
  obtain ⟨e1, e2⟩ := e
  subst e2
  have := hg.wr y (Trace.mem_writes.mpr hm)
  refine ⟨y - B.size, ?_⟩
  rw [← e1]
  unfold Loc.of
  rw [if_neg (by omega)]

theorem locs_not_priv_other {n : Nat} {t : TState α} {i j : Nat} (hij : i ≠ j) {l : Loc} {k : Acc}
    (hl : (l, k) ∈ t.locs n j) (m : Nat) : l ≠ Loc.priv i m := by
  unfold TState.locs at hl
  rw [List.mem_map] at hl
  obtain ⟨⟨y, k'⟩, _, e⟩ := hl
  simp only [Prod.mk.injEq] at e
  rw [← e.1]
  unfold Loc.of
  split
  · intro e'; cases e'
  · intro e'
    simp only [Loc.priv.injEq] at e'
    exact hij e'.1.symm

/-! ### small steps and the big-step run -/

theorem step1_poke_ok (h : HashFn) {a : Nat} {r r0 : Root} (k : Unit → Prog α) {hp : Heap}
    (ha : hp[a]? = some (Cell.leaf r0)) :
    step1 h (.pokeLeaf a r k) hp = (.more (k ()), hp.setIfInBounds a (.leaf r), Trace.one a .write) := by
  rw [step1, ha]

theorem step1_poke_bad (h : HashFn) {a : Nat} {r : Root} (k : Unit → Prog α) {hp : Heap}
    (ha : ∀ r0, hp[a]? ≠ some (Cell.leaf r0)) :
    step1 h (.pokeLeaf a r k) hp = (.abort, hp, Trace.nil) := by
  rw [step1]
  split
  · rename_i r0 hx; exact absurd hx (ha r0)
  · rfl

theorem run_of_step1_done (h : HashFn) {p : Prog α} {hp : Heap} {a : α}
    (hs : (step1 h p hp).1 = .done a) :
    run h p hp = (some a, (step1 h p hp).2.1, (step1 h p hp).2.2) := by
  cases p with
  | ret a0 =>
    simp only [step1, Status.done.injEq] at hs
    subst hs; rfl
  | allocLeaf r k => simp [step1] at hs
  | allocPair l r k =>
    by_cases hlr : l < hp.size ∧ r < hp.size
    · simp [step1, hlr] at hs
    · simp [step1, hlr] at hs
  | read x k =>
    cases hx : hp[x]? with
    | none => simp [step1, hx] at hs
    | some c => simp [step1, hx] at hs
  | root x k =>
    by_cases hx : x < hp.size
    · simp [step1, hx] at hs
    · simp [step1, hx] at hs
  | pokeLeaf x r k =>
    by_cases hx : ∃ r0, hp[x]? = some (Cell.leaf r0)
    · obtain ⟨r0, hx⟩ := hx
      rw [step1_poke_ok h _ hx] at hs; cases hs
    · rw [step1_poke_bad h _ (fun r0 e => hx ⟨r0, e⟩)] at hs; cases hs

theorem run_of_step1_more (h : HashFn) {p p' : Prog α} {hp : Heap}
    (hs : (step1 h p hp).1 = .more p') :
    run h p hp = ((run h p' (step1 h p hp).2.1).1, (run h p' (step1 h p hp).2.1).2.1,
      (step1 h p hp).2.2 ++ (run h p' (step1 h p hp).2.1).2.2) := by
  cases p with
  | ret a0 => simp [step1] at hs
  | allocLeaf r k =>
    simp only [step1, Status.more.injEq] at hs
    subst hs; rfl
  | allocPair l r k =>
    by_cases hlr : l < hp.size ∧ r < hp.size
    · simp only [step1, hlr, and_self, if_true, Status.more.injEq] at hs ⊢
      subst hs
      rw [run_allocPair_ok h _ hlr.1 hlr.2]
    · simp [step1, hlr] at hs
  | read x k =>
    cases hx : hp[x]? with
    | none =>
      simp only [step1, hx, Status.more.injEq] at hs ⊢
      subst hs
      rw [run_read_none h _ hx, Trace.nil_app]
    | some c =>
      simp only [step1, hx, Status.more.injEq] at hs ⊢
      subst hs
      rw [run_read_some h _ hx]
  | root x k =>
    by_cases hx : x < hp.size
    · simp only [step1, hx, if_true, Status.more.injEq] at hs ⊢
      subst hs
      rw [run_root_ok h _ hx]
    · simp [step1, hx] at hs
  | pokeLeaf x r k =>
    by_cases hx : ∃ r0, hp[x]? = some (Cell.leaf r0)
    · obtain ⟨r0, hx⟩ := hx
      rw [step1_poke_ok h _ hx] at hs ⊢
      simp only [Status.more.injEq] at hs
      subst hs
      rw [run_poke_ok h _ hx]
    · rw [step1_poke_bad h _ (fun r0 e => hx ⟨r0, e⟩)] at hs; cases hs

/-- a thread that has finished after `n` primitives alone on `B` has computed exactly the big-step
    run of its program on `B ++ priv` -/
theorem solo_run (h : HashFn) {B : Heap} (hB : AllMemo B) : ∀ (n : Nat) {t : TState α} {p : Prog α} {a : α},
    Good B t → t.st = .more p → (soloN h B t n).st = .done a →
    (run h p (B ++ t.priv)).1 = some a
      ∧ (run h p (B ++ t.priv)).2.1 = B ++ (soloN h B t n).priv
      ∧ t.tr ++ (run h p (B ++ t.priv)).2.2 = (soloN h B t n).tr := by
  intro n
  induction n with
  | zero =>
    intro t p a _ hst hd
    rw [show soloN h B t 0 = t from rfl, hst] at hd; cases hd
  | succ n ih =>
    intro t p a hg hst hd
    rw [soloN_succ, soloN_one_more h B hst] at hd ⊢
    obtain ⟨_, s2, g'⟩ := thread_step h hB hg hst
    cases hnx : (step1 h p (B ++ t.priv)).1 with
    | done a' =>
      have hidle : ∀ q, (t.next h B p).st ≠ .more q := by
        intro q e
        have : (t.next h B p).st = .done a' := hnx
        rw [this] at e; cases e
      rw [soloN_idle h B hidle] at hd ⊢
      have : (t.next h B p).st = .done a' := hnx
      rw [this] at hd
      simp only [Status.done.injEq] at hd
      subst hd
      rw [run_of_step1_done h hnx]
      exact ⟨rfl, s2.symm, rfl⟩
    | abort =>
      have hidle : ∀ q, (t.next h B p).st ≠ .more q := by
        intro q e
        have : (t.next h B p).st = .abort := hnx
        rw [this] at e; cases e
      rw [soloN_idle h B hidle] at hd
      have : (t.next h B p).st = .abort := hnx
      rw [this] at hd; cases hd
    | more p' =>
      have hst' : (t.next h B p).st = .more p' := hnx
      obtain ⟨r1, r2, r3⟩ := ih g' hst' hd
      rw [run_of_step1_more h hnx, ← s2]
      refine ⟨r1, r2, ?_⟩
      rw [← r3, ← Trace.app_assoc]
      rfl

theorem noPoke_exThreads : ∀ i, NoPoke (exThreads i) := by
  intro i
  unfold exThreads
  split
  · exact noPoke_exClient
  · split
    · exact .root _ _ (fun v => .ret v)
    · exact .ret _

end ZtypV.H
