/-
The representation relation `Rep` (Proofs/Rep.lean), part 1: element-wise facts, the
constructor route produces a `Rep` backing (`construct_rep`), and the Merkle root of any `Rep`
backing is the SSZ-spec root (`rep_root`).  The tree layer is used only through the interface
of Proofs/Shape.lean (`fill_shape`, `shape_root`, `listShape_root`).
-/
import ZtypV.Proofs.Shape
import ZtypV.Proofs.ViewRoot
import ZtypV.Proofs.ViewShape
namespace ZtypV
open View

/-! ### element-wise facts about `RepList` / `RepFields` -/

theorem repList_length {h : HashFn} {e : Ty} : ∀ {vs : List Val} {xs : List Node},
    RepList h e vs xs → xs.length = vs.length
  | [], [], _ => rfl
  | v :: vs, x :: xs, hr => by
    simp only [RepList] at hr
    simp only [List.length_cons, repList_length hr.2]
  | [], _ :: _, hr => by simp only [RepList] at hr
  | _ :: _, [], hr => by simp only [RepList] at hr

theorem repList_getElem {h : HashFn} {e : Ty} : ∀ {vs : List Val} {xs : List Node},
    RepList h e vs xs → ∀ i (h1 : i < vs.length) (h2 : i < xs.length), Rep h e vs[i] xs[i]
  | [], [], _ => fun i h1 => by simp at h1
  | v :: vs, x :: xs, hr => by
    simp only [RepList] at hr
    intro i h1 h2
    cases i with
    | zero => exact hr.1
    | succ i => exact repList_getElem hr.2 i (by simpa using h1) (by simpa using h2)
  | [], _ :: _, hr => by simp only [RepList] at hr
  | _ :: _, [], hr => by simp only [RepList] at hr

theorem repList_of_getElem {h : HashFn} {e : Ty} : ∀ {vs : List Val} {xs : List Node},
    xs.length = vs.length →
    (∀ i (h1 : i < vs.length) (h2 : i < xs.length), Rep h e vs[i] xs[i]) → RepList h e vs xs
  | [], [], _, _ => by simp only [RepList]
  | v :: vs, x :: xs, hl, hel => by
    simp only [RepList]
    refine ⟨hel 0 (by simp) (by simp), repList_of_getElem (by simpa using hl) ?_⟩
    intro i h1 h2
    exact hel (i + 1) (by simp; omega) (by simp; omega)
  | [], _ :: _, hl, _ => by simp at hl
  | _ :: _, [], hl, _ => by simp at hl

theorem repFields_length {h : HashFn} : ∀ {fs : List Ty} {vs : List Val} {xs : List Node},
    RepFields h fs vs xs → xs.length = vs.length ∧ fs.length = vs.length
  | [], [], [], _ => ⟨rfl, rfl⟩
  | t :: ts, v :: vs, x :: xs, hr => by
    simp only [RepFields] at hr
    have := repFields_length hr.2
    simp only [List.length_cons, this.1, this.2, and_self]
  | [], [], _ :: _, hr => by simp only [RepFields] at hr
  | [], _ :: _, _, hr => by simp only [RepFields] at hr
  | _ :: _, [], _, hr => by simp only [RepFields] at hr
  | _ :: _, _ :: _, [], hr => by simp only [RepFields] at hr

theorem repFields_getElem {h : HashFn} : ∀ {fs : List Ty} {vs : List Val} {xs : List Node},
    RepFields h fs vs xs → ∀ i (h0 : i < fs.length) (h1 : i < vs.length) (h2 : i < xs.length),
      Rep h fs[i] vs[i] xs[i]
  | [], [], [], _ => fun i h0 => by simp at h0
  | t :: ts, v :: vs, x :: xs, hr => by
    simp only [RepFields] at hr
    intro i h0 h1 h2
    cases i with
    | zero => exact hr.1
    | succ i =>
      exact repFields_getElem hr.2 i (by simpa using h0) (by simpa using h1) (by simpa using h2)
  | [], [], _ :: _, hr => by simp only [RepFields] at hr
  | [], _ :: _, _, hr => by simp only [RepFields] at hr
  | _ :: _, [], _, hr => by simp only [RepFields] at hr
  | _ :: _, _ :: _, [], hr => by simp only [RepFields] at hr

theorem repFields_of_getElem {h : HashFn} : ∀ {fs : List Ty} {vs : List Val} {xs : List Node},
    xs.length = vs.length → fs.length = vs.length →
    (∀ i (h0 : i < fs.length) (h1 : i < vs.length) (h2 : i < xs.length), Rep h fs[i] vs[i] xs[i]) →
    RepFields h fs vs xs
  | [], [], [], _, _, _ => by simp only [RepFields]
  | t :: ts, v :: vs, x :: xs, hl, hl', hel => by
    simp only [RepFields]
    refine ⟨hel 0 (by simp) (by simp) (by simp),
      repFields_of_getElem (by simpa using hl) (by simpa using hl') ?_⟩
    intro i h0 h1 h2
    exact hel (i + 1) (by simp; omega) (by simp; omega) (by simp; omega)
  | [], [], _ :: _, hl, _, _ => by simp at hl
  | [], _ :: _, _, _, hl', _ => by simp at hl'
  | _ :: _, [], _, _, hl', _ => by simp at hl'
  | _ :: _, _ :: _, [], hl, _, _ => by simp at hl

/-- unfolding of `Rep` at a union value that is not the `None` option -/
theorem rep_union_some {h : HashFn} {hasNone : Bool} {opts : List Ty} {sel : Nat} {v : Val}
    {t : Ty} {n : Node} (ho : unionOpt hasNone opts sel = some t) (hvn : v ≠ .none) :
    Rep h (.union hasNone opts) (.union sel v) n ↔
      ∃ c, Rep h t v c ∧ n = .pair c (.leaf (chunkOf [UInt8.ofNat sel])) := by
  rw [Rep.eq_10 h n hasNone opts sel v (fun hv => hvn hv)]
  simp only [ho]

theorem rep_union_none {h : HashFn} {hasNone : Bool} {opts : List Ty} {sel : Nat} {n : Node} :
    Rep h (.union hasNone opts) (.union sel .none) n ↔
      (hasNone = true ∧ sel = 0 ∧ n = .pair (.leaf z0) (.leaf (chunkOf [UInt8.ofNat sel]))) := by
  simp only [Rep]

/-! ### 1. the constructor route builds a `Rep` backing -/

/-- induction predicate of `construct_rep` -/
def ConstructRep (h : HashFn) (v : Val) : Prop :=
  ∀ (t : Ty) (n : Node), hasType t v = true → construct h t v = .ok n → Rep h t v n

theorem constructList_rep (h : HashFn) (e : Ty) (vs : List Val) (ns : List Node)
    (ih : ∀ v ∈ vs, ConstructRep h v) (hall : allHaveType e vs = true)
    (hcl : constructList h e vs = .ok ns) : RepList h e vs ns := by
  obtain ⟨hl, hel⟩ := constructList_ok h e vs ns hcl
  refine repList_of_getElem hl (fun i h1 h2 => ?_)
  exact ih vs[i] (List.getElem_mem h1) e ns[i] (allHaveType_getElem e vs hall i h1) (hel i h1 h2)

theorem constructFields_rep (h : HashFn) (fs : List Ty) (vs : List Val) (ns : List Node)
    (ih : ∀ v ∈ vs, ConstructRep h v) (hall : fieldsHaveType fs vs = true)
    (hcl : constructFields h fs vs = .ok ns) : RepFields h fs vs ns := by
  have hlen := fieldsHaveType_length fs vs hall
  obtain ⟨hl, hel⟩ := constructFields_ok h fs vs ns hlen hcl
  refine repFields_of_getElem hl hlen (fun i h0 h1 h2 => ?_)
  exact ih vs[i] (List.getElem_mem h1) fs[i] ns[i] (fieldsHaveType_getElem fs vs hall i h0 h1)
    (hel i h0 h1 h2)

theorem constructRep_all (h : HashFn) : ∀ v, ConstructRep h v := by
  intro v
  induction v using Val.induct with
  | num k =>
    intro t n ht hc
    cases t <;> simp [hasType] at ht
    simp only [construct] at hc
    cases hc
    simp only [Rep]
  | bool b =>
    intro t n ht hc
    cases t <;> simp [hasType] at ht
    simp only [construct] at hc
    cases hc
    simp only [Rep]
  | bytes bs =>
    intro t n ht hc
    cases t <;> simp [hasType] at ht
    simp only [construct] at hc
    cases hc
    simp only [Rep]
  | bits bs =>
    intro t n ht hc
    cases t <;> try (simp [hasType] at ht; done)
    · simp only [hasType, beq_iff_eq] at ht
      have hf := construct_bitvector_shape ht hc
      simp only [Rep]
      exact ⟨ht, fill_shape h hf⟩
    · simp only [hasType, decide_eq_true_eq] at ht
      obtain ⟨c, hn, hf⟩ := construct_bitlist_shape ht hc
      simp only [Rep]
      exact ⟨ht, c, hn, fill_shape h hf⟩
  | seq vs ih =>
    intro t n ht hc
    cases t <;> try (simp [hasType] at ht; done)
    · rename_i e k
      simp only [hasType, Bool.and_eq_true, beq_iff_eq] at ht
      obtain ⟨hlen, hall⟩ := ht
      cases hb : isBasicElem e
      · obtain ⟨ns, hcl, hf⟩ := construct_vector_complex_shape hb hlen hc
        simp only [Rep, hb, Bool.false_eq_true, if_false]
        exact ⟨hlen, ns, constructList_rep h e vs ns ih hall hcl, fill_shape h hf⟩
      · obtain ⟨b, rfl⟩ := isBasicElem_uint hb
        have hf := construct_vector_basic_shape hlen hc
        simp only [Rep, isBasicElem, if_true]
        exact ⟨hlen, fill_shape h hf⟩
    · rename_i e lim
      simp only [hasType, Bool.and_eq_true, decide_eq_true_eq] at ht
      obtain ⟨hlen, hall⟩ := ht
      cases hb : isBasicElem e
      · obtain ⟨c, ns, hn, hcl, hf⟩ := construct_list_complex_shape hb hlen hc
        simp only [Rep, hb, Bool.false_eq_true, if_false]
        exact ⟨hlen, ns, constructList_rep h e vs ns ih hall hcl, c, hn, fill_shape h hf⟩
      · obtain ⟨b, rfl⟩ := isBasicElem_uint hb
        obtain ⟨c, hn, hf⟩ := construct_list_basic_shape hlen hc
        simp only [Rep, isBasicElem, if_true]
        exact ⟨hlen, c, hn, fill_shape h hf⟩
    · rename_i fs
      simp only [hasType] at ht
      have hlen := fieldsHaveType_length fs vs ht
      obtain ⟨ns, hcl, hf⟩ := construct_container_shape hlen hc
      simp only [Rep]
      exact ⟨ns, constructFields_rep h fs vs ns ih ht hcl, fill_shape h hf⟩
  | none =>
    intro t n ht hc
    rw [View.hasType_none] at ht; cases ht
  | union sel v ih =>
    intro t n ht hc
    cases t <;> try (simp [hasType] at ht; done)
    rename_i hasNone opts
    simp only [hasType] at ht
    cases ho : unionOpt hasNone opts sel with
    | none =>
      simp only [ho, Bool.and_eq_true, beq_iff_eq] at ht
      obtain ⟨⟨hn, hsel⟩, hv⟩ := ht
      cases v <;> simp at hv
      have := construct_union_none_shape hc
      exact rep_union_none.mpr ⟨hn, hsel, this⟩
    | some t =>
      simp only [ho] at ht
      have hvn : v ≠ .none := by
        intro hv; subst hv; rw [View.hasType_none] at ht; cases ht
      obtain ⟨c, hcv, hn⟩ := construct_union_some_shape ho hvn hc
      exact (rep_union_some ho hvn).mpr ⟨c, ih t c ht hcv, hn⟩

/-- 1. what the constructor route builds is a `Rep` backing of the value -/
theorem construct_rep (h : HashFn) {t : Ty} {v : Val} {n : Node} (_hwf : t.wf = true)
    (hty : hasType t v = true) (hc : construct h t v = .ok n) : Rep h t v n :=
  constructRep_all h v t n hty hc

theorem constructList_repList (h : HashFn) {e : Ty} {vs : List Val} {ns : List Node}
    (_hwf : e.wf = true) (hall : allHaveType e vs = true) (hcl : constructList h e vs = .ok ns) :
    RepList h e vs ns :=
  constructList_rep h e vs ns (fun v _ => constructRep_all h v) hall hcl

theorem constructFields_repFields (h : HashFn) {fs : List Ty} {vs : List Val} {ns : List Node}
    (_hwf : Ty.wfAll fs = true) (hall : fieldsHaveType fs vs = true)
    (hcl : constructFields h fs vs = .ok ns) : RepFields h fs vs ns :=
  constructFields_rep h fs vs ns (fun v _ => constructRep_all h v) hall hcl

/-! ### 3. the root of a `Rep` backing is the spec root -/

/-- induction predicate of `rep_root` -/
def RepRoot (h : HashFn) (v : Val) : Prop :=
  ∀ (t : Ty) (n : Node), t.wf = true → noBoolSeries t = true → hasType t v = true →
    Rep h t v n → n.root h = htr h t v

theorem packedNodes_roots (h : HashFn) (bs : Bytes) :
    (packedNodes bs).map (Node.root h) = chunks bs :=
  ViewRoot.map_root_bytesIntoNodes h bs

theorem repList_roots (h : HashFn) (e : Ty) : ∀ (vs : List Val) (xs : List Node),
    (∀ v ∈ vs, RepRoot h v) → e.wf = true → noBoolSeries e = true → allHaveType e vs = true →
    RepList h e vs xs → xs.map (Node.root h) = htrList h e vs
  | [], [], _, _, _, _, _ => rfl
  | v :: vs, x :: xs, ih, hw, hnb, hall, hr => by
    simp only [RepList] at hr
    simp only [allHaveType, Bool.and_eq_true] at hall
    simp only [List.map_cons, htrList,
      ih v List.mem_cons_self e x hw hnb hall.1 hr.1,
      repList_roots h e vs xs (fun w hw' => ih w (List.mem_cons_of_mem _ hw')) hw hnb hall.2 hr.2]
  | [], _ :: _, _, _, _, _, hr => by simp only [RepList] at hr
  | _ :: _, [], _, _, _, _, hr => by simp only [RepList] at hr

theorem repFields_roots (h : HashFn) : ∀ (fs : List Ty) (vs : List Val) (xs : List Node),
    (∀ v ∈ vs, RepRoot h v) → Ty.wfAll fs = true → noBoolSeriesAll fs = true →
    fieldsHaveType fs vs = true → RepFields h fs vs xs → xs.map (Node.root h) = htrFields h fs vs
  | [], [], [], _, _, _, _, _ => rfl
  | t :: ts, v :: vs, x :: xs, ih, hw, hnb, hall, hr => by
    simp only [RepFields] at hr
    simp only [fieldsHaveType, Bool.and_eq_true] at hall
    simp only [Ty.wfAll, Bool.and_eq_true] at hw
    simp only [noBoolSeriesAll, Bool.and_eq_true] at hnb
    simp only [List.map_cons, htrFields,
      ih v List.mem_cons_self t x hw.1 hnb.1 hall.1 hr.1,
      repFields_roots h ts vs xs (fun w hw' => ih w (List.mem_cons_of_mem _ hw')) hw.2 hnb.2
        hall.2 hr.2]
  | [], [], _ :: _, _, _, _, _, hr => by simp only [RepFields] at hr
  | [], _ :: _, _, _, _, _, _, hr => by simp only [RepFields] at hr
  | _ :: _, [], _, _, _, _, _, hr => by simp only [RepFields] at hr
  | _ :: _, _ :: _, [], _, _, _, _, hr => by simp only [RepFields] at hr

theorem root_vector (h : HashFn) (e : Ty) (k : Nat) (vs : List Val) (n : Node)
    (ih : ∀ v ∈ vs, RepRoot h v) (hw : (Ty.vector e k).wf = true)
    (hnb : noBoolSeries (.vector e k) = true) (ht : hasType (.vector e k) (.seq vs) = true)
    (hr : Rep h (.vector e k) (.seq vs) n) : n.root h = htr h (.vector e k) (.seq vs) := by
  simp only [hasType, Bool.and_eq_true, beq_iff_eq] at ht
  simp only [Ty.wf, Bool.and_eq_true, decide_eq_true_eq] at hw
  simp only [noBoolSeries, Bool.and_eq_true, Bool.not_eq_true'] at hnb
  have hbe := ViewRoot.isBasic_eq_isBasicElem e hnb.1
  cases hb : isBasicElem e
  · simp only [Rep, hb, Bool.false_eq_true, if_false] at hr
    obtain ⟨_, xs, hrl, hs⟩ := hr
    rw [shape_root h hs, repList_roots h e vs xs ih hw.2 hnb.2 ht.2 hrl]
    simp only [htr, hbe, hb, Bool.false_eq_true, if_false]
  · obtain ⟨b, rfl⟩ := isBasicElem_uint hb
    simp only [Rep, isBasicElem, if_true] at hr
    rw [shape_root h hr.2, packedNodes_roots]
    simp only [htr, hbe, hb, if_true, ViewRoot.seriesDepth_uint b k hw.2, Ty.fixedSize]

theorem root_list (h : HashFn) (e : Ty) (lim : Nat) (vs : List Val) (n : Node)
    (ih : ∀ v ∈ vs, RepRoot h v) (hw : (Ty.list e lim).wf = true)
    (hnb : noBoolSeries (.list e lim) = true) (ht : hasType (.list e lim) (.seq vs) = true)
    (hr : Rep h (.list e lim) (.seq vs) n) : n.root h = htr h (.list e lim) (.seq vs) := by
  simp only [hasType, Bool.and_eq_true, decide_eq_true_eq] at ht
  simp only [Ty.wf] at hw
  simp only [noBoolSeries, Bool.and_eq_true, Bool.not_eq_true'] at hnb
  have hbe := ViewRoot.isBasic_eq_isBasicElem e hnb.1
  cases hb : isBasicElem e
  · simp only [Rep, hb, Bool.false_eq_true, if_false] at hr
    obtain ⟨_, xs, hrl, hs⟩ := hr
    rw [listShape_root h hs, repList_roots h e vs xs ih hw hnb.2 ht.2 hrl]
    simp only [htr, hbe, hb, Bool.false_eq_true, if_false]
  · obtain ⟨b, rfl⟩ := isBasicElem_uint hb
    simp only [Rep, isBasicElem, if_true] at hr
    rw [listShape_root h hr.2, packedNodes_roots]
    simp only [htr, hbe, hb, if_true, ViewRoot.seriesDepth_uint b lim hw, Ty.fixedSize]

theorem root_union (h : HashFn) (hasNone : Bool) (opts : List Ty) (sel : Nat) (v : Val) (n : Node)
    (ih : RepRoot h v) (hw : (Ty.union hasNone opts).wf = true)
    (hnb : noBoolSeries (.union hasNone opts) = true)
    (ht : hasType (.union hasNone opts) (.union sel v) = true)
    (hr : Rep h (.union hasNone opts) (.union sel v) n) :
    n.root h = htr h (.union hasNone opts) (.union sel v) := by
  simp only [hasType] at ht
  simp only [noBoolSeries] at hnb
  cases ho : unionOpt hasNone opts sel with
  | none =>
    simp only [ho, Bool.and_eq_true, beq_iff_eq] at ht
    obtain ⟨⟨_, hsel⟩, hv⟩ := ht
    subst hsel
    cases v <;> simp at hv
    obtain ⟨_, _, hn⟩ := rep_union_none.mp hr
    subst hn
    simp only [Node.root, htr, ho, mixin, ViewRoot.selector_chunk 0 (by omega)]
  | some t =>
    simp only [ho] at ht
    have hvn : v ≠ .none := by
      intro hv; subst hv; rw [View.hasType_none] at ht; cases ht
    obtain ⟨hmem, hlt⟩ := ViewRoot.unionOpt_some hasNone opts sel t ho
    simp only [Ty.wf, Bool.and_eq_true, decide_eq_true_eq] at hw
    have hs : sel < 256 := by omega
    obtain ⟨c, hrc, hn⟩ := (rep_union_some ho hvn).mp hr
    subst hn
    have hrec := ih t c (ViewRoot.wfAll_mem opts t hw.1.2 hmem)
      (ViewRoot.noBoolSeriesAll_mem opts t hnb hmem) ht hrc
    simp only [Node.root, htr, ho, mixin, ViewRoot.selector_chunk sel hs, hrec]

theorem repRoot_all (h : HashFn) : ∀ v, RepRoot h v := by
  intro v
  induction v using Val.induct with
  | num k =>
    intro t n hw hnb ht hr
    cases t <;> simp [hasType] at ht
    simp only [Rep] at hr
    subst hr
    simp only [Node.root, htr]
  | bool b =>
    intro t n hw hnb ht hr
    cases t <;> simp [hasType] at ht
    simp only [Rep] at hr
    subst hr
    simp only [Node.root, htr]
  | bytes bs =>
    intro t n hw hnb ht hr
    cases t <;> simp [hasType] at ht
    rename_i k
    simp only [Rep] at hr
    subst hr
    simp only [Ty.wf, Bool.and_eq_true, decide_eq_true_eq] at hw
    have hk : (k + 31) / 32 = 1 := by omega
    have hc : coverDepth 1 = 0 := by decide
    simp only [Node.root, htr, hk, hc, ViewRoot.chunks_single bs (by omega) (by omega), merk,
      List.headD]
  | bits bs =>
    intro t n hw hnb ht hr
    cases t <;> try (simp [hasType] at ht; done)
    · simp only [Rep] at hr
      rw [shape_root h hr.2, packedNodes_roots]
      simp only [htr, bitDepth]
    · simp only [Rep] at hr
      rw [listShape_root h hr.2, packedNodes_roots]
      simp only [htr, bitDepth]
  | seq vs ih =>
    intro t n hw hnb ht hr
    cases t <;> try (simp [hasType] at ht; done)
    · exact root_vector h _ _ vs n ih hw hnb ht hr
    · exact root_list h _ _ vs n ih hw hnb ht hr
    · rename_i fs
      simp only [Rep] at hr
      obtain ⟨xs, hrf, hs⟩ := hr
      simp only [hasType] at ht
      simp only [Ty.wf, Bool.and_eq_true] at hw
      simp only [noBoolSeries] at hnb
      rw [shape_root h hs, repFields_roots h fs vs xs ih hw.2 hnb ht hrf]
      simp only [htr]
  | none =>
    intro t n hw hnb ht hr
    rw [View.hasType_none] at ht; cases ht
  | union sel v ih =>
    intro t n hw hnb ht hr
    cases t <;> try (simp [hasType] at ht; done)
    exact root_union h _ _ sel v n ih hw hnb ht hr

/-- 3. the Merkle root of a `Rep` backing is the SSZ-spec `hash_tree_root` -/
theorem rep_root (h : HashFn) {t : Ty} {v : Val} {n : Node} (hwf : t.wf = true)
    (hnb : noBoolSeries t = true) (hty : hasType t v = true) (hr : Rep h t v n) :
    n.root h = htr h t v :=
  repRoot_all h v t n hwf hnb hty hr

end ZtypV
