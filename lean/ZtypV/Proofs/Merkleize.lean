/-
Proof that the streaming `Mk.merkleize` (model of `tree.Merkleize`) computes the SSZ-spec
root `merk`: binary-counter invariant over the scratch array, zero-padding carry of the final
`merge(count)`, limit-depth extension loop.  Core Lean only.
-/
import ZtypV.Model.Merkleize
import ZtypV.Spec
namespace ZtypV.Mk
open ZtypV

/-! ### padded complete tree in function form -/

/-- root of the complete height-`j` subtree number `k` over the `n` leaves `L`, zero padded -/
def node (h : HashFn) (n : Nat) (L : Nat → Root) : Nat → Nat → Root
  | 0, k => if k < n then L k else z0
  | j+1, k => h (node h n L j (2*k)) (node h n L j (2*k+1))

theorem node_zero_region (h : HashFn) (n : Nat) (L : Nat → Root) :
    ∀ j k, n ≤ k * 2^j → node h n L j k = zh h j := by
  intro j
  induction j with
  | zero => intro k hk; simp [node, zh]; omega
  | succ j ih =>
    intro k hk
    have h1 : n ≤ (2*k) * 2^j := by
      rw [Nat.pow_succ] at hk; rw [Nat.mul_comm 2 k, Nat.mul_assoc]
      rw [Nat.mul_comm (2^j) 2] at hk; exact hk
    have h2 : n ≤ (2*k+1) * 2^j := by
      have : (2*k) * 2^j ≤ (2*k+1) * 2^j := Nat.mul_le_mul_right _ (by omega)
      omega
    simp [node, zh, ih _ h1, ih _ h2]

/-! ### machine-integer bit test -/

theorem and_two_pow_eq_zero_iff (i j : Nat) : (i &&& 2^j = 0) ↔ i / 2^j % 2 = 0 := by
  have ht : i.testBit j = decide (i / 2^j % 2 = 1) := Nat.testBit_eq_decide_div_mod_eq
  constructor
  · intro h0
    have : (i &&& 2^j).testBit j = false := by rw [h0]; simp
    rw [Nat.testBit_and, Nat.testBit_two_pow_self, Bool.and_true, ht] at this
    have : ¬ (i / 2^j % 2 = 1) := by simpa using this
    omega
  · intro h0
    apply Nat.eq_of_testBit_eq
    intro k
    rw [Nat.testBit_and, Nat.testBit_two_pow, Nat.zero_testBit]
    by_cases hk : j = k
    · subst hk; rw [ht]; simp; omega
    · simp [hk]

/-- Go's `i & (uint64(1) << j) == 0` tests bit `j` of `i` (and is true for `j ≥ 64`) -/
theorem and_shl1_eq_zero_iff (i j : Nat) (hi : i < 2^64) :
    (i &&& shl1 j = 0) ↔ i / 2^j % 2 = 0 := by
  unfold shl1
  split
  · exact and_two_pow_eq_zero_iff i j
  · rename_i hj
    have : (2:Nat)^64 ≤ 2^j := Nat.pow_le_pow_right (by omega) (by omega)
    rw [Nat.div_eq_of_lt (by omega)]
    simp

/-! ### loop invariant -/

/-- invariant of the scratch array after `i` leaves: every set bit `j` of `i` holds the root
    of the complete height-`j` subtree ending at `i` -/
def Inv (h : HashFn) (n : Nat) (L : Nat → Root) (sz : Nat) (i : Nat) (tmp : Array Root) : Prop :=
  tmp.size = sz ∧ ∀ j, i / 2^j % 2 = 1 → tmp[j]? = some (node h n L j (i / 2^j - 1))

theorem shift_succ (i j : Nat) : i / 2^(j+1) = i / 2^j / 2 := by
  rw [Nat.pow_succ, Nat.div_div_eq_div_mul]

/-- where the loop stops: a clear bit that is not a zero-padding level -/
def Stop (n depth i k : Nat) : Prop := i / 2^k % 2 = 0 ∧ ¬ (i = n ∧ k < depth)

/-- The carry chain: started at level `j` with `hArr = node j (i>>j)` and enough fuel, the loop
    does not panic, ends at the first stopping level `j' ≥ j`, with `node j' (i>>j')`. -/
theorem mergeLoop_run (h : HashFn) (n depth sz : Nat) (L : Nat → Root) (tmp : Array Root) (i : Nat)
    (hinv : Inv h n L sz i tmp) (_hi : i ≤ n) (hi64 : i < 2^64) (hd : depth ≤ 64) :
    ∀ fuel j hArr, hArr = node h n L j (i / 2^j) → i < 2^(j+fuel) → depth ≤ j + fuel →
      ∃ j' r, mergeLoop h n depth tmp i (fuel+1) j hArr = some (j', r) ∧
        r = node h n L j' (i / 2^j') ∧ j ≤ j' ∧ Stop n depth i j' ∧
        ∀ k, j ≤ k → k < j' → ¬ Stop n depth i k := by
  intro fuel
  induction fuel with
  | zero =>
    intro j hArr hh hlt hdj
    have hb : i / 2^j % 2 = 0 := by
      rw [Nat.add_zero] at hlt; rw [Nat.div_eq_of_lt hlt]
    have hc : ¬ (i = n ∧ j < depth) := by omega
    refine ⟨j, hArr, ?_, hh, Nat.le_refl _, ⟨hb, hc⟩, by intro k h1 h2; omega⟩
    unfold mergeLoop
    rw [if_pos ((and_shl1_eq_zero_iff i j hi64).mpr hb), if_neg hc]
  | succ fuel ih =>
    intro j hArr hh hlt hdj
    unfold mergeLoop
    by_cases hb : i / 2^j % 2 = 0
    · rw [if_pos ((and_shl1_eq_zero_iff i j hi64).mpr hb)]
      by_cases hc : i = n ∧ j < depth
      · rw [if_pos hc, if_pos (by omega)]
        have key : h hArr (zh h j) = node h n L (j+1) (i / 2^(j+1)) := by
          rw [shift_succ]
          have he : i / 2^j = 2 * (i / 2^j / 2) := by omega
          simp only [node]
          rw [← he, ← hh]
          congr 1
          symm
          apply node_zero_region
          have : i < (i / 2^j + 1) * 2^j := by
            have := Nat.lt_succ_iff.mpr (Nat.le_refl (i / 2^j))
            exact (Nat.div_lt_iff_lt_mul (Nat.two_pow_pos j)).mp this
          omega
        obtain ⟨j', r, e, hr, hle, hst, hbelow⟩ := ih (j+1) _ key
          (by rw [Nat.add_assoc, Nat.add_comm 1 fuel]; exact hlt) (by omega)
        refine ⟨j', r, e, hr, by omega, hst, ?_⟩
        intro k h1 h2
        by_cases hk : k = j
        · subst hk; intro hs; exact hs.2 hc
        · exact hbelow k (by omega) h2
      · rw [if_neg hc]
        exact ⟨j, hArr, rfl, hh, Nat.le_refl _, ⟨hb, hc⟩, by intro k h1 h2; omega⟩
    · have hb1 : i / 2^j % 2 = 1 := by omega
      rw [if_neg (fun hz => hb ((and_shl1_eq_zero_iff i j hi64).mp hz))]
      rw [hinv.2 j hb1]
      simp only
      have key : h (node h n L j (i / 2^j - 1)) hArr = node h n L (j+1) (i / 2^(j+1)) := by
        rw [shift_succ, hh]
        have he : i / 2^j = 2 * (i / 2^j / 2) + 1 := by omega
        simp only [node]
        congr 1
        · congr 1; omega
        · congr 1
      obtain ⟨j', r, e, hr, hle, hst, hbelow⟩ := ih (j+1) _ key
        (by rw [Nat.add_assoc, Nat.add_comm 1 fuel]; exact hlt) (by omega)
      refine ⟨j', r, e, hr, by omega, hst, ?_⟩
      intro k h1 h2
      by_cases hk : k = j
      · subst hk; intro hs; exact hb hs.1
      · exact hbelow k (by omega) h2

/-- the `uint8` loop variable: the loop of `merge(i)` always ends at some level `j' ≤ 64`
    (so neither the fuel of the model nor the `uint8` range is ever exhausted, and
    `uint64(1) << j` is only evaluated for `j ≤ 64`) -/
theorem mergeLoop_j_le_64 (h : HashFn) (n depth sz : Nat) (L : Nat → Root) (tmp : Array Root) (i : Nat)
    (hinv : Inv h n L sz i tmp) (hi : i ≤ n) (hi64 : i < 2^64) (hd : depth ≤ 64) (hArr : Root)
    (hh : hArr = node h n L 0 (i / 2^0)) :
    ∃ j' r, mergeLoop h n depth tmp i 66 0 hArr = some (j', r) ∧ j' ≤ 64 := by
  have h65 : (2:Nat)^64 ≤ 2^(0+65) := Nat.pow_le_pow_right (by omega) (by omega)
  obtain ⟨j', r, e, _, _, _, hbelow⟩ :=
    mergeLoop_run h n depth sz L tmp i hinv hi hi64 hd 65 0 hArr hh (by omega) (by omega)
  refine ⟨j', r, e, ?_⟩
  apply Classical.byContradiction
  intro hgt
  have hs : Stop n depth i 64 := ⟨by rw [Nat.div_eq_of_lt hi64], by omega⟩
  exact hbelow 64 (by omega) (by omega) hs

/-- all bits below j0 set -/
theorem lowbits (i : Nat) : ∀ j0, (∀ k, k < j0 → i / 2^k % 2 = 1) → i % 2^j0 = 2^j0 - 1 := by
  intro j0
  induction j0 with
  | zero => intro _; simp [Nat.mod_one]
  | succ j0 ih =>
    intro hk
    have h1 := ih (fun k hk' => hk k (by omega))
    have h2 := hk j0 (by omega)
    have hpos : 0 < 2^j0 := Nat.two_pow_pos j0
    have : i % 2^(j0+1) = i % 2^j0 + 2^j0 * (i / 2^j0 % 2) := by
      rw [Nat.pow_succ, Nat.mod_mul]
    rw [this, h1, h2, Nat.pow_succ]
    omega

theorem succ_eq_of_lowbits (i j0 : Nat) (hlow : ∀ k, k < j0 → i / 2^k % 2 = 1) :
    i + 1 = (i / 2^j0 + 1) * 2^j0 := by
  have h1 := lowbits i j0 hlow
  have h2 := Nat.div_add_mod i (2^j0)
  have hpos : 0 < 2^j0 := Nat.two_pow_pos j0
  rw [Nat.add_mul, Nat.one_mul, Nat.mul_comm]
  omega

theorem div_pow_split (a j0 d : Nat) : a / 2^(j0+d) = a / 2^j0 / 2^d := by
  rw [Nat.pow_add, Nat.div_div_eq_div_mul]

theorem even_succ_div_pow (q d : Nat) (hq : q % 2 = 0) (hd : 1 ≤ d) : (q+1) / 2^d = q / 2^d := by
  obtain ⟨d', rfl⟩ : ∃ d', d = 1 + d' := ⟨d - 1, by omega⟩
  rw [div_pow_split, div_pow_split]
  have : (q+1) / 2^1 = q / 2^1 := by simp; omega
  rw [this]

theorem coverDepth_le_iff (v d : Nat) : coverDepth v ≤ d ↔ v ≤ 2^d := by
  unfold coverDepth
  split
  · rename_i hv
    have : 0 < 2^d := Nat.two_pow_pos d
    constructor <;> intro _ <;> omega
  · rename_i hv
    have hne : v - 1 ≠ 0 := by omega
    have := Nat.log2_lt (n := v - 1) (k := d) hne
    constructor
    · intro hh
      have : (v-1).log2 < d := by omega
      have := (Nat.log2_lt hne).mp this
      omega
    · intro hh
      have : v - 1 < 2^d := by omega
      have := (Nat.log2_lt hne).mpr this
      omega

theorem le_pow_coverDepth (v : Nat) : v ≤ 2^(coverDepth v) :=
  (coverDepth_le_iff v _).mp (Nat.le_refl _)

theorem coverDepth_mono {a b : Nat} (hab : a ≤ b) : coverDepth a ≤ coverDepth b :=
  (coverDepth_le_iff a _).mpr (Nat.le_trans hab (le_pow_coverDepth b))

/-- a set bit `j` of a number `≤ 2^d` has `j ≤ d` -/
theorem bit_le_of_le_pow (m j d : Nat) (hm : m ≤ 2^d) (hb : m / 2^j % 2 = 1) : j ≤ d := by
  apply Classical.byContradiction
  intro hn
  have : (2:Nat)^d < 2^j := (Nat.pow_lt_pow_iff_right (by omega)).mpr (by omega)
  rw [Nat.div_eq_of_lt (by omega)] at hb
  omega

/-- one leaf merged: the invariant moves from i to i+1 (and the merge does not panic) -/
theorem inv_step (h : HashFn) (n depth ld : Nat) (L : Nat → Root) (tmp : Array Root) (i : Nat)
    (hinv : Inv h n L (ld+1) i tmp) (hi : i < n) (hn64 : n < 2^64) (hd : depth ≤ 64)
    (hnld : n ≤ 2^ld) :
    ∃ tmp', merge h n depth tmp i (L i) = some tmp' ∧ Inv h n L (ld+1) (i+1) tmp' := by
  have hstart : L i = node h n L 0 (i / 2^0) := by simp [node, hi]
  have hi64 : i < 2^64 := by omega
  have h65 : (2:Nat)^64 ≤ 2^(0+65) := Nat.pow_le_pow_right (by omega) (by omega)
  obtain ⟨j0, r, e, hr, _, ⟨hclear, _⟩, hbelow⟩ :=
    mergeLoop_run h n depth (ld+1) L tmp i hinv (Nat.le_of_lt hi) hi64 hd 65 0 (L i) hstart
      (by omega) (by omega)
  have hne : i ≠ n := by omega
  have hlow : ∀ k, k < j0 → i / 2^k % 2 = 1 := by
    intro k hk
    have := hbelow k (by omega) hk
    unfold Stop at this
    have h2 : ¬ (i = n ∧ k < depth) := fun hh => hne hh.1
    have : ¬ (i / 2^k % 2 = 0) := fun h0 => this ⟨h0, h2⟩
    omega
  have hsucc := succ_eq_of_lowbits i j0 hlow
  have hpos : 0 < 2^j0 := Nat.two_pow_pos j0
  have hdivj0 : (i+1) / 2^j0 = i / 2^j0 + 1 := by
    rw [hsucc, Nat.mul_div_cancel _ hpos]
  have hbitj0 : (i+1) / 2^j0 % 2 = 1 := by rw [hdivj0]; omega
  have hj0ld : j0 ≤ ld := bit_le_of_le_pow (i+1) j0 ld (by omega) hbitj0
  have hj0sz : j0 < tmp.size := by rw [hinv.1]; omega
  refine ⟨tmp.setIfInBounds j0 r, ?_, ?_, ?_⟩
  · unfold merge; rw [e]; simp only; rw [if_pos hj0sz]
  · rw [Array.size_setIfInBounds]; exact hinv.1
  intro j hj
  rw [Array.getElem?_setIfInBounds]
  by_cases hjj : j0 = j
  · subst hjj
    rw [if_pos rfl, if_pos hj0sz, hr, hdivj0]; simp
  · rw [if_neg hjj]
    by_cases hlt : j < j0
    · exfalso
      obtain ⟨d, rfl⟩ : ∃ d, j0 = j + d := ⟨j0 - j, by omega⟩
      have hd1 : 1 ≤ d := by omega
      rw [hsucc, Nat.pow_add, Nat.mul_comm (2^j) (2^d), ← Nat.mul_assoc,
          Nat.mul_div_cancel _ (Nat.two_pow_pos j)] at hj
      obtain ⟨d', rfl⟩ : ∃ d', d = d' + 1 := ⟨d - 1, by omega⟩
      rw [Nat.pow_succ, ← Nat.mul_assoc, Nat.mul_mod_left] at hj
      omega
    · obtain ⟨d, rfl⟩ : ∃ d, j = j0 + d := ⟨j - j0, by omega⟩
      have hd1 : 1 ≤ d := by omega
      have e1 : (i+1) / 2^(j0+d) = i / 2^(j0+d) := by
        rw [div_pow_split, div_pow_split, hdivj0, even_succ_div_pow _ _ hclear hd1]
      rw [e1] at hj ⊢
      exact hinv.2 _ hj

theorem inv_zero (h : HashFn) (n : Nat) (L : Nat → Root) (tmp : Array Root) :
    Inv h n L tmp.size 0 tmp := by
  refine ⟨rfl, ?_⟩
  intro j hj; simp at hj

/-- the leaf loop `for i := 0; i < count; i++ { hArr = leaf(i); merge(i) }` -/
theorem inv_fold (h : HashFn) (n depth ld : Nat) (L : Nat → Root) (leaf : Nat → Option Root)
    (hleaf : ∀ i, i < n → leaf i = some (L i)) (tmp0 : Array Root) (hsz : tmp0.size = ld + 1)
    (hn : n < 2^64) (hd : depth ≤ 64) (hnld : n ≤ 2^ld) :
    ∀ m, m ≤ n → ∃ tmp',
      (List.range m).foldlM (fun tmp i => do let r ← leaf i; merge h n depth tmp i r) tmp0 = some tmp'
      ∧ Inv h n L (ld+1) m tmp' := by
  intro m
  induction m with
  | zero => intro _; exact ⟨tmp0, rfl, hsz ▸ inv_zero h n L tmp0⟩
  | succ m ih =>
    intro hm
    obtain ⟨tmp1, e1, hinv1⟩ := ih (by omega)
    obtain ⟨tmp2, e2, hinv2⟩ := inv_step h n depth ld L tmp1 m hinv1 (by omega) hn hd hnld
    refine ⟨tmp2, ?_, hinv2⟩
    rw [List.range_succ, List.foldlM_append, e1]
    simp only [Option.bind_eq_bind, Option.bind_some, List.foldlM_cons, List.foldlM_nil]
    rw [hleaf m (by omega)]
    simp only [Option.bind_some, e2]
    rfl

/-- the final zero-padding merge lands exactly on level `depth` with the root of the padded tree -/
theorem final_merge (h : HashFn) (n ld : Nat) (L : Nat → Root) (tmp : Array Root)
    (hinv : Inv h n L (ld+1) n tmp) (hn : n < 2^64) (hnld : n ≤ 2^ld)
    (hne : 2^(coverDepth n) ≠ n) :
    ∃ tmp', merge h n (coverDepth n) tmp n (zh h 0) = some tmp' ∧ tmp'.size = ld + 1 ∧
      tmp'[coverDepth n]? = some (node h n L (coverDepth n) 0) := by
  have hd64 : coverDepth n ≤ 64 := (coverDepth_le_iff _ _).mpr (by omega)
  have hstart : zh h 0 = node h n L 0 (n / 2^0) := by simp [node, zh]
  have h65 : (2:Nat)^64 ≤ 2^(0+65) := Nat.pow_le_pow_right (by omega) (by omega)
  obtain ⟨j0, r, e, hr, _, hst, hbelow⟩ :=
    mergeLoop_run h n (coverDepth n) (ld+1) L tmp n hinv (Nat.le_refl _) hn hd64 65 0 _ hstart
      (by omega) (by omega)
  have hle := le_pow_coverDepth n
  have hlt : n < 2^(coverDepth n) := by omega
  have hstopd : Stop n (coverDepth n) n (coverDepth n) := by
    refine ⟨?_, by omega⟩
    rw [Nat.div_eq_of_lt hlt]
  have hj0 : j0 = coverDepth n := by
    have h1 : ¬ (j0 < coverDepth n) := fun hh => hst.2 ⟨rfl, hh⟩
    have h2 : ¬ (coverDepth n < j0) := fun hh => hbelow _ (by omega) hh hstopd
    omega
  subst hj0
  have hcd : coverDepth n ≤ ld := (coverDepth_le_iff _ _).mpr hnld
  have hsz : coverDepth n < tmp.size := by rw [hinv.1]; omega
  refine ⟨tmp.setIfInBounds (coverDepth n) r, ?_, ?_, ?_⟩
  · unfold merge; rw [e]; simp only; rw [if_pos hsz]
  · rw [Array.size_setIfInBounds]; exact hinv.1
  · rw [Array.getElem?_setIfInBounds, if_pos rfl, if_pos hsz, hr, Nat.div_eq_of_lt hlt]

/-- the extension loop `for j := depth; j < limitDepth; j++ { tmp[j+1] = hasher(tmp[j], ZeroHashes[j]) }` -/
theorem extend_spec (h : HashFn) (n : Nat) (L : Nat → Root) (depth sz : Nat) (hnd : n ≤ 2^depth) :
    ∀ m (tmp : Array Root), tmp.size = sz → depth + m < sz → depth + m ≤ 64 →
      tmp[depth]? = some (node h n L depth 0) →
      ∃ tmp', (List.range m).foldlM (extendStep h depth) tmp = some tmp' ∧ tmp'.size = sz ∧
        tmp'[depth + m]? = some (node h n L (depth + m) 0) := by
  intro m
  induction m with
  | zero => intro tmp hs _ _ ht; exact ⟨tmp, rfl, hs, by simpa using ht⟩
  | succ m ih =>
    intro tmp hs hsz h64 ht
    obtain ⟨tmp1, e1, hs1, ht1⟩ := ih tmp hs (by omega) (by omega) ht
    refine ⟨tmp1.setIfInBounds (depth + m + 1) (h (node h n L (depth+m) 0) (zh h (depth+m))), ?_, ?_, ?_⟩
    · rw [List.range_succ, List.foldlM_append, e1]
      simp only [Option.bind_eq_bind, Option.bind_some, List.foldlM_cons, List.foldlM_nil]
      unfold extendStep
      simp only [ht1]
      rw [if_pos ⟨by omega, by omega⟩]
      rfl
    · rw [Array.size_setIfInBounds]; exact hs1
    · have e : depth + (m+1) = depth + m + 1 := by omega
      rw [e, Array.getElem?_setIfInBounds, if_pos rfl, if_pos (by omega)]
      simp only [node]
      congr 2
      symm
      apply node_zero_region
      have : 2^depth ≤ 2^(depth+m) := Nat.pow_le_pow_right (by omega) (by omega)
      omega

theorem shl1_ne_iff (n : Nat) (hn : n < 2^64) (hd : coverDepth n ≤ 64) :
    shl1 (coverDepth n) ≠ n ↔ 2^(coverDepth n) ≠ n := by
  unfold shl1
  split
  · exact Iff.rfl
  · rename_i hlt
    have h64 : coverDepth n = 64 := by omega
    rw [h64]
    have hn0 : n ≠ 0 := by
      intro h0; subst h0; simp [coverDepth] at h64
    constructor <;> intro _ <;> omega

/-- the streaming routine returns the root of the padded complete tree of height `coverDepth limit` -/
theorem merkleize_node (h : HashFn) (count limit : Nat) (leaf : Nat → Option Root) (L : Nat → Root)
    (hleaf : ∀ i, i < count → leaf i = some (L i))
    (hcl : count ≤ limit) (h2 : 2 ≤ limit) (hlim : limit < 2^64) :
    merkleize h count limit leaf = some (node h count L (coverDepth limit) 0) := by
  unfold merkleize
  have hc : ¬ (count > limit) := by omega
  simp only [hc, if_false]
  have h0 : ¬ (limit = 0) := by omega
  have h1 : ¬ (limit = 1) := by omega
  simp only [h0, h1, if_false]
  have hcnt : count < 2^64 := by omega
  have hd64 : coverDepth count ≤ 64 := (coverDepth_le_iff _ _).mpr (by omega)
  have hl64 : coverDepth limit ≤ 64 := (coverDepth_le_iff _ _).mpr (by omega)
  have hcld : count ≤ 2^(coverDepth limit) := Nat.le_trans hcl (le_pow_coverDepth limit)
  obtain ⟨tmp1, e1, hinv1⟩ := inv_fold h count (coverDepth count) (coverDepth limit) L leaf hleaf
    (Array.replicate (coverDepth limit + 1) z0) (by simp) hcnt hd64 hcld count (Nat.le_refl _)
  have hmono := coverDepth_mono hcl
  obtain ⟨m, hm⟩ : ∃ m, coverDepth limit = coverDepth count + m :=
    ⟨coverDepth limit - coverDepth count, by omega⟩
  have hsub : coverDepth limit - coverDepth count = m := by omega
  rw [e1]
  simp only [Option.bind_eq_bind, Option.bind_some]
  -- state after the optional final merge
  have hmid : ∃ tmp2, padMerge h count (coverDepth count) tmp1 = some tmp2 ∧
      tmp2.size = coverDepth limit + 1 ∧
      tmp2[coverDepth count]? = some (node h count L (coverDepth count) 0) := by
    unfold padMerge
    by_cases hne : 2^(coverDepth count) ≠ count
    · rw [if_pos ((shl1_ne_iff count hcnt hd64).mpr hne)]
      exact final_merge h count (coverDepth limit) L tmp1 hinv1 hcnt hcld hne
    · rw [if_neg (fun hx => hne ((shl1_ne_iff count hcnt hd64).mp hx))]
      have heq' : 2^(coverDepth count) = count := Classical.not_not.mp hne
      have hb : count / 2^(coverDepth count) % 2 = 1 := by
        rw [heq', Nat.div_self (by rw [← heq']; exact Nat.two_pow_pos _)]
      refine ⟨tmp1, rfl, hinv1.1, ?_⟩
      have := hinv1.2 _ hb
      rw [this, heq', Nat.div_self (by rw [← heq']; exact Nat.two_pow_pos _)]
  obtain ⟨tmp2, e2, hs2, ht2⟩ := hmid
  rw [e2]
  simp only [Option.bind_some]
  obtain ⟨tmp3, e3, hs3, ht3⟩ := extend_spec h count L (coverDepth count) (coverDepth limit + 1)
    (le_pow_coverDepth count) m tmp2 hs2 (by omega) (by omega) ht2
  rw [hsub, e3]
  simp only [Option.bind_some]
  rw [hm]; exact ht3

/-! ### list form of the spec -/

/-- the padded-complete-tree spec (function form) equals the list form `merk` -/
theorem node_eq_merk (h : HashFn) (n : Nat) (L : Nat → Root) :
    ∀ j k, node h n L j k =
      merk h j ((((List.range n).map L).drop (k * 2^j)).take (2^j)) := by
  intro j
  induction j with
  | zero =>
    intro k
    simp only [node, merk, Nat.pow_zero, Nat.mul_one]
    by_cases hk : k < n
    · have hlen : k < ((List.range n).map L).length := by simpa using hk
      rw [List.drop_eq_getElem_cons hlen]
      simp [hk]
    · have : ((List.range n).map L).length ≤ k := by simp; omega
      rw [List.drop_of_length_le this]; simp [hk]
  | succ j ih =>
    intro k
    generalize hxs : (List.range n).map L = xs
    have e1 : 2 * k * 2^j = k * 2^(j+1) := by
      rw [Nat.pow_succ, Nat.mul_comm 2 k, Nat.mul_assoc, Nat.mul_comm 2 (2^j)]
    have e2 : (2 * k + 1) * 2^j = k * 2^(j+1) + 2^j := by rw [Nat.add_mul, e1]; simp
    have e3 : (2:Nat)^(j+1) = 2^j + 2^j := by rw [Nat.pow_succ]; omega
    have A : ((xs.drop (k * 2^(j+1))).take (2^(j+1))).take (2^j) = (xs.drop (2*k*2^j)).take (2^j) := by
      rw [List.take_take, e1]
      congr 1
      rw [e3]; exact Nat.min_eq_left (Nat.le_add_right _ _)
    have B : ((xs.drop (k * 2^(j+1))).take (2^(j+1))).drop (2^j) = (xs.drop ((2*k+1)*2^j)).take (2^j) := by
      rw [List.drop_take, List.drop_drop, e2]
      congr 1
      rw [e3]; exact Nat.add_sub_cancel _ _
    simp only [node, merk]
    rw [ih, ih, hxs, A, B]

/-- `tree.Merkleize` = SSZ `merkleize(chunks, limit)`, all limits including 0 and 1 -/
theorem merkleize_spec (h : HashFn) (count limit : Nat) (leaf : Nat → Option Root) (L : Nat → Root)
    (hleaf : ∀ i, i < count → leaf i = some (L i))
    (hcl : count ≤ limit) (hlim : limit < 2^64) :
    merkleize h count limit leaf = some (merk h (coverDepth limit) ((List.range count).map L)) := by
  by_cases h2 : 2 ≤ limit
  · rw [merkleize_node h count limit leaf L hleaf hcl h2 hlim, node_eq_merk]
    simp only [Nat.zero_mul, List.drop_zero]
    congr 2
    apply List.take_of_length_le
    simp
    exact Nat.le_trans hcl (le_pow_coverDepth limit)
  · unfold merkleize
    have hc : ¬ (count > limit) := by omega
    simp only [hc, if_false]
    by_cases h0 : limit = 0
    · subst h0
      have : count = 0 := by omega
      subst this
      simp [coverDepth, merk]
    · have h1 : limit = 1 := by omega
      subst h1
      simp only [h0, if_false, if_true]
      by_cases hc1 : count = 1
      · subst hc1
        rw [if_pos rfl, hleaf 0 (by omega)]
        simp [coverDepth, merk, List.range_succ]
      · have : count = 0 := by omega
        subst this
        simp [coverDepth, merk]

end ZtypV.Mk
