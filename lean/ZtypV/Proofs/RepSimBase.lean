/-
C04 "typed mutations behave like a plain value model" — vocabulary of the simulation proof:

* `TyGood t`   the per-type side condition (well-formed, in the supported depth range, no
               `Vector/List` of `boolean` (finding D3)), and its inheritance by element / field /
               option types; `TySmall t` (every encoding shorter than 2^32 bytes) likewise;
* `Sim h ms vs` the simulation relation between the object machine's store (`stepM`) and the
               value machine's store (`stepV`) of Model/Sim.lean;
* `OpOk ms op` what the harness guarantees about the arguments of an operation;
* `runM` / `runV` / `OpsOk`  whole histories.

Definitions and type-level lemmas only; the propagation lemma is in Proofs/RepSimProp.lean and
the per-operation step lemmas in Proofs/RepSim.lean.
-/
import ZtypV.Proofs.RepMut
import ZtypV.Proofs.RepView
import ZtypV.Proofs.Sizes
namespace ZtypV
open ZtypV.View ZtypV.Sim

/-! ### the per-type side condition -/

/-- a type on which the view layer agrees with the spec on every read and mutation:
    well-formed, navigable (`inRange`: depths < 64, limits < 2^64), and no `Vector/List` of
    `boolean` anywhere inside (finding D3: their `hash_tree_root` differs).
    The fourth condition one might expect, `t.maxSize < 2^32` (`Serialize` panics when an offset
    does not fit `uint32`), is NOT part of it: the harness uses limits up to 2^40, so it is asked
    per observation instead (`ObsOk`, implied by `TySmall`). -/
def TyGood (t : Ty) : Prop :=
  t.wf = true ∧ inRange t = true ∧ noBoolSeries t = true

instance (t : Ty) : Decidable (TyGood t) := by unfold TyGood; exact inferInstance

/-- every value of the type has an encoding shorter than `2^32` bytes (`C15_sound`) -/
def TySmall (t : Ty) : Prop := t.maxSize < 2 ^ 32

instance (t : Ty) : Decidable (TySmall t) := by unfold TySmall; exact inferInstance

theorem TyGood.wf {t : Ty} (h : TyGood t) : t.wf = true := h.1
theorem TyGood.inRange {t : Ty} (h : TyGood t) : inRange t = true := h.2.1
theorem TyGood.noBool {t : Ty} (h : TyGood t) : noBoolSeries t = true := h.2.2
theorem TyGood.depthOk {t : Ty} (h : TyGood t) : DepthOk t := depthOk_of_inRange t h.inRange

/-- every typed value of a small type has an encoding shorter than `2^32` bytes -/
theorem TySmall.serLt {t : Ty} (h : TySmall t) {v : Val} (hv : hasType t v = true) :
    (serialize t v).length < 2 ^ 32 :=
  Nat.lt_of_le_of_lt (Sizes.ser_bounds t v hv).2 h

theorem tyGood_basic_bool : TyGood .bool := by decide

namespace RepSim

theorem noBoolSeriesAll_get (ts : List Ty) (k : Nat) (t : Ty) (h : noBoolSeriesAll ts = true)
    (hk : ts[k]? = some t) : noBoolSeries t = true :=
  ViewRoot.noBoolSeriesAll_mem ts t h (List.mem_of_getElem? hk)

theorem maxFields_get : ∀ (ts : List Ty) (k : Nat) (t : Ty), ts[k]? = some t →
    t.maxSize ≤ Ty.maxFields ts := by
  intro ts
  induction ts with
  | nil => intro k t h; simp at h
  | cons a ts ih =>
    intro k t h
    cases k with
    | zero =>
      simp only [List.getElem?_cons_zero, Option.some.injEq] at h
      subst h
      rw [Ty.maxFields]
      by_cases hf : a.isFixed = true
      · have := (Sizes.fixed_min_max a hf).2
        simp only [hf, if_true]; omega
      · simp only [hf]; simp only [Bool.false_eq_true, if_false]; omega
    | succ k =>
      have := ih k t (by simpa using h)
      rw [Ty.maxFields]; omega

theorem maxOpts_mem : ∀ (ts : List Ty) (t : Ty), t ∈ ts → t.maxSize ≤ Ty.maxOpts ts := by
  intro ts
  induction ts with
  | nil => intro t h; cases h
  | cons a ts ih =>
    intro t h
    rw [Ty.maxOpts]
    rcases List.mem_cons.mp h with rfl | h'
    · exact Nat.le_max_left _ _
    · exact Nat.le_trans (ih t h') (Nat.le_max_right _ _)

/-- size bound of the element type of a series with room for at least one element -/
theorem elem_maxSize (e : Ty) (n : Nat) (hn : 0 < n) :
    e.maxSize ≤ (if e.isFixed then n * e.fixedSize else n * (4 + e.maxSize)) := by
  by_cases hf : e.isFixed = true
  · have := (Sizes.fixed_min_max e hf).2
    simp only [hf, if_true]
    rw [this]
    exact Nat.le_mul_of_pos_left _ hn
  · simp only [hf]; simp only [Bool.false_eq_true, if_false]
    calc e.maxSize ≤ 4 + e.maxSize := by omega
      _ ≤ n * (4 + e.maxSize) := Nat.le_mul_of_pos_left _ hn

end RepSim

open RepSim

/-! ### inheritance: element / field / option types of a good type are good -/

theorem TyGood.vector_elem {e : Ty} {k : Nat} (h : TyGood (.vector e k)) : TyGood e := by
  obtain ⟨hw, hr, hn⟩ := h
  simp only [Ty.wf, Bool.and_eq_true, decide_eq_true_eq] at hw
  simp only [View.inRange, Bool.and_eq_true] at hr
  simp only [noBoolSeries, Bool.and_eq_true] at hn
  exact ⟨hw.2, hr.2, hn.2⟩

theorem TyGood.list_elem {e : Ty} {lim : Nat} (h : TyGood (.list e lim)) : TyGood e := by
  obtain ⟨hw, hr, hn⟩ := h
  simp only [Ty.wf] at hw
  simp only [View.inRange, Bool.and_eq_true] at hr
  simp only [noBoolSeries, Bool.and_eq_true] at hn
  exact ⟨hw, hr.2, hn.2⟩

theorem TyGood.field {fs : List Ty} {i : Nat} {ft : Ty} (h : TyGood (.container fs))
    (hi : fs[i]? = some ft) : TyGood ft := by
  obtain ⟨hw, hr, hn⟩ := h
  simp only [Ty.wf, Bool.and_eq_true] at hw
  simp only [View.inRange, Bool.and_eq_true] at hr
  simp only [noBoolSeries] at hn
  exact ⟨View.wfAll_get fs i ft hw.2 hi, View.inRangeAll_get fs i ft hr.2 hi,
    noBoolSeriesAll_get fs i ft hn hi⟩

theorem TyGood.opt {hasNone : Bool} {opts : List Ty} {sel : Nat} {ot : Ty}
    (h : TyGood (.union hasNone opts)) (ho : unionOpt hasNone opts sel = some ot) : TyGood ot := by
  obtain ⟨hw, hr, hn⟩ := h
  obtain ⟨hm, _⟩ := ViewRoot.unionOpt_some hasNone opts sel ot ho
  obtain ⟨k, hk⟩ := List.getElem?_of_mem hm
  simp only [Ty.wf, Bool.and_eq_true] at hw
  simp only [View.inRange] at hr
  simp only [noBoolSeries] at hn
  exact ⟨ViewRoot.wfAll_mem opts ot hw.1.2 hm, View.inRangeAll_get opts k ot hr hk,
    ViewRoot.noBoolSeriesAll_mem opts ot hn hm⟩

/-! `TySmall` is inherited too (a list type with limit 0 says nothing about its element type) -/

theorem TySmall.vector_elem {e : Ty} {k : Nat} (h : TySmall (.vector e k)) (hk : 0 < k) :
    TySmall e := by
  unfold TySmall at h ⊢
  rw [Ty.maxSize] at h
  exact Nat.lt_of_le_of_lt (elem_maxSize e k hk) h

theorem TySmall.list_elem {e : Ty} {lim : Nat} (h : TySmall (.list e lim)) (hl : 0 < lim) :
    TySmall e := by
  unfold TySmall at h ⊢
  rw [Ty.maxSize] at h
  exact Nat.lt_of_le_of_lt (elem_maxSize e lim hl) h

theorem TySmall.field {fs : List Ty} {i : Nat} {ft : Ty} (h : TySmall (.container fs))
    (hi : fs[i]? = some ft) : TySmall ft := by
  unfold TySmall at h ⊢
  rw [Ty.maxSize] at h
  exact Nat.lt_of_le_of_lt (maxFields_get fs i ft hi) h

theorem TySmall.opt {hasNone : Bool} {opts : List Ty} {sel : Nat} {ot : Ty}
    (h : TySmall (.union hasNone opts)) (ho : unionOpt hasNone opts sel = some ot) : TySmall ot := by
  unfold TySmall at h ⊢
  obtain ⟨hm, _⟩ := ViewRoot.unionOpt_some hasNone opts sel ot ho
  rw [Ty.maxSize] at h
  have := maxOpts_mem opts ot hm
  omega

/-- the type of an element that the value model can read is good -/
theorem TyGood.valElem {t : Ty} {v : Val} {i : Nat} {et : Ty} {x : Val} (h : TyGood t)
    (he : valElem t v i = some (et, x)) : TyGood et := by
  cases t <;> cases v <;> simp only [Sim.valElem] at he <;> try (cases he; done)
  · -- bitvector
    simp only [Option.map_eq_some_iff, Prod.mk.injEq] at he
    obtain ⟨_, _, rfl, _⟩ := he
    exact tyGood_basic_bool
  · simp only [Option.map_eq_some_iff, Prod.mk.injEq] at he
    obtain ⟨_, _, rfl, _⟩ := he
    exact tyGood_basic_bool
  · -- vector
    simp only [Option.map_eq_some_iff, Prod.mk.injEq] at he
    obtain ⟨_, _, rfl, _⟩ := he
    exact h.vector_elem
  · -- list
    rename_i e lim vs
    simp only [Option.map_eq_some_iff, Prod.mk.injEq] at he
    obtain ⟨_, _, rfl, _⟩ := he
    exact h.list_elem
  · -- container
    rename_i fs vs
    cases hf : fs[i]? with
    | none => simp [hf] at he
    | some ft =>
      cases hv : vs[i]? with
      | none => simp [hf, hv] at he
      | some y =>
        simp only [hf, hv, Option.bind_eq_bind, Option.bind_some, Option.pure_def, Option.some.injEq,
          Prod.mk.injEq] at he
        obtain ⟨rfl, _⟩ := he
        exact h.field hf

/-! ### slot types (what `Set` / `Append` build a fresh view of) -/

theorem slotTy_wf (t : Ty) (hw : t.wf = true) (i : Nat) : (slotTy t i).wf = true := by
  cases t <;> simp only [slotTy] <;> try rfl
  · simp only [Ty.wf, Bool.and_eq_true] at hw; exact hw.2
  · simpa only [Ty.wf] using hw
  · rename_i fs
    simp only [Ty.wf, Bool.and_eq_true] at hw
    cases hf : fs[i]? with
    | some ft => exact View.wfAll_get fs i ft hw.2 hf
    | none =>
      simp only [Option.getD_none]
      cases fs with
      | nil => rfl
      | cons a _ => simp only [Ty.wfAll, Bool.and_eq_true] at hw; exact hw.2.1

theorem slotTy_noBool (t : Ty) (hw : noBoolSeries t = true) (i : Nat) :
    noBoolSeries (slotTy t i) = true := by
  cases t <;> simp only [slotTy] <;> try rfl
  · simp only [noBoolSeries, Bool.and_eq_true] at hw; exact hw.2
  · simp only [noBoolSeries, Bool.and_eq_true] at hw; exact hw.2
  · rename_i fs
    simp only [noBoolSeries] at hw
    cases hf : fs[i]? with
    | some ft => exact noBoolSeriesAll_get fs i ft hw hf
    | none =>
      simp only [Option.getD_none]
      cases fs with
      | nil => rfl
      | cons a _ => simp only [noBoolSeriesAll, Bool.and_eq_true] at hw; exact hw.1

theorem slotTyV_eq (t : Ty) (i : Nat) : slotTyV t i = slotTy t i := by
  cases t <;> rfl

/-! ### the default value is a typed value -/

theorem allHaveType_replicate (e : Ty) (v : Val) (hv : hasType e v = true) : ∀ n : Nat,
    allHaveType e (List.replicate n v) = true
  | 0 => rfl
  | n + 1 => by
    simp only [List.replicate_succ, allHaveType, Bool.and_eq_true]
    exact ⟨hv, allHaveType_replicate e v hv n⟩

mutual
theorem defaultVal_hasType : (t : Ty) → t.wf = true → hasType t (defaultVal t) = true
  | .uint b, _ => by
    simp only [defaultVal, hasType, decide_eq_true_eq]
    exact Nat.pow_pos (by decide)
  | .bool, _ => rfl
  | .bytesN n, _ => by simp [defaultVal, hasType]
  | .bitvector n, _ => by simp [defaultVal, hasType]
  | .bitlist lim, _ => by simp [defaultVal, hasType]
  | .vector e n, hw => by
    simp only [Ty.wf, Bool.and_eq_true] at hw
    simp only [defaultVal, hasType, List.length_replicate, beq_self_eq_true, Bool.true_and]
    exact allHaveType_replicate e _ (defaultVal_hasType e hw.2) n
  | .list e lim, _ => by simp [defaultVal, hasType, allHaveType]
  | .container fs, hw => by
    simp only [Ty.wf, Bool.and_eq_true] at hw
    simp only [defaultVal, hasType]
    exact defaultVals_hasType fs hw.2
  | .union hasNone opts, hw => by
    simp only [Ty.wf, Bool.and_eq_true] at hw
    cases hasNone with
    | true => unfold defaultVal; simp [hasType, unionOpt]
    | false =>
      cases opts with
      | nil => exact absurd hw.1.1 (by decide)
      | cons t ts =>
        have hwt : t.wf = true := by
          have := hw.1.2; simp only [Ty.wfAll, Bool.and_eq_true] at this; exact this.1
        have ih := defaultVal_hasType t hwt
        unfold defaultVal
        simp [hasType, unionOpt, ih]
theorem defaultVals_hasType : (fs : List Ty) → Ty.wfAll fs = true →
    fieldsHaveType fs (defaultVals fs) = true
  | [], _ => rfl
  | t :: ts, hw => by
    simp only [Ty.wfAll, Bool.and_eq_true] at hw
    simp only [defaultVals, fieldsHaveType, Bool.and_eq_true]
    exact ⟨defaultVal_hasType t hw.1, defaultVals_hasType ts hw.2⟩
end

end ZtypV

/-! ### the simulation relation -/

namespace ZtypV
open ZtypV.View ZtypV.Sim

/-- parents whose `Get` hands out hooked element views (`Sim.hooked`): complex series and
    containers — exactly the types whose slots hold element nodes -/
def hookParent : Ty → Bool
  | .vector e _ | .list e _ => !isBasicElem e
  | .container _ => true
  | _ => false

theorem hookParent_packedSlot {t : Ty} (h : hookParent t = true) : packedSlot t = false := by
  cases t <;> simp_all [hookParent, packedSlot]

theorem hooked_hookParent {pt et : Ty} (h : hooked pt et = true) : hookParent pt = true := by
  cases pt <;> simp_all [hooked, hookParent]

/-- one view object against one plain value: same type, same parent link, a good type, a typed
    value, and the object's backing tree represents the value -/
structure ObjRel (h : HashFn) (o : VObj) (vo : VObjV) : Prop where
  ty_eq : vo.ty = o.ty
  hook_eq : vo.parent = o.hook
  good : TyGood o.ty
  typed : hasType o.ty vo.val = true
  rep : Rep h o.ty vo.val o.node

/-- hook well-formedness of object `id`: the parent was created earlier, is a complex series
    or a container, and its slot type is this object's type -/
def HookOk (ms : Store) (id : Nat) (o : VObj) : Prop :=
  ∀ p slot, o.hook = some (p, slot) →
    p < id ∧ ∃ po, ms[p]? = some po ∧ hookParent po.ty = true ∧ slotTy po.ty slot = o.ty

/-- **the simulation relation** between the object store and the value store.  Every object
    is related to its own value individually; a child's value is NOT required to equal the
    parent's slot (a stale sub-view legitimately differs). -/
def Sim (h : HashFn) (ms : Store) (vs : VStore) : Prop :=
  ms.size = vs.size ∧
  ∀ id o, ms[id]? = some o → ∃ vo, vs[id]? = some vo ∧ ObjRel h o vo ∧ HookOk ms id o

/-! ### what the harness guarantees about operation arguments -/

/-- the size side condition of `Serialize` for the observation of one object: the type writes no
    offsets, or every encoding of the type fits `uint32`, or the current value's byte length
    (as the view itself reports it) does -/
def ObsOk (o : VObj) : Prop :=
  offsetFree o.ty = true ∨ TySmall o.ty ∨ ∃ n, valueByteLength o.ty o.node = .ok n ∧ n < 2 ^ 32

/-- argument well-formedness of one operation in store `ms` (nothing is required for unknown
    handles: both machines answer `nohandle`) -/
def OpOk (ms : Store) : Op → Prop
  | .set id i x => ∀ o, ms[id]? = some o → hasType (slotTy o.ty i) x = true
  | .app id x => ∀ o, ms[id]? = some o → hasType (slotTy o.ty 0) x = true
  | .setv id i s => ∀ o so, ms[id]? = some o → ms[s]? = some so → so.ty = slotTy o.ty i
  | .appv id s => ∀ o so, ms[id]? = some o → ms[s]? = some so → so.ty = slotTy o.ty 0
  | .chg id sel x => ∀ o hasNone opts, ms[id]? = some o → o.ty = .union hasNone opts →
      sel < 256 ∧ (x = .none → sel = 0 → hasNone = true) ∧
      (x ≠ .none → ¬ (hasNone = true ∧ sel = 0)) ∧
      (x ≠ .none → hasType ((unionOpt hasNone opts sel).getD (opts.headD .bool)) x = true)
  | .obs id => ∀ o, ms[id]? = some o → ObsOk o
  | _ => True

/-! ### whole histories -/

def runM (h : HashFn) : Store → List Op → List Out
  | _, [] => []
  | st, op :: ops => (stepM h st op).2 :: runM h (stepM h st op).1 ops

def runV (h : HashFn) : VStore → List Op → List Out
  | _, [] => []
  | st, op :: ops => (stepV h st op).2 :: runV h (stepV h st op).1 ops

def finalM (h : HashFn) : Store → List Op → Store
  | st, [] => st
  | st, op :: ops => finalM h (stepM h st op).1 ops

def finalV (h : HashFn) : VStore → List Op → VStore
  | st, [] => st
  | st, op :: ops => finalV h (stepV h st op).1 ops

/-- `OpOk` along the run (each operation is checked in the store it is applied to) -/
def OpsOk (h : HashFn) : Store → List Op → Prop
  | _, [] => True
  | st, op :: ops => OpOk st op ∧ OpsOk h (stepM h st op).1 ops

/-! ### store lemmas -/

theorem Sim.size_eq {h : HashFn} {ms : Store} {vs : VStore} (hs : Sim h ms vs) : ms.size = vs.size := hs.1

theorem Sim.lookup {h : HashFn} {ms : Store} {vs : VStore} (hs : Sim h ms vs) {id : Nat} {o : VObj}
    (hm : ms[id]? = some o) : ∃ vo, vs[id]? = some vo ∧ ObjRel h o vo ∧ HookOk ms id o := hs.2 id o hm

theorem Sim.lookup_none {h : HashFn} {ms : Store} {vs : VStore} (hs : Sim h ms vs) {id : Nat}
    (hm : ms[id]? = none) : vs[id]? = none := by
  rw [Array.getElem?_eq_none_iff] at hm ⊢
  rw [← hs.1]; exact hm

theorem lookup_lt {α : Type} {xs : Array α} {i : Nat} {a : α} (h : xs[i]? = some a) : i < xs.size := by
  obtain ⟨hlt, _⟩ := Array.getElem?_eq_some_iff.mp h
  exact hlt

/-- `HookOk` only looks at the types of earlier objects -/
theorem HookOk.mono {ms ms' : Store} {id : Nat} {o o' : VObj}
    (hk : HookOk ms id o) (hh : o'.hook = o.hook) (ht : o'.ty = o.ty)
    (hty : ∀ (p : Nat) (po : VObj), ms[p]? = some po → ∃ po' : VObj, ms'[p]? = some po' ∧ po'.ty = po.ty) :
    HookOk ms' id o' := by
  intro p slot hp
  rw [hh] at hp
  obtain ⟨hlt, po, hpo, hpar, hslot⟩ := hk p slot hp
  obtain ⟨po', hpo', hty'⟩ := hty p po hpo
  exact ⟨hlt, po', hpo', by rw [hty']; exact hpar, by rw [hty', ht]; exact hslot⟩

/-- rebinding one object to a new backing / value that are again `Rep`-related keeps `Sim` -/
theorem Sim.set {h : HashFn} {ms : Store} {vs : VStore} (hs : Sim h ms vs) {id : Nat} {o : VObj}
    {vo : VObjV} (hm : ms[id]? = some o) (hv : vs[id]? = some vo) {nv : Val} {b : Node}
    (hr : Rep h o.ty nv b) (ht : hasType o.ty nv = true) :
    Sim h (ms.set! id { o with node := b }) (vs.set! id { vo with val := nv }) := by
  have hlt := lookup_lt hm
  have hty : ∀ (p : Nat) (po : VObj), ms[p]? = some po →
      ∃ po' : VObj, (ms.set! id { o with node := b })[p]? = some po' ∧ po'.ty = po.ty := by
    intro p po hpo
    rw [Array.set!_eq_setIfInBounds, Array.getElem?_setIfInBounds]
    by_cases hp : id = p
    · subst hp
      rw [hm] at hpo; cases hpo
      simp only [if_true, hlt]; exact ⟨_, rfl, rfl⟩
    · simp only [hp, if_false]; exact ⟨po, hpo, rfl⟩
  refine ⟨by simp only [Array.set!_eq_setIfInBounds, Array.size_setIfInBounds]; exact hs.1, ?_⟩
  intro j oj hj
  rw [Array.set!_eq_setIfInBounds, Array.getElem?_setIfInBounds] at hj
  rw [Array.set!_eq_setIfInBounds, Array.getElem?_setIfInBounds]
  by_cases hp : id = j
  · subst hp
    simp only [if_true, hlt, Option.some.injEq] at hj
    subst hj
    obtain ⟨vo', hvo', hrel, hk⟩ := hs.lookup hm
    rw [hv] at hvo'; cases hvo'
    have hlt' : id < vs.size := by rw [← hs.1]; exact hlt
    simp only [if_true, hlt']
    exact ⟨_, rfl, ⟨hrel.ty_eq, hrel.hook_eq, hrel.good, ht, hr⟩, hk.mono rfl rfl hty⟩
  · simp only [hp, if_false] at hj ⊢
    obtain ⟨voj, hvoj, hrel, hk⟩ := hs.lookup hj
    exact ⟨voj, hvoj, hrel, hk.mono rfl rfl hty⟩

/-- a new object related to a new value extends `Sim` -/
theorem Sim.push {h : HashFn} {ms : Store} {vs : VStore} (hs : Sim h ms vs) {o : VObj} {vo : VObjV}
    (hrel : ObjRel h o vo) (hk : HookOk ms ms.size o) : Sim h (ms.push o) (vs.push vo) := by
  have hty : ∀ (p : Nat) (po : VObj), ms[p]? = some po →
      ∃ po' : VObj, (ms.push o)[p]? = some po' ∧ po'.ty = po.ty := by
    intro p po hpo
    have hlt := lookup_lt hpo
    rw [Array.getElem?_push, if_neg (by omega)]
    exact ⟨po, hpo, rfl⟩
  refine ⟨by simp only [Array.size_push, hs.1], ?_⟩
  intro j oj hj
  rw [Array.getElem?_push] at hj
  rw [Array.getElem?_push, ← hs.1]
  by_cases hp : j = ms.size
  · simp only [hp, if_true, Option.some.injEq] at hj ⊢
    subst hj
    exact ⟨_, rfl, hrel, hk.mono rfl rfl hty⟩
  · simp only [hp, if_false] at hj ⊢
    obtain ⟨voj, hvoj, hrelj, hkj⟩ := hs.lookup hj
    exact ⟨voj, hvoj, hrelj, hkj.mono rfl rfl hty⟩

end ZtypV
