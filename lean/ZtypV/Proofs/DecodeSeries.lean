/-
C03, series: bytes of a basic series are the packing of well-typed numbers; items decoded in
fixed-size sub-scopes (`decodeFixedItems`); generic sub-scope lemma.
-/
import ZtypV.Proofs.DecodeBasic
namespace ZtypV.DecodeProofs
open ZtypV ZtypV.View

/-- bytes of length `k * b` are the concatenated encodings of `k` numbers below `256^b` -/
theorem basic_series_vals (b : Nat) : ∀ (k : Nat) (bs : Bytes), bs.length = k * b →
    ∃ vs : List Val, vs.length = k ∧ allHaveType (.uint b) vs = true ∧
      (serList (.uint b) vs).flatten = bs := by
  intro k
  induction k with
  | zero =>
    intro bs hl
    have : bs = [] := List.eq_nil_of_length_eq_zero (by simpa using hl)
    subst this
    exact ⟨[], rfl, by simp [allHaveType], by simp [serList]⟩
  | succ k ih =>
    intro bs hl
    have hl' : bs.length = k * b + b := by rw [hl, Nat.succ_mul]
    obtain ⟨vs, hvl, hvt, hvs⟩ := ih (bs.drop b) (by rw [List.length_drop]; omega)
    have htl : (bs.take b).length = b := by rw [List.length_take]; omega
    have hrt : leBytes b (leNat (bs.take b)) = bs.take b := by
      have := leBytes_leNat (bs.take b)
      rwa [htl] at this
    refine ⟨.num (leNat (bs.take b)) :: vs, by simp [hvl], ?_, ?_⟩
    · have := leNat_lt (bs.take b)
      rw [htl] at this
      simp [allHaveType, hasType, hvt, this]
    · simp only [serList, serialize, List.flatten_cons, hvs, hrt, List.take_append_drop]

/-- what a successful item decoder in a sub-scope means -/
theorem inSub_sound {h : HashFn} {e : Ty} (he : Sound h e) {count : Nat}
    (hleaf : isLeafTy e = true → count = e.fixedSize) {dr dr' : DR} {n : Node}
    (hd : dr.inSub count (fun d => decode h e d) = .ok (n, dr')) :
    ∃ v, hasType e v = true ∧ serialize e v = dr.avail.take count ∧ count ≤ dr.avail.length ∧
      dr'.avail = dr.avail.drop count ∧ construct h e v = .ok n := by
  obtain ⟨c1, hf, hav⟩ := inSub_ok hd
  obtain ⟨v, hv, hser, hle, hc1, hcon⟩ := he _ _ _ hf (by
    intro hl; simpa [DR.scope] using hleaf hl)
  simp only [DR.scope, Nat.sub_zero, List.length_take] at hser hle hc1
  have hcl : count ≤ dr.avail.length := by omega
  refine ⟨v, hv, ?_, hcl, ?_, hcon⟩
  · rw [hser, List.take_take, Nat.min_self]
  · rw [hav, hc1, List.length_take, List.length_drop, List.length_take]
    congr 1; omega

theorem fixedItems_sound {h : HashFn} {e : Ty} (he : Sound h e) {size : Nat}
    (hleaf : isLeafTy e = true → size = e.fixedSize) :
    ∀ (k : Nat) (dr : DR) (ns : List Node) (dr' : DR),
      decodeFixedItems (fun d => decode h e d) size k dr = .ok (ns, dr') →
      ∃ vs : List Val, vs.length = k ∧ allHaveType e vs = true ∧
        (serList e vs).flatten = dr.avail.take (k * size) ∧ k * size ≤ dr.avail.length ∧
        dr'.avail = dr.avail.drop (k * size) ∧ constructList h e vs = .ok ns := by
  intro k
  induction k with
  | zero =>
    intro dr ns dr' hd
    rw [decodeFixedItems] at hd
    cases hd
    exact ⟨[], rfl, by simp [allHaveType], by simp [serList], by simp, by simp, by simp [constructList]⟩
  | succ k ih =>
    intro dr ns dr' hd
    rw [decodeFixedItems] at hd
    obtain ⟨⟨x, d1⟩, h1, hd⟩ := bind_eq_ok hd
    obtain ⟨⟨xs, d2⟩, h2, hd⟩ := bind_eq_ok hd
    cases hd
    obtain ⟨v, hv, hser, hle, hav, hcon⟩ := inSub_sound he hleaf h1
    obtain ⟨vs, hvl, hvt, hvs, hle2, hav2, hcon2⟩ := ih _ _ _ h2
    have hmul : (k + 1) * size = size + k * size := by rw [Nat.succ_mul]; omega
    rw [hav] at hvs hle2 hav2
    rw [List.length_drop] at hle2
    refine ⟨v :: vs, by simp [hvl], by simp [allHaveType, hv, hvt], ?_, by omega, ?_, ?_⟩
    · rw [hmul, List.take_add]
      simp only [serList, List.flatten_cons, hser, hvs]
    · rw [hmul, hav2, List.drop_drop]
    · simp [constructList, hcon, hcon2, bind, Except.bind]

theorem fixedItems_length {f : DR → R (Node × DR)} {size : Nat} :
    ∀ (k : Nat) (dr : DR) (ns : List Node) (dr' : DR),
      decodeFixedItems f size k dr = .ok (ns, dr') → ns.length = k := by
  intro k
  induction k with
  | zero => intro dr ns dr' hd; rw [decodeFixedItems] at hd; cases hd; rfl
  | succ k ih =>
    intro dr ns dr' hd
    rw [decodeFixedItems] at hd
    obtain ⟨⟨x, d1⟩, h1, hd⟩ := bind_eq_ok hd
    obtain ⟨⟨xs, d2⟩, h2, hd⟩ := bind_eq_ok hd
    cases hd
    simp [ih _ _ _ h2]

theorem fixedItems_ne_panic {f : DR → R (Node × DR)} (hf : ∀ d, f d ≠ .error .panic) {size : Nat} :
    ∀ (k : Nat) (dr : DR), decodeFixedItems f size k dr ≠ .error .panic := by
  intro k
  induction k with
  | zero => intro dr; rw [decodeFixedItems]; exact ok_ne_panic _
  | succ k ih =>
    intro dr
    rw [decodeFixedItems]
    apply bind_ne_panic (inSub_ne_panic dr size f hf)
    rintro ⟨x, d1⟩ _
    apply bind_ne_panic (ih d1)
    rintro ⟨xs, d2⟩ _
    exact ok_ne_panic _

end ZtypV.DecodeProofs
