/-
C20, helper lemmas, part 3: the allocation bound type by type and the master theorem
`decodeM_bound` (recursion over the type):

  successful runs   cost ≤ R t · scope + 192
  every run         cost ≤ R t · (bytes available) + R t · scope + 1024 · footprint t

with `R t = 1024 · (1 + maxDepth t)`.
-/
import ZtypV.Proofs.DecodeCostLoops
namespace ZtypV.CostProofs
open ZtypV ZtypV.View ZtypV.DecodeProofs

variable {α β : Type} {h : HashFn}

/-! ### arithmetic of one nesting level -/

/-- the rate of a level of subtree depth `dl` over a child of rate `re` -/
theorem rate_mul (dl re x : Nat) :
    (1024 * (1 + dl) + re) * x = 1024 * x + 1024 * (dl * x) + re * x := by
  rw [Nat.add_mul, Nat.mul_assoc, Nat.add_mul, Nat.one_mul]
  omega

theorem le_mul_scope {d s : Nat} (hs : 1 ≤ s) : d ≤ d * s := Nat.le_mul_of_pos_right d hs

theorem chunks_le {s : Nat} (hs : 1 ≤ s) : (s + 31) / 32 ≤ s := by omega

theorem acc_tick (n m : Nat) (g : Unit → CR β) : n + (CR.tick m >>= g).cost = n + m + (g ()).cost := by
  rw [cost_bind_ok (a := ()) rfl, cost_tick, Nat.add_assoc]

theorem bind_le {x : CR α} {f : α → CR β} {B : Nat} (hx : x.cost ≤ B)
    (hf : ∀ a, x.res = .ok a → x.cost + (f a).cost ≤ B) : (x >>= f).cost ≤ B := by
  have := acc_bind_le (n := 0) (x := x) (f := f) (B := B) (by omega) (by
    intro a ha; have := hf a ha; omega)
  omega

theorem cost_fillC_le (h : HashFn) (d : Nat) (ns : List Node) :
    (fillC h d ns).cost ≤ 64 * ns.length + 64 * d := by
  have := fillCost_le d ns.length
  simp only [fillC]
  omega

theorem cost_orNilC (r : CR Node) : (orNilC r).cost = r.cost := rfl
theorem cost_orOtherC (r : CR Node) : (orOtherC r).cost = r.cost := rfl

/-- `BytesIntoNodes` then `SubtreeFillToContents` then the tail `tl` (view and mix-in) -/
theorem bytes_fill_le (h : HashFn) (d : Nat) (bs : Bytes) (tl : Nat) (g : Node → CR β)
    (hg : ∀ n, (g n).cost ≤ tl) :
    (do
      let ns ← bytesIntoNodesC bs
      let c ← orNilC (fillC h d ns)
      g c).cost ≤ 112 * ((bs.length + 31) / 32) + 64 * d + tl := by
  rw [cost_bind_ok (a := bytesIntoNodes bs) rfl]
  have h1 : (bytesIntoNodesC bs).cost = 48 * ((bs.length + 31) / 32) := rfl
  have h2 := cost_fillC_le h d (bytesIntoNodes bs)
  rw [bytesIntoNodes_length] at h2
  rw [h1, cost_bind]
  rw [cost_orNilC]
  split
  · rename_i n _; have := hg n; omega
  · omega


/-! ### types without element decoders: one bound for every run -/

theorem uint_all (b : Nat) (dr : DR) : (decodeM h (.uint b) dr).cost ≤ 160 := by
  rw [decodeM]
  apply bind_le
  · rw [cost_lift]; omega
  · rintro ⟨bs, dr'⟩ _
    dsimp only
    rw [cost_lift, cost_bind_ok (a := ()) rfl, cost_tick, cost_pure]; omega

theorem bool_all (dr : DR) : (decodeM h .bool dr).cost ≤ 160 := by
  rw [decodeM]
  apply bind_le
  · rw [cost_lift]; omega
  · rintro ⟨bs, dr'⟩ _
    dsimp only
    rw [cost_lift]
    split
    · split
      · rw [cost_fail]; omega
      · rw [cost_bind_ok (a := ()) rfl, cost_tick, cost_pure]; omega
    · rw [cost_fail]; omega

theorem bytesN_all (k : Nat) (dr : DR) : (decodeM h (.bytesN k) dr).cost ≤ k + 160 := by
  rw [decodeM]
  rw [cost_bind_ok (a := ()) rfl, cost_tick]
  apply Nat.add_le_add_left
  apply bind_le
  · rw [cost_lift]; omega
  · rintro ⟨bs, dr'⟩ _
    dsimp only
    rw [cost_lift, cost_bind_ok (a := ()) rfl, cost_tick, cost_pure]; omega

theorem bitvector_all (k : Nat) (hk : 1 ≤ k) (dr : DR) :
    (decodeM h (.bitvector k) dr).cost ≤ (1024 * (1 + bitDepth k) + 0) * dr.scope + 192 := by
  rw [decodeM, rate_mul]
  dsimp only
  split
  · rw [cost_fail]; omega
  · rename_i hsc
    have hs : 1 ≤ dr.scope := by omega
    have hd := le_mul_scope (d := bitDepth k) hs
    have hcc := chunks_le hs
    rw [cost_bind_ok (a := ()) rfl, cost_tick]
    refine Nat.le_trans (?_ : _ ≤ 113 * dr.scope + 64 * bitDepth k + 128) (by omega)
    apply acc_bind_le
    · rw [cost_lift]; omega
    · rintro ⟨bs, dr'⟩ h1
      rw [res_lift] at h1
      obtain ⟨_, _, hlen⟩ := read_ok' h1
      dsimp only
      rw [cost_lift]
      split
      · rw [cost_fail]; omega
      · have := bytes_fill_le h (bitDepth k) bs 128 (fun n => (do CR.tick 128; pure (n, dr') : CR (Node × DR)))
          (fun n => by rw [cost_bind_ok (a := ()) rfl, cost_tick, cost_pure]; omega)
        rw [hlen] at this
        omega


theorem tick_pure_cost (m : Nat) (a : α) : (do CR.tick m; (pure a : CR α)).cost = m := by
  rw [cost_bind_ok (a := ()) rfl, cost_tick, cost_pure]; rfl

theorem bitlist_all (lim : Nat) (re : Nat) (dr : DR) :
    (decodeM h (.bitlist lim) dr).cost ≤ (1024 * (1 + (bitDepth lim + 1)) + re) * dr.scope + 192 := by
  rw [decodeM, rate_mul]
  dsimp only
  split
  · rw [cost_fail]; omega
  split
  · rw [cost_fail]; omega
  rename_i hs0 _
  have hs : 1 ≤ dr.scope := by omega
  have hd := le_mul_scope (d := bitDepth lim + 1) hs
  have hcc := chunks_le hs
  rw [cost_bind_ok (a := ()) rfl, cost_tick]
  refine Nat.le_trans (?_ : _ ≤ 113 * dr.scope + 64 * bitDepth lim + 224) (by omega)
  apply acc_bind_le
  · rw [cost_lift]; omega
  · rintro ⟨bs, dr'⟩ h1
    rw [res_lift] at h1
    obtain ⟨_, _, hlen⟩ := read_ok' h1
    dsimp only
    rw [cost_lift]
    split
    · rw [cost_fail]; omega
    split
    · rw [cost_fail]; omega
    split
    · rw [tick_pure_cost]; omega
    split
    · rw [cost_fail]; omega
    · rename_i last _ _ _ _
      have hl : ∀ contents : Bytes, contents.length ≤ dr.scope →
          (do
            let ns ← bytesIntoNodesC contents
            let c ← orNilC (fillC h (bitDepth lim) ns)
            (do CR.tick 224
                pure (c.pair (lengthNode ((dr.scope - 1) * 8 + byteBitIndex last)), dr') :
                  CR (Node × DR))).cost ≤ 112 * dr.scope + 64 * bitDepth lim + 224 := by
        intro contents hc
        have := bytes_fill_le h (bitDepth lim) contents 224
          (fun c => (do CR.tick 224
                        pure (c.pair (lengthNode ((dr.scope - 1) * 8 + byteBitIndex last)), dr') :
                          CR (Node × DR)))
          (fun n => by rw [tick_pure_cost]; omega)
        have : (contents.length + 31) / 32 ≤ dr.scope := by omega
        omega
      have := hl (if byteBitIndex last = 0 then bs.dropLast
          else bs.dropLast ++ [UInt8.ofNat (last.toNat - 2 ^ byteBitIndex last)]) (by
        split <;> simp [List.length_dropLast] <;> omega)
      omega

theorem vector_basic_all {e : Ty} (k re : Nat) (hb : isBasicElem e = true) (hs : 1 ≤ k * e.fixedSize)
    (dr : DR) :
    (decodeM h (.vector e k) dr).cost ≤ (1024 * (1 + seriesDepth e k) + re) * dr.scope + 192 := by
  rw [decodeM, rate_mul]
  dsimp only
  rw [if_pos hb]
  split
  · rw [cost_fail]; omega
  · rename_i hsc
    have hs : 1 ≤ dr.scope := by omega
    have hd := le_mul_scope (d := seriesDepth e k) hs
    have hcc := chunks_le hs
    rw [cost_bind_ok (a := ()) rfl, cost_tick]
    refine Nat.le_trans (?_ : _ ≤ 113 * dr.scope + 64 * seriesDepth e k + 128) (by omega)
    apply acc_bind_le
    · rw [cost_lift]; omega
    · rintro ⟨bs, dr'⟩ h1
      rw [res_lift] at h1
      obtain ⟨_, _, hlen⟩ := read_ok' h1
      dsimp only
      rw [cost_lift]
      have := bytes_fill_le h (seriesDepth e k) bs 128 (fun n => (do CR.tick 128; pure (n, dr') : CR (Node × DR)))
        (fun n => by rw [tick_pure_cost]; omega)
      rw [hlen] at this
      omega

theorem list_basic_all {e : Ty} (lim re : Nat) (hb : isBasicElem e = true) (dr : DR) :
    (decodeM h (.list e lim) dr).cost ≤ (1024 * (1 + (seriesDepth e lim + 1)) + re) * dr.scope + 192 := by
  rw [decodeM, rate_mul]
  dsimp only
  rw [if_pos hb]
  split
  · rw [cost_fail]; omega
  split
  · rw [cost_fail]; omega
  split
  · rw [tick_pure_cost]; omega
  · rename_i _ hsc hl0
    have hs : 1 ≤ dr.scope := by
      rcases Nat.eq_zero_or_pos dr.scope with h0 | h0
      · rw [h0, Nat.zero_div] at hl0; exact absurd rfl hl0
      · exact h0
    have hd := le_mul_scope (d := seriesDepth e lim + 1) hs
    have hcc := chunks_le hs
    rw [cost_bind_ok (a := ()) rfl, cost_tick]
    refine Nat.le_trans (?_ : _ ≤ 113 * dr.scope + 64 * seriesDepth e lim + 224) (by omega)
    apply acc_bind_le
    · rw [cost_lift]; omega
    · rintro ⟨bs, dr'⟩ h1
      rw [res_lift] at h1
      obtain ⟨_, _, hlen⟩ := read_ok' h1
      dsimp only
      rw [cost_lift]
      have := bytes_fill_le h (seriesDepth e lim) bs 224
        (fun c => (do CR.tick 224; pure (c.pair (lengthNode (dr.scope / e.fixedSize)), dr') : CR (Node × DR)))
        (fun n => by rw [tick_pure_cost]; omega)
      rw [hlen] at this
      omega


/-! ### vectors of complex elements -/

theorem seriesDepth_complex {e : Ty} (n : Nat) (hb : ¬ isBasicElem e = true) :
    seriesDepth e n = coverDepth n := by
  simp [seriesDepth, hb]

/-- the tail of every series decoder: `FromElements` (node slice, fill) and the view/mix-in -/
theorem from_elements_le (h : HashFn) (m d tl : Nat) (ns : List Node) (g : Node → CR β)
    (hg : ∀ n, (g n).cost ≤ tl) :
    (do
      CR.tick (16 * m)
      let c ← orNilC (fillC h d ns)
      g c).cost ≤ 16 * m + 64 * ns.length + 64 * d + tl := by
  rw [cost_bind_ok (a := ()) rfl, cost_tick, cost_bind, cost_orNilC]
  have h2 := cost_fillC_le h d ns
  split
  · rename_i n _; have := hg n; omega
  · omega

theorem vector_fixed_ok {e : Ty} {k re : Nat} (hb : ¬ isBasicElem e = true) (hf : e.isFixed = true)
    (hk : 1 ≤ k) (hsz : 1 ≤ e.fixedSize) (hok : OKc h e re) :
    OKc h (.vector e k) (1024 * (1 + seriesDepth e k) + re) := by
  intro dr n dr' hr hleaf
  obtain ⟨hcs, hcd⟩ := consumed hr hleaf
  rw [decodeM] at hr ⊢
  rw [rate_mul, seriesDepth_complex k hb]
  dsimp only at hr ⊢
  rw [if_neg hb, if_pos hf] at hr ⊢
  by_cases hsc : k * e.fixedSize ≠ dr.scope
  · rw [if_pos hsc] at hr; cases hr
  rw [if_neg hsc] at hr ⊢
  have hsc : k * e.fixedSize = dr.scope := by omega
  have hks : k ≤ dr.scope := by rw [← hsc]; exact Nat.le_mul_of_pos_right k hsz
  rw [res_bind_ok (a := ()) rfl] at hr
  rw [cost_bind_ok (a := ()) rfl, cost_tick]
  obtain ⟨⟨ns, d1⟩, h1, hr, hc1⟩ := bind_ok_inv hr
  rw [hc1]
  obtain ⟨a1, a2, a3⟩ := fixedItems_ok hok (fun _ => rfl) k dr ns d1 h1
  have ht := from_elements_le h k (coverDepth k) 128 ns
    (fun n => (do CR.tick 128; pure (n, d1) : CR (Node × DR)))
    (fun n => by rw [tick_pure_cost]; omega)
  refine Nat.le_trans (Nat.add_le_add_left (Nat.add_le_add_left ht _) _) ?_
  -- the reader after the loop is the final reader
  have hd1 : d1 = dr' := by
    dsimp only at hr
    rw [res_bind_ok (a := ()) rfl] at hr
    obtain ⟨c, _, hr, _⟩ := bind_ok_inv hr
    rw [res_bind_ok (a := ()) rfl] at hr
    cases hr; rfl
  subst hd1
  have hv : d1.avail.length = dr.avail.length - dr.scope := by rw [hcd, List.length_drop]
  have e1 := mul_split re dr.scope dr.avail.length hcs
  rw [← hv] at e1
  have hs : 1 ≤ dr.scope := by omega
  have hd := le_mul_scope (d := coverDepth k) hs
  omega


theorem vector_fixed_any {e : Ty} {k re Fe : Nat} (hb : ¬ isBasicElem e = true) (hf : e.isFixed = true)
    (hk : 1 ≤ k) (hsz : 1 ≤ e.fixedSize) (hok : OKc h e re) (hany : ANYc h e re Fe) :
    ANYc h (.vector e k) (1024 * (1 + seriesDepth e k) + re) (1024 * k + Fe) := by
  intro dr
  rw [decodeM, rate_mul, rate_mul, seriesDepth_complex k hb]
  dsimp only
  rw [if_neg hb, if_pos hf]
  split
  · rw [cost_fail]; omega
  rename_i hsc
  have hsc : k * e.fixedSize = dr.scope := by omega
  have hks : k ≤ dr.scope := by rw [← hsc]; exact Nat.le_mul_of_pos_right k hsz
  have hs : 1 ≤ dr.scope := by omega
  have hd := le_mul_scope (d := coverDepth k) hs
  rw [cost_bind_ok (a := ()) rfl, cost_tick]
  apply acc_bind_le
  · have := fixedItems_any hok hany (fun _ => rfl) k dr
    omega
  · rintro ⟨ns, d1⟩ h1
    obtain ⟨a1, a2, a3⟩ := fixedItems_ok hok (fun _ => rfl) k dr ns d1 h1
    have ht := from_elements_le h k (coverDepth k) 128 ns
      (fun n => (do CR.tick 128; pure (n, d1) : CR (Node × DR)))
      (fun n => by rw [tick_pure_cost]; omega)
    refine Nat.le_trans (Nat.add_le_add_left ht _) ?_
    omega

theorem not_leaf_of_not_fixed' {t : Ty} (hf : ¬ t.isFixed = true) : isLeafTy t = false :=
  isLeafTy_false_of_not_fixed hf

theorem vector_var_ok {e : Ty} {k re : Nat} (hb : ¬ isBasicElem e = true) (hf : ¬ e.isFixed = true)
    (hk : 1 ≤ k) (hok : OKc h e re) :
    OKc h (.vector e k) (1024 * (1 + seriesDepth e k) + re) := by
  intro dr n dr' hr hleaf
  obtain ⟨hcs, hcd⟩ := consumed hr hleaf
  rw [decodeM] at hr ⊢
  rw [rate_mul, seriesDepth_complex k hb]
  dsimp only at hr ⊢
  rw [if_neg hb, if_neg hf] at hr ⊢
  rw [res_bind_ok (a := ()) rfl] at hr
  rw [cost_bind_ok (a := ()) rfl, cost_tick]
  rw [if_neg (by omega)] at hr ⊢
  obtain ⟨⟨first, dr1⟩, h1, hr, hc1⟩ := bind_ok_inv hr
  rw [hc1, cost_lift]
  dsimp only at hr ⊢
  rw [res_lift] at h1
  obtain ⟨s1, v1⟩ := readOffset_ok' h1
  by_cases hfi : first ≠ k * 4
  · rw [if_pos hfi] at hr; cases hr
  rw [if_neg hfi] at hr ⊢
  obtain ⟨⟨os, dr2⟩, h2, hr, hc2⟩ := bind_ok_inv hr
  rw [hc2]
  dsimp only at hr ⊢
  have hc2' : (readOffsetsC (k - 1) first dr1).cost = 0 := rfl
  rw [hc2']
  rw [res_readOffsetsC] at h2
  obtain ⟨ol, s2, v2⟩ := readOffsets_ok' _ _ _ _ _ h2
  rw [res_bind_ok (a := ()) rfl] at hr
  rw [cost_bind_ok (a := ()) rfl, cost_tick]
  obtain ⟨⟨ns, dr3⟩, h3, hr, hc3⟩ := bind_ok_inv hr
  rw [hc3]
  obtain ⟨a1, a2, a3⟩ := offsetItems_ok hok (not_leaf_of_not_fixed' hf) dr.scope (first :: os) dr2 ns dr3 h3
  have ht := from_elements_le h k (coverDepth k) 128 ns
    (fun n => (do CR.tick 128; pure (n, dr3) : CR (Node × DR)))
    (fun n => by rw [tick_pure_cost]; omega)
  simp only [Nat.zero_add, ← Nat.add_assoc]
  refine Nat.le_trans (Nat.add_le_add_left ht _) ?_
  have hd3 : dr3 = dr' := by
    dsimp only at hr
    rw [res_bind_ok (a := ()) rfl] at hr
    obtain ⟨c, _, hr, _⟩ := bind_ok_inv hr
    rw [res_bind_ok (a := ()) rfl] at hr
    cases hr; rfl
  subst hd3
  have hv : dr3.avail.length = dr.avail.length - dr.scope := by rw [hcd, List.length_drop]
  have e1 := mul_split re dr.scope dr.avail.length hcs
  rw [← hv] at e1
  have e2 : re * dr2.avail.length ≤ re * dr.avail.length := Nat.mul_le_mul_left re (by omega)
  have hs : 1 ≤ dr.scope := by omega
  have hd := le_mul_scope (d := coverDepth k) hs
  simp only [List.length_cons] at a1 a3
  omega

theorem vector_var_any {e : Ty} {k re Fe : Nat} (hb : ¬ isBasicElem e = true) (hf : ¬ e.isFixed = true)
    (hk : 1 ≤ k) (hok : OKc h e re) (hany : ANYc h e re Fe) :
    ANYc h (.vector e k) (1024 * (1 + seriesDepth e k) + re) (1024 * k + Fe) := by
  intro dr
  rw [decodeM, rate_mul, rate_mul, seriesDepth_complex k hb]
  dsimp only
  rw [if_neg hb, if_neg hf]
  rw [cost_bind_ok (a := ()) rfl, cost_tick]
  rw [if_neg (by omega)]
  apply acc_bind_le
  · rw [cost_lift]; omega
  rintro ⟨first, dr1⟩ h1
  rw [res_lift] at h1
  obtain ⟨s1, v1⟩ := readOffset_ok' h1
  rw [cost_lift]
  dsimp only
  split
  · rw [cost_fail]; omega
  apply acc_bind_le
  · have : (readOffsetsC (k - 1) first dr1).cost = 0 := rfl
    omega
  rintro ⟨os, dr2⟩ h2
  have hc2' : (readOffsetsC (k - 1) first dr1).cost = 0 := rfl
  rw [hc2']
  rw [res_readOffsetsC] at h2
  obtain ⟨ol, s2, v2⟩ := readOffsets_ok' _ _ _ _ _ h2
  dsimp only
  have hs : 1 ≤ dr.scope := by omega
  have hd := le_mul_scope (d := coverDepth k) hs
  have e2 : re * dr2.avail.length ≤ re * dr.avail.length := Nat.mul_le_mul_left re (by omega)
  have e3 : re * dr2.scope ≤ re * dr.scope := Nat.mul_le_mul_left re (by omega)
  rw [acc_tick]
  apply acc_bind_le
  · have := offsetItems_any hok hany (not_leaf_of_not_fixed' hf) dr.scope (first :: os) dr2
    simp only [List.length_cons] at this
    omega
  rintro ⟨ns, dr3⟩ h3
  obtain ⟨a1, a2, a3⟩ := offsetItems_ok hok (not_leaf_of_not_fixed' hf) dr.scope (first :: os) dr2 ns dr3 h3
  have ht := from_elements_le h k (coverDepth k) 128 ns
    (fun n => (do CR.tick 128; pure (n, dr3) : CR (Node × DR)))
    (fun n => by rw [tick_pure_cost]; omega)
  refine Nat.le_trans (Nat.add_le_add_left ht _) ?_
  simp only [List.length_cons] at a1 a3
  omega


/-! ### lists of complex elements -/

theorem list_complex_ok {e : Ty} {lim re : Nat} (hb : ¬ isBasicElem e = true)
    (hsz : e.isFixed = true → 1 ≤ e.fixedSize) (hok : OKc h e re) :
    OKc h (.list e lim) (1024 * (1 + (seriesDepth e lim + 1)) + re) := by
  intro dr n dr' hr hleaf
  obtain ⟨hcs, hcd⟩ := consumed hr hleaf
  rw [decodeM] at hr ⊢
  rw [rate_mul, seriesDepth_complex lim hb]
  dsimp only at hr ⊢
  rw [if_neg hb] at hr ⊢
  by_cases hs0 : dr.scope = 0
  · rw [if_pos hs0, tick_pure_cost]; omega
  rw [if_neg hs0] at hr ⊢
  have hs : 1 ≤ dr.scope := by omega
  have hd := le_mul_scope (d := coverDepth lim + 1) hs
  by_cases hf : e.isFixed = true
  · rw [if_pos hf] at hr ⊢
    have hsz := hsz hf
    rw [if_neg (by omega)] at hr ⊢
    by_cases hl1 : dr.scope / e.fixedSize > lim
    · rw [if_pos hl1] at hr; cases hr
    rw [if_neg hl1] at hr ⊢
    by_cases hl2 : dr.scope / e.fixedSize * e.fixedSize ≠ dr.scope
    · rw [if_pos hl2] at hr; cases hr
    rw [if_neg hl2] at hr ⊢
    generalize hL : dr.scope / e.fixedSize = L at hr hl1 hl2 ⊢
    have hl2 : L * e.fixedSize = dr.scope := by omega
    have hLs : L ≤ dr.scope := by rw [← hl2]; exact Nat.le_mul_of_pos_right L hsz
    rw [res_bind_ok (a := ()) rfl] at hr
    rw [cost_bind_ok (a := ()) rfl, cost_tick]
    obtain ⟨⟨ns, d1⟩, h1, hr, hc1⟩ := bind_ok_inv hr
    rw [hc1]
    obtain ⟨a1, a2, a3⟩ := fixedItems_ok hok (fun _ => rfl) L dr ns d1 h1
    have ht := from_elements_le h L (coverDepth lim) 224 ns
      (fun c => (do CR.tick 224; pure (c.pair (lengthNode L), d1) : CR (Node × DR)))
      (fun n => by rw [tick_pure_cost]; omega)
    simp only [← Nat.add_assoc]
    refine Nat.le_trans (Nat.add_le_add_left ht _) ?_
    have hd1 : d1 = dr' := by
      dsimp only at hr
      rw [res_bind_ok (a := ()) rfl] at hr
      obtain ⟨c, _, hr, _⟩ := bind_ok_inv hr
      rw [res_bind_ok (a := ()) rfl] at hr
      cases hr; rfl
    subst hd1
    have hv : d1.avail.length = dr.avail.length - dr.scope := by rw [hcd, List.length_drop]
    have e1 := mul_split re dr.scope dr.avail.length hcs
    rw [← hv] at e1
    omega
  · rw [if_neg hf] at hr ⊢
    obtain ⟨⟨first, dr1⟩, h1, hr, hc1⟩ := bind_ok_inv hr
    rw [hc1, cost_lift]
    dsimp only at hr ⊢
    rw [res_lift] at h1
    obtain ⟨s1, v1⟩ := readOffset_ok' h1
    by_cases hm : first % 4 ≠ 0
    · rw [if_pos hm] at hr; cases hr
    rw [if_neg hm] at hr ⊢
    by_cases hr0 : first = 0 ∨ first > dr.scope
    · rw [if_pos hr0] at hr; cases hr
    rw [if_neg hr0] at hr ⊢
    by_cases hl1 : first / 4 > lim
    · rw [if_pos hl1] at hr; cases hr
    rw [if_neg hl1] at hr ⊢
    generalize hL : first / 4 = L at hr hl1 ⊢
    have hL4 : 4 * L ≤ dr.scope ∧ 1 ≤ L := by omega
    rw [res_bind_ok (a := ()) rfl] at hr
    rw [cost_bind_ok (a := ()) rfl, cost_tick]
    obtain ⟨⟨os, dr2⟩, h2, hr, hc2⟩ := bind_ok_inv hr
    rw [hc2]
    dsimp only at hr ⊢
    have hc2' : (readOffsetsC (L - 1) first dr1).cost = 0 := rfl
    rw [hc2']
    rw [res_readOffsetsC] at h2
    obtain ⟨ol, s2, v2⟩ := readOffsets_ok' _ _ _ _ _ h2
    rw [res_bind_ok (a := ()) rfl] at hr
    rw [cost_bind_ok (a := ()) rfl, cost_tick]
    obtain ⟨⟨ns, dr3⟩, h3, hr, hc3⟩ := bind_ok_inv hr
    rw [hc3]
    obtain ⟨a1, a2, a3⟩ :=
      offsetItems_ok hok (not_leaf_of_not_fixed' hf) dr.scope (first :: os) dr2 ns dr3 h3
    have ht := from_elements_le h L (coverDepth lim) 224 ns
      (fun c => (do CR.tick 224; pure (c.pair (lengthNode L), dr3) : CR (Node × DR)))
      (fun n => by rw [tick_pure_cost]; omega)
    simp only [Nat.zero_add, ← Nat.add_assoc]
    refine Nat.le_trans (Nat.add_le_add_left ht _) ?_
    have hd3 : dr3 = dr' := by
      dsimp only at hr
      rw [res_bind_ok (a := ()) rfl] at hr
      obtain ⟨c, _, hr, _⟩ := bind_ok_inv hr
      rw [res_bind_ok (a := ()) rfl] at hr
      cases hr; rfl
    subst hd3
    have hv : dr3.avail.length = dr.avail.length - dr.scope := by rw [hcd, List.length_drop]
    have e1 := mul_split re dr.scope dr.avail.length hcs
    rw [← hv] at e1
    have e2 : re * dr2.avail.length ≤ re * dr.avail.length := Nat.mul_le_mul_left re (by omega)
    simp only [List.length_cons] at a1 a3
    omega

theorem list_complex_any {e : Ty} {lim re Fe : Nat} (hb : ¬ isBasicElem e = true)
    (hsz : e.isFixed = true → 1 ≤ e.fixedSize) (hok : OKc h e re) (hany : ANYc h e re Fe) :
    ANYc h (.list e lim) (1024 * (1 + (seriesDepth e lim + 1)) + re) (1024 + Fe) := by
  intro dr
  rw [decodeM, rate_mul, rate_mul, seriesDepth_complex lim hb]
  dsimp only
  rw [if_neg hb]
  by_cases hs0 : dr.scope = 0
  · rw [if_pos hs0, tick_pure_cost]; omega
  rw [if_neg hs0]
  have hs : 1 ≤ dr.scope := by omega
  have hd := le_mul_scope (d := coverDepth lim + 1) hs
  by_cases hf : e.isFixed = true
  · rw [if_pos hf]
    have hsz := hsz hf
    rw [if_neg (by omega)]
    split
    · rw [cost_fail]; omega
    split
    · rw [cost_fail]; omega
    rename_i hl1 hl2
    generalize hL : dr.scope / e.fixedSize = L at hl1 hl2 ⊢
    have hl2 : L * e.fixedSize = dr.scope := by omega
    have hLs : L ≤ dr.scope := by rw [← hl2]; exact Nat.le_mul_of_pos_right L hsz
    rw [cost_bind_ok (a := ()) rfl, cost_tick]
    apply acc_bind_le
    · have := fixedItems_any hok hany (fun _ => rfl) L dr
      omega
    · rintro ⟨ns, d1⟩ h1
      obtain ⟨a1, a2, a3⟩ := fixedItems_ok hok (fun _ => rfl) L dr ns d1 h1
      have ht := from_elements_le h L (coverDepth lim) 224 ns
        (fun c => (do CR.tick 224; pure (c.pair (lengthNode L), d1) : CR (Node × DR)))
        (fun n => by rw [tick_pure_cost]; omega)
      refine Nat.le_trans (Nat.add_le_add_left ht _) ?_
      omega
  · rw [if_neg hf]
    apply bind_le
    · rw [cost_lift]; omega
    rintro ⟨first, dr1⟩ h1
    rw [res_lift] at h1
    obtain ⟨s1, v1⟩ := readOffset_ok' h1
    rw [cost_lift]
    dsimp only
    split
    · rw [cost_fail]; omega
    split
    · rw [cost_fail]; omega
    split
    · rw [cost_fail]; omega
    rename_i hm hr0 hl1
    generalize hL : first / 4 = L at hl1 ⊢
    have hL4 : 4 * L ≤ dr.scope ∧ 1 ≤ L := by omega
    rw [acc_tick]
    apply acc_bind_le
    · have : (readOffsetsC (L - 1) first dr1).cost = 0 := rfl
      omega
    rintro ⟨os, dr2⟩ h2
    have hc2' : (readOffsetsC (L - 1) first dr1).cost = 0 := rfl
    rw [hc2']
    rw [res_readOffsetsC] at h2
    obtain ⟨ol, s2, v2⟩ := readOffsets_ok' _ _ _ _ _ h2
    dsimp only
    have e2 : re * dr2.avail.length ≤ re * dr.avail.length := Nat.mul_le_mul_left re (by omega)
    have e3 : re * dr2.scope ≤ re * dr.scope := Nat.mul_le_mul_left re (by omega)
    rw [acc_tick]
    apply acc_bind_le
    · have := offsetItems_any hok hany (not_leaf_of_not_fixed' hf) dr.scope (first :: os) dr2
      simp only [List.length_cons] at this
      omega
    rintro ⟨ns, dr3⟩ h3
    obtain ⟨a1, a2, a3⟩ :=
      offsetItems_ok hok (not_leaf_of_not_fixed' hf) dr.scope (first :: os) dr2 ns dr3 h3
    have ht := from_elements_le h L (coverDepth lim) 224 ns
      (fun c => (do CR.tick 224; pure (c.pair (lengthNode L), dr3) : CR (Node × DR)))
      (fun n => by rw [tick_pure_cost]; omega)
    refine Nat.le_trans (Nat.add_le_add_left ht _) ?_
    simp only [List.length_cons] at a1 a3
    omega


/-! ### containers -/

theorem minFields_ge : ∀ fs : List Ty, (∀ t ∈ fs, t.wf = true) → fs.length ≤ Ty.minFields fs
  | [], _ => by simp [Ty.minFields]
  | t :: ts, hw => by
    have ih := minFields_ge ts (fun t' ht' => hw t' (by simp [ht']))
    have hwt := hw t (by simp)
    rw [Ty.minFields]
    simp only [List.length_cons]
    by_cases hf : t.isFixed = true
    · have := fixedSize_pos t hwt hf
      rw [if_pos hf]; omega
    · rw [if_neg hf]; omega

theorem dynCount_le : ∀ fs : List Ty, dynCount fs ≤ fs.length
  | [] => by simp [dynCount]
  | t :: ts => by
    have := dynCount_le ts
    rw [dynCount]; simp only [List.length_cons]
    split <;> omega

/-- `FromFields`: node slice, fill (its error is returned), the view -/
theorem from_fields_le (h : HashFn) (m d tl : Nat) (ns : List Node) (g : Node → CR β)
    (hg : ∀ n, (g n).cost ≤ tl) :
    (do
      CR.tick (16 * m)
      let c ← orOtherC (fillC h d ns)
      g c).cost ≤ 16 * m + 64 * ns.length + 64 * d + tl := by
  rw [cost_bind_ok (a := ()) rfl, cost_tick, cost_bind, cost_orOtherC]
  have h2 := cost_fillC_le h d ns
  split
  · rename_i n _; have := hg n; omega
  · omega

theorem container_ok {fs : List Ty} {re : Nat} (hne : 1 ≤ fs.length) (hwf : ∀ t ∈ fs, t.wf = true)
    (hok : ∀ t ∈ fs, OKc h t re) :
    OKc h (.container fs) (1024 * (1 + coverDepth fs.length) + re) := by
  intro dr n dr' hr hleaf
  obtain ⟨hcs, hcd⟩ := consumed hr hleaf
  rw [decodeM] at hr ⊢
  rw [rate_mul]
  dsimp only at hr ⊢
  rw [res_bind_ok (a := ()) rfl] at hr
  rw [cost_bind_ok (a := ()) rfl, cost_tick]
  by_cases hsc : dr.scope < Ty.minFields fs ∨ dr.scope > Ty.maxFields fs
  · rw [if_pos hsc] at hr; cases hr
  rw [if_neg hsc] at hr ⊢
  have hnf := minFields_ge fs hwf
  have hnd := dynCount_le fs
  obtain ⟨⟨slots, offs, dr1⟩, h1, hr, hc1⟩ := bind_ok_inv hr
  rw [hc1]
  dsimp only at hr ⊢
  obtain ⟨⟨dyn, dr2⟩, h2, hr, hc2⟩ := bind_ok_inv hr
  rw [hc2]
  dsimp only at hr ⊢
  obtain ⟨a1, a2, a3, a4⟩ := fixedPart_ok fs hok _ _ _ _ _ _ _ h1
  obtain ⟨b1, b2⟩ := dynPart_ok fs hok _ _ _ _ _ h2
  have ht := from_fields_le h fs.length (coverDepth fs.length) 128 (mergeFields slots dyn)
    (fun n => (do CR.tick 128; pure (n, dr2) : CR (Node × DR)))
    (fun n => by rw [tick_pure_cost]; omega)
  rw [mergeFields_length, a1] at ht
  simp only [← Nat.add_assoc]
  refine Nat.le_trans (Nat.add_le_add_left ht _) ?_
  have hd2 : dr2 = dr' := by
    rw [res_bind_ok (a := ()) rfl] at hr
    obtain ⟨c, _, hr, _⟩ := bind_ok_inv hr
    rw [res_bind_ok (a := ()) rfl] at hr
    cases hr; rfl
  subst hd2
  have hv : dr2.avail.length = dr.avail.length - dr.scope := by rw [hcd, List.length_drop]
  have e1 := mul_split re dr.scope dr.avail.length hcs
  rw [← hv] at e1
  have hs : 1 ≤ dr.scope := by omega
  have hd := le_mul_scope (d := coverDepth fs.length) hs
  omega

theorem container_any {fs : List Ty} {re Fm : Nat} (hne : 1 ≤ fs.length) (hwf : ∀ t ∈ fs, t.wf = true)
    (hok : ∀ t ∈ fs, OKc h t re) (hany : ∀ t ∈ fs, ANYc h t re Fm) :
    ANYc h (.container fs) (1024 * (1 + coverDepth fs.length) + re) (1024 * fs.length + Fm) := by
  intro dr
  rw [decodeM, rate_mul, rate_mul]
  dsimp only
  rw [cost_bind_ok (a := ()) rfl, cost_tick]
  have hnd := dynCount_le fs
  split
  · rw [cost_fail]; omega
  rename_i hsc
  have hnf := minFields_ge fs hwf
  have hd : coverDepth fs.length ≤ coverDepth fs.length * dr.scope := le_mul_scope (by omega)
  apply acc_bind_le
  · have := fixedPart_any fs hok hany (Ty.fixedPart fs) true dr.scope dr
    omega
  rintro ⟨slots, offs, dr1⟩ h1
  obtain ⟨a1, a2, a3, a4⟩ := fixedPart_ok fs hok _ _ _ _ _ _ _ h1
  dsimp only
  have e3 : re * dr1.scope ≤ re * dr.scope := Nat.mul_le_mul_left re a3
  apply acc_bind_le
  · have := dynPart_any fs hok hany dr.scope offs dr1
    omega
  rintro ⟨dyn, dr2⟩ h2
  obtain ⟨b1, b2⟩ := dynPart_ok fs hok _ _ _ _ _ h2
  dsimp only
  have ht := from_fields_le h fs.length (coverDepth fs.length) 128 (mergeFields slots dyn)
    (fun n => (do CR.tick 128; pure (n, dr2) : CR (Node × DR)))
    (fun n => by rw [tick_pure_cost]; omega)
  rw [mergeFields_length, a1] at ht
  refine Nat.le_trans (Nat.add_le_add_left ht _) ?_
  omega

/-! ### unions -/

theorem optM_ok {re : Nat} : ∀ (opts : List Ty), (∀ t ∈ opts, OKc h t re) →
    ∀ (k : Nat) (dr : DR) (n : Node) (dr' : DR),
    (decodeOptM h opts k dr.scope dr).res = .ok (n, dr') →
    (decodeOptM h opts k dr.scope dr).cost ≤ re * dr.scope + 192
  | [], _, k, dr, n, dr', hr => by rw [decodeOptM] at hr; cases hr
  | t :: ts, hok, 0, dr, n, dr', hr => by
    rw [decodeOptM] at hr ⊢
    split at hr
    · cases hr
    · rename_i hc
      rw [if_neg hc]
      refine hok t (by simp) dr n dr' hr ?_
      intro hl
      have hfx := isFixed_of_isLeafTy hl
      simp only [hfx, Bool.true_and, bne_iff_ne, ne_eq, Decidable.not_not] at hc
      exact hc.symm
  | t :: ts, hok, k + 1, dr, n, dr', hr => by
    rw [decodeOptM] at hr ⊢
    exact optM_ok ts (fun t' ht' => hok t' (by simp [ht'])) k dr n dr' hr

theorem optM_any {re Fm : Nat} : ∀ (opts : List Ty), (∀ t ∈ opts, ANYc h t re Fm) →
    ∀ (k rem : Nat) (dr : DR),
    (decodeOptM h opts k rem dr).cost ≤ re * dr.avail.length + re * dr.scope + Fm
  | [], _, k, rem, dr => by rw [decodeOptM, cost_fail]; omega
  | t :: ts, hany, 0, rem, dr => by
    rw [decodeOptM]
    split
    · rw [cost_fail]; omega
    · exact hany t (by simp) dr
  | t :: ts, hany, k + 1, rem, dr => by
    rw [decodeOptM]
    exact optM_any ts (fun t' ht' => hany t' (by simp [ht'])) k rem dr

theorem union_ok {hasNone : Bool} {opts : List Ty} {re : Nat} (hok : ∀ t ∈ opts, OKc h t re) :
    OKc h (.union hasNone opts) (1024 * (1 + 1) + re) := by
  intro dr n dr' hr _
  rw [decodeM] at hr ⊢
  rw [rate_mul]
  dsimp only at hr ⊢
  by_cases hs0 : dr.scope = 0
  · rw [if_pos hs0] at hr; cases hr
  rw [if_neg hs0] at hr ⊢
  obtain ⟨⟨sb, dr1⟩, h1, hr, hc1⟩ := bind_ok_inv hr
  rw [hc1, cost_lift]
  dsimp only at hr ⊢
  rw [res_lift] at h1
  obtain ⟨s1, v1, _⟩ := read_ok' h1
  by_cases hsel : (sb.getD 0 0).toNat ≥ opts.length + (if hasNone = true then 1 else 0)
  · rw [if_pos hsel] at hr; cases hr
  rw [if_neg hsel] at hr ⊢
  by_cases hnone : (hasNone && (sb.getD 0 0).toNat == 0) = true
  · rw [if_pos hnone]
    split
    · rw [cost_fail]; omega
    · rw [tick_pure_cost]; omega
  · rw [if_neg hnone] at hr ⊢
    obtain ⟨⟨c, dr2⟩, h2, hr, hc2⟩ := bind_ok_inv hr
    rw [hc2]
    dsimp only
    rw [tick_pure_cost]
    have hsc : dr.scope - 1 = dr1.scope := by omega
    rw [hsc] at h2 ⊢
    have := optM_ok opts hok _ dr1 c dr2 h2
    have e3 : re * dr1.scope ≤ re * dr.scope := Nat.mul_le_mul_left re (by omega)
    omega

theorem union_any {hasNone : Bool} {opts : List Ty} {re Fm : Nat} (hany : ∀ t ∈ opts, ANYc h t re Fm) :
    ANYc h (.union hasNone opts) (1024 * (1 + 1) + re) (1024 + Fm) := by
  intro dr
  rw [decodeM, rate_mul, rate_mul]
  dsimp only
  split
  · rw [cost_fail]; omega
  apply bind_le
  · rw [cost_lift]; omega
  rintro ⟨sb, dr1⟩ h1
  rw [res_lift] at h1
  obtain ⟨s1, v1, _⟩ := read_ok' h1
  rw [cost_lift]
  dsimp only
  by_cases hsel : (sb.getD 0 0).toNat ≥ opts.length + (if hasNone = true then 1 else 0)
  · rw [if_pos hsel, cost_fail]; omega
  rw [if_neg hsel]
  by_cases hnone : (hasNone && (sb.getD 0 0).toNat == 0) = true
  · rw [if_pos hnone]
    split
    · rw [cost_fail]; omega
    · rw [tick_pure_cost]; omega
  · rw [if_neg hnone]
    have := optM_any opts hany (if hasNone = true then (sb.getD 0 0).toNat - 1 else (sb.getD 0 0).toNat)
      (dr.scope - 1) dr1
    have e2 : re * dr1.avail.length ≤ re * dr.avail.length := Nat.mul_le_mul_left re (by omega)
    have e3 : re * dr1.scope ≤ re * dr.scope := Nat.mul_le_mul_left re (by omega)
    apply acc_bind_le
    · omega
    · rintro ⟨c, dr2⟩ h2
      dsimp only
      rw [tick_pure_cost]
      omega


/-! ### the master theorem -/

theorem mem_maxDepths : ∀ (fs : List Ty) (t : Ty), t ∈ fs → maxDepth t ≤ maxDepths fs
  | [], t, ht => by cases ht
  | a :: as, t, ht => by
    rw [maxDepths]
    rcases List.mem_cons.mp ht with rfl | ht'
    · exact Nat.le_max_left _ _
    · exact Nat.le_trans (mem_maxDepths as t ht') (Nat.le_max_right _ _)

theorem mem_footprints : ∀ (fs : List Ty) (t : Ty), t ∈ fs → footprint t ≤ footprints fs
  | [], t, ht => by cases ht
  | a :: as, t, ht => by
    rw [footprints]
    rcases List.mem_cons.mp ht with rfl | ht'
    · omega
    · have := mem_footprints as t ht'; omega

theorem ok_of_all {t : Ty} {r0 r : Nat} (hall : ∀ dr, (decodeM h t dr).cost ≤ r0 * dr.scope + 192)
    (hr : r0 ≤ r) : OKc h t r := by
  intro dr n dr' _ _
  have := hall dr
  have := Nat.mul_le_mul_right dr.scope hr
  omega

theorem any_of_all {t : Ty} {r0 r F : Nat} (hall : ∀ dr, (decodeM h t dr).cost ≤ r0 * dr.scope + 192)
    (hr : r0 ≤ r) (hF : 192 ≤ F) : ANYc h t r F := by
  intro dr
  have := hall dr
  have := Nat.mul_le_mul_right dr.scope hr
  omega

theorem footprint_pos : (t : Ty) → t.wf = true → 1 ≤ footprint t
  | .uint _, _ | .bool, _ | .bytesN _, _ | .bitvector _, _ | .bitlist _, _ => by simp [footprint]
  | .vector e k, hw => by
    simp only [Ty.wf, Bool.and_eq_true, decide_eq_true_eq] at hw
    rw [footprint]; omega
  | .list e _, _ => by rw [footprint]; omega
  | .container fs, hw => by
    simp only [Ty.wf, Bool.and_eq_true] at hw
    rw [footprint]
    cases fs with
    | nil => simp at hw
    | cons a as => simp only [List.length_cons]; omega
  | .union _ fs, _ => by rw [footprint]; omega

/-- allocation bound of the instrumented decoder, for every well-formed type:
    successful runs and all runs -/
theorem decodeM_bound (h : HashFn) : (t : Ty) → t.wf = true →
    OKc h t (1024 * (1 + maxDepth t)) ∧ ANYc h t (1024 * (1 + maxDepth t)) (1024 * footprint t)
  | .uint b, _ => by
    have hall : ∀ dr, (decodeM h (.uint b) dr).cost ≤ 0 * dr.scope + 192 := fun dr => by
      have := uint_all (h := h) b dr; omega
    exact ⟨ok_of_all hall (by omega), any_of_all hall (by omega) (by simp [footprint])⟩
  | .bool, _ => by
    have hall : ∀ dr, (decodeM h .bool dr).cost ≤ 0 * dr.scope + 192 := fun dr => by
      have := bool_all (h := h) dr; omega
    exact ⟨ok_of_all hall (by omega), any_of_all hall (by omega) (by simp [footprint])⟩
  | .bytesN k, hw => by
    simp only [Ty.wf, Bool.and_eq_true, decide_eq_true_eq] at hw
    have hall : ∀ dr, (decodeM h (.bytesN k) dr).cost ≤ 0 * dr.scope + 192 := fun dr => by
      have := bytesN_all (h := h) k dr; omega
    exact ⟨ok_of_all hall (by omega), any_of_all hall (by omega) (by simp [footprint])⟩
  | .bitvector k, hw => by
    simp only [Ty.wf, decide_eq_true_eq] at hw
    have hall := bitvector_all (h := h) k hw
    exact ⟨ok_of_all hall (by rw [maxDepth]; omega),
      any_of_all hall (by rw [maxDepth]; omega) (by simp [footprint])⟩
  | .bitlist lim, _ => by
    have hall := bitlist_all (h := h) lim 0
    exact ⟨ok_of_all hall (by rw [maxDepth]; omega),
      any_of_all hall (by rw [maxDepth]; omega) (by simp [footprint])⟩
  | .vector e k, hw => by
    simp only [Ty.wf, Bool.and_eq_true, decide_eq_true_eq] at hw
    obtain ⟨hok, hany⟩ := decodeM_bound h e hw.2
    have hr : 1024 * (1 + seriesDepth e k) + 1024 * (1 + maxDepth e) =
        1024 * (1 + maxDepth (.vector e k)) := by rw [maxDepth]; omega
    have hF : 1024 * k + 1024 * footprint e = 1024 * footprint (.vector e k) := by
      rw [footprint]; omega
    by_cases hb : isBasicElem e = true
    · have hsz := fixedSize_pos e hw.2 (by
        obtain ⟨b, rfl⟩ := basic_is_uint hb; rfl)
      have hall := vector_basic_all (h := h) k (1024 * (1 + maxDepth e)) hb
        (Nat.mul_pos (by omega) hsz)
      rw [hr] at hall
      have := footprint_pos (.vector e k) (by simp [Ty.wf, hw.1, hw.2])
      exact ⟨ok_of_all hall (Nat.le_refl _), any_of_all hall (Nat.le_refl _) (by omega)⟩
    · by_cases hf : e.isFixed = true
      · have hsz := fixedSize_pos e hw.2 hf
        have h1 := vector_fixed_ok (k := k) hb hf hw.1 hsz hok
        have h2 := vector_fixed_any (k := k) hb hf hw.1 hsz hok hany
        rw [hr] at h1 h2; rw [hF] at h2
        exact ⟨h1, h2⟩
      · have h1 := vector_var_ok (k := k) hb hf hw.1 hok
        have h2 := vector_var_any (k := k) hb hf hw.1 hok hany
        rw [hr] at h1 h2; rw [hF] at h2
        exact ⟨h1, h2⟩
  | .list e lim, hw => by
    simp only [Ty.wf] at hw
    obtain ⟨hok, hany⟩ := decodeM_bound h e hw
    have hr : 1024 * (1 + (seriesDepth e lim + 1)) + 1024 * (1 + maxDepth e) =
        1024 * (1 + maxDepth (.list e lim)) := by rw [maxDepth]; omega
    have hF : 1024 + 1024 * footprint e = 1024 * footprint (.list e lim) := by
      rw [footprint]; omega
    by_cases hb : isBasicElem e = true
    · have hall := list_basic_all (h := h) lim (1024 * (1 + maxDepth e)) hb
      rw [hr] at hall
      exact ⟨ok_of_all hall (Nat.le_refl _), any_of_all hall (Nat.le_refl _) (by omega)⟩
    · have h1 := list_complex_ok (lim := lim) hb (fixedSize_pos e hw) hok
      have h2 := list_complex_any (lim := lim) hb (fixedSize_pos e hw) hok hany
      rw [hr] at h1 h2; rw [hF] at h2
      exact ⟨h1, h2⟩
  | .container fs, hw => by
    simp only [Ty.wf, Bool.and_eq_true] at hw
    have hwf := wfAll_mem fs hw.2
    have hne : 1 ≤ fs.length := by
      cases fs with
      | nil => simp at hw
      | cons a as => simp
    have hok : ∀ t ∈ fs, OKc h t (1024 * (1 + maxDepths fs)) := fun t ht =>
      (decodeM_bound h t (hwf t ht)).1.mono (by have := mem_maxDepths fs t ht; omega)
    have hany : ∀ t ∈ fs, ANYc h t (1024 * (1 + maxDepths fs)) (1024 * footprints fs) := fun t ht =>
      (decodeM_bound h t (hwf t ht)).2.mono (by have := mem_maxDepths fs t ht; omega)
        (by have := mem_footprints fs t ht; omega)
    have hr : 1024 * (1 + coverDepth fs.length) + 1024 * (1 + maxDepths fs) =
        1024 * (1 + maxDepth (.container fs)) := by rw [maxDepth]; omega
    have hF : 1024 * fs.length + 1024 * footprints fs = 1024 * footprint (.container fs) := by
      rw [footprint]; omega
    have h1 := container_ok hne hwf hok
    have h2 := container_any hne hwf hok hany
    rw [hr] at h1 h2; rw [hF] at h2
    exact ⟨h1, h2⟩
  | .union hasNone opts, hw => by
    simp only [Ty.wf, Bool.and_eq_true] at hw
    have hwf := wfAll_mem opts hw.1.2
    have hok : ∀ t ∈ opts, OKc h t (1024 * (1 + maxDepths opts)) := fun t ht =>
      (decodeM_bound h t (hwf t ht)).1.mono (by have := mem_maxDepths opts t ht; omega)
    have hany : ∀ t ∈ opts, ANYc h t (1024 * (1 + maxDepths opts)) (1024 * footprints opts) := fun t ht =>
      (decodeM_bound h t (hwf t ht)).2.mono (by have := mem_maxDepths opts t ht; omega)
        (by have := mem_footprints opts t ht; omega)
    have hr : 1024 * (1 + 1) + 1024 * (1 + maxDepths opts) =
        1024 * (1 + maxDepth (.union hasNone opts)) := by rw [maxDepth]; omega
    have hF : 1024 + 1024 * footprints opts = 1024 * footprint (.union hasNone opts) := by
      rw [footprint]; omega
    have h1 := union_ok (hasNone := hasNone) hok
    have h2 := union_any (hasNone := hasNone) hany
    rw [hr] at h1 h2; rw [hF] at h2
    exact ⟨h1, h2⟩
termination_by t => sizeOf t
decreasing_by
  all_goals simp_wf
  all_goals first
    | omega
    | (have := List.sizeOf_lt_of_mem ‹_›; omega)

end ZtypV.CostProofs
